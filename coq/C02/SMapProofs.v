(* C02 -- proofs about the string_map model of SMapDefs.v: load factor, termination of the probing loops, what get answers,
   iteration order.  The main theorems are at the end of the file. *)
From CppcmsV Require Import Base.Tac.
From CppcmsV Require Import C02.SMapDefs.

(* ------------------------------------------------------------------ keys *)
Lemma beq_key_eq : forall a b, beq_key a b = true <-> a = b.
Proof.
  induction a as [|x a IH]; intros [|y b]; cbn [beq_key]; split; intros H; try congruence; try reflexivity.
  - apply andb_true_iff in H. destruct H as [H1 H2]. apply N.eqb_eq in H1. apply IH in H2. congruence.
  - inversion H; subst. apply andb_true_iff. split. apply N.eqb_refl. apply IH. reflexivity.
Qed.

Lemma beq_key_refl : forall a, beq_key a a = true.
Proof. intros a. apply beq_key_eq. reflexivity. Qed.

Definition wh (e : entry) : Prop := ehash e = smap_hash (ekey e).

Lemma wh_entry_of : forall k v, wh (entry_of k v).
Proof. intros k v. reflexivity. Qed.

Lemma em_wh : forall e k, wh e -> entry_matches e (smap_hash k) k = beq_key (ekey e) k.
Proof.
  intros e k Hw. unfold entry_matches. rewrite Hw.
  destruct (beq_key (ekey e) k) eqn:B.
  - apply beq_key_eq in B. rewrite B. rewrite N.eqb_refl. reflexivity.
  - apply andb_false_r.
Qed.

(* ------------------------------------------------------------------ set_nth, slot, occupied *)
Definition occupied (d : table) : nat :=
  length (filter (fun s => match s with Some _ => true | None => false end) d).

Lemma set_nth_length : forall A p (x : A) l, length (set_nth p x l) = length l.
Proof.
  intros A p x l. revert p. induction l as [|y t IH]; intros p; destruct p as [|p]; cbn [set_nth length]; try reflexivity.
  rewrite IH. reflexivity.
Qed.

Lemma slot_set_same : forall d p x, p < length d -> slot (set_nth p x d) p = x.
Proof.
  unfold slot. induction d as [|y t IH]; intros p x Hp; cbn [length] in Hp.
  - lia.
  - destruct p as [|p]; cbn [set_nth nth]. reflexivity. apply IH. lia.
Qed.

Lemma slot_set_other : forall d p q x, q <> p -> slot (set_nth p x d) q = slot d q.
Proof.
  unfold slot. induction d as [|y t IH]; intros p q x Hne; destruct p as [|p]; cbn [set_nth]; try reflexivity.
  - destruct q as [|q]; cbn [nth]; try reflexivity; try lia.
  - destruct q as [|q]; cbn [nth]; try reflexivity; try lia.
    apply IH. lia.
Qed.

Lemma slot_repeat : forall c p, slot (repeat None c) p = None.
Proof.
  unfold slot. induction c as [|c IH]; intros p; cbn [repeat]; destruct p as [|p]; cbn [nth]; try reflexivity.
  apply IH.
Qed.

Lemma occupied_cons : forall x d, occupied (x :: d) = (match x with Some _ => 1 | None => 0 end) + occupied d.
Proof. intros x d. unfold occupied. cbn [filter]. destruct x; reflexivity. Qed.

Lemma occupied_repeat : forall c, occupied (repeat None c) = 0.
Proof. induction c as [|c IH]; cbn [repeat]. reflexivity. rewrite occupied_cons. exact IH. Qed.

Lemma occupied_set : forall d p e, p < length d -> slot d p = None ->
  occupied (set_nth p (Some e) d) = S (occupied d).
Proof.
  induction d as [|y t IH]; intros p e Hp Hn; cbn [length] in Hp.
  - lia.
  - destruct p as [|p]; cbn [set_nth].
    + unfold slot in Hn. cbn [nth] in Hn. subst y. rewrite !occupied_cons. reflexivity.
    + rewrite !occupied_cons. rewrite IH. lia. lia. exact Hn.
Qed.

Lemma occupied_free : forall d, occupied d < length d -> exists q, q < length d /\ slot d q = None.
Proof.
  induction d as [|y t IH]; intros H.
  - cbn in H. lia.
  - rewrite occupied_cons in H. cbn [length] in H. destruct y as [e|].
    + destruct IH as (q & Hq & Hs). lia. exists (S q). cbn [length]. split. lia. exact Hs.
    + exists 0. cbn [length]. split. lia. reflexivity.
Qed.

(* ------------------------------------------------------------------ the probing loops terminate when an empty slot exists *)
Lemma start_pos_lt : forall h n, 0 < n -> start_pos h n < n.
Proof. intros h n Hn. unfold start_pos. lia. Qed.

Lemma next_pos_lt : forall s n, 0 < n -> next_pos s n < n.
Proof. intros s n Hn. unfold next_pos. apply Nat.mod_upper_bound. lia. Qed.

Lemma path_step : forall n s dist, n <> 0 -> (next_pos s n + dist) mod n = (s + S dist) mod n.
Proof. intros n s dist Hn. unfold next_pos. rewrite Nat.add_mod_idemp_l by assumption. f_equal. lia. Qed.

Lemma reach : forall n s q, s < n -> q < n -> exists dist, dist < n /\ (s + dist) mod n = q.
Proof.
  intros n s q Hs Hq. exists ((q + n - s) mod n). split.
  - apply Nat.mod_upper_bound. lia.
  - rewrite Nat.add_mod_idemp_r by lia. replace (s + (q + n - s)) with (q + 1 * n) by lia.
    rewrite Nat.mod_add by lia. apply Nat.mod_small. exact Hq.
Qed.

Lemma probe_free_dist : forall dist fuel d s, s < length d -> dist < fuel ->
  slot d ((s + dist) mod length d) = None ->
  exists p, probe_free fuel d s = Some p /\ p < length d /\ slot d p = None.
Proof.
  induction dist as [|dist IH]; intros fuel d s Hs Hf Hn; (destruct fuel as [|f]; [lia|]); cbn [probe_free].
  - rewrite Nat.add_0_r, Nat.mod_small in Hn by lia. rewrite Hn. exists s. auto.
  - destruct (slot d s) eqn:E.
    + apply IH. apply next_pos_lt. lia. lia. rewrite path_step by lia. exact Hn.
    + exists s. auto.
Qed.

Lemma probe_free_ok : forall d s, s < length d -> occupied d < length d ->
  exists p, probe_free (length d) d s = Some p /\ p < length d /\ slot d p = None.
Proof.
  intros d s Hs Ho. destruct (occupied_free d Ho) as (q & Hq & Hnone).
  destruct (reach (length d) s q Hs Hq) as (dist & Hd & He).
  apply (probe_free_dist dist). exact Hs. exact Hd. rewrite He. exact Hnone.
Qed.

Lemma get_loop_dist : forall dist fuel d h k s, s < length d -> dist < fuel ->
  slot d ((s + dist) mod length d) = None -> get_loop fuel d h k s <> GHang.
Proof.
  induction dist as [|dist IH]; intros fuel d h k s Hs Hf Hn; (destruct fuel as [|f]; [lia|]); cbn [get_loop].
  - rewrite Nat.add_0_r, Nat.mod_small in Hn by lia. rewrite Hn. discriminate.
  - destruct (slot d s) eqn:E.
    + destruct (entry_matches e h k). discriminate.
      apply IH. apply next_pos_lt. lia. lia. rewrite path_step by lia. exact Hn.
    + discriminate.
Qed.

Definition tget (d : table) (k : list N) : get_result :=
  get_loop (length d) d (smap_hash k) k (start_pos (smap_hash k) (length d)).

Lemma tget_nohang : forall d k, occupied d < length d -> tget d k <> GHang.
Proof.
  intros d k Ho. destruct (occupied_free d Ho) as (q & Hq & Hnone).
  assert (Hs : start_pos (smap_hash k) (length d) < length d) by (apply start_pos_lt; lia).
  destruct (reach (length d) _ q Hs Hq) as (dist & Hd & He).
  unfold tget. apply (get_loop_dist dist). exact Hs. exact Hd. rewrite He. exact Hnone.
Qed.

(* ------------------------------------------------------------------ get_loop against a write into an empty slot *)
Lemma get_found_set : forall fuel d h k s p x v, slot d p = None ->
  get_loop fuel d h k s = GFound v -> get_loop fuel (set_nth p x d) h k s = GFound v.
Proof.
  induction fuel as [|f IH]; intros d h k s p x v Hp G; cbn [get_loop] in *.
  - discriminate.
  - destruct (slot d s) eqn:E; [|discriminate].
    assert (Hne : s <> p) by (intros ->; congruence).
    rewrite slot_set_other by exact Hne. rewrite E.
    destruct (entry_matches e h k). exact G.
    rewrite set_nth_length. apply IH. exact Hp. exact G.
Qed.

Lemma get_absent_set : forall fuel d h k s, s < length d ->
  get_loop fuel d h k s = GAbsent ->
  exists q, probe_free fuel d s = Some q /\ q < length d /\ slot d q = None /\
    forall x, entry_matches x h k = true -> get_loop fuel (set_nth q (Some x) d) h k s = GFound (evalue x).
Proof.
  induction fuel as [|f IH]; intros d h k s Hs G; cbn [get_loop probe_free] in *.
  - discriminate.
  - destruct (slot d s) eqn:E.
    + destruct (entry_matches e h k) eqn:M; [discriminate|].
      destruct (IH d h k (next_pos s (length d))) as (q & Hq & Hlt & Hnone & Hx).
      apply next_pos_lt. lia. exact G.
      exists q. split. exact Hq. split. exact Hlt. split. exact Hnone.
      intros x Mx. assert (Hne : s <> q) by (intros ->; congruence).
      rewrite slot_set_other by exact Hne. rewrite E, M. rewrite set_nth_length. apply Hx. exact Mx.
    + exists s. split. reflexivity. split. exact Hs. split. exact E.
      intros x Mx. rewrite slot_set_same by exact Hs. rewrite Mx. reflexivity.
Qed.

Lemma get_found_inv : forall fuel d h k s v, get_loop fuel d h k s = GFound v ->
  exists q e, slot d q = Some e /\ entry_matches e h k = true /\ evalue e = v.
Proof.
  induction fuel as [|f IH]; intros d h k s v G; cbn [get_loop] in *.
  - discriminate.
  - destruct (slot d s) eqn:E; [|discriminate].
    destruct (entry_matches e h k) eqn:M.
    + exists s, e. split. exact E. split. exact M. congruence.
    + apply IH in G. exact G.
Qed.

(* ------------------------------------------------------------------ the table invariant and one insert *)
Definition Jinv (d : table) : Prop :=
  forall k, tget d k = GAbsent -> forall p e, slot d p = Some e -> ekey e <> k.
Definition WH (d : table) : Prop := forall p e, slot d p = Some e -> wh e.

Lemma order_find_app : forall es e k,
  order_find (es ++ [e]) k =
  match order_find es k with
  | GFound v => GFound v
  | GAbsent => if beq_key (ekey e) k then GFound (evalue e) else GAbsent
  | GHang => GHang
  end.
Proof.
  unfold order_find. induction es as [|a es IH]; intros e k; cbn [app find].
  - destruct (beq_key (ekey e) k); reflexivity.
  - destruct (beq_key (ekey a) k). reflexivity. apply IH.
Qed.

Definition TI (d : table) (es : list entry) : Prop :=
  0 < length d /\ occupied d = length es /\ Jinv d /\ WH d /\ forall k, tget d k = order_find es k.

Lemma TI_repeat : forall c, 0 < c -> TI (repeat None c) [].
Proof.
  intros c Hc. unfold TI. rewrite repeat_length. split. exact Hc. split. apply occupied_repeat.
  split. intros k _ p e Hs. rewrite slot_repeat in Hs. discriminate.
  split. intros p e Hs. rewrite slot_repeat in Hs. discriminate.
  intros k. unfold tget. rewrite repeat_length. destruct c as [|c]. lia.
  cbn [get_loop]. rewrite slot_repeat. reflexivity.
Qed.

Lemma insert_get : forall d e, 0 < length d -> Jinv d -> WH d -> wh e -> occupied d + 1 < length d ->
  exists p, insert d e = Some (set_nth p (Some e) d, p) /\ p < length d /\ slot d p = None /\
    forall k, tget (set_nth p (Some e) d) k =
      match tget d k with
      | GFound v => GFound v
      | GAbsent => if beq_key (ekey e) k then GFound (evalue e) else GAbsent
      | GHang => GHang
      end.
Proof.
  intros d e Hlen HJ HW Hwe Hocc. unfold insert.
  destruct (probe_free_ok d (start_pos (ehash e) (length d))) as (p & Hp & Hlt & Hnone).
  apply start_pos_lt. exact Hlen. lia.
  rewrite Hp. exists p. split. reflexivity. split. exact Hlt. split. exact Hnone.
  intros k. destruct (tget d k) eqn:G.
  - unfold tget in *. rewrite set_nth_length. apply get_found_set. exact Hnone. exact G.
  - destruct (beq_key (ekey e) k) eqn:B.
    + pose proof B as B2. apply beq_key_eq in B2. unfold tget in *. rewrite set_nth_length.
      destruct (get_absent_set _ _ _ _ _ (start_pos_lt (smap_hash k) (length d) Hlen) G) as (q & Hq & _ & _ & Hx).
      rewrite Hwe in Hp. rewrite B2 in Hp. rewrite Hp in Hq. inversion Hq; subst q.
      apply Hx. rewrite em_wh by exact Hwe. exact B.
    + destruct (tget (set_nth p (Some e) d) k) eqn:G2.
      * exfalso. unfold tget in G2. apply get_found_inv in G2. destruct G2 as (q & e1 & Hs & M & _).
        destruct (Nat.eq_dec q p) as [->|Hne].
        -- rewrite slot_set_same in Hs by exact Hlt. inversion Hs; subst e1.
           rewrite em_wh in M by exact Hwe. congruence.
        -- rewrite slot_set_other in Hs by exact Hne.
           rewrite em_wh in M by (eapply HW; exact Hs). apply beq_key_eq in M.
           exact (HJ k G q e1 Hs M).
      * reflexivity.
      * exfalso. revert G2. apply tget_nohang. rewrite set_nth_length. rewrite occupied_set by assumption. lia.
  - exfalso. revert G. apply tget_nohang. lia.
Qed.

Lemma insert_TI : forall d es e, TI d es -> wh e -> length es + 1 < length d ->
  exists p, insert d e = Some (set_nth p (Some e) d, p) /\ p < length d /\ slot d p = None /\
    TI (set_nth p (Some e) d) (es ++ [e]).
Proof.
  intros d es e (Hlen & Hocc & HJ & HW & Hget) Hwe Hroom.
  destruct (insert_get d e Hlen HJ HW Hwe) as (p & Hins & Hlt & Hnone & Hk). lia.
  exists p. split. exact Hins. split. exact Hlt. split. exact Hnone.
  assert (Hget2 : forall k, tget (set_nth p (Some e) d) k = order_find (es ++ [e]) k).
  { intros k. rewrite Hk, order_find_app, Hget. reflexivity. }
  unfold TI. rewrite set_nth_length. split. exact Hlen.
  split. rewrite occupied_set by assumption. rewrite app_length. cbn [length]. lia.
  split; [|split; [|exact Hget2]].
  - intros k G2 q e1 Hs. rewrite Hk in G2. destruct (tget d k) eqn:G; try discriminate.
    destruct (beq_key (ekey e) k) eqn:B; try discriminate.
    destruct (Nat.eq_dec q p) as [->|Hne].
    + rewrite slot_set_same in Hs by exact Hlt. inversion Hs; subst e1.
      intros Heq. rewrite Heq in B. rewrite beq_key_refl in B. discriminate.
    + rewrite slot_set_other in Hs by exact Hne. exact (HJ k G q e1 Hs).
  - intros q e1 Hs. destruct (Nat.eq_dec q p) as [->|Hne].
    + rewrite slot_set_same in Hs by exact Hlt. inversion Hs; subst e1. exact Hwe.
    + rewrite slot_set_other in Hs by exact Hne. exact (HW q e1 Hs).
Qed.

(* ------------------------------------------------------------------ the chain *)
Definition CH (d : table) (ch : list nat) (es : list entry) : Prop :=
  map (slot d) ch = map Some (rev es) /\ Forall (fun p => p < length d) ch /\ NoDup ch.

Lemma CH_occ : forall d ch es q, CH d ch es -> In q ch -> slot d q <> None.
Proof.
  intros d ch es q (Hm & _ & _) Hin. apply (in_map (slot d)) in Hin. rewrite Hm in Hin.
  apply in_map_iff in Hin. destruct Hin as (x & Hx & _). congruence.
Qed.

Lemma CH_nil : forall d, CH d [] [].
Proof. intros d. split. reflexivity. split. constructor. constructor. Qed.

Lemma insert_CH : forall d ch es p e, CH d ch es -> p < length d -> slot d p = None ->
  CH (set_nth p (Some e) d) (p :: ch) (es ++ [e]).
Proof.
  intros d ch es p e HC Hlt Hnone.
  assert (Hnin : ~ In p ch) by (intros Hin; exact (CH_occ d ch es p HC Hin Hnone)).
  pose proof HC as (Hm & Hf & Hnd). unfold CH. rewrite set_nth_length.
  split; [|split].
  - rewrite rev_app_distr. cbn [rev app map]. rewrite slot_set_same by exact Hlt. f_equal.
    rewrite <- Hm. apply map_ext_in. intros q Hq. apply slot_set_other. intros ->. exact (Hnin Hq).
  - constructor. exact Hlt. exact Hf.
  - constructor. exact Hnin. exact Hnd.
Qed.

(* ------------------------------------------------------------------ rehash *)
Lemma rehash_spec : forall ch old l nd nch es,
  map (slot old) ch = map Some l -> Forall wh l -> TI nd es -> CH nd nch es ->
  length es + length l < length nd ->
  exists nd2 nch2, rehash old ch nd nch = Some (nd2, nch2) /\ TI nd2 (es ++ l) /\ CH nd2 nch2 (es ++ l) /\
    length nd2 = length nd.
Proof.
  induction ch as [|p r IH]; intros old l nd nch es Hm Hw HT HC Hroom; destruct l as [|e l]; cbn [map] in Hm; try discriminate.
  - cbn [rehash]. exists nd, nch. rewrite app_nil_r. auto.
  - cbn [rehash]. inversion Hm as [[Hs Hm2]]. rewrite Hs. inversion Hw as [|? ? Hwe Hwl]; subst.
    cbn [length] in Hroom.
    destruct (insert_TI nd es e HT Hwe) as (q & Hins & Hlt & Hnone & HT2). lia.
    rewrite Hins.
    destruct (IH old l (set_nth q (Some e) nd) (q :: nch) (es ++ [e]) Hm2 Hwl HT2) as (nd2 & nch2 & Hr & HT3 & HC3 & Hlen).
    apply insert_CH; assumption.
    rewrite set_nth_length, app_length. cbn [length]. lia.
    exists nd2, nch2. rewrite <- app_assoc in HT3, HC3. cbn [app] in HT3, HC3.
    split. exact Hr. split. exact HT3. split. exact HC3. rewrite Hlen. apply set_nth_length.
Qed.

(* ------------------------------------------------------------------ the invariant of smap_run, relative to spec_run *)
Definition REL (m : smap) (size : nat) (order : list entry) : Prop :=
  length (slots m) = size /\ total m = length order /\ total m * 2 <= size /\ Nat.Even size /\
  TI (slots m) order /\ CH (slots m) (chain m) order /\ Forall wh order.

Lemma REL_empty : REL smap_empty initial_cap [].
Proof.
  unfold REL, smap_empty. cbn [slots total chain length]. rewrite repeat_length.
  split. reflexivity. split. reflexivity. split. unfold initial_cap. lia.
  split. exists 32. reflexivity. split. apply TI_repeat. unfold initial_cap. lia.
  split. apply CH_nil. constructor.
Qed.

Lemma Forall_wh_snoc : forall l k v, Forall wh l -> Forall wh (l ++ [entry_of k v]).
Proof. intros l k v H. apply Forall_app. split. exact H. constructor. apply wh_entry_of. constructor. Qed.

Lemma add_REL : forall m size order k v, REL m size order ->
  exists m2, smap_add m k v = Some m2 /\
    REL m2 (if grow_needed (length order) size then size * 2 else size)
           ((if grow_needed (length order) size then rev order else order) ++ [entry_of k v]).
Proof.
  intros m size order k v (Hlen & Htot & Hload & Hev & HT & HC & Hw).
  unfold smap_add, cap. rewrite Htot, Hlen.
  assert (Hpos : 0 < size) by (destruct HT as (H0 & _); lia).
  destruct (grow_needed (length order) size) eqn:Gn; unfold grow_needed in Gn.
  - apply Nat.leb_le in Gn.
    destruct (rehash_spec (chain m) (slots m) (rev order) (repeat None (size * 2)) [] []) as (nd & nch & Hr & HT2 & HC2 & Hl2).
    + destruct HC as (Hm & _). exact Hm.
    + apply Forall_rev. exact Hw.
    + apply TI_repeat. lia.
    + apply CH_nil.
    + rewrite repeat_length, rev_length. cbn [length]. lia.
    + rewrite Hr. cbn [app] in HT2, HC2. rewrite repeat_length in Hl2.
      destruct (insert_TI nd (rev order) (entry_of k v) HT2 (wh_entry_of k v)) as (p & Hins & Hlt & Hnone & HT3).
      rewrite rev_length. lia.
      rewrite Hins. eexists. split. reflexivity.
      unfold REL. cbn [slots total chain]. rewrite set_nth_length, app_length, rev_length. cbn [length].
      split. exact Hl2. split. lia. split. lia.
      split. destruct Hev as [c Hc]. exists (c * 2). lia.
      split. exact HT3. split. apply insert_CH; assumption.
      apply Forall_wh_snoc. apply Forall_rev. exact Hw.
  - apply Nat.leb_gt in Gn.
    destruct (insert_TI (slots m) order (entry_of k v) HT (wh_entry_of k v)) as (p & Hins & Hlt & Hnone & HT3).
    destruct Hev as [c Hc]. lia.
    rewrite Hins. eexists. split. reflexivity.
    unfold REL. cbn [slots total chain]. rewrite set_nth_length, app_length. cbn [length].
    split. exact Hlen. split. lia. split. destruct Hev as [c Hc]. lia.
    split. exact Hev. split. exact HT3. split. apply insert_CH; assumption.
    apply Forall_wh_snoc. exact Hw.
Qed.

Lemma run_REL : forall ops m size order, REL m size order ->
  exists m2, smap_run ops m = Some m2 /\
    REL m2 (fst (spec_run ops size order)) (snd (spec_run ops size order)).
Proof.
  induction ops as [|op ops IH]; intros m size order HR; cbn [smap_run spec_run].
  - exists m. split. reflexivity. exact HR.
  - destruct op as [k v|].
    + destruct (add_REL m size order k v HR) as (m2 & Ha & HR2). rewrite Ha.
      destruct (grow_needed (length order) size); apply IH; exact HR2.
    + apply IH. apply REL_empty.
Qed.

Lemma run_REL_empty : forall ops m, smap_run ops smap_empty = Some m ->
  REL m (fst (spec_run ops initial_cap [])) (snd (spec_run ops initial_cap [])).
Proof.
  intros ops m Hr. destruct (run_REL ops smap_empty initial_cap [] REL_empty) as (m2 & Hr2 & HR).
  rewrite Hr in Hr2. inversion Hr2; subst m2. exact HR.
Qed.

(* ------------------------------------------------------------------ reasoning on spec_run alone *)
Definition nokey (k : list N) (l : list entry) : Prop := forall e, In e l -> ekey e <> k.
Definition noadd (k : list N) (ops : list sop) : Prop := forall k2 v2, In (SAdd k2 v2) ops -> k2 <> k.

Lemma nokey_nil : forall k, nokey k [].
Proof. intros k e []. Qed.

Lemma nokey_app : forall k a b, nokey k a -> nokey k b -> nokey k (a ++ b).
Proof. intros k a b Ha Hb e Hin. apply in_app_or in Hin. destruct Hin as [H|H]. exact (Ha e H). exact (Hb e H). Qed.

Lemma nokey_rev : forall k a, nokey k a -> nokey k (rev a).
Proof. intros k a Ha e Hin. apply in_rev in Hin. exact (Ha e Hin). Qed.

Lemma nokey_one : forall k k2 v2, k2 <> k -> nokey k [entry_of k2 v2].
Proof. intros k k2 v2 Hne e [<-|[]]. exact Hne. Qed.

Lemma order_find_nokey : forall k l, nokey k l -> order_find l k = GAbsent.
Proof.
  unfold order_find. induction l as [|a l IH]; intros Hn; cbn [find].
  - reflexivity.
  - destruct (beq_key (ekey a) k) eqn:B.
    + apply beq_key_eq in B. exfalso. exact (Hn a (or_introl eq_refl) B).
    + apply IH. intros e Hin. apply Hn. right. exact Hin.
Qed.

Lemma order_find_mid : forall k v a b, nokey k a -> order_find (a ++ entry_of k v :: b) k = GFound v.
Proof.
  unfold order_find. induction a as [|x a IH]; intros b Hn; cbn [app find].
  - cbn [entry_of ekey]. rewrite beq_key_refl. reflexivity.
  - destruct (beq_key (ekey x) k) eqn:B.
    + apply beq_key_eq in B. exfalso. exact (Hn x (or_introl eq_refl) B).
    + apply IH. intros e Hin. apply Hn. right. exact Hin.
Qed.

Lemma noadd_cons_add : forall k k2 v2 ops, noadd k (SAdd k2 v2 :: ops) -> k2 <> k /\ noadd k ops.
Proof.
  intros k k2 v2 ops H. split. apply (H k2 v2). left. reflexivity.
  intros k3 v3 Hin. apply (H k3 v3). right. exact Hin.
Qed.

Lemma noadd_cons_clear : forall k ops, noadd k (SClear :: ops) -> noadd k ops.
Proof. intros k ops H k3 v3 Hin. apply (H k3 v3). right. exact Hin. Qed.

Lemma spec_run_nokey : forall k ops size order, noadd k ops -> nokey k order ->
  nokey k (snd (spec_run ops size order)).
Proof.
  induction ops as [|op ops IH]; intros size order Hna Hnk; cbn [spec_run].
  - exact Hnk.
  - destruct op as [k2 v2|].
    + apply noadd_cons_add in Hna. destruct Hna as (Hne & Hna).
      destruct (grow_needed (length order) size); apply IH; try exact Hna; apply nokey_app;
        try apply nokey_rev; try exact Hnk; apply nokey_one; exact Hne.
    + apply IH. exact (noadd_cons_clear _ _ Hna). apply nokey_nil.
Qed.

Lemma spec_run_app : forall a b size order,
  spec_run (a ++ b) size order = spec_run b (fst (spec_run a size order)) (snd (spec_run a size order)).
Proof.
  induction a as [|op a IH]; intros b size order; cbn [app spec_run].
  - reflexivity.
  - destruct op as [k v|].
    + destruct (grow_needed (length order) size); apply IH.
    + apply IH.
Qed.

Lemma spec_run_clear_end : forall x size order, spec_run (x ++ [SClear]) size order = (initial_cap, []).
Proof. intros x size order. rewrite spec_run_app. reflexivity. Qed.

(* exactly one entry of key k, value v *)
Definition uniq (k v : list N) (l : list entry) : Prop :=
  exists a b, l = a ++ entry_of k v :: b /\ nokey k a /\ nokey k b.

Lemma uniq_rev : forall k v l, uniq k v l -> uniq k v (rev l).
Proof.
  intros k v l (a & b & -> & Ha & Hb). exists (rev b), (rev a).
  split. rewrite rev_app_distr. cbn [rev]. rewrite <- app_assoc. reflexivity.
  split; apply nokey_rev; assumption.
Qed.

Lemma uniq_snoc : forall k v l k2 v2, k2 <> k -> uniq k v l -> uniq k v (l ++ [entry_of k2 v2]).
Proof.
  intros k v l k2 v2 Hne (a & b & -> & Ha & Hb). exists a, (b ++ [entry_of k2 v2]).
  split. rewrite <- app_assoc. reflexivity.
  split. exact Ha. apply nokey_app. exact Hb. apply nokey_one. exact Hne.
Qed.

Lemma spec_run_uniq : forall k v ops size order, noadd k ops -> ~ In SClear ops -> uniq k v order ->
  uniq k v (snd (spec_run ops size order)).
Proof.
  induction ops as [|op ops IH]; intros size order Hna Hnc Hu; cbn [spec_run].
  - exact Hu.
  - destruct op as [k2 v2|].
    + apply noadd_cons_add in Hna. destruct Hna as (Hne & Hna).
      assert (Hnc2 : ~ In SClear ops) by (intros H; apply Hnc; right; exact H).
      destruct (grow_needed (length order) size); apply IH; try assumption; apply uniq_snoc; try exact Hne;
        try apply uniq_rev; exact Hu.
    + exfalso. apply Hnc. left. reflexivity.
Qed.

Lemma order_find_uniq : forall k v l, uniq k v l -> order_find l k = GFound v.
Proof. intros k v l (a & b & -> & Ha & _). apply order_find_mid. exact Ha. Qed.

(* no growth during the first 32 adds on a fresh table *)
Definition adds_of (l : list (list N * list N)) : list sop := map (fun kv => SAdd (fst kv) (snd kv)) l.

Lemma spec_run_small : forall l order, length order + length l <= 32 ->
  spec_run (adds_of l) initial_cap order = (initial_cap, order ++ map (fun kv => entry_of (fst kv) (snd kv)) l).
Proof.
  induction l as [|kv l IH]; intros order Hl; cbn [adds_of map spec_run].
  - rewrite app_nil_r. reflexivity.
  - cbn [length] in Hl. unfold grow_needed.
    destruct (Nat.leb initial_cap (length order * 2)) eqn:G.
    + apply Nat.leb_le in G. unfold initial_cap in G. lia.
    + fold (adds_of l). rewrite IH. rewrite <- app_assoc. reflexivity.
      rewrite app_length. cbn [length]. lia.
Qed.

(* ================================================================== MAIN THEOREMS *)

(* ------------------------------------------------------------------ T1: load-factor invariant *)
Definition smap_inv (m : smap) : Prop :=
  total m * 2 <= cap m /\ Nat.Even (cap m) /\ 0 < cap m /\ occupied (slots m) = total m /\
  length (chain m) = total m /\
  Forall (fun p => p < cap m /\ slot (slots m) p <> None) (chain m) /\ NoDup (chain m) /\
  Jinv (slots m) /\ WH (slots m).

Lemma REL_inv : forall m size order, REL m size order -> smap_inv m.
Proof.
  intros m size order (Hlen & Htot & Hload & Hev & HT & HC & Hw).
  pose proof HT as (Hpos & Hocc & HJ & HW & Hget). pose proof HC as (Hm & Hf & Hnd).
  unfold smap_inv, cap. rewrite Hlen.
  split. exact Hload. split. exact Hev. split. lia. split. lia.
  split. apply (f_equal (@length _)) in Hm. rewrite !map_length, rev_length in Hm. lia.
  split. apply Forall_forall. intros p Hin. split.
  rewrite Forall_forall in Hf. rewrite <- Hlen. apply Hf. exact Hin.
  exact (CH_occ _ _ _ p HC Hin).
  split. exact Hnd. split. exact HJ. exact HW.
Qed.

Theorem smap_run_inv : forall ops m, smap_run ops smap_empty = Some m -> smap_inv m.
Proof. intros ops m Hr. eapply REL_inv. apply run_REL_empty. exact Hr. Qed.

Theorem smap_load_factor : forall ops m, smap_run ops smap_empty = Some m ->
  total m * 2 <= cap m /\ exists p, p < cap m /\ slot (slots m) p = None.
Proof.
  intros ops m Hr. destruct (smap_run_inv ops m Hr) as (Hload & Hev & Hpos & Hocc & _).
  split. exact Hload. apply occupied_free. fold (cap m). lia.
Qed.

(* ------------------------------------------------------------------ T2: the loops of add never run dry *)
Theorem smap_run_total : forall ops, exists m, smap_run ops smap_empty = Some m.
Proof.
  intros ops. destruct (run_REL ops smap_empty initial_cap [] REL_empty) as (m & Hr & _).
  exists m. exact Hr.
Qed.

(* ------------------------------------------------------------------ T4: what get answers *)
Lemma smap_get_tget : forall m k, smap_get m k = tget (slots m) k.
Proof. intros m k. reflexivity. Qed.

Theorem smap_get_spec : forall ops m k, smap_run ops smap_empty = Some m -> smap_get m k = spec_get ops k.
Proof.
  intros ops m k Hr. apply run_REL_empty in Hr. destruct Hr as (_ & _ & _ & _ & HT & _).
  destruct HT as (_ & _ & _ & _ & Hget). rewrite smap_get_tget. apply Hget.
Qed.

(* ------------------------------------------------------------------ T3: get terminates, key present or absent *)
Theorem smap_get_terminates : forall ops m k, smap_run ops smap_empty = Some m -> smap_get m k <> GHang.
Proof.
  intros ops m k Hr. rewrite (smap_get_spec ops m k Hr). unfold spec_get, order_find.
  destruct (find _ _); discriminate.
Qed.

(* independent of the history: any table obeying the invariant answers within cap probes *)
Theorem smap_inv_get_terminates : forall m k, smap_inv m -> smap_get m k <> GHang.
Proof.
  intros m k (Hload & Hev & Hpos & Hocc & _). rewrite smap_get_tget. apply tget_nohang. fold (cap m). lia.
Qed.

(* ------------------------------------------------------------------ T6: iteration order *)
Theorem smap_iter_spec : forall ops m, smap_run ops smap_empty = Some m ->
  smap_iter m = map Some (rev (snd (spec_run ops initial_cap []))).
Proof.
  intros ops m Hr. apply run_REL_empty in Hr. destruct Hr as (_ & _ & _ & _ & _ & HC & _).
  destruct HC as (Hm & _). exact Hm.
Qed.

(* ------------------------------------------------------------------ T5: corollaries *)
Theorem smap_get_absent : forall ops m k, smap_run ops smap_empty = Some m ->
  (forall k2 v2, In (SAdd k2 v2) ops -> k2 <> k) -> smap_get m k = GAbsent.
Proof.
  intros ops m k Hr Hna. rewrite (smap_get_spec ops m k Hr). unfold spec_get.
  apply order_find_nokey. apply spec_run_nokey. exact Hna. apply nokey_nil.
Qed.

Theorem smap_get_first_add_small : forall m k v pre post,
  let ops := map (fun kv => SAdd (fst kv) (snd kv)) (pre ++ (k, v) :: post) in
  length (pre ++ (k, v) :: post) <= 32 ->
  (forall kv, In kv pre -> fst kv <> k) ->
  smap_run ops smap_empty = Some m -> smap_get m k = GFound v.
Proof.
  intros m k v pre post ops Hlen Hpre Hr. rewrite (smap_get_spec ops m k Hr). unfold spec_get, ops.
  fold (adds_of (pre ++ (k, v) :: post)). rewrite spec_run_small by (cbn [length]; lia).
  cbn [snd app]. rewrite map_app. cbn [map fst snd]. apply order_find_mid.
  intros e Hin. apply in_map_iff in Hin. destruct Hin as (kv & <- & Hin). cbn [entry_of ekey].
  apply Hpre. exact Hin.
Qed.

(* general form: pre0 is empty or ends with a clear; after it the key k is added exactly once, and no clear follows *)
Theorem smap_get_unique : forall pre0 pre post k v m,
  (pre0 = [] \/ exists x, pre0 = x ++ [SClear]) ->
  (forall k2 v2, In (SAdd k2 v2) (pre ++ post) -> k2 <> k) ->
  ~ In SClear post ->
  smap_run (pre0 ++ pre ++ SAdd k v :: post) smap_empty = Some m -> smap_get m k = GFound v.
Proof.
  intros pre0 pre post k v m H0 Hna Hnc Hr. rewrite (smap_get_spec _ m k Hr). unfold spec_get.
  apply order_find_uniq.
  assert (Hpre : noadd k pre) by (intros k2 v2 Hin; apply (Hna k2 v2); apply in_or_app; left; exact Hin).
  assert (Hpost : noadd k post) by (intros k2 v2 Hin; apply (Hna k2 v2); apply in_or_app; right; exact Hin).
  assert (E : spec_run (pre0 ++ pre ++ SAdd k v :: post) initial_cap [] =
              spec_run (pre ++ SAdd k v :: post) initial_cap []).
  { destruct H0 as [->|(x & ->)]. reflexivity. rewrite spec_run_app, spec_run_clear_end. reflexivity. }
  rewrite E. rewrite spec_run_app. cbn [spec_run].
  pose proof (spec_run_nokey k pre initial_cap [] Hpre (nokey_nil k)) as Hnk.
  destruct (grow_needed _ _); apply spec_run_uniq; try assumption.
  - exists (rev (snd (spec_run pre initial_cap []))), []. split. reflexivity.
    split. apply nokey_rev. exact Hnk. apply nokey_nil.
  - exists (snd (spec_run pre initial_cap [])), []. split. reflexivity.
    split. exact Hnk. apply nokey_nil.
Qed.

(* the form without clear *)
Theorem smap_get_unique_adds : forall pre post k v m,
  (forall kv, In kv (pre ++ post) -> fst kv <> k) ->
  smap_run (map (fun kv => SAdd (fst kv) (snd kv)) (pre ++ (k, v) :: post)) smap_empty = Some m ->
  smap_get m k = GFound v.
Proof.
  intros pre post k v m Hne Hr. rewrite map_app in Hr. cbn [map fst snd] in Hr.
  apply (smap_get_unique [] _ _ k v m (or_introl eq_refl)) in Hr. exact Hr.
  - intros k2 v2 Hin. rewrite <- map_app in Hin. apply in_map_iff in Hin.
    destruct Hin as (kv & Heq & Hin). inversion Heq; subst. apply Hne. exact Hin.
  - intros Hin. apply in_map_iff in Hin. destruct Hin as (kv & Heq & _). discriminate.
Qed.

Print Assumptions smap_run_inv.
Print Assumptions smap_load_factor.
Print Assumptions smap_run_total.
Print Assumptions smap_get_terminates.
Print Assumptions smap_inv_get_terminates.
Print Assumptions smap_get_spec.
Print Assumptions smap_iter_spec.
Print Assumptions smap_get_absent.
Print Assumptions smap_get_first_add_small.
Print Assumptions smap_get_unique.
Print Assumptions smap_get_unique_adds.
