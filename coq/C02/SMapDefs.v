(* C02 -- private/string_map.h, class string_map (the #elif 1 variant that is compiled): the open-addressing table with
   linear probing behind connection::env_ of the http, scgi and fastcgi front ends (every CGI variable of a request is
   add()ed, the application and the framework get() them, present or absent, in the event-loop thread; clear() between
   the requests of a kept-alive connection).  Executable model only, no proofs.

     entry        { key, value, hash = calc_hash(key), next_index }   keys/values are C strings (no NUL inside)
     data_        std::vector<entry>, data_[i].key == 0 means slot i is empty        -> slots : list (option entry)
     total_       number of add() calls since construction / clear()                 -> total
     first_ / next_index   singly linked list through the slots, last inserted into
                           the CURRENT vector first (a rehash re-inserts: it reverses it)  -> chain : list nat (slot indices)

   A while loop of the code that would not terminate (probing a table without an empty slot) is modelled by fuel equal to
   the table size; exhaustion gives None / GHang, proved unreachable in SMapProofs.v. *)
From Coq Require Import NArith ZArith List Bool.
Import ListNotations.

(* ------------------------------------------------------------------ string_hash (private/hash_map.h): PJW / ELF hash *)
Definition elf_update (st c : N) : N :=
  let v := N.modulo (N.shiftl st 4 + c) 4294967296 in
  let high := N.land v 4026531840 in                       (* 0xF0000000 *)
  if N.eqb high 0 then v else N.lxor (N.lxor v (N.shiftr high 24)) high.
(* entry::calc_hash: state = initial_state (0); for every byte c up to the NUL: state = update_state(state,c) *)
Definition smap_hash (k : list N) : N := fold_left elf_update k 0%N.

Fixpoint beq_key (a b : list N) : bool :=
  match a, b with
  | [], [] => true
  | x :: a', y :: b' => N.eqb x y && beq_key a' b'
  | _, _ => false
  end.

Record entry := mkentry { ekey : list N; evalue : list N; ehash : N }.
Definition entry_of (k v : list N) : entry := mkentry k v (smap_hash k).
(* entry::operator== : hash == other.hash && strcmp(key,other.key) == 0 *)
Definition entry_matches (e : entry) (h : N) (k : list N) : bool := N.eqb (ehash e) h && beq_key (ekey e) k.

Definition table := list (option entry).
Record smap := mksmap { slots : table; total : nat; chain : list nat }.
Definition initial_cap : nat := 64.
(* constructor and clear(): data_.clear(); data_.resize(64); total_ = 0; first_ = -1 *)
Definition smap_empty : smap := mksmap (repeat None initial_cap) 0 [].
Definition smap_clear (m : smap) : smap := smap_empty.
Definition cap (m : smap) : nat := length (slots m).

(* int pos = e.hash % d.size() *)
Definition start_pos (h : N) (size : nat) : nat := N.to_nat (N.modulo h (N.of_nat size)).
(* pos = (pos + 1) % d.size() *)
Definition next_pos (pos size : nat) : nat := Nat.modulo (S pos) size.
Definition slot (d : table) (pos : nat) : option entry := nth pos d None.
Fixpoint set_nth {A} (n : nat) (x : A) (l : list A) : list A :=
  match l with
  | [] => []
  | y :: t => match n with O => x :: t | S n' => y :: set_nth n' x t end
  end.

(* insert(): while(d[pos].key) pos = (pos + 1) % d.size();  -- None: no empty slot met in size steps (the loop of the code
   would then never end) *)
Fixpoint probe_free (fuel : nat) (d : table) (pos : nat) : option nat :=
  match fuel with
  | O => None
  | S f => match slot d pos with
           | None => Some pos
           | Some _ => probe_free f d (next_pos pos (length d))
           end
  end.
(* d[pos] = e; d[pos].next_index = first; first = pos  (the new head of the chain is returned) *)
Definition insert (d : table) (e : entry) : option (table * nat) :=
  match probe_free (length d) d (start_pos (ehash e) (length d)) with
  | Some p => Some (set_nth p (Some e) d, p)
  | None => None
  end.

(* the growth test of add():  if(total_ * 2 >= data_.size()) *)
Definition grow_needed (total size : nat) : bool := Nat.leb size (total * 2).

(* for(iterator p = begin(),e = end();p!=e;++p) insert(new_data,*p,new_first);  ch = what is left of the old chain,
   nch = the chain of the new table so far (newest first).  An old chain index pointing at an empty slot cannot happen
   (SMapProofs.v); the model then reports None as well. *)
Fixpoint rehash (old : table) (ch : list nat) (nd : table) (nch : list nat) : option (table * list nat) :=
  match ch with
  | [] => Some (nd, nch)
  | p :: r => match slot old p with
              | None => None
              | Some e => match insert nd e with
                          | Some (nd', q) => rehash old r nd' (q :: nch)
                          | None => None
                          end
              end
  end.

Definition smap_add (m : smap) (k v : list N) : option smap :=
  let e := entry_of k v in
  let grown :=
    if grow_needed (total m) (cap m)
    then rehash (slots m) (chain m) (repeat None (cap m * 2)) []
    else Some (slots m, chain m) in
  match grown with
  | None => None
  | Some (d, ch) => match insert d e with
                    | Some (d', p) => Some (mksmap d' (S (total m)) (p :: ch))
                    | None => None
                    end
  end.

Inductive get_result := GFound (v : list N) | GAbsent | GHang.
(* get(): while(data_[pos].key && !(data_[pos] == e)) pos = (pos + 1) % data_.size();
          if(data_[pos].key == 0) return 0; return data_[pos].value; *)
Fixpoint get_loop (fuel : nat) (d : table) (h : N) (k : list N) (pos : nat) : get_result :=
  match fuel with
  | O => GHang
  | S f => match slot d pos with
           | None => GAbsent
           | Some e => if entry_matches e h k then GFound (evalue e)
                       else get_loop f d h k (next_pos pos (length d))
           end
  end.
Definition smap_get (m : smap) (k : list N) : get_result :=
  get_loop (cap m) (slots m) (smap_hash k) k (start_pos (smap_hash k) (cap m)).
(* get_safe *)
Definition smap_get_safe (m : smap) (k : list N) : list N :=
  match smap_get m k with GFound v => v | _ => [] end.

(* begin() .. end(): the entries along the chain (connection::getenv() fills a std::map from it) *)
Definition smap_iter (m : smap) : list (option entry) := map (slot (slots m)) (chain m).

(* ------------------------------------------------------------------ sequences of operations *)
Inductive sop := SAdd (k v : list N) | SClear.
Fixpoint smap_run (ops : list sop) (m : smap) : option smap :=
  match ops with
  | [] => Some m
  | SAdd k v :: r => match smap_add m k v with Some m' => smap_run r m' | None => None end
  | SClear :: r => smap_run r (smap_clear m)
  end.

(* ------------------------------------------------------------------ what get() answers, as a function of the history alone.
   The table is an association list in "insertion order into the current data_ vector" in which the first entry of a name
   wins; growth re-inserts the entries walking the chain, i.e. newest first, so every growth REVERSES that order
   (of two adds of one name the first wins until the 33rd add, the later one after it, ...). *)
Fixpoint spec_run (ops : list sop) (size : nat) (order : list entry) : nat * list entry :=
  match ops with
  | [] => (size, order)
  | SAdd k v :: r =>
      if grow_needed (length order) size then spec_run r (size * 2) (rev order ++ [entry_of k v])
      else spec_run r size (order ++ [entry_of k v])
  | SClear :: r => spec_run r initial_cap []
  end.
Definition order_find (order : list entry) (k : list N) : get_result :=
  match find (fun e => beq_key (ekey e) k) order with
  | Some e => GFound (evalue e)
  | None => GAbsent
  end.
Definition spec_get (ops : list sop) (k : list N) : get_result := order_find (snd (spec_run ops initial_cap [])) k.

(* environment of a request = the adds of its variables in order on a cleared table (used by the front-end models of Defs.v;
   None cannot happen: smap_run_total) *)
Definition env_map_build (e : list (list N * list N)) : smap :=
  match smap_run (map (fun kv => SAdd (fst kv) (snd kv)) e) smap_empty with
  | Some m => m
  | None => smap_empty
  end.
(* (separate name: coq/C02/Extract.v extracts env_map as env_map_build behind a one-entry cache keyed by the physical identity of
   the argument, because the front-end models look three or four names up in the same environment) *)
Definition env_map (e : list (list N * list N)) : smap := env_map_build e.
