(* C02 proofs, part 5: all segmentations.  For a stream of at most 16384 bytes the outcome of an HTTP connection does not
   depend on how the kernel delivers the bytes: http_conn equals a reader that has no notion of reads at all. *)
From CppcmsV Require Import Base.Tac Base.CSem C02.Defs C02.Proofs C02.Proofs2 C02.Proofs4.
Local Open Scope Z_scope.

(* the header reader and the connection without any I/O state *)
Fixpoint hdr_pure (s : list N) (p : parser) (r : hreq) {struct s} : option (hreq * list N) :=
  match s with
  | [] => None
  | c :: t =>
      let (p1, ev) := pstep p c in
      match ev with
      | EvNone => hdr_pure t p1 r
      | EvError => None
      | EvEnd => Some (r, t)
      | EvHeader h => match on_header h r with None => None | Some r1 => hdr_pure t p1 r1 end
      end
  end.
Fixpoint http_pure (fuel : nat) (s : list N) : list item * counters :=
  match fuel with
  | O => ([IFuel], c0)
  | S f =>
      match hdr_pure s parser0 hreq0 with
      | None => ([IEnd], c0)
      | Some (r, rest) =>
          match process_request r with
          | PRaw400 => ([IRaw400], c0)
          | PScript script =>
              let continue (a : app) (cnt : counters) (rest1 : list N) :=
                if keep_alive_requested r then
                  let (l, c) := http_pure f rest1 in (IOk a :: l, cadd cnt c)
                else ([IOk a], cnt) in
              match content_start script (h_cl r) (h_ct r) with
              | CStatus code cnt => ([IStatus code], cnt)
              | CUnmodelled => ([IUnmodelled], c0)
              | CHandled a cnt => continue a cnt rest
              | CNeed a n setup =>
                  if Z.of_nat (length rest) <? n then ([IEnd], error_counters setup)
                  else continue a (handler_counters a setup) (skipn (Z.to_nat n) rest)
              end
          end
      end
  end.

Fixpoint nsum (l : list nat) : nat := match l with n :: t => (n + nsum t)%nat | [] => O end.
(* the I/O state accounts for exactly the bytes of the stream that are left *)
Definition io_ok (i : io) (s : list N) : Prop := (avail i + nsum (segs i) = length s)%nat.

Lemma nsum_drop_zeros l : nsum (drop_zeros l) = nsum l.
Proof. induction l as [|x l IH]; [reflexivity|]. destruct x; cbn [drop_zeros nsum]; [exact IH|reflexivity]. Qed.
Lemma refill_some l : (1 <= nsum l)%nat ->
  exists k sg, refill l = Some (k, sg) /\ (1 <= k)%nat /\ (k + nsum sg = nsum l)%nat.
Proof.
  intros H. unfold refill. rewrite <- nsum_drop_zeros in H.
  destruct (drop_zeros l) as [|n t] eqn:D; [cbn in H; lia|].
  pose proof (drop_zeros_pos _ _ _ D) as Pn.
  exists (Nat.min n read_cap), ((n - Nat.min n read_cap)%nat :: t).
  split; [reflexivity|]. rewrite <- (nsum_drop_zeros l), D. cbn [nsum].
  assert (1 <= read_cap)%nat by (unfold read_cap; lia). lia.
Qed.

Lemma hdr_loop_pure s : forall p r total i,
  io_ok i s -> total + Z.of_nat (nsum (segs i)) <= 16384 ->
  match hdr_pure s p r with
  | None => hdr_loop s p r total i = HFail
  | Some (r1, rest) => exists i1, hdr_loop s p r total i = HDone r1 rest i1 /\ io_ok i1 rest
  end.
Proof.
  induction s as [|c t IH]; intros p r total i OK B; cbn [hdr_pure hdr_loop]; [reflexivity|].
  assert (R : exists total1 i1,
    match avail i with
    | O => if total >? hdr_limit then None
           else match refill (segs i) with
                | None => None
                | Some (k, sg) => Some (total + Z.of_nat k, mkIO k sg)
                end
    | S _ => Some (total, i)
    end = Some (total1, i1) /\ io_ok (mkIO (pred (avail i1)) (segs i1)) t /\
    total1 + Z.of_nat (nsum (segs i1)) <= 16384).
  { unfold io_ok in *. cbn [length] in OK. destruct (avail i) as [|a] eqn:A.
    - unfold hdr_limit. destruct (Z.gtb_spec total 16384) as [G|G]; [lia|].
      destruct (refill_some (segs i)) as (k & sg & -> & K1 & K2); [lia|].
      exists (total + Z.of_nat k), (mkIO k sg). cbn [avail segs]. split; [reflexivity|]. split; lia.
    - exists total, i. rewrite A. cbn [pred avail segs]. split; [reflexivity|]. split; lia. }
  destruct R as (total1 & i1 & -> & OK1 & B1).
  destruct (pstep p c) as [p1 ev]. destruct ev as [|h| |].
  - apply IH; [exact OK1|exact B1].
  - destruct (on_header h r) as [r1|]; [|reflexivity]. apply IH; [exact OK1|exact B1].
  - eexists. split; [reflexivity|exact OK1].
  - reflexivity.
Qed.

Lemma nsum_drop_segs l : forall k, (k <= nsum l)%nat -> (nsum (drop_segs k l) = nsum l - k)%nat.
Proof.
  induction l as [|n t IH]; intros k H; cbn [drop_segs nsum] in *; [lia|].
  destruct (Nat.leb_spec k n); cbn [nsum]; [lia|]. rewrite IH; lia.
Qed.
Lemma consume_io_ok k i s : io_ok i s -> (k <= length s)%nat -> io_ok (consume_io k i) (skipn k s).
Proof.
  unfold io_ok, consume_io. intros OK L. rewrite skipn_length.
  destruct (Nat.leb_spec k (avail i)); cbn [avail segs]; [lia|].
  rewrite nsum_drop_segs; lia.
Qed.

Lemma http_conn_pure fuel : forall s i,
  io_ok i s -> Z.of_nat (length s) <= 16384 -> http_conn fuel s i = http_pure fuel s.
Proof.
  induction fuel as [|f IH]; intros s i OK L; cbn [http_conn http_pure]; [reflexivity|].
  pose proof (hdr_loop_pure s parser0 hreq0 (Z.of_nat (avail i)) i OK) as HP.
  assert (B : Z.of_nat (avail i) + Z.of_nat (nsum (segs i)) <= 16384) by (unfold io_ok in OK; lia).
  specialize (HP B).
  destruct (hdr_pure s parser0 hreq0) as [[r rest]|] eqn:HQ; [|rewrite HP; reflexivity].
  destruct HP as (i1 & -> & OK1).
  assert (LR : (length rest < length s)%nat).
  { pose proof (hdr_loop_pure s parser0 hreq0 (Z.of_nat (avail i)) i OK B) as HP2. rewrite HQ in HP2.
    destruct HP2 as (i2 & E & _). apply hdr_loop_shrinks in E. exact E. }
  destruct (process_request r) as [|script]; [reflexivity|].
  cbv zeta.
  destruct (content_start script (h_cl r) (h_ct r)) as [a cnt|code cnt|a n setup|]; try reflexivity.
  - destruct (keep_alive_requested r); [|reflexivity]. rewrite (IH rest i1 OK1) by lia. reflexivity.
  - destruct (Z.ltb_spec (Z.of_nat (length rest)) n) as [Ln|Ln]; [reflexivity|].
    destruct (keep_alive_requested r); [|reflexivity].
    rewrite (IH (skipn (Z.to_nat n) rest) (consume_io (Z.to_nat n) i1)).
    + reflexivity.
    + destruct (Z.ltb_spec n 0).
      * replace (Z.to_nat n) with O by lia. apply consume_io_ok; [exact OK1|lia].
      * apply consume_io_ok; [exact OK1|lia].
    + rewrite skipn_length. lia.
Qed.

Lemma nsum_map_length (segments : list (list N)) : nsum (map (@length N) segments) = length (concat segments).
Proof. induction segments as [|x t IH]; [reflexivity|]. cbn [map nsum concat]. rewrite app_length, IH. reflexivity. Qed.
Lemma http_run_pure segments :
  Z.of_nat (length (concat segments)) <= 16384 ->
  http_run segments = http_pure (S (length (concat segments))) (concat segments).
Proof.
  intros L. unfold http_run. apply http_conn_pure; [|exact L].
  unfold io_ok. cbn [avail segs]. rewrite nsum_map_length. reflexivity.
Qed.
(* all segmentations: two deliveries of the same bytes (at most 16384 of them) give the same observations and the same
   application callback counters *)
Lemma http_run_segmentation_independent segs1 segs2 :
  concat segs1 = concat segs2 -> Z.of_nat (length (concat segs1)) <= 16384 -> http_run segs1 = http_run segs2.
Proof.
  intros E L. rewrite (http_run_pure segs1 L). rewrite E in L |- *. rewrite (http_run_pure segs2 L). reflexivity.
Qed.
