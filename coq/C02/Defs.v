(* C02 -- error side of the three front-ends (http_api.cpp + http_parser.h, scgi_api.cpp, fastcgi_api.cpp) and of the
   common content stage (cgi_api.cpp load_content, http_context.cpp on_headers_ready, http_request.cpp on_content_start /
   on_content_progress / on_error).  Executable model only, no proofs.

   A connection is a byte stream (plus, for HTTP, the sizes of the kernel segments in which it arrives: the 16384-byte
   header limit of http_api.cpp is evaluated per read).  The peer closes its sending side after the last byte.  The model
   returns the list of things the peer and the application observe, in order:
     IOk a        the handler of application a ran once and its 200 reply was sent
     IStatus n    an error page with status n was sent, the connection is torn down
     IRaw400      HTTP only: the bare 400 line of http::process_request, then close
     IGetValues l FastCGI management reply (l = which known names were asked)
     IUnknownRole FastCGI END_REQUEST(unknown role)
     IEnd         connection closed without (further) reply: protocol_violation or end of stream
     IUnsafe      the code would read outside a buffer here (every modelled buffer read goes through a bounds check)
     IUnmodelled  multipart/form-data body handed to the multipart parser (C12 models that parser; out of this model)
     IFuel        fuel exhausted (shown unreachable in Proofs.v)
   and the counters of application callbacks (handler calls per application kind, filter set-up calls, on_error and
   on_end_of_content notifications). *)
From Coq Require Import NArith ZArith List Bool.
From CppcmsV Require Import Base.CSem C02.SMapDefs.
Import ListNotations.
Local Open Scope Z_scope.

(* ------------------------------------------------------------------ C library *)
Definition isspace (c : N) : bool := (N.eqb c 32) || (N.leb 9 c && N.leb c 13).
Definition isdigit (c : N) : bool := N.leb 48 c && N.leb c 57.
Fixpoint digits_val (acc : Z) (s : list N) : Z :=
  match s with
  | c :: t => if isdigit c then digits_val (acc * 10 + (Z.of_N c - 48)) t else acc
  | [] => acc
  end.
Fixpoint skip_space (s : list N) : list N :=
  match s with
  | c :: t => if isspace c then skip_space t else s
  | [] => []
  end.
Definition LLONG_MAX : Z := 9223372036854775807.
Definition LLONG_MIN : Z := -9223372036854775808.
Definition clamp64 (z : Z) : Z := Z.max LLONG_MIN (Z.min LLONG_MAX z).
(* strtoll(s,0,10) / atoll: optional white space, optional sign, digits, saturating *)
Definition atoll (s : list N) : Z :=
  match skip_space s with
  | 45%N :: t => clamp64 (- digits_val 0 t)
  | 43%N :: t => clamp64 (digits_val 0 t)
  | s1 => clamp64 (digits_val 0 s1)
  end.
(* glibc atoi = (int) strtol(s,0,10) *)
Definition atoi (s : list N) : Z := wraps 32 (atoll s).
(* the C string starting at the head of s *)
Fixpoint cstr (s : list N) : list N :=
  match s with
  | c :: t => if N.eqb c 0 then [] else c :: cstr t
  | [] => []
  end.
Fixpoint beq_bytes (a b : list N) : bool :=
  match a, b with
  | [], [] => true
  | x :: a', y :: b' => N.eqb x y && beq_bytes a' b'
  | _, _ => false
  end.
Definition to_lower (c : N) : N := if N.leb 65 c && N.leb c 90 then (c + 32)%N else c.
Definition to_upper_us (c : N) : N := if N.eqb c 45 then 95%N else if N.leb 97 c && N.leb c 122 then (c - 32)%N else c.
Definition ieq_bytes (a b : list N) : bool := beq_bytes (map to_lower a) (map to_lower b).

(* ------------------------------------------------------------------ configuration of the harness service *)
Definition cl_limit : Z := 2048.      (* security.content_length_limit = 2 KB *)
Definition mp_limit : Z := 4096.      (* security.multipart_form_data_limit = 4 KB *)
Definition hdr_limit : Z := 16384.

Inductive app := AppSync | AppAsync | AppUp | AppUpm | AppProbe | AppUpA | AppUpT.
Definition s_sync : list N := [47;115;121;110;99]%N.
Definition s_async : list N := [47;97;115;121;110;99]%N.
Definition s_up : list N := [47;117;112]%N.
Definition s_upm : list N := [47;117;112;109]%N.
Definition s_probe : list N := [47;112;114;111;98;101]%N.
Definition s_upa : list N := [47;117;112;97]%N.
Definition s_upt : list N := [47;117;112;116]%N.
Definition script_names : list (list N * app) :=
  [(s_sync, AppSync); (s_async, AppAsync); (s_up, AppUp); (s_upm, AppUpm); (s_probe, AppProbe); (s_upa, AppUpA); (s_upt, AppUpT)].
(* applications_pool lookup: mount_point(script_name) matches the script name exactly *)
Fixpoint mounted_in (l : list (list N * app)) (script : list N) : option app :=
  match l with
  | (n, a) :: t => if beq_bytes n script then Some a else mounted_in t script
  | [] => None
  end.
Definition mounted := mounted_in script_names.

(* ------------------------------------------------------------------ observations *)
Inductive item :=
| IOk (a : app) | IStatus (code : Z) | IRaw400 | IGetValues (l : list N) | IUnknownRole
| IEnd | IUnsafe | IUnmodelled | IFuel.

Record counters := mkC { c_sync : Z; c_async : Z; c_setup : Z; c_main : Z; c_err : Z; c_end : Z; c_abort : Z }.
Definition c0 : counters := mkC 0 0 0 0 0 0 0.
Definition cadd (a b : counters) : counters :=
  mkC (c_sync a + c_sync b) (c_async a + c_async b) (c_setup a + c_setup b) (c_main a + c_main b)
      (c_err a + c_err b) (c_end a + c_end b) (c_abort a + c_abort b).
Definition b2z (b : bool) : Z := if b then 1 else 0.
Definition is_filter (a : app) : bool := match a with AppUp | AppUpm | AppUpA | AppUpT => true | _ => false end.
(* applications whose filter set-up call of main() throws: abort_upload(403) / std::runtime_error *)
Definition setup_throws (a : app) : bool := match a with AppUpA | AppUpT => true | _ => false end.
Definition handler_counters (a : app) (setup : bool) : counters :=
  match a with
  | AppSync => mkC 1 0 0 0 0 0 0
  | AppAsync => mkC 0 1 0 0 0 0 0
  | AppUp | AppUpm | AppUpA | AppUpT => mkC 0 0 (b2z setup) 1 0 (b2z setup) 0
  | AppProbe => c0
  end.
Definition error_counters (setup : bool) : counters := mkC 0 0 (b2z setup) 0 (b2z setup) 0 0.
(* the set-up call ran and threw: no filter is installed, context::on_headers_ready returns translate_exception() *)
Definition abort_counters : counters := mkC 0 0 1 0 0 0 1.

(* ------------------------------------------------------------------ http_protocol.h / content type *)
Definition separator (c : N) : bool :=
  match c with
  | 40 | 41 | 60 | 62 | 64 | 44 | 59 | 58 | 92 | 34 | 47 | 91 | 93 | 63 | 61 | 123 | 125 | 32 | 9 => true
  | _ => false
  end%N.
Definition token_char (c : N) : bool := N.leb 32 c && N.leb c 126 && negb (separator c).
Fixpoint tocken (s : list N) : list N * list N :=
  match s with
  | c :: t => if token_char c then let (a, b) := tocken t in (c :: a, b) else ([], s)
  | [] => ([], [])
  end.
(* protocol::skip_ws: SP, HT and LWS = CR LF (SP|HT); the CR LF x form needs three more bytes before the end *)
Fixpoint skip_ws (s : list N) : list N :=
  match s with
  | 32%N :: t => skip_ws t
  | 9%N :: t => skip_ws t
  | 13%N :: t =>
      match t with
      | 10%N :: 32%N :: t2 => skip_ws t2
      | 10%N :: 9%N :: t2 => skip_ws t2
      | _ => s
      end
  | _ => s
  end.
Definition m_multipart : list N := [109;117;108;116;105;112;97;114;116]%N.
Definition m_formdata : list N := [102;111;114;109;45;100;97;116;97]%N.
(* content_type::parse up to the media type; is_multipart_form_data *)
Definition is_multipart (ct : list N) : bool :=
  let s := skip_ws ct in
  let (t1, r1) := tocken s in
  match t1, r1 with
  | _ :: _, 47%N :: r2 =>
      let (t2, _) := tocken r2 in
      match t2 with
      | _ :: _ => beq_bytes (map to_lower t1) m_multipart && beq_bytes (map to_lower t2) m_formdata
      | [] => false
      end
  | _, _ => false
  end.

(* ------------------------------------------------------------------ content stage (all three front-ends) *)
Inductive cres :=
| CHandled (a : app) (cnt : counters)     (* no content or content complete: handler runs *)
| CStatus (code : Z) (cnt : counters)     (* error page *)
| CNeed (a : app) (n : Z) (setup : bool)  (* n > 0 content bytes must be read first *)
| CUnmodelled.
(* context::on_headers_ready + request::on_content_start *)
Definition content_start (script : list N) (cl : Z) (ct : list N) : cres :=
  match mounted script with
  | None => CStatus 404 c0
  | Some a =>
      let setup := is_filter a && negb (cl =? 0) in
      if setup && setup_throws a then
        CStatus (match a with AppUpA => 403 | _ => 500 end) abort_counters   (* before on_content_start is reached *)
      else
      if cl =? 0 then CHandled a (handler_counters a false)
      else if cl <? 0 then CStatus 400 (error_counters setup)
      else if cl >? (if is_multipart ct then mp_limit else cl_limit) then CStatus 413 (error_counters setup)
      else if is_multipart ct && negb (match a with AppUp => true | _ => false end) then CUnmodelled
      else CNeed a cl setup
  end.

(* ------------------------------------------------------------------ HTTP header parser (http_parser.h) *)
Inductive pstate := PIdle | PInput | PLastLf | PLf | PSpaceOr | PQuote | PPassQuote | PBracket | PPassBracket.
Inductive pevent := EvNone | EvHeader (h : list N) | EvEnd | EvError.
Record parser := mkP { pst : pstate; pbc : Z; phdr : list N (* header_ reversed *) }.
Definition parser0 : parser := mkP PIdle 0 [].
Definition from_plain (idle : bool) (p : parser) (c : N) : parser :=
  let h := if idle then [] else phdr p in
  if N.eqb c 13 then mkP (if idle then PLastLf else PLf) (pbc p) (c :: h)
  else if N.eqb c 34 then mkP PQuote (pbc p) (c :: h)
  else if N.eqb c 40 then mkP PBracket (wrapu 32 (pbc p + 1)) (c :: h)
  else mkP PInput (pbc p) (c :: h).
(* one getc() iteration of parser::step, including the re-read of an ungetc()ed character *)
Definition pstep (p : parser) (c : N) : parser * pevent :=
  match pst p with
  | PIdle => (from_plain true p c, EvNone)
  | PInput => (from_plain false p c, EvNone)
  | PLastLf => if N.eqb c 10 then (mkP PLastLf (pbc p) [], EvEnd) else (p, EvError)
  | PLf => if N.eqb c 10 then (mkP PSpaceOr (pbc p) (c :: phdr p), EvNone) else (p, EvError)
  | PSpaceOr =>
      if N.eqb c 32 || N.eqb c 9 then (mkP PInput (pbc p) (c :: tl (tl (phdr p))), EvNone)
      else (from_plain true p c, EvHeader (rev_append (tl (tl (phdr p))) []))
  | PQuote =>
      (mkP (if N.eqb c 34 then PInput else if N.eqb c 92 then PPassQuote else PQuote) (pbc p) (c :: phdr p), EvNone)
  | PPassQuote => if N.leb 127 c then (p, EvError) else (mkP PQuote (pbc p) (c :: phdr p), EvNone)
  | PBracket =>
      if N.eqb c 41 then
        let b := wrapu 32 (pbc p - 1) in
        (mkP (if b =? 0 then PInput else PBracket) b (c :: phdr p), EvNone)
      else (mkP (if N.eqb c 92 then PPassBracket else PBracket) (pbc p) (c :: phdr p), EvNone)
  | PPassBracket => if N.leb 127 c then (p, EvError) else (mkP PBracket (pbc p) (c :: phdr p), EvNone)
  end.

(* ------------------------------------------------------------------ HTTP request line and headers (http_api.cpp) *)
Record hreq := mkH { h_first : bool; h_method : list N; h_uri : list N; h_11 : bool; h_cl : Z; h_ct : list N;
                     h_conn : option (list N) }.
Definition hreq0 : hreq := mkH false [] [] false 0 [] None.
Fixpoint split_sp (s : list N) : option (list N * list N) :=
  match s with
  | c :: t => if N.eqb c 32 then Some ([], t)
              else match split_sp t with Some (a, b) => Some (c :: a, b) | None => None end
  | [] => None
  end.
Definition v_http11 : list N := [72;84;84;80;47;49;46;49]%N.
Definition first_line (h : list N) (r : hreq) : option hreq :=
  match split_sp h with
  | None => None
  | Some (m, r1) =>
      match split_sp r1 with
      | None => None
      | Some (u, proto) => Some (mkH true (cstr m) (cstr u) (beq_bytes (cstr proto) v_http11) (h_cl r) (h_ct r) (h_conn r))
      end
  end.
Definition n_content_length : list N := [67;79;78;84;69;78;84;95;76;69;78;71;84;72]%N.
Definition n_content_type : list N := [67;79;78;84;69;78;84;95;84;89;80;69]%N.
Definition n_connection : list N := [67;79;78;78;69;67;84;73;79;78]%N.
Definition v_keep_alive : list N := [107;101;101;112;45;97;108;105;118;101]%N.
(* http::parse_single_header -> (NAME, value) *)
Definition single_header (h : list N) : option (list N * list N) :=
  let s := skip_ws h in
  let (name, r1) := tocken s in
  match name with
  | [] => None
  | _ =>
      match skip_ws r1 with
      | 58%N :: r2 => Some (map to_upper_us name, skip_ws r2)
      | _ => None
      end
  end.
Definition other_header (h : list N) (r : hreq) : option hreq :=
  match single_header h with
  | None => None
  | Some (name, value) =>
      if beq_bytes name n_content_length then
        Some (mkH (h_first r) (h_method r) (h_uri r) (h_11 r) (atoll value) (h_ct r) (h_conn r))
      else if beq_bytes name n_content_type then
        Some (mkH (h_first r) (h_method r) (h_uri r) (h_11 r) (h_cl r) (cstr value) (h_conn r))
      else if beq_bytes name n_connection then
        Some (mkH (h_first r) (h_method r) (h_uri r) (h_11 r) (h_cl r) (h_ct r)
                  (match h_conn r with None => Some (cstr value) | x => x end))
      else Some r
  end.
Definition on_header (h : list N) (r : hreq) : option hreq :=
  if h_first r then other_header h r else first_line h r.

(* kernel side of the connection: bytes still buffered in input_body_ and sizes of the not yet read kernel segments *)
Record io := mkIO { avail : nat; segs : list nat }.
Fixpoint drop_zeros (l : list nat) : list nat :=
  match l with O :: t => drop_zeros t | _ => l end.
Definition read_cap : nat := Z.to_nat 16384.
(* one socket read of at most 16384 bytes; None = end of stream *)
Definition refill (l : list nat) : option (nat * list nat) :=
  match drop_zeros l with
  | [] => None
  | n :: t => let k := Nat.min n read_cap in Some (k, (n - k)%nat :: t)
  end.
Inductive hres :=
| HDone (r : hreq) (rest : list N) (i : io)
| HFail.   (* protocol_violation or end of stream: closed without reply *)
Fixpoint hdr_loop (s : list N) (p : parser) (r : hreq) (total : Z) (i : io) {struct s} : hres :=
  match s with
  | [] => HFail
  | c :: t =>
      let ready :=
        match avail i with
        | O => if total >? hdr_limit then None
               else match refill (segs i) with
                    | None => None
                    | Some (k, sg) => Some (total + Z.of_nat k, mkIO k sg)
                    end
        | S _ => Some (total, i)
        end in
      match ready with
      | None => HFail
      | Some (total1, i1) =>
          let i2 := mkIO (pred (avail i1)) (segs i1) in
          let (p1, ev) := pstep p c in
          match ev with
          | EvNone => hdr_loop t p1 r total1 i2
          | EvError => HFail
          | EvEnd => HDone r t i2
          | EvHeader h =>
              match on_header h r with
              | None => HFail
              | Some r1 => hdr_loop t p1 r1 total1 i2
              end
          end
      end
  end.
(* http::process_request *)
Fixpoint all_token (s : list N) : bool :=
  match s with c :: t => token_char c && all_token t | [] => true end.
Fixpoint until_q (s : list N) : list N :=
  match s with c :: t => if N.eqb c 63 then [] else c :: until_q t | [] => [] end.
Fixpoint is_prefix (a s : list N) : option (list N) :=
  match a, s with
  | [], _ => Some s
  | x :: a', y :: s' => if N.eqb x y then is_prefix a' s' else None
  | _ :: _, [] => None
  end.
Fixpoint match_script (l : list (list N * app)) (path : list N) : list N :=
  match l with
  | (n, _) :: t =>
      match is_prefix n path with
      | Some [] => n
      | Some (47%N :: _) => n
      | _ => match_script t path
      end
  | [] => []
  end.
Inductive preq := PRaw400 | PScript (script : list N).
Definition process_request (r : hreq) : preq :=
  match h_method r with
  | [] => PRaw400
  | m =>
      if negb (all_token m) then PRaw400
      else match h_uri r with
           | 47%N :: _ => PScript (match_script script_names (until_q (h_uri r)))
           | _ => PRaw400
           end
  end.
(* consumption of k bytes by the content stage: first from input_body_, then straight from the kernel *)
Fixpoint drop_segs (k : nat) (l : list nat) : list nat :=
  match l with
  | [] => []
  | n :: t => if Nat.leb k n then (n - k)%nat :: t else drop_segs (k - n) t
  end.
Definition consume_io (k : nat) (i : io) : io :=
  if Nat.leb k (avail i) then mkIO (avail i - k) (segs i)
  else mkIO 0 (drop_segs (k - avail i) (segs i)).
Definition keep_alive_requested (r : hreq) : bool :=
  match h_conn r with Some v => ieq_bytes v v_keep_alive | None => false end.

Fixpoint http_conn (fuel : nat) (s : list N) (i : io) : list item * counters :=
  match fuel with
  | O => ([IFuel], c0)
  | S f =>
      match hdr_loop s parser0 hreq0 (Z.of_nat (avail i)) i with
      | HFail => ([IEnd], c0)
      | HDone r rest i1 =>
          match process_request r with
          | PRaw400 => ([IRaw400], c0)
          | PScript script =>
              let continue (a : app) (cnt : counters) (rest1 : list N) (i2 : io) :=
                if keep_alive_requested r then
                  let (l, c) := http_conn f rest1 i2 in (IOk a :: l, cadd cnt c)
                else ([IOk a], cnt) in
              match content_start script (h_cl r) (h_ct r) with
              | CStatus code cnt => ([IStatus code], cnt)
              | CUnmodelled => ([IUnmodelled], c0)
              | CHandled a cnt => continue a cnt rest i1
              | CNeed a n setup =>
                  if Z.of_nat (length rest) <? n then ([IEnd], error_counters setup)
                  else continue a (handler_counters a setup) (skipn (Z.to_nat n) rest) (consume_io (Z.to_nat n) i1)
              end
          end
      end
  end.
Definition http_run (segments : list (list N)) : list item * counters :=
  let s := concat segments in
  http_conn (S (length s)) s (mkIO 0 (map (@length N) segments)).

(* ------------------------------------------------------------------ bounds-checked buffer reads *)
Definition rd (buf : list N) (i : Z) : option N :=
  if (i <? 0) then None else nth_error buf (Z.to_nat i).

(* ------------------------------------------------------------------ SCGI (scgi_api.cpp) *)
Fixpoint find_colon (s : list N) (k : nat) : nat :=
  match s with
  | c :: t => if N.eqb c 58 then k else find_colon t (S k)
  | [] => k
  end.
(* strlen(&buf[p]) with the reads checked against the buffer: None = ran off the end of the buffer *)
Fixpoint strlen_l (l : list N) : option Z :=
  match l with
  | [] => None
  | c :: t => if N.eqb c 0 then Some 0 else match strlen_l t with Some n => Some (n + 1) | None => None end
  end.
Definition strlen_at (buf : list N) (p : Z) : option Z :=
  if p <? 0 then None else strlen_l (skipn (Z.to_nat p) buf).
Definition slice (buf : list N) (p n : Z) : list N := firstn (Z.to_nat n) (skipn (Z.to_nat p) buf).
(* the key/value loop of on_headers_chunk_read; back = index of the last byte of the buffer.
   None = out-of-bounds read *)
Fixpoint scgi_env (fuel : nat) (buf : list N) (p back : Z) (acc : list (list N * list N)) : option (list (list N * list N)) :=
  match fuel with
  | O => Some acc
  | S f =>
      if p <? back then
        match strlen_at buf p with
        | None => None
        | Some kl =>
            let p1 := p + kl + 1 in
            if p1 >=? back then Some acc
            else match strlen_at buf p1 with
                 | None => None
                 | Some vl => scgi_env f buf (p1 + vl + 1) back (acc ++ [(slice buf p kl, slice buf p1 vl)])
                 end
        end
      else Some acc
  end.
(* connection::env_ is a string_map (private/string_map.h, modelled in SMapDefs.v): the variables of the request are add()ed in
   order to a cleared table, cgetenv() is get_safe().  For fewer than 33 variables this is the first pair with that name; beyond
   that every growth of the table reverses the order in which duplicates of a name are met (SMapProofs.v: smap_get_spec). *)
Definition env_get (e : list (list N * list N)) (k : list N) : option (list N) :=
  match smap_get (env_map e) k with
  | GFound v => Some v
  | _ => None
  end.
Definition env_safe (e : list (list N * list N)) (k : list N) : list N :=
  match env_get e k with Some v => v | None => [] end.
Definition n_script_name : list N := [83;67;82;73;80;84;95;78;65;77;69]%N.
(* connection::env_content_length *)
Definition env_cl (e : list (list N * list N)) : Z :=
  match env_get e n_content_length with
  | None => 0
  | Some [] => 0
  | Some v => atoll v
  end.
(* on_headers_chunk_read, after the comma test:
     if(buffer_.size() > sep_ + 2 && buffer_[buffer_.size()-2]!=0) -> protocol_violation
   i.e. a non-empty header block must end in NUL, so that every strlen of the scan below ends inside buffer_.
   None = the read of buffer_[size-2] is outside the buffer, Some false = protocol violation, Some true = scan *)
Definition scgi_block_terminated (buf : list N) (sep size : Z) : option bool :=
  if size >? sep + 2 then
    match rd buf (size - 2) with
    | None => None
    | Some b => Some (N.eqb b 0)
    end
  else Some true.
(* the input class of the defect repaired by 236058f, as a decidable predicate on the bytes of the connection: the netstring
   is accepted by on_first_read, complete, ends in a comma, its header block is not empty and its last byte is not NUL.
   checks/C02.py computes the same class from the bytes it sends (scgi_unterminated) and demands the repaired behaviour of
   the implementation on it; the two definitions are compared on every generated SCGI case *)
Definition scgi_sep (s : list N) : Z := Z.of_nat (find_colon (firstn 16 s) 0).
Definition scgi_len (s : list N) : Z := atoi (cstr (firstn (Z.to_nat (scgi_sep s)) (firstn 16 s))).
(* index of the last byte of the header block (the byte before the comma) *)
Definition scgi_block_end (s : list N) : Z := scgi_sep s + scgi_len s.
Definition rd_is (buf : list N) (i : Z) (c : N) : bool := match rd buf i with Some b => N.eqb b c | None => false end.
Definition scgi_unterminated_class (s : list N) : bool :=
  let sep := scgi_sep s in
  let len := scgi_len s in
  let size := sep + 2 + len in
  (16 <=? Z.of_nat (length s)) && (sep <? 16) && (0 <? len) && (len <=? 16384) && (16 <? size) &&
  (size <=? Z.of_nat (length s)) && rd_is s (size - 1) 44 && negb (rd_is s (size - 2) 0).
Definition scgi_run (s : list N) : list item * counters :=
  if Z.of_nat (length s) <? 16 then ([IEnd], c0)
  else
    let first := firstn 16 s in
    let sep := Z.of_nat (find_colon first 0) in
    if sep >=? 16 then ([IEnd], c0)
    else
      let len := atoi (cstr (firstn (Z.to_nat sep) first)) in
      if (len <? 0) || (16384 <? len) then ([IEnd], c0)
      else
        let size := sep + 2 + len in
        if size <=? 16 then ([IEnd], c0)
        else if Z.of_nat (length s) <? size then ([IEnd], c0)
        else
          let buf := firstn (Z.to_nat size) s in
          let rest := skipn (Z.to_nat size) s in
          match rd buf (size - 1) with
          | None => ([IUnsafe], c0)
          | Some last =>
              if negb (N.eqb last 44) then ([IEnd], c0)
              else
                match scgi_block_terminated buf sep size with
                | None => ([IUnsafe], c0)
                | Some false => ([IEnd], c0)     (* protocol_violation: the last string of the block has no NUL *)
                | Some true =>
                match scgi_env (length buf) buf (sep + 1) (size - 1) [] with
                | None => ([IUnsafe], c0)
                | Some e =>
                    match content_start (env_safe e n_script_name) (env_cl e) (env_safe e n_content_type) with
                    | CStatus code cnt => ([IStatus code], cnt)
                    | CUnmodelled => ([IUnmodelled], c0)
                    | CHandled a cnt => ([IOk a], cnt)
                    | CNeed a n setup =>
                        if Z.of_nat (length rest) <? n then ([IEnd], error_counters setup)
                        else ([IOk a], handler_counters a setup)
                    end
                end
                end
          end.

(* ------------------------------------------------------------------ FastCGI (fastcgi_api.cpp) *)
Record fhdr := mkF { f_version : Z; f_type : Z; f_id : Z; f_clen : Z; f_plen : Z }.
Definition zb (c : N) : Z := Z.of_N c.
(* async_read_record / non_blocking_read_record: 8 byte header, content, padding; None = stream ends first *)
Definition read_record (s : list N) : option (fhdr * list N * list N) :=
  match s with
  | v :: t :: i1 :: i0 :: c1 :: c0_ :: pl :: _ :: r =>
      let clen := zb c1 * 256 + zb c0_ in
      let plen := zb pl in
      if Z.of_nat (length r) <? clen + plen then None
      else Some (mkF (zb v) (zb t) (zb i1 * 256 + zb i0) clen plen,
                 firstn (Z.to_nat clen) r, skipn (Z.to_nat (clen + plen)) r)
  | _ => None
  end.
Inductive lenres := LUnsafe | LBad | LOk (v : Z) (p : Z).
(* fastcgi::read_len on body_[p..e) *)
Definition read_len (body : list N) (p e : Z) : lenres :=
  let four :=
    if e - p >=? 4 then
      match rd body p, rd body (p + 1), rd body (p + 2), rd body (p + 3) with
      | Some b3, Some b2, Some b1, Some b0 =>
          LOk (wrapu 32 (Z.land (zb b3) 127 * 16777216 + zb b2 * 65536 + zb b1 * 256 + zb b0)) (p + 4)
      | _, _, _, _ => LUnsafe
      end
    else LBad in
  if p <? e then
    match rd body p with
    | None => LUnsafe
    | Some c => if zb c <? 128 then LOk (zb c) (p + 1) else four
    end
  else four.
Inductive pairs_res := PUnsafe | PFalse (acc : list (list N * list N)) | PTrue (acc : list (list N * list N)).
(* fastcgi::parse_pairs: both overloads; names and values are slices of body_ *)
Fixpoint parse_pairs (fuel : nat) (body : list N) (p e : Z) (acc : list (list N * list N)) : pairs_res :=
  match fuel with
  | O => PTrue acc
  | S f =>
      if p <? e then
        match read_len body p e with
        | LUnsafe => PUnsafe
        | LBad =>
            (* nlen = 0xFFFFFFFF; vlen is still read before the test *)
            match read_len body p e with LUnsafe => PUnsafe | _ => PFalse acc end
        | LOk nlen p1 =>
            match read_len body p1 e with
            | LUnsafe => PUnsafe
            | LBad => PFalse acc
            | LOk vlen p2 =>
                if wrapu 32 (e - p2) >=? nlen then
                  let p3 := p2 + nlen in
                  if wrapu 32 (e - p3) >=? vlen then
                    if (p2 <? 0) || (p3 + vlen >? Z.of_nat (length body)) then PUnsafe
                    else parse_pairs f body (p3 + vlen) e (acc ++ [(slice body p2 nlen, slice body p3 vlen)])
                  else PFalse acc
                else PFalse acc
            end
        end
      else PTrue acc
  end.
Definition cstr_pairs (l : list (list N * list N)) : list (list N * list N) :=
  map (fun kv => (cstr (fst kv), cstr (snd kv))) l.
Definition n_max_conns : list N := [70;67;71;73;95;77;65;88;95;67;79;78;78;83]%N.
Definition n_max_reqs : list N := [70;67;71;73;95;77;65;88;95;82;69;81;83]%N.
Definition n_mpxs : list N := [70;67;71;73;95;77;80;88;83;95;67;79;78;78;83]%N.
Fixpoint gv_answer (l : list (list N * list N)) : list N :=
  match l with
  | (n, _) :: t =>
      if beq_bytes n n_max_conns then 1%N :: gv_answer t
      else if beq_bytes n n_max_reqs then 2%N :: gv_answer t
      else if beq_bytes n n_mpxs then 3%N :: gv_answer t
      else gv_answer t
  | [] => []
  end.
(* PARAMS records until the empty one; body_ grows; more than 16383 bytes before a non-empty record is a violation *)
Fixpoint params_loop (fuel : nat) (s : list N) (rid : Z) (body : list N) : option (list N * list N) :=
  match fuel with
  | O => None
  | S f =>
      match read_record s with
      | None => None
      | Some (h, content, rest) =>
          if negb (f_type h =? 4) || negb (f_id h =? rid) then None
          else if f_clen h =? 0 then Some (body, rest)
          else
            let body1 := body ++ content in
            if Z.of_nat (length body1) <? 16384 then params_loop f rest rid body1 else None
      end
  end.
(* STDIN records carrying need > 0 content bytes, then the empty STDIN record *)
Fixpoint stdin_loop (fuel : nat) (s : list N) (rid : Z) (need : Z) : option (list N) :=
  match fuel with
  | O => None
  | S f =>
      match read_record s with
      | None => None
      | Some (h, _, rest) =>
          if negb (f_type h =? 5) || negb (f_id h =? rid) || (f_clen h =? 0) then None
          else if f_clen h >=? need then
            match read_record rest with
            | None => None
            | Some (h2, _, rest2) =>
                if negb (f_type h2 =? 5) || negb (f_id h2 =? rid) || negb (f_clen h2 =? 0) then None
                else Some rest2
            end
          else stdin_loop f rest rid (need - f_clen h)
      end
  end.
(* both parse_pairs overloads as called on the whole of body_:
     if(body_.empty()) return true;
     unsigned char const *p = &body_.front();  e = p + body_.size();  while(p<e) ...
   &body_.front() is defined only for a non-empty vector: it is modelled as the bounds-checked read of index 0 *)
Definition parse_pairs_all (body : list N) : pairs_res :=
  match body with
  | [] => PTrue []
  | _ :: _ =>
      match rd body 0 with
      | None => PUnsafe
      | Some _ => parse_pairs (S (length body)) body 0 (Z.of_nat (length body)) []
      end
  end.
Definition env_of_params (body : list N) : option (list (list N * list N)) :=
  match parse_pairs_all body with
  | PUnsafe => None
  | PFalse acc => Some (cstr_pairs acc)     (* the result of parse_pairs() is ignored by params_record_expected *)
  | PTrue acc => Some (cstr_pairs acc)
  end.
(* the part of a request after the PARAMS stream (and, for an empty body, after the empty STDIN record);
   k = the rest of the connection (next request) *)
Definition fcgi_after_headers (k : list N -> list item * counters) (e : list (list N * list N)) (keep : bool) (rid : Z)
           (rest2 : list N) : list item * counters :=
  let continue (a : app) (cnt : counters) (rest3 : list N) :=
    if keep then let (l, c) := k rest3 in (IOk a :: l, cadd cnt c) else ([IOk a], cnt) in
  match content_start (env_safe e n_script_name) (env_cl e) (env_safe e n_content_type) with
  | CStatus code cnt => ([IStatus code], cnt)
  | CUnmodelled => ([IUnmodelled], c0)
  | CHandled a cnt => continue a cnt rest2
  | CNeed a n setup =>
      match stdin_loop (S (length rest2)) rest2 rid n with
      | None => ([IEnd], error_counters setup)
      | Some rest3 => continue a (handler_counters a setup) rest3
      end
  end.
(* on_start_request and what follows it; one iteration = one record read by async_read_headers *)
Fixpoint fcgi_conn (fuel : nat) (s : list N) : list item * counters :=
  match fuel with
  | O => ([IFuel], c0)
  | S f =>
      match read_record s with
      | None => ([IEnd], c0)
      | Some (h, content, rest) =>
          if negb (f_version h =? 1) then ([IEnd], c0)
          else if f_type h =? 9 then
            (* GET_VALUES: an empty body is a valid (empty) question and gets an empty GET_VALUES_RESULT *)
            match parse_pairs_all content with
            | PUnsafe => ([IUnsafe], c0)
            | PFalse _ => ([IEnd], c0)
            | PTrue acc => let (l, c) := fcgi_conn f rest in (IGetValues (gv_answer acc) :: l, c)
            end
          else if negb (f_type h =? 1) then fcgi_conn f rest
          else if negb (Z.of_nat (length content) =? 8) then ([IEnd], c0)
          else
            let role := zb (nth 0 content 0%N) * 256 + zb (nth 1 content 0%N) in
            let keep := Z.odd (zb (nth 2 content 0%N)) in
            if negb (role =? 1) then let (l, c) := fcgi_conn f rest in (IUnknownRole :: l, c)
            else
              let rid := f_id h in
              match params_loop (S (length rest)) rest rid [] with
              | None => ([IEnd], c0)
              | Some (body, rest1) =>
                  match env_of_params body with
                  | None => ([IUnsafe], c0)
                  | Some e =>
                      if env_cl e <=? 0 then
                        (* content_length_ = 0: the empty STDIN record is read before the headers are reported *)
                        match read_record rest1 with
                        | None => ([IEnd], c0)
                        | Some (h2, _, rest2) =>
                            if negb (f_type h2 =? 5) || negb (f_clen h2 =? 0) then ([IEnd], c0)
                            else fcgi_after_headers (fun r => fcgi_conn f r) e keep rid rest2
                        end
                      else fcgi_after_headers (fun r => fcgi_conn f r) e keep rid rest1
                  end
              end
      end
  end.
Definition fcgi_run (s : list N) : list item * counters := fcgi_conn (S (length s)) s.
