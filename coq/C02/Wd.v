(* C02 -- the HTTP time-out watchdog (src/http_api.cpp): a connection is a member of http_watchdog::connections_ while it waits
   for the header bytes of a request; check() (once per second) closes the members whose time_to_die has passed.  The connection
   keeps a flag in_watchdog_:
       add_to_watchdog():      if(!in_watchdog_) { watchdog_->add(self()); in_watchdog_ = true; }     called by async_read_headers
       remove_from_watchdog(): if(in_watchdog_)  { watchdog_->remove(self()); in_watchdog_ = false; } called by on_async_read_complete
   Model: the flag and the actual membership over the events of a (kept-alive) connection.  Proved: the flag always tells the
   membership, hence after EVERY start of a header read - the first request and every later request of a kept-alive connection,
   whatever happened before - the connection is a member: a peer that sends a truncated request, or nothing, and keeps the
   socket open is closed by the watchdog. *)
From CppcmsV Require Import Base.Tac.

Record wd := mkwd { flag : bool; member : bool }.
Definition wd0 : wd := mkwd false false.                       (* constructor: in_watchdog_(false), not in the set *)
Definition wd_add (s : wd) : wd := if negb (flag s) then mkwd true true else s.
Definition wd_remove (s : wd) : wd := if flag s then mkwd false false else s.
(* events of a connection: a header read starts (async_read_headers), the request has been read completely
   (on_async_read_complete), anything else (content reads, writes, ...) *)
Inductive wd_event := ReadHeadersStart | ReadComplete | Other.
Definition wd_step (s : wd) (e : wd_event) : wd :=
  match e with ReadHeadersStart => wd_add s | ReadComplete => wd_remove s | Other => s end.
Definition wd_run (es : list wd_event) : wd := fold_left wd_step es wd0.

Lemma wd_step_inv s e : flag s = member s -> flag (wd_step s e) = member (wd_step s e).
Proof. destruct s as [f m]. cbn [flag member]. intros H. subst f. destruct e, m; reflexivity. Qed.
Lemma wd_run_inv_from es : forall s, flag s = member s -> flag (fold_left wd_step es s) = member (fold_left wd_step es s).
Proof. induction es as [|e es IH]; intros s H; [exact H|]. cbn [fold_left]. apply IH. apply wd_step_inv. exact H. Qed.
Theorem wd_flag_is_membership es : flag (wd_run es) = member (wd_run es).
Proof. apply wd_run_inv_from. reflexivity. Qed.
(* a connection that has started to read request headers is in the watchdog, whatever came before *)
Theorem wd_waiting_connection_is_member es : member (wd_run (es ++ [ReadHeadersStart])) = true.
Proof.
  unfold wd_run. rewrite fold_left_app. cbn [fold_left wd_step]. fold (wd_run es).
  pose proof (wd_flag_is_membership es) as H. unfold wd_add. destruct (flag (wd_run es)); cbn [negb]; [rewrite <- H; reflexivity|reflexivity].
Qed.
(* ... and stays one until the request is complete *)
Theorem wd_member_until_complete es tail : Forall (fun e => e <> ReadComplete) tail ->
  member (wd_run (es ++ ReadHeadersStart :: tail)) = true.
Proof.
  intros Ht. replace (es ++ ReadHeadersStart :: tail) with ((es ++ [ReadHeadersStart]) ++ tail) by (rewrite <- app_assoc; reflexivity).
  unfold wd_run. rewrite fold_left_app. fold (wd_run (es ++ [ReadHeadersStart])).
  pose proof (wd_waiting_connection_is_member es) as M. pose proof (wd_flag_is_membership (es ++ [ReadHeadersStart])) as F.
  revert M F. generalize (wd_run (es ++ [ReadHeadersStart])) as s.
  induction Ht as [|e t He Ht IH]; intros s M F; [exact M|]. cbn [fold_left]. apply IH.
  - destruct e; cbn [wd_step]; [unfold wd_add; rewrite F, M; cbn [negb]; exact M|congruence|exact M].
  - apply wd_step_inv. exact F.
Qed.
Print Assumptions wd_waiting_connection_is_member.
Print Assumptions wd_member_until_complete.
