(* C02 proofs, part 1: declared length arithmetic, content stage, counters of one request, parser index invariant,
   regression witnesses of the two repaired out-of-bounds paths *)
From CppcmsV Require Import Base.Tac Base.CSem C02.Defs.
Local Open Scope Z_scope.

(* ------------------------------------------------------------------ atoll is a saturating signed 64-bit value *)
Lemma clamp64_range z : LLONG_MIN <= clamp64 z <= LLONG_MAX.
Proof. unfold clamp64, LLONG_MIN, LLONG_MAX. lia. Qed.
Lemma atoll_range s : LLONG_MIN <= atoll s <= LLONG_MAX.
Proof.
  unfold atoll. destruct (skip_space s) as [|c t]; [apply clamp64_range|].
  destruct c as [|p]; [apply clamp64_range|].
  repeat (destruct p as [p|p|]; try apply clamp64_range).
Qed.
Lemma digits_val_ge acc s : 0 <= acc -> acc <= digits_val acc s.
Proof.
  revert acc. induction s as [|c t IH]; intros acc H; cbn [digits_val]; [lia|].
  destruct (isdigit c) eqn:E; [|lia].
  unfold isdigit in E. apply andb_true_iff in E. destruct E as [E1 E2].
  apply N.leb_le in E1. apply N.leb_le in E2.
  assert (P : 0 <= acc * 10 + (Z.of_N c - 48)) by lia.
  specialize (IH _ P). lia.
Qed.
(* a leading minus sign followed by a non-zero digit is a negative length, however long the digit string *)
Lemma atoll_minus_negative c t : isdigit c = true -> c <> 48%N -> atoll (45%N :: c :: t) < 0.
Proof.
  intros D NZ. unfold atoll. cbn [skip_space isspace]. cbn.
  rewrite D. unfold isdigit in D. apply andb_true_iff in D. destruct D as [E1 E2].
  apply N.leb_le in E1. apply N.leb_le in E2.
  assert (H : 1 <= digits_val (Z.of_N c - 48) t) by (etransitivity; [|apply digits_val_ge]; lia).
  unfold clamp64, LLONG_MIN, LLONG_MAX. lia.
Qed.

(* ------------------------------------------------------------------ content stage *)
Definition handled (c : counters) : Z := c_sync c + c_async c + c_main c.
Definition cnt_ok (c : counters) : Prop :=
  0 <= c_sync c /\ 0 <= c_async c /\ 0 <= c_setup c /\ 0 <= c_main c /\ 0 <= c_err c /\ 0 <= c_end c /\ 0 <= c_abort c.

Lemma handler_counters_spec a setup c : c = handler_counters a setup ->
  cnt_ok c /\ handled c = (match a with AppProbe => 0 | _ => 1 end) /\ c_err c = 0 /\ c_setup c <= 1 /\ c_end c <= c_setup c /\ c_abort c = 0.
Proof. intros ->. destruct a, setup; vm_compute; intuition (try discriminate; try reflexivity). Qed.
Lemma error_counters_spec setup c : c = error_counters setup ->
  cnt_ok c /\ handled c = 0 /\ c_err c = c_setup c /\ c_err c <= 1 /\ c_end c = 0 /\ c_abort c = 0.
Proof. intros ->. destruct setup; vm_compute; intuition (try discriminate; try reflexivity). Qed.

(* negative declared length: 400, no handler call, whatever the application and content type *)
Lemma content_start_negative script cl ct a :
  mounted script = Some a -> setup_throws a = false -> cl < 0 ->
  exists cnt, content_start script cl ct = CStatus 400 cnt /\ handled cnt = 0 /\ c_err cnt <= 1.
Proof.
  intros M NT H. unfold content_start. rewrite M. rewrite NT, andb_false_r.
  destruct (Z.eqb_spec cl 0); [lia|]. destruct (Z.ltb_spec cl 0); [|lia].
  eexists. split; [reflexivity|].
  match goal with |- context[error_counters ?b] => pose proof (error_counters_spec b _ eq_refl) as S end. intuition lia.
Qed.
(* declared length above the applicable limit: 413, no handler call *)
Lemma content_start_too_large script cl ct a :
  mounted script = Some a -> setup_throws a = false -> cl > (if is_multipart ct then mp_limit else cl_limit) ->
  exists cnt, content_start script cl ct = CStatus 413 cnt /\ handled cnt = 0 /\ c_err cnt <= 1.
Proof.
  intros M NT H. unfold content_start. rewrite M. rewrite NT, andb_false_r.
  assert (0 < cl) by (destruct (is_multipart ct); unfold mp_limit, cl_limit in H; lia).
  destruct (Z.eqb_spec cl 0); [lia|]. destruct (Z.ltb_spec cl 0); [lia|].
  destruct (Z.gtb_spec cl (if is_multipart ct then mp_limit else cl_limit)); [|lia].
  eexists. split; [reflexivity|].
  match goal with |- context[error_counters ?b] => pose proof (error_counters_spec b _ eq_refl) as S end. intuition lia.
Qed.
(* whatever is handed to post_data.resize()/the content reader is positive and within the configured limit *)
Lemma content_start_need script cl ct a n setup :
  content_start script cl ct = CNeed a n setup -> n = cl /\ 0 < n <= mp_limit /\ mounted script = Some a.
Proof.
  unfold content_start. destruct (mounted script) as [a0|]; [|discriminate].
  destruct (is_filter a0 && negb (cl =? 0) && setup_throws a0); [discriminate|].
  destruct (Z.eqb_spec cl 0); [discriminate|]. destruct (Z.ltb_spec cl 0); [discriminate|].
  destruct (Z.gtb_spec cl (if is_multipart ct then mp_limit else cl_limit)); [discriminate|].
  destruct (is_multipart ct && negb match a0 with AppUp => true | _ => false end); [discriminate|].
  intros E. injection E as -> -> _. split; [reflexivity|]. split; [|reflexivity].
  destruct (is_multipart ct); unfold mp_limit, cl_limit in *; lia.
Qed.
Lemma content_start_unmounted script cl ct : mounted script = None -> content_start script cl ct = CStatus 404 c0.
Proof. intros M. unfold content_start. rewrite M. reflexivity. Qed.
(* every outcome of the content stage that is an error has zero handler calls and at most one on_error *)
Lemma content_start_status script cl ct code cnt :
  content_start script cl ct = CStatus code cnt ->
  (code = 404 \/ code = 400 \/ code = 413 \/ code = 403 \/ code = 500) /\ cnt_ok cnt /\ handled cnt = 0 /\ c_err cnt <= 1 /\
  c_setup cnt = c_err cnt + c_abort cnt /\ c_abort cnt <= 1 /\ c_end cnt = 0.
Proof.
  unfold content_start. destruct (mounted script) as [a0|].
  2:{ intros E. injection E as <- <-. unfold cnt_ok, handled. cbn. lia. }
  destruct (is_filter a0 && negb (cl =? 0) && setup_throws a0).
  { intros E. injection E as <- <-. unfold cnt_ok, handled. cbn. destruct a0; lia. }
  destruct (Z.eqb_spec cl 0); [discriminate|].
  destruct (Z.ltb_spec cl 0).
  { intros E. injection E as <- <-.
    match goal with |- context[error_counters ?b] => pose proof (error_counters_spec b _ eq_refl) as S end. intuition lia. }
  destruct (Z.gtb_spec cl (if is_multipart ct then mp_limit else cl_limit)).
  { intros E. injection E as <- <-.
    match goal with |- context[error_counters ?b] => pose proof (error_counters_spec b _ eq_refl) as S end. intuition lia. }
  destruct (is_multipart ct && negb match a0 with AppUp => true | _ => false end); discriminate.
Qed.
Lemma content_start_handled script cl ct a cnt :
  content_start script cl ct = CHandled a cnt -> cl = 0 /\ cnt = handler_counters a false /\ mounted script = Some a.
Proof.
  unfold content_start. destruct (mounted script) as [a0|]; [|discriminate].
  destruct (is_filter a0 && negb (cl =? 0) && setup_throws a0); [discriminate|].
  destruct (Z.eqb_spec cl 0).
  { intros E. injection E as <- <-. auto. }
  destruct (Z.ltb_spec cl 0); [discriminate|].
  destruct (Z.gtb_spec cl (if is_multipart ct then mp_limit else cl_limit)); [discriminate|].
  destruct (is_multipart ct && negb match a0 with AppUp => true | _ => false end); discriminate.
Qed.

(* ------------------------------------------------------------------ HTTP parser: header_.resize(size-2) never underflows *)
Definition pinv (p : parser) : Prop :=
  match pst p with
  | PSpaceOr => (2 <= length (phdr p))%nat
  | PLf => (1 <= length (phdr p))%nat
  | _ => True
  end.
Lemma from_plain_inv idle p c : pinv (from_plain idle p c).
Proof.
  unfold from_plain. destruct (N.eqb c 13).
  - destruct idle; cbn; lia.
  - destruct (N.eqb c 34); [exact I|]. destruct (N.eqb c 40); exact I.
Qed.
Lemma pstep_inv p c : pinv p -> pinv (fst (pstep p c)).
Proof.
  intros H. unfold pstep. unfold pinv in H. destruct (pst p) eqn:E; cbn [fst].
  - apply from_plain_inv.
  - apply from_plain_inv.
  - destruct (N.eqb c 10); cbn [fst]; [exact I|]. unfold pinv. rewrite E. exact I.
  - destruct (N.eqb c 10); cbn [fst]; [cbn; lia|]. unfold pinv. rewrite E. exact H.
  - destruct (N.eqb c 32 || N.eqb c 9); cbn [fst]; [exact I|]. apply from_plain_inv.
  - unfold pinv. cbn. destruct (N.eqb c 34); [exact I|]. destruct (N.eqb c 92); exact I.
  - destruct (N.leb 127 c); cbn [fst]; [unfold pinv; rewrite E; exact I|exact I].
  - destruct (N.eqb c 41); cbn [fst].
    + unfold pinv. cbn. destruct (wrapu 32 (pbc p - 1) =? 0); exact I.
    + unfold pinv. cbn. destruct (N.eqb c 92); exact I.
  - destruct (N.leb 127 c); cbn [fst]; [unfold pinv; rewrite E; exact I|exact I].
Qed.
Fixpoint prun (p : parser) (s : list N) : parser :=
  match s with c :: t => prun (fst (pstep p c)) t | [] => p end.
Lemma prun_inv s : forall p, pinv p -> pinv (prun p s).
Proof. induction s as [|c t IH]; intros p H; cbn [prun]; [exact H|]. apply IH. apply pstep_inv. exact H. Qed.
(* in the state in which header_.resize(header_.size()-2) is executed the header holds at least CR LF *)
Lemma resize_in_bounds s : pst (prun parser0 s) = PSpaceOr -> (2 <= length (phdr (prun parser0 s)))%nat.
Proof. intros E. pose proof (prun_inv s parser0 I) as H. unfold pinv in H. rewrite E in H. exact H. Qed.

(* ------------------------------------------------------------------ regression witnesses of two repaired defects *)
(* "40:" + 40 x A + ","  : before repair 236058f the key/value scan ran off the end of buffer_ (strlen);
   now the block is rejected because its last string is not NUL terminated *)
Definition scgi_witness : list N := [52;48;58]%N ++ repeat 65%N 40 ++ [44]%N.
Lemma scgi_unterminated_rejected : scgi_run scgi_witness = ([IEnd], c0).
Proof. vm_compute. reflexivity. Qed.
(* GET_VALUES record with no content as first record of a connection: before repairs d9475fc + 48f6979 the front() of
   a vector without storage was taken; now an empty GET_VALUES_RESULT is sent and the connection goes on *)
Definition fcgi_witness : list N := [1;9;0;0;0;0;0;0]%N.
Lemma fcgi_empty_get_values_answered : fcgi_run fcgi_witness = ([IGetValues []; IEnd], c0).
Proof. vm_compute. reflexivity. Qed.
