(* C02 proofs, part 4: the HTTP header reader consumes at most 2 x 16384 bytes per request; connection-level
   statements of the declared-length rejections *)
From CppcmsV Require Import Base.Tac Base.CSem C02.Defs C02.Proofs C02.Proofs2 C02.Proofs3.
Local Open Scope Z_scope.

Lemma read_cap_val : Z.of_nat read_cap = 16384.
Proof. unfold read_cap. rewrite Z2Nat.id; lia. Qed.
Lemma drop_zeros_pos l n t : drop_zeros l = n :: t -> (1 <= n)%nat.
Proof.
  induction l as [|x l IH]; cbn [drop_zeros]; [discriminate|].
  destruct x; [exact IH|]. intros E. injection E as <- _. lia.
Qed.
Lemma refill_pos l k sg : refill l = Some (k, sg) -> 1 <= Z.of_nat k <= 16384.
Proof.
  unfold refill. destruct (drop_zeros l) as [|n t] eqn:D; [discriminate|].
  apply drop_zeros_pos in D. intros E. injection E as <- _.
  pose proof read_cap_val. lia.
Qed.
(* bytes the header reader may still consume: what is buffered plus, while no more than 16384 bytes have been read
   for this request, what further reads may bring *)
Definition potential (total : Z) (a : nat) : Z :=
  Z.of_nat a + (if total <=? hdr_limit then 2 * hdr_limit - total else 0).
Lemma hdr_loop_bound s : forall p r total i r' rest i',
  hdr_loop s p r total i = HDone r' rest i' ->
  Z.of_nat (length s) - Z.of_nat (length rest) <= potential total (avail i).
Proof.
  induction s as [|c t IH]; intros p r total i r' rest i' E; cbn [hdr_loop] in E; [discriminate|].
  assert (Step : forall total1 i1,
    match avail i with
    | O => if total >? hdr_limit then None
           else match refill (segs i) with
                | Some (k, sg) => Some (total + Z.of_nat k, mkIO k sg)
                | None => None
                end
    | S _ => Some (total, i)
    end = Some (total1, i1) ->
    (1 <= avail i1)%nat /\ 1 + potential total1 (pred (avail i1)) <= potential total (avail i)).
  { intros total1 i1 R. unfold potential, hdr_limit in *. destruct (avail i) as [|a] eqn:A.
    - destruct (Z.gtb_spec total 16384) as [G|G]; [discriminate|].
      destruct (refill (segs i)) as [[k sg]|] eqn:RF; [|discriminate].
      apply refill_pos in RF. injection R as <- <-. cbn [avail].
      destruct (Z.leb_spec total 16384); [|lia]. destruct (Z.leb_spec (total + Z.of_nat k) 16384); lia.
    - injection R as <- <-. rewrite A. split; [lia|]. cbn [pred]. destruct (Z.leb_spec total 16384); lia. }
  destruct (match avail i with
            | O => if total >? hdr_limit then None
                   else match refill (segs i) with
                        | Some (k, sg) => Some (total + Z.of_nat k, mkIO k sg)
                        | None => None
                        end
            | S _ => Some (total, i)
            end) as [[total1 i1]|]; [|discriminate].
  destruct (Step total1 i1 eq_refl) as (A1 & P1).
  destruct (pstep p c) as [p1 ev]. destruct ev as [|h| |].
  - apply IH in E. cbn [avail] in E. cbn [length]. lia.
  - destruct (on_header h r) as [r1|]; [|discriminate]. apply IH in E. cbn [avail] in E. cbn [length]. lia.
  - injection E as _ <- _. cbn [length]. unfold potential, hdr_limit in *.
    destruct (Z.leb_spec total1 16384); destruct (Z.leb_spec total 16384); lia.
  - discriminate.
Qed.
(* a request whose header block is accepted took at most 32768 bytes from the connection *)
Lemma hdr_loop_at_most_two_reads s i r rest i1 :
  (avail i <= read_cap)%nat ->
  hdr_loop s parser0 hreq0 (Z.of_nat (avail i)) i = HDone r rest i1 ->
  Z.of_nat (length s) - Z.of_nat (length rest) <= 32768.
Proof.
  intros A E. apply hdr_loop_bound in E. unfold potential, hdr_limit in E.
  pose proof read_cap_val. destruct (Z.leb_spec (Z.of_nat (avail i)) 16384); lia.
Qed.

(* connection level: a request with a negative / oversized declared length for a mounted application is answered
   with 400 / 413 and nothing else happens on the connection; no handler runs *)
Lemma http_conn_bad_length f s i r rest i1 script a :
  hdr_loop s parser0 hreq0 (Z.of_nat (avail i)) i = HDone r rest i1 ->
  process_request r = PScript script -> mounted script = Some a -> setup_throws a = false -> h_cl r < 0 ->
  exists cnt, http_conn (S f) s i = ([IStatus 400], cnt) /\ handled cnt = 0 /\ c_err cnt <= 1.
Proof.
  intros HL PR M NT L. cbn [http_conn]. rewrite HL, PR.
  destruct (content_start_negative script (h_cl r) (h_ct r) a M NT L) as (cnt & -> & H1 & H2).
  exists cnt. auto.
Qed.
Lemma http_conn_oversized f s i r rest i1 script a :
  hdr_loop s parser0 hreq0 (Z.of_nat (avail i)) i = HDone r rest i1 ->
  process_request r = PScript script -> mounted script = Some a -> setup_throws a = false ->
  h_cl r > (if is_multipart (h_ct r) then mp_limit else cl_limit) ->
  exists cnt, http_conn (S f) s i = ([IStatus 413], cnt) /\ handled cnt = 0 /\ c_err cnt <= 1.
Proof.
  intros HL PR M NT L. cbn [http_conn]. rewrite HL, PR.
  destruct (content_start_too_large script (h_cl r) (h_ct r) a M NT L) as (cnt & -> & H1 & H2).
  exists cnt. auto.
Qed.

(* ------------------------------------------------------------------ the HTTP reader has no out-of-bounds path at all *)
Lemma http_conn_no_unsafe fuel : forall s i, ~ In IUnsafe (fst (http_conn fuel s i)).
Proof.
  induction fuel as [|f IH]; intros s i; cbn [http_conn]; [intros [H|[]]; discriminate|].
  destruct (hdr_loop s parser0 hreq0 (Z.of_nat (avail i)) i) as [r rest i1|]; [|intros [H|[]]; discriminate].
  destruct (process_request r) as [|script]; [intros [H|[]]; discriminate|].
  destruct (content_start script (h_cl r) (h_ct r)) as [a cnt|code cnt|a n setup|].
  - destruct (keep_alive_requested r); [|intros [H|[]]; discriminate].
    specialize (IH rest i1). destruct (http_conn f rest i1) as [l c]. cbn [fst] in *.
    intros [H|H]; [discriminate|auto].
  - intros [H|[]]; discriminate.
  - destruct (Z.of_nat (length rest) <? n); [intros [H|[]]; discriminate|].
    destruct (keep_alive_requested r); [|intros [H|[]]; discriminate].
    specialize (IH (skipn (Z.to_nat n) rest) (consume_io (Z.to_nat n) i1)).
    destruct (http_conn f (skipn (Z.to_nat n) rest) (consume_io (Z.to_nat n) i1)) as [l c]. cbn [fst] in *.
    intros [H|H]; [discriminate|auto].
  - intros [H|[]]; discriminate.
Qed.

Lemma scgi_env_safe_inv fuel buf p back acc :
  0 <= p -> rd buf (back - 1) = Some 0%N -> scgi_env fuel buf p back acc = None -> False.
Proof. intros H1 H2 H3. exact (scgi_env_safe fuel buf p back acc H1 H2 H3). Qed.

(* ------------------------------------------------------------------ SCGI at the level of a whole connection: no unsafe read
   for any byte string; a non-empty header block whose last byte is not NUL is a protocol violation *)
Lemma rd_firstn buf n i : 0 <= i < Z.of_nat n -> rd (firstn n buf) i = rd buf i.
Proof.
  intros H. unfold rd. destruct (Z.ltb_spec i 0); [lia|].
  assert (L : (Z.to_nat i < n)%nat) by lia. revert L. generalize (Z.to_nat i) as k. clear.
  revert buf. induction n as [|n IH]; intros buf k L; [lia|].
  destruct buf as [|x t]; [destruct k; reflexivity|]. destruct k as [|k]; [reflexivity|].
  cbn [firstn nth_error]. apply IH. lia.
Qed.
Lemma rd_in_range buf i : 0 <= i < Z.of_nat (length buf) -> rd buf i <> None.
Proof.
  intros H E. unfold rd in E. destruct (Z.ltb_spec i 0); [lia|]. apply nth_error_None in E. lia.
Qed.
(* the scan loop does nothing when it starts at or behind the last byte *)
Lemma scgi_env_done fuel buf p back acc : back <= p -> scgi_env fuel buf p back acc = Some acc.
Proof. intros H. destruct fuel; cbn [scgi_env]; [reflexivity|]. destruct (Z.ltb_spec p back); [lia|reflexivity]. Qed.
(* after the test added by repair 236058f the scan is always in bounds *)
Lemma scgi_block_terminated_scan_safe buf sep size fuel acc :
  0 <= sep -> sep + 2 <= size -> scgi_block_terminated buf sep size = Some true ->
  scgi_env fuel buf (sep + 1) (size - 1) acc <> None.
Proof.
  intros S0 S1. unfold scgi_block_terminated. destruct (Z.gtb_spec size (sep + 2)) as [G|G].
  - destruct (rd buf (size - 2)) as [b|] eqn:R; [|discriminate].
    destruct (N.eqb_spec b 0) as [->|NZ]; [|discriminate]. intros _.
    apply scgi_env_safe; [lia|]. replace (size - 1 - 1) with (size - 2) by lia. exact R.
  - intros _. rewrite scgi_env_done by lia. discriminate.
Qed.
Lemma scgi_run_no_unsafe s : ~ In IUnsafe (fst (scgi_run s)).
Proof.
  unfold scgi_run. fold (scgi_sep s). fold (scgi_len s).
  destruct (_ <? 16); [intros [H|[]]; discriminate|]. cbv zeta.
  destruct (scgi_sep s >=? 16); [intros [H|[]]; discriminate|].
  destruct (Z.ltb_spec (scgi_len s) 0) as [L0|L0]; [intros [H|[]]; discriminate|].
  destruct (16384 <? scgi_len s); [intros [H|[]]; discriminate|]. cbn [orb].
  destruct (Z.leb_spec (scgi_sep s + 2 + scgi_len s) 16) as [L1|L1]; [intros [H|[]]; discriminate|].
  destruct (Z.ltb_spec (Z.of_nat (length s)) (scgi_sep s + 2 + scgi_len s)) as [L2|L2]; [intros [H|[]]; discriminate|].
  assert (Sep0 : 0 <= scgi_sep s) by (unfold scgi_sep; lia).
  set (size := scgi_sep s + 2 + scgi_len s) in *.
  assert (LB : Z.of_nat (length (firstn (Z.to_nat size) s)) = size) by (rewrite firstn_length; lia).
  destruct (rd (firstn (Z.to_nat size) s) (size - 1)) as [last|] eqn:RL.
  2:{ exfalso. revert RL. apply rd_in_range. lia. }
  destruct (negb (N.eqb last 44)); [intros [H|[]]; discriminate|].
  destruct (scgi_block_terminated _ _ _) as [[|]|] eqn:BT.
  - assert (S2 : scgi_sep s + 2 <= size) by (subst size; lia).
    pose proof (scgi_block_terminated_scan_safe _ _ _ (length (firstn (Z.to_nat size) s)) [] Sep0 S2 BT) as SE.
    destruct (scgi_env _ _ _ _ _) as [e|]; [|contradiction].
    destruct (content_start _ _ _) as [a cnt|code cnt|a n setup|]; try (intros [H|[]]; discriminate).
    destruct (_ <? n); intros [H|[]]; discriminate.
  - intros [H|[]]; discriminate.
  - exfalso. unfold scgi_block_terminated in BT. destruct (Z.gtb_spec size (scgi_sep s + 2)) as [G|G]; [|discriminate].
    destruct (rd (firstn (Z.to_nat size) s) (size - 2)) as [b|] eqn:R; [discriminate|].
    revert R. apply rd_in_range. lia.
Qed.
(* the input class of the repaired defect, in general: a header block of positive declared length whose last byte is
   not NUL is never scanned - the connection is closed as a protocol violation and no application callback runs *)
Lemma scgi_run_unterminated_rejected s :
  0 < scgi_len s -> rd s (scgi_block_end s) <> Some 0%N -> scgi_run s = ([IEnd], c0).
Proof.
  intros LP NZ. unfold scgi_run. fold (scgi_sep s). fold (scgi_len s).
  destruct (_ <? 16); [reflexivity|]. cbv zeta.
  destruct (scgi_sep s >=? 16); [reflexivity|].
  destruct (Z.ltb_spec (scgi_len s) 0) as [L0|L0]; [reflexivity|].
  destruct (16384 <? scgi_len s); [reflexivity|]. cbn [orb].
  destruct (Z.leb_spec (scgi_sep s + 2 + scgi_len s) 16) as [L1|L1]; [reflexivity|].
  destruct (Z.ltb_spec (Z.of_nat (length s)) (scgi_sep s + 2 + scgi_len s)) as [L2|L2]; [reflexivity|].
  assert (Sep0 : 0 <= scgi_sep s) by (unfold scgi_sep; lia).
  set (size := scgi_sep s + 2 + scgi_len s) in *.
  assert (LB : Z.of_nat (length (firstn (Z.to_nat size) s)) = size) by (rewrite firstn_length; lia).
  destruct (rd (firstn (Z.to_nat size) s) (size - 1)) as [last|] eqn:RL.
  2:{ exfalso. revert RL. apply rd_in_range. lia. }
  destruct (negb (N.eqb last 44)); [reflexivity|].
  unfold scgi_block_terminated. destruct (Z.gtb_spec size (scgi_sep s + 2)) as [G|G]; [|unfold size in G; lia].
  replace (size - 2) with (scgi_block_end s) by (unfold scgi_block_end, size; lia).
  rewrite rd_firstn by (unfold scgi_block_end, size in *; lia).
  destruct (rd s (scgi_block_end s)) as [b|] eqn:R.
  - destruct (N.eqb_spec b 0) as [->|NB]; [contradiction|reflexivity].
  - exfalso. revert R. apply rd_in_range. unfold scgi_block_end, size in *. lia.
Qed.

(* ------------------------------------------------------------------ FastCGI: the input class of the repaired defect, in general.
   A GET_VALUES record with no content and no padding (whatever its request id and reserved byte, wherever it stands
   on the connection) is answered with an empty GET_VALUES_RESULT and the connection goes on with the next record *)
Lemma fcgi_empty_get_values_continues f i1 i0 x r :
  fcgi_conn (S f) (1 :: 9 :: i1 :: i0 :: 0 :: 0 :: 0 :: x :: r)%N =
  (IGetValues [] :: fst (fcgi_conn f r), snd (fcgi_conn f r)).
Proof.
  cbn [fcgi_conn read_record]. change (zb 0 * 256 + zb 0) with 0. change (zb 0) with 0. change (0 + 0) with 0.
  destruct (Z.ltb_spec (Z.of_nat (length r)) 0) as [L|L]; [lia|].
  cbn [Z.to_nat firstn skipn f_version f_type]. change (zb 1 =? 1) with true. change (zb 9 =? 9) with true.
  cbn [negb parse_pairs_all gv_answer]. destruct (fcgi_conn f r) as [l c]. reflexivity.
Qed.

Lemma all_readers_no_unsafe segments s :
  ~ In IUnsafe (fst (http_run segments)) /\ ~ In IUnsafe (fst (scgi_run s)) /\ (bytes_ok s -> ~ In IUnsafe (fst (fcgi_run s))).
Proof.
  split; [unfold http_run; apply http_conn_no_unsafe|]. split; [apply scgi_run_no_unsafe|apply fcgi_run_no_unsafe].
Qed.

(* ------------------------------------------------------------------ FastCGI: unknown record types, unknown roles, other versions.
   Stated over the first record of the stream as read by read_record, for every rest of the stream. *)
Lemma fcgi_other_version_closed f s h content rest :
  read_record s = Some (h, content, rest) -> f_version h <> 1 -> fcgi_conn (S f) s = ([IEnd], c0).
Proof.
  intros R V. cbn [fcgi_conn]. rewrite R. destruct (Z.eqb_spec (f_version h) 1); [contradiction|reflexivity].
Qed.
Lemma fcgi_unknown_type_skipped f s h content rest :
  read_record s = Some (h, content, rest) -> f_version h = 1 -> f_type h <> 9 -> f_type h <> 1 ->
  fcgi_conn (S f) s = fcgi_conn f rest.
Proof.
  intros R V T9 T1. cbn [fcgi_conn]. rewrite R, V. cbn [Z.eqb Pos.eqb negb].
  destruct (Z.eqb_spec (f_type h) 9); [contradiction|]. destruct (Z.eqb_spec (f_type h) 1); [contradiction|reflexivity].
Qed.
Lemma fcgi_unknown_role_answered f s h content rest :
  read_record s = Some (h, content, rest) -> f_version h = 1 -> f_type h = 1 -> length content = 8%nat ->
  zb (nth 0 content 0%N) * 256 + zb (nth 1 content 0%N) <> 1 ->
  fcgi_conn (S f) s = (IUnknownRole :: fst (fcgi_conn f rest), snd (fcgi_conn f rest)).
Proof.
  intros R V T L Role. cbn [fcgi_conn]. rewrite R, V, T, L. cbn [Z.eqb Pos.eqb negb Z.of_nat Pos.of_succ_nat Pos.succ].
  cbv zeta. destruct (Z.eqb_spec (zb (nth 0 content 0%N) * 256 + zb (nth 1 content 0%N)) 1); [contradiction|].
  cbn [negb]. destruct (fcgi_conn f rest) as [l c]. reflexivity.
Qed.
(* a BEGIN_REQUEST whose body is not exactly 8 bytes is a protocol violation *)
Lemma fcgi_begin_request_bad_size_closed f s h content rest :
  read_record s = Some (h, content, rest) -> f_version h = 1 -> f_type h = 1 -> length content <> 8%nat ->
  fcgi_conn (S f) s = ([IEnd], c0).
Proof.
  intros R V T L. cbn [fcgi_conn]. rewrite R, V, T. cbn [Z.eqb Pos.eqb negb].
  destruct (Z.eqb_spec (Z.of_nat (length content)) 8); [lia|reflexivity].
Qed.

(* the decidable input class used by the oracle lies inside the hypothesis of scgi_run_unterminated_rejected *)
Lemma scgi_unterminated_class_rejected s : scgi_unterminated_class s = true -> scgi_run s = ([IEnd], c0).
Proof.
  unfold scgi_unterminated_class. cbv zeta. intros H.
  repeat (apply andb_true_iff in H; destruct H as [H ?]).
  apply scgi_run_unterminated_rejected; [lia|].
  unfold scgi_block_end. replace (scgi_sep s + scgi_len s) with (scgi_sep s + 2 + scgi_len s - 2) by lia.
  intros E. unfold rd_is in *. rewrite E in *. discriminate.
Qed.
