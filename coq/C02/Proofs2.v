(* C02 proofs, part 2: shape of a connection run (exactly one terminal observation, nothing after an error reply),
   handler / on_error counters, termination without fuel exhaustion *)
From CppcmsV Require Import Base.Tac Base.CSem C02.Defs C02.Proofs.
Local Open Scope Z_scope.

(* ------------------------------------------------------------------ well-formed runs *)
Definition continues (it : item) : bool :=
  match it with IOk _ | IGetValues _ | IUnknownRole => true | _ => false end.
Definition ok_weight (it : item) : Z :=
  match it with IOk AppProbe => 0 | IOk _ => 1 | _ => 0 end.
Fixpoint ok_count (l : list item) : Z := match l with it :: t => ok_weight it + ok_count t | [] => 0 end.

Inductive wf : list item -> counters -> Prop :=
| wf_term : forall it c, continues it = false -> cnt_ok c -> handled c = 0 -> c_err c <= 1 -> c_end c = 0 ->
    c_setup c = c_err c + c_abort c -> wf [it] c
| wf_ok_last : forall a setup, wf [IOk a] (handler_counters a setup)
| wf_ok_cons : forall a setup l c, wf l c -> wf (IOk a :: l) (cadd (handler_counters a setup) c)
| wf_free_cons : forall it l c, continues it = true -> ok_weight it = 0 -> wf l c -> wf (it :: l) c.

Lemma wf_c0 it : continues it = false -> wf [it] c0.
Proof. intros H. apply wf_term; try exact H; unfold cnt_ok, handled; cbn; lia. Qed.
Lemma wf_errc it setup : continues it = false -> wf [it] (error_counters setup).
Proof.
  intros H. pose proof (error_counters_spec setup _ eq_refl) as S.
  apply wf_term; try exact H; intuition lia.
Qed.
Lemma wf_status code cnt script cl ct : content_start script cl ct = CStatus code cnt -> wf [IStatus code] cnt.
Proof. intros E. apply content_start_status in E. apply wf_term; intuition lia. Qed.

Lemma wf_nonempty l c : wf l c -> l <> [].
Proof. intros H. destruct H; discriminate. Qed.
(* anything that is followed by something else is a successful reply: nothing is sent after an error reply *)
Lemma wf_nothing_after_terminal l c : wf l c ->
  forall pre it post, l = pre ++ it :: post -> post <> [] -> continues it = true.
Proof.
  induction 1 as [it0 c0' H0|a setup|a setup l c W IH|it0 l c H0 H1 W IH]; intros pre it post E NE.
  - destruct pre as [|x pre]; cbn in E.
    + injection E as _ <-. contradiction.
    + injection E as _ E. destruct pre; discriminate.
  - destruct pre as [|x pre]; cbn in E.
    + injection E as _ <-. contradiction.
    + injection E as _ E. destruct pre; discriminate.
  - destruct pre as [|x pre]; cbn in E.
    + injection E as <- _. reflexivity.
    + injection E as _ E. eapply IH; eauto.
  - destruct pre as [|x pre]; cbn in E.
    + injection E as <- _. exact H0.
    + injection E as _ E. eapply IH; eauto.
Qed.
Lemma cadd_handled a b : handled (cadd a b) = handled a + handled b.
Proof. unfold handled, cadd. cbn. lia. Qed.
Lemma wf_counters l c : wf l c ->
  cnt_ok c /\ handled c = ok_count l /\ 0 <= c_err c <= 1 /\ c_end c <= c_setup c /\ c_setup c <= c_main c + c_err c + c_abort c.
Proof.
  induction 1 as [it0 c1 H0 K H1 H2 H3 H4|a setup|a setup l c W IH|it0 l c H0 H1 W IH].
  - unfold cnt_ok in *. destruct it0; try discriminate; cbn [ok_count ok_weight]; unfold handled in *; intuition lia.
  - pose proof (handler_counters_spec a setup _ eq_refl) as S. cbn [ok_count ok_weight].
    destruct a, setup; vm_compute; intuition (try discriminate; try reflexivity).
  - pose proof (handler_counters_spec a setup _ eq_refl) as S. cbn [ok_count].
    rewrite cadd_handled. unfold cnt_ok, cadd in *. cbn [c_sync c_async c_setup c_main c_err c_end c_abort].
    assert (Hw : handled (handler_counters a setup) = ok_weight (IOk a)) by (destruct a, setup; reflexivity).
    assert (Hm : c_setup (handler_counters a setup) <= c_main (handler_counters a setup)) by (destruct a, setup; vm_compute; discriminate).
    intuition lia.
  - cbn [ok_count]. rewrite H1. intuition lia.
Qed.
(* an on_error notification is only ever given on a run that ends without a successful reply *)
Lemma wf_err_last l c : wf l c -> c_err c = 1 -> exists pre last, l = pre ++ [last] /\ continues last = false.
Proof.
  induction 1 as [it0 c1 H0 K H1 H2 H3 H4|a setup|a setup l c W IH|it0 l c H0 H1 W IH]; intros E.
  - exists [], it0. auto.
  - destruct a, setup; vm_compute in E; discriminate.
  - assert (c_err (handler_counters a setup) = 0) by (destruct a, setup; reflexivity).
    unfold cadd in E. cbn [c_err] in E. destruct IH as (pre & last & -> & Hl); [lia|].
    exists (IOk a :: pre), last. auto.
  - destruct IH as (pre & last & -> & Hl); [exact E|]. exists (it0 :: pre), last. auto.
Qed.

(* ------------------------------------------------------------------ HTTP *)
Lemma hdr_loop_shrinks s : forall p r total i r' rest i',
  hdr_loop s p r total i = HDone r' rest i' -> (length rest < length s)%nat.
Proof.
  induction s as [|c t IH]; intros p r total i r' rest i' E; cbn [hdr_loop] in E; [discriminate|].
  destruct (match avail i with
            | O => if total >? hdr_limit then None
                   else match refill (segs i) with
                        | Some (k, sg) => Some (total + Z.of_nat k, mkIO k sg)
                        | None => None
                        end
            | S _ => Some (total, i)
            end) as [[total1 i1]|]; [|discriminate].
  destruct (pstep p c) as [p1 ev]. destruct ev as [|h| |].
  - apply IH in E. cbn [length]. lia.
  - destruct (on_header h r) as [r1|]; [|discriminate]. apply IH in E. cbn [length]. lia.
  - injection E as _ <- _. cbn [length]. lia.
  - discriminate.
Qed.

Lemma http_conn_wf fuel : forall s i, wf (fst (http_conn fuel s i)) (snd (http_conn fuel s i)).
Proof.
  induction fuel as [|f IH]; intros s i; cbn [http_conn]; [apply wf_c0; reflexivity|].
  destruct (hdr_loop s parser0 hreq0 (Z.of_nat (avail i)) i) as [r rest i1|]; [|apply wf_c0; reflexivity].
  destruct (process_request r) as [|script]; [apply wf_c0; reflexivity|].
  destruct (content_start script (h_cl r) (h_ct r)) as [a cnt|code cnt|a n setup|] eqn:CS.
  - apply content_start_handled in CS. destruct CS as (_ & -> & _).
    destruct (keep_alive_requested r).
    + specialize (IH rest i1). destruct (http_conn f rest i1) as [l c]. cbn [fst snd] in *. apply wf_ok_cons. exact IH.
    + cbn [fst snd]. apply wf_ok_last.
  - cbn [fst snd]. eapply wf_status. exact CS.
  - destruct (Z.of_nat (length rest) <? n); [apply wf_errc; reflexivity|].
    destruct (keep_alive_requested r).
    + specialize (IH (skipn (Z.to_nat n) rest) (consume_io (Z.to_nat n) i1)).
      destruct (http_conn f (skipn (Z.to_nat n) rest) (consume_io (Z.to_nat n) i1)) as [l c]. cbn [fst snd] in *.
      apply wf_ok_cons. exact IH.
    + cbn [fst snd]. apply wf_ok_last.
  - apply wf_c0. reflexivity.
Qed.
Lemma http_conn_no_fuel fuel : forall s i, (length s < fuel)%nat -> ~ In IFuel (fst (http_conn fuel s i)).
Proof.
  induction fuel as [|f IH]; intros s i L; [lia|]. cbn [http_conn].
  destruct (hdr_loop s parser0 hreq0 (Z.of_nat (avail i)) i) as [r rest i1|] eqn:HL;
    [|cbn; intros [H|[]]; discriminate].
  apply hdr_loop_shrinks in HL.
  destruct (process_request r) as [|script]; [cbn; intros [H|[]]; discriminate|].
  destruct (content_start script (h_cl r) (h_ct r)) as [a cnt|code cnt|a n setup|].
  - destruct (keep_alive_requested r); [|cbn; intros [H|[]]; discriminate].
    specialize (IH rest i1). destruct (http_conn f rest i1) as [l c]. cbn [fst] in *.
    intros [H|H]; [discriminate|]. apply IH; [lia|exact H].
  - cbn; intros [H|[]]; discriminate.
  - destruct (Z.of_nat (length rest) <? n); [cbn; intros [H|[]]; discriminate|].
    destruct (keep_alive_requested r); [|cbn; intros [H|[]]; discriminate].
    pose proof (skipn_length (Z.to_nat n) rest) as SL.
    specialize (IH (skipn (Z.to_nat n) rest) (consume_io (Z.to_nat n) i1)).
    destruct (http_conn f (skipn (Z.to_nat n) rest) (consume_io (Z.to_nat n) i1)) as [l c]. cbn [fst] in *.
    intros [H|H]; [discriminate|]. apply IH; [lia|exact H].
  - cbn; intros [H|[]]; discriminate.
Qed.
Lemma http_run_wf segments : wf (fst (http_run segments)) (snd (http_run segments)).
Proof. unfold http_run. apply http_conn_wf. Qed.
Lemma http_run_no_fuel segments : ~ In IFuel (fst (http_run segments)).
Proof. unfold http_run. apply http_conn_no_fuel. lia. Qed.

(* ------------------------------------------------------------------ SCGI *)
Lemma scgi_run_wf s : wf (fst (scgi_run s)) (snd (scgi_run s)).
Proof.
  unfold scgi_run.
  repeat match goal with
  | |- wf (fst (if ?b then _ else _)) _ => destruct b; [apply wf_c0; reflexivity|]
  | |- wf (fst (let x := _ in _)) _ => cbv zeta
  end.
  destruct (rd _ _) as [last|]; [|apply wf_c0; reflexivity].
  destruct (negb (N.eqb last 44)); [apply wf_c0; reflexivity|].
  destruct (scgi_block_terminated _ _ _) as [[|]|]; [|apply wf_c0; reflexivity|apply wf_c0; reflexivity].
  destruct (scgi_env _ _ _ _ _) as [e|]; [|apply wf_c0; reflexivity].
  destruct (content_start _ _ _) as [a cnt|code cnt|a n setup|] eqn:CS.
  - apply content_start_handled in CS. destruct CS as (_ & -> & _). apply wf_ok_last.
  - eapply wf_status. exact CS.
  - destruct (_ <? n); [apply wf_errc; reflexivity|apply wf_ok_last].
  - apply wf_c0. reflexivity.
Qed.
Lemma scgi_run_single s : exists it, fst (scgi_run s) = [it] /\ it <> IFuel.
Proof.
  unfold scgi_run.
  repeat match goal with
  | |- exists it, fst (if ?b then _ else _) = _ /\ _ => destruct b; [eexists; split; [reflexivity|discriminate]|]
  | |- exists it, fst (let x := _ in _) = _ /\ _ => cbv zeta
  end.
  destruct (rd _ _) as [last|]; [|eexists; split; [reflexivity|discriminate]].
  destruct (negb (N.eqb last 44)); [eexists; split; [reflexivity|discriminate]|].
  destruct (scgi_block_terminated _ _ _) as [[|]|]; [|eexists; split; [reflexivity|discriminate]|eexists; split; [reflexivity|discriminate]].
  destruct (scgi_env _ _ _ _ _) as [e|]; [|eexists; split; [reflexivity|discriminate]].
  destruct (content_start _ _ _) as [a cnt|code cnt|a n setup|]; try (eexists; split; [reflexivity|discriminate]).
  destruct (_ <? n); eexists; split; try reflexivity; discriminate.
Qed.

(* ------------------------------------------------------------------ FastCGI *)
Lemma read_record_shrinks s h content rest :
  read_record s = Some (h, content, rest) -> (length rest + 8 <= length s)%nat.
Proof.
  unfold read_record.
  destruct s as [|v [|t [|i1 [|i0 [|c1 [|c0_ [|pl [|x r]]]]]]]]; try discriminate.
  destruct (_ <? _); [discriminate|].
  intros E. injection E as _ _ <-. rewrite skipn_length. cbn [length]. lia.
Qed.
Lemma params_loop_shrinks fuel : forall s rid body b rest,
  params_loop fuel s rid body = Some (b, rest) -> (length rest <= length s)%nat.
Proof.
  induction fuel as [|f IH]; intros s rid body b rest E; cbn [params_loop] in E; [discriminate|].
  destruct (read_record s) as [[[h content] rest0]|] eqn:R; [|discriminate].
  apply read_record_shrinks in R.
  destruct (negb (f_type h =? 4) || negb (f_id h =? rid)); [discriminate|].
  destruct (f_clen h =? 0).
  - injection E as _ <-. lia.
  - destruct (_ <? 16384); [|discriminate]. apply IH in E. lia.
Qed.
Lemma stdin_loop_shrinks fuel : forall s rid need rest,
  stdin_loop fuel s rid need = Some rest -> (length rest <= length s)%nat.
Proof.
  induction fuel as [|f IH]; intros s rid need rest E; cbn [stdin_loop] in E; [discriminate|].
  destruct (read_record s) as [[[h content] rest0]|] eqn:R; [|discriminate].
  apply read_record_shrinks in R.
  destruct (negb (f_type h =? 5) || negb (f_id h =? rid) || (f_clen h =? 0)); [discriminate|].
  destruct (f_clen h >=? need).
  - destruct (read_record rest0) as [[[h2 c2] rest2]|] eqn:R2; [|discriminate].
    apply read_record_shrinks in R2.
    destruct (negb (f_type h2 =? 5) || negb (f_id h2 =? rid) || negb (f_clen h2 =? 0)); [discriminate|].
    injection E as <-. lia.
  - apply IH in E. lia.
Qed.

Lemma fcgi_after_headers_wf k e keep rid rest2 :
  (forall r, wf (fst (k r)) (snd (k r))) ->
  wf (fst (fcgi_after_headers k e keep rid rest2)) (snd (fcgi_after_headers k e keep rid rest2)).
Proof.
  intros K. unfold fcgi_after_headers.
  destruct (content_start _ _ _) as [a cnt|code cnt|a n setup|] eqn:CS.
  - apply content_start_handled in CS. destruct CS as (_ & -> & _).
    destruct keep; [|apply wf_ok_last].
    specialize (K rest2). destruct (k rest2) as [l c]. cbn [fst snd] in *. apply wf_ok_cons. exact K.
  - eapply wf_status. exact CS.
  - destruct (stdin_loop _ _ _ _) as [rest3|]; [|apply wf_errc; reflexivity].
    destruct keep; [|apply wf_ok_last].
    specialize (K rest3). destruct (k rest3) as [l c]. cbn [fst snd] in *. apply wf_ok_cons. exact K.
  - apply wf_c0. reflexivity.
Qed.
Lemma fcgi_conn_wf fuel : forall s, wf (fst (fcgi_conn fuel s)) (snd (fcgi_conn fuel s)).
Proof.
  induction fuel as [|f IH]; intros s; cbn [fcgi_conn]; [apply wf_c0; reflexivity|].
  destruct (read_record s) as [[[h content] rest]|]; [|apply wf_c0; reflexivity].
  cbv zeta.
  destruct (negb (f_version h =? 1)); [apply wf_c0; reflexivity|].
  destruct (f_type h =? 9).
  { destruct (parse_pairs_all content) as [|acc|acc]; try (apply wf_c0; reflexivity).
    specialize (IH rest). destruct (fcgi_conn f rest) as [l c].
    cbn [fst snd] in *. apply wf_free_cons; [reflexivity|reflexivity|exact IH]. }
  destruct (negb (f_type h =? 1)); [apply IH|].
  destruct (negb (Z.of_nat (length content) =? 8)); [apply wf_c0; reflexivity|].
  destruct (negb (_ =? 1)).
  { specialize (IH rest). destruct (fcgi_conn f rest) as [l c].
    cbn [fst snd] in *. apply wf_free_cons; [reflexivity|reflexivity|exact IH]. }
  destruct (params_loop _ _ _ _) as [[body rest1]|]; [|apply wf_c0; reflexivity].
  destruct (env_of_params body) as [e|]; [|apply wf_c0; reflexivity].
  destruct (env_cl e <=? 0).
  - destruct (read_record rest1) as [[[h2 c2] rest2]|]; [|apply wf_c0; reflexivity].
    destruct (negb (f_type h2 =? 5) || negb (f_clen h2 =? 0)); [apply wf_c0; reflexivity|].
    apply fcgi_after_headers_wf. intros r. apply IH.
  - apply fcgi_after_headers_wf. intros r. apply IH.
Qed.
Lemma single_no_fuel (it : item) (c : counters) : it <> IFuel -> ~ In IFuel (fst ([it], c)).
Proof. intros H [E|[]]. congruence. Qed.
Lemma fcgi_after_headers_no_fuel k e keep rid rest2 :
  (forall r, (length r <= length rest2)%nat -> ~ In IFuel (fst (k r))) ->
  ~ In IFuel (fst (fcgi_after_headers k e keep rid rest2)).
Proof.
  intros K. unfold fcgi_after_headers.
  destruct (content_start _ _ _) as [a cnt|code cnt|a n setup|].
  - destruct keep; [|apply single_no_fuel; discriminate].
    specialize (K rest2 (le_n _)). destruct (k rest2) as [l c]. cbn [fst] in *. intros [H|H]; [discriminate|auto].
  - apply single_no_fuel; discriminate.
  - destruct (stdin_loop _ _ _ _) as [rest3|] eqn:SL; [|apply single_no_fuel; discriminate].
    apply stdin_loop_shrinks in SL.
    destruct keep; [|apply single_no_fuel; discriminate].
    specialize (K rest3 SL). destruct (k rest3) as [l c]. cbn [fst] in *. intros [H|H]; [discriminate|auto].
  - apply single_no_fuel; discriminate.
Qed.
Lemma fcgi_conn_no_fuel fuel : forall s, (length s < fuel)%nat -> ~ In IFuel (fst (fcgi_conn fuel s)).
Proof.
  induction fuel as [|f IH]; intros s L; [lia|]. cbn [fcgi_conn].
  destruct (read_record s) as [[[h content] rest]|] eqn:R; [|apply single_no_fuel; discriminate].
  apply read_record_shrinks in R.
  cbv zeta.
  destruct (negb (f_version h =? 1)); [apply single_no_fuel; discriminate|].
  destruct (f_type h =? 9).
  { destruct (parse_pairs_all content) as [|acc|acc]; try (apply single_no_fuel; discriminate).
    specialize (IH rest). destruct (fcgi_conn f rest) as [l c].
    cbn [fst] in *. intros [H|H]; [discriminate|]. apply IH; [lia|exact H]. }
  destruct (negb (f_type h =? 1)); [apply IH; lia|].
  destruct (negb (Z.of_nat (length content) =? 8)); [apply single_no_fuel; discriminate|].
  destruct (negb (_ =? 1)).
  { specialize (IH rest). destruct (fcgi_conn f rest) as [l c].
    cbn [fst] in *. intros [H|H]; [discriminate|]. apply IH; [lia|exact H]. }
  destruct (params_loop _ _ _ _) as [[body rest1]|] eqn:PL; [|apply single_no_fuel; discriminate].
  apply params_loop_shrinks in PL.
  destruct (env_of_params body) as [e|]; [|apply single_no_fuel; discriminate].
  destruct (env_cl e <=? 0).
  - destruct (read_record rest1) as [[[h2 c2] rest2]|] eqn:R2; [|apply single_no_fuel; discriminate].
    apply read_record_shrinks in R2.
    destruct (negb (f_type h2 =? 5) || negb (f_clen h2 =? 0)); [apply single_no_fuel; discriminate|].
    apply fcgi_after_headers_no_fuel. intros r Lr. apply IH. lia.
  - apply fcgi_after_headers_no_fuel. intros r Lr. apply IH. lia.
Qed.
Lemma fcgi_run_wf s : wf (fst (fcgi_run s)) (snd (fcgi_run s)).
Proof. unfold fcgi_run. apply fcgi_conn_wf. Qed.
Lemma fcgi_run_no_fuel s : ~ In IFuel (fst (fcgi_run s)).
Proof. unfold fcgi_run. apply fcgi_conn_no_fuel. lia. Qed.

(* ------------------------------------------------------------------ what a well-formed run means, spelled out *)
Definition run_ok (r : list item * counters) : Prop :=
  let l := fst r in let c := snd r in
  l <> [] /\
  (forall pre it post, l = pre ++ it :: post -> post <> [] -> continues it = true) /\
  cnt_ok c /\ handled c = ok_count l /\ 0 <= c_err c <= 1 /\ c_end c <= c_setup c /\ c_setup c <= c_main c + c_err c + c_abort c /\
  (c_err c = 1 -> exists pre last, l = pre ++ [last] /\ continues last = false).
Lemma wf_run_ok r : wf (fst r) (snd r) -> run_ok r.
Proof.
  intros W. unfold run_ok. cbv zeta.
  pose proof (wf_counters _ _ W) as C.
  destruct C as (C1 & C2 & C3 & C4).
  split; [eapply wf_nonempty; eauto|]. split; [eapply wf_nothing_after_terminal; eauto|].
  split; [exact C1|]. split; [exact C2|]. split; [exact C3|]. split; [lia|]. split; [lia|].
  eapply wf_err_last; eauto.
Qed.
Lemma http_run_ok segments : run_ok (http_run segments).
Proof. apply wf_run_ok. apply http_run_wf. Qed.
Lemma scgi_run_ok s : run_ok (scgi_run s).
Proof. apply wf_run_ok. apply scgi_run_wf. Qed.
Lemma fcgi_run_ok s : run_ok (fcgi_run s).
Proof. apply wf_run_ok. apply fcgi_run_wf. Qed.
