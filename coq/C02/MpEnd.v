(* C02 -- request::on_content_progress (src/http_request.cpp), multipart/form-data bodies: the loop that feeds a chunk of content to
   multipart_parser::consume and the end-of-body decision, as a function of the sequence of results the parser returns for the
   chunk (the parser itself is property C12; one list element = one call of consume, the chunk is used up when the list ends).
   all_read = (d->read_size == d->content_length) after this chunk.
     status 0         = on_content_progress goes on; when all is read the request is handed to the application
     status 400 / 413 = error page, the application never sees the request
   size_ok (the per-file limit, 413) is a boolean carried by the content results. *)
From CppcmsV Require Import Base.Tac.
Local Open Scope Z_scope.

Inductive mp_result := MpError | MpMetaReady | MpContentPartial (size_ok : bool) | MpContentReady (size_ok : bool)
                     | MpContinue | MpEof | MpNoRoom.
Definition is_eof (r : mp_result) : bool := match r with MpEof => true | _ => false end.

(* while(begin!=end) { r = consume(begin,end); switch(r) ... }   -- returns (status, the value of r after the loop) *)
Fixpoint mp_chunk (rs : list mp_result) (all_read : bool) (r0 : mp_result) : Z * mp_result :=
  match rs with
  | [] => (0, r0)
  | r :: t =>
      match r with
      | MpMetaReady | MpContinue => mp_chunk t all_read r
      | MpContentPartial ok | MpContentReady ok => if ok then mp_chunk t all_read r else (413, r)
      | MpNoRoom => (413, r)
      | MpEof => match t with
                 | [] => if all_read then (0, r) else (400, r)      (* if(d->read_size != d->content_length) return 400 *)
                 | _ :: _ => (400, r)                                  (* if(begin!=end) return 400 *)
                 end
      | MpError => (400, r)
      end
  end.
(* after the loop:  if(begin==end && d->read_size==d->content_length && r!=multipart_parser::eof) return 400; *)
Definition mp_end_of_body (all_read : bool) (r : mp_result) : Z := if all_read && negb (is_eof r) then 400 else 0.
(* r is initialised with continue_input *)
Definition mp_progress (rs : list mp_result) (all_read : bool) : Z :=
  let '(st, r) := mp_chunk rs all_read MpContinue in
  if st =? 0 then mp_end_of_body all_read r else st.

Lemma last_default_irrelevant {A} (t : list A) : forall x d1 d2, last (x :: t) d1 = last (x :: t) d2.
Proof. induction t as [|y t IH]; intros x d1 d2; [reflexivity|]. cbn [last]. apply (IH y d1 d2). Qed.
Lemma last_cons_as_default {A} (t : list A) (r d : A) : last (r :: t) d = last t r.
Proof. destruct t as [|x t]; [reflexivity|]. cbn [last]. apply last_default_irrelevant. Qed.

Lemma mp_chunk_status rs : forall all_read r0, fst (mp_chunk rs all_read r0) = 0 \/ fst (mp_chunk rs all_read r0) = 400 \/ fst (mp_chunk rs all_read r0) = 413.
Proof.
  induction rs as [|r t IH]; intros all_read r0; cbn [mp_chunk]; [left; reflexivity|].
  destruct r as [| |ok|ok| | |]; try apply IH; try (right; left; reflexivity); try (right; right; reflexivity).
  - destruct ok; [apply IH|right; right; reflexivity].
  - destruct ok; [apply IH|right; right; reflexivity].
  - destruct t; [destruct all_read; [left|right; left]; reflexivity|right; left; reflexivity].
Qed.
(* when the loop ends without an error status, r is the last result of the chunk *)
Lemma mp_chunk_last rs : forall all_read r0 r, mp_chunk rs all_read r0 = (0, r) -> r = last rs r0.
Proof.
  induction rs as [|x t IH]; intros all_read r0 r H; cbn [mp_chunk] in H; [inversion H; reflexivity|].
  rewrite last_cons_as_default.
  destruct x as [| |ok|ok| | |]; try discriminate; try (apply (IH all_read _ r H)).
  - destruct ok; [apply (IH all_read _ r H)|discriminate].
  - destruct ok; [apply (IH all_read _ r H)|discriminate].
  - destruct t; [destruct all_read; [inversion H; reflexivity|discriminate]|discriminate].
Qed.

(* the end of the body: the request goes on to the application only if the last thing the parser said is eof ... *)
Theorem mp_served_only_after_eof rs : mp_progress rs true = 0 -> last rs MpContinue = MpEof.
Proof.
  unfold mp_progress. destruct (mp_chunk rs true MpContinue) as [st r] eqn:E. intros H.
  destruct (st =? 0) eqn:S0; [apply Z.eqb_eq in S0; subst st|apply Z.eqb_neq in S0; congruence].
  apply mp_chunk_last in E. subst r. unfold mp_end_of_body in H. cbn [andb] in H.
  destruct (last rs MpContinue); cbn [is_eof negb] in H; try discriminate. reflexivity.
Qed.
(* ... and whatever else it said last (content_ready after a separator boundary, content_partial, meta_ready, continue_input),
   or if it said nothing, the answer is an error status: a body that ends without the closing delimiter is never served *)
Theorem mp_not_eof_is_error rs : last rs MpContinue <> MpEof -> mp_progress rs true = 400 \/ mp_progress rs true = 413.
Proof.
  intros H. pose proof (mp_served_only_after_eof rs) as S.
  unfold mp_progress in *. pose proof (mp_chunk_status rs true MpContinue) as C.
  destruct (mp_chunk rs true MpContinue) as [st r]. cbn [fst] in C.
  destruct C as [C|[C|C]]; subst st; cbn [Z.eqb] in *.
  - unfold mp_end_of_body in *. cbn [andb] in *. destruct (is_eof r); cbn [negb] in *; [exfalso; apply H, S; reflexivity|left; reflexivity].
  - left. reflexivity.
  - right. reflexivity.
Qed.
Print Assumptions mp_served_only_after_eof.
Print Assumptions mp_not_eof_is_error.
