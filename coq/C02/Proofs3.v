(* C02 proofs, part 3: every modelled buffer read is inside its buffer (FastCGI read_len / parse_pairs with the uint32
   casts, whole FastCGI connection; SCGI key/value scan when the header block is NUL terminated) *)
From CppcmsV Require Import Base.Tac Base.CSem Base.CSemFacts C02.Defs C02.Proofs C02.Proofs2.
Local Open Scope Z_scope.

Definition bytes_ok (l : list N) : Prop := Forall (fun b => (b < 256)%N) l.
Definition zlen (l : list N) : Z := Z.of_nat (length l).

Lemma rd_in body i : 0 <= i < zlen body -> exists c, rd body i = Some c.
Proof.
  intros H. unfold rd, zlen in *. destruct (Z.ltb_spec i 0); [lia|].
  destruct (nth_error body (Z.to_nat i)) eqn:E; [eauto|].
  apply nth_error_None in E. lia.
Qed.
Lemma zb_nonneg c : 0 <= zb c.
Proof. unfold zb. lia. Qed.
Lemma wrapu32_range z : 0 <= wrapu 32 z < 4294967296.
Proof. unfold wrapu. change (2 ^ 32) with 4294967296. apply Z.mod_pos_bound. lia. Qed.

Lemma read_len_safe body p e :
  0 <= p <= e -> e <= zlen body ->
  match read_len body p e with
  | LUnsafe => False
  | LBad => True
  | LOk v p' => p < p' <= e /\ 0 <= v
  end.
Proof.
  intros Hp He. unfold read_len.
  assert (Four : match (if e - p >=? 4 then
      match rd body p, rd body (p + 1), rd body (p + 2), rd body (p + 3) with
      | Some b3, Some b2, Some b1, Some b0 =>
          LOk (wrapu 32 (Z.land (zb b3) 127 * 16777216 + zb b2 * 65536 + zb b1 * 256 + zb b0)) (p + 4)
      | _, _, _, _ => LUnsafe
      end else LBad) with LUnsafe => False | LBad => True | LOk v p' => p < p' <= e /\ 0 <= v end).
  { destruct (Z.geb_spec (e - p) 4) as [G|G]; [|exact I].
    destruct (rd_in body p) as [b3 ->]; [lia|]. destruct (rd_in body (p + 1)) as [b2 ->]; [lia|].
    destruct (rd_in body (p + 2)) as [b1 ->]; [lia|]. destruct (rd_in body (p + 3)) as [b0 ->]; [lia|].
    pose proof (wrapu32_range (Z.land (zb b3) 127 * 16777216 + zb b2 * 65536 + zb b1 * 256 + zb b0)). lia. }
  destruct (Z.ltb_spec p e) as [L|L]; [|exact Four].
  destruct (rd_in body p) as [c E]; [lia|]. rewrite E in *.
  destruct (Z.ltb_spec (zb c) 128); [|exact Four].
  pose proof (zb_nonneg c). lia.
Qed.

Lemma parse_pairs_safe fuel : forall body p e acc,
  zlen body < 4294967296 -> 0 <= p <= e -> e <= zlen body -> parse_pairs fuel body p e acc <> PUnsafe.
Proof.
  induction fuel as [|f IH]; intros body p e acc B Hp He; cbn [parse_pairs]; [discriminate|].
  destruct (Z.ltb_spec p e) as [L|L]; [|discriminate].
  pose proof (read_len_safe body p e Hp He) as R1.
  destruct (read_len body p e) as [| |nlen p1]; [contradiction|discriminate|].
  destruct R1 as (R1 & N0).
  pose proof (read_len_safe body p1 e ltac:(lia) He) as R2.
  destruct (read_len body p1 e) as [| |vlen p2]; [contradiction|discriminate|].
  destruct R2 as (R2 & V0).
  rewrite (wrapu32_small (e - p2)) by lia.
  destruct (Z.geb_spec (e - p2) nlen) as [G1|G1]; [|discriminate].
  rewrite (wrapu32_small (e - (p2 + nlen))) by lia.
  destruct (Z.geb_spec (e - (p2 + nlen)) vlen) as [G2|G2]; [|discriminate].
  destruct (Z.ltb_spec p2 0); [lia|]. cbn [orb].
  destruct (Z.gtb_spec (p2 + nlen + vlen) (Z.of_nat (length body))); [unfold zlen in *; lia|].
  apply IH; [exact B|lia|exact He].
Qed.

(* ------------------------------------------------------------------ FastCGI connection: no unsafe read once body_ has storage *)
Lemma Forall_skipn_own {A} (P : A -> Prop) n : forall l, Forall P l -> Forall P (skipn n l).
Proof.
  induction n as [|n IH]; intros l H; cbn [skipn]; [exact H|].
  destruct l as [|x t]; [exact H|]. apply IH. inversion H. assumption.
Qed.
Lemma Forall_8 {A} (P : A -> Prop) a b c d e f g h r :
  Forall P (a :: b :: c :: d :: e :: f :: g :: h :: r) -> P e /\ P f /\ Forall P r.
Proof.
  intros H. inversion_clear H as [|? ? _ H1]. inversion_clear H1 as [|? ? _ H2]. inversion_clear H2 as [|? ? _ H3].
  inversion_clear H3 as [|? ? _ H4]. inversion_clear H4 as [|? ? Pe H5]. inversion_clear H5 as [|? ? Pf H6].
  inversion_clear H6 as [|? ? _ H7]. inversion_clear H7 as [|? ? _ H8]. auto.
Qed.
Lemma read_record_ok s h content rest :
  bytes_ok s -> read_record s = Some (h, content, rest) -> bytes_ok rest /\ zlen content <= 65535.
Proof.
  unfold read_record, bytes_ok.
  destruct s as [|v [|t [|i1 [|i0 [|c1 [|c0_ [|pl [|x r]]]]]]]]; try discriminate.
  intros B. destruct (_ <? _); [discriminate|].
  intros E. injection E as _ <- <-.
  apply Forall_8 in B. destruct B as (H1 & H0 & B).
  split.
  - apply Forall_skipn_own. exact B.
  - unfold zlen. rewrite firstn_length. unfold zb. lia.
Qed.
Lemma params_loop_ok fuel : forall s rid body b rest,
  bytes_ok s -> zlen body < 16384 -> params_loop fuel s rid body = Some (b, rest) -> bytes_ok rest /\ zlen b < 16384.
Proof.
  induction fuel as [|f IH]; intros s rid body b rest B L E; cbn [params_loop] in E; [discriminate|].
  destruct (read_record s) as [[[h content] rest0]|] eqn:R; [|discriminate].
  apply (read_record_ok _ _ _ _ B) in R. destruct R as (B0 & _).
  destruct (negb (f_type h =? 4) || negb (f_id h =? rid)); [discriminate|].
  destruct (f_clen h =? 0).
  - injection E as <- <-. auto.
  - destruct (Z.ltb_spec (Z.of_nat (length (body ++ content))) 16384) as [L1|L1]; [|discriminate].
    eapply IH; [exact B0| |exact E]. exact L1.
Qed.
Lemma stdin_loop_ok fuel : forall s rid need rest,
  bytes_ok s -> stdin_loop fuel s rid need = Some rest -> bytes_ok rest.
Proof.
  induction fuel as [|f IH]; intros s rid need rest B E; cbn [stdin_loop] in E; [discriminate|].
  destruct (read_record s) as [[[h content] rest0]|] eqn:R; [|discriminate].
  apply (read_record_ok _ _ _ _ B) in R. destruct R as (B0 & _).
  destruct (negb (f_type h =? 5) || negb (f_id h =? rid) || (f_clen h =? 0)); [discriminate|].
  destruct (f_clen h >=? need).
  - destruct (read_record rest0) as [[[h2 c2] rest2]|] eqn:R2; [|discriminate].
    apply (read_record_ok _ _ _ _ B0) in R2. destruct R2 as (B2 & _).
    destruct (negb (f_type h2 =? 5) || negb (f_id h2 =? rid) || negb (f_clen h2 =? 0)); [discriminate|].
    injection E as <-. exact B2.
  - eapply IH; eauto.
Qed.
(* both overloads on the whole of body_: the empty body returns before front() is taken; a non-empty body shorter than
   2^32 bytes is scanned inside its bounds *)
Lemma parse_pairs_all_safe body : zlen body < 4294967296 -> parse_pairs_all body <> PUnsafe.
Proof.
  intros L. unfold parse_pairs_all. destruct body as [|c t]; [discriminate|].
  destruct (rd_in (c :: t) 0) as [b ->]; [unfold zlen; cbn [length]; lia|].
  apply parse_pairs_safe; [exact L|lia|unfold zlen; lia].
Qed.
Lemma parse_pairs_all_empty : parse_pairs_all [] = PTrue [].
Proof. reflexivity. Qed.
Lemma env_of_params_safe body : zlen body < 16384 -> env_of_params body <> None.
Proof.
  intros L. unfold env_of_params.
  pose proof (parse_pairs_all_safe body ltac:(lia)) as H.
  destruct (parse_pairs_all body); [contradiction|discriminate|discriminate].
Qed.
Lemma single_no_unsafe (it : item) (c : counters) : it <> IUnsafe -> ~ In IUnsafe (fst ([it], c)).
Proof. intros H [E|[]]. congruence. Qed.
Lemma fcgi_after_headers_no_unsafe k e keep rid rest2 :
  bytes_ok rest2 ->
  (forall r, bytes_ok r -> ~ In IUnsafe (fst (k r))) ->
  ~ In IUnsafe (fst (fcgi_after_headers k e keep rid rest2)).
Proof.
  intros B K. unfold fcgi_after_headers.
  destruct (content_start _ _ _) as [a cnt|code cnt|a n setup|].
  - destruct keep; [|apply single_no_unsafe; discriminate].
    specialize (K rest2 B). destruct (k rest2) as [l c]. cbn [fst] in *. intros [H|H]; [discriminate|auto].
  - apply single_no_unsafe; discriminate.
  - destruct (stdin_loop _ _ _ _) as [rest3|] eqn:SL; [|apply single_no_unsafe; discriminate].
    apply (stdin_loop_ok _ _ _ _ _ B) in SL.
    destruct keep; [|apply single_no_unsafe; discriminate].
    specialize (K rest3 SL). destruct (k rest3) as [l c]. cbn [fst] in *. intros [H|H]; [discriminate|auto].
  - apply single_no_unsafe; discriminate.
Qed.
(* no read of the FastCGI reader leaves its buffer, for every stream of bytes (whole connection, keep_conn chains and
   management records included) *)
Lemma fcgi_conn_no_unsafe fuel : forall s, bytes_ok s -> ~ In IUnsafe (fst (fcgi_conn fuel s)).
Proof.
  induction fuel as [|f IH]; intros s B; cbn [fcgi_conn]; [apply single_no_unsafe; discriminate|].
  destruct (read_record s) as [[[h content] rest]|] eqn:R; [|apply single_no_unsafe; discriminate].
  apply (read_record_ok _ _ _ _ B) in R. destruct R as (B0 & LC).
  cbv zeta.
  destruct (negb (f_version h =? 1)); [apply single_no_unsafe; discriminate|].
  destruct (f_type h =? 9).
  { pose proof (parse_pairs_all_safe content ltac:(lia)) as PS.
    destruct (parse_pairs_all content) as [|acc|acc]; [contradiction|apply single_no_unsafe; discriminate|].
    specialize (IH rest B0). destruct (fcgi_conn f rest) as [l c].
    cbn [fst] in *. intros [H|H]; [discriminate|auto]. }
  destruct (negb (f_type h =? 1)); [apply IH; exact B0|].
  destruct (negb (Z.of_nat (length content) =? 8)); [apply single_no_unsafe; discriminate|].
  destruct (negb (_ =? 1)).
  { specialize (IH rest B0). destruct (fcgi_conn f rest) as [l c].
    cbn [fst] in *. intros [H|H]; [discriminate|auto]. }
  destruct (params_loop _ _ _ _) as [[body rest1]|] eqn:PL; [|apply single_no_unsafe; discriminate].
  assert (L0 : zlen (@nil N) < 16384) by (unfold zlen; cbn; lia).
  apply (params_loop_ok _ _ _ _ _ _ B0 L0) in PL. destruct PL as (B1 & LB).
  pose proof (env_of_params_safe body LB) as ES.
  destruct (env_of_params body) as [e|]; [|contradiction].
  destruct (env_cl e <=? 0).
  - destruct (read_record rest1) as [[[h2 c2] rest2]|] eqn:R2; [|apply single_no_unsafe; discriminate].
    apply (read_record_ok _ _ _ _ B1) in R2. destruct R2 as (B2 & _).
    destruct (negb (f_type h2 =? 5) || negb (f_clen h2 =? 0)); [apply single_no_unsafe; discriminate|].
    apply fcgi_after_headers_no_unsafe; [exact B2|]. intros r Br. apply IH. exact Br.
  - apply fcgi_after_headers_no_unsafe; [exact B1|]. intros r Br. apply IH. exact Br.
Qed.
Lemma fcgi_run_no_unsafe s : bytes_ok s -> ~ In IUnsafe (fst (fcgi_run s)).
Proof. unfold fcgi_run. apply fcgi_conn_no_unsafe. Qed.

(* ------------------------------------------------------------------ SCGI key/value scan *)
Lemma strlen_l_found : forall l k, nth_error l k = Some 0%N -> exists n, strlen_l l = Some n /\ 0 <= n <= Z.of_nat k.
Proof.
  induction l as [|c t IH]; intros k E; [destruct k; discriminate|].
  cbn [strlen_l]. destruct (N.eqb_spec c 0) as [->|NZ]; [exists 0; split; [reflexivity|lia]|].
  destruct k as [|k]; cbn [nth_error] in E; [injection E as ->; contradiction|].
  destruct (IH k E) as (n & -> & Hn). exists (n + 1). split; [reflexivity|lia].
Qed.
Lemma nth_error_skipn_own {A} : forall n (l : list A) k, nth_error (skipn n l) k = nth_error l (n + k).
Proof.
  induction n as [|n IH]; intros l k; [reflexivity|].
  destruct l as [|x t]; [destruct k; reflexivity|]. cbn [skipn plus nth_error]. apply IH.
Qed.
Lemma strlen_at_found buf p z : 0 <= p <= z -> rd buf z = Some 0%N ->
  exists n, strlen_at buf p = Some n /\ 0 <= n /\ p + n <= z.
Proof.
  intros Hp E. unfold strlen_at, rd in *. destruct (Z.ltb_spec z 0); [lia|]. destruct (Z.ltb_spec p 0); [lia|].
  destruct (strlen_l_found (skipn (Z.to_nat p) buf) (Z.to_nat z - Z.to_nat p)) as (n & -> & Hn).
  { rewrite nth_error_skipn_own. replace (Z.to_nat p + (Z.to_nat z - Z.to_nat p))%nat with (Z.to_nat z) by lia. exact E. }
  exists n. split; [reflexivity|lia].
Qed.
(* if the byte before the terminating comma is NUL no strlen of the scan leaves the buffer *)
Lemma scgi_env_safe fuel : forall buf p back acc,
  0 <= p -> rd buf (back - 1) = Some 0%N -> scgi_env fuel buf p back acc <> None.
Proof.
  induction fuel as [|f IH]; intros buf p back acc Hp Z0; cbn [scgi_env]; [discriminate|].
  destruct (Z.ltb_spec p back) as [L|L]; [|discriminate].
  destruct (strlen_at_found buf p (back - 1) ltac:(lia) Z0) as (kl & -> & K0 & K1).
  destruct (Z.geb_spec (p + kl + 1) back) as [G|G]; [discriminate|].
  destruct (strlen_at_found buf (p + kl + 1) (back - 1) ltac:(lia) Z0) as (vl & -> & V0 & V1).
  apply IH; [lia|exact Z0].
Qed.
