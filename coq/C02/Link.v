(* C02 tie T: leaf functions regenerated from private/http_protocol.h by tools/cxx2v.py equal the model leafs on
   every byte (the C++ parameter is a signed char, hence wraps 8) *)
From CppcmsV Require Import Base.Tac Base.CSem Base.Sweep C02.Defs gen.Gen_c02proto.
Local Open Scope N_scope.

Lemma link_separator b : b < 256 -> g_c02_separator (wraps 8 (Z.of_N b)) = separator b.
Proof.
  intros H. apply Bool.eqb_prop.
  apply (sweep256 (fun b => Bool.eqb (g_c02_separator (wraps 8 (Z.of_N b))) (separator b))); [vm_compute; reflexivity|exact H].
Qed.
(* token characters of protocol::tocken: 0x20 <= c <= 0x7E as signed char and not a separator *)
Lemma link_token_char b : b < 256 ->
  (Z.leb 32 (wraps 8 (Z.of_N b)) && Z.leb (wraps 8 (Z.of_N b)) 126 && negb (g_c02_separator (wraps 8 (Z.of_N b))))%bool = token_char b.
Proof.
  intros H. apply Bool.eqb_prop.
  apply (sweep256 (fun b => Bool.eqb (Z.leb 32 (wraps 8 (Z.of_N b)) && Z.leb (wraps 8 (Z.of_N b)) 126 && negb (g_c02_separator (wraps 8 (Z.of_N b))))%bool (token_char b)));
    [vm_compute; reflexivity|exact H].
Qed.
Lemma link_ascii_to_lower b : b < 256 -> Z.to_N (wrapu 8 (g_c02_lower (wraps 8 (Z.of_N b)))) = to_lower b.
Proof.
  intros H. apply N.eqb_eq.
  apply (sweep256 (fun b => Z.to_N (wrapu 8 (g_c02_lower (wraps 8 (Z.of_N b)))) =? to_lower b)); [vm_compute; reflexivity|exact H].
Qed.

(* ------------------------------------------------------------------------------------------------------------------
   private/string_map.h (string_map) and private/hash_map.h (string_hash): the integer leafs lifted from the CURRENT source
   by checks/C02.py:smap_leaf_tu and translated by cxx2v (coq/gen/Gen_c02smap.v) equal the leafs of SMapDefs.v.
   A change of the growth test (e.g. total_ >= data_.size(), with which the table can fill up completely and get() of an
   absent key never returns), of the new size, of an initial size, of a probe start / step or of the hash breaks these. *)
From CppcmsV Require Import Base.CSemFacts C02.SMapDefs gen.Gen_c02smap.
Local Open Scope Z_scope.

(* add(): if(total_ * 2 >= data_.size()) -- for every total below 2^63 (no wrap of the size_t product) and every size *)
Lemma link_grow_needed (total size : nat) : Z.of_nat total < 2 ^ 63 ->
  g_c02_grow (Z.of_nat total) (Z.of_nat size) = grow_needed total size.
Proof.
  intros H. unfold g_c02_grow, grow_needed.
  rewrite wrapu64_small by (change (2 ^ 63) with 9223372036854775808 in H; lia).
  destruct (Nat.leb_spec size (total * 2)) as [L|L]; [apply Z.geb_le|rewrite Z.geb_leb; apply Z.leb_gt]; lia.
Qed.
(* std::vector<entry> new_data(data_.size()*2) *)
Lemma link_new_size (size : nat) : Z.of_nat size < 2 ^ 63 -> g_c02_newsize (Z.of_nat size) = Z.of_nat (size * 2).
Proof.
  intros H. unfold g_c02_newsize. rewrite wrapu64_small by (change (2 ^ 63) with 9223372036854775808 in H; lia). lia.
Qed.
(* data_.resize(64) in the constructor and in clear() *)
Lemma link_initial_size : g_c02_init_ctor = Z.of_nat initial_cap /\ g_c02_init_clear = Z.of_nat initial_cap.
Proof. split; reflexivity. Qed.
(* int pos = e.hash % d.size()   (insert and get): hash a uint32, table smaller than 2^31 slots *)
Lemma link_start_pos (h : N) (size : nat) : (h < 4294967296)%N -> (0 < size)%nat -> Z.of_nat size < 2 ^ 31 ->
  g_c02_ins_start (Z.of_N h) (Z.of_nat size) = Z.of_nat (start_pos h size) /\
  g_c02_get_start (Z.of_N h) (Z.of_nat size) = Z.of_nat (start_pos h size).
Proof.
  intros Hh Hs Hb. change (2 ^ 31) with 2147483648 in Hb.
  assert (E : Z.rem (Z.of_N h) (Z.of_nat size) = Z.of_nat (start_pos h size)).
  { unfold start_pos. rewrite Z.rem_mod_nonneg by lia. rewrite N_nat_Z, N2Z.inj_mod, nat_N_Z. reflexivity. }
  assert (B : 0 <= Z.of_nat (start_pos h size) < Z.of_nat size).
  { rewrite <- E. rewrite Z.rem_mod_nonneg by lia. apply Z.mod_pos_bound. lia. }
  unfold g_c02_ins_start, g_c02_get_start. rewrite E.
  rewrite wrapu64_small by lia. rewrite wraps32_small by lia. split; reflexivity.
Qed.
(* pos = (pos + 1) % d.size() *)
Lemma link_next_pos (pos size : nat) : (pos < size)%nat -> Z.of_nat size < 2 ^ 31 ->
  g_c02_ins_next (Z.of_nat pos) (Z.of_nat size) = Z.of_nat (next_pos pos size) /\
  g_c02_get_next (Z.of_nat pos) (Z.of_nat size) = Z.of_nat (next_pos pos size).
Proof.
  intros Hp Hb. change (2 ^ 31) with 2147483648 in Hb.
  assert (E : Z.rem (Z.of_nat pos + 1) (Z.of_nat size) = Z.of_nat (next_pos pos size)).
  { unfold next_pos. rewrite Z.rem_mod_nonneg by lia. rewrite Nat2Z.inj_mod. f_equal. lia. }
  assert (B : 0 <= Z.of_nat (next_pos pos size) < Z.of_nat size).
  { rewrite <- E. rewrite Z.rem_mod_nonneg by lia. apply Z.mod_pos_bound. lia. }
  unfold g_c02_ins_next, g_c02_get_next. rewrite (wrapu64_small (Z.of_nat pos + 1)) by lia. rewrite E.
  rewrite wrapu64_small by lia. rewrite wraps32_small by lia. split; reflexivity.
Qed.

(* Z.of_N commutes with the bit operations used by the hash (not in the 8.16 library) *)
Lemma of_N_land a b : Z.of_N (N.land a b) = Z.land (Z.of_N a) (Z.of_N b).
Proof. destruct a, b; reflexivity. Qed.
Lemma of_N_lxor a b : Z.of_N (N.lxor a b) = Z.lxor (Z.of_N a) (Z.of_N b).
Proof. destruct a, b; reflexivity. Qed.
Lemma of_N_shiftl a n : Z.of_N (N.shiftl a n) = Z.shiftl (Z.of_N a) (Z.of_N n).
Proof. rewrite N.shiftl_mul_pow2, Z.shiftl_mul_pow2 by lia. rewrite N2Z.inj_mul, N2Z.inj_pow. reflexivity. Qed.
Lemma of_N_shiftr a n : Z.of_N (N.shiftr a n) = Z.shiftr (Z.of_N a) (Z.of_N n).
Proof. rewrite N.shiftr_div_pow2, Z.shiftr_div_pow2 by lia. rewrite N2Z.inj_div, N2Z.inj_pow. reflexivity. Qed.
(* string_hash::update_state on a uint32 state and a byte (the char parameter is signed: the byte b arrives as wraps 8 b) *)
Lemma wrapu8_wraps8 z : 0 <= z < 256 -> wrapu 8 (wraps 8 z) = z.
Proof. intros H. unfold wrapu, wraps. change (2 ^ 8) with 256. change (2 ^ (8 - 1)) with 128. lia. Qed.
Lemma link_hash_update (st b : N) : (b < 256)%N ->
  g_c02_update_state (Z.of_N st) (wraps 8 (Z.of_N b)) = Z.of_N (elf_update st b).
Proof.
  intros Hb. unfold g_c02_update_state, elf_update. rewrite wrapu8_wraps8 by lia.
  unfold wrapu. change (2 ^ 32) with 4294967296.
  set (v := N.modulo (N.shiftl st 4 + b) 4294967296).
  assert (Ev : ((Z.shiftl (Z.of_N st) 4) mod 4294967296 + Z.of_N b) mod 4294967296 = Z.of_N v).
  { unfold v. rewrite N2Z.inj_mod, N2Z.inj_add, of_N_shiftl. change (Z.of_N 4294967296) with 4294967296.
    change (Z.of_N 4) with 4. rewrite Zplus_mod_idemp_l. reflexivity. }
  rewrite Ev.
  assert (Bv : 0 <= Z.of_N v < 4294967296).
  { split; [lia|]. unfold v. change 4294967296 with (Z.of_N 4294967296). apply N2Z.inj_lt. apply N.mod_lt. discriminate. }
  set (high := N.land v 4026531840).
  assert (Eh : (Z.land (Z.of_N v) 4026531840) mod 4294967296 = Z.of_N high).
  { unfold high. rewrite of_N_land. change (Z.of_N 4026531840) with 4026531840. apply Z.mod_small.
    split; [apply Z.land_nonneg; lia|].
    destruct (Z.eq_dec (Z.land (Z.of_N v) 4026531840) 0) as [E0|N0]; [rewrite E0; reflexivity|].
    assert (0 <= Z.land (Z.of_N v) 4026531840) by (apply Z.land_nonneg; lia).
    change 4294967296 with (2 ^ 32). apply Z.log2_lt_pow2; [lia|].
    eapply Z.le_lt_trans; [apply Z.log2_land; lia|]. eapply Z.le_lt_trans; [apply Z.le_min_r|]. reflexivity. }
  rewrite Eh.
  assert (Bh : 0 <= Z.of_N high < 4294967296).
  { rewrite <- Eh. apply Z.mod_pos_bound. lia. }
  destruct (N.eqb_spec high 0) as [Z0|NZ0].
  - rewrite Z0. reflexivity.
  - replace (Z.of_N high =? 0) with false by (symmetry; apply Z.eqb_neq; lia). cbn [negb].
    rewrite !of_N_lxor, of_N_shiftr. change (Z.of_N 24) with 24.
    assert (Bs : 0 <= Z.shiftr (Z.of_N high) 24 < 4294967296).
    { rewrite Z.shiftr_div_pow2 by lia. split; [apply Z.div_pos; lia|]. apply Z.div_lt_upper_bound; lia. }
    rewrite (Z.mod_small (Z.shiftr (Z.of_N high) 24)) by exact Bs.
    assert (X : forall a c, 0 <= a < 4294967296 -> 0 <= c < 4294967296 -> 0 <= Z.lxor a c < 4294967296).
    { intros a c Ha Hc. change 4294967296 with (2 ^ 32). split; [apply Z.lxor_nonneg; lia|].
      destruct (Z.eq_dec (Z.lxor a c) 0) as [E0|N0]; [rewrite E0; reflexivity|].
      apply Z.log2_lt_pow2; [assert (0 <= Z.lxor a c) by (apply Z.lxor_nonneg; lia); lia|].
      eapply Z.le_lt_trans; [apply Z.log2_lxor; lia|].
      apply Z.max_lub_lt; (destruct (Z.eq_dec a 0) as [->|]; destruct (Z.eq_dec c 0) as [->|]; try (cbn; lia);
        apply Z.log2_lt_pow2; change (2 ^ 32) with 4294967296; lia). }
    rewrite (Z.mod_small (Z.lxor (Z.of_N v) _)) by (apply X; assumption).
    apply Z.mod_small. apply X; [apply X; assumption|assumption].
Qed.
Lemma link_hash_initial : g_c02_initial_state = 0.
Proof. reflexivity. Qed.
(* entry::calc_hash: the loop over the C string is the left fold of update_state from initial_state *)
Lemma link_smap_hash (k : list N) : bytes_ok k ->
  fold_left (fun h b => g_c02_update_state h (wraps 8 (Z.of_N b))) k g_c02_initial_state = Z.of_N (smap_hash k).
Proof.
  unfold smap_hash. rewrite link_hash_initial. change 0 with (Z.of_N 0). generalize 0%N as h.
  induction k as [|b k IH]; intros h Hk; [reflexivity|]. apply bytes_ok_cons in Hk. destruct Hk as [Hb Hk].
  cbn [fold_left]. rewrite link_hash_update by exact Hb. apply IH. exact Hk.
Qed.
