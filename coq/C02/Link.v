(* C02 tie T: leaf functions regenerated from private/http_protocol.h by tools/cxx2v.py equal the model leafs on
   every byte (the C++ parameter is a signed char, hence wraps 8) *)
From CppcmsV Require Import Base.Tac Base.CSem Base.Sweep C02.Defs gen.Gen_c02proto.
Local Open Scope N_scope.

Lemma link_separator b : b < 256 -> g_c02_separator (wraps 8 (Z.of_N b)) = separator b.
Proof.
  intros H. apply Bool.eqb_prop.
  apply (sweep256 (fun b => Bool.eqb (g_c02_separator (wraps 8 (Z.of_N b))) (separator b))); [vm_compute; reflexivity|exact H].
Qed.
(* token characters of protocol::tocken: 0x20 <= c <= 0x7E as signed char and not a separator *)
Lemma link_token_char b : b < 256 ->
  (Z.leb 32 (wraps 8 (Z.of_N b)) && Z.leb (wraps 8 (Z.of_N b)) 126 && negb (g_c02_separator (wraps 8 (Z.of_N b))))%bool = token_char b.
Proof.
  intros H. apply Bool.eqb_prop.
  apply (sweep256 (fun b => Bool.eqb (Z.leb 32 (wraps 8 (Z.of_N b)) && Z.leb (wraps 8 (Z.of_N b)) 126 && negb (g_c02_separator (wraps 8 (Z.of_N b))))%bool (token_char b)));
    [vm_compute; reflexivity|exact H].
Qed.
Lemma link_ascii_to_lower b : b < 256 -> Z.to_N (wrapu 8 (g_c02_lower (wraps 8 (Z.of_N b)))) = to_lower b.
Proof.
  intros H. apply N.eqb_eq.
  apply (sweep256 (fun b => Z.to_N (wrapu 8 (g_c02_lower (wraps 8 (Z.of_N b)))) =? to_lower b)); [vm_compute; reflexivity|exact H].
Qed.
