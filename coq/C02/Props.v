(* C02 -- no request, however malformed, crashes the service or disturbs other requests.
   Only property theorems here, each closed by `exact <lemma>`; proofs are in Proofs*.v, the model in Defs.v. *)
From CppcmsV Require Import Base.Tac Base.CSem Base.Sweep C02.SMapDefs C02.SMapProofs C02.SMapProofs2 C02.SPool C02.MpEnd C02.Wd C02.Defs C02.Proofs C02.Proofs2 C02.Proofs3 C02.Proofs4 C02.Proofs5 C02.Link gen.Gen_c02proto gen.Gen_c02smap.
Local Open Scope Z_scope.

(* 1. declared length arithmetic: atoll is a saturating signed 64-bit value; a negative declared length is rejected
      (for applications whose filter set-up call does not itself throw - those answer 403/500 before the length is looked at)
      with 400, one above the applicable limit with 413, in both cases without any handler call and with at most one
      on_error notification; what reaches post_data.resize()/the content reader is positive and within the limit *)
Theorem declared_length_is_saturating_int64 : forall s, LLONG_MIN <= atoll s <= LLONG_MAX.
Proof. exact atoll_range. Qed.
Print Assumptions declared_length_is_saturating_int64.
Theorem minus_digits_is_negative : forall c t, isdigit c = true -> c <> 48%N -> atoll (45%N :: c :: t) < 0.
Proof. exact atoll_minus_negative. Qed.
Print Assumptions minus_digits_is_negative.
Theorem bad_length_rejected : forall script cl ct a, mounted script = Some a -> setup_throws a = false -> cl < 0 ->
  exists cnt, content_start script cl ct = CStatus 400 cnt /\ handled cnt = 0 /\ c_err cnt <= 1.
Proof. exact content_start_negative. Qed.
Print Assumptions bad_length_rejected.
Theorem oversized_length_rejected : forall script cl ct a, mounted script = Some a -> setup_throws a = false ->
  cl > (if is_multipart ct then mp_limit else cl_limit) ->
  exists cnt, content_start script cl ct = CStatus 413 cnt /\ handled cnt = 0 /\ c_err cnt <= 1.
Proof. exact content_start_too_large. Qed.
Print Assumptions oversized_length_rejected.
Theorem content_buffer_request_bounded : forall script cl ct a n setup,
  content_start script cl ct = CNeed a n setup -> n = cl /\ 0 < n <= mp_limit /\ mounted script = Some a.
Proof. exact content_start_need. Qed.
Print Assumptions content_buffer_request_bounded.
Theorem error_status_means_not_handled : forall script cl ct code cnt, content_start script cl ct = CStatus code cnt ->
  (code = 404 \/ code = 400 \/ code = 413 \/ code = 403 \/ code = 500) /\ cnt_ok cnt /\ handled cnt = 0 /\ c_err cnt <= 1 /\
  c_setup cnt = c_err cnt + c_abort cnt /\ c_abort cnt <= 1 /\ c_end cnt = 0.
Proof. exact content_start_status. Qed.
Print Assumptions error_status_means_not_handled.
Example declared_length_nonvacuous :
  atoll [45;49]%N = -1 /\ atoll [57;57;57;57;57;57;57;57;57;57;57;57;57;57;57;57;57;57;57;57]%N = LLONG_MAX /\
  content_start s_up (-1) [] = CStatus 400 (mkC 0 0 1 0 1 0 0) /\ content_start s_sync 2049 [] = CStatus 413 c0 /\
  content_start s_sync 2048 [] = CNeed AppSync 2048 false /\
  content_start s_upa 5 [] = CStatus 403 (mkC 0 0 1 0 0 0 1) /\ content_start s_upt (-1) [] = CStatus 500 (mkC 0 0 1 0 0 0 1).
Proof. vm_compute. repeat split. Qed.

(* 2. HTTP header parser: header_.resize(header_.size()-2) is executed only when the header holds at least two bytes *)
Theorem http_header_resize_in_bounds : forall s, pst (prun parser0 s) = PSpaceOr -> (2 <= length (phdr (prun parser0 s)))%nat.
Proof. exact resize_in_bounds. Qed.
Print Assumptions http_header_resize_in_bounds.
Example http_header_resize_nonvacuous : pst (prun parser0 [88;13;10]%N) = PSpaceOr.
Proof. reflexivity. Qed.

(* 3. model-level memory safety of the SCGI and FastCGI readers holds unconditionally (code as repaired by /repo commits
      236058f, d9475fc, 48f6979): for EVERY byte string no modelled buffer read (every one goes through the bounds-checked
      rd; front() of a vector is the read of index 0) leaves its buffer, over the whole connection.  The two input
      classes that used to refute this are now decided the safe way, in general and on the old witnesses:
      a SCGI header block of positive declared length whose last byte is not NUL is a protocol violation (closed, no
      application callback); a FastCGI GET_VALUES record without content is answered by an empty GET_VALUES_RESULT and
      the connection goes on with the next record. *)
Theorem scgi_connection_in_bounds : forall s, ~ In IUnsafe (fst (scgi_run s)).
Proof. exact scgi_run_no_unsafe. Qed.
Print Assumptions scgi_connection_in_bounds.
Theorem fcgi_connection_in_bounds : forall s, bytes_ok s -> ~ In IUnsafe (fst (fcgi_run s)).
Proof. exact fcgi_run_no_unsafe. Qed.
Print Assumptions fcgi_connection_in_bounds.
Theorem fcgi_connection_in_bounds_from_any_record : forall fuel s, bytes_ok s -> ~ In IUnsafe (fst (fcgi_conn fuel s)).
Proof. exact fcgi_conn_no_unsafe. Qed.
Print Assumptions fcgi_connection_in_bounds_from_any_record.
Theorem scgi_unterminated_header_block_rejected : forall s,
  0 < scgi_len s -> rd s (scgi_block_end s) <> Some 0%N -> scgi_run s = ([IEnd], c0).
Proof. exact scgi_run_unterminated_rejected. Qed.
Print Assumptions scgi_unterminated_header_block_rejected.
Theorem fcgi_empty_get_values_answered : forall f i1 i0 x r,
  fcgi_conn (S f) (1 :: 9 :: i1 :: i0 :: 0 :: 0 :: 0 :: x :: r)%N = (IGetValues [] :: fst (fcgi_conn f r), snd (fcgi_conn f r)).
Proof. exact fcgi_empty_get_values_continues. Qed.
Print Assumptions fcgi_empty_get_values_answered.
(* regression: the witnesses of the former scgi_unterminated_header_block_refuted / fcgi_empty_get_values_refuted
   ("40:" + 40 x A + "," and the record 01 09 00 00 00 00 00 00) now evaluate to the safe outcome; the empty
   GET_VALUES in front of a complete request does not disturb that request *)
Example repaired_witnesses_regression :
  scgi_run scgi_witness = ([IEnd], c0) /\ fcgi_run fcgi_witness = ([IGetValues []; IEnd], c0) /\
  0 < scgi_len scgi_witness /\ rd scgi_witness (scgi_block_end scgi_witness) = Some 65%N /\
  fcgi_run (fcgi_witness ++ [1;1;0;1;0;8;0;0;0;1;0;0;0;0;0;0;1;4;0;1;0;19;0;0;11;6;83;67;82;73;80;84;95;78;65;77;69;47;97;115;121;110;99;1;4;0;1;0;0;0;0;1;5;0;1;0;0;0;0]%N)
    = ([IGetValues []; IOk AppAsync], mkC 0 1 0 0 0 0 0) /\
  (* a block that does end in NUL is still served: 22:SCRIPT_NAME\0/sync\0X\0Y\0, *)
  scgi_run [50;50;58;83;67;82;73;80;84;95;78;65;77;69;0;47;115;121;110;99;0;88;0;89;0;44]%N = ([IOk AppSync], mkC 1 0 0 0 0 0 0) /\
  (* and the same block with the final NUL replaced is rejected *)
  scgi_run [50;50;58;83;67;82;73;80;84;95;78;65;77;69;0;47;115;121;110;99;0;88;0;89;90;44]%N = ([IEnd], c0).
Proof. vm_compute. repeat split. Qed.

(* 4. total readers: for every byte string (HTTP: every segmentation into reads) a connection run ends without fuel
      exhaustion; SCGI produces exactly one observation *)
Theorem http_total : forall segments, ~ In IFuel (fst (http_run segments)).
Proof. exact http_run_no_fuel. Qed.
Print Assumptions http_total.
Theorem fcgi_total : forall s, ~ In IFuel (fst (fcgi_run s)).
Proof. exact fcgi_run_no_fuel. Qed.
Print Assumptions fcgi_total.
Theorem scgi_total_single_observation : forall s, exists it, fst (scgi_run s) = [it] /\ it <> IFuel.
Proof. exact scgi_run_single. Qed.
Print Assumptions scgi_total_single_observation.
Theorem http_header_reader_consumes : forall s p r total i r1 rest i1,
  hdr_loop s p r total i = HDone r1 rest i1 -> (length rest < length s)%nat.
Proof. exact hdr_loop_shrinks. Qed.
Print Assumptions http_header_reader_consumes.

(* 5. at most once / nothing after an error.  run_ok (l, c) says: the run is not empty; every observation that is
      followed by another one is a successful reply (IOk / GET_VALUES result / unknown-role END_REQUEST), i.e. an error
      page, the bare 400, a silent close or an unsafe read is always the LAST thing that happens on the connection;
      the number of handler calls equals the number of 200 replies (one call per served request, none for any other
      outcome); on_error is called at most once per connection, only if the run ends in a non-reply, and only after the
      filter was installed; every filter set-up call is accounted for by a handler call, an on_error notification or the
      exception it threw itself (c_setup <= c_main + c_err + c_abort); on_end_of_content at most once per installed filter *)
Theorem http_at_most_once : forall segments, run_ok (http_run segments).
Proof. exact http_run_ok. Qed.
Print Assumptions http_at_most_once.
Theorem scgi_at_most_once : forall s, run_ok (scgi_run s).
Proof. exact scgi_run_ok. Qed.
Print Assumptions scgi_at_most_once.
Theorem fcgi_at_most_once : forall s, run_ok (fcgi_run s).
Proof. exact fcgi_run_ok. Qed.
Print Assumptions fcgi_at_most_once.
Example at_most_once_nonvacuous :
  http_run [[71;69;84;32;47;115;121;110;99;32;72;84;84;80;47;49;46;49;13;10;67;111;110;110;101;99;116;105;111;110;58;32;107;101;101;112;45;97;108;105;118;101;13;10;13;10;80;79;83;84;32;47;117;112;32;72;84;84;80;47;49;46;48;13;10;67;111;110;116;101;110;116;45;76;101;110;103;116;104;58;32;45;49;13;10;13;10]%N]
    = ([IOk AppSync; IStatus 400], mkC 1 0 1 0 1 0 0) /\
  scgi_run [51;53;58;83;67;82;73;80;84;95;78;65;77;69;0;47;115;121;110;99;0;67;79;78;84;69;78;84;95;76;69;78;71;84;72;0;51;0;44;97;98;99]%N
    = ([IOk AppSync], mkC 1 0 0 0 0 0 0) /\
  fcgi_run [1;1;0;1;0;8;0;0;0;1;1;0;0;0;0;0;1;4;0;1;0;19;0;0;11;6;83;67;82;73;80;84;95;78;65;77;69;47;97;115;121;110;99;1;4;0;1;0;0;0;0;1;5;0;1;0;0;0;0;1;1;0;1;0;8;0;0;0;2;0;0;0;0;0;0;1;1;0;1;0;8;0;0;0;1;0;0;0;0;0;0;1;5;0;1;0;0;0;0]%N
    = ([IOk AppAsync; IUnknownRole; IEnd], mkC 0 1 0 0 0 0 0).
Proof. vm_compute. repeat split. Qed.

(* 6. index arithmetic.  FastCGI read_len / parse_pairs (both overloads): with the `uint32_t(e - p) >= len` tests every
      read and every name/value slice lies inside body_, for every body shorter than 2^32 bytes; parse_pairs_all adds the
      empty-body early return in front of &body_.front().
      SCGI: if the byte before the terminating comma is NUL, no strlen of the key/value scan leaves buffer_, and the test
      scgi_block_terminated (repair 236058f) lets the scan run only in that case or on an empty block. *)
Theorem fcgi_read_len_in_bounds : forall body p e, 0 <= p <= e -> e <= zlen body ->
  match read_len body p e with LUnsafe => False | LBad => True | LOk v p1 => p < p1 <= e /\ 0 <= v end.
Proof. exact read_len_safe. Qed.
Print Assumptions fcgi_read_len_in_bounds.
Theorem fcgi_parse_pairs_in_bounds : forall fuel body p e acc,
  zlen body < 4294967296 -> 0 <= p <= e -> e <= zlen body -> parse_pairs fuel body p e acc <> PUnsafe.
Proof. exact parse_pairs_safe. Qed.
Print Assumptions fcgi_parse_pairs_in_bounds.
Theorem fcgi_parse_pairs_all_in_bounds : forall body, zlen body < 4294967296 -> parse_pairs_all body <> PUnsafe.
Proof. exact parse_pairs_all_safe. Qed.
Print Assumptions fcgi_parse_pairs_all_in_bounds.
Theorem scgi_scan_in_bounds_if_nul_terminated : forall fuel buf p back acc,
  0 <= p -> rd buf (back - 1) = Some 0%N -> scgi_env fuel buf p back acc <> None.
Proof. exact scgi_env_safe. Qed.
Print Assumptions scgi_scan_in_bounds_if_nul_terminated.
Theorem scgi_scan_runs_only_on_terminated_block : forall buf sep size fuel acc,
  0 <= sep -> sep + 2 <= size -> scgi_block_terminated buf sep size = Some true ->
  scgi_env fuel buf (sep + 1) (size - 1) acc <> None.
Proof. exact scgi_block_terminated_scan_safe. Qed.
Print Assumptions scgi_scan_runs_only_on_terminated_block.
Example index_nonvacuous :
  read_len [128;0;1;2;65]%N 0 5 = LOk 258 4 /\ read_len [128;0;1]%N 0 3 = LBad /\
  (exists acc, parse_pairs 9 [1;1;65;66;1;200;67]%N 0 7 [] = PFalse acc) /\
  scgi_env 9 [65;0;66;0;44]%N 0 4 [] = Some [([65]%N, [66]%N)] /\ scgi_env 9 [65;0;66;67;44]%N 0 4 [] = None /\
  scgi_block_terminated [58;65;0;66;0;44]%N 0 6 = Some true /\ scgi_block_terminated [58;65;0;66;67;44]%N 0 6 = Some false /\
  scgi_block_terminated [58;44]%N 0 2 = Some true /\
  parse_pairs_all [] = PTrue [] /\ parse_pairs_all [1;1;65;66]%N = PTrue [([65]%N, [66]%N)].
Proof. vm_compute. repeat split. eexists. reflexivity. Qed.

(* 7. tie to the source: the separator / token-character / ascii_to_lower leafs used by the request-line, header-name and
      content-type models are the functions regenerated from private/http_protocol.h on this run (256-point sweeps) *)
Theorem separator_is_source : forall b, (b < 256)%N -> g_c02_separator (wraps 8 (Z.of_N b)) = separator b.
Proof. exact link_separator. Qed.
Print Assumptions separator_is_source.
Theorem token_char_is_source : forall b, (b < 256)%N ->
  (Z.leb 32 (wraps 8 (Z.of_N b)) && Z.leb (wraps 8 (Z.of_N b)) 126 && negb (g_c02_separator (wraps 8 (Z.of_N b))))%bool = token_char b.
Proof. exact link_token_char. Qed.
Print Assumptions token_char_is_source.
Theorem to_lower_is_source : forall b, (b < 256)%N -> Z.to_N (wrapu 8 (g_c02_lower (wraps 8 (Z.of_N b)))) = to_lower b.
Proof. exact link_ascii_to_lower. Qed.
Print Assumptions to_lower_is_source.

(* 8. HTTP header limit: a request whose header block is accepted took at most 2 x 16384 bytes from the connection (the
      16384 limit is tested after a read, so the block may extend into one further read of at most 16384 bytes);
      the general form bounds the consumption from any reader state by `potential` *)
Theorem http_header_bytes_bounded : forall s i r rest i1, (avail i <= read_cap)%nat ->
  hdr_loop s parser0 hreq0 (Z.of_nat (avail i)) i = HDone r rest i1 ->
  Z.of_nat (length s) - Z.of_nat (length rest) <= 32768.
Proof. exact hdr_loop_at_most_two_reads. Qed.
Print Assumptions http_header_bytes_bounded.
Theorem http_header_bytes_bounded_general : forall s p r total i r1 rest i1,
  hdr_loop s p r total i = HDone r1 rest i1 ->
  Z.of_nat (length s) - Z.of_nat (length rest) <= potential total (avail i).
Proof. exact hdr_loop_bound. Qed.
Print Assumptions http_header_bytes_bounded_general.

(* 9. connection-level form of theorem group 1 for HTTP: a negative / oversized declared length for a mounted
      application produces exactly [400] / [413] and no handler call *)
Theorem http_negative_length_connection : forall f s i r rest i1 script a,
  hdr_loop s parser0 hreq0 (Z.of_nat (avail i)) i = HDone r rest i1 ->
  process_request r = PScript script -> mounted script = Some a -> setup_throws a = false -> h_cl r < 0 ->
  exists cnt, http_conn (S f) s i = ([IStatus 400], cnt) /\ handled cnt = 0 /\ c_err cnt <= 1.
Proof. exact http_conn_bad_length. Qed.
Print Assumptions http_negative_length_connection.
Theorem http_oversized_length_connection : forall f s i r rest i1 script a,
  hdr_loop s parser0 hreq0 (Z.of_nat (avail i)) i = HDone r rest i1 ->
  process_request r = PScript script -> mounted script = Some a -> setup_throws a = false ->
  h_cl r > (if is_multipart (h_ct r) then mp_limit else cl_limit) ->
  exists cnt, http_conn (S f) s i = ([IStatus 413], cnt) /\ handled cnt = 0 /\ c_err cnt <= 1.
Proof. exact http_conn_oversized. Qed.
Print Assumptions http_oversized_length_connection.
Example http_connection_nonvacuous :
  (* POST /up HTTP/1.0, Content-Length: -1 *)
  fst (http_run [[80;79;83;84;32;47;117;112;32;72;84;84;80;47;49;46;48;13;10;67;111;110;116;101;110;116;45;76;101;110;103;116;104;58;32;45;49;13;10;13;10]%N]) = [IStatus 400].
Proof. vm_compute. reflexivity. Qed.

(* 10. whole-connection index safety of the HTTP reader: no out-of-bounds path for any stream and segmentation.
       Together with group 3: no input on any of the three front-ends reaches an unsafe index of the model. *)
Theorem http_connection_in_bounds : forall fuel s i, ~ In IUnsafe (fst (http_conn fuel s i)).
Proof. exact http_conn_no_unsafe. Qed.
Print Assumptions http_connection_in_bounds.
Theorem no_input_reaches_unsafe_index : forall segments s,
  ~ In IUnsafe (fst (http_run segments)) /\ ~ In IUnsafe (fst (scgi_run s)) /\ (bytes_ok s -> ~ In IUnsafe (fst (fcgi_run s))).
Proof. exact all_readers_no_unsafe. Qed.
Print Assumptions no_input_reaches_unsafe_index.

(* 11. FastCGI record level (unknown roles or record types, other protocol versions - named in the property text): whatever
       follows on the stream, a record of another version closes the connection without reply; a record whose type is neither
       GET_VALUES nor BEGIN_REQUEST is skipped and changes nothing; a BEGIN_REQUEST with a role other than RESPONDER is
       answered by END_REQUEST(unknown role) and the connection goes on with the next record, no handler involved; a
       BEGIN_REQUEST whose body is not 8 bytes is a protocol violation *)
Theorem fcgi_unknown_version_closes_connection : forall f s h content rest,
  read_record s = Some (h, content, rest) -> f_version h <> 1 -> fcgi_conn (S f) s = ([IEnd], c0).
Proof. exact fcgi_other_version_closed. Qed.
Print Assumptions fcgi_unknown_version_closes_connection.
Theorem fcgi_unknown_record_type_is_skipped : forall f s h content rest,
  read_record s = Some (h, content, rest) -> f_version h = 1 -> f_type h <> 9 -> f_type h <> 1 ->
  fcgi_conn (S f) s = fcgi_conn f rest.
Proof. exact fcgi_unknown_type_skipped. Qed.
Print Assumptions fcgi_unknown_record_type_is_skipped.
Theorem fcgi_unknown_role_is_answered_and_connection_continues : forall f s h content rest,
  read_record s = Some (h, content, rest) -> f_version h = 1 -> f_type h = 1 -> length content = 8%nat ->
  zb (nth 0 content 0%N) * 256 + zb (nth 1 content 0%N) <> 1 ->
  fcgi_conn (S f) s = (IUnknownRole :: fst (fcgi_conn f rest), snd (fcgi_conn f rest)).
Proof. exact fcgi_unknown_role_answered. Qed.
Print Assumptions fcgi_unknown_role_is_answered_and_connection_continues.
Theorem fcgi_begin_request_wrong_size_closes_connection : forall f s h content rest,
  read_record s = Some (h, content, rest) -> f_version h = 1 -> f_type h = 1 -> length content <> 8%nat ->
  fcgi_conn (S f) s = ([IEnd], c0).
Proof. exact fcgi_begin_request_bad_size_closed. Qed.
Print Assumptions fcgi_begin_request_wrong_size_closes_connection.
Example fcgi_record_level_nonvacuous :
  (* type 11 record with 3 content + 5 padding bytes, then BEGIN_REQUEST(role 2), then a version-2 record *)
  read_record [1;11;0;0;0;3;5;0;120;121;122;0;0;0;0;0;1;1;0;1;0;8;0;0;0;2;0;0;0;0;0;0;2;1;0;1;0;0;0;0]%N
    = Some (mkF 1 11 0 3 5, [120;121;122]%N, [1;1;0;1;0;8;0;0;0;2;0;0;0;0;0;0;2;1;0;1;0;0;0;0]%N) /\
  fcgi_run [1;11;0;0;0;3;5;0;120;121;122;0;0;0;0;0;1;1;0;1;0;8;0;0;0;2;0;0;0;0;0;0;2;1;0;1;0;0;0;0]%N = ([IUnknownRole; IEnd], c0) /\
  fcgi_run [1;1;0;1;0;7;0;0;0;1;0;0;0;0;0]%N = ([IEnd], c0).
Proof. vm_compute. repeat split. Qed.

(* 12. the decidable input class on which checks/C02.py demands the repaired SCGI behaviour of the implementation
       (complete accepted netstring ending in a comma whose non-empty header block does not end in NUL; the Python and the
       extracted Coq definition are compared on every generated SCGI case) is rejected by the model *)
Theorem scgi_oracle_class_is_rejected : forall s, scgi_unterminated_class s = true -> scgi_run s = ([IEnd], c0).
Proof. exact scgi_unterminated_class_rejected. Qed.
Print Assumptions scgi_oracle_class_is_rejected.
Example scgi_oracle_class_nonvacuous :
  scgi_unterminated_class scgi_witness = true /\
  scgi_unterminated_class [50;50;58;83;67;82;73;80;84;95;78;65;77;69;0;47;115;121;110;99;0;88;0;89;0;44]%N = false /\
  scgi_unterminated_class [50;50;58;83;67;82;73;80;84;95;78;65;77;69;0;47;115;121;110;99;0;88;0;89;90;44]%N = true.
Proof. vm_compute. repeat split. Qed.

(* 13. all segmentations (HTTP; the SCGI and FastCGI readers of the model take the byte stream itself): for a stream of at
       most 16384 bytes the observations and the callback counters of an HTTP connection do not depend on how the bytes are
       delivered - the connection equals http_pure, a reader without any notion of reads; above 16384 bytes the
       segmentation does matter (the limit is tested once per read, theorem group 8), as the example shows *)
Theorem http_outcome_independent_of_segmentation : forall segs1 segs2,
  concat segs1 = concat segs2 -> Z.of_nat (length (concat segs1)) <= 16384 -> http_run segs1 = http_run segs2.
Proof. exact http_run_segmentation_independent. Qed.
Print Assumptions http_outcome_independent_of_segmentation.
Theorem http_connection_is_segmentation_free_reader : forall segments,
  Z.of_nat (length (concat segments)) <= 16384 ->
  http_run segments = http_pure (S (length (concat segments))) (concat segments).
Proof. exact http_run_pure. Qed.
Print Assumptions http_connection_is_segmentation_free_reader.
Example segmentation_nonvacuous :
  let rq := [71;69;84;32;47;115;121;110;99;32;72;84;84;80;47;49;46;48;13;10;13;10]%N in
  http_run [rq] = ([IOk AppSync], mkC 1 0 0 0 0 0 0) /\
  http_run [firstn 3 rq; firstn 16 (skipn 3 rq); skipn 19 rq] = ([IOk AppSync], mkC 1 0 0 0 0 0 0) /\
  (* a header block of 16427 bytes: served when it arrives as a read of 16384 bytes followed by one read of the rest, refused
     when a further read boundary falls after byte 16385, because the limit is tested after each read *)
  let big := ([71;69;84;32;47;115;121;110;99;32;72;84;84;80;47;49;46;48;13;10;88;58;32]%N ++ repeat 97%N 16400 ++ [13;10;13;10]%N) in
  fst (http_run [big]) = [IOk AppSync] /\ fst (http_run [firstn 16385 big; firstn 10 (skipn 16385 big); skipn 16395 big]) = [IEnd].
Proof. vm_compute. repeat split. Qed.

(* 14. connection::env_ = string_map (private/string_map.h), the open-addressing table with linear probing in which every front
       end stores the CGI variables of a request and in which the framework and the application look up present AND absent
       names in the event-loop thread ("the event loop keeps running"): for every sequence of add() and clear() on a fresh table
       (any number of variables, any names incl. duplicates and colliding hashes)
         - the load factor stays at most 1/2, so there is always an empty slot;
         - neither the probe loop of insert() nor the rehash of add() runs without end (smap_run never yields None);
         - get() of any name, present or absent, ends within data_.size() probes (the fuel of the model never runs out);
         - get() answers exactly spec_get: the first entry with that name in insertion order into the current table, where
           every growth (33rd, 65th, 129th ... add) reverses that order because the rehash walks the chain newest first; hence a
           name added once is found with its value, a name never added is absent, and on a table that has not grown
           (at most 32 variables) the FIRST add of a duplicated name wins;
         - begin()..end() lists every entry exactly once, in reverse insertion order into the current table.
       The growth test, the new size, the initial size, the probe start / step expressions and the hash are the expressions of
       the current source (Link lemmas over coq/gen/Gen_c02smap.v). *)
Theorem string_map_load_factor : forall ops m, smap_run ops smap_empty = Some m ->
  (total m * 2 <= cap m)%nat /\ exists p, (p < cap m)%nat /\ slot (slots m) p = None.
Proof. exact smap_load_factor. Qed.
Print Assumptions string_map_load_factor.
Theorem string_map_add_never_loops : forall ops, exists m, smap_run ops smap_empty = Some m.
Proof. exact smap_run_total. Qed.
Print Assumptions string_map_add_never_loops.
Theorem string_map_get_terminates : forall ops m k, smap_run ops smap_empty = Some m -> smap_get m k <> GHang.
Proof. exact smap_get_terminates. Qed.
Print Assumptions string_map_get_terminates.
Theorem string_map_get_answer : forall ops m k, smap_run ops smap_empty = Some m -> smap_get m k = spec_get ops k.
Proof. exact smap_get_spec. Qed.
Print Assumptions string_map_get_answer.
Theorem string_map_absent_name_is_absent : forall ops m k, smap_run ops smap_empty = Some m ->
  (forall k2 v2, In (SAdd k2 v2) ops -> k2 <> k) -> smap_get m k = GAbsent.
Proof. exact smap_get_absent. Qed.
Print Assumptions string_map_absent_name_is_absent.
Theorem string_map_name_added_once_is_found : forall pre0 pre post k v m,
  (pre0 = [] \/ exists x, pre0 = x ++ [SClear]) -> (forall k2 v2, In (SAdd k2 v2) (pre ++ post) -> k2 <> k) -> ~ In SClear post ->
  smap_run (pre0 ++ pre ++ SAdd k v :: post) smap_empty = Some m -> smap_get m k = GFound v.
Proof. exact smap_get_unique. Qed.
Print Assumptions string_map_name_added_once_is_found.
Theorem string_map_first_add_wins_up_to_32 : forall m k v pre post,
  let ops := map (fun kv => SAdd (fst kv) (snd kv)) (pre ++ (k, v) :: post) in
  (length (pre ++ (k, v) :: post) <= 32)%nat -> (forall kv, In kv pre -> fst kv <> k) ->
  smap_run ops smap_empty = Some m -> smap_get m k = GFound v.
Proof. exact smap_get_first_add_small. Qed.
Print Assumptions string_map_first_add_wins_up_to_32.
Theorem string_map_iteration : forall ops m, smap_run ops smap_empty = Some m ->
  smap_iter m = map Some (rev (snd (spec_run ops initial_cap []))).
Proof. exact smap_iter_spec. Qed.
Print Assumptions string_map_iteration.
(* the same for the environment of a request as the front-end models of Defs.v use it (env_get = smap_get on env_map): every look-up
   ends; it answers spec_get of the adds of the request; for at most 32 variables that is the association list in which the first
   pair of a name wins (the environment model of the earlier rounds, right exactly up to the first growth) *)
Theorem request_environment_lookup_terminates : forall e k, smap_get (env_map e) k <> GHang.
Proof. exact env_lookup_ends. Qed.
Print Assumptions request_environment_lookup_terminates.
Theorem request_environment_lookup_answer : forall e k,
  smap_get (env_map e) k = spec_get (map (fun kv => SAdd (fst kv) (snd kv)) e) k.
Proof. exact env_lookup_spec. Qed.
Print Assumptions request_environment_lookup_answer.
Theorem request_environment_is_first_wins_list_up_to_32 : forall e k, (length e <= 32)%nat ->
  smap_get (env_map e) k = match alist_get e k with Some v => GFound v | None => GAbsent end.
Proof. exact env_lookup_small. Qed.
Print Assumptions request_environment_is_first_wins_list_up_to_32.
(* what the oracles of the check demand of the implementation (a look-up answers with a value that was added for exactly that name
   since the last clear; "absent" only for a name not added since the last clear), proved of the model *)
Theorem string_map_lookup_answers_an_added_value : forall ops m k v, smap_run ops smap_empty = Some m -> smap_get m k = GFound v ->
  exists e, In e (since_clear ops []) /\ ekey e = k /\ evalue e = v.
Proof. exact get_found_was_added. Qed.
Print Assumptions string_map_lookup_answers_an_added_value.
Theorem string_map_absent_answer_is_sound : forall ops m k, smap_run ops smap_empty = Some m -> smap_get m k = GAbsent ->
  forall e, In e (since_clear ops []) -> ekey e <> k.
Proof. exact get_absent_not_added. Qed.
Print Assumptions string_map_absent_answer_is_sound.
(* the load factor is not only sufficient: on a table without an empty slot get() of a name that is not in it never ends, whatever
   the number of steps (GHang for every fuel) *)
Theorem string_map_full_table_get_never_ends : forall fuel d h k pos,
  (forall p, (p < length d)%nat -> exists e, slot d p = Some e /\ entry_matches e h k = false) ->
  (pos < length d)%nat -> get_loop fuel d h k pos = GHang.
Proof. exact full_table_get_never_ends. Qed.
Print Assumptions string_map_full_table_get_never_ends.
Example string_map_full_table_nonvacuous :
  (* 64 entries inserted into the 64 slots without growth (what total_ >= data_.size() as growth test would do): every slot is
     occupied and the look-up of an absent name runs out of 3000 steps *)
  let key := fun i : nat => [72; 95; N.of_nat (48 + Nat.div i 10)%nat; N.of_nat (48 + Nat.modulo i 10)%nat]%N in
  match insert_all (repeat None 64%nat) (map (fun i => entry_of (key i) []) (seq 0%nat 64%nat)) with
  | Some d => (forallb (fun s => match s with Some _ => true | None => false end) d,
               get_loop 3000%nat d (smap_hash [90%N]) [90%N] (start_pos (smap_hash [90%N]) 64%nat),
               get_loop 3000%nat d (smap_hash (key 7%nat)) (key 7%nat) (start_pos (smap_hash (key 7%nat)) 64%nat))
  | None => (false, GAbsent, GAbsent)
  end = (true, GHang, GFound []).
Proof. vm_compute. reflexivity. Qed.
(* tie T: the leafs of the model are the expressions of the current source *)
Theorem string_map_growth_test_is_source : forall total size : nat, Z.of_nat total < 2 ^ 63 ->
  g_c02_grow (Z.of_nat total) (Z.of_nat size) = grow_needed total size.
Proof. exact link_grow_needed. Qed.
Print Assumptions string_map_growth_test_is_source.
Theorem string_map_sizes_are_source : (forall size : nat, Z.of_nat size < 2 ^ 63 -> g_c02_newsize (Z.of_nat size) = Z.of_nat (size * 2)) /\
  g_c02_init_ctor = Z.of_nat initial_cap /\ g_c02_init_clear = Z.of_nat initial_cap.
Proof. split; [exact link_new_size|exact link_initial_size]. Qed.
Print Assumptions string_map_sizes_are_source.
Theorem string_map_probe_sequence_is_source : forall (h : N) (pos size : nat), (h < 4294967296)%N -> (pos < size)%nat -> Z.of_nat size < 2 ^ 31 ->
  g_c02_ins_start (Z.of_N h) (Z.of_nat size) = Z.of_nat (start_pos h size) /\ g_c02_get_start (Z.of_N h) (Z.of_nat size) = Z.of_nat (start_pos h size) /\
  g_c02_ins_next (Z.of_nat pos) (Z.of_nat size) = Z.of_nat (next_pos pos size) /\ g_c02_get_next (Z.of_nat pos) (Z.of_nat size) = Z.of_nat (next_pos pos size).
Proof.
  intros h pos size Hh Hp Hs. destruct (link_start_pos h size Hh ltac:(lia) Hs) as [A B]. destruct (link_next_pos pos size Hp Hs) as [C D].
  repeat split; assumption.
Qed.
Print Assumptions string_map_probe_sequence_is_source.
Theorem string_hash_is_source : forall k, bytes_ok k ->
  fold_left (fun h b => g_c02_update_state h (wraps 8 (Z.of_N b))) k g_c02_initial_state = Z.of_N (smap_hash k).
Proof. exact link_smap_hash. Qed.
Print Assumptions string_hash_is_source.
Example string_map_nonvacuous :
  let key := fun i : nat => [72; 95; N.of_nat (48 + Nat.div i 10)%nat; N.of_nat (48 + Nat.modulo i 10)%nat]%N in
  let adds := fun n => map (fun i => SAdd (key i) [N.of_nat i]) (seq 0%nat n) in
  let dup := [SAdd (key 3%nat) [200%N]] in
  (* 32 variables: no growth, 64 slots, the first add of the duplicated name wins *)
  match smap_run (adds 31%nat ++ dup) smap_empty with Some m => (cap m, total m, smap_get m (key 3%nat), smap_get m (key 77%nat)) | None => (O, O, GHang, GHang) end
    = (64, 32, GFound [3%N], GAbsent)%nat /\
  (* 33 variables: grown to 128 slots and now the LATER add wins (the rehash walked the chain newest first) *)
  match smap_run (adds 31%nat ++ dup ++ [SAdd (key 40%nat) []]) smap_empty with Some m => (cap m, total m, smap_get m (key 3%nat), smap_get m (key 77%nat)) | None => (O, O, GHang, GHang) end
    = (128, 33, GFound [200%N], GAbsent)%nat /\
  (* 65 variables: second growth, the order is reversed again *)
  match smap_run (adds 31%nat ++ dup ++ adds 33%nat) smap_empty with Some m => (cap m, total m, smap_get m (key 3%nat), spec_get (adds 31%nat ++ dup ++ adds 33%nat) (key 3%nat)) | None => (O, O, GHang, GHang) end
    = (256, 65, GFound [3%N], GFound [3%N])%nat /\
  (* exactly 64 variables (the count at which a table growing only when full would have no empty slot left) *)
  match smap_run (adds 64%nat) smap_empty with Some m => (cap m, total m, smap_get m (key 77%nat), length (smap_iter m)) | None => (O, O, GHang, O) end
    = (128, 64, GAbsent, 64)%nat /\
  (* two names with the same 32-bit hash (CONTENT_LENGTH and CONTENT_LENGSX) are told apart by the key comparison *)
  smap_hash [67;79;78;84;69;78;84;95;76;69;78;71;84;72]%N = smap_hash [67;79;78;84;69;78;84;95;76;69;78;71;83;88]%N /\
  match smap_run [SAdd [67;79;78;84;69;78;84;95;76;69;78;71;83;88]%N [53%N]] smap_empty with
  | Some m => smap_get m [67;79;78;84;69;78;84;95;76;69;78;71;84;72]%N | None => GHang end = GAbsent /\
  smap_run [SAdd [65%N] []; SClear; SAdd [66%N] [49%N]] smap_empty <> None.
Proof. vm_compute. repeat split; discriminate. Qed.

(* 15. the strings behind the table: scgi / fastcgi store key and value of every variable in connection::pool_ (string_pool) and
       hand the pointers to env_.add; every front end resets both together.  For every sequence of "variable" / "reset" operations,
       every entry the table can answer a get() with or list in a walk has its key and its value, NUL included, in an allocation made
       since the last reset that lies inside its page of the current pool; after a reset there is no entry, no live allocation, the
       pool is the initial one-page pool and the table is the initial table (nothing points into a freed page). *)
Theorem env_strings_live_in_pool : forall ops e,
  In e (snd (spec_run (e_ops (erun ops)) initial_cap [])) -> stored (erun ops) (ekey e) /\ stored (erun ops) (evalue e).
Proof. exact env_entries_live_in_pool. Qed.
Print Assumptions env_strings_live_in_pool.
Theorem env_reset_leaves_nothing_behind : forall ops,
  let c := erun (ops ++ [EReset]) in
  e_live c = [] /\ e_pool c = pool0 /\ snd (spec_run (e_ops c) initial_cap []) = [] /\ smap_run (e_ops c) smap_empty = Some smap_empty.
Proof. exact env_reset_is_fresh. Qed.
Print Assumptions env_reset_leaves_nothing_behind.
Example env_pool_nonvacuous :
  (* a 1500-byte value gets a page of its own, the next short strings go on in the first page; after the reset one page is left *)
  let c := erun [EVar [65%N] (repeat 66%N 1500); EVar [67%N] [68%N]] in
  map fst (e_live c) = [(0%nat, 0%N, 2%N); (1%nat, 0%N, 1501%N); (0%nat, 2%N, 2%N); (0%nat, 4%N, 2%N)] /\ pages (e_pool c) = [1501; 2048]%N /\
  length (snd (spec_run (e_ops c) initial_cap [])) = 2%nat /\
  pages (e_pool (erun [EVar [65%N] (repeat 66%N 1500); EReset])) = [2048%N].
Proof. vm_compute. repeat split. Qed.

(* 16. multipart/form-data bodies, request::on_content_progress: the chunk loop over the results of multipart_parser::consume and the
       end-of-body decision (model MpEnd.v, tied to the source by a rigid statement match in checks/C02.py:mp_end_tie): when the whole
       declared length has been read the request goes on to the application only if the last result of the parser is eof; whatever
       else it said last - content_ready right after a separator boundary, content_partial, meta_ready, continue_input, nothing at
       all - the answer is 400 (or 413): a body that ends without the closing delimiter never reaches the application *)
Theorem multipart_body_served_only_after_eof : forall rs, mp_progress rs true = 0 -> last rs MpContinue = MpEof.
Proof. exact mp_served_only_after_eof. Qed.
Print Assumptions multipart_body_served_only_after_eof.
Theorem multipart_body_without_closing_delimiter_is_refused : forall rs, last rs MpContinue <> MpEof ->
  mp_progress rs true = 400 \/ mp_progress rs true = 413.
Proof. exact mp_not_eof_is_error. Qed.
Print Assumptions multipart_body_without_closing_delimiter_is_refused.
Example multipart_end_nonvacuous :
  (* a body cut right after a separator boundary: the last result is content_ready -> 400; with the closing delimiter -> served;
     eof before the declared length is read, input after eof, a file over the limit *)
  mp_progress [MpMetaReady; MpContentPartial true; MpContentReady true] true = 400 /\
  mp_progress [MpMetaReady; MpContentPartial true; MpContentReady true; MpEof] true = 0 /\
  mp_progress [MpMetaReady; MpContentReady true] false = 0 /\
  mp_progress [MpMetaReady; MpContentReady true; MpEof] false = 400 /\
  mp_progress [MpContentReady true; MpEof; MpContinue] true = 400 /\
  mp_progress [MpMetaReady; MpContentPartial false] true = 413 /\ mp_progress [] true = 400.
Proof. vm_compute. repeat split. Qed.

(* 17. the HTTP time-out watchdog (http::add_to_watchdog / remove_from_watchdog and the flag in_watchdog_, model Wd.v, tied by a rigid
       statement match in checks/C02.py:watchdog_tie): over every sequence of events of a connection the flag tells the membership in
       http_watchdog::connections_, so after every start of a header read - first request or any later request of a kept-alive
       connection - the connection is a member and stays one until the request is complete: a peer that sends a truncated request, or
       nothing, and holds the socket open is closed by check() after http.timeout *)
Theorem watchdog_flag_is_membership : forall es, flag (wd_run es) = member (wd_run es).
Proof. exact wd_flag_is_membership. Qed.
Print Assumptions watchdog_flag_is_membership.
Theorem connection_waiting_for_headers_is_in_watchdog : forall es tail, Forall (fun e => e <> ReadComplete) tail ->
  member (wd_run (es ++ ReadHeadersStart :: tail)) = true.
Proof. exact wd_member_until_complete. Qed.
Print Assumptions connection_waiting_for_headers_is_in_watchdog.
Example watchdog_nonvacuous :
  (* two complete kept-alive requests, then a third one that never completes *)
  member (wd_run [ReadHeadersStart; Other; ReadComplete; Other; ReadHeadersStart; ReadComplete; ReadHeadersStart; Other]) = true /\
  member (wd_run [ReadHeadersStart; ReadComplete]) = false /\
  (* a remove that leaves the flag set (the dropped reset) would not re-add: the model with the flag stuck at true *)
  member (fold_left wd_step [ReadHeadersStart] (mkwd true false)) = false.
Proof. vm_compute. repeat split. Qed.
