Require Extraction.
Require Import ExtrOcamlBasic.
From Coq Require Import NArith ZArith List.
From CppcmsV Require Import C02.Defs.
Definition keep_types : (N * Z * nat) := (0%N, 0%Z, 0%nat).
Extraction "c02m.ml" keep_types http_run scgi_run fcgi_run atoll atoi is_multipart scgi_unterminated_class.
