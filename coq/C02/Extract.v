Require Extraction.
Require Import ExtrOcamlBasic.
From Coq Require Import NArith ZArith List.
From CppcmsV Require Import C02.SMapDefs C02.SPool C02.Defs.
Definition keep_types : (N * Z * nat) := (0%N, 0%Z, 0%nat).
(* env_map e = env_map_build e (SMapDefs.v).  The front-end models look several names up in the environment of one request, each time
   through env_map of the SAME list value: the extracted env_map keeps the last (argument, result) pair and returns the result again when
   it is called with the physically identical argument (an immutable value), otherwise it calls env_map_build.  Same function,
   three to four times fewer table constructions. *)
Extract Constant env_map => "(let last = ref None in fun e -> match !last with Some (e0, m) when e0 == e -> m | _ -> let m = env_map_build e in last := Some (e, m); m)".
Extraction "c02m.ml" keep_types http_run scgi_run fcgi_run atoll atoi is_multipart scgi_unterminated_class
  env_map_build smap_empty smap_add smap_get smap_get_safe smap_clear smap_iter smap_hash cap total chain slots spec_get grow_needed
  pool0 padd pclear pages cur free.
