(* C02 -- the CGI variables of a request live in connection::pool_ (private/string_map.h, class string_pool) and
   connection::env_ (string_map) stores pointers to them: scgi / fastcgi do  key = pool_.add(..); value = pool_.add(..);
   env_.add(key,value)  and every front end resets both together (env_.clear(); pool_.clear()).

   The pool model below is the one of coq/C01/Pool.v (property C01 owns it and checks it against the real string_pool with
   harness/C01_pool.cpp); its definitions are repeated here so that this file does not depend on another property's files:
   pages = capacities of the malloc blocks (head of the list = head of pages_), cur = index, counted from the tail, of the page
   data_ points into, free = free_space_.  An allocation is a handle (page index from the tail, offset, size).

   Proved here: for every sequence of "add a variable" / "reset" operations, every entry that the table can answer a get()
   with or list in a walk (the entries of the insertion order, SMapProofs.v) has its key and its value stored, NUL included,
   in an allocation made after the last reset, which lies inside its page of the current pool, and a reset leaves neither
   entries nor allocations behind (no pointer into a freed page survives). *)
From CppcmsV Require Import Base.Tac C02.SMapDefs C02.SMapProofs.
Local Open Scope N_scope.

Definition page_size : N := 2048.
Record pool := mkpool { pages : list N; cur : nat; free : N }.
Definition pool0 : pool := mkpool [page_size] 0 page_size.      (* constructor: add_page() *)
(* allocate_space(size): (page index from the tail, offset in the page) and the new state; an oversized block
   (size*2 > page_size_) gets a page of its own at the head of the list, data_ / free_space_ untouched *)
Definition alloc (n : N) (p : pool) : (nat * N) * pool :=
  if page_size <? n * 2 then ((length (pages p), 0), mkpool (n :: pages p) (cur p) (free p))
  else if free p <? n then ((length (pages p), 0), mkpool (page_size :: pages p) (length (pages p)) (page_size - n))
  else ((cur p, page_size - free p), mkpool (pages p) (cur p) (free p - n)).
(* clear(): free every page but the last of the list; data_ = its data; free_space_ = page_size_ *)
Definition pclear (p : pool) : pool := mkpool [last (pages p) page_size] 0 page_size.
Definition cap_of (i : nat) (p : pool) : N := nth i (rev (pages p)) 0.

(* an allocation: page, offset, size *)
Definition handle := (nat * N * N)%type.
Definition in_page (h : handle) (p : pool) : Prop :=
  let '(i, off, n) := h in (i < length (pages p))%nat /\ off + n <= cap_of i p.
(* string_pool::add of a C string = add_bounded_string: allocate_space(size + 1), copy, terminate *)
Definition padd (s : list N) (p : pool) : handle * pool :=
  let n := N.of_nat (length s) + 1 in
  let '((i, off), p') := alloc n p in ((i, off, n), p').

(* the environment of a connection: the pool, the strings stored in it since the last reset with their handles, the table *)
Record cenv := mkcenv { e_pool : pool; e_live : list (handle * list N); e_ops : list sop }.
Inductive eop := EVar (k v : list N) | EReset.
Definition cenv0 : cenv := mkcenv pool0 [] [].
Definition estep (c : cenv) (o : eop) : cenv :=
  match o with
  | EVar k v =>
      let '(hk, p1) := padd k (e_pool c) in
      let '(hv, p2) := padd v p1 in
      mkcenv p2 (e_live c ++ [(hk, k); (hv, v)]) (e_ops c ++ [SAdd k v])
  | EReset => mkcenv (pclear (e_pool c)) [] (e_ops c ++ [SClear])
  end.
Definition erun (ops : list eop) : cenv := fold_left estep ops cenv0.

(* ------------------------------------------------------------------ pool invariant (as in C01/PoolProofs.v) *)
Definition pinv (p : pool) : Prop :=
  pages p <> [] /\ last (pages p) page_size = page_size /\ (cur p < length (pages p))%nat /\
  cap_of (cur p) p = page_size /\ free p <= page_size.
Lemma pinv0 : pinv pool0.
Proof. unfold pinv, pool0, cap_of. cbn. repeat split; try lia; discriminate. Qed.
Lemma last_cons_ne {A} (x : A) l d : l <> [] -> last (x :: l) d = last l d.
Proof. destruct l; [congruence|reflexivity]. Qed.
Lemma nth_rev_cons_old {A} (x : A) l i d : (i < length l)%nat -> nth i (rev (x :: l)) d = nth i (rev l) d.
Proof. intros H. cbn [rev]. rewrite app_nth1 by (rewrite rev_length; exact H). reflexivity. Qed.
Lemma nth_rev_cons_new {A} (x : A) l d : nth (length l) (rev (x :: l)) d = x.
Proof. cbn [rev]. rewrite app_nth2 by (rewrite rev_length; lia). rewrite rev_length, Nat.sub_diag. reflexivity. Qed.
Lemma pclear_inv p : pinv p -> pinv (pclear p).
Proof.
  intros (NE & L & _). unfold pinv, pclear, cap_of. cbn [pages cur free last rev app nth length].
  rewrite L. repeat split; try lia; discriminate.
Qed.
Lemma alloc_inv n p : pinv p ->
  let '((i, off), p') := alloc n p in pinv p' /\ off + n <= cap_of i p' /\ (i < length (pages p'))%nat.
Proof.
  intros (NE & L & C & K & F). unfold alloc.
  destruct (N.ltb_spec page_size (n * 2)) as [B|B].
  - unfold pinv, cap_of in *. cbn [pages cur free].
    rewrite (last_cons_ne n _ _ NE), (nth_rev_cons_old n _ _ _ C), nth_rev_cons_new. cbn [length].
    repeat split; try assumption; try lia; discriminate.
  - destruct (N.ltb_spec (free p) n) as [G|G].
    + unfold pinv, cap_of in *. cbn [pages cur free].
      rewrite (last_cons_ne page_size _ _ NE), nth_rev_cons_new. cbn [length].
      unfold page_size in *. repeat split; try assumption; try lia; discriminate.
    + unfold pinv, cap_of in *. cbn [pages cur free]. rewrite K.
      repeat split; try assumption; lia.
Qed.
(* a live page keeps its capacity, and pages are only added, until the next clear() *)
Lemma alloc_keeps n p h : pinv p -> in_page h p -> in_page h (snd (alloc n p)).
Proof.
  intros (NE & L & C & K & F). destruct h as [[i off] m]. unfold in_page, alloc, cap_of. intros [J B].
  destruct (page_size <? n * 2).
  - cbn [snd pages length]. rewrite nth_rev_cons_old by exact J. split; [lia|exact B].
  - destruct (free p <? n); cbn [snd pages length].
    + rewrite nth_rev_cons_old by exact J. split; [lia|exact B].
    + split; assumption.
Qed.
Lemma padd_spec s p : pinv p ->
  let '(h, p') := padd s p in pinv p' /\ in_page h p' /\ snd h = N.of_nat (length s) + 1 /\ (forall h0, in_page h0 p -> in_page h0 p').
Proof.
  intros I. unfold padd. pose proof (alloc_inv (N.of_nat (length s) + 1) p I) as A.
  pose proof (fun h0 => alloc_keeps (N.of_nat (length s) + 1) p h0 I) as Kp.
  destruct (alloc (N.of_nat (length s) + 1) p) as [[i off] p'] eqn:E. destruct A as (I' & B & J).
  cbn [snd] in Kp. split; [exact I'|]. split; [unfold in_page; split; assumption|]. split; [reflexivity|exact Kp].
Qed.

(* ------------------------------------------------------------------ the invariant of the environment *)
Definition stored (c : cenv) (s : list N) : Prop :=
  exists h, In (h, s) (e_live c) /\ in_page h (e_pool c) /\ snd h = N.of_nat (length s) + 1.
(* membership in the insertion order of the table as a function of the history: the adds since the last clear *)
Fixpoint since_clear (ops : list sop) (acc : list entry) : list entry :=
  match ops with
  | [] => acc
  | SAdd k v :: r => since_clear r (acc ++ [entry_of k v])
  | SClear :: r => since_clear r []
  end.
Lemma spec_run_members ops : forall size order acc, (forall e, In e order <-> In e acc) ->
  forall e, In e (snd (spec_run ops size order)) <-> In e (since_clear ops acc).
Proof.
  induction ops as [|o ops IH]; intros size order acc H e; [cbn [spec_run since_clear snd]; apply H|].
  destruct o as [k v|]; cbn [spec_run since_clear].
  - destruct (grow_needed (length order) size); apply IH; intros e0; rewrite !in_app_iff; try rewrite <- in_rev; rewrite H; tauto.
  - apply IH. intros e0. tauto.
Qed.
Lemma since_clear_app ops1 : forall ops2 acc, since_clear (ops1 ++ ops2) acc = since_clear ops2 (since_clear ops1 acc).
Proof. induction ops1 as [|o r IH]; intros ops2 acc; [reflexivity|]. destruct o; cbn [app since_clear]; apply IH. Qed.

Definition good (c : cenv) : Prop :=
  pinv (e_pool c) /\
  (forall h s, In (h, s) (e_live c) -> in_page h (e_pool c) /\ snd h = N.of_nat (length s) + 1) /\
  (forall e, In e (since_clear (e_ops c) []) -> (exists h, In (h, ekey e) (e_live c)) /\ (exists h, In (h, evalue e) (e_live c))).
Lemma good0 : good cenv0.
Proof. unfold good, cenv0. cbn. repeat split; try apply pinv0; try contradiction. Qed.
Lemma estep_good c o : good c -> good (estep c o).
Proof.
  intros (I & L & M). destruct o as [k v|]; cbn [estep].
  - pose proof (padd_spec k (e_pool c) I) as A. destruct (padd k (e_pool c)) as [hk p1]. destruct A as (I1 & B1 & S1 & K1).
    pose proof (padd_spec v p1 I1) as A. destruct (padd v p1) as [hv p2]. destruct A as (I2 & B2 & S2 & K2).
    unfold good. cbn [e_pool e_live e_ops]. split; [exact I2|]. split.
    + intros h s Hin. apply in_app_iff in Hin. destruct Hin as [Hin|Hin].
      * destruct (L h s Hin) as [P Q]. split; [apply K2, K1, P|exact Q].
      * cbn [In] in Hin. destruct Hin as [E|[E|[]]]; inversion E; subst; split; auto.
    + intros e. rewrite since_clear_app. cbn [since_clear]. rewrite in_app_iff. intros [Hin|Hin].
      * destruct (M e Hin) as [[h1 P1] [h2 P2]]. split; [exists h1|exists h2]; apply in_app_iff; left; assumption.
      * cbn [In] in Hin. destruct Hin as [E|[]]. subst e. unfold entry_of. cbn [ekey evalue].
        split; [exists hk|exists hv]; apply in_app_iff; right; cbn [In]; auto.
  - unfold good. cbn [e_pool e_live e_ops]. split; [apply pclear_inv; exact I|]. split; [intros h s []|].
    intros e. rewrite since_clear_app. cbn [since_clear]. intros [].
Qed.
Lemma erun_good ops : good (erun ops).
Proof.
  unfold erun. assert (G : forall c, good c -> good (fold_left estep ops c)).
  { induction ops as [|o r IH]; intros c Gc; [exact Gc|]. cbn [fold_left]. apply IH. apply estep_good. exact Gc. }
  apply G. exact good0.
Qed.

(* every entry of the table (spec order: what get() answers with and what a walk lists, SMapProofs.v smap_get_spec /
   smap_iter_spec) has its key and its value stored in a live allocation of the current pool, inside its page, NUL included *)
Theorem env_entries_live_in_pool ops e :
  In e (snd (spec_run (e_ops (erun ops)) initial_cap [])) ->
  stored (erun ops) (ekey e) /\ stored (erun ops) (evalue e).
Proof.
  intros Hin. destruct (erun_good ops) as (I & L & M).
  apply (spec_run_members (e_ops (erun ops)) initial_cap [] []) in Hin; [|tauto].
  destruct (M e Hin) as [[h1 P1] [h2 P2]].
  split; [exists h1|exists h2]; (split; [assumption|apply L; assumption]).
Qed.
(* a reset leaves nothing behind: no entry, no allocation, the pool is the initial one-page pool *)
Theorem env_reset_is_fresh ops :
  let c := erun (ops ++ [EReset]) in
  e_live c = [] /\ e_pool c = pool0 /\ snd (spec_run (e_ops c) initial_cap []) = [] /\ smap_run (e_ops c) smap_empty = Some smap_empty.
Proof.
  cbn zeta. unfold erun. rewrite fold_left_app. cbn [fold_left estep]. fold (erun ops).
  destruct (erun_good ops) as ((NE & Lp & _) & _ & _). cbn [e_live e_pool e_ops].
  split; [reflexivity|]. split; [unfold pclear, pool0; rewrite Lp; reflexivity|].
  assert (S1 : forall o size order, snd (spec_run (o ++ [SClear]) size order) = []).
  { induction o as [|x r IH]; intros size order; [reflexivity|]. destruct x; cbn [app spec_run]; [destruct (grow_needed _ _)|]; apply IH. }
  split; [apply S1|].
  assert (S2 : forall o m, smap_run o m <> None -> smap_run (o ++ [SClear]) m = Some smap_empty).
  { induction o as [|x r IH]; intros m Hm; [reflexivity|]. destruct x as [k v|]; cbn [app smap_run] in *.
    - destruct (smap_add m k v); [apply IH; exact Hm|congruence].
    - apply IH. exact Hm. }
  apply S2. destruct (smap_run_total (e_ops (erun ops))) as [m Hm]. rewrite Hm. discriminate.
Qed.
Print Assumptions env_entries_live_in_pool.
Print Assumptions env_reset_is_fresh.
