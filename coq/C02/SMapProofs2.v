(* C02 -- string_map: why the load factor matters.  GHang of the model stands for a loop of the code that does not end:
   on a table without an empty slot the while loop of get() never stops for a name that is not in the table, whatever the
   number of steps it is given.  (This is what a growth test that lets the table fill up, e.g. total_ >= data_.size(),
   leads to after exactly 64 adds.) *)
From CppcmsV Require Import Base.Tac C02.SMapDefs.

Lemma full_table_get_never_ends : forall fuel d h k pos,
  (forall p, p < length d -> exists e, slot d p = Some e /\ entry_matches e h k = false) ->
  pos < length d -> get_loop fuel d h k pos = GHang.
Proof.
  induction fuel as [|f IH]; intros d h k pos Full Hp; [reflexivity|].
  cbn [get_loop]. destruct (Full pos Hp) as (e & Se & Me). rewrite Se, Me.
  apply IH; [exact Full|]. unfold next_pos. apply Nat.mod_upper_bound. lia.
Qed.

(* inserting n entries one after the other, without any growth *)
Fixpoint insert_all (d : table) (es : list entry) : option table :=
  match es with
  | [] => Some d
  | e :: r => match insert d e with Some (d', _) => insert_all d' r | None => None end
  end.

(* ------------------------------------------------------------------ the environment of a request (Defs.v: env_get) *)
From CppcmsV Require Import C02.SMapProofs.
Lemma env_map_run e : smap_run (map (fun kv => SAdd (fst kv) (snd kv)) e) smap_empty = Some (env_map e).
Proof.
  unfold env_map, env_map_build. destruct (smap_run_total (map (fun kv => SAdd (fst kv) (snd kv)) e)) as [m H]. rewrite H. reflexivity.
Qed.
(* every look-up in the environment of every request ends, whatever the number and the names of its variables *)
Lemma env_lookup_ends e k : smap_get (env_map e) k <> GHang.
Proof. apply (smap_get_terminates _ _ k (env_map_run e)). Qed.
Lemma env_lookup_spec e k : smap_get (env_map e) k = spec_get (map (fun kv => SAdd (fst kv) (snd kv)) e) k.
Proof. apply (smap_get_spec _ _ k (env_map_run e)). Qed.
(* the association list in which the first pair of a name wins (the environment model of the earlier rounds) *)
Fixpoint alist_get (e : list (list N * list N)) (k : list N) : option (list N) :=
  match e with
  | (n, v) :: t => if beq_key n k then Some v else alist_get t k
  | [] => None
  end.
Lemma order_find_map e k :
  order_find (map (fun kv => entry_of (fst kv) (snd kv)) e) k = match alist_get e k with Some v => GFound v | None => GAbsent end.
Proof.
  unfold order_find. induction e as [|[n v] e IH]; [reflexivity|].
  cbn [map find fst snd alist_get entry_of ekey]. unfold entry_of at 1. cbn [ekey].
  destruct (beq_key n k); [reflexivity|exact IH].
Qed.
(* up to 32 variables the table IS that association list *)
Lemma env_lookup_small e k : length e <= 32 ->
  smap_get (env_map e) k = match alist_get e k with Some v => GFound v | None => GAbsent end.
Proof.
  intros H. rewrite env_lookup_spec. unfold spec_get. fold (adds_of e).
  rewrite (spec_run_small e []) by (cbn [length]; lia). cbn [snd app]. apply order_find_map.
Qed.

(* ------------------------------------------------------------------ the property the oracles evaluate on the implementation
   (checks/C02.py: smap_oracle, env_oracle), proved of the model: a look-up answers with a value that was added for exactly that
   name since the last clear, and answers "absent" only if the name was not added since the last clear *)
From CppcmsV Require Import C02.SPool.
Lemma find_some_in {A} (f : A -> bool) l x : find f l = Some x -> In x l /\ f x = true.
Proof. apply find_some. Qed.
Lemma get_found_was_added ops m k v : smap_run ops smap_empty = Some m -> smap_get m k = GFound v ->
  exists e, In e (since_clear ops []) /\ ekey e = k /\ evalue e = v.
Proof.
  intros Hr Hg. rewrite (smap_get_spec ops m k Hr) in Hg. unfold spec_get, order_find in Hg.
  destruct (find (fun e => beq_key (ekey e) k) (snd (spec_run ops initial_cap []))) as [e|] eqn:F; [|discriminate].
  apply find_some_in in F. destruct F as [Hin Hk]. apply beq_key_eq in Hk. inversion Hg; subst.
  exists e. split; [|split; reflexivity].
  apply (spec_run_members ops initial_cap [] []); [tauto|exact Hin].
Qed.
Lemma get_absent_not_added ops m k : smap_run ops smap_empty = Some m -> smap_get m k = GAbsent ->
  forall e, In e (since_clear ops []) -> ekey e <> k.
Proof.
  intros Hr Hg e Hin Hk. rewrite (smap_get_spec ops m k Hr) in Hg. unfold spec_get, order_find in Hg.
  destruct (find (fun e => beq_key (ekey e) k) (snd (spec_run ops initial_cap []))) as [e0|] eqn:F; [discriminate|].
  apply (spec_run_members ops initial_cap [] []) in Hin; [|tauto].
  pose proof (find_none _ _ F e Hin) as N. cbv beta in N.
  assert (T : beq_key (ekey e) k = true) by (apply beq_key_eq; exact Hk). congruence.
Qed.
