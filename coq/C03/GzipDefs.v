(* C03 -- executable model of details::gzip_buf (src/http_response.cpp), definitions only.
   zlib is external: the z_stream state, one complete do { deflate } while(avail_out == 0) loop of gzip_buf::do_write
   and the decompressor are Section variables.  The downstream streambuf (copy_buf or the output device: out_) is a
   Section variable too, characterised in ProofsGzip.v by what it has received so far; it is instantiated there with
   the device model of Defs.v.
   Transcribed: open (buffer_size < 256 -> 256), the inherited libstdc++ basic_streambuf::xsputn / sputc driving
   overflow, overflow (deflate the put area with Z_NO_FLUSH, then store the character), sync (Z_SYNC_FLUSH, also for an
   empty put area, then out_->pubsync()), do_write (n == 0 and Z_NO_FLUSH: nothing), close (Z_FINISH once, opened_ =
   false).  Not modelled: a failing downstream sputn (out_ = 0). *)
From Coq Require Import NArith List Bool.
From CppcmsV Require Import C03.Defs.
Import ListNotations.
Local Open Scope N_scope.

Definition Z_NO_FLUSH : N := 0.
Definition Z_SYNC_FLUSH : N := 2.
Definition Z_FINISH : N := 4.

Section Gzip.
  Variable ZS : Type.                                   (* z_stream *)
  Variable zdef : ZS -> bytes -> N -> ZS * list bytes.   (* one do_write loop: input, flush flag -> pieces handed to out_->sputn *)
  Variable S : Type.                                    (* the downstream streambuf chain *)
  Variable sink_put : S -> bytes -> S.                  (* out_->sputn *)
  Variable sink_sync : S -> S.                          (* out_->pubsync *)

  Record gz := mkGz { g_opened : bool; g_cap : N; g_in : bytes; g_z : ZS }.

  Definition gz_open (z0 : ZS) (buffer_size : N) : gz := mkGz true (if buffer_size <? 256 then 256 else buffer_size) [] z0.

  Fixpoint put_pieces (s : S) (ps : list bytes) : S :=
    match ps with [] => s | p :: r => put_pieces (sink_put s p) r end.

  (* do_write(p, n, flush_flag) with out_ set and opened_ *)
  Definition gz_do_write (g : gz) (s : S) (inp : bytes) (flag : N) : gz * S :=
    if negb (g_opened g) then (g, s)
    else if (lenN inp =? 0) && (flag =? Z_NO_FLUSH) then (g, s)
    else let (z1, ps) := zdef (g_z g) inp flag in
         let s1 := put_pieces s ps in
         (mkGz (g_opened g) (g_cap g) (g_in g) z1, if flag =? Z_SYNC_FLUSH then sink_sync s1 else s1).

  (* overflow(c) *)
  Definition gz_overflow (g : gz) (s : S) (ch : option N) : gz * S :=
    let (g1, s1) := match g_in g with [] => (g, s) | inp => gz_do_write g s inp Z_NO_FLUSH end in
    (mkGz (g_opened g1) (g_cap g1) (match ch with Some x => [x] | None => [] end) (g_z g1), s1).

  Definition gz_sputc (g : gz) (s : S) (ch : N) : gz * S :=
    if lenN (g_in g) <? g_cap g then (mkGz (g_opened g) (g_cap g) (g_in g ++ [ch]) (g_z g), s)
    else gz_overflow g s (Some ch).

  (* libstdc++ basic_streambuf::xsputn: fill the put area, overflow(next character), repeat *)
  Fixpoint gz_xsputn (fuel : nat) (g : gz) (s : S) (data : bytes) : gz * S :=
    match fuel with
    | O => (g, s)
    | Datatypes.S f =>
      let k := N.min (g_cap g - lenN (g_in g)) (lenN data) in
      let g1 := mkGz (g_opened g) (g_cap g) (g_in g ++ takeN k data) (g_z g) in
      match dropN k data with
      | [] => (g1, s)
      | x :: r => let (g2, s2) := gz_overflow g1 s (Some x) in gz_xsputn f g2 s2 r
      end
    end.

  Definition gz_sync (g : gz) (s : S) : gz * S :=
    let (g1, s1) := gz_do_write g s (g_in g) Z_SYNC_FLUSH in
    (mkGz (g_opened g1) (g_cap g1) [] (g_z g1), s1).

  Definition gz_close (g : gz) (s : S) : gz * S :=
    if negb (g_opened g) then (g, s)
    else let (g1, s1) := gz_do_write g s (g_in g) Z_FINISH in
         (mkGz false (g_cap g1) [] (g_z g1), s1).

  Inductive gop := GWrite (d : bytes) | GPut (x : N) | GSync.
  Definition gstep (g : gz) (s : S) (o : gop) : gz * S :=
    match o with
    | GWrite d => gz_xsputn (Datatypes.S (length d)) g s d
    | GPut x => gz_sputc g s x
    | GSync => gz_sync g s
    end.
  Fixpoint grun (g : gz) (s : S) (ops : list gop) : gz * S :=
    match ops with [] => (g, s) | o :: t => let (g1, s1) := gstep g s o in grun g1 s1 t end.
  Definition gbytes (o : gop) : bytes := match o with GWrite d => d | GPut x => [x] | GSync => [] end.

  (* the sequence of deflate loops seen by zlib: (input, flag) *)
  Fixpoint zrun (z : ZS) (calls : list (bytes * N)) : ZS * list bytes :=
    match calls with
    | [] => (z, [])
    | (i, f) :: t => let (z1, ps) := zdef z i f in let (z2, rest) := zrun z1 t in (z2, ps ++ rest)
    end.
End Gzip.
