(* C03 proofs, part 6: composition.  A whole request (response script -> copy_buf -> device -> connection ->
   socket with an arbitrary accept schedule): the wire carries the ideal stream of the trace, the trace carries
   exactly the bytes the script wrote, eof exactly once. *)
From CppcmsV Require Import Base.Tac C03.Defs C03.Proofs C03.Proofs2 C03.Proofs3 C03.Proofs4 C03.Proofs5.
Local Open Scope N_scope.

(* ---------------------------------------------------------------- stream over an extended trace *)
Lemma stream_app : forall t1 t2 f, stream f (t1 ++ t2) = stream f t1 ++ stream (fmt_after f t1) t2.
Proof.
  induction t1 as [|[g e] t1 IH]; intros t2 f; [reflexivity|].
  cbn [app stream fmt_after]. destruct (format_output f g e) as [[f1 nd] er]. now rewrite IH, app_assoc.
Qed.
Lemma fmt_after_app : forall t1 t2 f, fmt_after f (t1 ++ t2) = fmt_after (fmt_after f t1) t2.
Proof.
  induction t1 as [|[g e] t1 IH]; intros t2 f; [reflexivity|].
  cbn [app fmt_after]. destruct (format_output f g e) as [[f1 nd] er]. apply IH.
Qed.

(* the connection invariant: (unless an error was signalled) committed stream = ideal stream of the trace *)
Definition J (f0 : fmt) (c : conn) : Prop :=
  k_err c = false -> sent c = stream f0 (k_trace c) /\ k_fmt c = fmt_after f0 (k_trace c).
(* c' is reachable from c by connection writes only *)
Definition Jp (c c' : conn) : Prop := (forall f0, J f0 c -> J f0 c') /\ (k_err c = true -> k_err c' = true).

Lemma Jp_refl c : Jp c c.
Proof. split; auto. Qed.
Lemma Jp_trans a b c : Jp a b -> Jp b c -> Jp a c.
Proof. intros [H1 E1] [H2 E2]. split; auto. Qed.

Lemma Jp_cstep c o : Jp c (cstep c o).
Proof.
  split; [|apply cstep_err_sticky].
  intros f0 HJ Hok.
  assert (He : k_err c = false).
  { destruct (k_err c) eqn:E; [|reflexivity]. rewrite (cstep_err_sticky c o E) in Hok. discriminate. }
  destruct (HJ He) as [Hs Hf].
  pose proof (cstep_spec c o Hok) as HS. destruct (cop_entry o) as [g e] eqn:EO. cbn [fst snd] in HS.
  rewrite Hf in HS.
  destruct (format_output (fmt_after f0 (k_trace c)) g e) as [[f1 nd] er] eqn:EF.
  destruct HS as (A & B & C & _). rewrite A, B, C, Hs, stream_app, fmt_after_app.
  cbn [stream fmt_after]. rewrite EF. now rewrite app_nil_r.
Qed.

Lemma do_write_cstep d c g eof : do_write d c g eof = cstep c (if d_async d then CNb g eof else CBl g eof).
Proof. unfold do_write. destruct (d_async d); reflexivity. Qed.
Lemma Jp_do_write d c g eof : Jp c (do_write d c g eof).
Proof. rewrite do_write_cstep. apply Jp_cstep. Qed.
Lemma Jp_async_write c g eof : Jp c (async_write c g eof).
Proof. apply (Jp_cstep c (CAs g eof)). Qed.

Lemma Jp_dev_write d c g : Jp c (snd (dev_write d c g)).
Proof. unfold dev_write. cbn [snd]. apply Jp_do_write. Qed.

Ltac jp_write :=
  match goal with
  | |- context[dev_write ?d ?c ?g] =>
      let H := fresh "H" in pose proof (Jp_dev_write d c g) as H; destruct (dev_write d c g); cbn [fst snd] in *; exact H
  end.

Lemma Jp_dev_xsputn d c s : Jp c (snd (dev_xsputn d c s)).
Proof.
  unfold dev_xsputn. destruct (d_full d).
  - destruct (_ <? _); apply Jp_refl.
  - destruct (_ <=? _); [apply Jp_refl|]. jp_write.
Qed.
Lemma Jp_dev_overflow d c ch : Jp c (snd (dev_overflow d c ch)).
Proof. unfold dev_overflow. destruct (d_full d); [apply Jp_refl|]. jp_write. Qed.
Lemma Jp_dev_sputc d c ch : Jp c (snd (dev_sputc d c ch)).
Proof. unfold dev_sputc. destruct (_ <? _); [apply Jp_refl|apply Jp_dev_overflow]. Qed.
Lemma Jp_dev_sync d c : Jp c (snd (dev_sync d c)).
Proof. apply Jp_dev_overflow. Qed.
Lemma Jp_dev_flush d c : Jp c (snd (dev_flush d c)).
Proof. unfold dev_flush. jp_write. Qed.
Lemma Jp_basic_setbuf d c n : Jp c (snd (basic_setbuf d c n)).
Proof.
  unfold basic_setbuf. destruct (_ <? _); [|apply Jp_refl].
  pose proof (Jp_dev_flush (set_cap d n) c) as H. destruct (dev_flush (set_cap d n) c). exact H.
Qed.
Lemma Jp_dev_setbuf d c n : Jp c (snd (dev_setbuf d c n)).
Proof. unfold dev_setbuf. destruct (d_full d); [apply Jp_refl|apply Jp_basic_setbuf]. Qed.
Lemma Jp_dev_full d c b : Jp c (snd (dev_full d c b)).
Proof.
  unfold dev_full. destruct (Bool.eqb _ _); [apply Jp_refl|]. destruct b; [apply Jp_refl|apply Jp_basic_setbuf].
Qed.
Lemma Jp_dev_close d c : Jp c (snd (dev_close d c)).
Proof. unfold dev_close. destruct (d_eofsent d); [apply Jp_refl|apply Jp_dev_flush]. Qed.
Lemma Jp_async_write_response d c : Jp c (snd (async_write_response d c)).
Proof.
  unfold async_write_response. pose proof (Jp_dev_flush d c) as H. destruct (dev_flush d c) as [d1 c1]. cbn [snd] in H.
  destruct (k_pending c1); [exact H|]. destruct (k_err c1); [exact H|].
  cbn [snd]. eapply Jp_trans; [exact H|apply Jp_async_write].
Qed.

(* ---------------------------------------------------------------- side conditions carried along *)
Definition side (d : dev) (c : conn) (d' : dev) (c' : conn) : Prop :=
  ok d' /\ d_async d' = d_async d /\ d_final d' = d_final d /\
  (d_final d = false -> d_eofsent d = false -> d_eofsent d' = false) /\
  (d_final d = false -> exists k, eofs c' = eofs c ++ repeat false k).

Lemma side_refl d c : ok d -> side d c d c.
Proof. intros H. unfold side. repeat split; auto. intros _. exists 0%nat. cbn. now rewrite app_nil_r. Qed.
Lemma side_trans d c d1 c1 d2 c2 : side d c d1 c1 -> side d1 c1 d2 c2 -> side d c d2 c2.
Proof.
  intros (O1 & A1 & F1 & E1 & T1) (O2 & A2 & F2 & E2 & T2). unfold side. repeat split; try congruence.
  - intros Hf He. apply E2; [congruence|]. now apply E1.
  - intros Hf. destruct (T1 Hf) as [k1 H1]. rewrite <- F1 in Hf. destruct (T2 Hf) as [k2 H2].
    exists (k1 + k2)%nat. rewrite H2, H1, <- app_assoc, repeat_app. reflexivity.
Qed.
Lemma conserves_side d c r s : conserves d c r s -> side d c (fst r) (snd r).
Proof.
  intros (_ & O & A & F & E & T). unfold side. repeat split; auto.
  intros Hf He. destruct (E Hf) as [H|H]; congruence.
Qed.
Lemma conserves_data d c r s : conserves d c r s -> tr (snd r) ++ d_buf (fst r) = tr c ++ d_buf d ++ s.
Proof. intros (H & _). exact H. Qed.

Lemma async_write_trace c g e : k_trace (async_write c g e) = k_trace c ++ [(g, e)].
Proof.
  unfold async_write. pose proof (nonblocking_write_trace (add_trace c g e) g e) as H.
  destruct (nonblocking_write (add_trace c g e) g e) as [c1 done]. cbn [fst] in H. destruct done; [exact H|].
  pose proof (handler_loop_spec (S (S (length (k_sched c1)))) (set_pending c1 []) (k_pending c1) eq_refl) as HL.
  cbn [k_sched set_pending] in HL. specialize (HL ltac:(lia)). cbv zeta in HL.
  destruct HL as (_ & _ & _ & _ & E). rewrite E. exact H.
Qed.

(* ---------------------------------------------------------------- copy_buf over the device *)
Definition cons3 (y : cpy) (d : dev) (c : conn) (r : cpy * dev * conn) (s : bytes) : Prop :=
  let '(y', d', c') := r in
  tr c' ++ d_buf d' ++ c_unsent y' = tr c ++ d_buf d ++ c_unsent y ++ s /\ side d c d' c' /\ Jp c c' /\
  c_all y' = c_all y ++ s.

Lemma cpy_overflow_cons y d c ch : ok d ->
  cons3 y d c (cpy_overflow y d c ch) (match ch with Some x => [x] | None => [] end).
Proof.
  intros Hok. unfold cpy_overflow.
  assert (H1 : let r := match c_unsent y with [] => (d, c) | u => dev_xsputn d c u end in
               tr (snd r) ++ d_buf (fst r) = tr c ++ d_buf d ++ c_unsent y /\ side d c (fst r) (snd r) /\ Jp c (snd r)).
  { destruct (c_unsent y) as [|u0 u] eqn:EU; cbv zeta.
    - cbn [fst snd]. rewrite app_nil_r. split; [reflexivity|]. split; [now apply side_refl|apply Jp_refl].
    - pose proof (dev_xsputn_spec d c (u0 :: u) Hok) as HC.
      split; [exact (conserves_data _ _ _ _ HC)|]. split; [exact (conserves_side _ _ _ _ HC)|apply Jp_dev_xsputn]. }
  cbv zeta in H1.
  destruct (match c_unsent y with [] => (d, c) | u => dev_xsputn d c u end) as [d1 c1]. cbn [fst snd] in H1.
  destruct H1 as (A & S & JJ).
  destruct (if c_size y =? 0 then _ else _) as [room size].
  destruct ch as [x|]; unfold cons3; cbn [c_unsent c_all].
  - rewrite app_assoc, A, <- !app_assoc. auto.
  - rewrite !app_nil_r. rewrite A. auto.
Qed.

Lemma cons3_ok y d c y' d' c' s : cons3 y d c (y', d', c') s -> ok d'.
Proof. intros (_ & (O & _) & _). exact O. Qed.

Lemma cons3_trans y d c y1 d1 c1 r2 s1 s2 :
  cons3 y d c (y1, d1, c1) s1 -> cons3 y1 d1 c1 r2 s2 -> cons3 y d c r2 (s1 ++ s2).
Proof.
  destruct r2 as [[y2 d2] c2]. intros (A1 & S1 & J1 & L1) (A2 & S2 & J2 & L2). unfold cons3.
  rewrite A2, L2, L1. rewrite app_assoc, app_assoc, <- (app_assoc (tr c1)), A1, <- !app_assoc.
  split; [reflexivity|]. split; [eapply side_trans; eassumption|]. split; [eapply Jp_trans; eassumption|reflexivity].
Qed.

Lemma cpy_xsputn_cons : forall fuel y d c s, ok d -> (length s < fuel)%nat -> cons3 y d c (cpy_xsputn fuel y d c s) s.
Proof.
  induction fuel as [|f IH]; intros y d c s Hok Hf; [lia|].
  cbn [cpy_xsputn]. set (k := N.min (c_room y) (lenN s)).
  set (y1 := mkCpy (c_all y ++ takeN k s) (c_unsent y ++ takeN k s) (c_room y - k) (c_size y)).
  assert (H0 : cons3 y d c (y1, d, c) (takeN k s)).
  { unfold cons3, y1. cbn [c_unsent c_all].
    split; [rewrite <- ?app_assoc; reflexivity|]. split; [now apply side_refl|]. split; [apply Jp_refl|reflexivity]. }
  destruct (dropN k s) as [|x r] eqn:ED.
  - assert (E : takeN k s = s) by (rewrite <- (take_drop k s) at 2; rewrite ED; now rewrite app_nil_r).
    rewrite E in H0. exact H0.
  - pose proof (cpy_overflow_cons y1 d c (Some x) Hok) as HO.
    destruct (cpy_overflow y1 d c (Some x)) as [[y2 d2] c2] eqn:EO.
    assert (Hr : (length r < f)%nat).
    { assert (length (dropN k s) <= length s)%nat by (unfold dropN; rewrite skipn_length; lia). rewrite ED in H. cbn in H. lia. }
    pose proof (IH y2 d2 c2 r (cons3_ok _ _ _ _ _ _ _ HO) Hr) as HR.
    assert (Es : s = takeN k s ++ [x] ++ r) by (rewrite <- (take_drop k s) at 1; now rewrite ED).
    assert (HH : cons3 y d c (cpy_xsputn f y2 d2 c2 r) (takeN k s ++ [x] ++ r))
      by (eapply cons3_trans; [exact H0|]; eapply cons3_trans; [exact HO|exact HR]).
    rewrite <- Es in HH. exact HH.
Qed.

Lemma cpy_sputc_cons y d c ch : ok d -> cons3 y d c (cpy_sputc y d c ch) [ch].
Proof.
  intros Hok. unfold cpy_sputc. destruct (0 <? c_room y); [|apply (cpy_overflow_cons y d c (Some ch) Hok)].
  unfold cons3. cbn [c_unsent c_all].
  split; [rewrite <- ?app_assoc; reflexivity|]. split; [now apply side_refl|]. split; [apply Jp_refl|reflexivity].
Qed.

Lemma cpy_sync_cons y d c : ok d -> cons3 y d c (cpy_sync y d c) [].
Proof.
  intros Hok. unfold cpy_sync. pose proof (cpy_overflow_cons y d c None Hok) as HO.
  destruct (cpy_overflow y d c None) as [[y1 d1] c1].
  pose proof (dev_sync_spec d1 c1 (cons3_ok _ _ _ _ _ _ _ HO)) as HS. pose proof (Jp_dev_sync d1 c1) as HJ.
  destruct (dev_sync d1 c1) as [d2 c2]. cbn [fst snd] in *.
  destruct HO as (A1 & S1 & J1 & L1). unfold cons3.
  pose proof (conserves_data _ _ _ _ HS) as A2. pose proof (conserves_side _ _ _ _ HS) as S2. cbn [fst snd] in A2, S2.
  rewrite app_nil_r in A2. rewrite app_assoc, A2, <- app_assoc, A1.
  split; [reflexivity|]. split; [eapply side_trans; eassumption|]. split; [eapply Jp_trans; eassumption|exact L1].
Qed.

(* ---------------------------------------------------------------- the response after out() *)
Definition held (r : resp) : bytes := d_buf (r_dev r) ++ (if r_copy_on r then c_unsent (r_cpy r) else []).
Definition obytes (o : op) : bytes := match o with OWrite s | OPut s => s | _ => [] end.

Record Post (f0 : fmt) (async : bool) (body : bytes) (r : resp) (c : conn) : Prop := mkPost {
  p_out : r_out r = true;
  p_J : J f0 c;
  p_data : tr c ++ held r = body;
  p_ok : ok (r_dev r);
  p_async : d_async (r_dev r) = async;
  p_final : d_final (r_dev r) = false;
  p_eofsent : d_eofsent (r_dev r) = false;
  p_eofs : exists k, eofs c = repeat false k;
  p_copy : r_copy_on r = true -> c_all (r_cpy r) = body }.

(* moving from (r, c) to (set_rdev r y' d', c') given the three-layer conservation *)
Lemma Post_cons3 f0 async body r c y' d' c' s :
  Post f0 async body r c -> r_copy_on r = true ->
  cons3 (r_cpy r) (r_dev r) c (y', d', c') s ->
  Post f0 async (body ++ s) (set_rdev r y' d') c'.
Proof.
  intros [Po PJ Pd Pk Pa Pf Pe [k Pt] Pc] Hc (A & (O & As & F & E & T) & [JJ _] & L).
  constructor; cbn [set_rdev r_out r_dev r_cpy r_copy_on]; try congruence; auto.
  - unfold held. cbn [set_rdev r_dev r_cpy r_copy_on]. rewrite Hc. rewrite A.
    unfold held in Pd. rewrite Hc in Pd. rewrite <- Pd, <- !app_assoc. reflexivity.
  - destruct (T Pf) as [k2 H2]. exists (k + k2)%nat. rewrite H2, Pt, repeat_app. reflexivity.
  - intros _. rewrite L, (Pc Hc). reflexivity.
Qed.

(* device only (no copy_buf in the chain, or an operation that bypasses it) *)
Lemma Post_dev f0 async body r c d' c' s :
  Post f0 async body r c ->
  tr c' ++ d_buf d' = tr c ++ d_buf (r_dev r) ++ s -> side (r_dev r) c d' c' -> Jp c c' ->
  (r_copy_on r = true -> s = []) ->
  Post f0 async (body ++ s) (set_rdev r (r_cpy r) d') c'.
Proof.
  intros [Po PJ Pd Pk Pa Pf Pe [k Pt] Pc] A (O & As & F & E & T) [JJ _] Hs.
  constructor; cbn [set_rdev r_out r_dev r_cpy r_copy_on]; try congruence; auto.
  - unfold held in *. cbn [set_rdev r_dev r_cpy r_copy_on]. destruct (r_copy_on r) eqn:EC.
    + rewrite (Hs eq_refl) in *. rewrite app_nil_r in *. rewrite app_assoc, A, <- Pd, <- !app_assoc. reflexivity.
    + rewrite app_nil_r in *. rewrite A, <- Pd, <- !app_assoc. reflexivity.
  - destruct (T Pf) as [k2 H2]. exists (k + k2)%nat. rewrite H2, Pt, repeat_app. reflexivity.
  - intros Hc. rewrite (Hs Hc), app_nil_r. auto.
Qed.

Lemma Post_conserves f0 async body r c (res : dev * conn) s :
  Post f0 async body r c -> conserves (r_dev r) c res s -> Jp c (snd res) -> (r_copy_on r = true -> s = []) ->
  Post f0 async (body ++ s) (set_rdev r (r_cpy r) (fst res)) (snd res).
Proof.
  intros HP HC HJ Hs. eapply Post_dev; eauto.
  - exact (conserves_data _ _ _ _ HC).
  - exact (conserves_side _ _ _ _ HC).
Qed.

Lemma resp_out_done r c : r_out r = true -> resp_out r c = (r, c).
Proof. intros H. unfold resp_out. now rewrite H. Qed.

(* fields that do not matter for Post *)
Lemma Post_ext f0 async body r r' c :
  Post f0 async body r c -> r_out r' = r_out r -> r_dev r' = r_dev r -> r_cpy r' = r_cpy r -> r_copy_on r' = r_copy_on r ->
  Post f0 async body r' c.
Proof.
  intros [Po PJ Pd Pk Pa Pf Pe Pt Pc] H1 H2 H3 H4.
  constructor; unfold held in *; rewrite ?H1, ?H2, ?H3, ?H4; auto.
Qed.

Lemma put_all_post f0 async : forall s body r c, Post f0 async body r c ->
  let res := put_all resp_putc r c s in Post f0 async (body ++ s) (fst res) (snd res).
Proof.
  induction s as [|x s IH]; intros body r c HP; cbn [put_all].
  - cbn [fst snd]. now rewrite app_nil_r.
  - assert (H1 : let r1 := resp_putc r c x in Post f0 async (body ++ [x]) (fst r1) (snd r1)).
    { unfold resp_putc. destruct (r_copy_on r) eqn:EC.
      - pose proof (cpy_sputc_cons (r_cpy r) (r_dev r) c x (p_ok _ _ _ _ _ HP)) as H.
        destruct (cpy_sputc (r_cpy r) (r_dev r) c x) as [[y d] c1]. cbn [fst snd].
        eapply Post_cons3; eauto.
      - pose proof (dev_sputc_spec (r_dev r) c x (p_ok _ _ _ _ _ HP)) as H. pose proof (Jp_dev_sputc (r_dev r) c x) as HJ.
        destruct (dev_sputc (r_dev r) c x) as [d c1]. cbn [fst snd].
        apply (Post_conserves f0 async body r c (d, c1) [x] HP H HJ). congruence. }
    cbv zeta in H1. destruct (resp_putc r c x) as [r1 c1]. cbn [fst snd] in H1.
    specialize (IH _ _ _ H1). cbv zeta in IH. rewrite <- app_assoc in IH. exact IH.
Qed.

Lemma step_post f0 async body r c o : Post f0 async body r c ->
  let res := step r c o in Post f0 async (body ++ obytes o) (fst res) (snd res).
Proof.
  intros HP. pose proof (p_out _ _ _ _ _ HP) as Ho. pose proof (p_ok _ _ _ _ _ HP) as Hk.
  destruct o; cbn [step obytes]; rewrite ?resp_out_done by exact Ho; cbv zeta.
  - (* OWrite *)
    destruct (r_copy_on r) eqn:EC.
    + pose proof (cpy_xsputn_cons (S (length s)) (r_cpy r) (r_dev r) c s Hk ltac:(lia)) as H.
      destruct (cpy_xsputn _ _ _ _ _) as [[y d] c1]. cbn [fst snd]. eapply Post_cons3; eauto.
    + pose proof (dev_xsputn_spec (r_dev r) c s Hk) as H. pose proof (Jp_dev_xsputn (r_dev r) c s) as HJ.
      destruct (dev_xsputn (r_dev r) c s) as [d c1]. cbn [fst snd].
      apply (Post_conserves f0 async body r c (d, c1) s HP H HJ). congruence.
  - (* OPut *) apply (put_all_post f0 async s body r c HP).
  - (* OFlush *)
    rewrite app_nil_r. destruct (r_copy_on r) eqn:EC.
    + pose proof (cpy_sync_cons (r_cpy r) (r_dev r) c Hk) as H.
      destruct (cpy_sync _ _ _) as [[y d] c1]. cbn [fst snd]. rewrite <- (app_nil_r body). eapply Post_cons3; eauto.
    + pose proof (dev_sync_spec (r_dev r) c Hk) as H. pose proof (Jp_dev_sync (r_dev r) c) as HJ.
      destruct (dev_sync (r_dev r) c) as [d c1]. cbn [fst snd]. rewrite <- (app_nil_r body).
      apply (Post_conserves f0 async body r c (d, c1) [] HP H HJ). reflexivity.
  - (* OSetbuf *)
    rewrite app_nil_r. rewrite Ho.
    set (size := if neg then r_defbuf r else n) in *.
    pose proof (dev_setbuf_spec (r_dev r) c size Hk) as H. pose proof (Jp_dev_setbuf (r_dev r) c size) as HJ.
    destruct (dev_setbuf (r_dev r) c size) as [d c1]. cbn [fst snd].
    set (r1 := mkResp _ _ _ _ _ _ _ _ _).
    assert (HP1 : Post f0 async body r1 c) by (eapply Post_ext; [exact HP|symmetry; exact Ho| | |]; reflexivity).
    rewrite <- (app_nil_r body).
    apply (Post_conserves f0 async body r1 c (d, c1) [] HP1 H HJ). reflexivity.
  - (* OFull *)
    rewrite app_nil_r. destruct (d_async (r_dev r)); [|exact HP].
    pose proof (dev_full_spec (r_dev r) c b Hk) as H. pose proof (Jp_dev_full (r_dev r) c b) as HJ.
    destruct (dev_full (r_dev r) c b) as [d c1]. cbn [fst snd]. rewrite <- (app_nil_r body).
    apply (Post_conserves f0 async body r c (d, c1) [] HP H HJ). reflexivity.
  - (* OHeader *) rewrite app_nil_r. cbn [fst snd]. eapply Post_ext; [exact HP| | | |]; reflexivity.
  - (* OCookie *) rewrite app_nil_r. cbn [fst snd]. eapply Post_ext; [exact HP| | | |]; reflexivity.
  - (* OCopy *) rewrite app_nil_r. cbn [fst snd]. eapply Post_ext; [exact HP| | | |]; reflexivity.
  - (* OAsyncFlush *)
    rewrite app_nil_r. rewrite Ho, andb_true_r. destruct (d_async (r_dev r)) eqn:EA; [|exact HP].
    unfold async_write_response.
    pose proof (conserves_flush (r_dev r) c Hk) as H. pose proof (Jp_dev_flush (r_dev r) c) as HJ.
    destruct (dev_flush (r_dev r) c) as [d1 c1]. cbn [fst snd] in *.
    assert (HP1 : Post f0 async (body ++ []) (set_rdev r (r_cpy r) d1) c1)
      by (apply (Post_conserves f0 async body r c (d1, c1) [] HP H HJ); reflexivity).
    rewrite app_nil_r in HP1.
    destruct (k_pending c1) eqn:EP; [exact HP1|]. destruct (k_err c1) eqn:EE; [exact HP1|].
    cbn [fst snd].
    destruct HP1 as [Po PJ Pd Pk' Pa Pf Pe [k Pt] Pc].
    constructor; auto.
    + destruct (Jp_async_write c1 [] false) as [JJ _]. now apply JJ.
    + rewrite <- Pd. f_equal. unfold tr. rewrite async_write_trace, map_app, concat_app. cbn. now rewrite app_nil_r.
    + exists (k + 1)%nat. unfold eofs in *. rewrite async_write_trace, map_app, Pt, repeat_app. reflexivity.
Qed.

Lemma run_ops_post f0 async : forall ops body r c, Post f0 async body r c ->
  let res := run_ops r c ops in Post f0 async (body ++ concat (map obytes ops)) (fst res) (snd res).
Proof.
  induction ops as [|o t IH]; intros body r c HP; cbn [run_ops map concat].
  - cbn [fst snd]. now rewrite app_nil_r.
  - pose proof (step_post f0 async body r c o HP) as HS. cbv zeta in HS.
    destruct (step r c o) as [r1 c1]. cbn [fst snd] in HS.
    specialize (IH _ _ _ HS). cbv zeta in IH. now rewrite <- app_assoc in IH.
Qed.

(* ---------------------------------------------------------------- finalize + completion *)
Definition all_false (t : list (gather * bool)) : Prop := Forall (fun w => snd w = false) t.
Lemma eofs_all_false c k : eofs c = repeat false k -> all_false (k_trace c).
Proof.
  unfold eofs, all_false. intros H. apply Forall_forall. intros w Hw.
  assert (In (snd w) (map snd (k_trace c))) by (now apply in_map).
  rewrite H in H0. now apply repeat_spec in H0.
Qed.

(* what a completed response looks like at the connection: the trace is  t ++ [(g, true)] ++ empty non-eof writes *)
Record Done (f0 : fmt) (body : bytes) (c : conn) : Prop := mkDone {
  dn_J : J f0 c;
  dn_shape : exists t g k, k_trace c = t ++ [(g, true)] ++ repeat ([], false) k /\ all_false t /\
                           concat (map data_of t) ++ concat g = body;
  dn_pending : k_err c = false -> k_pending c = [] }.

Lemma dev_flush_trace d c : k_trace (snd (dev_flush d c)) = k_trace c ++ [(gadd [] (d_buf d), d_final d && negb (d_eofsent d))].
Proof. unfold dev_flush, dev_write. cbn [snd]. apply do_write_trace. Qed.

Lemma do_write_pending d c g eof : d_async d = false -> k_err (do_write d c g eof) = false -> k_pending (do_write d c g eof) = [].
Proof.
  intros Ha Hok. rewrite do_write_cstep in *. rewrite Ha in *.
  pose proof (cstep_spec c (CBl g eof) Hok) as H. destruct (format_output _ _ _) as [[f1 nd] er]. now destruct H as (_ & _ & _ & P).
Qed.

Lemma tr_data c : tr c = concat (map data_of (k_trace c)).
Proof. reflexivity. Qed.

Lemma finish_done f0 async body r c : Post f0 async body r c ->
  let res := finish r c in
  Done f0 body (snd res) /\ (r_copy_on r = true -> c_all (r_cpy (fst res)) = body).
Proof.
  intros HP. pose proof HP as [Po PJ Pd Pk Pa Pf Pe [k Pt] Pc].
  unfold finish. rewrite (resp_out_done r c Po).
  (* close copy_buf *)
  assert (H1 : exists y d1 c2, (if r_copy_on r then cpy_overflow (r_cpy r) (r_dev r) c None else (r_cpy r, r_dev r, c)) = (y, d1, c2) /\
               Post f0 async body (set_rdev r y d1) c2 /\ (r_copy_on r = true -> c_unsent y = [] /\ c_all y = body)).
  { destruct (r_copy_on r) eqn:EC.
    - pose proof (cpy_overflow_cons (r_cpy r) (r_dev r) c None Pk) as H.
      destruct (cpy_overflow (r_cpy r) (r_dev r) c None) as [[y d1] c2] eqn:EO. exists y, d1, c2. split; [reflexivity|].
      assert (HP2 : Post f0 async (body ++ []) (set_rdev r y d1) c2) by (eapply Post_cons3; eauto).
      rewrite app_nil_r in HP2. split; [exact HP2|]. intros _.
      split.
      + unfold cpy_overflow in EO. destruct (match c_unsent (r_cpy r) with [] => _ | _ => _ end).
        destruct (if c_size (r_cpy r) =? 0 then _ else _). injection EO as <- _ _. reflexivity.
      + destruct H as (_ & _ & _ & L). rewrite L, app_nil_r. now apply Pc.
    - exists (r_cpy r), (r_dev r), c. split; [reflexivity|]. split; [|discriminate].
      eapply Post_ext; [exact HP| | | |]; reflexivity. }
  destruct H1 as (y & d1 & c2 & E1 & HP2 & Hy). rewrite E1.
  destruct HP2 as [Po2 PJ2 Pd2 Pk2 Pa2 Pf2 Pe2 [k2 Pt2] Pc2]. cbn [set_rdev r_dev r_cpy r_copy_on r_out] in *.
  assert (Hheld : tr c2 ++ d_buf d1 = body).
  { unfold held in Pd2. cbn [set_rdev r_dev r_cpy r_copy_on] in Pd2. destruct (r_copy_on r).
    - destruct (Hy eq_refl) as [Hu _]. rewrite Hu, app_nil_r in Pd2. exact Pd2.
    - now rewrite app_nil_r in Pd2. }
  (* close the device *)
  pose proof (dev_close_spec d1 c2 Pk2 Pf2 Pe2) as HC. cbv zeta in HC.
  pose proof (Jp_dev_close d1 c2) as HJC.
  assert (Htr3 : k_trace (snd (dev_close d1 c2)) = k_trace c2 ++ [(gadd [] (d_buf d1), true)]).
  { unfold dev_close. rewrite Pe2. rewrite dev_flush_trace. cbn [set_eof d_buf d_final d_eofsent]. reflexivity. }
  assert (Hpend3 : d_async d1 = false -> k_err (snd (dev_close d1 c2)) = false -> k_pending (snd (dev_close d1 c2)) = []).
  { unfold dev_close. rewrite Pe2. unfold dev_flush, dev_write. cbn [snd]. intros Ha. apply do_write_pending. exact Ha. }
  assert (Has3 : d_async (fst (dev_close d1 c2)) = d_async d1).
  { unfold dev_close. rewrite Pe2. set (d0 := set_eof d1 true false).
    destruct (dev_flush_spec d0 c2 Pk2) as (_ & _ & _ & _ & _ & A & _). exact A. }
  destruct (dev_close d1 c2) as [d2 c3]. cbn [fst snd] in *.
  destruct HC as (A3 & B3 & X3 & Es3 & Ef3 & _).
  assert (HJ3 : J f0 c3) by (destruct HJC as [JJ _]; now apply JJ).
  assert (Hshape3 : all_false (k_trace c2) /\ concat (map data_of (k_trace c2)) ++ concat (gadd [] (d_buf d1)) = body).
  { split; [eapply eofs_all_false; exact Pt2|]. rewrite gadd_concat. cbn [concat app]. rewrite <- tr_data. exact Hheld. }
  destruct Hshape3 as [Haf Hbody].
  assert (HD : Done f0 body (snd (if d_async d2 then async_write_response d2 c3 else (d2, c3)))); cycle 1.
  { destruct (if d_async d2 then async_write_response d2 c3 else (d2, c3)) as [d3 c4]. cbn [fst snd set_rdev r_cpy] in *.
    split; [exact HD|intros Hc; now destruct (Hy Hc)]. }
  destruct (d_async d2) eqn:EA.
  - (* asynchronous completion: async_write_response *)
    unfold async_write_response.
    assert (Ok2 : ok d2) by (unfold ok; rewrite B3; cbn; lia).
    pose proof (dev_flush_trace d2 c3) as HT4. pose proof (Jp_dev_flush d2 c3) as HJ4.
    rewrite B3, Ef3, Es3 in HT4. cbn [andb negb gadd] in HT4.
    destruct (dev_flush d2 c3) as [d3 c4]. cbn [fst snd] in *.
    assert (HJc4 : J f0 c4) by (destruct HJ4 as [JJ _]; now apply JJ).
    destruct (k_pending c4) eqn:EP.
    + cbn [snd]. constructor; [exact HJc4| |intros _; exact EP].
      exists (k_trace c2), (gadd [] (d_buf d1)), 1%nat. rewrite HT4, Htr3, <- app_assoc. auto.
    + destruct (k_err c4) eqn:EE.
      * cbn [snd]. constructor; [exact HJc4| |intros Hx; congruence].
        exists (k_trace c2), (gadd [] (d_buf d1)), 1%nat. rewrite HT4, Htr3, <- app_assoc. auto.
      * cbn [snd]. constructor.
        -- destruct (Jp_async_write c4 [] false) as [JJ _]. now apply JJ.
        -- exists (k_trace c2), (gadd [] (d_buf d1)), 2%nat. rewrite async_write_trace, HT4, Htr3, <- !app_assoc. auto.
        -- intros Hok. pose proof (cstep_spec c4 (CAs [] false) Hok) as H. cbn [cop_entry fst snd] in H.
           destruct (format_output _ _ _) as [[f1 nd] er]. now destruct H as (_ & _ & _ & P).
  - cbn [snd]. constructor; [exact HJ3| |].
    + exists (k_trace c2), (gadd [] (d_buf d1)), 0%nat. rewrite Htr3. cbn [repeat]. rewrite app_nil_r. auto.
    + apply Hpend3. congruence.
Qed.

(* ---------------------------------------------------------------- before out(): only headers and settings change *)
Definition is_output (o : op) : bool := match o with OWrite _ | OPut _ | OFlush => true | _ => false end.
Definition hdr_step (h : headers) (o : op) : headers :=
  match o with
  | OHeader k v => mkHeaders (hmap_set (h_map h) k v) (h_added h)
  | OCookie k v => mkHeaders (h_map h) (h_added h ++ [cookie_line k v])
  | _ => h
  end.
(* the header state when out() is first called: header operations before the first output count, later ones do not *)
Fixpoint hdrs_at_out (h : headers) (ops : list op) : headers :=
  match ops with
  | [] => h
  | o :: t => if is_output o then h else hdrs_at_out (hdr_step h o) t
  end.

Record PreI (async : bool) (r : resp) : Prop := mkPre {
  q_out : r_out r = false;
  q_buf : d_buf (r_dev r) = [];
  q_final : d_final (r_dev r) = false;
  q_eofsent : d_eofsent (r_dev r) = false;
  q_async : d_async (r_dev r) = async;
  q_copy : r_copy_on r = false;
  q_unsent : c_unsent (r_cpy r) = [];
  q_all : c_all (r_cpy r) = [] }.

Lemma ok_nil d : d_buf d = [] -> ok d.
Proof. intros H. unfold ok. rewrite H. cbn. lia. Qed.

Ltac mkpre := constructor; cbn [set_rdev set_hdrs r_out r_dev r_copy_on r_cpy set_fullflag d_buf d_final d_eofsent d_async];
  try assumption; try congruence.
Lemma pre_step async r c o : PreI async r -> is_output o = false ->
  exists r', step r c o = (r', c) /\ PreI async r' /\ r_hdrs r' = hdr_step (r_hdrs r) o /\
             r_version r' = r_version r /\ r_defbuf r' = r_defbuf r.
Proof.
  intros [Qo Qb Qf Qe Qa Qc Qu Ql] Hn. destruct o; try discriminate; cbn [step hdr_step].
  - (* OSetbuf *) rewrite Qo. eexists. split; [reflexivity|]. split; [mkpre|auto].
  - (* OFull *) destruct (d_async (r_dev r)) eqn:EA.
    + unfold dev_full. destruct (Bool.eqb (d_full (r_dev r)) b).
      * eexists. split; [reflexivity|]. split; [mkpre|auto].
      * destruct b.
        -- eexists. split; [reflexivity|]. split; [mkpre|auto].
        -- unfold basic_setbuf. cbn [set_cap set_fullflag d_buf d_cap]. rewrite Qb. cbn [lenN length N.of_nat].
           assert (E : (d_cap (r_dev r) <? 0) = false) by (apply N.ltb_ge; lia). rewrite E.
           set (d0 := set_cap (set_fullflag (r_dev r) false) (d_cap (r_dev r))).
           assert (O0 : ok d0) by (apply ok_nil; exact Qb).
           destruct (resize_ok d0 (d_cap d0) O0) as (R1 & R2 & R3 & R4 & R5 & R6 & R7).
           eexists. split; [reflexivity|]. split; [|auto].
           constructor; cbn [set_rdev r_out r_dev r_copy_on r_cpy]; unfold do_setp; rewrite ?R1, ?R3, ?R6, ?R7;
             try assumption; unfold d0; cbn [set_cap set_fullflag d_buf d_final d_eofsent d_async]; try assumption; congruence.
    + eexists. split; [reflexivity|]. split; [mkpre|auto].
  - (* OHeader *) eexists. split; [reflexivity|]. split; [mkpre|auto].
  - (* OCookie *) eexists. split; [reflexivity|]. split; [mkpre|auto].
  - (* OCopy *) eexists. split; [reflexivity|]. split; [mkpre|auto].
  - (* OAsyncFlush *) rewrite Qo, andb_false_r. eexists. split; [reflexivity|]. split; [mkpre|auto].
Qed.

(* out(): open the device, fix the header block, install copy_buf *)
Lemma out_post async r c : PreI async r -> k_err c = false -> k_trace c = [] -> sent c = [] ->
  let f0 := set_response_headers (k_fmt c) (r_hdrs r) (r_version r) in
  Post f0 async [] (fst (resp_out r c)) (snd (resp_out r c)).
Proof.
  intros [Qo Qb Qf Qe Qa Qc Qu Ql] He Ht Hs f0. unfold resp_out. rewrite Qo. cbn [fst snd].
  set (bs := match r_reqbuf r with Some n => n | None => r_defbuf r end).
  set (d0 := set_cap (r_dev r) bs).
  assert (O0 : ok d0) by (apply ok_nil; exact Qb).
  destruct (resize_ok d0 (d_cap d0) O0) as (R1 & R2 & R3 & R4 & R5 & R6 & R7).
  constructor; cbn [r_out r_dev r_cpy r_copy_on]; unfold dev_open, do_setp; fold d0; rewrite ?R1, ?R3, ?R6, ?R7; try assumption; try reflexivity.
  - intros _. cbn [with_fmt k_trace k_fmt]. rewrite Ht. cbn [stream fmt_after]. split; [exact Hs|reflexivity].
  - unfold held, tr. cbn [r_dev r_cpy r_copy_on with_fmt k_trace]. unfold dev_open, do_setp. fold d0. rewrite R1, Ht.
    change (d_buf d0) with (d_buf (r_dev r)). rewrite Qb, Qu. now destruct (r_copy_flag r).
  - unfold ok. rewrite R1, R2. change (d_buf d0) with (d_buf (r_dev r)). rewrite Qb. cbn. lia.
  - exists 0%nat. unfold eofs. cbn [with_fmt k_trace]. now rewrite Ht.
  - intros _. exact Ql.
Qed.

Lemma step_out r c o : is_output o = true -> step r c o = step (fst (resp_out r c)) (snd (resp_out r c)) o.
Proof.
  intros Ho.
  assert (Hd : r_out (fst (resp_out r c)) = true) by (unfold resp_out; destruct (r_out r) eqn:E; cbn; auto).
  destruct o; try discriminate; cbn [step]; rewrite (resp_out_done _ _ Hd); destruct (resp_out r c); reflexivity.
Qed.
Lemma finish_out r c : finish r c = finish (fst (resp_out r c)) (snd (resp_out r c)).
Proof.
  assert (Hd : r_out (fst (resp_out r c)) = true) by (unfold resp_out; destruct (r_out r) eqn:E; cbn; auto).
  unfold finish at 2. rewrite (resp_out_done _ _ Hd). unfold finish. destruct (resp_out r c); reflexivity.
Qed.

(* the whole request, from a fresh response object *)
Definition whole (r : resp) (c : conn) (ops : list op) : resp * conn :=
  let (r1, c1) := run_ops r c ops in finish r1 c1.

Lemma finish_copy_on r c : r_out r = true -> r_copy_on (fst (finish r c)) = r_copy_on r /\ r_cpy (fst (finish r c)) = r_cpy (fst (finish r c)).
Proof.
  intros Ho. unfold finish. rewrite (resp_out_done r c Ho).
  destruct (if r_copy_on r then _ else _) as [[y d1] c2]. destruct (dev_close d1 c2) as [d2 c3].
  destruct (if d_async d2 then _ else _) as [d3 c4]. split; reflexivity.
Qed.

Lemma whole_done async : forall ops r c,
  PreI async r -> k_err c = false -> k_trace c = [] -> sent c = [] ->
  let f0 := set_response_headers (k_fmt c) (hdrs_at_out (r_hdrs r) ops) (r_version r) in
  let res := whole r c ops in
  Done f0 (concat (map obytes ops)) (snd res) /\
  (r_copy_on (fst res) = true -> c_all (r_cpy (fst res)) = concat (map obytes ops)).
Proof.
  induction ops as [|o t IH]; intros r c HPre He Ht Hs.
  - cbn [hdrs_at_out map concat]. unfold whole. cbn [run_ops]. rewrite finish_out.
    pose proof (out_post async r c HPre He Ht Hs) as HP. cbv zeta in HP.
    pose proof (finish_done _ _ _ _ _ HP) as HF. cbv zeta in HF. destruct HF as [HD HC].
    cbv zeta. split; [exact HD|].
    intros Hfl. apply HC. destruct (finish_copy_on _ (snd (resp_out r c)) (p_out _ _ _ _ _ HP)) as [E _]. now rewrite <- E.
  - cbn [hdrs_at_out]. destruct (is_output o) eqn:EO.
    + (* the first output operation calls out() *)
      pose proof (out_post async r c HPre He Ht Hs) as HP. cbv zeta in HP.
      unfold whole. cbn [run_ops]. rewrite (step_out r c o EO).
      set (r1 := fst (resp_out r c)) in *. set (c1 := snd (resp_out r c)) in *.
      pose proof (run_ops_post _ async (o :: t) [] r1 c1 HP) as HR. cbv zeta in HR. cbn [run_ops app] in HR.
      destruct (step r1 c1 o) as [r2 c2]. destruct (run_ops r2 c2 t) as [r3 c3]. cbn [fst snd] in HR.
      pose proof (finish_done _ _ _ _ _ HR) as HF. cbv zeta in HF. destruct HF as [HD HC].
      cbv zeta. split; [exact HD|].
      intros Hfl. apply HC. destruct (finish_copy_on r3 c3 (p_out _ _ _ _ _ HR)) as [E _]. now rewrite <- E.
    + destruct (pre_step async r c o HPre EO) as (r' & Es & HPre' & Hh & Hv & Hdef).
      unfold whole. cbn [run_ops]. rewrite Es.
      specialize (IH r' c HPre' He Ht Hs). cbv zeta in IH. rewrite Hh, Hv in IH.
      cbn [map concat]. assert (Eb : obytes o = []) by (destruct o; try discriminate; reflexivity).
      rewrite Eb. cbn [app]. exact IH.
Qed.

(* ---------------------------------------------------------------- what Done means on the wire, per protocol *)
Lemma stream_extras : forall k f, f_hdr_done f = true -> stream f (repeat ([], false) k) = [].
Proof.
  induction k as [|k IH]; intros f Hd; [reflexivity|].
  cbn [repeat stream]. unfold format_output, http_format, scgi_format, fcgi_format, fcgi_frame, chunk_wrap. rewrite Hd.
  destruct (f_proto f); [destruct (f_chunked f)|..]; cbn [gsize concat lenN length N.of_nat N.eqb fcgi_records app]; rewrite ?IH; auto.
Qed.

Lemma format_done f g e : f_hdr_done (fst (fst (format_output f g e))) = true.
Proof.
  unfold format_output, http_format, scgi_format, fcgi_format.
  destruct (f_proto f); destruct (f_hdr_done f) eqn:Ed; cbn [fst]; auto.
  - destruct (f_chunked f); auto.
  - destruct (http_head f g e) as [[[h3 ocl] ka] chunked]. destruct chunked; auto.
Qed.
Lemma fmt_after_done : forall t f, t <> [] -> f_hdr_done (fmt_after f t) = true.
Proof.
  induction t as [|[g e] t IH]; intros f Hn; [contradiction|].
  cbn [fmt_after]. pose proof (format_done f g e) as H. destruct (format_output f g e) as [[f1 nd] er]. cbn [fst] in H.
  destruct t as [|w t']; [exact H|]. apply IH. discriminate.
Qed.

(* the wire of a completed response is the ideal stream of  t ++ [(g, true)]  (no error signalled) *)
Lemma done_wire f0 body c : Done f0 body c -> k_err c = false ->
  exists (t : list (gather * bool)) (g : gather), all_false t /\ concat (map data_of t) ++ concat g = body /\ wire_bytes c = stream f0 (t ++ [(g, true)]).
Proof.
  intros [HJ (t & g & k & Et & Haf & Hb) Hp] He. exists t, g. split; [exact Haf|]. split; [exact Hb|].
  destruct (HJ He) as [Hs _]. unfold sent in Hs. rewrite (Hp He), app_nil_r in Hs. rewrite Hs, Et.
  rewrite app_assoc, stream_app. rewrite stream_extras; [now rewrite app_nil_r|].
  apply fmt_after_done. destruct t; discriminate.
Qed.
