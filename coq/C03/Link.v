(* C03 tie T: leaf functions regenerated from the current source (coq/gen/Gen_C03.v, tools/cxx2v.py) equal the model leafs *)
From CppcmsV Require Import Base.Tac Base.CSem Base.CSemFacts C03.Defs gen.Gen_C03 gen.Gen_C03_fcgi gen.Gen_C03_sock gen.Gen_C03_copybuf.
Local Open Scope N_scope.

(* async_io_buf::next_size (growth policy of the fully buffered asynchronous device), for all sizes below 2^63 *)
Lemma link_next_size n : n < 2 ^ 63 -> g_next_size (Z.of_N n) = Z.of_N (next_size n).
Proof.
  intros H. unfold g_next_size, next_size.
  destruct (N.eqb_spec n 0) as [->|Hn]; [reflexivity|].
  assert (Hz : (Z.of_N n =? 0)%Z = false) by (apply Z.eqb_neq; lia). rewrite Hz.
  assert (Hb : (0 <= Z.of_N n * 2 < 18446744073709551616)%Z).
  { assert (2 ^ 63 = 9223372036854775808) by reflexivity. lia. }
  rewrite wrapu64_small by exact Hb. lia.
Qed.

(* the FastCGI record size limit and the iovec limit of the socket are the constants of the current source *)
Lemma link_max_packet_len : g_max_packet_len = Z.of_N max_packet_len.
Proof. reflexivity. Qed.
Lemma link_max_vec_size : g_max_vec_size = Z.of_nat max_vec.
Proof. reflexivity. Qed.

(* details::copy_buf: the integer expressions of the current source (initial size; resize argument and setp arguments of the
   growth branch of overflow(); the length getstr(std::string&) computes and the arguments of its assign) are the model's *)
Lemma link_cb_init : g_cb_init = Z.of_N CB_INIT.
Proof. reflexivity. Qed.
Lemma link_cb_grow size : size < 2 ^ 62 ->
  g_cb_grow_resize (Z.of_N size) = Z.of_N (cb_grow_resize size) /\
  g_cb_grow_base (Z.of_N size) = Z.of_N (cb_grow_base size) /\
  g_cb_grow_end (Z.of_N size) = Z.of_N (cb_grow_end size).
Proof.
  intros H. unfold g_cb_grow_resize, g_cb_grow_base, g_cb_grow_end, cb_grow_resize, cb_grow_base, cb_grow_end.
  assert (H62 : 2 ^ 62 = 4611686018427387904) by reflexivity.
  assert (Hb : (0 <= Z.of_N size * 2 < 18446744073709551616)%Z) by lia.
  assert (Hc : (0 <= Z.of_N size + Z.of_N size < 18446744073709551616)%Z) by lia.
  rewrite (wrapu64_small _ Hb), (wrapu64_small _ Hc). repeat split; lia.
Qed.
Lemma link_cb_getstr_n bsize ep pp : pp <= ep -> ep <= bsize -> bsize < 2 ^ 62 ->
  g_cb_getstr_n (Z.of_N bsize) (Z.of_N ep) (Z.of_N pp) = Z.of_N (cb_getstr_n bsize ep pp).
Proof.
  intros H1 H2 H3. unfold g_cb_getstr_n, cb_getstr_n.
  assert (H62 : 2 ^ 62 = 4611686018427387904) by reflexivity.
  assert (Hb : (0 <= Z.of_N ep - Z.of_N pp < 18446744073709551616)%Z) by lia.
  rewrite (wrapu64_small _ Hb).
  assert (Hc : (0 <= Z.of_N bsize - (Z.of_N ep - Z.of_N pp) < 18446744073709551616)%Z) by lia.
  rewrite (wrapu64_small _ Hc). lia.
Qed.
Lemma link_cb_getstr_assign n bsize : g_cb_getstr_off n bsize = 0%Z /\ g_cb_getstr_len n bsize = n.
Proof. split; reflexivity. Qed.
