(* C03 tie T: leaf functions regenerated from the current source (coq/gen/Gen_C03.v, tools/cxx2v.py) equal the model leafs *)
From CppcmsV Require Import Base.Tac Base.CSem Base.CSemFacts C03.Defs gen.Gen_C03 gen.Gen_C03_fcgi gen.Gen_C03_sock.
Local Open Scope N_scope.

(* async_io_buf::next_size (growth policy of the fully buffered asynchronous device), for all sizes below 2^63 *)
Lemma link_next_size n : n < 2 ^ 63 -> g_next_size (Z.of_N n) = Z.of_N (next_size n).
Proof.
  intros H. unfold g_next_size, next_size.
  destruct (N.eqb_spec n 0) as [->|Hn]; [reflexivity|].
  assert (Hz : (Z.of_N n =? 0)%Z = false) by (apply Z.eqb_neq; lia). rewrite Hz.
  assert (Hb : (0 <= Z.of_N n * 2 < 18446744073709551616)%Z).
  { assert (2 ^ 63 = 9223372036854775808) by reflexivity. lia. }
  rewrite wrapu64_small by exact Hb. lia.
Qed.

(* the FastCGI record size limit and the iovec limit of the socket are the constants of the current source *)
Lemma link_max_packet_len : g_max_packet_len = Z.of_N max_packet_len.
Proof. reflexivity. Qed.
Lemma link_max_vec_size : g_max_vec_size = Z.of_nat max_vec.
Proof. reflexivity. Qed.
