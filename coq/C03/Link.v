(* C03 tie T: leaf functions regenerated from the current source (coq/gen/Gen_C03.v, tools/cxx2v.py) equal the model leafs *)
From CppcmsV Require Import Base.Tac Base.CSem Base.CSemFacts C03.Defs gen.Gen_C03 gen.Gen_C03_fcgi gen.Gen_C03_sock gen.Gen_C03_copybuf gen.Gen_C03_ovf gen.Gen_C03_cmp gen.Gen_C03_lower.
From CppcmsV Require Import Base.Sweep.
Local Open Scope N_scope.

(* async_io_buf::next_size (growth policy of the fully buffered asynchronous device), for all sizes below 2^63 *)
Lemma link_next_size n : n < 2 ^ 63 -> g_next_size (Z.of_N n) = Z.of_N (next_size n).
Proof.
  intros H. unfold g_next_size, next_size.
  destruct (N.eqb_spec n 0) as [->|Hn]; [reflexivity|].
  assert (Hz : (Z.of_N n =? 0)%Z = false) by (apply Z.eqb_neq; lia). rewrite Hz.
  assert (Hb : (0 <= Z.of_N n * 2 < 18446744073709551616)%Z).
  { assert (2 ^ 63 = 9223372036854775808) by reflexivity. lia. }
  rewrite wrapu64_small by exact Hb. lia.
Qed.

(* the FastCGI record size limit and the iovec limit of the socket are the constants of the current source *)
Lemma link_max_packet_len : g_max_packet_len = Z.of_N max_packet_len.
Proof. reflexivity. Qed.
Lemma link_max_vec_size : g_max_vec_size = Z.of_nat max_vec.
Proof. reflexivity. Qed.

(* details::copy_buf: the integer expressions of the current source (initial size; resize argument and setp arguments of the
   growth branch of overflow(); the length getstr(std::string&) computes and the arguments of its assign) are the model's *)
Lemma link_cb_init : g_cb_init = Z.of_N CB_INIT.
Proof. reflexivity. Qed.
Lemma link_cb_grow size : size < 2 ^ 62 ->
  g_cb_grow_resize (Z.of_N size) = Z.of_N (cb_grow_resize size) /\
  g_cb_grow_base (Z.of_N size) = Z.of_N (cb_grow_base size) /\
  g_cb_grow_end (Z.of_N size) = Z.of_N (cb_grow_end size).
Proof.
  intros H. unfold g_cb_grow_resize, g_cb_grow_base, g_cb_grow_end, cb_grow_resize, cb_grow_base, cb_grow_end.
  assert (H62 : 2 ^ 62 = 4611686018427387904) by reflexivity.
  assert (Hb : (0 <= Z.of_N size * 2 < 18446744073709551616)%Z) by lia.
  assert (Hc : (0 <= Z.of_N size + Z.of_N size < 18446744073709551616)%Z) by lia.
  rewrite (wrapu64_small _ Hb), (wrapu64_small _ Hc). repeat split; lia.
Qed.
Lemma link_cb_getstr_n bsize ep pp : pp <= ep -> ep <= bsize -> bsize < 2 ^ 62 ->
  g_cb_getstr_n (Z.of_N bsize) (Z.of_N ep) (Z.of_N pp) = Z.of_N (cb_getstr_n bsize ep pp).
Proof.
  intros H1 H2 H3. unfold g_cb_getstr_n, cb_getstr_n.
  assert (H62 : 2 ^ 62 = 4611686018427387904) by reflexivity.
  assert (Hb : (0 <= Z.of_N ep - Z.of_N pp < 18446744073709551616)%Z) by lia.
  rewrite (wrapu64_small _ Hb).
  assert (Hc : (0 <= Z.of_N bsize - (Z.of_N ep - Z.of_N pp) < 18446744073709551616)%Z) by lia.
  rewrite (wrapu64_small _ Hc). lia.
Qed.
Lemma link_cb_getstr_assign n bsize : g_cb_getstr_off n bsize = 0%Z /\ g_cb_getstr_len n bsize = n.
Proof. split; reflexivity. Qed.

(* overflow(int c) of basic_device and (full buffering) async_io_buf: for every byte value as int the guard of the current source
   holds and the byte appended is that value; for EOF it does not hold *)
Lemma link_ovf_byte b : b < 256 ->
  g_ovf_guard (to_int_type b) = 1%Z /\ g_ovf_byte (to_int_type b) = Z.of_N (ovf_byte (to_int_type b)) /\ g_aovf_guard (to_int_type b) = 1%Z /\
  ovf_guard (to_int_type b) = true.
Proof.
  intros H.
  assert (X : ((g_ovf_guard (Z.of_N b) =? 1)%Z && (g_ovf_byte (Z.of_N b) =? Z.of_N (ovf_byte (Z.of_N b)))%Z &&
               (g_aovf_guard (Z.of_N b) =? 1)%Z && ovf_guard (Z.of_N b)) = true).
  { apply (sweep256 (fun b => ((g_ovf_guard (Z.of_N b) =? 1)%Z && (g_ovf_byte (Z.of_N b) =? Z.of_N (ovf_byte (Z.of_N b)))%Z &&
               (g_aovf_guard (Z.of_N b) =? 1)%Z && ovf_guard (Z.of_N b)))); [vm_compute; reflexivity|exact H]. }
  unfold to_int_type. apply andb_prop in X. destruct X as [X X4]. apply andb_prop in X. destruct X as [X X3].
  apply andb_prop in X. destruct X as [X1 X2]. apply Z.eqb_eq in X1, X2, X3. auto.
Qed.
Lemma link_ovf_eof : g_ovf_guard EOF_INT = 0%Z /\ g_aovf_guard EOF_INT = 0%Z /\ ovf_guard EOF_INT = false.
Proof. vm_compute. auto. Qed.

(* the comparator of the header map: ascii_to_lower, one step of the loop of protocol::compare, its tail (the length tie-break)
   and icompare_type::operator() = (compare(l, r) < 0) *)
Lemma link_lower b : b < 128 -> g_ascii_to_lower (Z.of_N b) = Z.of_N (lower b).
Proof.
  intros H. apply Z.eqb_eq.
  apply (sweep_N 128 (fun b => (g_ascii_to_lower (Z.of_N b) =? Z.of_N (lower b))%Z)); [vm_compute; reflexivity|exact H].
Qed.
Lemma link_cmp_step a b : g_cmp_step (Z.of_N a) (Z.of_N b) = if a <? b then (-1)%Z else if b <? a then 1%Z else 2%Z.
Proof.
  unfold g_cmp_step. destruct (N.ltb_spec a b) as [L|L].
  - assert (E : (Z.of_N a <? Z.of_N b)%Z = true) by (apply Z.ltb_lt; lia). now rewrite E.
  - assert (E : (Z.of_N a <? Z.of_N b)%Z = false) by (apply Z.ltb_ge; lia). rewrite E.
    destruct (N.ltb_spec b a) as [M|M].
    + assert (E2 : (Z.of_N a >? Z.of_N b)%Z = true) by (apply Z.gtb_lt; lia). now rewrite E2.
    + assert (E2 : (Z.of_N a >? Z.of_N b)%Z = false) by (rewrite Z.gtb_ltb; apply Z.ltb_ge; lia). now rewrite E2.
Qed.
(* the tail decides by length exactly like ci_compare on exhausted inputs: shorter first *)
Lemma link_cmp_tail (a b : bytes) : (a = [] \/ b = []) -> g_cmp_tail (Z.of_N (lenN a)) (Z.of_N (lenN b)) = compare_int a b.
Proof.
  intros H. unfold g_cmp_tail, compare_int, lenN. destruct H as [-> | ->].
  - destruct b as [|y b]; cbn [ci_compare length]; [reflexivity|].
    destruct (Z.ltb_spec (Z.of_N (N.of_nat 0)) (Z.of_N (N.of_nat (S (length b))))); [reflexivity|lia].
  - destruct a as [|x a]; cbn [ci_compare length]; [reflexivity|].
    destruct (Z.ltb_spec (Z.of_N (N.of_nat (S (length a)))) (Z.of_N (N.of_nat 0))); [lia|].
    rewrite Z.gtb_ltb. destruct (Z.ltb_spec (Z.of_N (N.of_nat 0)) (Z.of_N (N.of_nat (S (length a))))); [reflexivity|lia].
Qed.
Lemma link_icompare a b : (g_icmp_less (compare_int a b) =? 1)%Z = icompare_less a b.
Proof. unfold g_icmp_less, icompare_less. destruct (compare_int a b <? 0)%Z; reflexivity. Qed.
Lemma link_comparator :
  (forall b, b < 128 -> g_ascii_to_lower (Z.of_N b) = Z.of_N (lower b)) /\
  (forall a b, g_cmp_step (Z.of_N a) (Z.of_N b) = if a <? b then (-1)%Z else if b <? a then 1%Z else 2%Z) /\
  (forall a b : bytes, (a = [] \/ b = []) -> g_cmp_tail (Z.of_N (lenN a)) (Z.of_N (lenN b)) = compare_int a b) /\
  (forall a b, (g_icmp_less (compare_int a b) =? 1)%Z = icompare_less a b).
Proof. split; [exact link_lower|]. split; [exact link_cmp_step|]. split; [exact link_cmp_tail|exact link_icompare]. Qed.
