(* C03 -- executable model of the response output path (definitions only, no proofs).
   Layers, bottom-up:
     socket      : an accept schedule (list N): each write_some accepts min(k, offered) bytes, k=0 is would-block,
                   exhausted schedule accepts everything; stream_socket::writev offers at most 16 gather entries
     connection  : format_output for HTTP / SCGI / FastCGI, blocking write, nonblocking_write (three branches),
                   async_write + async_write_handler retry loop, async_write_response     (src/cgi_api.cpp, *_api.cpp)
     device      : basic_device / output_device / async_io_buf (src/http_response.cpp)
     copy_buf    : the page-cache tee (src/http_response.cpp) driven by libstdc++ xsputn/sputc
     response    : headers map, setbuf, full_asynchronous_buffering, out(), finalize
   Independent decoders (unchunk, unrecord) are the specifications of the framing. *)
From Coq Require Import NArith ZArith List Bool.
Import ListNotations.
Local Open Scope N_scope.

Definition bytes := list N.
Definition lenN {A} (l : list A) : N := N.of_nat (length l).
Definition takeN {A} (n : N) (l : list A) : list A := firstn (N.to_nat n) l.
Definition dropN {A} (n : N) (l : list A) : list A := skipn (N.to_nat n) l.

(* ---------------------------------------------------------------- gather buffers (booster::aio::const_buffer) *)
Definition gather := list bytes.
Definition gadd (g : gather) (e : bytes) : gather := match e with [] => g | _ => g ++ [e] end.   (* add() drops empty entries *)
Definition gsize (g : gather) : N := lenN (concat g).
(* details::advance: drop n bytes, keep the entry structure *)
Fixpoint gdrop (n : N) (g : gather) : gather :=
  match g with
  | [] => []
  | e :: r => if n =? 0 then g
              else if lenN e <=? n then gdrop (n - lenN e) r
              else dropN n e :: r
  end.
(* take n bytes keeping the entry structure: (taken entries, remaining gather) *)
Fixpoint gtake (n : N) (g : gather) : gather * gather :=
  match g with
  | [] => ([], [])
  | e :: r => if n =? 0 then ([], g)
              else if lenN e <=? n then let (t, rest) := gtake (n - lenN e) r in (e :: t, rest)
              else ([takeN n e], dropN n e :: r)
  end.

(* ---------------------------------------------------------------- small text helpers *)
Definition CR : N := 13.  Definition LF : N := 10.
Definition CRLF : bytes := [13; 10].
Definition hexdigit (d : N) : N := if d <? 10 then 48 + d else 87 + d.      (* lower case, as std::hex *)
Fixpoint hex_fuel (fuel : nat) (n : N) : bytes :=
  match fuel with
  | O => []
  | S f => if n <? 16 then [hexdigit n] else hex_fuel f (n / 16) ++ [hexdigit (n mod 16)]
  end.
Definition hexN (n : N) : bytes := hex_fuel (S (N.to_nat (N.log2 n))) n.
Fixpoint dec_fuel (fuel : nat) (n : N) : bytes :=
  match fuel with
  | O => []
  | S f => if n <? 10 then [48 + n] else dec_fuel f (n / 10) ++ [48 + n mod 10]
  end.
Definition decN (n : N) : bytes := dec_fuel (S (N.to_nat (N.log2 n))) n.
Definition is_digit (c : N) : bool := (48 <=? c) && (c <=? 57).
(* atoll on a decimal string without sign or leading blanks: the leading digits *)
Fixpoint parse_dec_acc (acc : N) (s : bytes) : N :=
  match s with
  | c :: r => if is_digit c then parse_dec_acc (acc * 10 + (c - 48)) r else acc
  | [] => acc
  end.
Definition parse_dec (s : bytes) : N := parse_dec_acc 0 s.

(* ---------------------------------------------------------------- response headers (private/response_headers.h) *)
Definition lower (c : N) : N := if (65 <=? c) && (c <=? 90) then c + 32 else c.
(* http::protocol::compare: case-insensitive lexicographic, shorter first (bytes < 128 assumed: char is signed) *)
Inductive cmp := Lt | Eq | Gt.
Fixpoint ci_compare (a b : bytes) : cmp :=
  match a, b with
  | [], [] => Eq
  | [], _ => Lt
  | _, [] => Gt
  | x :: a', y :: b' => if lower x <? lower y then Lt else if lower y <? lower x then Gt else ci_compare a' b'
  end.
(* the comparator of the map: icompare_type::operator()(l, r) = (protocol::compare(l, r) < 0); compare returns -1 / 0 / 1 *)
Definition compare_int (a b : bytes) : Z := match ci_compare a b with Lt => (-1)%Z | Eq => 0%Z | Gt => 1%Z end.
Definition icompare_less (a b : bytes) : bool := Z.ltb (compare_int a b) 0.
Definition hmap := list (bytes * bytes).           (* sorted by ci_compare, unique keys: std::map<string,string,icompare> *)
Fixpoint hmap_erase (m : hmap) (k : bytes) : hmap :=
  match m with
  | [] => []
  | (k', v') :: r => match ci_compare k k' with Eq => r | _ => (k', v') :: hmap_erase r k end
  end.
Fixpoint hmap_put (m : hmap) (k v : bytes) : hmap :=
  match m with
  | [] => [(k, v)]
  | (k', v') :: r => match ci_compare k k' with
                     | Lt => (k, v) :: m
                     | Eq => (k', v) :: r                 (* operator[] keeps the existing key spelling *)
                     | Gt => (k', v') :: hmap_put r k v
                     end
  end.
Definition hmap_set (m : hmap) (k v : bytes) : hmap := match v with [] => hmap_erase m k | _ => hmap_put m k v end.
Fixpoint hmap_get (m : hmap) (k : bytes) : bytes :=
  match m with
  | [] => []
  | (k', v') :: r => match ci_compare k k' with Eq => v' | _ => hmap_get r k end
  end.
Record headers := mkHeaders { h_map : hmap; h_added : list bytes }.
Definition COLON_SP : bytes := [58; 32].
Definition header_line (kv : bytes * bytes) : bytes := fst kv ++ COLON_SP ++ snd kv ++ CRLF.
Definition STATUS : bytes := [83;116;97;116;117;115].
Definition is_status (k : bytes) : bool := match ci_compare k STATUS with Eq => true | _ => false end.
Definition added_lines (l : list bytes) : bytes := concat (map (fun h => h ++ CRLF) l).
Definition format_cgi_headers (h : headers) : bytes :=            (* complete = true *)
  concat (map header_line (h_map h)) ++ added_lines (h_added h) ++ CRLF.
Definition HTTP_SL : bytes := [72;84;84;80;47].                                  (* HTTP/ *)
Definition OK200 : bytes := [50;48;48;32;79;107].                                (* 200 Ok *)
Definition format_http_headers (h : headers) (version : bytes) : bytes :=        (* complete = false *)
  HTTP_SL ++ version ++ [32] ++
  (match hmap_get (h_map h) STATUS with [] => OK200 | s => s end) ++ CRLF ++
  concat (map header_line (filter (fun kv => negb (is_status (fst kv))) (h_map h))) ++ added_lines (h_added h).
Definition CONTENT_LENGTH : bytes := [67;111;110;116;101;110;116;45;76;101;110;103;116;104].
Definition SET_COOKIE : bytes := [83;101;116;45;67;111;111;107;105;101;58].     (* Set-Cookie: without blank *)
Definition VERSION1 : bytes := [59;32;86;101;114;115;105;111;110;61;49].         (* ; Version=1 *)
Definition cookie_line (n v : bytes) : bytes := SET_COOKIE ++ n ++ [61] ++ v ++ VERSION1.

(* ---------------------------------------------------------------- connection *)
Inductive proto := Http | Scgi | Fcgi.
(* the part of the connection object that format_output reads and writes *)
Record fmt := mkFmt {
  f_proto : proto; f_http11 : bool; f_cka : bool;            (* request: HTTP/1.1, Connection: keep-alive *)
  f_reqid : N; f_server : bytes;                             (* fastcgi request id; the Server: line incl. CRLF *)
  f_hdr : bytes; f_hdr_done : bool;                          (* response_headers_ / headers_written_ *)
  f_chunked : bool; f_ocl : option N; f_owritten : N; f_keepalive : bool }.
Record conn := mkConn {
  k_fmt : fmt;
  k_pending : bytes;                                         (* pending_output_ *)
  k_wire : list bytes;                                       (* what the socket accepted, one piece per write_some *)
  k_sched : list N; k_log : list (N * N);                    (* accept schedule; (offered, accepted) per write_some *)
  k_err : bool;
  k_trace : list (gather * bool) }.                          (* ghost: every (buffer, eof) handed to format_output *)

Definition set_pending (c : conn) (p : bytes) : conn :=
  mkConn (k_fmt c) p (k_wire c) (k_sched c) (k_log c) (k_err c) (k_trace c).
Definition set_err (c : conn) : conn :=
  mkConn (k_fmt c) (k_pending c) (k_wire c) (k_sched c) (k_log c) true (k_trace c).
Definition set_sock (c : conn) (w : list bytes) (s : list N) (l : list (N * N)) : conn :=
  mkConn (k_fmt c) (k_pending c) w s l (k_err c) (k_trace c).
Definition with_fmt (c : conn) (f : fmt) : conn :=
  mkConn f (k_pending c) (k_wire c) (k_sched c) (k_log c) (k_err c) (k_trace c).
Definition add_trace (c : conn) (g : gather) (eof : bool) : conn :=
  mkConn (k_fmt c) (k_pending c) (k_wire c) (k_sched c) (k_log c) (k_err c) (k_trace c ++ [(g, eof)]).
Definition set_fmt (c : fmt) (hdr : bytes) (done chunked : bool) (ocl : option N) (ow : N) (ka : bool) : fmt :=
  mkFmt (f_proto c) (f_http11 c) (f_cka c) (f_reqid c) (f_server c) hdr done chunked ocl ow ka.

(* socket: stream_socket::write_some -> writev of the first 16 entries *)
Definition max_vec : nat := 16.
Definition offered (g : gather) : bytes := concat (firstn max_vec g).
Definition write_some (c : conn) (g : gather) : N * conn :=
  let off := offered g in
  let k := match k_sched c with [] => lenN off | k :: _ => N.min k (lenN off) end in
  (k, set_sock c (k_wire c ++ [takeN k off]) (tl (k_sched c)) (k_log c ++ [(lenN off, k)])).

(* --- HTTP framing (src/http_api.cpp) *)
Definition ZERO_CHUNK : bytes := [48;13;10;13;10].
Definition chunk_wrap (g : gather) (completed : bool) : gather :=
  if gsize g =? 0 then (if completed then [ZERO_CHUNK] else [])
  else [hexN (gsize g) ++ CRLF] ++ g ++ [if completed then CRLF ++ ZERO_CHUNK else CRLF].
Definition CL_LINE : bytes := CONTENT_LENGTH ++ COLON_SP.
Definition CONN_KA : bytes := [67;111;110;110;101;99;116;105;111;110;58;32;107;101;101;112;45;97;108;105;118;101;13;10].
Definition CONN_CLOSE : bytes := [67;111;110;110;101;99;116;105;111;110;58;32;99;108;111;115;101;13;10].
Definition TE_CHUNKED : bytes := [84;114;97;110;115;102;101;114;45;69;110;99;111;100;105;110;103;58;32;99;104;117;110;107;101;100;13;10].
Definition overrun (ocl : option N) (ow : N) : bool := match ocl with Some l => l <? ow | None => false end.
Definition isSome {A} (o : option A) : bool := match o with Some _ => true | None => false end.

(* the header block completed by the first format_output: (block, content length, keep-alive, chunked) *)
Definition http_head (c : fmt) (g : gather) (completed : bool) : bytes * option N * bool * bool :=
  let h1 := f_hdr c ++ f_server c in
  let '(ocl, h2) := match f_ocl c with
                    | None => if completed then (Some (gsize g), h1 ++ CL_LINE ++ decN (gsize g) ++ CRLF) else (None, h1)
                    | Some l => (Some l, h1)
                    end in
  let ka := f_cka c && (isSome ocl || f_http11 c) in
  let chunked := ka && negb (isSome ocl) in
  (h2 ++ (if ka then CONN_KA ++ (if chunked then TE_CHUNKED else []) else CONN_CLOSE) ++ CRLF, ocl, ka, chunked).

(* returns (format state, formatted gather, error) *)
Definition http_format (c : fmt) (g : gather) (completed : bool) : fmt * gather * bool :=
  if f_hdr_done c then
    if f_chunked c then (c, chunk_wrap g completed, false)
    else let ow := f_owritten c + gsize g in
         (set_fmt c (f_hdr c) true false (f_ocl c) ow (f_keepalive c), g, overrun (f_ocl c) ow)
  else
    let '(h3, ocl, ka, chunked) := http_head c g completed in
    if chunked then (set_fmt c h3 true true ocl (f_owritten c) ka, [h3] ++ chunk_wrap g completed, false)
    else let ow := f_owritten c + gsize g in
         (set_fmt c h3 true false ocl ow ka, [h3] ++ g, overrun ocl ow).

(* --- SCGI (src/scgi_api.cpp) *)
Definition scgi_format (c : fmt) (g : gather) : fmt * gather * bool :=
  if f_hdr_done c then (c, g, false)
  else (set_fmt c (f_hdr c) true false (f_ocl c) (f_owritten c) false, gadd [] (f_hdr c) ++ g, false).

(* --- FastCGI (src/fastcgi_api.cpp) *)
Definition fcgi_header (typ rid len pad : N) : bytes := [1; typ; rid / 256; rid mod 256; len / 256; len mod 256; pad; 0].
Definition max_packet_len : N := 65535.
Definition zeros (n : N) : bytes := repeat 0 (N.to_nat n).
Definition pad_of (n : N) : N := (8 - n mod 8) mod 8.
Fixpoint fcgi_records (fuel : nat) (rid : N) (rem : N) (g : gather) : gather :=
  match fuel with
  | O => []
  | S f =>
    if rem =? 0 then []
    else if max_packet_len <? rem then
      let (t, rest) := gtake max_packet_len g in
      [fcgi_header 6 rid max_packet_len 1] ++ t ++ [zeros 1] ++ fcgi_records f rid (rem - max_packet_len) rest
    else
      let (t, rest) := gtake rem g in
      gadd ([fcgi_header 6 rid rem (pad_of rem)] ++ t) (zeros (pad_of rem))
  end.
Definition fcgi_eof (rid : N) : bytes := fcgi_header 6 rid 0 0 ++ fcgi_header 3 rid 8 0 ++ zeros 8.
Definition fcgi_frame (rid : N) (g : gather) (completed : bool) : gather :=
  fcgi_records (S (N.to_nat (gsize g / max_packet_len))) rid (gsize g) g ++ (if completed then [fcgi_eof rid] else []).
Definition fcgi_format (c : fmt) (g : gather) (completed : bool) : fmt * gather * bool :=
  let g' := if f_hdr_done c then g else gadd [] (f_hdr c) ++ g in
  (set_fmt c (f_hdr c) true false (f_ocl c) (f_owritten c) (f_keepalive c), fcgi_frame (f_reqid c) g' completed, false).

Definition format_output (c : fmt) (g : gather) (completed : bool) : fmt * gather * bool :=
  match f_proto c with
  | Http => http_format c g completed
  | Scgi => scgi_format c g
  | Fcgi => fcgi_format c g completed
  end.

(* --- blocking write: connection::write -> write_to_socket loop (stream_socket::write / http timed_write_some loop) *)
Fixpoint write_all (fuel : nat) (c : conn) (g : gather) : conn :=
  match g with
  | [] => c
  | _ => match fuel with
         | O => set_err c
         | S f => let (n, c1) := write_some c g in
                  if n =? 0 then set_err c1                         (* EAGAIN on a blocking socket is an error *)
                  else write_all f c1 (gdrop n g)
         end
  end.
Definition with_pending (c : conn) (new_data : gather) : gather :=
  match k_pending c with [] => new_data | p => [p] ++ new_data end.
Definition blocking_write (c : conn) (g : gather) (eof : bool) : conn :=
  if k_err c then c else
  let '(f1, new_data, e) := format_output (k_fmt c) g eof in
  let c1 := with_fmt c f1 in
  if e then set_err c1 else
  let output := with_pending c1 new_data in
  match output with
  | [] => c1
  | _ => set_pending (write_all (S (length (k_sched c1) + N.to_nat (gsize output))) c1 output) []
  end.

(* --- connection::nonblocking_write: the three branches of the code; returns (connection, completed) *)
Definition nonblocking_write (c : conn) (g : gather) (eof : bool) : conn * bool :=
  if k_err c then (c, true) else
  let '(f1, new_data, e) := format_output (k_fmt c) g eof in
  let c1 := with_fmt c f1 in
  if e then (set_err c1, true) else
  let output := with_pending c1 new_data in
  match output with
  | [] => (c1, true)
  | _ => let (n, c2) := write_some c1 output in
         if n =? gsize output then (set_pending c2 [], true)
         else if n =? 0 then (set_pending c2 (k_pending c2 ++ concat new_data), false)      (* append_pending(new_data) *)
         else (set_pending c2 (concat (gdrop n output)), false)                             (* swap; append_pending(output+n) *)
  end.

(* --- async_write_handler: owns the former pending_output_, retries on writeable until it is empty *)
Fixpoint handler_loop (fuel : nat) (c : conn) (data : bytes) : conn :=
  match data with
  | [] => c
  | _ => match fuel with
         | O => set_err c
         | S f => let (n, c1) := write_some c [data] in
                  handler_loop f c1 (dropN n data)
         end
  end.
Definition async_write (c : conn) (g : gather) (eof : bool) : conn :=
  let (c1, done) := nonblocking_write (add_trace c g eof) g eof in
  if done then c1
  else handler_loop (S (S (length (k_sched c1)))) (set_pending c1 []) (k_pending c1).

(* ---------------------------------------------------------------- devices (src/http_response.cpp) *)
Record dev := mkDev {
  d_async : bool;          (* async_io_buf (nonblocking_write) or output_device (blocking write) *)
  d_cap : N;               (* buffer_size_ *)
  d_vsize : N;             (* output_.size() = epptr - pbase *)
  d_buf : bytes;           (* pbase .. pptr *)
  d_full : bool;           (* full_buffering_ *)
  d_final : bool; d_eofsent : bool }.
Definition set_buf (d : dev) (vs : N) (b : bytes) : dev :=
  mkDev (d_async d) (d_cap d) vs b (d_full d) (d_final d) (d_eofsent d).
Definition set_cap (d : dev) (cap : N) : dev :=
  mkDev (d_async d) cap (d_vsize d) (d_buf d) (d_full d) (d_final d) (d_eofsent d).
Definition set_fullflag (d : dev) (f : bool) : dev :=
  mkDev (d_async d) (d_cap d) (d_vsize d) (d_buf d) f (d_final d) (d_eofsent d).
Definition set_eof (d : dev) (final sent : bool) : dev :=
  mkDev (d_async d) (d_cap d) (d_vsize d) (d_buf d) (d_full d) final sent.

(* std::vector<char>::resize(n): growing value-initialises [size, n).  Content of the put area beyond size() would be
   overwritten with zeros; Proofs3.v shows that the put area never exceeds the vector (invariant ok), so zfill is the
   identity on every reachable state.  (It was reachable before /repo commit 00eb9d4: regression Example in Props.v.) *)
Definition zfill (vs : N) (b : bytes) : bytes := takeN vs b ++ repeat 0 (length b - N.to_nat vs).
Definition resize (d : dev) (n : N) : dev :=
  if d_vsize d <? n then set_buf d n (zfill (d_vsize d) (d_buf d)) else set_buf d n (d_buf d).
Definition do_setp (d : dev) : dev := resize d (d_cap d).

Definition do_write (d : dev) (c : conn) (g : gather) (eof : bool) : conn :=
  let c0 := add_trace c g eof in
  if d_async d then fst (nonblocking_write c0 g eof) else blocking_write c0 g eof.
(* basic_device::write *)
Definition dev_write (d : dev) (c : conn) (g : gather) : dev * conn :=
  let send_eof := d_final d && negb (d_eofsent d) in
  (set_eof d (d_final d) send_eof, do_write d c g send_eof).
Definition next_size (n : N) : N := if n =? 0 then 64 else n * 2.
Fixpoint grow_to (fuel : nat) (sz minimal : N) : N :=
  match fuel with O => sz | S f => if sz <? minimal then grow_to f (sz * 2) minimal else sz end.

Definition dev_xsputn (d : dev) (c : conn) (s : bytes) : dev * conn :=
  if d_full d then
    if d_vsize d <? lenN (d_buf d) + lenN s then        (* epptr - pptr < n *)
      let sz := grow_to (S (N.to_nat (N.log2 (lenN (d_buf d) + lenN s)))) (next_size (d_vsize d)) (lenN (d_buf d) + lenN s) in
      let d1 := resize d sz in (set_buf d1 sz (d_buf d1 ++ s), c)
    else (set_buf d (d_vsize d) (d_buf d ++ s), c)
  else
    if lenN (d_buf d) + lenN s <=? d_vsize d then (set_buf d (d_vsize d) (d_buf d ++ s), c)
    else let (d1, c1) := dev_write d c (gadd (gadd [] (d_buf d)) s) in (do_setp (set_buf d1 (d_vsize d1) []), c1).
(* overflow(c) (c = None is EOF) *)
Definition dev_overflow (d : dev) (c : conn) (ch : option N) : dev * conn :=
  let chb := match ch with Some x => [x] | None => [] end in
  if d_full d then
    let d1 := if lenN (d_buf d) =? d_vsize d then resize d (next_size (d_vsize d)) else d in
    (set_buf d1 (d_vsize d1) (d_buf d1 ++ chb), c)
  else let (d1, c1) := dev_write d c (gadd (gadd [] (d_buf d)) chb) in (do_setp (set_buf d1 (d_vsize d1) []), c1).
Definition dev_sputc (d : dev) (c : conn) (ch : N) : dev * conn :=
  if lenN (d_buf d) <? d_vsize d then (set_buf d (d_vsize d) (d_buf d ++ [ch]), c) else dev_overflow d c (Some ch).
Definition dev_sync (d : dev) (c : conn) : dev * conn := dev_overflow d c None.
(* overflow(int c) at the level of the C++ signature: sputc hands over traits::to_int_type(ch), an int in 0..255; sync hands over
   EOF = -1.  The code narrows c to `char c_tmp` for the byte it appends, but must test the INT against EOF: (char)0xFF == EOF.
   ovf_guard / ovf_byte are tied to the source in Link.v; ProofsOvf.v shows that for every byte value this is dev_overflow (Some x). *)
Definition EOF_INT : Z := (-1)%Z.
Definition ovf_guard (ci : Z) : bool := negb (Z.eqb ci EOF_INT).                (* if(c != EOF) *)
Definition ovf_byte (ci : Z) : N := Z.to_N (Z.modulo ci 256).                    (* (unsigned char) c_tmp, c_tmp = (char) c *)
Definition to_int_type (x : N) : Z := Z.of_N x.                                  (* x < 256 *)
Definition dev_overflow_int (d : dev) (c : conn) (ci : Z) : dev * conn :=
  dev_overflow d c (if ovf_guard ci then Some (ovf_byte ci) else None).
Definition dev_sputc_int (d : dev) (c : conn) (ch : N) : dev * conn :=
  if lenN (d_buf d) <? d_vsize d then (set_buf d (d_vsize d) (d_buf d ++ [ch]), c) else dev_overflow_int d c (to_int_type ch).
Definition dev_sync_int (d : dev) (c : conn) : dev * conn := dev_overflow_int d c EOF_INT.
Definition dev_flush (d : dev) (c : conn) : dev * conn :=
  let (d1, c1) := dev_write d c (gadd [] (d_buf d)) in (set_buf d1 (d_vsize d1) [], c1).
Definition basic_setbuf (d : dev) (c : conn) (size : N) : dev * conn :=
  let d0 := set_cap d size in
  let (d1, c1) := if size <? lenN (d_buf d0) then dev_flush d0 c else (d0, c) in
  (do_setp d1, c1).
(* async_io_buf::setbuf: in full buffering mode only the size is remembered (it is applied by basic_device::setbuf when
   full buffering is switched off); the vector only ever grows, the put area keeps its content *)
Definition dev_setbuf (d : dev) (c : conn) (size : N) : dev * conn :=
  if d_full d then
    let d0 := set_cap d size in
    ((if d_vsize d0 <? size then resize d0 size else d0), c)
  else basic_setbuf d c size.
Definition dev_full (d : dev) (c : conn) (b : bool) : dev * conn :=
  if Bool.eqb (d_full d) b then (d, c)
  else let d1 := set_fullflag d b in
       if b then (d1, c) else basic_setbuf d1 c (d_cap d1).
Definition dev_close (d : dev) (c : conn) : dev * conn :=
  if d_eofsent d then (d, c) else dev_flush (set_eof d true (d_eofsent d)) c.
Definition dev_open (d : dev) (n : N) : dev := do_setp (set_cap d n).
(* connection::async_write_response: flush_async_chunk, then async_write(empty) while output is pending *)
Definition async_write_response (d : dev) (c : conn) : dev * conn :=
  let (d1, c1) := dev_flush d c in
  match k_pending c1 with
  | [] => (d1, c1)
  | _ => if k_err c1 then (d1, c1) else (d1, async_write c1 [] false)
  end.

(* ---------------------------------------------------------------- copy_buf over the device *)
Record cpy := mkCpy { c_all : bytes; c_unsent : bytes; c_room : N; c_size : N }.
Definition cpy_overflow (y : cpy) (d : dev) (c : conn) (ch : option N) : cpy * dev * conn :=
  let (d1, c1) := match c_unsent y with [] => (d, c) | u => dev_xsputn d c u end in
  let '(room, size) := if c_size y =? 0 then (128, 128)
                       else if c_room y =? 0 then (c_size y, c_size y * 2)
                       else (c_room y, c_size y) in
  match ch with
  | Some x => (mkCpy (c_all y ++ [x]) [x] (room - 1) size, d1, c1)
  | None => (mkCpy (c_all y) [] room size, d1, c1)
  end.
(* libstdc++ basic_streambuf::xsputn *)
Fixpoint cpy_xsputn (fuel : nat) (y : cpy) (d : dev) (c : conn) (s : bytes) : cpy * dev * conn :=
  match fuel with
  | O => (y, d, c)
  | S f =>
    let k := N.min (c_room y) (lenN s) in
    let y1 := mkCpy (c_all y ++ takeN k s) (c_unsent y ++ takeN k s) (c_room y - k) (c_size y) in
    match dropN k s with
    | [] => (y1, d, c)
    | x :: r => let '(y2, d2, c2) := cpy_overflow y1 d c (Some x) in cpy_xsputn f y2 d2 c2 r
    end
  end.
Definition cpy_sputc (y : cpy) (d : dev) (c : conn) (ch : N) : cpy * dev * conn :=
  if 0 <? c_room y then (mkCpy (c_all y ++ [ch]) (c_unsent y ++ [ch]) (c_room y - 1) (c_size y), d, c)
  else cpy_overflow y d c (Some ch).
Definition cpy_sync (y : cpy) (d : dev) (c : conn) : cpy * dev * conn :=
  let '(y1, d1, c1) := cpy_overflow y d c None in
  let (d2, c2) := dev_sync d1 c1 in (y1, d2, c2).

(* ---------------------------------------------------------------- copy_buf exactly (src/http_response.cpp details::copy_buf)
   buffer_ is a std::vector<char>; pbase/pptr/epptr are offsets into it.  cb_rpre is the content of buffer_[0 .. pptr) in
   REVERSE order (so that storing is O(1)); buffer_[pptr ..) is zero: resize value-initialises and the put area is only
   written at pptr.  When setp moves pptr forward over never-written bytes (growth branch: new pbase = old buffer_.size()),
   those zero bytes become part of the content below pptr -- this is what happens if the put window does not end at
   buffer_.size().  cb_null = (pptr() == 0): true only before the first overflow (overflow after getstr is not modelled).
   The cpy record above abstracts this buffer (c_all = everything written); ProofsCb.v shows that the abstraction is
   exact: getstr returns everything written, for every write sequence of any size. *)
Record cbuf := mkCb { cb_null : bool; cb_rpre : bytes; cb_pptr : N; cb_bsize : N; cb_pbase : N; cb_epptr : N }.
Definition cb0 : cbuf := mkCb true [] 0 0 0 0.
Definition CB_INIT : N := 128.                                      (* buffer_.resize(128) *)
Definition cb_grow_resize (size : N) : N := size * 2.                (* buffer_.resize(size * 2) *)
Definition cb_grow_base (size : N) : N := size.                      (* setp(&buffer_[size], ...) *)
Definition cb_grow_end (size : N) : N := size + size.                (* ... &buffer_[size] + size) *)
Definition cb_getstr_n (bsize epptr pptr : N) : N := bsize - (epptr - pptr).   (* n = buffer_.size() - (epptr() - pptr()) *)
(* the bytes pbase .. pptr, handed to out_->sputn *)
Definition cb_forward (b : cbuf) : bytes := rev_append (firstn (N.to_nat (cb_pptr b - cb_pbase b)) (cb_rpre b)) [].   (* rev, linear *)
Definition cb_store (b : cbuf) (x : N) : cbuf :=
  mkCb (cb_null b) (x :: cb_rpre b) (cb_pptr b + 1) (cb_bsize b) (cb_pbase b) (cb_epptr b).
(* overflow(c): returns the new state and what was forwarded to out_ *)
Definition cb_overflow (b : cbuf) (ch : option N) : cbuf * bytes :=
  let fwd := cb_forward b in
  let b1 :=
    if cb_null b then
      let sz := if cb_bsize b =? 0 then CB_INIT else cb_bsize b in
      mkCb false [] 0 sz 0 sz                                         (* setp(&buffer_[0], &buffer_[0] + buffer_.size()) *)
    else if cb_pptr b =? cb_epptr b then
      let size := cb_bsize b in
      let base := cb_grow_base size in
      mkCb false (repeat 0 (N.to_nat (base - cb_pptr b)) ++ cb_rpre b) base (cb_grow_resize size) base (cb_grow_end size)
    else mkCb false (cb_rpre b) (cb_pptr b) (cb_bsize b) (cb_pptr b) (cb_epptr b) in   (* setp(pptr(), epptr()) *)
  (match ch with Some x => cb_store b1 x | None => b1 end, fwd).
Definition cb_sputc (b : cbuf) (x : N) : cbuf * bytes :=
  if cb_pptr b <? cb_epptr b then (cb_store b x, []) else cb_overflow b (Some x).
Fixpoint cb_xsputn (fuel : nat) (b : cbuf) (s : bytes) : cbuf * list bytes :=
  match fuel with
  | O => (b, [])
  | S f =>
    let k := N.min (cb_epptr b - cb_pptr b) (lenN s) in
    let b1 := mkCb (cb_null b) (rev_append (takeN k s) (cb_rpre b)) (cb_pptr b + k) (cb_bsize b) (cb_pbase b) (cb_epptr b) in
    match dropN k s with
    | [] => (b1, [])
    | x :: r => let (b2, fwd) := cb_overflow b1 (Some x) in let (b3, fs) := cb_xsputn f b2 r in (b3, fwd :: fs)
    end
  end.
(* getstr(std::string &): the first n bytes of buffer_ *)
Definition cb_getstr (b : cbuf) : bytes :=
  takeN (cb_getstr_n (cb_bsize b) (cb_epptr b) (cb_pptr b)) (rev_append (cb_rpre b) [] ++ repeat 0 (N.to_nat (cb_bsize b - cb_pptr b))).

(* ---------------------------------------------------------------- response + application script *)
Inductive op :=
| OWrite (s : bytes)          (* ostream::write *)
| OPut (s : bytes)            (* ostream::put for every byte *)
| OFlush
| OSetbuf (neg : bool) (n : N)   (* response::setbuf(n), neg = negative argument *)
| OFull (b : bool)
| OHeader (k v : bytes)       (* set_header; content_length(n) and status(n) are set_header calls *)
| OCookie (k v : bytes)
| OCopy                        (* copy_to_cache() (cache miss in fetch_page) *)
| OAsyncFlush.                 (* context::async_flush_output and its completion *)

Record resp := mkResp {
  r_hdrs : headers; r_reqbuf : option N; r_out : bool; r_copy_flag : bool; r_copy_on : bool;
  r_cpy : cpy; r_dev : dev; r_defbuf : N; r_version : bytes }.
Definition set_rdev (r : resp) (y : cpy) (d : dev) : resp :=
  mkResp (r_hdrs r) (r_reqbuf r) (r_out r) (r_copy_flag r) (r_copy_on r) y d (r_defbuf r) (r_version r).

Definition set_response_headers (f : fmt) (h : headers) (version : bytes) : fmt :=
  match f_proto f with
  | Http => let cl := hmap_get (h_map h) CONTENT_LENGTH in
            set_fmt f (format_http_headers h version) false (f_chunked f)
                    (match cl with [] => None | _ => Some (parse_dec cl) end) 0 (f_keepalive f)
  | _ => set_fmt f (format_cgi_headers h) false (f_chunked f) (f_ocl f) (f_owritten f) (f_keepalive f)
  end.
(* response::out() on first use *)
Definition resp_out (r : resp) (c : conn) : resp * conn :=
  if r_out r then (r, c)
  else let bsize := match r_reqbuf r with Some n => n | None => r_defbuf r end in
       let d := dev_open (r_dev r) bsize in
       (mkResp (r_hdrs r) (r_reqbuf r) true (r_copy_flag r) (r_copy_flag r) (r_cpy r) d (r_defbuf r) (r_version r),
        with_fmt c (set_response_headers (k_fmt c) (r_hdrs r) (r_version r))).
Fixpoint put_all (f : resp -> conn -> N -> resp * conn) (r : resp) (c : conn) (s : bytes) : resp * conn :=
  match s with [] => (r, c) | x :: t => let (r1, c1) := f r c x in put_all f r1 c1 t end.
Definition resp_putc (r : resp) (c : conn) (x : N) : resp * conn :=
  if r_copy_on r then let '(y, d, c1) := cpy_sputc (r_cpy r) (r_dev r) c x in (set_rdev r y d, c1)
  else let (d, c1) := dev_sputc (r_dev r) c x in (set_rdev r (r_cpy r) d, c1).
Definition set_hdrs (r : resp) (h : headers) : resp :=
  mkResp h (r_reqbuf r) (r_out r) (r_copy_flag r) (r_copy_on r) (r_cpy r) (r_dev r) (r_defbuf r) (r_version r).

Definition step (r : resp) (c : conn) (o : op) : resp * conn :=
  match o with
  | OWrite s => let (r1, c1) := resp_out r c in
      if r_copy_on r1 then let '(y, d, c2) := cpy_xsputn (S (length s)) (r_cpy r1) (r_dev r1) c1 s in (set_rdev r1 y d, c2)
      else let (d, c2) := dev_xsputn (r_dev r1) c1 s in (set_rdev r1 (r_cpy r1) d, c2)
  | OPut s => let (r1, c1) := resp_out r c in put_all resp_putc r1 c1 s
  | OFlush => let (r1, c1) := resp_out r c in
      if r_copy_on r1 then let '(y, d, c2) := cpy_sync (r_cpy r1) (r_dev r1) c1 in (set_rdev r1 y d, c2)
      else let (d, c2) := dev_sync (r_dev r1) c1 in (set_rdev r1 (r_cpy r1) d, c2)
  | OSetbuf neg n =>
      let r1 := mkResp (r_hdrs r) (if neg then None else Some n) (r_out r) (r_copy_flag r) (r_copy_on r) (r_cpy r) (r_dev r)
                       (r_defbuf r) (r_version r) in
      if r_out r then let (d, c1) := dev_setbuf (r_dev r) c (if neg then r_defbuf r else n) in (set_rdev r1 (r_cpy r1) d, c1)
      else (r1, c)
  | OFull b => if d_async (r_dev r) then let (d, c1) := dev_full (r_dev r) c b in (set_rdev r (r_cpy r) d, c1) else (r, c)
  | OHeader k v => (set_hdrs r (mkHeaders (hmap_set (h_map (r_hdrs r)) k v) (h_added (r_hdrs r))), c)
  | OCookie k v => (set_hdrs r (mkHeaders (h_map (r_hdrs r)) (h_added (r_hdrs r) ++ [cookie_line k v])), c)
  | OCopy => (mkResp (r_hdrs r) (r_reqbuf r) (r_out r) true (r_copy_on r) (r_cpy r) (r_dev r) (r_defbuf r) (r_version r), c)
  | OAsyncFlush => if d_async (r_dev r) && r_out r then      (* before out() the device has no connection: flush fails, nothing is pending *) let (d, c1) := async_write_response (r_dev r) c in (set_rdev r (r_cpy r) d, c1)
                   else (r, c)
  end.
Fixpoint run_ops (r : resp) (c : conn) (ops : list op) : resp * conn :=
  match ops with [] => (r, c) | o :: t => let (r1, c1) := step r c o in run_ops r1 c1 t end.
(* response::finalize, then complete_response / async_complete_response *)
Definition finish (r : resp) (c : conn) : resp * conn :=
  let (r1, c1) := resp_out r c in
  let '(y, d1, c2) := if r_copy_on r1 then cpy_overflow (r_cpy r1) (r_dev r1) c1 None else (r_cpy r1, r_dev r1, c1) in
  let (d2, c3) := dev_close d1 c2 in
  let (d3, c4) := if d_async d2 then async_write_response d2 c3 else (d2, c3) in
  (set_rdev r1 y d3, c4).

Definition new_dev (async : bool) : dev := mkDev async 0 0 [] async false false.   (* output_device has no full buffering mode *)
Definition new_resp (async : bool) (base : headers) (defbuf : N) (version : bytes) : resp :=
  mkResp base None false false false (mkCpy [] [] 0 0) (new_dev async) defbuf version.
(* one request: returns the final connection and the copied page (copied_data()) *)
(* what copy_buf sees: every output operation of the script in order (out() installs it before the first one), then close *)
Fixpoint cb_run (b : cbuf) (ops : list op) : cbuf :=
  match ops with
  | [] => b
  | o :: t =>
    cb_run (match o with
            | OWrite s => fst (cb_xsputn (S (length s)) b s)
            | OPut s => fold_left (fun b x => fst (cb_sputc b x)) s b
            | OFlush => fst (cb_overflow b None)
            | _ => b
            end) t
  end.
Definition cb_page (ops : list op) : bytes := cb_getstr (fst (cb_overflow (cb_run cb0 ops) None)).   (* close(), copied_data() *)
Definition run_request (async : bool) (base : headers) (defbuf : N) (version : bytes) (c : conn) (ops : list op) : conn * bytes :=
  let (r, c1) := run_ops (new_resp async base defbuf version) c ops in
  let (r2, c2) := finish r c1 in
  (c2, if r_copy_on r2 then cb_page ops else []).
Definition new_conn (p : proto) (http11 cka : bool) (rid : N) (server : bytes) (pending : bytes) (sched : list N) (log : list (N * N)) : conn :=
  mkConn (mkFmt p http11 cka rid server [] false false None 0 false) pending [] sched log false [].

(* ---------------------------------------------------------------- independent decoders (specifications) *)
Definition hexval (c : N) : option N :=
  if (48 <=? c) && (c <=? 57) then Some (c - 48)
  else if (97 <=? c) && (c <=? 102) then Some (c - 87)
  else if (65 <=? c) && (c <=? 70) then Some (c - 55) else None.
(* leading hex digits: value and the rest *)
Fixpoint read_hex (acc : N) (s : bytes) : N * bytes :=
  match s with
  | c :: r => match hexval c with Some d => read_hex (acc * 16 + d) r | None => (acc, s) end
  | [] => (acc, [])
  end.
Definition strip_crlf (s : bytes) : option bytes := match s with 13 :: 10 :: r => Some r | _ => None end.
(* chunked transfer coding -> (body, bytes after the last chunk) *)
Fixpoint unchunk (fuel : nat) (s : bytes) : option (bytes * bytes) :=
  match fuel with
  | O => None
  | S f =>
    match s with
    | [] => None
    | c :: _ =>
      match hexval c with
      | None => None
      | Some _ =>
        let (n, r) := read_hex 0 s in
        match strip_crlf r with
        | None => None
        | Some r1 =>
          if n =? 0 then match strip_crlf r1 with Some r2 => Some ([], r2) | None => None end
          else if lenN r1 <? n then None
          else match strip_crlf (dropN n r1) with
               | None => None
               | Some r2 => match unchunk f r2 with Some (b, rest) => Some (takeN n r1 ++ b, rest) | None => None end
               end
        end
      end
    end
  end.
(* FastCGI record stream -> (stdout bytes, end-request seen, rest) for request id rid *)
Fixpoint unrecord (fuel : nat) (rid : N) (s : bytes) : option (bytes * bytes) :=
  match fuel with
  | O => None
  | S f =>
    match s with
    | 1 :: typ :: r1 :: r0 :: l1 :: l0 :: pad :: _ :: body =>
      let len := l1 * 256 + l0 in
      if negb (r1 * 256 + r0 =? rid) then None
      else if lenN body <? len + pad then None
      else if typ =? 3 then Some ([], dropN (len + pad) body)
      else if typ =? 6 then
        match unrecord f rid (dropN (len + pad) body) with
        | Some (b, rest) => Some (takeN len body ++ b, rest)
        | None => None
        end
      else None
    | _ => None
    end
  end.
