(* C03 proofs, part 5: copy_buf keeps a byte-identical copy of what the application wrote; regression witness of the
   repaired shrinking-setbuf defect *)
From CppcmsV Require Import Base.Tac C03.Defs C03.Proofs.
Local Open Scope N_scope.

Lemma cpy_overflow_all y d c ch : c_all (fst (fst (cpy_overflow y d c ch))) = c_all y ++ match ch with Some x => [x] | None => [] end.
Proof.
  unfold cpy_overflow. destruct (match c_unsent y with [] => (d, c) | _ => _ end) as [d1 c1].
  destruct (if c_size y =? 0 then _ else _) as [room size]. destruct ch; cbn; [reflexivity|now rewrite app_nil_r].
Qed.

Lemma cpy_xsputn_all : forall fuel y d c s, (length s < fuel)%nat ->
  c_all (fst (fst (cpy_xsputn fuel y d c s))) = c_all y ++ s.
Proof.
  induction fuel as [|f IH]; intros y d c s Hf; [lia|].
  cbn [cpy_xsputn]. set (k := N.min (c_room y) (lenN s)).
  destruct (dropN k s) as [|x r] eqn:ED.
  - cbn. f_equal. rewrite <- (take_drop k s) at 2. rewrite ED. now rewrite app_nil_r.
  - pose proof (cpy_overflow_all (mkCpy (c_all y ++ takeN k s) (c_unsent y ++ takeN k s) (c_room y - k) (c_size y)) d c (Some x)) as HO.
    destruct (cpy_overflow _ d c (Some x)) as [[y2 d2] c2]. cbn [fst] in HO.
    assert (Hr : (length r < f)%nat).
    { assert (length (dropN k s) <= length s)%nat by (unfold dropN; rewrite skipn_length; lia). rewrite ED in H. cbn in H. lia. }
    rewrite IH by exact Hr. rewrite HO. cbn [c_all]. rewrite <- !app_assoc. f_equal.
    rewrite <- (take_drop k s) at 2. rewrite ED. reflexivity.
Qed.

Lemma cpy_sputc_all y d c ch : c_all (fst (fst (cpy_sputc y d c ch))) = c_all y ++ [ch].
Proof.
  unfold cpy_sputc. destruct (0 <? c_room y); [reflexivity|]. apply (cpy_overflow_all y d c (Some ch)).
Qed.
Lemma cpy_sync_all y d c : c_all (fst (fst (cpy_sync y d c))) = c_all y.
Proof.
  unfold cpy_sync. pose proof (cpy_overflow_all y d c None) as H.
  destruct (cpy_overflow y d c None) as [[y1 d1] c1]. destruct (dev_sync d1 c1). cbn [fst] in *. now rewrite H, app_nil_r.
Qed.

(* regression witness of the defect repaired by /repo commit 00eb9d4: a shrinking setbuf in fully buffered asynchronous
   mode used to destroy buffered output (the old model, faithful to the old code, put CR LF 1 0 0 0 5 on the wire).
   SCGI, no headers, default schedule: the application writes 1 2 3 4, calls setbuf(1), writes 5 *)
Definition shrink_ops : list op := [OWrite [1;2;3;4]; OSetbuf false 1; OWrite [5]].
Lemma shrink_witness :
  let c := new_conn Scgi true false 1 [] [] [] [] in
  concat (k_wire (fst (run_request true (mkHeaders [] []) 1024 [] c shrink_ops))) = CRLF ++ [1;2;3;4;5].
Proof. vm_compute. reflexivity. Qed.
(* setbuf(0) with content buffered, then put (sputc -> overflow grows the vector) and an asynchronous flush *)
Definition shrink0_ops : list op := [OWrite [1;2;3]; OSetbuf false 0; OPut [4;5]; OAsyncFlush; OSetbuf false 0; OWrite [6]].
Lemma shrink0_witness :
  let c := new_conn Scgi true false 1 [] [] [2;0;1] [] in
  concat (k_wire (fst (run_request true (mkHeaders [] []) 1024 [] c shrink0_ops))) = CRLF ++ [1;2;3;4;5;6].
Proof. vm_compute. reflexivity. Qed.

(* boolean equality used by large non-vacuity examples (keeps the normal form small) *)
Fixpoint eqb_bytes (a b : bytes) : bool :=
  match a, b with
  | [], [] => true
  | x :: a', y :: b' => (x =? y) && eqb_bytes a' b'
  | _, _ => false
  end.
Lemma eqb_bytes_eq : forall a b, eqb_bytes a b = true -> a = b.
Proof.
  induction a as [|x a IH]; destruct b as [|y b]; cbn; try discriminate; [reflexivity|].
  intros H. apply andb_prop in H. destruct H as [H1 H2]. apply N.eqb_eq in H1. subst. f_equal. now apply IH.
Qed.
