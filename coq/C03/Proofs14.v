(* C03 proofs, part 14: a cookie set before the first output is a line of the header block fixed by out() *)
From Coq Require Import Sorting.Sorted.
From CppcmsV Require Import Base.Tac C03.Defs C03.Proofs C03.Proofs2 C03.Proofs3 C03.Proofs4 C03.Proofs5 C03.Proofs6 C03.ProofsHdr.
Local Open Scope N_scope.

Lemma hdr_step_added_mono h o l : In l (h_added h) -> In l (h_added (hdr_step h o)).
Proof. intros H. destruct o; cbn [hdr_step h_added]; try exact H. apply in_or_app. now left. Qed.

Lemma hdrs_at_out_added_mono : forall ops h l, In l (h_added h) -> In l (h_added (hdrs_at_out h ops)).
Proof.
  induction ops as [|o t IH]; intros h l H; cbn [hdrs_at_out]; [exact H|].
  destruct (is_output o); [exact H|]. apply IH. now apply hdr_step_added_mono.
Qed.

Lemma cookie_at_out : forall pre h k v rest, Forall (fun o => is_output o = false) pre ->
  In (cookie_line k v) (h_added (hdrs_at_out h (pre ++ OCookie k v :: rest))).
Proof.
  induction pre as [|o pre IH]; intros h k v rest Hpre.
  - cbn [app hdrs_at_out is_output hdr_step]. apply hdrs_at_out_added_mono. cbn [h_added]. apply in_or_app. right. now left.
  - pose proof (Forall_inv Hpre) as Ho. pose proof (Forall_inv_tail Hpre) as Hpre'. cbn [app hdrs_at_out]. rewrite Ho. now apply IH.
Qed.

(* set_cookie(k, v) before the first output => the block that out() fixes contains the line  Set-Cookie:k=v; Version=1 *)
Lemma cookie_set_is_in_block pre h k v rest : Forall (fun o => is_output o = false) pre ->
  exists p q, format_cgi_headers (hdrs_at_out h (pre ++ OCookie k v :: rest)) = p ++ (cookie_line k v ++ CRLF) ++ q.
Proof. intros Hpre. apply cgi_block_cookie. now apply cookie_at_out. Qed.
