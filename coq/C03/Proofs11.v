(* C03 proofs, part 11: an asynchronous HTTP response with an application-declared Content-Length never puts the
   connection into the error state as long as the script writes no more than it announced -- whatever the accept
   schedule does.  (The only error source left on this path is the output_written_ overrun check of
   http::format_output; the budget argument: the ghost trace only grows, its final data is the script body.) *)
From CppcmsV Require Import Base.Tac C03.Defs C03.Proofs C03.Proofs2 C03.Proofs3 C03.Proofs4 C03.Proofs5 C03.Proofs6 C03.Proofs7 C03.Proofs8 C03.Proofs9.
Local Open Scope N_scope.

(* ---------------------------------------------------------------- a generic relation along an asynchronous response *)
Section AsyncRel.
  Variable R : conn -> conn -> Prop.
  Hypothesis R_refl : forall c, R c c.
  Hypothesis R_trans : forall a b c, R a b -> R b c -> R a c.
  Hypothesis R_nb : forall c g e, R c (fst (nonblocking_write (add_trace c g e) g e)).
  Hypothesis R_as : forall c g e, R c (async_write c g e).

  Definition asy (d : dev) : Prop := d_async d = true.

  Lemma R_dev_write d c g : asy d -> R c (snd (dev_write d c g)).
  Proof. intros Ha. unfold dev_write, do_write. cbn [snd]. rewrite Ha. apply R_nb. Qed.

  Ltac r_write :=
    match goal with
    | |- context[dev_write ?d ?c ?g] =>
        let H := fresh "H" in
        assert (H : R c (snd (dev_write d c g))) by (apply R_dev_write; assumption);
        destruct (dev_write d c g); cbn [fst snd] in *; exact H
    end.

  Lemma R_dev_xsputn d c s : asy d -> R c (snd (dev_xsputn d c s)).
  Proof.
    intros Hd. unfold dev_xsputn. destruct (d_full d).
    - destruct (_ <? _); apply R_refl.
    - destruct (_ <=? _); [apply R_refl|]. r_write.
  Qed.
  Lemma R_dev_overflow d c ch : asy d -> R c (snd (dev_overflow d c ch)).
  Proof. intros Hd. unfold dev_overflow. destruct (d_full d); [apply R_refl|]. r_write. Qed.
  Lemma R_dev_sputc d c ch : asy d -> R c (snd (dev_sputc d c ch)).
  Proof. intros Hd. unfold dev_sputc. destruct (_ <? _); [apply R_refl|now apply R_dev_overflow]. Qed.
  Lemma R_dev_sync d c : asy d -> R c (snd (dev_sync d c)).
  Proof. intros Hd. now apply R_dev_overflow. Qed.
  Lemma R_dev_flush d c : asy d -> R c (snd (dev_flush d c)).
  Proof. intros Hd. unfold dev_flush. r_write. Qed.
  Lemma R_basic_setbuf d c n : asy d -> R c (snd (basic_setbuf d c n)).
  Proof.
    intros Hd. unfold basic_setbuf. destruct (_ <? _); [|apply R_refl].
    pose proof (R_dev_flush (set_cap d n) c Hd) as H. destruct (dev_flush (set_cap d n) c). exact H.
  Qed.
  Lemma R_dev_setbuf d c n : asy d -> R c (snd (dev_setbuf d c n)).
  Proof. intros Hd. unfold dev_setbuf. destruct (d_full d); [apply R_refl|now apply R_basic_setbuf]. Qed.
  Lemma R_dev_full d c b : asy d -> R c (snd (dev_full d c b)).
  Proof.
    intros Hd. unfold dev_full. destruct (Bool.eqb _ _); [apply R_refl|]. destruct b; [apply R_refl|].
    apply R_basic_setbuf. exact Hd.
  Qed.
  Lemma R_async_write_response d c : asy d -> R c (snd (async_write_response d c)).
  Proof.
    intros Hd. unfold async_write_response. pose proof (R_dev_flush d c Hd) as H.
    destruct (dev_flush d c) as [d1 c1]. cbn [snd] in H.
    destruct (k_pending c1); [exact H|]. destruct (k_err c1); [exact H|]. cbn [snd].
    eapply R_trans; [exact H|]. apply R_as.
  Qed.

  Lemma side_asy d c d' c' : asy d -> side d c d' c' -> asy d'.
  Proof. intros A (_ & A' & _). unfold asy in *. congruence. Qed.

  Lemma R_cpy_overflow y d c ch : asy d -> R c (snd (cpy_overflow y d c ch)).
  Proof.
    intros Hd. unfold cpy_overflow.
    assert (H : R c (snd (match c_unsent y with [] => (d, c) | u => dev_xsputn d c u end))).
    { destruct (c_unsent y); [apply R_refl|now apply R_dev_xsputn]. }
    destruct (match c_unsent y with [] => (d, c) | u => dev_xsputn d c u end) as [d1 c1]. cbn [snd] in H.
    destruct (if c_size y =? 0 then _ else _). destruct ch; exact H.
  Qed.
  Lemma R_cpy_xsputn : forall fuel y d c s, ok d -> asy d -> R c (snd (cpy_xsputn fuel y d c s)).
  Proof.
    induction fuel as [|f IH]; intros y d c s Hok Hd; [apply R_refl|].
    cbn [cpy_xsputn]. set (k := N.min (c_room y) (lenN s)).
    set (y1 := mkCpy _ _ _ _). destruct (dropN k s) as [|x r]; [apply R_refl|].
    pose proof (cpy_overflow_cons y1 d c (Some x) Hok) as HO. pose proof (R_cpy_overflow y1 d c (Some x) Hd) as HN.
    destruct (cpy_overflow y1 d c (Some x)) as [[y2 d2] c2]. cbn [snd] in HN.
    destruct HO as (_ & S & _). eapply R_trans; [exact HN|].
    apply IH; [destruct S as (O & _); exact O|eapply side_asy; eassumption].
  Qed.
  Lemma R_cpy_sputc y d c ch : asy d -> R c (snd (cpy_sputc y d c ch)).
  Proof. intros Hd. unfold cpy_sputc. destruct (0 <? c_room y); [apply R_refl|now apply R_cpy_overflow]. Qed.
  Lemma R_cpy_sync y d c : ok d -> asy d -> R c (snd (cpy_sync y d c)).
  Proof.
    intros Hok Hd. unfold cpy_sync.
    pose proof (cpy_overflow_cons y d c None Hok) as HO. pose proof (R_cpy_overflow y d c None Hd) as HN.
    destruct (cpy_overflow y d c None) as [[y1 d1] c1]. cbn [snd] in HN. destruct HO as (_ & S & _).
    assert (Hd1 : asy d1) by (eapply side_asy; eassumption).
    pose proof (R_dev_sync d1 c1 Hd1) as H2. destruct (dev_sync d1 c1). cbn [snd] in *. eapply R_trans; eassumption.
  Qed.

  Lemma post_asy f0 body r c : Post f0 true body r c -> asy (r_dev r).
  Proof. intros HP. exact (p_async _ _ _ _ _ HP). Qed.

  Lemma R_put_all f0 : forall s body r c, Post f0 true body r c -> R c (snd (put_all resp_putc r c s)).
  Proof.
    induction s as [|x s IH]; intros body r c HP; cbn [put_all]; [apply R_refl|].
    assert (H1 : R c (snd (resp_putc r c x))).
    { unfold resp_putc. destruct (r_copy_on r).
      - pose proof (R_cpy_sputc (r_cpy r) (r_dev r) c x (post_asy _ _ _ _ HP)) as H.
        destruct (cpy_sputc _ _ _ _) as [[y d] c1]. exact H.
      - pose proof (R_dev_sputc (r_dev r) c x (post_asy _ _ _ _ HP)) as H. destruct (dev_sputc _ _ _). exact H. }
    pose proof (step_post f0 true body r c (OPut [x]) HP) as HS. cbv zeta in HS. cbn [step put_all obytes] in HS.
    rewrite (resp_out_done r c (p_out _ _ _ _ _ HP)) in HS.
    destruct (resp_putc r c x) as [r1 c1]. cbn [fst snd] in *.
    eapply R_trans; [exact H1|]. eapply IH. exact HS.
  Qed.

  Lemma R_step f0 body r c o : Post f0 true body r c -> R c (snd (step r c o)).
  Proof.
    intros HP. pose proof (p_out _ _ _ _ _ HP) as Ho. pose proof (p_ok _ _ _ _ _ HP) as Hk. pose proof (post_asy _ _ _ _ HP) as Hd.
    destruct o; cbn [step]; rewrite ?resp_out_done by exact Ho.
    - destruct (r_copy_on r).
      + pose proof (R_cpy_xsputn (S (length s)) (r_cpy r) (r_dev r) c s Hk Hd) as H. destruct (cpy_xsputn _ _ _ _ _) as [[y d] c1]. exact H.
      + pose proof (R_dev_xsputn (r_dev r) c s Hd) as H. destruct (dev_xsputn _ _ _). exact H.
    - eapply R_put_all. exact HP.
    - destruct (r_copy_on r).
      + pose proof (R_cpy_sync (r_cpy r) (r_dev r) c Hk Hd) as H. destruct (cpy_sync _ _ _) as [[y d] c1]. exact H.
      + pose proof (R_dev_sync (r_dev r) c Hd) as H. destruct (dev_sync _ _). exact H.
    - rewrite Ho. pose proof (R_dev_setbuf (r_dev r) c (if neg then r_defbuf r else n) Hd) as H. destruct (dev_setbuf _ _ _). exact H.
    - destruct (d_async (r_dev r)); [|apply R_refl].
      pose proof (R_dev_full (r_dev r) c b Hd) as H. destruct (dev_full _ _ _). exact H.
    - apply R_refl.
    - apply R_refl.
    - apply R_refl.
    - rewrite Ho, andb_true_r. destruct (d_async (r_dev r)); [|apply R_refl].
      pose proof (R_async_write_response (r_dev r) c Hd) as H. destruct (async_write_response _ _). exact H.
  Qed.

  Lemma R_run_ops f0 : forall ops body r c, Post f0 true body r c -> R c (snd (run_ops r c ops)).
  Proof.
    induction ops as [|o t IH]; intros body r c HP; cbn [run_ops]; [apply R_refl|].
    pose proof (R_step f0 body r c o HP) as HN.
    pose proof (step_post f0 true body r c o HP) as HS. cbv zeta in HS.
    destruct (step r c o) as [r1 c1]. cbn [fst snd] in *.
    eapply R_trans; [exact HN|]. eapply IH; eassumption.
  Qed.

  Lemma R_finish f0 body r c : Post f0 true body r c -> R c (snd (finish r c)).
  Proof.
    intros HP. pose proof HP as [Po PJ Pd Pk Pa Pf Pe Pt Pc]. pose proof (post_asy _ _ _ _ HP) as Hd.
    unfold finish. rewrite (resp_out_done r c Po).
    assert (H1 : exists y d1 c2, (if r_copy_on r then cpy_overflow (r_cpy r) (r_dev r) c None else (r_cpy r, r_dev r, c)) = (y, d1, c2) /\
                 R c c2 /\ ok d1 /\ asy d1).
    { destruct (r_copy_on r).
      - pose proof (cpy_overflow_cons (r_cpy r) (r_dev r) c None Pk) as HO. pose proof (R_cpy_overflow (r_cpy r) (r_dev r) c None Hd) as HN.
        destruct (cpy_overflow (r_cpy r) (r_dev r) c None) as [[y d1] c2]. exists y, d1, c2. cbn [snd] in HN.
        destruct HO as (_ & S & _). split; [reflexivity|]. split; [exact HN|]. pose proof S as (O & _).
        split; [exact O|eapply side_asy; eassumption].
      - exists (r_cpy r), (r_dev r), c. split; [reflexivity|]. split; [apply R_refl|]. auto. }
    destruct H1 as (y & d1 & c2 & E1 & N1 & O1 & A1). rewrite E1.
    assert (N2 : R c2 (snd (dev_close d1 c2)) /\ asy (fst (dev_close d1 c2))).
    { unfold dev_close. destruct (d_eofsent d1); [split; [apply R_refl|exact A1]|].
      split; [apply R_dev_flush; exact A1|].
      destruct (dev_flush_spec (set_eof d1 true false) c2 O1) as (_ & _ & _ & _ & _ & A & _). unfold asy. rewrite A. exact A1. }
    destruct N2 as [N2 A2]. destruct (dev_close d1 c2) as [d2 c3]. cbn [fst snd] in *.
    unfold asy in A2. rewrite A2.
    pose proof (R_async_write_response d2 c3 A2) as N3. destruct (async_write_response d2 c3) as [d3 c4]. cbn [snd] in *.
    eapply R_trans; [exact N1|]. eapply R_trans; [exact N2|exact N3].
  Qed.

  (* the whole request: from the connection as out() leaves it (format state fixed, nothing written) to the end *)
  Lemma R_whole : forall ops r c, PreI true r -> k_err c = false -> k_trace c = [] -> sent c = [] ->
    exists r1, R (with_fmt c (set_response_headers (k_fmt c) (hdrs_at_out (r_hdrs r) ops) (r_version r1))) (snd (whole r c ops)) /\
               r_version r1 = r_version r.
  Proof.
    induction ops as [|o t IH]; intros r c HPre He Ht Hs.
    - cbn [hdrs_at_out]. unfold whole. cbn [run_ops]. rewrite finish_out.
      pose proof (out_post true r c HPre He Ht Hs) as HP. cbv zeta in HP.
      pose proof (R_finish _ _ _ _ HP) as HN. exists r. split; [|reflexivity].
      unfold resp_out in HN at 1. rewrite (q_out _ _ HPre) in HN. cbn [snd] in HN. exact HN.
    - cbn [hdrs_at_out]. destruct (is_output o) eqn:EO.
      + pose proof (out_post true r c HPre He Ht Hs) as HP. cbv zeta in HP.
        unfold whole. cbn [run_ops]. rewrite (step_out r c o EO).
        set (r1 := fst (resp_out r c)) in *. set (c1 := snd (resp_out r c)) in *.
        pose proof (R_run_ops _ (o :: t) [] r1 c1 HP) as HN1.
        pose proof (run_ops_post _ true (o :: t) [] r1 c1 HP) as HR. cbv zeta in HR. cbn [run_ops] in HR, HN1.
        destruct (step r1 c1 o) as [r2 c2]. destruct (run_ops r2 c2 t) as [r3 c3]. cbn [fst snd] in *.
        pose proof (R_finish _ _ _ _ HR) as HN2.
        exists r. split; [|reflexivity].
        assert (Ec1 : c1 = with_fmt c (set_response_headers (k_fmt c) (r_hdrs r) (r_version r))).
        { unfold c1, resp_out. rewrite (q_out _ _ HPre). reflexivity. }
        rewrite <- Ec1. eapply R_trans; [exact HN1|exact HN2].
      + destruct (pre_step true r c o HPre EO) as (r' & Es & HPre' & Hh & Hv & Hdef).
        unfold whole. cbn [run_ops]. rewrite Es.
        destruct (IH r' c HPre' He Ht Hs) as (r1 & HR & Hv1). exists r1. split; [|congruence].
        rewrite Hh in HR. exact HR.
  Qed.
End AsyncRel.

(* ---------------------------------------------------------------- the budget relation *)
(* HTTP with a declared Content-Length L: never chunked, output_written_ counts the body bytes *)
Definition DL (L : N) (f : fmt) : Prop :=
  f_proto f = Http /\ f_ocl f = Some L /\ (f_hdr_done f = true -> f_chunked f = false).

Lemma format_DL L f g e : DL L f ->
  exists f1 nd, format_output f g e = (f1, nd, L <? f_owritten f + gsize g) /\ DL L f1 /\ f_hdr_done f1 = true /\
                f_owritten f1 = f_owritten f + gsize g.
Proof.
  intros (Hp & Ho & Hc). unfold format_output. rewrite Hp. unfold http_format.
  destruct (f_hdr_done f) eqn:Ed.
  - rewrite (Hc eq_refl). eexists _, _. split; [unfold overrun; rewrite Ho; reflexivity|].
    unfold DL. cbn [set_fmt f_proto f_ocl f_hdr_done f_chunked f_owritten]. auto.
  - unfold http_head. rewrite Ho. cbn [isSome orb negb]. rewrite andb_true_r, andb_false_r.
    eexists _, _. split; [unfold overrun; reflexivity|].
    unfold DL. cbn [set_fmt f_proto f_ocl f_hdr_done f_chunked f_owritten]. auto.
Qed.

Lemma fmt_after_DL L : forall t f, DL L f ->
  DL L (fmt_after f t) /\ f_owritten (fmt_after f t) = f_owritten f + lenN (concat (map data_of t)).
Proof.
  induction t as [|[g e] t IH]; intros f H; cbn [fmt_after map concat].
  - split; [exact H|]. cbn. lia.
  - destruct (format_DL L f g e H) as (f1 & nd & Ef & H1 & _ & Hw). rewrite Ef.
    destruct (IH f1 H1) as [A B]. split; [exact A|]. rewrite B, Hw. unfold data_of at 2. cbn [fst]. rewrite lenN_app. unfold gsize. lia.
Qed.

Definition BInv (f0 : fmt) (c : conn) : Prop := k_err c = false /\ k_fmt c = fmt_after f0 (k_trace c).
Definition BR (c c' : conn) : Prop :=
  (exists t, k_trace c' = k_trace c ++ t) /\
  (forall f0 L, DL L f0 -> f_owritten f0 = 0 -> BInv f0 c -> lenN (tr c') <= L -> BInv f0 c').

Lemma tr_trace_app c c' t : k_trace c' = k_trace c ++ t -> tr c' = tr c ++ concat (map data_of t).
Proof. intros H. unfold tr. rewrite H, map_app, concat_app. reflexivity. Qed.

Lemma BR_refl c : BR c c.
Proof. split; [exists []; now rewrite app_nil_r|auto]. Qed.
Lemma BR_trans a b c : BR a b -> BR b c -> BR a c.
Proof.
  intros [[t1 T1] H1] [[t2 T2] H2]. split; [exists (t1 ++ t2); now rewrite T2, T1, app_assoc|].
  intros f0 L HD Hw HI Hfit. apply (H2 f0 L HD Hw); [|exact Hfit].
  apply (H1 f0 L HD Hw HI). rewrite (tr_trace_app b c t2 T2), lenN_app in Hfit. lia.
Qed.

Lemma BR_write c g e c' :
  k_trace c' = k_trace c ++ [(g, e)] ->
  (forall f1 nd, k_err c = false -> format_output (k_fmt c) g e = (f1, nd, false) -> k_fmt c' = f1 /\ k_err c' = false) ->
  BR c c'.
Proof.
  intros HT HW. split; [exists [(g, e)]; exact HT|].
  intros f0 L HD Hw0 [He Hf] Hfit.
  destruct (fmt_after_DL L (k_trace c) f0 HD) as [HD1 Hw1]. rewrite <- Hf in HD1, Hw1.
  destruct (format_DL L (k_fmt c) g e HD1) as (f1 & nd & Ef & _).
  assert (Efit : (L <? f_owritten (k_fmt c) + gsize g) = false).
  { apply N.ltb_ge. rewrite Hw1, Hw0. rewrite (tr_trace_app c c' _ HT), lenN_app in Hfit. cbn [map concat] in Hfit.
    rewrite app_nil_r in Hfit. unfold data_of in Hfit at 1. cbn [fst] in Hfit. unfold tr in Hfit. unfold gsize.
    rewrite N.add_0_l. exact Hfit. }
  rewrite Efit in Ef. destruct (HW f1 nd He Ef) as [A B]. split; [exact B|].
  rewrite A, HT, fmt_after_app, <- Hf. cbn [fmt_after]. now rewrite Ef.
Qed.

Lemma BR_nb c g e : BR c (fst (nonblocking_write (add_trace c g e) g e)).
Proof.
  apply (BR_write c g e).
  - rewrite nonblocking_write_trace. reflexivity.
  - intros f1 nd He Ef. pose proof (nb_write_sent (add_trace c g e) g e f1 nd He Ef) as H. cbv zeta in H.
    destruct H as (_ & A & B & _). auto.
Qed.
Lemma BR_as c g e : BR c (async_write c g e).
Proof.
  apply (BR_write c g e).
  - apply async_write_trace.
  - intros f1 nd He Ef. pose proof (async_write_spec c g e f1 nd He Ef) as H. cbv zeta in H.
    destruct H as (_ & _ & A & B & _). auto.
Qed.

(* ---------------------------------------------------------------- the theorem *)
Lemma done_tr f0 body c : Done f0 body c -> tr c = body.
Proof.
  intros [_ (t & g & k & Et & _ & Hb) _]. unfold tr. rewrite Et, !map_app, !concat_app. cbn [map concat fst].
  set (Y := concat (map _ (repeat _ k))).
  assert (EY : Y = []) by (unfold Y; clear; induction k as [|k IH]; [reflexivity|cbn [repeat map concat fst app]; exact IH]).
  rewrite EY, !app_nil_r. exact Hb.
Qed.

Lemma async_declared_noerr base defbuf version c ops L :
  fresh c -> f_proto (k_fmt c) = Http ->
  hmap_get (h_map (hdrs_at_out base ops)) CONTENT_LENGTH <> [] ->
  parse_dec (hmap_get (h_map (hdrs_at_out base ops)) CONTENT_LENGTH) = L ->
  lenN (script_body ops) <= L ->
  k_err (fst (run_request true base defbuf version c ops)) = false.
Proof.
  intros (He & Ht & Hw & Hp) Hproto Hcl HL Hfit. rewrite run_request_whole. cbn [fst].
  assert (Hs : sent c = []) by (unfold sent, wire_bytes; now rewrite Hw, Hp).
  set (r := new_resp true base defbuf version).
  destruct (R_whole BR BR_refl BR_trans BR_nb BR_as ops r c (pre_new _ _ _ _) He Ht Hs) as (r1 & [_ HB] & Hv).
  pose proof (whole_done true ops r c (pre_new _ _ _ _) He Ht Hs) as HD. cbv zeta in HD. destruct HD as [HD _].
  unfold r in *. cbn [new_resp r_hdrs r_version] in *. rewrite Hv in HB.
  set (f0 := set_response_headers (k_fmt c) (hdrs_at_out base ops) version) in *.
  assert (HDL : DL L f0 /\ f_owritten f0 = 0).
  { unfold f0, set_response_headers. rewrite Hproto. cbn [set_fmt f_proto f_ocl f_hdr_done f_chunked f_owritten].
    destruct (hmap_get (h_map (hdrs_at_out base ops)) CONTENT_LENGTH) eqn:E; [contradiction|].
    unfold DL. cbn [set_fmt f_proto f_ocl f_hdr_done f_chunked f_owritten]. rewrite HL.
    split; [split; [exact Hproto|split; [reflexivity|intros X; discriminate X]]|reflexivity]. }
  destruct HDL as [HDL Hw0].
  assert (HI : BInv f0 (with_fmt c f0)) by (split; [exact He|cbn [with_fmt k_fmt k_trace]; rewrite Ht; reflexivity]).
  specialize (HB f0 L HDL Hw0 HI). rewrite (done_tr _ _ _ HD) in HB.
  destruct (HB Hfit) as [E _]. exact E.
Qed.

(* hence, unconditionally: the declared-length response is delivered verbatim *)
Lemma async_declared_unconditional base defbuf version c ops :
  fresh c -> f_proto (k_fmt c) = Http ->
  hmap_get (h_map (hdrs_at_out base ops)) CONTENT_LENGTH <> [] ->
  lenN (script_body ops) <= parse_dec (hmap_get (h_map (hdrs_at_out base ops)) CONTENT_LENGTH) ->
  wire_bytes (fst (run_request true base defbuf version c ops)) =
    (format_http_headers (hdrs_at_out base ops) version ++ f_server (k_fmt c) ++
     (if f_cka (k_fmt c) then CONN_KA else CONN_CLOSE) ++ CRLF) ++ script_body ops.
Proof.
  intros Hf Hp Hcl Hfit. apply http_declared_exact; auto.
  eapply async_declared_noerr; eauto.
Qed.
