(* C03 proofs, part 1: gather buffers, the socket, pending_output_ bookkeeping of the connection *)
From CppcmsV Require Import Base.Tac C03.Defs.
Local Open Scope N_scope.

(* ---------------------------------------------------------------- lists *)
Lemma lenN_app {A} (a b : list A) : lenN (a ++ b) = lenN a + lenN b.
Proof. unfold lenN. rewrite app_length. lia. Qed.
Lemma lenN_nil {A} : lenN (@nil A) = 0.
Proof. reflexivity. Qed.
Lemma lenN_0 {A} (l : list A) : lenN l = 0 -> l = [].
Proof. unfold lenN. destruct l; cbn; [auto|lia]. Qed.
Lemma take_drop {A} n (l : list A) : takeN n l ++ dropN n l = l.
Proof. apply firstn_skipn. Qed.
Lemma takeN_all {A} n (l : list A) : lenN l <= n -> takeN n l = l.
Proof. unfold takeN, lenN. intros H. apply firstn_all2. lia. Qed.
Lemma dropN_all {A} n (l : list A) : lenN l <= n -> dropN n l = [].
Proof. unfold dropN, lenN. intros H. apply skipn_all2. lia. Qed.
Lemma dropN_0 {A} (l : list A) : dropN 0 l = l.
Proof. reflexivity. Qed.
Lemma takeN_0 {A} (l : list A) : takeN 0 l = [].
Proof. reflexivity. Qed.
Lemma dropN_app_ge {A} n (a b : list A) : lenN a <= n -> dropN n (a ++ b) = dropN (n - lenN a) b.
Proof.
  unfold dropN, lenN. intros H. rewrite skipn_app. rewrite skipn_all2 by lia. cbn.
  f_equal. lia.
Qed.
Lemma dropN_app_lt {A} n (a b : list A) : n <= lenN a -> dropN n (a ++ b) = dropN n a ++ b.
Proof.
  unfold dropN, lenN. intros H. rewrite skipn_app.
  replace (N.to_nat n - length a)%nat with 0%nat by lia. reflexivity.
Qed.
Lemma takeN_app_le {A} n (a b : list A) : n <= lenN a -> takeN n (a ++ b) = takeN n a.
Proof.
  unfold takeN, lenN. intros H. rewrite firstn_app.
  replace (N.to_nat n - length a)%nat with 0%nat by lia. cbn. apply app_nil_r.
Qed.
Lemma takeN_app_ge {A} n (a b : list A) : lenN a <= n -> takeN n (a ++ b) = a ++ takeN (n - lenN a) b.
Proof.
  unfold takeN, lenN. intros H. rewrite firstn_app. rewrite firstn_all2 by lia.
  f_equal. f_equal. lia.
Qed.
Lemma lenN_takeN {A} n (l : list A) : n <= lenN l -> lenN (takeN n l) = n.
Proof. unfold takeN, lenN. intros H. rewrite firstn_length. lia. Qed.
Lemma lenN_dropN {A} n (l : list A) : lenN (dropN n l) = lenN l - n.
Proof. unfold dropN, lenN. rewrite skipn_length. lia. Qed.

(* ---------------------------------------------------------------- gather buffers *)
Lemma gadd_concat g e : concat (gadd g e) = concat g ++ e.
Proof.
  unfold gadd. destruct e; [now rewrite app_nil_r|].
  rewrite concat_app. cbn. now rewrite app_nil_r.
Qed.
Lemma gsize_app a b : gsize (a ++ b) = gsize a + gsize b.
Proof. unfold gsize. rewrite concat_app. apply lenN_app. Qed.

Lemma gdrop_concat : forall g n, concat (gdrop n g) = dropN n (concat g).
Proof.
  induction g as [|e r IH]; intros n; cbn [gdrop concat].
  - unfold dropN. now rewrite skipn_nil.
  - destruct (N.eqb_spec n 0) as [->|Hn]; [reflexivity|].
    destruct (N.leb_spec (lenN e) n) as [Hl|Hl].
    + rewrite IH. now rewrite dropN_app_ge.
    + cbn [concat]. rewrite dropN_app_lt by lia. reflexivity.
Qed.

Lemma gtake_concat : forall g n t rest, gtake n g = (t, rest) ->
  concat t = takeN n (concat g) /\ concat rest = dropN n (concat g).
Proof.
  induction g as [|e r IH]; intros n t rest; cbn [gtake concat].
  - intros [= <- <-]. unfold takeN, dropN. now rewrite firstn_nil, skipn_nil.
  - destruct (N.eqb_spec n 0) as [->|Hn].
    + intros [= <- <-]. split; reflexivity.
    + destruct (N.leb_spec (lenN e) n) as [Hl|Hl].
      * destruct (gtake (n - lenN e) r) as [t1 rest1] eqn:E. intros [= <- <-].
        destruct (IH _ _ _ E) as [H1 H2]. cbn [concat].
        rewrite takeN_app_ge, dropN_app_ge by assumption. now rewrite H1, H2.
      * intros [= <- <-]. cbn [concat]. rewrite app_nil_r.
        rewrite takeN_app_le, dropN_app_lt by lia. split; reflexivity.
Qed.

Lemma offered_prefix g : concat g = offered g ++ concat (skipn max_vec g).
Proof. unfold offered. rewrite <- concat_app. now rewrite firstn_skipn. Qed.
Lemma offered_le g : lenN (offered g) <= gsize g.
Proof. unfold gsize. rewrite (offered_prefix g). rewrite lenN_app. lia. Qed.

(* ---------------------------------------------------------------- the socket *)
Definition wire_bytes (c : conn) : bytes := concat (k_wire c).
(* the committed stream: what the peer has plus what the connection still owes it *)
Definition sent (c : conn) : bytes := wire_bytes c ++ k_pending c.

Lemma write_some_spec c g n c' : write_some c g = (n, c') ->
  n <= lenN (offered g) /\ wire_bytes c' = wire_bytes c ++ takeN n (concat g) /\
  k_pending c' = k_pending c /\ k_fmt c' = k_fmt c /\ k_err c' = k_err c /\ k_trace c' = k_trace c /\
  k_sched c' = tl (k_sched c) /\ (k_sched c = [] -> n = lenN (offered g)).
Proof.
  unfold write_some. intros [= <- <-].
  assert (Hn : match k_sched c with [] => lenN (offered g) | k :: _ => N.min k (lenN (offered g)) end <= lenN (offered g))
    by (destruct (k_sched c); lia).
  split; [exact Hn|]. split.
  - unfold wire_bytes. cbn. rewrite concat_app. cbn. rewrite app_nil_r. f_equal.
    rewrite (offered_prefix g). now rewrite takeN_app_le.
  - cbn. repeat split. intros ->. reflexivity.
Qed.

(* ---------------------------------------------------------------- nonblocking_write *)
Lemma with_pending_concat c g : concat (with_pending c g) = k_pending c ++ concat g.
Proof. unfold with_pending. destruct (k_pending c); reflexivity. Qed.

Lemma with_fmt_fields c f : k_pending (with_fmt c f) = k_pending c /\ k_wire (with_fmt c f) = k_wire c /\
  k_err (with_fmt c f) = k_err c /\ k_trace (with_fmt c f) = k_trace c /\ k_sched (with_fmt c f) = k_sched c /\ k_fmt (with_fmt c f) = f.
Proof. repeat split. Qed.

(* pending_conservation for one call: whatever prefix the socket accepts (including nothing), the
   bytes already on the wire followed by pending_output_ are the old ones followed by the newly
   formatted data; the three branches of the code are all instances of take n X ++ drop n X = X *)
Lemma nb_write_sent c g eof f1 new_data :
  k_err c = false -> format_output (k_fmt c) g eof = (f1, new_data, false) ->
  let r := nonblocking_write c g eof in
  sent (fst r) = sent c ++ concat new_data /\ k_fmt (fst r) = f1 /\ k_err (fst r) = false /\
  k_trace (fst r) = k_trace c /\ (snd r = true -> k_pending (fst r) = []).
Proof.
  intros He Hf. unfold nonblocking_write. rewrite He, Hf.
  set (c1 := with_fmt c f1).
  assert (HX : concat (with_pending c1 new_data) = k_pending c ++ concat new_data) by (rewrite with_pending_concat; reflexivity).
  destruct (with_pending c1 new_data) as [|o1 orest] eqn:EO.
  - cbn [fst snd]. cbn in HX. symmetry in HX. apply app_eq_nil in HX. destruct HX as [Hp Hn].
    unfold sent, wire_bytes. cbn. rewrite Hn, Hp. rewrite !app_nil_r. repeat split; auto.
  - destruct (write_some c1 (o1 :: orest)) as [n c2] eqn:EW.
    destruct (write_some_spec _ _ _ _ EW) as (Hn & Hw & Hp & Hfm & Her & Htr & _ & _).
    pose proof (offered_le (o1 :: orest)) as Hle. unfold gsize in Hle |- *.
    assert (Her' : k_err c2 = false) by (rewrite Her; exact He).
    assert (Hfm' : k_fmt c2 = f1) by (rewrite Hfm; reflexivity).
    assert (Htr' : k_trace c2 = k_trace c) by (rewrite Htr; reflexivity).
    assert (Hp' : k_pending c2 = k_pending c) by (rewrite Hp; reflexivity).
    assert (Hw' : wire_bytes c2 = wire_bytes c ++ takeN n (concat (o1 :: orest))) by (rewrite Hw; reflexivity).
    clear Hw Hp Hfm Her Htr.
    set (X := concat (o1 :: orest)) in *.
    assert (Hsplit : wire_bytes c2 ++ dropN n X = wire_bytes c ++ k_pending c ++ concat new_data).
    { rewrite Hw'. rewrite <- app_assoc. rewrite take_drop. now rewrite HX. }
    destruct (N.eqb_spec n (lenN X)) as [E1|E1].
    + cbn [fst snd]. unfold sent. cbn [set_pending k_pending k_fmt k_err k_trace]. 
      change (wire_bytes (set_pending c2 [])) with (wire_bytes c2).
      rewrite dropN_all in Hsplit by lia. rewrite app_nil_r in Hsplit. rewrite app_nil_r.
      rewrite Hsplit. rewrite app_assoc. repeat split; auto.
    + destruct (N.eqb_spec n 0) as [E2|E2].
      * cbn [fst snd]. unfold sent. cbn [set_pending k_pending k_fmt k_err k_trace].
        change (wire_bytes (set_pending c2 (k_pending c2 ++ concat new_data))) with (wire_bytes c2).
        subst n. rewrite dropN_0 in Hsplit. rewrite takeN_0, app_nil_r in Hw'.
        rewrite Hw', Hp', app_assoc. repeat split; auto. discriminate.
      * cbn [fst snd]. unfold sent. cbn [set_pending k_pending k_fmt k_err k_trace].
        change (wire_bytes (set_pending c2 (concat (gdrop n (o1 :: orest))))) with (wire_bytes c2).
        rewrite gdrop_concat. fold X. rewrite Hsplit. rewrite app_assoc. repeat split; auto. discriminate.
Qed.

(* error and early-out cases leave the committed stream alone *)
Lemma nb_write_err c g eof : k_err c = true -> nonblocking_write c g eof = (c, true).
Proof. intros H. unfold nonblocking_write. now rewrite H. Qed.

(* ---------------------------------------------------------------- async_write_handler *)
Lemma handler_loop_spec : forall fuel c data, k_pending c = [] -> (length (k_sched c) < fuel)%nat ->
  let c' := handler_loop fuel c data in
  wire_bytes c' = wire_bytes c ++ data /\ k_pending c' = [] /\ k_err c' = k_err c /\ k_fmt c' = k_fmt c /\ k_trace c' = k_trace c.
Proof.
  induction fuel as [|f IH]; intros c data Hp Hf; [lia|]. cbv zeta.
  destruct data as [|x data']; [cbn; rewrite app_nil_r; auto|].
  cbn [handler_loop]. destruct (write_some c _) as [n c1] eqn:EW.
  destruct (write_some_spec _ _ _ _ EW) as (Hn & Hw & Hp1 & Hfm & Her & Htr & Hs & Hall).
  assert (Hoff : forall l : bytes, offered (l :: nil) = l) by (intros l; unfold offered; cbn; now rewrite app_nil_r).
  rewrite Hoff in Hn, Hall. cbn [concat] in Hw. rewrite app_nil_r in Hw.
  destruct (k_sched c) as [|k s'] eqn:ES.
  - specialize (Hall eq_refl). subst n. rewrite dropN_all by lia.
    destruct f; cbn; rewrite Hw, takeN_all by lia; rewrite Hp1, Hp; auto.
  - assert (Hlt : (length (k_sched c1) < f)%nat) by (rewrite Hs; cbn in *; lia).
    specialize (IH c1 (dropN n (x :: data')) (eq_trans Hp1 Hp) Hlt). cbv zeta in IH.
    destruct IH as (A & B & C & D & E). rewrite A, Hw, <- app_assoc, take_drop.
    rewrite B, C, D, E. auto.
Qed.

Lemma async_write_spec c g eof f1 new_data :
  k_err c = false -> format_output (k_fmt c) g eof = (f1, new_data, false) ->
  let c' := async_write c g eof in
  wire_bytes c' = sent c ++ concat new_data /\ k_pending c' = [] /\ k_fmt c' = f1 /\ k_err c' = false /\
  k_trace c' = k_trace c ++ [(g, eof)].
Proof.
  intros He Hf. unfold async_write.
  pose proof (nb_write_sent (add_trace c g eof) g eof f1 new_data He Hf) as H. cbn zeta in H.
  destruct (nonblocking_write (add_trace c g eof) g eof) as [c1 done] eqn:EN. cbn [fst snd] in H.
  destruct H as (Hs & Hfm & Her & Htr & Hd).
  assert (Hsent0 : sent (add_trace c g eof) = sent c) by reflexivity. rewrite Hsent0 in Hs.
  destruct done.
  - specialize (Hd eq_refl). unfold sent in Hs. rewrite Hd, app_nil_r in Hs. repeat split; auto.
  - pose proof (handler_loop_spec (S (S (length (k_sched c1)))) (set_pending c1 []) (k_pending c1) eq_refl) as HL.
    cbn [k_sched set_pending] in HL. specialize (HL ltac:(lia)). cbn zeta in HL.
    destruct HL as (A & B & C & D & E). rewrite A, B, C, D, E. cbn. unfold sent in Hs. repeat split; auto.
Qed.

(* ---------------------------------------------------------------- blocking write *)
Lemma write_all_spec : forall fuel c g, k_err c = false -> k_err (write_all fuel c g) = false ->
  wire_bytes (write_all fuel c g) = wire_bytes c ++ concat g /\ k_pending (write_all fuel c g) = k_pending c /\
  k_fmt (write_all fuel c g) = k_fmt c /\ k_trace (write_all fuel c g) = k_trace c.
Proof.
  induction fuel as [|f IH]; intros c g He; destruct g as [|e r]; cbn [write_all concat].
  - rewrite app_nil_r. auto.
  - cbn. discriminate.
  - rewrite app_nil_r. auto.
  - destruct (write_some c (e :: r)) as [n c1] eqn:EW.
    destruct (write_some_spec _ _ _ _ EW) as (Hn & Hw & Hp1 & Hfm & Her & Htr & _ & _).
    destruct (N.eqb_spec n 0) as [E|E]; [cbn; discriminate|].
    intros Hok. specialize (IH c1 (gdrop n (e :: r)) (eq_trans Her He) Hok).
    destruct IH as (A & B & C & D). rewrite A, B, C, D. rewrite gdrop_concat, Hw, <- app_assoc, take_drop.
    cbn [concat]. auto.
Qed.

Lemma blocking_write_spec c g eof f1 new_data :
  k_err c = false -> format_output (k_fmt c) g eof = (f1, new_data, false) ->
  let c' := blocking_write c g eof in
  k_err c' = false ->
  wire_bytes c' = sent c ++ concat new_data /\ k_pending c' = [] /\ k_fmt c' = f1 /\ k_trace c' = k_trace c.
Proof.
  intros He Hf. unfold blocking_write. rewrite He, Hf.
  set (c1 := with_fmt c f1).
  assert (HX : concat (with_pending c1 new_data) = k_pending c ++ concat new_data) by (rewrite with_pending_concat; reflexivity).
  destruct (with_pending c1 new_data) as [|o1 orest] eqn:EO.
  - cbn zeta. intros _. cbn in HX. symmetry in HX. apply app_eq_nil in HX. destruct HX as [Hp Hn].
    unfold sent, wire_bytes. cbn. rewrite Hn, Hp. rewrite !app_nil_r. auto.
  - cbn zeta. cbn [k_err set_pending]. intros Hok.
    destruct (write_all_spec _ c1 (o1 :: orest) He Hok) as (A & B & C & D).
    set (W := write_all _ c1 _) in *.
    change (wire_bytes (set_pending W [])) with (wire_bytes W).
    change (k_fmt (set_pending W [])) with (k_fmt W). change (k_trace (set_pending W [])) with (k_trace W).
    rewrite A, C, D, HX. unfold sent. change (wire_bytes c1) with (wire_bytes c). rewrite app_assoc. auto.
Qed.

(* a failing format (Content-Length overrun) or an earlier error: the connection is marked and nothing is sent *)
Lemma blocking_write_err c g eof : k_err c = true -> blocking_write c g eof = c.
Proof. intros H. unfold blocking_write. now rewrite H. Qed.
