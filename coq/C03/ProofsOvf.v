(* C03 proofs: overflow(int c) with the int / char / EOF distinction explicit.  For every byte value x in 0..255 handed over as
   traits::to_int_type(x), the guard (tested on the int) holds and the byte appended is x: the int-level transitions coincide
   with the option-level ones used by step / run_request, so device_conservation holds for every interleaving of
   put / write / flush / setbuf and every byte value.  EOF (-1) appends nothing.  (Testing the narrowed char instead would
   identify 0xFF with EOF: ovf_guard_char_refuted.) *)
From CppcmsV Require Import Base.Tac Base.CSem Base.Sweep C03.Defs C03.Proofs C03.Proofs3.
Local Open Scope N_scope.

Lemma ovf_byte_value x : x < 256 -> ovf_guard (to_int_type x) = true /\ ovf_byte (to_int_type x) = x.
Proof.
  intros H. unfold ovf_guard, ovf_byte, to_int_type, EOF_INT. split.
  - apply negb_true_iff. apply Z.eqb_neq. lia.
  - rewrite Z.mod_small by lia. apply N2Z.id.
Qed.
Lemma ovf_eof : ovf_guard EOF_INT = false.
Proof. reflexivity. Qed.

Lemma dev_overflow_int_byte d c x : x < 256 -> dev_overflow_int d c (to_int_type x) = dev_overflow d c (Some x).
Proof. intros H. unfold dev_overflow_int. destruct (ovf_byte_value x H) as [G B]. now rewrite G, B. Qed.
Lemma dev_sputc_int_eq d c x : x < 256 -> dev_sputc_int d c x = dev_sputc d c x.
Proof. intros H. unfold dev_sputc_int, dev_sputc. destruct (_ <? _); [reflexivity|now apply dev_overflow_int_byte]. Qed.
Lemma dev_sync_int_eq d c : dev_sync_int d c = dev_sync d c.
Proof. reflexivity. Qed.

(* the guard evaluated on the narrowed character instead of the int loses 0xFF *)
Definition ovf_guard_char (ci : Z) : bool := negb (Z.eqb (wraps 8 ci) EOF_INT).
Lemma ovf_guard_char_refuted : ovf_guard_char (to_int_type 255) = false /\ ovf_guard (to_int_type 255) = true.
Proof. vm_compute. split; reflexivity. Qed.

(* device operations at the level of the C++ signatures *)
Definition dstep_int (d : dev) (c : conn) (o : dop) : dev * conn :=
  match o with
  | DSputc x => dev_sputc_int d c x
  | DSync => dev_sync_int d c
  | _ => dstep d c o
  end.
Fixpoint drun_int (d : dev) (c : conn) (ops : list dop) : dev * conn :=
  match ops with [] => (d, c) | o :: t => let (d1, c1) := dstep_int d c o in drun_int d1 c1 t end.
Definition dop_byte_ok (o : dop) : Prop := match o with DSputc x => x < 256 | _ => True end.

Lemma drun_int_eq : forall ops d c, Forall dop_byte_ok ops -> drun_int d c ops = drun d c ops.
Proof.
  induction ops as [|o t IH]; intros d c H; [reflexivity|].
  pose proof (Forall_inv H) as Ho. pose proof (Forall_inv_tail H) as Ht. cbn [drun_int drun].
  assert (E : dstep_int d c o = dstep d c o) by (destruct o; cbn [dstep_int dstep]; try reflexivity; now apply dev_sputc_int_eq).
  rewrite E. destruct (dstep d c o) as [d1 c1]. now apply IH.
Qed.

Lemma device_conservation_int_lemma : forall ops async cap c, Forall dop_byte_ok ops ->
  let d0 := dev_open (new_dev async) cap in
  let (d1, c1) := drun_int d0 c ops in
  let (d2, c2) := dev_close d1 c1 in
  tr c2 = tr c ++ concat (map dbytes ops) /\ d_buf d2 = [] /\
  (exists k, eofs c2 = eofs c ++ repeat false k ++ [true]) /\
  dev_close d2 c2 = (d2, c2).
Proof. intros ops async cap c H d0. rewrite (drun_int_eq ops d0 c H). apply device_conservation_lemma. Qed.

Lemma put_overflow_every_byte : forall d c x, x < 256 ->
  dev_sputc_int d c x = dev_sputc d c x /\ dev_overflow_int d c (to_int_type x) = dev_overflow d c (Some x) /\
  dev_sync_int d c = dev_sync d c /\ ovf_guard EOF_INT = false /\
  (ovf_guard_char (to_int_type 255) = false /\ ovf_guard (to_int_type 255) = true).
Proof.
  intros d c x H. split; [now apply dev_sputc_int_eq|]. split; [now apply dev_overflow_int_byte|].
  split; [reflexivity|]. split; [reflexivity|exact ovf_guard_char_refuted].
Qed.
