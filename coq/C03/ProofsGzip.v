(* C03 proofs: gzip_buf hands every byte written through it to zlib, in order, in deflate calls whose flush flags are
   Z_NO_FLUSH / Z_SYNC_FLUSH, followed by exactly one Z_FINISH call issued by close(); a second close() does nothing.
   With zlib's contract as a Section hypothesis the bytes received downstream inflate to the bytes written. *)
From CppcmsV Require Import Base.Tac C03.Defs C03.Proofs C03.Proofs2 C03.Proofs3 C03.Proofs4 C03.Proofs5 C03.Proofs6 C03.Proofs7 C03.GzipDefs.
Local Open Scope N_scope.

Definition flag_ok (c : bytes * N) : Prop := snd c = Z_NO_FLUSH \/ snd c = Z_SYNC_FLUSH.

Section GzipProofs.
  Variable ZS : Type.
  Variable zdef : ZS -> bytes -> N -> ZS * list bytes.
  Variable S : Type.
  Variable sink_put : S -> bytes -> S.
  Variable sink_sync : S -> S.
  (* what the downstream chain has been given so far, and its own invariant *)
  Variable received : S -> bytes.
  Variable Inv : S -> Prop.
  Hypothesis put_ok : forall s b, Inv s -> Inv (sink_put s b) /\ received (sink_put s b) = received s ++ b.
  Hypothesis sync_ok : forall s, Inv s -> Inv (sink_sync s) /\ received (sink_sync s) = received s.
  Variable z0 : ZS.
  Variable s0 : S.

  Notation gz := (gz ZS).
  Notation zrun := (zrun ZS zdef).
  Notation gz_do_write := (gz_do_write ZS zdef S sink_put sink_sync).
  Notation gz_overflow := (gz_overflow ZS zdef S sink_put sink_sync).
  Notation gz_sputc := (gz_sputc ZS zdef S sink_put sink_sync).
  Notation gz_xsputn := (gz_xsputn ZS zdef S sink_put sink_sync).
  Notation gz_sync := (gz_sync ZS zdef S sink_put sink_sync).
  Notation gz_close := (gz_close ZS zdef S sink_put sink_sync).
  Notation gstep := (gstep ZS zdef S sink_put sink_sync).
  Notation grun := (grun ZS zdef S sink_put sink_sync).
  Notation put_pieces := (put_pieces S sink_put).

  Lemma put_pieces_ok : forall ps s, Inv s -> Inv (put_pieces s ps) /\ received (put_pieces s ps) = received s ++ concat ps.
  Proof.
    induction ps as [|p r IH]; intros s H; cbn [GzipDefs.put_pieces concat].
    - now rewrite app_nil_r.
    - destruct (put_ok s p H) as [H1 H2]. destruct (IH _ H1) as [H3 H4]. split; [exact H3|].
      now rewrite H4, H2, <- app_assoc.
  Qed.

  Lemma zrun_app : forall a b z, zrun z (a ++ b) =
    let (z1, o1) := zrun z a in let (z2, o2) := zrun z1 b in (z2, o1 ++ o2).
  Proof.
    induction a as [|[i f] a IH]; intros b z; cbn [app GzipDefs.zrun].
    - destruct (zrun z b). reflexivity.
    - destruct (zdef z i f) as [z1 ps]. rewrite IH. destruct (zrun z1 a) as [z2 o1]. destruct (zrun z2 b) as [z3 o2].
      now rewrite app_assoc.
  Qed.

  (* X = the bytes zlib has consumed so far *)
  Definition GI (X : bytes) (g : gz) (s : S) : Prop :=
    g_opened _ g = true /\ Inv s /\
    exists calls outs, Forall flag_ok calls /\ zrun z0 calls = (g_z _ g, outs) /\
                       received s = received s0 ++ concat outs /\ concat (map fst calls) = X.

  Lemma do_write_inv X g s inp flag : GI X g s -> flag = Z_NO_FLUSH \/ flag = Z_SYNC_FLUSH ->
    let r := gz_do_write g s inp flag in
    GI (X ++ inp) (fst r) (snd r) /\ g_in _ (fst r) = g_in _ g /\ g_cap _ (fst r) = g_cap _ g.
  Proof.
    intros (Ho & Hi & calls & outs & Hf & Hz & Hr & Hx) Hflag. unfold GzipDefs.gz_do_write. rewrite Ho. cbn [negb].
    destruct ((lenN inp =? 0) && (flag =? Z_NO_FLUSH)) eqn:E.
    - apply andb_prop in E. destruct E as [E _]. apply N.eqb_eq in E. apply lenN_0 in E. subst inp.
      cbn [fst snd]. rewrite app_nil_r. repeat split; auto. exists calls, outs. auto.
    - destruct (zdef (g_z _ g) inp flag) as [z1 ps] eqn:EZ. cbn [fst snd g_in g_cap].
      destruct (put_pieces_ok ps s Hi) as [Hi1 Hr1].
      assert (HS : Inv (if flag =? Z_SYNC_FLUSH then sink_sync (put_pieces s ps) else put_pieces s ps) /\
                   received (if flag =? Z_SYNC_FLUSH then sink_sync (put_pieces s ps) else put_pieces s ps) = received s ++ concat ps).
      { destruct (flag =? Z_SYNC_FLUSH); [|auto]. destruct (sync_ok _ Hi1) as [A B]. split; [exact A|]. now rewrite B. }
      destruct HS as [Hi2 Hr2].
      repeat split; auto.
      exists (calls ++ [(inp, flag)]), (outs ++ ps). split; [|split; [|split]].
      + apply Forall_app. split; [exact Hf|]. constructor; [exact Hflag|constructor].
      + rewrite zrun_app, Hz. cbn [GzipDefs.zrun]. rewrite EZ. cbn [g_z]. now rewrite app_nil_r.
      + rewrite Hr2, Hr, concat_app, <- app_assoc. reflexivity.
      + rewrite map_app, concat_app, Hx. cbn. now rewrite app_nil_r.
  Qed.

  Lemma GI_ext X g g' s : GI X g s -> g_opened _ g' = g_opened _ g -> g_z _ g' = g_z _ g -> GI X g' s.
  Proof. intros (Ho & Hi & calls & outs & H) E1 E2. unfold GI. rewrite E1, E2. split; [exact Ho|]. split; [exact Hi|]. exists calls, outs. exact H. Qed.

  Lemma overflow_inv X g s ch : GI X g s ->
    let r := gz_overflow g s ch in
    GI (X ++ g_in _ g) (fst r) (snd r) /\ g_in _ (fst r) = (match ch with Some x => [x] | None => [] end) /\ g_cap _ (fst r) = g_cap _ g.
  Proof.
    intros H. unfold GzipDefs.gz_overflow. destruct (g_in _ g) as [|b inp] eqn:EI.
    - cbn [fst snd g_in g_cap]. rewrite app_nil_r. split; [|split; reflexivity]. eapply GI_ext; [exact H| |]; reflexivity.
    - pose proof (do_write_inv X g s (b :: inp) Z_NO_FLUSH H (or_introl eq_refl)) as HD. cbv zeta in HD.
      destruct (gz_do_write g s (b :: inp) Z_NO_FLUSH) as [g1 s1]. cbn [fst snd] in *. destruct HD as (A & B & C).
      cbn [g_in g_cap]. split; [|split; [reflexivity|exact C]]. eapply GI_ext; [exact A| |]; reflexivity.
  Qed.

  (* total bytes written through the buffer = consumed by zlib ++ still in the put area *)
  Definition GT (total : bytes) (g : gz) (s : S) : Prop := exists X, GI X g s /\ X ++ g_in _ g = total.

  Lemma sputc_inv t g s ch : GT t g s -> let r := gz_sputc g s ch in GT (t ++ [ch]) (fst r) (snd r) /\ g_cap _ (fst r) = g_cap _ g.
  Proof.
    intros (X & H & Ht). unfold GzipDefs.gz_sputc. destruct (lenN (g_in _ g) <? g_cap _ g).
    - cbn [fst snd g_cap]. split; [|reflexivity]. exists X. split; [eapply GI_ext; [exact H| |]; reflexivity|].
      cbn [g_in]. now rewrite app_assoc, Ht.
    - pose proof (overflow_inv X g s (Some ch) H) as HO. cbv zeta in HO.
      destruct (gz_overflow g s (Some ch)) as [g1 s1]. cbn [fst snd] in *. destruct HO as (A & B & C).
      split; [|exact C]. exists (X ++ g_in _ g). split; [exact A|]. now rewrite B, Ht.
  Qed.

  Lemma xsputn_inv : forall fuel t g s data, (length data < fuel)%nat -> GT t g s ->
    let r := gz_xsputn fuel g s data in GT (t ++ data) (fst r) (snd r) /\ g_cap _ (fst r) = g_cap _ g.
  Proof.
    induction fuel as [|f IH]; intros t g s data Hfu (X & H & Ht); [lia|].
    cbn [GzipDefs.gz_xsputn]. set (k := N.min (g_cap _ g - lenN (g_in _ g)) (lenN data)).
    set (g1 := mkGz ZS (g_opened _ g) (g_cap _ g) (g_in _ g ++ takeN k data) (g_z _ g)).
    assert (H1 : GI X g1 s) by (eapply GI_ext; [exact H| |]; reflexivity).
    destruct (dropN k data) as [|x r] eqn:ED.
    - cbn [fst snd]. split; [|reflexivity]. exists X. split; [exact H1|].
      unfold g1. cbn [g_in]. rewrite app_assoc, Ht. f_equal. rewrite <- (take_drop k data) at 2. rewrite ED. now rewrite app_nil_r.
    - pose proof (overflow_inv X g1 s (Some x) H1) as HO. cbv zeta in HO.
      destruct (gz_overflow g1 s (Some x)) as [g2 s2]. cbn [fst snd] in *. destruct HO as (A & B & C).
      assert (Hr : (length r < f)%nat).
      { assert (length (dropN k data) <= length data)%nat by (unfold dropN; rewrite skipn_length; lia). rewrite ED in H0. cbn in H0. lia. }
      assert (HT2 : GT (t ++ takeN k data ++ [x]) g2 s2).
      { exists (X ++ g_in _ g1). split; [exact A|]. rewrite B. unfold g1. cbn [g_in]. rewrite app_assoc, Ht, <- app_assoc. reflexivity. }
      specialize (IH _ g2 s2 r Hr HT2). cbv zeta in IH. destruct IH as [I1 I2]. split; [|rewrite I2, C; reflexivity].
      replace (t ++ data) with ((t ++ takeN k data ++ [x]) ++ r); [exact I1|].
      rewrite <- !app_assoc. f_equal. rewrite <- (take_drop k data) at 2. rewrite ED. reflexivity.
  Qed.

  Lemma sync_inv t g s : GT t g s -> let r := gz_sync g s in GT t (fst r) (snd r) /\ g_cap _ (fst r) = g_cap _ g.
  Proof.
    intros (X & H & Ht). unfold GzipDefs.gz_sync.
    pose proof (do_write_inv X g s (g_in _ g) Z_SYNC_FLUSH H (or_intror eq_refl)) as HD. cbv zeta in HD.
    destruct (gz_do_write g s (g_in _ g) Z_SYNC_FLUSH) as [g1 s1]. cbn [fst snd] in *. destruct HD as (A & B & C).
    split; [|exact C]. exists (X ++ g_in _ g). split; [eapply GI_ext; [exact A| |]; reflexivity|].
    cbn [g_in]. now rewrite app_nil_r.
  Qed.

  Lemma gstep_inv t g s o : GT t g s -> let r := gstep g s o in GT (t ++ gbytes o) (fst r) (snd r).
  Proof.
    intros H. destruct o; cbn [GzipDefs.gstep gbytes].
    - apply xsputn_inv; [lia|exact H].
    - apply sputc_inv; exact H.
    - rewrite app_nil_r. apply sync_inv; exact H.
  Qed.

  Lemma grun_inv : forall ops t g s, GT t g s -> let r := grun g s ops in GT (t ++ concat (map gbytes ops)) (fst r) (snd r).
  Proof.
    induction ops as [|o ops IH]; intros t g s H; cbn [GzipDefs.grun map concat].
    - now rewrite app_nil_r.
    - pose proof (gstep_inv t g s o H) as HS. cbv zeta in HS. destruct (gstep g s o) as [g1 s1]. cbn [fst snd] in HS.
      specialize (IH _ _ _ HS). cbv zeta in IH. now rewrite <- app_assoc in IH.
  Qed.

  (* close(): the rest of the put area goes to zlib with Z_FINISH -- the only FINISH call -- and the buffer is closed *)
  Lemma close_inv t g s : GT t g s ->
    let r := gz_close g s in
    Inv (snd r) /\
    (exists calls last, Forall flag_ok calls /\ concat (map fst calls) ++ last = t /\
       received (snd r) = received s0 ++ concat (snd (zrun z0 (calls ++ [(last, Z_FINISH)])))) /\
    g_opened _ (fst r) = false /\ gz_close (fst r) (snd r) = r.
  Proof.
    intros (X & (Ho & Hi & calls & outs & Hf & Hz & Hr & Hx) & Ht). unfold GzipDefs.gz_close at 1. rewrite Ho. cbn [negb].
    unfold GzipDefs.gz_do_write. rewrite Ho. cbn [negb]. rewrite andb_false_r.
    destruct (zdef (g_z _ g) (g_in _ g) Z_FINISH) as [z1 ps] eqn:EZ. cbn [fst snd g_cap g_z N.eqb Z_FINISH Z_SYNC_FLUSH].
    change ((4 =? 2)%positive) with false. cbv iota.
    destruct (put_pieces_ok ps s Hi) as [Hi1 Hr1].
    split; [exact Hi1|]. split; [|split; [reflexivity|]].
    - exists calls, (g_in _ g). split; [exact Hf|]. split; [now rewrite Hx|].
      rewrite zrun_app, Hz. cbn [GzipDefs.zrun]. rewrite EZ. cbn [snd]. rewrite app_nil_r, Hr1, Hr, concat_app, <- app_assoc. reflexivity.
    - unfold GzipDefs.gz_close. cbn [g_opened negb]. reflexivity.
  Qed.

  (* zlib's contract: whatever the call pattern (NO_FLUSH / SYNC_FLUSH calls ended by one FINISH call), the
     concatenated output inflates to the concatenated input *)
  Variable inflate : bytes -> option bytes.
  Hypothesis zlib_contract : forall calls last, Forall flag_ok calls ->
    inflate (concat (snd (zrun z0 (calls ++ [(last, Z_FINISH)])))) = Some (concat (map fst calls) ++ last).

  Lemma gzip_exact_lemma : forall bufsize ops, Inv s0 ->
    let r := grun (gz_open ZS z0 bufsize) s0 ops in
    let r' := gz_close (fst r) (snd r) in
    Inv (snd r') /\
    (exists comp, received (snd r') = received s0 ++ comp /\ inflate comp = Some (concat (map gbytes ops))) /\
    gz_close (fst r') (snd r') = r'.
  Proof.
    intros bufsize ops H0.
    assert (HT : GT [] (gz_open ZS z0 bufsize) s0).
    { exists []. split; [|reflexivity]. split; [reflexivity|]. split; [exact H0|]. exists [], []. cbn. rewrite app_nil_r. auto. }
    pose proof (grun_inv ops [] _ _ HT) as HR. cbv zeta in HR. cbn [app] in HR.
    pose proof (close_inv _ _ _ HR) as HC. cbv zeta in HC. destruct HC as (A & (calls & last & Hf & Ht & Hr) & _ & I).
    cbv zeta. split; [exact A|]. split; [|exact I].
    eexists. split; [exact Hr|]. rewrite zlib_contract by exact Hf. now rewrite Ht.
  Qed.
End GzipProofs.

(* ---------------------------------------------------------------- gzip_buf over the output device of Defs.v *)
Definition dsink_put (s : dev * conn) (b : bytes) : dev * conn := dev_xsputn (fst s) (snd s) b.
Definition dsink_sync (s : dev * conn) : dev * conn := dev_sync (fst s) (snd s).
Definition dreceived (s : dev * conn) : bytes := tr (snd s) ++ d_buf (fst s).
Definition dInv (s : dev * conn) : Prop := ok (fst s) /\ d_final (fst s) = false /\ d_eofsent (fst s) = false.

Lemma conserves_dInv d c r b : ok d -> d_final d = false -> d_eofsent d = false -> conserves d c r b ->
  dInv r /\ dreceived r = dreceived (d, c) ++ b.
Proof.
  intros Hok Hf He (A & O & _ & F & E & _). unfold dInv, dreceived. cbn [fst snd].
  split; [|now rewrite A, <- app_assoc]. split; [exact O|]. split; [congruence|].
  destruct (E Hf) as [H|H]; congruence.
Qed.
Lemma dsink_put_ok s b : dInv s -> dInv (dsink_put s b) /\ dreceived (dsink_put s b) = dreceived s ++ b.
Proof.
  destruct s as [d c]. intros (Hok & Hf & He). unfold dsink_put. cbn [fst snd].
  apply (conserves_dInv d c _ b Hok Hf He). now apply dev_xsputn_spec.
Qed.
Lemma dsink_sync_ok s : dInv s -> dInv (dsink_sync s) /\ dreceived (dsink_sync s) = dreceived s.
Proof.
  destruct s as [d c]. intros (Hok & Hf & He). unfold dsink_sync. cbn [fst snd].
  destruct (conserves_dInv d c _ [] Hok Hf He (dev_sync_spec d c Hok)) as [A B]. split; [exact A|]. now rewrite B, app_nil_r.
Qed.

Section GzipDevice.
  Variable ZS : Type.
  Variable zdef : ZS -> bytes -> N -> ZS * list bytes.
  Variable z0 : ZS.
  Variable inflate : bytes -> option bytes.
  Hypothesis zlib_contract : forall calls last, Forall flag_ok calls ->
    inflate (concat (snd (zrun ZS zdef z0 (calls ++ [(last, Z_FINISH)])))) = Some (concat (map fst calls) ++ last).

  (* response::out() with gzip: zbuf -> device; finalize closes zbuf, then the device *)
  Lemma gzip_device_exact_lemma : forall async cap c bufsize ops,
    let d0 := dev_open (new_dev async) cap in
    let r := grun ZS zdef _ dsink_put dsink_sync (gz_open ZS z0 bufsize) (d0, c) ops in
    let r' := gz_close ZS zdef _ dsink_put dsink_sync (fst r) (snd r) in
    let fin := dev_close (fst (snd r')) (snd (snd r')) in
    exists comp, tr (snd fin) = tr c ++ comp /\ inflate comp = Some (concat (map gbytes ops)) /\
                 d_buf (fst fin) = [] /\ (exists pre, eofs (snd fin) = pre ++ [true]).
  Proof.
    intros async cap c bufsize ops d0.
    assert (H0 : dInv (d0, c) /\ d_buf d0 = []).
    { unfold d0, dev_open, do_setp. assert (O : ok (set_cap (new_dev async) cap)) by (unfold ok; cbn; lia).
      destruct (resize_ok _ (d_cap (set_cap (new_dev async) cap)) O) as (R1 & R2 & R3 & R4 & R5 & R6 & R7).
      unfold dInv, ok. cbn [fst snd]. rewrite R1, R2, R6, R7. cbn. repeat split; lia. }
    destruct H0 as [H0 Hb0].
    pose proof (gzip_exact_lemma ZS zdef _ dsink_put dsink_sync dreceived dInv dsink_put_ok dsink_sync_ok z0 (d0, c)
                  inflate zlib_contract bufsize ops H0) as H. cbv zeta in H.
    cbv zeta. destruct (gz_close ZS zdef _ dsink_put dsink_sync _ _) as [g' [d1 c1]]. cbn [fst snd] in *.
    destruct H as ((Hok & Hf & He) & (comp & Hr & Hi) & _). cbn [fst snd] in *.
    unfold dreceived in Hr. cbn [fst snd] in Hr. rewrite Hb0, app_nil_r in Hr.
    pose proof (dev_close_spec d1 c1 Hok Hf He) as HC. cbv zeta in HC. destruct HC as (A & B & X & _).
    exists comp. split; [now rewrite A, Hr|]. split; [exact Hi|]. split; [exact B|].
    eexists. exact X.
  Qed.
End GzipDevice.

(* ---------------------------------------------------------------- a toy zlib satisfying the contract (non-vacuity) *)
Definition toy_zdef (z : unit) (i : bytes) (f : N) : unit * list bytes := (tt, [takeN 3 i; dropN 3 i]).
Lemma toy_zrun : forall calls, concat (snd (zrun unit toy_zdef tt calls)) = concat (map fst calls).
Proof.
  induction calls as [|[i f] t IH]; [reflexivity|].
  cbn [zrun toy_zdef]. destruct (zrun unit toy_zdef tt t) as [z2 rest]. cbn [snd map fst concat] in *.
  rewrite concat_app, IH. cbn [concat]. rewrite app_nil_r, take_drop. reflexivity.
Qed.
Lemma toy_contract : forall calls last, Forall flag_ok calls ->
  Some (concat (snd (zrun unit toy_zdef tt (calls ++ [(last, Z_FINISH)])))) = Some (concat (map fst calls) ++ last).
Proof. intros calls last _. rewrite toy_zrun, map_app, concat_app. cbn. now rewrite app_nil_r. Qed.

(* ---------------------------------------------------------------- gzip_buf over copy_buf over the output device *)
Definition csink_put (s : cpy * dev * conn) (b : bytes) : cpy * dev * conn :=
  let '(y, d, c) := s in cpy_xsputn (Datatypes.S (length b)) y d c b.
Definition csink_sync (s : cpy * dev * conn) : cpy * dev * conn := let '(y, d, c) := s in cpy_sync y d c.
Definition creceived (s : cpy * dev * conn) : bytes := c_all (fst (fst s)).
(* everything the copy holds has been forwarded (or is about to be): device trace ++ device buffer ++ not yet forwarded *)
Definition cInv (T0 : bytes) (s : cpy * dev * conn) : Prop :=
  let '(y, d, c) := s in
  ok d /\ d_final d = false /\ d_eofsent d = false /\ tr c ++ d_buf d ++ c_unsent y = T0 ++ c_all y.

Lemma cons3_cInv T0 y d c r b : cInv T0 (y, d, c) -> cons3 y d c r b -> cInv T0 r /\ creceived r = creceived (y, d, c) ++ b.
Proof.
  destruct r as [[y' d'] c']. intros (Hok & Hf & He & Hd) (A & (O & _ & F & E & _) & _ & L).
  unfold cInv, creceived. cbn [fst]. split; [|exact L].
  split; [exact O|]. split; [congruence|]. split; [now apply E|].
  rewrite A, L. rewrite app_assoc, app_assoc, <- (app_assoc (tr c)), Hd, <- !app_assoc. reflexivity.
Qed.
Lemma csink_put_ok T0 s b : cInv T0 s -> cInv T0 (csink_put s b) /\ creceived (csink_put s b) = creceived s ++ b.
Proof.
  destruct s as [[y d] c]. intros H. unfold csink_put. apply (cons3_cInv T0 y d c _ b H).
  apply cpy_xsputn_cons; [now destruct H|lia].
Qed.
Lemma csink_sync_ok T0 s : cInv T0 s -> cInv T0 (csink_sync s) /\ creceived (csink_sync s) = creceived s.
Proof.
  destruct s as [[y d] c]. intros H. unfold csink_sync.
  destruct (cons3_cInv T0 y d c _ [] H (cpy_sync_cons y d c ltac:(now destruct H))) as [A B].
  split; [exact A|]. now rewrite B, app_nil_r.
Qed.

Section GzipCache.
  Variable ZS : Type.
  Variable zdef : ZS -> bytes -> N -> ZS * list bytes.
  Variable z0 : ZS.
  Variable inflate : bytes -> option bytes.
  Hypothesis zlib_contract : forall calls last, Forall flag_ok calls ->
    inflate (concat (snd (zrun ZS zdef z0 (calls ++ [(last, Z_FINISH)])))) = Some (concat (map fst calls) ++ last).

  (* response::out() with gzip and copy_to_cache: zbuf -> copy_buf -> device; finalize closes them in this order.
     The page-cache copy is byte-identical to the (compressed) body handed to the connection, and inflates to the bytes written *)
  Lemma gzip_cache_exact_lemma : forall async cap c bufsize ops,
    let d0 := dev_open (new_dev async) cap in
    let r := grun ZS zdef _ csink_put csink_sync (gz_open ZS z0 bufsize) (mkCpy [] [] 0 0, d0, c) ops in
    let r' := gz_close ZS zdef _ csink_put csink_sync (fst r) (snd r) in
    let r2 := cpy_overflow (fst (fst (snd r'))) (snd (fst (snd r'))) (snd (snd r')) None in
    let fin := dev_close (snd (fst r2)) (snd r2) in
    exists comp, tr (snd fin) = tr c ++ comp /\ c_all (fst (fst r2)) = comp /\ inflate comp = Some (concat (map gbytes ops)).
  Proof.
    intros async cap c bufsize ops d0.
    assert (H0 : cInv (tr c) (mkCpy [] [] 0 0, d0, c)).
    { unfold d0, dev_open, do_setp. assert (O : ok (set_cap (new_dev async) cap)) by (unfold ok; cbn; lia).
      destruct (resize_ok _ (d_cap (set_cap (new_dev async) cap)) O) as (R1 & R2 & R3 & R4 & R5 & R6 & R7).
      unfold cInv, ok. rewrite R1, R2, R6, R7. cbn. rewrite !app_nil_r. repeat split; lia. }
    pose proof (gzip_exact_lemma ZS zdef _ csink_put csink_sync creceived (cInv (tr c)) (csink_put_ok (tr c)) (csink_sync_ok (tr c))
                  z0 _ inflate zlib_contract bufsize ops H0) as H. cbv zeta in H.
    cbv zeta. destruct (gz_close ZS zdef _ csink_put csink_sync _ _) as [g' [[y1 d1] c1]]. cbn [fst snd] in *.
    destruct H as (HI & (comp & Hr & Hi) & _). unfold creceived in Hr. cbn [fst c_all app] in Hr.
    pose proof HI as (Hok & Hf & He & Hd).
    pose proof (cpy_overflow_cons y1 d1 c1 None Hok) as HO.
    destruct (cpy_overflow y1 d1 c1 None) as [[y2 d2] c2] eqn:EO. cbn [fst snd].
    assert (Hu : c_unsent y2 = []).
    { unfold cpy_overflow in EO. destruct (match c_unsent y1 with [] => _ | _ => _ end).
      destruct (if c_size y1 =? 0 then _ else _). injection EO as <- _ _. reflexivity. }
    destruct (cons3_cInv (tr c) y1 d1 c1 _ [] HI HO) as [(Hok2 & Hf2 & He2 & Hd2) HL]. unfold creceived in HL. cbn [fst] in HL.
    rewrite app_nil_r in HL. rewrite Hu, app_nil_r in Hd2.
    pose proof (dev_close_spec d2 c2 Hok2 Hf2 He2) as HC. cbv zeta in HC. destruct HC as (A & _).
    exists comp. split; [rewrite A, Hd2, HL, Hr; reflexivity|]. split; [now rewrite HL|exact Hi].
  Qed.
End GzipCache.

(* ---------------------------------------------------------------- down to the wire (synchronous chain zbuf -> device) *)
(* the device invariant plus: the connection was reached from c0 by connection writes only (so J is preserved) *)
Definition dInvJ (c0 : conn) (s : dev * conn) : Prop := dInv s /\ Jp c0 (snd s).
Lemma dsink_put_okJ c0 s b : dInvJ c0 s -> dInvJ c0 (dsink_put s b) /\ dreceived (dsink_put s b) = dreceived s ++ b.
Proof.
  intros [H HJ]. destruct (dsink_put_ok s b H) as [A B]. split; [|exact B]. split; [exact A|].
  destruct s as [d c]. unfold dsink_put. cbn [fst snd] in *. eapply Jp_trans; [exact HJ|apply Jp_dev_xsputn].
Qed.
Lemma dsink_sync_okJ c0 s : dInvJ c0 s -> dInvJ c0 (dsink_sync s) /\ dreceived (dsink_sync s) = dreceived s.
Proof.
  intros [H HJ]. destruct (dsink_sync_ok s H) as [A B]. split; [|exact B]. split; [exact A|].
  destruct s as [d c]. unfold dsink_sync. cbn [fst snd] in *. eapply Jp_trans; [exact HJ|apply Jp_dev_sync].
Qed.

Section GzipWire.
  Variable ZS : Type.
  Variable zdef : ZS -> bytes -> N -> ZS * list bytes.
  Variable z0 : ZS.
  Variable inflate : bytes -> option bytes.
  Hypothesis zlib_contract : forall calls last, Forall flag_ok calls ->
    inflate (concat (snd (zrun ZS zdef z0 (calls ++ [(last, Z_FINISH)])))) = Some (concat (map fst calls) ++ last).

  (* c0 = the connection as out() leaves it: header block fixed, nothing written yet.  After the gzip chain has been run
     and closed: unless an error was signalled, the committed stream (wire ++ pending) is the ideal stream of the trace,
     and the data of the trace is a stream that inflates to what the application wrote *)
  Lemma gzip_stream_lemma : forall async cap c0 bufsize ops,
    k_err c0 = false -> k_trace c0 = [] -> sent c0 = [] ->
    let d0 := dev_open (new_dev async) cap in
    let r := grun ZS zdef _ dsink_put dsink_sync (gz_open ZS z0 bufsize) (d0, c0) ops in
    let r' := gz_close ZS zdef _ dsink_put dsink_sync (fst r) (snd r) in
    let fin := dev_close (fst (snd r')) (snd (snd r')) in
    k_err (snd fin) = false ->
    exists comp, sent (snd fin) = stream (k_fmt c0) (k_trace (snd fin)) /\ tr (snd fin) = comp /\ k_trace (snd fin) <> [] /\
                 inflate comp = Some (concat (map gbytes ops)).
  Proof.
    intros async cap c0 bufsize ops He Ht Hs d0.
    assert (H0 : dInvJ c0 (d0, c0) /\ d_buf d0 = []).
    { unfold d0, dev_open, do_setp. assert (O : ok (set_cap (new_dev async) cap)) by (unfold ok; cbn; lia).
      destruct (resize_ok _ (d_cap (set_cap (new_dev async) cap)) O) as (R1 & R2 & R3 & R4 & R5 & R6 & R7).
      unfold dInvJ, dInv, ok. cbn [fst snd]. rewrite R1, R2, R6, R7. cbn. split; [|reflexivity].
      split; [repeat split; lia|apply Jp_refl]. }
    destruct H0 as [H0 Hb0].
    pose proof (gzip_exact_lemma ZS zdef _ dsink_put dsink_sync dreceived (dInvJ c0) (dsink_put_okJ c0) (dsink_sync_okJ c0) z0 (d0, c0)
                  inflate zlib_contract bufsize ops H0) as H. cbv zeta in H.
    cbv zeta. destruct (gz_close ZS zdef _ dsink_put dsink_sync _ _) as [g' [d1 c1]]. cbn [fst snd] in *.
    destruct H as (((Hok & Hf & Hes) & HJ) & (comp & Hr & Hi) & _). cbn [fst snd] in *.
    unfold dreceived in Hr. cbn [fst snd] in Hr. rewrite Hb0, app_nil_r in Hr.
    assert (Htr0 : tr c0 = []) by (unfold tr; now rewrite Ht).
    rewrite Htr0 in Hr. cbn [app] in Hr.
    pose proof (dev_close_spec d1 c1 Hok Hf Hes) as HC. cbv zeta in HC. destruct HC as (A & _ & X & _).
    pose proof (Jp_dev_close d1 c1) as HJ2.
    intros Hok2. exists comp.
    assert (HJ0 : J (k_fmt c0) c0).
    { intros _. rewrite Hs, Ht. cbn. auto. }
    destruct (Jp_trans _ _ _ HJ HJ2) as [JJ _]. destruct (JJ _ HJ0 Hok2) as [S1 _].
    split; [exact S1|]. split; [now rewrite A, Hr|]. split; [|exact Hi].
    intros E. unfold eofs in X. rewrite E in X. cbn in X. destruct (map snd (k_trace c1)); discriminate.
  Qed.

  (* SCGI: what is committed to the socket is the CGI header block followed by a stream that inflates to the body *)
  Lemma gzip_scgi_lemma : forall async cap c0 bufsize ops,
    k_err c0 = false -> k_trace c0 = [] -> sent c0 = [] -> f_proto (k_fmt c0) = Scgi -> f_hdr_done (k_fmt c0) = false ->
    let d0 := dev_open (new_dev async) cap in
    let r := grun ZS zdef _ dsink_put dsink_sync (gz_open ZS z0 bufsize) (d0, c0) ops in
    let r' := gz_close ZS zdef _ dsink_put dsink_sync (fst r) (snd r) in
    let fin := dev_close (fst (snd r')) (snd (snd r')) in
    k_err (snd fin) = false ->
    exists comp, sent (snd fin) = f_hdr (k_fmt c0) ++ comp /\ inflate comp = Some (concat (map gbytes ops)).
  Proof.
    intros async cap c0 bufsize ops He Ht Hs Hp Hd d0 r r' fin Hok.
    destruct (gzip_stream_lemma async cap c0 bufsize ops He Ht Hs Hok) as (comp & S1 & T1 & N1 & I1).
    fold d0 r r' fin in S1, T1, N1. exists comp. split; [|exact I1].
    rewrite S1. destruct (k_trace (snd fin)) as [|[g e] t] eqn:ET; [contradiction|].
    rewrite stream_scgi by assumption. rewrite <- T1. unfold tr. rewrite ET. reflexivity.
  Qed.
End GzipWire.

(* ---------------------------------------------------------------- FastCGI and HTTP instances: the eof flags *)
Definition dInvE (c0 : conn) (s : dev * conn) : Prop := dInvJ c0 s /\ exists k, eofs (snd s) = eofs c0 ++ repeat false k.

Lemma conserves_eofs d c r b k c0 : d_final d = false -> conserves d c r b -> eofs c = eofs c0 ++ repeat false k ->
  exists k', eofs (snd r) = eofs c0 ++ repeat false k'.
Proof.
  intros Hf (_ & _ & _ & _ & _ & T) E. destruct (T Hf) as [k2 H2]. exists (k + k2)%nat.
  now rewrite H2, E, <- app_assoc, repeat_app.
Qed.
Lemma dsink_put_okE c0 s b : dInvE c0 s -> dInvE c0 (dsink_put s b) /\ dreceived (dsink_put s b) = dreceived s ++ b.
Proof.
  intros [H [k E]]. destruct (dsink_put_okJ c0 s b H) as [A B]. split; [|exact B]. split; [exact A|].
  destruct s as [d c]. destruct H as [(Hok & Hf & He) _]. unfold dsink_put. cbn [fst snd] in *.
  eapply conserves_eofs; [exact Hf|apply dev_xsputn_spec; exact Hok|exact E].
Qed.
Lemma dsink_sync_okE c0 s : dInvE c0 s -> dInvE c0 (dsink_sync s) /\ dreceived (dsink_sync s) = dreceived s.
Proof.
  intros [H [k E]]. destruct (dsink_sync_okJ c0 s H) as [A B]. split; [|exact B]. split; [exact A|].
  destruct s as [d c]. destruct H as [(Hok & Hf & He) _]. unfold dsink_sync. cbn [fst snd] in *.
  eapply conserves_eofs; [exact Hf|apply dev_sync_spec; exact Hok|exact E].
Qed.

Lemma eofs_shape (tr0 : list (gather * bool)) k : map snd tr0 = repeat false k ++ [true] ->
  exists t g, tr0 = t ++ [(g, true)] /\ all_false t.
Proof.
  intros H. destruct (exists_last (l := tr0)) as (t & [g e] & ->).
  { intros ->. destruct (repeat false k); discriminate. }
  rewrite map_app in H. cbn [map snd] in H. apply app_inj_tail in H. destruct H as [H1 H2]. subst e.
  exists t, g. split; [reflexivity|]. unfold all_false. apply Forall_forall. intros w Hw.
  assert (In (snd w) (map snd t)) by (now apply in_map). rewrite H1 in H. now apply repeat_spec in H.
Qed.

(* the three HTTP framings at trace level (no declared length): the case analysis of Proofs7.http_exact *)
Lemma http_wire_of_trace f0 t g :
  f_proto f0 = Http -> f_hdr_done f0 = false -> f_ocl f0 = None -> all_false t ->
  http_wire (f_hdr f0) (f_server f0) (concat (map data_of t) ++ concat g) (stream f0 (t ++ [(g, true)])).
Proof.
  intros P D Ho Haf. destruct t as [|[g0 e0] t].
  - cbn [app map concat]. rewrite http_single_write_response by assumption.
    apply (HwLength _ _ _ _ (if f_cka f0 then CONN_KA else CONN_CLOSE)); [destruct (f_cka f0); auto|reflexivity].
  - inversion Haf as [|? ? He0 Haf']; subst. cbn [snd] in He0. subst e0.
    destruct (f_cka f0 && f_http11 f0) eqn:EK.
    + apply andb_prop in EK. destruct EK as [EK1 EK2].
      destruct (http_chunked_response_decodes f0 g0 t g [] P D EK1 EK2 Ho Haf') as (bw & Hst & _).
      apply (HwChunked _ _ _ _ bw); [exact Hst|].
      exists (length t + 3)%nat. intros fuel rest Hfu.
      destruct (http_chunked_response_decodes f0 g0 t g rest P D EK1 EK2 Ho Haf') as (bw' & Hst' & Hun).
      cbn [app] in Hst, Hst'. rewrite Hst in Hst'. apply app_inv_head in Hst'. subst bw'.
      rewrite (Hun fuel ltac:(lia)). f_equal. f_equal. cbn [map concat app].
      rewrite map_app, concat_app. cbn [map concat]. unfold data_of at 3. cbn [fst]. rewrite app_nil_r, <- app_assoc. reflexivity.
    + apply HwClose. cbn [app]. rewrite http_close_response_gen by assumption.
      f_equal. cbn [map concat app].
      rewrite map_app, concat_app. cbn [map concat]. unfold data_of at 3. cbn [fst]. rewrite app_nil_r, <- app_assoc. reflexivity.
Qed.

Section GzipWire2.
  Variable ZS : Type.
  Variable zdef : ZS -> bytes -> N -> ZS * list bytes.
  Variable z0 : ZS.
  Variable inflate : bytes -> option bytes.
  Hypothesis zlib_contract : forall calls last, Forall flag_ok calls ->
    inflate (concat (snd (zrun ZS zdef z0 (calls ++ [(last, Z_FINISH)])))) = Some (concat (map fst calls) ++ last).

  (* the trace of the whole gzip response: non-completing writes, then exactly one completing write *)
  Lemma gzip_trace_lemma : forall async cap c0 bufsize ops,
    k_err c0 = false -> k_trace c0 = [] -> sent c0 = [] ->
    let d0 := dev_open (new_dev async) cap in
    let r := grun ZS zdef _ dsink_put dsink_sync (gz_open ZS z0 bufsize) (d0, c0) ops in
    let r' := gz_close ZS zdef _ dsink_put dsink_sync (fst r) (snd r) in
    let fin := dev_close (fst (snd r')) (snd (snd r')) in
    k_err (snd fin) = false ->
    exists t g comp, all_false t /\ sent (snd fin) = stream (k_fmt c0) (t ++ [(g, true)]) /\
                     concat (map data_of t) ++ concat g = comp /\ inflate comp = Some (concat (map gbytes ops)).
  Proof.
    intros async cap c0 bufsize ops He Ht Hs d0.
    assert (H0 : dInvE c0 (d0, c0) /\ d_buf d0 = []).
    { unfold d0, dev_open, do_setp. assert (O : ok (set_cap (new_dev async) cap)) by (unfold ok; cbn; lia).
      destruct (resize_ok _ (d_cap (set_cap (new_dev async) cap)) O) as (R1 & R2 & R3 & R4 & R5 & R6 & R7).
      unfold dInvE, dInvJ, dInv, ok. cbn [fst snd]. rewrite R1, R2, R6, R7. cbn. split; [|reflexivity].
      split; [split; [repeat split; lia|apply Jp_refl]|]. exists 0%nat. cbn. now rewrite app_nil_r. }
    destruct H0 as [H0 Hb0].
    pose proof (gzip_exact_lemma ZS zdef _ dsink_put dsink_sync dreceived (dInvE c0) (dsink_put_okE c0) (dsink_sync_okE c0) z0 (d0, c0)
                  inflate zlib_contract bufsize ops H0) as H. cbv zeta in H.
    cbv zeta. destruct (gz_close ZS zdef _ dsink_put dsink_sync _ _) as [g' [d1 c1]]. cbn [fst snd] in *.
    destruct H as ((((Hok & Hf & Hes) & HJ) & [k Ek]) & (comp & Hr & Hi) & _). cbn [fst snd] in *.
    unfold dreceived in Hr. cbn [fst snd] in Hr. rewrite Hb0, app_nil_r in Hr.
    assert (Htr0 : tr c0 = []) by (unfold tr; now rewrite Ht).
    assert (He0 : eofs c0 = []) by (unfold eofs; now rewrite Ht).
    rewrite Htr0 in Hr. cbn [app] in Hr. rewrite He0 in Ek. cbn [app] in Ek.
    pose proof (dev_close_spec d1 c1 Hok Hf Hes) as HC. cbv zeta in HC. destruct HC as (A & _ & X & _).
    pose proof (Jp_dev_close d1 c1) as HJ2.
    intros Hok2.
    assert (HJ0 : J (k_fmt c0) c0) by (intros _; rewrite Hs, Ht; cbn; auto).
    destruct (Jp_trans _ _ _ HJ HJ2) as [JJ _]. destruct (JJ _ HJ0 Hok2) as [S1 _].
    rewrite Ek in X. unfold eofs in X. destruct (eofs_shape _ k X) as (t & g & ET & Haf).
    exists t, g, comp. split; [exact Haf|]. split; [now rewrite S1, ET|]. split; [|exact Hi].
    rewrite <- Hr, <- A. unfold tr. rewrite ET, map_app, concat_app. cbn [map concat fst]. now rewrite app_nil_r.
  Qed.

  (* FastCGI: the committed stream de-records to header block ++ a stream that inflates to the body *)
  Lemma gzip_fcgi_lemma : forall async cap c0 bufsize ops rest,
    k_err c0 = false -> k_trace c0 = [] -> sent c0 = [] -> f_proto (k_fmt c0) = Fcgi -> f_hdr_done (k_fmt c0) = false ->
    let d0 := dev_open (new_dev async) cap in
    let r := grun ZS zdef _ dsink_put dsink_sync (gz_open ZS z0 bufsize) (d0, c0) ops in
    let r' := gz_close ZS zdef _ dsink_put dsink_sync (fst r) (snd r) in
    let fin := dev_close (fst (snd r')) (snd (snd r')) in
    k_err (snd fin) = false ->
    exists comp, inflate comp = Some (concat (map gbytes ops)) /\
      exists fuel0, forall fuel, (fuel0 <= fuel)%nat ->
        unrecord fuel (f_reqid (k_fmt c0)) (sent (snd fin) ++ rest) = Some (f_hdr (k_fmt c0) ++ comp, rest).
  Proof.
    intros async cap c0 bufsize ops rest He Ht Hs Hp Hd d0 r r' fin Hok.
    destruct (gzip_trace_lemma async cap c0 bufsize ops He Ht Hs Hok) as (t & g & comp & Haf & S1 & Hb & Hi).
    fold d0 r r' fin in S1. exists comp. split; [exact Hi|].
    destruct (fcgi_response_decodes (k_fmt c0) t g rest Hp Hd Haf) as [fuel0 H].
    exists fuel0. intros fuel Hfu. rewrite S1, (H fuel Hfu). f_equal. f_equal. f_equal.
    rewrite map_app, concat_app. cbn [map concat]. unfold data_of at 2. cbn [fst]. now rewrite app_nil_r.
  Qed.

  (* HTTP without a declared Content-Length: one of the three framings of a stream that inflates to the body *)
  Lemma gzip_http_lemma : forall async cap c0 bufsize ops,
    k_err c0 = false -> k_trace c0 = [] -> sent c0 = [] ->
    f_proto (k_fmt c0) = Http -> f_hdr_done (k_fmt c0) = false -> f_ocl (k_fmt c0) = None ->
    let d0 := dev_open (new_dev async) cap in
    let r := grun ZS zdef _ dsink_put dsink_sync (gz_open ZS z0 bufsize) (d0, c0) ops in
    let r' := gz_close ZS zdef _ dsink_put dsink_sync (fst r) (snd r) in
    let fin := dev_close (fst (snd r')) (snd (snd r')) in
    k_err (snd fin) = false ->
    exists comp, inflate comp = Some (concat (map gbytes ops)) /\
      http_wire (f_hdr (k_fmt c0)) (f_server (k_fmt c0)) comp (sent (snd fin)).
  Proof.
    intros async cap c0 bufsize ops He Ht Hs Hp Hd Ho d0 r r' fin Hok.
    destruct (gzip_trace_lemma async cap c0 bufsize ops He Ht Hs Hok) as (t & g & comp & Haf & S1 & Hb & Hi).
    fold d0 r r' fin in S1. exists comp. split; [exact Hi|].
    rewrite S1, <- Hb. now apply http_wire_of_trace.
  Qed.
End GzipWire2.
