(* C03 proofs: the exact model of copy_buf (Defs.v cbuf): after every overflow the put window ends at buffer_.size()
   (epptr = buffer_.begin + buffer_.size(), the fact getstr() and the next growth step rely on), nothing is ever skipped,
   and getstr() returns exactly the concatenation of everything written -- for every sequence of write / put / flush of
   any total size.  The proof uses the growth arithmetic only through three facts (about cb_grow_resize, cb_grow_base, cb_grow_end), which Link.v ties to the
   expressions of the current source. *)
From CppcmsV Require Import Base.Tac C03.Defs C03.Proofs C03.Proofs3 C03.Proofs6.
Local Open Scope N_scope.

(* the growth step keeps the window flush with the vector: base = old size (no gap), end = new size, room > 0 *)
Lemma grow_facts size : cb_grow_base size = size /\ cb_grow_end size = cb_grow_resize size /\ (0 < size -> cb_grow_base size < cb_grow_end size).
Proof. unfold cb_grow_base, cb_grow_end, cb_grow_resize. lia. Qed.

(* W = everything written so far *)
Definition CbI (W : bytes) (b : cbuf) : Prop :=
  (cb_null b = true /\ W = [] /\ cb_rpre b = [] /\ cb_pptr b = 0 /\ cb_bsize b = 0 /\ cb_pbase b = 0 /\ cb_epptr b = 0) \/
  (cb_null b = false /\ rev (cb_rpre b) = W /\ cb_pptr b = lenN W /\ cb_pbase b <= cb_pptr b /\ cb_pptr b <= cb_epptr b /\
   cb_epptr b = cb_bsize b /\ 0 < cb_bsize b).
(* the window invariant the code relies on *)
Definition window_ok (b : cbuf) : Prop := cb_null b = false /\ cb_epptr b = cb_bsize b /\ cb_pptr b <= cb_epptr b.

Lemma CbI_window W b : CbI W b -> cb_null b = false -> window_ok b.
Proof. intros [(N1 & _)|(N1 & _ & _ & _ & H1 & H2 & _)] Hn; [congruence|]. unfold window_ok. auto. Qed.

Lemma lenN_rev {A} (l : list A) : lenN (rev l) = lenN l.
Proof. unfold lenN. now rewrite rev_length. Qed.

Lemma CbI_store W b x : cb_null b = false -> CbI W b -> cb_pptr b < cb_epptr b -> CbI (W ++ [x]) (cb_store b x).
Proof.
  intros Hn [(N1 & _)|(N1 & R & P & B & E & S & Z)] Hlt; [congruence|]. right. unfold cb_store. cbn.
  rewrite R, lenN_app. cbn. repeat split; try assumption; lia.
Qed.

Lemma cb_overflow_inv W b ch : CbI W b ->
  let b' := fst (cb_overflow b ch) in
  CbI (W ++ match ch with Some x => [x] | None => [] end) b' /\ window_ok b' /\
  (cb_null b = false -> cb_bsize b <= cb_bsize b').
Proof.
  intros H. unfold cb_overflow. cbn [fst].
  set (b1 := if cb_null b then _ else _).
  assert (H1 : CbI W b1 /\ cb_null b1 = false /\ cb_pptr b1 < cb_epptr b1 /\ (cb_null b = false -> cb_bsize b <= cb_bsize b1)).
  { unfold b1. destruct H as [(N1 & -> & R & P & S & B & E)|(N1 & R & P & B & E & S & Z)]; rewrite N1.
    - rewrite S. cbn [N.eqb]. split; [|split; [reflexivity|split; [cbn; unfold CB_INIT; lia|intros X; discriminate X]]].
      right. cbn. unfold CB_INIT. repeat split; lia.
    - destruct (N.eqb_spec (cb_pptr b) (cb_epptr b)) as [Eq|Ne].
      + destruct (grow_facts (cb_bsize b)) as (G1 & G2 & G3).
        assert (Egap : cb_grow_base (cb_bsize b) - cb_pptr b = 0) by (rewrite G1; lia).
        rewrite Egap. cbn [N.to_nat repeat app].
        split; [|split; [reflexivity|split; [cbn; apply G3; exact Z|intros _; cbn; unfold cb_grow_resize; lia]]].
        right. cbn. rewrite !G1. pose proof (G3 Z) as G4. rewrite G1 in G4. repeat split; try assumption; lia.
      + split; [|split; [reflexivity|split; [cbn; lia|intros _; cbn; lia]]].
        right. cbn. repeat split; try assumption; lia. }
  destruct H1 as (I1 & N1 & L1 & M1). destruct ch as [x|].
  - pose proof (CbI_store W b1 x N1 I1 L1) as I2. split; [exact I2|]. split; [|intros Hn; cbn; now apply M1].
    apply (CbI_window _ _ I2). cbn. exact N1.
  - rewrite app_nil_r. split; [exact I1|]. split; [now apply (CbI_window _ _ I1)|exact M1].
Qed.

Lemma cb_sputc_inv W b x : CbI W b -> CbI (W ++ [x]) (fst (cb_sputc b x)).
Proof.
  intros H. unfold cb_sputc. destruct (N.ltb_spec (cb_pptr b) (cb_epptr b)) as [L|L].
  - cbn [fst]. apply CbI_store; [|exact H|exact L].
    destruct H as [(_ & _ & _ & P & _ & _ & E)|(N1 & _)]; [lia|exact N1].
  - destruct (cb_overflow_inv W b (Some x) H) as [A _]. exact A.
Qed.

Lemma rev_append_rev_app {A} (a l : list A) : rev (rev_append a l) = rev l ++ a.
Proof. rewrite rev_append_rev, rev_app_distr, rev_involutive. reflexivity. Qed.

Lemma cb_xsputn_inv : forall fuel W b s, (length s < fuel)%nat -> CbI W b -> CbI (W ++ s) (fst (cb_xsputn fuel b s)).
Proof.
  induction fuel as [|f IH]; intros W b s Hf H; [lia|].
  cbn [cb_xsputn]. set (k := N.min (cb_epptr b - cb_pptr b) (lenN s)).
  set (b1 := mkCb _ _ _ _ _ _).
  assert (H1 : CbI (W ++ takeN k s) b1).
  { destruct H as [(N1 & -> & R & P & S & B & E)|(N1 & R & P & B & E & S & Z)].
    - assert (Hk : k = 0) by (unfold k; rewrite E, P; lia). unfold b1. rewrite Hk, takeN_0. cbn [rev_append app]. rewrite N.add_0_r.
      left. cbn. repeat split; assumption.
    - right. unfold b1. cbn. rewrite rev_append_rev_app, R, lenN_app.
      assert (lenN (takeN k s) = k) by (apply lenN_takeN; unfold k; lia).
      repeat split; try assumption; try (unfold k; lia); try (rewrite H, P; reflexivity). }
  destruct (dropN k s) as [|x r] eqn:ED.
  - cbn [fst]. rewrite <- (take_drop k s) at 1. rewrite ED, app_nil_r. exact H1.
  - destruct (cb_overflow_inv _ b1 (Some x) H1) as [A _]. destruct (cb_overflow b1 (Some x)) as [b2 fwd]. cbn [fst] in A.
    assert (Hr : (length r < f)%nat).
    { assert (length (dropN k s) <= length s)%nat by (unfold dropN; rewrite skipn_length; lia). rewrite ED in H0. cbn in H0. lia. }
    specialize (IH _ b2 r Hr A). destruct (cb_xsputn f b2 r) as [b3 fs]. cbn [fst] in *.
    replace (W ++ s) with (((W ++ takeN k s) ++ [x]) ++ r); [exact IH|].
    rewrite <- !app_assoc. f_equal. rewrite <- (take_drop k s) at 2. rewrite ED. reflexivity.
Qed.

Lemma fold_sputc_inv : forall s W b, CbI W b -> CbI (W ++ s) (fold_left (fun b x => fst (cb_sputc b x)) s b).
Proof.
  induction s as [|x s IH]; intros W b H; cbn [fold_left]; [now rewrite app_nil_r|].
  replace (W ++ x :: s) with ((W ++ [x]) ++ s) by (now rewrite <- app_assoc). apply IH. now apply cb_sputc_inv.
Qed.

Lemma cb_run_inv : forall ops W b, CbI W b -> CbI (W ++ concat (map obytes ops)) (cb_run b ops).
Proof.
  induction ops as [|o t IH]; intros W b H; cbn [cb_run map concat]; [now rewrite app_nil_r|].
  rewrite app_assoc. apply IH. destruct o; cbn [obytes]; rewrite ?app_nil_r; try exact H.
  - apply cb_xsputn_inv; [lia|exact H].
  - now apply fold_sputc_inv.
  - destruct (cb_overflow_inv W b None H) as [A _]. now rewrite app_nil_r in A.
Qed.

(* getstr on a buffer whose window is in order returns exactly what was written *)
Lemma cb_getstr_exact W b : CbI W b -> cb_null b = false -> cb_getstr b = W.
Proof.
  intros [(N1 & _)|(N1 & R & P & B & E & S & Z)] Hn; [congruence|].
  unfold cb_getstr, cb_getstr_n. rewrite <- rev_alt. rewrite S, R.
  assert (En : cb_bsize b - (cb_bsize b - cb_pptr b) = lenN W) by lia.
  rewrite En. rewrite takeN_app_le by lia. apply takeN_all. lia.
Qed.

(* copy_buf::close() then copied_data(): the page handed to the cache *)
Lemma cb_page_exact ops : cb_page ops = concat (map obytes ops).
Proof.
  unfold cb_page.
  assert (H0 : CbI [] cb0) by (left; cbn; repeat split; reflexivity).
  pose proof (cb_run_inv ops [] cb0 H0) as H. cbn [app] in H.
  destruct (cb_overflow_inv _ _ None H) as (A & (Nn & _) & _). rewrite app_nil_r in A.
  now apply cb_getstr_exact.
Qed.

(* the invariant as such: whatever is written, after every overflow epptr = buffer_.size() *)
Lemma cb_window_invariant ops ch : window_ok (fst (cb_overflow (cb_run cb0 ops) ch)).
Proof.
  assert (H0 : CbI [] cb0) by (left; cbn; repeat split; reflexivity).
  pose proof (cb_run_inv ops [] cb0 H0) as H.
  destruct (cb_overflow_inv _ _ ch H) as (_ & A & _). exact A.
Qed.
