(* C03 proofs, part 13: when copy_to_cache() (cache().fetch_page miss) is called before the first output, copy_buf is
   installed by out() and stays installed; together with response_exact: the page handed to the cache is exactly the
   body -- which is also what the wire carries after de-framing *)
From CppcmsV Require Import Base.Tac C03.Defs C03.Proofs C03.Proofs2 C03.Proofs3 C03.Proofs4 C03.Proofs5 C03.Proofs6 C03.Proofs7.
Local Open Scope N_scope.

Definition is_copy (o : op) : bool := match o with OCopy => true | _ => false end.

(* after out(): copy_buf stays as it is *)
Lemma put_all_copy_on : forall s r c, r_copy_on (fst (put_all resp_putc r c s)) = r_copy_on r /\ r_out (fst (put_all resp_putc r c s)) = r_out r.
Proof.
  induction s as [|x s IH]; intros r c; cbn [put_all]; [auto|].
  assert (H : r_copy_on (fst (resp_putc r c x)) = r_copy_on r /\ r_out (fst (resp_putc r c x)) = r_out r).
  { unfold resp_putc. destruct (r_copy_on r) eqn:E.
    - destruct (cpy_sputc _ _ _ _) as [[y d] c1]. cbn. auto.
    - destruct (dev_sputc _ _ _) as [d c1]. cbn. auto. }
  destruct (resp_putc r c x) as [r1 c1]. cbn [fst] in H. destruct (IH r1 c1) as [A B]. destruct H as [H1 H2]. split; congruence.
Qed.

Lemma step_copy_on r c o : r_out r = true ->
  r_copy_on (fst (step r c o)) = r_copy_on r /\ r_out (fst (step r c o)) = true.
Proof.
  intros Ho. destruct o; cbn [step]; rewrite ?resp_out_done by exact Ho.
  - destruct (r_copy_on r) eqn:E.
    + destruct (cpy_xsputn _ _ _ _ _) as [[y d] c1]. cbn. auto.
    + destruct (dev_xsputn _ _ _) as [d c1]. cbn. auto.
  - destruct (put_all_copy_on s r c) as [A B]. split; congruence.
  - destruct (r_copy_on r) eqn:E.
    + destruct (cpy_sync _ _ _) as [[y d] c1]. cbn. auto.
    + destruct (dev_sync _ _) as [d c1]. cbn. auto.
  - rewrite Ho. destruct (dev_setbuf _ _ _) as [d c1]. cbn. auto.
  - destruct (d_async (r_dev r)); [|auto]. destruct (dev_full _ _ _) as [d c1]. cbn. auto.
  - cbn. auto.
  - cbn. auto.
  - cbn. auto.
  - destruct (d_async (r_dev r) && r_out r); [|auto]. destruct (async_write_response _ _) as [d c1]. cbn. auto.
Qed.

Lemma run_ops_copy_on : forall ops r c, r_out r = true ->
  r_copy_on (fst (run_ops r c ops)) = r_copy_on r /\ r_out (fst (run_ops r c ops)) = true.
Proof.
  induction ops as [|o t IH]; intros r c Ho; cbn [run_ops]; [auto|].
  destruct (step_copy_on r c o Ho) as [A B]. destruct (step r c o) as [r1 c1]. cbn [fst] in *.
  destruct (IH r1 c1 B) as [A2 B2]. split; congruence.
Qed.

(* before out(): only the request flag changes *)
Lemma pre_step_flag r c o : r_out r = false -> is_output o = false ->
  r_out (fst (step r c o)) = false /\ r_copy_flag (fst (step r c o)) = (r_copy_flag r || is_copy o).
Proof.
  intros Ho Hn. destruct o; try discriminate; cbn [step is_copy]; rewrite ?orb_false_r.
  - rewrite Ho. cbn. auto.
  - destruct (d_async (r_dev r)); [|auto]. destruct (dev_full _ _ _) as [d c1]. cbn. auto.
  - cbn. auto.
  - cbn. auto.
  - cbn. rewrite orb_true_r. auto.
  - rewrite Ho, andb_false_r. auto.
Qed.

Lemma resp_out_copy r c : r_out r = false ->
  r_copy_on (fst (resp_out r c)) = r_copy_flag r /\ r_out (fst (resp_out r c)) = true.
Proof. intros Ho. unfold resp_out. rewrite Ho. cbn. auto. Qed.

Lemma whole_copy_on : forall ops r c, r_out r = false ->
  (r_copy_flag r = true \/ exists pre rest, ops = pre ++ OCopy :: rest /\ Forall (fun o => is_output o = false) pre) ->
  r_copy_on (fst (whole r c ops)) = true.
Proof.
  induction ops as [|o t IH]; intros r c Ho H.
  - destruct H as [H|(pre & rest & E & _)]; [|destruct pre; discriminate].
    unfold whole. cbn [run_ops]. rewrite finish_out.
    destruct (resp_out_copy r c Ho) as [A B].
    destruct (finish_copy_on (fst (resp_out r c)) (snd (resp_out r c)) B) as [F _]. congruence.
  - destruct (is_output o) eqn:EO.
    + (* first output: out() installs copy_buf iff the flag is set; the flag must be set already *)
      assert (Hf : r_copy_flag r = true).
      { destruct H as [H|(pre & rest & E & Hp)]; [exact H|]. destruct pre as [|p pre].
        - cbn in E. injection E as -> _. discriminate.
        - cbn in E. injection E as <- _. inversion Hp; subst. congruence. }
      unfold whole. cbn [run_ops]. rewrite (step_out r c o EO).
      destruct (resp_out_copy r c Ho) as [A B].
      set (r1 := fst (resp_out r c)) in *. set (c1 := snd (resp_out r c)) in *.
      destruct (step_copy_on r1 c1 o B) as [A2 B2]. destruct (step r1 c1 o) as [r2 c2]. cbn [fst] in *.
      destruct (run_ops_copy_on t r2 c2 B2) as [A3 B3]. destruct (run_ops r2 c2 t) as [r3 c3]. cbn [fst] in *.
      destruct (finish_copy_on r3 c3 B3) as [F _]. congruence.
    + destruct (pre_step_flag r c o Ho EO) as [A B].
      unfold whole. cbn [run_ops]. destruct (step r c o) as [r1 c1] eqn:ES. cbn [fst] in *.
      apply (IH r1 c1 A).
      destruct H as [H|(pre & rest & E & Hp)].
      * left. rewrite B, H. reflexivity.
      * destruct pre as [|p pre].
        -- cbn in E. injection E as -> _. left. rewrite B. cbn. apply orb_true_r.
        -- cbn in E. injection E as <- ->. right. exists pre, rest. split; [reflexivity|]. now inversion Hp.
Qed.

(* the page-cache copy is the body *)
Lemma cache_copy_is_body async base defbuf version c pre rest :
  fresh c -> Forall (fun o => is_output o = false) pre ->
  let ops := pre ++ OCopy :: rest in
  k_err (fst (run_request async base defbuf version c ops)) = false ->
  snd (run_request async base defbuf version c ops) = script_body ops.
Proof.
  intros Hf Hpre ops Hok.
  destruct (response_exact_lemma async base defbuf version c ops Hf Hok) as (_ & _ & HC).
  apply HC. apply whole_copy_on; [reflexivity|]. right. exists pre, rest. split; [reflexivity|exact Hpre].
Qed.

(* a kept-alive connection (HTTP keep-alive, FastCGI keep-conn): the connection object is reset for the next request
   with the socket state carried over; since a completed response leaves nothing pending, the next response starts
   from a fresh connection again -- so the per-request theorems apply to every response of the connection *)
Lemma next_request_fresh async base defbuf version c ops p h11 cka rid srv :
  fresh c -> k_err (fst (run_request async base defbuf version c ops)) = false ->
  let cf := fst (run_request async base defbuf version c ops) in
  fresh (new_conn p h11 cka rid srv (k_pending cf) (k_sched cf) (k_log cf)).
Proof.
  intros Hf Hok cf. destruct (response_exact_lemma async base defbuf version c ops Hf Hok) as (_ & P & _).
  unfold fresh, new_conn. cbn [k_err k_trace k_wire k_pending]. fold cf in P. auto.
Qed.
