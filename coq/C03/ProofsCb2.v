(* C03 proofs: the record cpy (which decides WHEN copy_buf hands pbase..pptr to the device, used by step / run_request) is a
   faithful abstraction of the exact buffer cbuf: along any sequence of operations both stay in the simulation relation
   Sim -- same content, c_size = buffer_.size(), c_room = epptr - pptr, c_unsent = buffer_[pbase .. pptr) -- and every
   overflow forwards the same bytes.  So the window/growth arithmetic used by the end-to-end theorems is the one tied to the
   source through cbuf (Link.v). *)
From CppcmsV Require Import Base.Tac C03.Defs C03.Proofs C03.Proofs3 C03.Proofs5 C03.Proofs6 C03.ProofsCb.
Local Open Scope N_scope.

Definition Sim (W : bytes) (y : cpy) (b : cbuf) : Prop :=
  CbI W b /\ c_all y = W /\ c_size y = cb_bsize b /\ c_room y = cb_epptr b - cb_pptr b /\ c_unsent y = dropN (cb_pbase b) W.

Lemma Sim0 : Sim [] (mkCpy [] [] 0 0) cb0.
Proof. split; [left; cbn; repeat split; reflexivity|]. cbn. auto. Qed.

Lemma cb_forward_spec W b : CbI W b -> cb_forward b = dropN (cb_pbase b) W.
Proof.
  intros [(N1 & -> & R & P & S & B & E)|(N1 & R & P & B & E & S & Z)]; unfold cb_forward.
  - rewrite R, B. cbn. destruct (N.to_nat (cb_pptr b - 0)); reflexivity.
  - rewrite rev_append_rev, app_nil_r.
    assert (Er : cb_rpre b = rev W) by (rewrite <- R; now rewrite rev_involutive).
    rewrite Er, firstn_rev, rev_involutive. unfold dropN. f_equal.
    unfold lenN in P. lia.
Qed.

Lemma dropN_len_app {A} (W s : list A) : dropN (lenN W) (W ++ s) = s.
Proof. rewrite dropN_app_ge by lia. rewrite N.sub_diag. apply dropN_0. Qed.

(* overflow: same new state (up to Sim), same forwarded bytes *)
Lemma Sim_overflow W y b d c ch : Sim W y b ->
  Sim (W ++ match ch with Some x => [x] | None => [] end) (fst (fst (cpy_overflow y d c ch))) (fst (cb_overflow b ch)) /\
  snd (cb_overflow b ch) = c_unsent y.
Proof.
  intros (HI & Ha & Hs & Hr & Hu).
  pose proof (cb_overflow_inv W b ch HI) as HO. cbv zeta in HO. destruct HO as (HI' & _ & _).
  split; [|unfold cb_overflow; cbn [snd]; rewrite (cb_forward_spec W b HI); now rewrite Hu].
  split; [exact HI'|].
  unfold cpy_overflow. destruct (match c_unsent y with [] => (d, c) | _ => _ end) as [d1 c1].
  unfold cb_overflow. cbn [fst].
  destruct HI as [(N1 & -> & R & P & S & B & E)|(N1 & R & P & B & E & S & Z)]; rewrite N1.
  - (* first overflow *)
    rewrite Hs, ?S. cbn [N.eqb].
    destruct ch as [x|]; cbn; unfold CB_INIT; repeat split; try (now rewrite Ha).
  - assert (Hz : (c_size y =? 0) = false) by (apply N.eqb_neq; lia). rewrite Hz.
    destruct (N.eqb_spec (cb_pptr b) (cb_epptr b)) as [Eq|Ne].
    + assert (Hr0 : (c_room y =? 0) = true) by (apply N.eqb_eq; lia). rewrite Hr0.
      destruct (grow_facts (cb_bsize b)) as (G1 & G2 & G3).
      assert (Egap : cb_grow_base (cb_bsize b) - cb_pptr b = 0) by (rewrite G1; lia). rewrite Egap. cbn [N.to_nat repeat app].
      assert (Ep : cb_bsize b = lenN W) by lia.
      destruct ch as [x|]; cbn; rewrite ?G1; unfold cb_grow_end, cb_grow_resize; rewrite Ha, Hs.
      * repeat split; try lia. rewrite Ep. now rewrite dropN_len_app.
      * rewrite app_nil_r. repeat split; try lia. rewrite Ep. symmetry. apply dropN_all. lia.
    + assert (Hr0 : (c_room y =? 0) = false) by (apply N.eqb_neq; lia). rewrite Hr0.
      destruct ch as [x|]; cbn; rewrite Ha, Hs, Hr.
      * repeat split; try lia. rewrite P. now rewrite dropN_len_app.
      * rewrite app_nil_r. repeat split; try lia. rewrite P. symmetry. apply dropN_all. lia.
Qed.

Lemma Sim_sputc W y b d c x : Sim W y b ->
  Sim (W ++ [x]) (fst (fst (cpy_sputc y d c x))) (fst (cb_sputc b x)).
Proof.
  intros H. pose proof H as (HI & Ha & Hs & Hr & Hu). unfold cpy_sputc, cb_sputc.
  destruct (N.ltb_spec 0 (c_room y)) as [L|L].
  - assert (L2 : (cb_pptr b <? cb_epptr b) = true) by (apply N.ltb_lt; lia). rewrite L2. cbn [fst].
    assert (Hn : cb_null b = false /\ cb_pbase b <= lenN W).
    { destruct HI as [(_ & _ & _ & P & _ & _ & E)|(N1 & _ & P & B & _)]; [lia|]. split; [exact N1|lia]. }
    destruct Hn as [Hn Hb].
    split; [apply CbI_store; [exact Hn|exact HI|lia]|]. cbn. rewrite Ha, Hs, Hr, Hu.
    repeat split; try lia. symmetry. now apply dropN_app_lt.
  - assert (L2 : (cb_pptr b <? cb_epptr b) = false).
    { apply N.ltb_ge. destruct HI as [(_ & _ & _ & P & _ & _ & E)|(_ & _ & _ & _ & E & _)]; lia. }
    rewrite L2. destruct (Sim_overflow W y b d c (Some x) H) as [A _]. exact A.
Qed.

Lemma Sim_xsputn : forall fuel W y b d c s, (length s < fuel)%nat -> Sim W y b ->
  Sim (W ++ s) (fst (fst (cpy_xsputn fuel y d c s))) (fst (cb_xsputn fuel b s)).
Proof.
  induction fuel as [|f IH]; intros W y b d c s Hf H; [lia|].
  pose proof H as (HI & Ha & Hs & Hr & Hu).
  cbn [cpy_xsputn cb_xsputn]. rewrite <- Hr. set (k := N.min (c_room y) (lenN s)).
  set (y1 := mkCpy _ _ _ _). set (b1 := mkCb _ _ _ _ _ _).
  assert (Hk : k <= lenN s) by (unfold k; lia).
  assert (H1 : Sim (W ++ takeN k s) y1 b1).
  { pose proof (cb_xsputn_inv 1 W b (takeN k s)) as X.
    assert (HI1 : CbI (W ++ takeN k s) b1).
    { destruct HI as [(N1 & -> & R & P & S & B & E)|(N1 & R & P & B & E & S & Z)].
      - assert (Hk0 : k = 0) by (unfold k; rewrite Hr, E, P; lia). unfold b1. rewrite Hk0, takeN_0. cbn [rev_append app]. rewrite N.add_0_r.
        left. cbn. repeat split; assumption.
      - right. unfold b1. cbn. rewrite rev_append_rev_app, R, lenN_app.
        assert (lenN (takeN k s) = k) by (apply lenN_takeN; exact Hk).
        repeat split; try assumption; try (unfold k; lia); try (rewrite H0, P; reflexivity). }
    split; [exact HI1|]. unfold y1, b1. cbn. rewrite Ha, Hs, Hr, Hu.
    assert (Hb : cb_pbase b <= lenN W).
    { destruct HI as [(_ & _ & _ & P & _ & B & E)|(N1 & _ & P & B & _)]; lia. }
    repeat split; try (unfold k; lia). symmetry. now apply dropN_app_lt. }
  destruct (dropN k s) as [|x r] eqn:ED.
  - cbn [fst]. rewrite <- (take_drop k s) at 1. rewrite ED, app_nil_r. exact H1.
  - destruct (Sim_overflow _ y1 b1 d c (Some x) H1) as [A _].
    destruct (cpy_overflow y1 d c (Some x)) as [[y2 d2] c2]. destruct (cb_overflow b1 (Some x)) as [b2 fwd]. cbn [fst] in A.
    assert (Hr2 : (length r < f)%nat).
    { assert (length (dropN k s) <= length s)%nat by (unfold dropN; rewrite skipn_length; lia). rewrite ED in H0. cbn in H0. lia. }
    specialize (IH _ y2 b2 d2 c2 r Hr2 A).
    destruct (cpy_xsputn f y2 d2 c2 r) as [[y3 d3] c3]. destruct (cb_xsputn f b2 r) as [b3 fs]. cbn [fst] in *.
    replace (W ++ s) with (((W ++ takeN k s) ++ [x]) ++ r); [exact IH|].
    rewrite <- !app_assoc. f_equal. rewrite <- (take_drop k s) at 2. rewrite ED. reflexivity.
Qed.

Lemma Sim_all : forall fuel W y b d c s x, (length s < fuel)%nat -> Sim W y b ->
  Sim (W ++ s) (fst (fst (cpy_xsputn fuel y d c s))) (fst (cb_xsputn fuel b s)) /\
  Sim (W ++ [x]) (fst (fst (cpy_sputc y d c x))) (fst (cb_sputc b x)) /\
  Sim [] (mkCpy [] [] 0 0) cb0.
Proof. intros fuel W y b d c s x Hf H. split; [now apply Sim_xsputn|]. split; [now apply Sim_sputc|exact Sim0]. Qed.
