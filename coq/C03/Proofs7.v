(* C03 proofs, part 7: end-to-end statements for run_request, per protocol *)
From CppcmsV Require Import Base.Tac C03.Defs C03.Proofs C03.Proofs2 C03.Proofs3 C03.Proofs4 C03.Proofs5 C03.Proofs6 C03.ProofsCb.
Local Open Scope N_scope.

Definition script_body (ops : list op) : bytes := concat (map obytes ops).
Definition fresh (c : conn) : Prop := k_err c = false /\ k_trace c = [] /\ k_wire c = [] /\ k_pending c = [].

Lemma run_request_whole async base defbuf version c ops :
  run_request async base defbuf version c ops =
  (snd (whole (new_resp async base defbuf version) c ops),
   if r_copy_on (fst (whole (new_resp async base defbuf version) c ops)) then cb_page ops else []).
Proof.
  unfold run_request, whole. destruct (run_ops _ c ops) as [r c1]. destruct (finish r c1) as [r2 c2]. reflexivity.
Qed.

Lemma pre_new async base defbuf version : PreI async (new_resp async base defbuf version).
Proof. constructor; reflexivity. Qed.

(* response_exact: for EVERY script (setbuf of any size at any point included), every protocol, every
   accept schedule: unless an error was signalled, the wire is the ideal stream of a trace t ++ [(g, eof)] whose data is
   exactly what the script wrote, nothing is pending, and the page-cache copy (if installed) equals the body *)
Lemma response_exact_lemma async base defbuf version c ops :
  fresh c ->
  let f0 := set_response_headers (k_fmt c) (hdrs_at_out base ops) version in
  let res := run_request async base defbuf version c ops in
  k_err (fst res) = false ->
  (exists (t : list (gather * bool)) (g : gather), all_false t /\ concat (map data_of t) ++ concat g = script_body ops /\
               wire_bytes (fst res) = stream f0 (t ++ [(g, true)])) /\
  k_pending (fst res) = [] /\
  (r_copy_on (fst (whole (new_resp async base defbuf version) c ops)) = true -> snd res = script_body ops).
Proof.
  intros (He & Ht & Hw & Hp) f0 res Hok. unfold res in *. rewrite run_request_whole in *. cbn [fst snd] in *.
  assert (Hs : sent c = []) by (unfold sent, wire_bytes; now rewrite Hw, Hp).
  pose proof (whole_done async ops (new_resp async base defbuf version) c (pre_new _ _ _ _) He Ht Hs) as H.
  cbv zeta in H. cbn [new_resp r_hdrs r_version] in H. destruct H as [HD HC].
  split; [exact (done_wire _ _ _ HD Hok)|]. split; [exact (dn_pending _ _ _ HD Hok)|].
  intros Hc. rewrite Hc. apply cb_page_exact.
Qed.

(* ---------------------------------------------------------------- per protocol *)
Lemma srh_fields f h v : f_proto (set_response_headers f h v) = f_proto f /\ f_hdr_done (set_response_headers f h v) = false /\
  f_reqid (set_response_headers f h v) = f_reqid f /\ f_cka (set_response_headers f h v) = f_cka f /\
  f_http11 (set_response_headers f h v) = f_http11 f /\ f_server (set_response_headers f h v) = f_server f.
Proof. unfold set_response_headers. destruct (f_proto f) eqn:E; cbn; rewrite ?E; repeat split. Qed.

Lemma scgi_exact async base defbuf version c ops :
  fresh c -> f_proto (k_fmt c) = Scgi ->
  let cf := fst (run_request async base defbuf version c ops) in
  k_err cf = false ->
  wire_bytes cf = format_cgi_headers (hdrs_at_out base ops) ++ script_body ops.
Proof.
  intros Hf Hp cf Hok.
  destruct (response_exact_lemma async base defbuf version c ops Hf Hok) as ((t & g & Haf & Hb & Hw) & _ & _).
  fold cf in Hw. rewrite Hw. set (f0 := set_response_headers _ _ _).
  destruct (srh_fields (k_fmt c) (hdrs_at_out base ops) version) as (P & D & _). fold f0 in P, D.
  assert (Hh : f_hdr f0 = format_cgi_headers (hdrs_at_out base ops)) by (unfold f0, set_response_headers; rewrite Hp; reflexivity).
  rewrite <- Hh, <- Hb.
  destruct t as [|[g0 e0] t].
  - cbn [app]. rewrite stream_scgi by congruence. cbn [map concat]. unfold data_of. cbn [fst]. now rewrite app_nil_r.
  - cbn [app]. rewrite stream_scgi by congruence.
    change ((g0, e0) :: t ++ [(g, true)]) with (((g0, e0) :: t) ++ [(g, true)]).
    rewrite map_app, concat_app. cbn [map concat]. unfold data_of at 3. cbn [fst]. now rewrite app_nil_r.
Qed.

Lemma fcgi_exact async base defbuf version c ops rest :
  fresh c -> f_proto (k_fmt c) = Fcgi ->
  let cf := fst (run_request async base defbuf version c ops) in
  k_err cf = false ->
  exists fuel0, forall fuel, (fuel0 <= fuel)%nat ->
  unrecord fuel (f_reqid (k_fmt c)) (wire_bytes cf ++ rest) =
  Some (format_cgi_headers (hdrs_at_out base ops) ++ script_body ops, rest).
Proof.
  intros Hf Hp cf Hok.
  destruct (response_exact_lemma async base defbuf version c ops Hf Hok) as ((t & g & Haf & Hb & Hw) & _ & _).
  fold cf in Hw. rewrite Hw. set (f0 := set_response_headers _ _ _).
  destruct (srh_fields (k_fmt c) (hdrs_at_out base ops) version) as (P & D & R & _). fold f0 in P, D, R.
  assert (Hh : f_hdr f0 = format_cgi_headers (hdrs_at_out base ops)) by (unfold f0, set_response_headers; rewrite Hp; reflexivity).
  destruct (fcgi_response_decodes f0 t g rest) as [fuel0 H]; [congruence|exact D|exact Haf|].
  exists fuel0. intros fuel Hfu. specialize (H fuel Hfu). rewrite R in H. rewrite H, Hh.
  rewrite map_app, concat_app. cbn [map concat]. unfold data_of at 2. cbn [fst]. rewrite app_nil_r, Hb. reflexivity.
Qed.

(* HTTP without an application-declared Content-Length: one of three framings, each sound *)
Lemma http_close_response_gen f g0 t :
  f_proto f = Http -> f_hdr_done f = false -> f_cka f && f_http11 f = false -> f_ocl f = None ->
  stream f ((g0, false) :: t) = (f_hdr f ++ f_server f ++ CONN_CLOSE ++ CRLF) ++ concat (map data_of ((g0, false) :: t)).
Proof.
  intros Hp Hd Hk Ho. cbn [stream]. unfold format_output, http_format, http_head. rewrite Hp, Hd, Ho.
  cbn [isSome orb]. rewrite Hk. cbn [andb negb]. rewrite stream_http_identity by (first [exact Hp | reflexivity]).
  cbn [app concat map]. unfold data_of at 2. cbn [fst]. rewrite <- !app_assoc. reflexivity.
Qed.

Inductive http_wire (hdr server body wire : bytes) : Prop :=
| HwLength conn_line : (conn_line = CONN_KA \/ conn_line = CONN_CLOSE) ->
    wire = (hdr ++ server ++ CL_LINE ++ decN (lenN body) ++ CRLF ++ conn_line ++ CRLF) ++ body -> http_wire hdr server body wire
| HwChunked bw : wire = (hdr ++ server ++ (CONN_KA ++ TE_CHUNKED) ++ CRLF) ++ bw ->
    (exists fuel0, forall fuel rest, (fuel0 <= fuel)%nat -> unchunk fuel (bw ++ rest) = Some (body, rest)) -> http_wire hdr server body wire
| HwClose : wire = (hdr ++ server ++ CONN_CLOSE ++ CRLF) ++ body -> http_wire hdr server body wire.

Lemma http_exact async base defbuf version c ops :
  fresh c -> f_proto (k_fmt c) = Http -> hmap_get (h_map (hdrs_at_out base ops)) CONTENT_LENGTH = [] ->
  let cf := fst (run_request async base defbuf version c ops) in
  k_err cf = false ->
  http_wire (format_http_headers (hdrs_at_out base ops) version) (f_server (k_fmt c)) (script_body ops) (wire_bytes cf).
Proof.
  intros Hf Hp Hcl cf Hok.
  destruct (response_exact_lemma async base defbuf version c ops Hf Hok) as ((t & g & Haf & Hb & Hw) & _ & _).
  fold cf in Hw. set (f0 := set_response_headers _ _ _) in Hw.
  destruct (srh_fields (k_fmt c) (hdrs_at_out base ops) version) as (P & D & R & K & V & S). fold f0 in P, D, R, K, V, S.
  assert (Hh : f_hdr f0 = format_http_headers (hdrs_at_out base ops) version /\ f_ocl f0 = None).
  { unfold f0, set_response_headers. rewrite Hp, Hcl. split; reflexivity. }
  destruct Hh as [Hh Ho]. rewrite <- Hh, <- S.
  destruct t as [|[g0 e0] t].
  - (* a single completing write *)
    cbn [app] in Hw. rewrite http_single_write_response in Hw by congruence.
    cbn [map concat app] in Hb. rewrite <- Hb. apply (HwLength _ _ _ _ (if f_cka f0 then CONN_KA else CONN_CLOSE)).
    + destruct (f_cka f0); auto.
    + exact Hw.
  - inversion Haf as [|? ? He0 Haf']; subst. cbn [snd] in He0. subst e0.
    destruct (f_cka f0 && f_http11 f0) eqn:EK.
    + apply andb_prop in EK. destruct EK as [EK1 EK2].
      destruct (http_chunked_response_decodes f0 g0 t g [] ltac:(congruence) D EK1 EK2 Ho Haf') as (bw & Hst & _).
      apply (HwChunked _ _ _ _ bw).
      * rewrite Hw. exact Hst.
      * exists (length t + 3)%nat. intros fuel rest Hfu.
        destruct (http_chunked_response_decodes f0 g0 t g rest ltac:(congruence) D EK1 EK2 Ho Haf') as (bw' & Hst' & Hun).
        cbn [app] in Hst, Hst'. rewrite Hst in Hst'. apply app_inv_head in Hst'. subst bw'.
        rewrite (Hun fuel ltac:(lia)). f_equal. f_equal. rewrite <- Hb. cbn [map concat app].
        rewrite map_app, concat_app. cbn [map concat]. unfold data_of at 3. cbn [fst]. rewrite app_nil_r, <- app_assoc. reflexivity.
    + apply HwClose. rewrite Hw. cbn [app]. rewrite http_close_response_gen by congruence.
      f_equal. rewrite <- Hb. cbn [map concat app].
      rewrite map_app, concat_app. cbn [map concat]. unfold data_of at 3. cbn [fst]. rewrite app_nil_r, <- app_assoc. reflexivity.
Qed.

(* HTTP with an application-declared Content-Length: no framing is added (the header block already carries the
   length), the body follows verbatim; writing more than announced is refused with an error and nothing of the
   offending buffer is sent *)
Lemma http_declared_length_response f l g0 e0 t :
  f_proto f = Http -> f_hdr_done f = false -> f_ocl f = Some l ->
  stream f ((g0, e0) :: t) =
  (f_hdr f ++ f_server f ++ (if f_cka f then CONN_KA else CONN_CLOSE) ++ CRLF) ++ concat (map data_of ((g0, e0) :: t)).
Proof.
  intros Hp Hd Ho. cbn [stream]. unfold format_output, http_format, http_head. rewrite Hp, Hd, Ho.
  cbn [isSome orb negb]. rewrite andb_true_r, andb_false_r.
  rewrite stream_http_identity by (first [exact Hp | reflexivity]).
  destruct (f_cka f); cbn [app concat map]; unfold data_of at 2; cbn [fst]; rewrite ?app_nil_r, <- ?app_assoc; reflexivity.
Qed.

Lemma http_overrun_is_error f l g e :
  f_proto f = Http -> f_hdr_done f = true -> f_chunked f = false -> f_ocl f = Some l -> l < f_owritten f + gsize g ->
  snd (format_output f g e) = true.
Proof.
  intros Hp Hd Hc Ho Hl. unfold format_output, http_format. rewrite Hp, Hd, Hc, Ho. cbn [snd overrun].
  now apply N.ltb_lt.
Qed.
Lemma http_within_length_ok f l g e :
  f_proto f = Http -> f_hdr_done f = true -> f_chunked f = false -> f_ocl f = Some l -> f_owritten f + gsize g <= l ->
  format_output f g e = (set_fmt f (f_hdr f) true false (Some l) (f_owritten f + gsize g) (f_keepalive f), g, false).
Proof.
  intros Hp Hd Hc Ho Hl. unfold format_output, http_format. rewrite Hp, Hd, Hc, Ho. cbn [overrun].
  assert (E : (l <? f_owritten f + gsize g) = false) by (apply N.ltb_ge; exact Hl). now rewrite E.
Qed.
(* an error raised by format_output stops the write before anything reaches the socket *)
Lemma format_error_sends_nothing c g e f1 nd :
  k_err c = false -> format_output (k_fmt c) g e = (f1, nd, true) ->
  sent (fst (nonblocking_write c g e)) = sent c /\ k_err (fst (nonblocking_write c g e)) = true /\
  sent (blocking_write c g e) = sent c /\ k_err (blocking_write c g e) = true.
Proof.
  intros He Hf. unfold nonblocking_write, blocking_write. rewrite He, Hf. cbn. auto.
Qed.
