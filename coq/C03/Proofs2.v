(* C03 proofs, part 2: the framing of HTTP chunked transfer coding and of FastCGI records is inverted by the
   independent decoders unchunk / unrecord, for every sequence of gather buffers *)
From CppcmsV Require Import Base.Tac C03.Defs C03.Proofs.
Local Open Scope N_scope.

(* ---------------------------------------------------------------- hexadecimal chunk sizes *)
Lemma hexval_hexdigit n : n < 16 -> hexval (hexdigit n) = Some n.
Proof.
  intros H.
  assert (E : n = 0 \/ n = 1 \/ n = 2 \/ n = 3 \/ n = 4 \/ n = 5 \/ n = 6 \/ n = 7 \/ n = 8 \/ n = 9 \/ n = 10 \/
              n = 11 \/ n = 12 \/ n = 13 \/ n = 14 \/ n = 15) by lia.
  repeat (destruct E as [->|E]; [reflexivity|]). subst. reflexivity.
Qed.

Lemma read_hex_digit acc n s : n < 16 -> read_hex acc (hexdigit n :: s) = read_hex (acc * 16 + n) s.
Proof. intros H. cbn [read_hex]. now rewrite hexval_hexdigit. Qed.

Lemma pow16_succ f : 16 ^ N.of_nat (S f) = 16 * 16 ^ N.of_nat f.
Proof. rewrite Nat2N.inj_succ. apply N.pow_succ_r'. Qed.

Lemma read_hex_hex_fuel : forall fuel n, n < 16 ^ N.of_nat fuel ->
  exists m, forall acc s, read_hex acc (hex_fuel fuel n ++ s) = read_hex (acc * m + n) s.
Proof.
  induction fuel as [|f IH]; intros n Hn.
  - exists 1. intros acc s. cbn in Hn. cbn. f_equal. lia.
  - cbn [hex_fuel]. destruct (N.ltb_spec n 16) as [H16|H16].
    + exists 16. intros acc s. cbn [app]. now apply read_hex_digit.
    + rewrite pow16_succ in Hn.
      assert (Hq : n / 16 < 16 ^ N.of_nat f) by (apply N.div_lt_upper_bound; lia).
      destruct (IH _ Hq) as [m Hm]. exists (m * 16). intros acc s.
      rewrite <- app_assoc. rewrite Hm. cbn [app]. rewrite read_hex_digit by (apply N.mod_lt; lia).
      f_equal. pose proof (N.div_mod n 16). lia.
Qed.

Lemma hexN_bound n : n < 16 ^ N.of_nat (S (N.to_nat (N.log2 n))).
Proof.
  rewrite Nat2N.inj_succ, N2Nat.id.
  destruct (N.eq_dec n 0) as [->|Hn]; [cbn; lia|].
  assert (H := N.log2_spec n ltac:(lia)). destruct H as [_ H].
  eapply N.lt_le_trans; [exact H|]. apply N.pow_le_mono_l. lia.
Qed.

Lemma read_hexN n s : (forall c r, s = c :: r -> hexval c = None) ->
  read_hex 0 (hexN n ++ s) = (n, s).
Proof.
  intros Hs. unfold hexN. destruct (read_hex_hex_fuel _ _ (hexN_bound n)) as [m Hm].
  rewrite Hm. cbn [N.mul N.add]. destruct s as [|c r]; [reflexivity|].
  cbn [read_hex]. now rewrite (Hs c r eq_refl).
Qed.

Lemma hex_fuel_head : forall fuel n, n < 16 ^ N.of_nat fuel -> (0 < fuel)%nat ->
  exists d r v, hex_fuel fuel n = d :: r /\ hexval d = Some v.
Proof.
  induction fuel as [|f IH]; intros n Hn Hf; [lia|].
  cbn [hex_fuel]. destruct (N.ltb_spec n 16) as [H16|H16].
  - exists (hexdigit n), [], n. split; [reflexivity|now apply hexval_hexdigit].
  - rewrite pow16_succ in Hn.
    assert (Hq : n / 16 < 16 ^ N.of_nat f) by (apply N.div_lt_upper_bound; lia).
    assert (Hf' : (0 < f)%nat).
    { destruct f; [|lia]. cbn in Hq. assert (1 <= n / 16) by (apply N.div_le_lower_bound; lia). lia. }
    destruct (IH _ Hq Hf') as (d & r & v & E & Hv). rewrite E. exists d, (r ++ [hexdigit (n mod 16)]), v. auto.
Qed.
Lemma hexN_head n : exists d r v, hexN n = d :: r /\ hexval d = Some v.
Proof. apply hex_fuel_head; [apply hexN_bound|lia]. Qed.

(* ---------------------------------------------------------------- chunked transfer coding *)
Definition chunked_bytes (w : gather * bool) : bytes := concat (chunk_wrap (fst w) (snd w)).
Definition data_of (w : gather * bool) : bytes := concat (fst w).

Lemma unchunk_final f rest : unchunk (S f) (ZERO_CHUNK ++ rest) = Some ([], rest).
Proof. reflexivity. Qed.

Lemma unchunk_one f g tail : gsize g <> 0 ->
  unchunk (S f) (hexN (gsize g) ++ CRLF ++ concat g ++ CRLF ++ tail) =
  match unchunk f tail with Some (b, rest) => Some (concat g ++ b, rest) | None => None end.
Proof.
  intros Hg. destruct (hexN_head (gsize g)) as (d & r & v & E & Hv).
  remember (hexN (gsize g) ++ CRLF ++ concat g ++ CRLF ++ tail) as s eqn:Es.
  assert (Hs : s = d :: (r ++ CRLF ++ concat g ++ CRLF ++ tail)) by (rewrite Es, E; reflexivity).
  cbn [unchunk]. rewrite Hs. cbn iota. rewrite Hv. rewrite <- Hs. rewrite Es.
  rewrite read_hexN by (intros c r' [= <- _]; reflexivity).
  cbn [CRLF app strip_crlf].
  destruct (N.eqb_spec (gsize g) 0) as [E0|_]; [contradiction|].
  unfold gsize in *. set (n := lenN (concat g)) in *.
  assert (Hlen : lenN (concat g ++ 13 :: 10 :: tail) <? n = false).
  { apply N.ltb_ge. rewrite lenN_app. subst n. lia. }
  rewrite Hlen. rewrite dropN_app_ge by (subst n; lia). replace (n - lenN (concat g)) with 0 by (subst n; lia).
  rewrite dropN_0. cbn [strip_crlf].
  rewrite takeN_app_le by (subst n; lia). rewrite takeN_all by (subst n; lia). reflexivity.
Qed.

(* unchunk_chunk: any sequence of non-final writes followed by the completing write de-frames to the
   concatenation of the written buffers, and the decoder stops exactly behind the last-chunk *)
Lemma unchunk_chunk_aux : forall pre g rest fuel,
  Forall (fun w => snd w = false) pre -> (length pre + 1 < fuel)%nat ->
  unchunk fuel (concat (map chunked_bytes pre) ++ chunked_bytes (g, true) ++ rest) =
  Some (concat (map data_of pre) ++ concat g, rest).
Proof.
  induction pre as [|[g0 e0] pre IH]; intros g rest fuel Hpre Hfuel.
  - cbn [map concat app length] in *. unfold chunked_bytes, chunk_wrap. cbn [fst snd].
    destruct fuel as [|[|f]]; try lia.
    destruct (N.eqb_spec (gsize g) 0) as [E0|E0].
    + cbn [concat]. rewrite app_nil_r. unfold gsize in E0. rewrite (lenN_0 _ E0). apply unchunk_final.
    + rewrite !concat_app. cbn [concat]. rewrite !app_nil_r. rewrite <- !app_assoc.
      change (CRLF ++ ZERO_CHUNK ++ rest) with (CRLF ++ (ZERO_CHUNK ++ rest)).
      rewrite unchunk_one by assumption. rewrite unchunk_final. now rewrite app_nil_r.
  - inversion Hpre as [|? ? He Hpre']; subst. cbn [snd] in He. subst e0.
    cbn [map concat length] in *. rewrite <- !app_assoc.
    unfold chunked_bytes at 1, data_of at 1, chunk_wrap. cbn [fst snd].
    destruct (N.eqb_spec (gsize g0) 0) as [E0|E0].
    + cbn [concat app]. unfold gsize in E0. rewrite (lenN_0 _ E0). cbn [app].
      apply IH; [assumption|lia].
    + destruct fuel as [|f]; [lia|].
      rewrite !concat_app. cbn [concat]. rewrite !app_nil_r. rewrite <- !app_assoc.
      rewrite unchunk_one by assumption. rewrite IH by (assumption || lia). reflexivity.
Qed.

(* ---------------------------------------------------------------- FastCGI records *)
Lemma unrecord_mono : forall f rid s b rest, unrecord f rid s = Some (b, rest) -> forall k, unrecord (f + k) rid s = Some (b, rest).
Proof.
  induction f as [|f IH]; intros rid s b rest H k; [discriminate|].
  cbn [unrecord Nat.add] in *.
  destruct s as [|v s]; [discriminate|]. destruct v as [|[?|?|]]; try discriminate.
  do 7 (destruct s as [|? s]; [discriminate|]).
  destruct (negb _); [discriminate|]. destruct (_ <? _); [discriminate|].
  destruct (_ =? 3); [exact H|]. destruct (_ =? 6); [|discriminate].
  destruct (unrecord f rid _) as [[b1 r1]|] eqn:E; [|discriminate].
  rewrite (IH _ _ _ _ E k). exact H.
Qed.

Lemma rid_ok rid : rid / 256 * 256 + rid mod 256 =? rid = true.
Proof. apply N.eqb_eq. pose proof (N.div_mod rid 256). lia. Qed.
Lemma len_ok n : n / 256 * 256 + n mod 256 = n.
Proof. pose proof (N.div_mod n 256). lia. Qed.

Lemma unrecord_stdout f rid len pad content padding tail :
  lenN content = len -> lenN padding = pad ->
  unrecord (S f) rid (fcgi_header 6 rid len pad ++ content ++ padding ++ tail) =
  match unrecord f rid tail with Some (b, r) => Some (content ++ b, r) | None => None end.
Proof.
  intros Hc Hp. unfold fcgi_header. cbn [app unrecord]. rewrite rid_ok. cbn [negb]. rewrite len_ok.
  assert (Hlen : lenN (content ++ padding ++ tail) <? len + pad = false).
  { apply N.ltb_ge. rewrite !lenN_app. lia. }
  rewrite Hlen. change (6 =? 3) with false. change (6 =? 6) with true. cbn iota.
  assert (Hd : dropN (len + pad) (content ++ padding ++ tail) = tail).
  { rewrite dropN_app_ge by lia. replace (len + pad - lenN content) with pad by lia.
    rewrite dropN_app_ge by lia. replace (pad - lenN padding) with 0 by lia. reflexivity. }
  rewrite Hd. rewrite takeN_app_le by lia. rewrite takeN_all by lia. reflexivity.
Qed.

Lemma lenN_zeros n : lenN (zeros n) = n.
Proof. unfold lenN, zeros. rewrite repeat_length. lia. Qed.

Lemma unrecord_eof f rid rest : unrecord (S (S f)) rid (fcgi_eof rid ++ rest) = Some ([], rest).
Proof.
  unfold fcgi_eof. rewrite <- app_assoc.
  change (fcgi_header 6 rid 0 0 ++ (fcgi_header 3 rid 8 0 ++ zeros 8) ++ rest)
    with (fcgi_header 6 rid 0 0 ++ [] ++ [] ++ ((fcgi_header 3 rid 8 0 ++ zeros 8) ++ rest)).
  rewrite unrecord_stdout by reflexivity.
  unfold fcgi_header. cbn [app unrecord]. rewrite rid_ok. cbn [negb]. rewrite len_ok.
  assert (H : lenN (zeros 8 ++ rest) <? 8 + 0 = false) by (apply N.ltb_ge; rewrite lenN_app, lenN_zeros; lia).
  rewrite H. reflexivity.
Qed.

Lemma fcgi_records_decode : forall fuel rid g tail f2 b rest,
  (N.to_nat (gsize g / max_packet_len) < fuel)%nat ->
  unrecord f2 rid tail = Some (b, rest) ->
  unrecord (fuel + f2) rid (concat (fcgi_records fuel rid (gsize g) g) ++ tail) = Some (concat g ++ b, rest).
Proof.
  induction fuel as [|f IH]; intros rid g tail f2 b rest Hf Ht; [exfalso; exact (Nat.nlt_0_r _ Hf)|].
  cbn [fcgi_records]. destruct (N.eqb_spec (gsize g) 0) as [E0|E0].
  - cbn [concat app]. unfold gsize in E0. rewrite (lenN_0 _ E0). cbn [app].
    rewrite Nat.add_comm. now apply unrecord_mono.
  - destruct (N.ltb_spec max_packet_len (gsize g)) as [Hbig|Hsmall].
    + destruct (gtake max_packet_len g) as [t rest1] eqn:EG.
      destruct (gtake_concat _ _ _ _ EG) as [Ht1 Ht2].
      rewrite !concat_app. cbn [concat]. rewrite !app_nil_r. rewrite <- !app_assoc.
      cbn [Nat.add]. rewrite unrecord_stdout.
      2:{ rewrite Ht1. apply lenN_takeN. unfold gsize in Hbig. lia. }
      2:{ apply lenN_zeros. }
      assert (Hg1 : gsize rest1 = gsize g - max_packet_len).
      { unfold gsize. rewrite Ht2. apply lenN_dropN. }
      rewrite <- Hg1. rewrite IH with (b := b) (rest := rest); [| |assumption].
      * rewrite Ht1, Ht2. rewrite app_assoc. now rewrite take_drop.
      * rewrite Hg1. unfold max_packet_len in *.
        assert (gsize g / 65535 = (gsize g - 65535) / 65535 + 1).
        { replace (gsize g) with ((gsize g - 65535) + 1 * 65535) at 1 by lia. rewrite N.div_add by lia. lia. }
        lia.
    + destruct (gtake (gsize g) g) as [t rest1] eqn:EG.
      destruct (gtake_concat _ _ _ _ EG) as [Ht1 _].
      rewrite gadd_concat. rewrite concat_app. cbn [concat]. rewrite app_nil_r. rewrite <- !app_assoc.
      cbn [Nat.add]. rewrite Ht1. unfold gsize at 3. rewrite takeN_all by lia.
      rewrite unrecord_stdout; [|reflexivity|apply lenN_zeros].
      replace (f + f2)%nat with (f2 + f)%nat by lia.
      rewrite (unrecord_mono _ _ _ _ _ Ht f). reflexivity.
Qed.

Definition fcgi_bytes (rid : N) (w : gather * bool) : bytes := concat (fcgi_frame rid (fst w) (snd w)).

(* unrecord_record: any sequence of non-final writes followed by the completing write, each split into
   records of at most 65535 bytes with padding, decodes to the concatenation of the written buffers; the
   decoder stops exactly behind END_REQUEST *)
Lemma unrecord_record_aux : forall pre rid g rest, Forall (fun w => snd w = false) pre ->
  exists fuel0, forall fuel, (fuel0 <= fuel)%nat ->
  unrecord fuel rid (concat (map (fcgi_bytes rid) pre) ++ fcgi_bytes rid (g, true) ++ rest) =
  Some (concat (map data_of pre) ++ concat g, rest).
Proof.
  induction pre as [|[g0 e0] pre IH]; intros rid g rest Hpre.
  - exists (S (N.to_nat (gsize g / max_packet_len)) + 2)%nat. intros fuel Hfuel.
    cbn [map concat app]. unfold fcgi_bytes, fcgi_frame. cbn [fst snd].
    rewrite concat_app. cbn [concat]. rewrite app_nil_r, <- app_assoc.
    replace fuel with ((S (N.to_nat (gsize g / max_packet_len)) + 2) + (fuel - (S (N.to_nat (gsize g / max_packet_len)) + 2)))%nat by lia.
    apply unrecord_mono.
    rewrite fcgi_records_decode with (b := []) (rest := rest); [now rewrite app_nil_r|lia|apply unrecord_eof].
  - inversion Hpre as [|? ? He Hpre']; subst. cbn [snd] in He. subst e0.
    destruct (IH rid g rest Hpre') as [fuel0 Hf0].
    exists (S (N.to_nat (gsize g0 / max_packet_len)) + fuel0)%nat. intros fuel Hfuel.
    cbn [map concat]. rewrite <- !app_assoc. unfold fcgi_bytes at 1, fcgi_frame, data_of at 1. cbn [fst snd].
    rewrite app_nil_r.
    replace fuel with ((S (N.to_nat (gsize g0 / max_packet_len)) + fuel0) + (fuel - (S (N.to_nat (gsize g0 / max_packet_len)) + fuel0)))%nat by lia.
    apply unrecord_mono.
    rewrite fcgi_records_decode with (b := concat (map data_of pre) ++ concat g) (rest := rest);
      [reflexivity|lia|apply Hf0; lia].
Qed.
