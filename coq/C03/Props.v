(* C03 -- the client receives exactly the bytes the application wrote, once and in order.
   Only property theorems, each closed by `exact <lemma>`; proofs are in Proofs*.v. *)
From CppcmsV Require Import Base.Tac C03.Defs C03.Proofs.
Local Open Scope N_scope.

(* 1. pending_output_ bookkeeping (src/cgi_api.cpp).  For every accept schedule (the schedule is a
      field of the connection, universally quantified): what the socket has accepted followed by
      pending_output_ equals the previous committed stream followed by the newly formatted data,
      whichever of the three branches of nonblocking_write is taken. *)
Theorem pending_conservation : forall c g eof f1 new_data,
  k_err c = false -> format_output (k_fmt c) g eof = (f1, new_data, false) ->
  let r := nonblocking_write c g eof in
  sent (fst r) = sent c ++ concat new_data /\ k_fmt (fst r) = f1 /\ k_err (fst r) = false /\
  k_trace (fst r) = k_trace c /\ (snd r = true -> k_pending (fst r) = []).
Proof. exact nb_write_sent. Qed.
Print Assumptions pending_conservation.

(* async_write + async_write_handler: however often the socket reports would-block or accepts a
   short prefix, the handler retries until everything formatted so far is on the wire *)
Theorem async_write_completes : forall c g eof f1 new_data,
  k_err c = false -> format_output (k_fmt c) g eof = (f1, new_data, false) ->
  let c' := async_write c g eof in
  wire_bytes c' = sent c ++ concat new_data /\ k_pending c' = [] /\ k_fmt c' = f1 /\ k_err c' = false /\
  k_trace c' = k_trace c ++ [(g, eof)].
Proof. exact async_write_spec. Qed.
Print Assumptions async_write_completes.

(* blocking connection::write: unless the socket reports an error, the whole committed stream is written *)
Theorem blocking_write_exact : forall c g eof f1 new_data,
  k_err c = false -> format_output (k_fmt c) g eof = (f1, new_data, false) ->
  let c' := blocking_write c g eof in
  k_err c' = false ->
  wire_bytes c' = sent c ++ concat new_data /\ k_pending c' = [] /\ k_fmt c' = f1 /\ k_trace c' = k_trace c.
Proof. exact blocking_write_spec. Qed.
Print Assumptions blocking_write_exact.

Example pending_nonvacuous :
  let c := new_conn Scgi true false 1 [] [1;2;3] [2;0;5] [] in
  let c1 := with_fmt c (set_fmt (k_fmt c) [72;13;10;13;10] false false None 0 false) in
  let r := nonblocking_write c1 [[7;8;9;10]] false in
  snd r = false /\ k_wire (fst r) = [[1;2]] /\ k_pending (fst r) = [3;72;13;10;13;10;7;8;9;10] /\
  wire_bytes (async_write (fst r) [] true) = [1;2;3;72;13;10;13;10;7;8;9;10].
Proof. vm_compute. repeat split. Qed.
