(* C03 -- the client receives exactly the bytes the application wrote, once and in order.
   Only property theorems, each closed by `exact <lemma>`; proofs are in Proofs.v .. Proofs5.v.
   Vocabulary (Defs.v): conn = connection object (format state k_fmt, pending_output_, wire = list of pieces the
   socket accepted, accept schedule k_sched, ghost trace k_trace of every (gather buffer, eof) handed to
   format_output); sent c = bytes on the wire ++ pending_output_; stream f t = the ideal concatenation of
   format_output over a trace; tr c = bytes the device asked the connection to write. *)
From CppcmsV Require Import Base.Tac Base.CSem C03.Defs C03.Proofs C03.Proofs2 C03.Proofs3 C03.Proofs4 C03.Proofs5 C03.Proofs6 C03.Proofs7 C03.Proofs8 C03.Link gen.Gen_C03 gen.Gen_C03_fcgi gen.Gen_C03_sock.
Local Open Scope N_scope.

(* ------------------------------------------------------------------------------------------------ 1. pending_conservation
   pending_output_ bookkeeping (src/cgi_api.cpp).  The accept schedule is a field of the connection and is
   universally quantified: whatever prefix the socket accepts (nothing, a short prefix, everything offered, at
   most 16 gather entries), wire ++ pending grows by exactly the newly formatted data in each of the three
   branches of nonblocking_write. *)
Theorem pending_conservation : forall c g eof f1 new_data,
  k_err c = false -> format_output (k_fmt c) g eof = (f1, new_data, false) ->
  let r := nonblocking_write c g eof in
  sent (fst r) = sent c ++ concat new_data /\ k_fmt (fst r) = f1 /\ k_err (fst r) = false /\
  k_trace (fst r) = k_trace c /\ (snd r = true -> k_pending (fst r) = []).
Proof. exact nb_write_sent. Qed.
Print Assumptions pending_conservation.

(* async_write + async_write_handler: however often the socket reports would-block or accepts a short prefix,
   the handler retries until everything formatted so far is on the wire and nothing is pending *)
Theorem async_write_completes : forall c g eof f1 new_data,
  k_err c = false -> format_output (k_fmt c) g eof = (f1, new_data, false) ->
  let c' := async_write c g eof in
  wire_bytes c' = sent c ++ concat new_data /\ k_pending c' = [] /\ k_fmt c' = f1 /\ k_err c' = false /\
  k_trace c' = k_trace c ++ [(g, eof)].
Proof. exact async_write_spec. Qed.
Print Assumptions async_write_completes.

(* blocking connection::write: unless the socket signals an error, old pending data and the new data are written *)
Theorem blocking_write_exact : forall c g eof f1 new_data,
  k_err c = false -> format_output (k_fmt c) g eof = (f1, new_data, false) ->
  let c' := blocking_write c g eof in
  k_err c' = false ->
  wire_bytes c' = sent c ++ concat new_data /\ k_pending c' = [] /\ k_fmt c' = f1 /\ k_trace c' = k_trace c.
Proof. exact blocking_write_spec. Qed.
Print Assumptions blocking_write_exact.

(* over whole runs: every interleaving of nonblocking, blocking and asynchronous writes, every schedule:
   the committed stream is the old one followed by the ideal stream of the trace; it does not depend on the schedule *)
Theorem pending_conservation_run : forall ops c, k_err (crun c ops) = false ->
  sent (crun c ops) = sent c ++ stream (k_fmt c) (map cop_entry ops) /\
  k_fmt (crun c ops) = fmt_after (k_fmt c) (map cop_entry ops) /\
  k_trace (crun c ops) = k_trace c ++ map cop_entry ops.
Proof. exact conn_stream. Qed.
Print Assumptions pending_conservation_run.

(* at completion (last write blocking or asynchronous) pending = [] and the wire is the ideal stream *)
Theorem completion_nothing_pending : forall ops last c,
  (match last with CNb _ _ => False | _ => True end) -> k_err (crun c (ops ++ [last])) = false ->
  wire_bytes (crun c (ops ++ [last])) = sent c ++ stream (k_fmt c) (map cop_entry (ops ++ [last])) /\
  k_pending (crun c (ops ++ [last])) = [].
Proof. exact conn_complete. Qed.
Print Assumptions completion_nothing_pending.

Example pending_nonvacuous :
  let c := new_conn Scgi true false 1 [] [1;2;3] [2;0;5] [] in
  let c1 := with_fmt c (set_fmt (k_fmt c) [72;13;10;13;10] false false None 0 false) in
  let r := nonblocking_write c1 [[7;8;9;10]] false in
  snd r = false /\ k_wire (fst r) = [[1;2]] /\ k_pending (fst r) = [3;72;13;10;13;10;7;8;9;10] /\
  wire_bytes (async_write (fst r) [] true) = [1;2;3;72;13;10;13;10;7;8;9;10] /\
  k_err (crun c1 [CNb [[7;8]] false; CNb [[9]] false; CAs [] true]) = false /\
  k_log (crun c1 [CNb [[7;8]] false; CNb [[9]] false; CAs [] true]) = [(10, 2); (9, 0); (9, 5); (4, 4)].
Proof. vm_compute. repeat split. Qed.

(* ------------------------------------------------------------------------------------------------ 2. device_conservation
   basic_device / output_device / async_io_buf (src/http_response.cpp): open with any capacity (0 included), any
   sequence of xsputn / sputc / sync / setbuf n / full_buffering b / flush in which no setbuf shrinks a fully
   buffered device below its content (dsafe), then close: the connection is handed exactly the bytes written, in
   order; nothing stays buffered; eof is signalled exactly once, by the last write; a second close does nothing. *)
Theorem device_conservation : forall ops async cap c,
  let d0 := dev_open (new_dev async) cap in
  dsafe d0 c ops ->
  let (d1, c1) := drun d0 c ops in
  let (d2, c2) := dev_close d1 c1 in
  tr c2 = tr c ++ concat (map dbytes ops) /\ d_buf d2 = [] /\
  (exists k, eofs c2 = eofs c ++ repeat false k ++ [true]) /\
  dev_close d2 c2 = (d2, c2).
Proof. exact device_conservation_lemma. Qed.
Print Assumptions device_conservation.

(* the excluded case is a real defect (finding async-full-buffering-setbuf-shrink): the faithful model of
   async_io_buf::setbuf + vector::resize zeroes buffered bytes.  Full model, SCGI, no headers:
   write 1 2 3 4; setbuf(1); write 5  puts  CR LF 1 0 0 0 5  on the wire *)
Theorem device_conservation_shrinking_setbuf_refuted :
  let c := new_conn Scgi true false 1 [] [] [] [] in
  concat (k_wire (fst (run_request true (mkHeaders [] []) 1024 [] c shrink_ops))) = CRLF ++ [1;0;0;0;5].
Proof. exact shrink_witness. Qed.
Print Assumptions device_conservation_shrinking_setbuf_refuted.

Example device_nonvacuous :
  let c := new_conn Scgi true false 1 [] [] [] [] in
  let ops := [DSputn [1;2;3]; DSetbuf 2; DSputc 4; DSync; DSputn [5;6;7]; DSetbuf 0; DSputn [8]] in
  dsafe (dev_open (new_dev false) 4) c ops /\
  map fst (k_trace (snd (let (d1, c1) := drun (dev_open (new_dev false) 4) c ops in dev_close d1 c1))) =
    [[[1;2;3]]; [[4]]; [[5;6;7]]; [[8]]; []].
Proof. vm_compute. repeat split; discriminate. Qed.

(* ------------------------------------------------------------------------------------------------ 3. framing
   unchunk_chunk: for every sequence of gather buffers written without eof followed by the completing write,
   the chunked transfer coding produced by make_chunked_wrapper de-frames (independent decoder unchunk) to the
   concatenation of the buffers and the decoder stops exactly behind the last-chunk; empty non-final chunks are
   suppressed (they would terminate the body) *)
Theorem unchunk_chunk : forall pre g rest fuel,
  Forall (fun w => snd w = false) pre -> (length pre + 1 < fuel)%nat ->
  unchunk fuel (concat (map chunked_bytes pre) ++ chunked_bytes (g, true) ++ rest) =
  Some (concat (map data_of pre) ++ concat g, rest).
Proof. exact unchunk_chunk_aux. Qed.
Print Assumptions unchunk_chunk.

(* unrecord_record: FastCGI STDOUT records of at most 65535 bytes with padding, multi-entry gather buffers split
   across records, empty STDOUT + END_REQUEST at completion: the independent decoder returns the concatenation *)
Theorem unrecord_record : forall pre rid g rest, Forall (fun w => snd w = false) pre ->
  exists fuel0, forall fuel, (fuel0 <= fuel)%nat ->
  unrecord fuel rid (concat (map (fcgi_bytes rid) pre) ++ fcgi_bytes rid (g, true) ++ rest) =
  Some (concat (map data_of pre) ++ concat g, rest).
Proof. exact unrecord_record_aux. Qed.
Print Assumptions unrecord_record.

Example framing_nonvacuous :
  unchunk 5 (chunked_bytes ([[1;2];[3]], false) ++ chunked_bytes ([], false) ++ chunked_bytes ([[4]], true) ++ [99]) = Some ([1;2;3;4], [99]) /\
  chunked_bytes ([[1;2];[3]], false) = [51;13;10;1;2;3;13;10] /\
  (let g := [repeat 7 (N.to_nat 65530); repeat 8 10] in
   (lenN (fcgi_bytes 258 (g, true)) =? 65540 + 8 + 8 + 1 + 3 + 24) = true /\
   match unrecord 9 258 (fcgi_bytes 258 (g, true) ++ [99]) with
   | Some (b, r) => eqb_bytes b (concat g) && eqb_bytes r [99]
   | None => false
   end = true).
Proof. vm_compute. repeat split. Qed.

(* ------------------------------------------------------------------------------------------------ 4. headers_once + framing soundness
   the ideal stream of a whole response = exactly one header block followed by the body under the framing the
   block announces.  t ranges over all traces ending in the completing write. *)
Theorem headers_once_scgi : forall f g e t, f_proto f = Scgi -> f_hdr_done f = false ->
  stream f ((g, e) :: t) = f_hdr f ++ concat (map data_of ((g, e) :: t)).
Proof. exact stream_scgi. Qed.
Print Assumptions headers_once_scgi.

Theorem headers_once_fastcgi : forall f pre g rest, f_proto f = Fcgi -> f_hdr_done f = false ->
  Forall (fun w => snd w = false) pre ->
  exists fuel0, forall fuel, (fuel0 <= fuel)%nat ->
  unrecord fuel (f_reqid f) (stream f (pre ++ [(g, true)]) ++ rest) =
  Some (f_hdr f ++ concat (map data_of (pre ++ [(g, true)])), rest).
Proof. exact fcgi_response_decodes. Qed.
Print Assumptions headers_once_fastcgi.

Theorem http_framing_sound_chunked : forall f g0 pre g rest,
  f_proto f = Http -> f_hdr_done f = false -> f_cka f = true -> f_http11 f = true -> f_ocl f = None ->
  Forall (fun w => snd w = false) pre ->
  let head := f_hdr f ++ f_server f ++ (CONN_KA ++ TE_CHUNKED) ++ CRLF in
  exists body, stream f ((g0, false) :: pre ++ [(g, true)]) = head ++ body /\
    forall fuel, (length pre + 2 < fuel)%nat ->
    unchunk fuel (body ++ rest) = Some (concat (map data_of ((g0, false) :: pre ++ [(g, true)])), rest).
Proof. exact http_chunked_response_decodes. Qed.
Print Assumptions http_framing_sound_chunked.

Theorem http_framing_sound_close : forall f g0 e0 t,
  f_proto f = Http -> f_hdr_done f = false -> f_cka f = false -> f_ocl f = None -> e0 = false ->
  stream f ((g0, e0) :: t) = (f_hdr f ++ f_server f ++ CONN_CLOSE ++ CRLF) ++ concat (map data_of ((g0, e0) :: t)).
Proof. exact http_close_response. Qed.
Print Assumptions http_framing_sound_close.

Theorem http_framing_sound_single_write : forall f g,
  f_proto f = Http -> f_hdr_done f = false -> f_ocl f = None ->
  stream f [(g, true)] =
  (f_hdr f ++ f_server f ++ CL_LINE ++ decN (lenN (concat g)) ++ CRLF ++ (if f_cka f then CONN_KA else CONN_CLOSE) ++ CRLF) ++ concat g.
Proof. exact http_single_write_response. Qed.
Print Assumptions http_framing_sound_single_write.
(* http_framing_sound for an application-declared Content-Length (overrun => error) is not proved: PARTIAL;
   it is covered by the correspondence and by the oracle (exact lengths). *)

Example headers_nonvacuous :
  let f := set_response_headers (k_fmt (new_conn Http true true 1 [83;58;120;13;10] [] [] []))
             (mkHeaders (hmap_set (hmap_set [] [66] [49]) [97] [50]) [cookie_line [99] [100]]) [49;46;49] in
  f_hdr f = [72;84;84;80;47;49;46;49;32;50;48;48;32;79;107;13;10; 97;58;32;50;13;10; 66;58;32;49;13;10] ++ cookie_line [99] [100] ++ CRLF /\
  exists body, stream f [([[1]], false); ([[2;3]], true)] = f_hdr f ++ [83;58;120;13;10] ++ (CONN_KA ++ TE_CHUNKED) ++ CRLF ++ body /\
               unchunk 4 body = Some ([1;2;3], []).
Proof. split; [vm_compute; reflexivity|]. eexists. split; vm_compute; reflexivity. Qed.

(* ------------------------------------------------------------------------------------------------ 5. cache_copy_exact
   copy_buf: the copy handed to the page cache (copied_data) is byte-identical to what the application wrote
   through it, for every write size (doubling points of the internal buffer included) *)
Theorem cache_copy_exact_write : forall fuel y d c s, (length s < fuel)%nat ->
  c_all (fst (fst (cpy_xsputn fuel y d c s))) = c_all y ++ s.
Proof. exact cpy_xsputn_all. Qed.
Print Assumptions cache_copy_exact_write.
Theorem cache_copy_exact_put : forall y d c ch, c_all (fst (fst (cpy_sputc y d c ch))) = c_all y ++ [ch].
Proof. exact cpy_sputc_all. Qed.
Print Assumptions cache_copy_exact_put.
Theorem cache_copy_exact_flush : forall y d c, c_all (fst (fst (cpy_sync y d c))) = c_all y.
Proof. exact cpy_sync_all. Qed.
Print Assumptions cache_copy_exact_flush.
(* gzip (theorem 6 of the plan) and raw io modes are not modelled: oracle only. *)
Example cache_copy_nonvacuous :
  let c := new_conn Scgi true false 1 [] [] [] [] in
  let '(cf, copy) := run_request false (mkHeaders [] []) 4 [] c [OCopy; OWrite (repeat 7 130); OPut [1;2]; OFlush; OWrite [3]] in
  copy = repeat 7 130 ++ [1;2;3] /\ concat (k_wire cf) = CRLF ++ repeat 7 130 ++ [1;2;3].
Proof. vm_compute. split; reflexivity. Qed.

(* ------------------------------------------------------------------------------------------------ 6. composition: the whole request
   run_request = response script -> (copy_buf) -> device -> connection -> socket.  For every script (any writes, puts,
   flushes, setbuf, full_asynchronous_buffering, headers, cookies, copy_to_cache, async_flush_output) that contains no
   shrinking setbuf on a fully buffered device (script_safe, the refuted case), synchronous or asynchronous, every
   protocol, EVERY accept schedule (it is a field of c): unless the connection signalled an error,
   the wire is the ideal stream of a trace t ++ [(g, eof)] with all_false t whose data is exactly the script's bytes,
   nothing is left pending, and the page-cache copy (when copy_buf is installed) equals the body. *)
Theorem response_exact : forall async base defbuf version c ops,
  fresh c -> script_safe async base defbuf version c ops ->
  let f0 := set_response_headers (k_fmt c) (hdrs_at_out base ops) version in
  let res := run_request async base defbuf version c ops in
  k_err (fst res) = false ->
  (exists (t : list (gather * bool)) (g : gather), all_false t /\ concat (map data_of t) ++ concat g = script_body ops /\
               wire_bytes (fst res) = stream f0 (t ++ [(g, true)])) /\
  k_pending (fst res) = [] /\
  (r_copy_on (fst (whole (new_resp async base defbuf version) c ops)) = true -> snd res = script_body ops).
Proof. exact response_exact_lemma. Qed.
Print Assumptions response_exact.

(* SCGI: the wire is the CGI header block (headers/cookies set before the first output, once) followed by the body *)
Theorem scgi_response_exact : forall async base defbuf version c ops,
  fresh c -> f_proto (k_fmt c) = Scgi -> script_safe async base defbuf version c ops ->
  let cf := fst (run_request async base defbuf version c ops) in
  k_err cf = false ->
  wire_bytes cf = format_cgi_headers (hdrs_at_out base ops) ++ script_body ops.
Proof. exact scgi_exact. Qed.
Print Assumptions scgi_response_exact.

(* FastCGI: the wire de-records (independent decoder, up to END_REQUEST, nothing consumed beyond) to header block ++ body *)
Theorem fastcgi_response_exact : forall async base defbuf version c ops rest,
  fresh c -> f_proto (k_fmt c) = Fcgi -> script_safe async base defbuf version c ops ->
  let cf := fst (run_request async base defbuf version c ops) in
  k_err cf = false ->
  exists fuel0, forall fuel, (fuel0 <= fuel)%nat ->
  unrecord fuel (f_reqid (k_fmt c)) (wire_bytes cf ++ rest) =
  Some (format_cgi_headers (hdrs_at_out base ops) ++ script_body ops, rest).
Proof. exact fcgi_exact. Qed.
Print Assumptions fastcgi_response_exact.

(* HTTP (no application-declared Content-Length): status line + headers + Server line, then one of three sound
   framings: computed Content-Length = |body| and the body; chunked coding that de-frames to the body; or
   Connection: close and the body verbatim *)
Theorem http_response_exact : forall async base defbuf version c ops,
  fresh c -> f_proto (k_fmt c) = Http -> hmap_get (h_map (hdrs_at_out base ops)) CONTENT_LENGTH = [] ->
  script_safe async base defbuf version c ops ->
  let cf := fst (run_request async base defbuf version c ops) in
  k_err cf = false ->
  http_wire (format_http_headers (hdrs_at_out base ops) version) (f_server (k_fmt c)) (script_body ops) (wire_bytes cf).
Proof. exact http_exact. Qed.
Print Assumptions http_response_exact.
(* HTTP with an application-declared Content-Length: the header block (which already carries the length) and the
   body verbatim; a write that would exceed the announced length is refused: error, nothing of it is sent *)
Theorem http_framing_sound_declared_length : forall f l g0 e0 t,
  f_proto f = Http -> f_hdr_done f = false -> f_ocl f = Some l ->
  stream f ((g0, e0) :: t) =
  (f_hdr f ++ f_server f ++ (if f_cka f then CONN_KA else CONN_CLOSE) ++ CRLF) ++ concat (map data_of ((g0, e0) :: t)).
Proof. exact http_declared_length_response. Qed.
Print Assumptions http_framing_sound_declared_length.
Theorem http_content_length_overrun_is_error : forall f l g e,
  f_proto f = Http -> f_hdr_done f = true -> f_chunked f = false -> f_ocl f = Some l -> l < f_owritten f + gsize g ->
  snd (format_output f g e) = true.
Proof. exact http_overrun_is_error. Qed.
Print Assumptions http_content_length_overrun_is_error.
Theorem format_error_stops_the_write : forall c g e f1 nd,
  k_err c = false -> format_output (k_fmt c) g e = (f1, nd, true) ->
  sent (fst (nonblocking_write c g e)) = sent c /\ k_err (fst (nonblocking_write c g e)) = true /\
  sent (blocking_write c g e) = sent c /\ k_err (blocking_write c g e) = true.
Proof. exact format_error_sends_nothing. Qed.
Print Assumptions format_error_stops_the_write.
(* PARTIAL: a response that writes fewer bytes than it announced is not detected by the code (nor claimed here);
   blocking-loop liveness: k_err = false is a hypothesis of the blocking and end-to-end theorems (the model raises it
   only for would-block on a blocking socket or a Content-Length overrun) *)

(* asynchronous responses without an application-declared Content-Length: no hypothesis about errors is needed.
   For EVERY accept schedule (any number of would-blocks and short writes) the response is delivered exactly. *)
Theorem async_response_never_errs : forall base defbuf version c ops,
  fresh c -> script_safe true base defbuf version c ops -> no_declared_length c (hdrs_at_out base ops) ->
  k_err (fst (run_request true base defbuf version c ops)) = false.
Proof. exact async_noerr. Qed.
Print Assumptions async_response_never_errs.
Theorem async_scgi_response_exact_unconditional : forall base defbuf version c ops,
  fresh c -> f_proto (k_fmt c) = Scgi -> script_safe true base defbuf version c ops ->
  wire_bytes (fst (run_request true base defbuf version c ops)) = format_cgi_headers (hdrs_at_out base ops) ++ script_body ops.
Proof. exact async_scgi_unconditional. Qed.
Print Assumptions async_scgi_response_exact_unconditional.
Theorem async_fastcgi_response_exact_unconditional : forall base defbuf version c ops rest,
  fresh c -> f_proto (k_fmt c) = Fcgi -> script_safe true base defbuf version c ops ->
  exists fuel0, forall fuel, (fuel0 <= fuel)%nat ->
  unrecord fuel (f_reqid (k_fmt c)) (wire_bytes (fst (run_request true base defbuf version c ops)) ++ rest) =
  Some (format_cgi_headers (hdrs_at_out base ops) ++ script_body ops, rest).
Proof. exact async_fcgi_unconditional. Qed.
Print Assumptions async_fastcgi_response_exact_unconditional.
Theorem async_http_response_exact_unconditional : forall base defbuf version c ops,
  fresh c -> f_proto (k_fmt c) = Http -> hmap_get (h_map (hdrs_at_out base ops)) CONTENT_LENGTH = [] ->
  script_safe true base defbuf version c ops ->
  http_wire (format_http_headers (hdrs_at_out base ops) version) (f_server (k_fmt c)) (script_body ops)
            (wire_bytes (fst (run_request true base defbuf version c ops))) /\
  k_pending (fst (run_request true base defbuf version c ops)) = [].
Proof. exact async_http_unconditional. Qed.
Print Assumptions async_http_response_exact_unconditional.

Example response_nonvacuous :
  let c := new_conn Http true true 1 [83;58;120;13;10] [] [3;0;1;0;7;2] [] in
  let ops := [OHeader [88] [49]; OSetbuf false 2; OFull false; OWrite [1;2;3]; OHeader [89] [50]; OAsyncFlush; OFull true;
              OPut [4;5]; OSetbuf false 5; OFlush; OWrite [6]] in
  fresh c /\ script_safe true (mkHeaders [] []) 1024 [49;46;49] c ops /\
  k_err (fst (run_request true (mkHeaders [] []) 1024 [49;46;49] c ops)) = false /\
  script_body ops = [1;2;3;4;5;6] /\
  h_map (hdrs_at_out (mkHeaders [] []) ops) = [([88],[49])] /\
  (lenN (k_log (fst (run_request true (mkHeaders [] []) 1024 [49;46;49] c ops))) =? 8) = true.
Proof.
  vm_compute. repeat split; try (intros H; discriminate H); try (intros _ H; discriminate H).
Qed.

(* ------------------------------------------------------------------------------------------------ 7. tie
   the growth policy of the fully buffered device regenerated from the current source equals the model's *)
Theorem tie_next_size : forall n, n < 2 ^ 63 -> g_next_size (Z.of_N n) = Z.of_N (next_size n).
Proof. exact link_next_size. Qed.
Print Assumptions tie_next_size.
Theorem tie_fastcgi_max_record : g_max_packet_len = Z.of_N max_packet_len.
Proof. exact link_max_packet_len. Qed.
Theorem tie_socket_max_iovec : g_max_vec_size = Z.of_nat max_vec.
Proof. exact link_max_vec_size. Qed.
Print Assumptions tie_socket_max_iovec.
