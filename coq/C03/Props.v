(* C03 -- the client receives exactly the bytes the application wrote, once and in order.
   Only property theorems, each closed by `exact <lemma>`; proofs are in Proofs.v .. Proofs10.v, ProofsGzip.v, ProofsHdr.v.
   Vocabulary (Defs.v): conn = connection object (format state k_fmt, pending_output_, wire = list of pieces the
   socket accepted, accept schedule k_sched, ghost trace k_trace of every (gather buffer, eof) handed to
   format_output); sent c = bytes on the wire ++ pending_output_; stream f t = the ideal concatenation of
   format_output over a trace; tr c = bytes the device asked the connection to write. *)
From CppcmsV Require Import Base.Tac Base.CSem C03.Defs C03.Proofs C03.Proofs2 C03.Proofs3 C03.Proofs4 C03.Proofs5 C03.Proofs6 C03.Proofs7 C03.Proofs8 C03.Proofs9 C03.Proofs10 C03.Proofs11 C03.Proofs12 C03.Proofs13 C03.GzipDefs C03.ProofsGzip C03.ProofsHdr C03.Proofs14 C03.ProofsCb C03.ProofsCb2 C03.ProofsOvf C03.Link gen.Gen_C03 gen.Gen_C03_fcgi gen.Gen_C03_sock gen.Gen_C03_copybuf gen.Gen_C03_ovf gen.Gen_C03_cmp gen.Gen_C03_lower.
Local Open Scope N_scope.

(* ------------------------------------------------------------------------------------------------ 1. pending_conservation
   pending_output_ bookkeeping (src/cgi_api.cpp).  The accept schedule is a field of the connection and is
   universally quantified: whatever prefix the socket accepts (nothing, a short prefix, everything offered, at
   most 16 gather entries), wire ++ pending grows by exactly the newly formatted data in each of the three
   branches of nonblocking_write. *)
Theorem pending_conservation : forall c g eof f1 new_data,
  k_err c = false -> format_output (k_fmt c) g eof = (f1, new_data, false) ->
  let r := nonblocking_write c g eof in
  sent (fst r) = sent c ++ concat new_data /\ k_fmt (fst r) = f1 /\ k_err (fst r) = false /\
  k_trace (fst r) = k_trace c /\ (snd r = true -> k_pending (fst r) = []).
Proof. exact nb_write_sent. Qed.
Print Assumptions pending_conservation.

(* async_write + async_write_handler: however often the socket reports would-block or accepts a short prefix,
   the handler retries until everything formatted so far is on the wire and nothing is pending *)
Theorem async_write_completes : forall c g eof f1 new_data,
  k_err c = false -> format_output (k_fmt c) g eof = (f1, new_data, false) ->
  let c' := async_write c g eof in
  wire_bytes c' = sent c ++ concat new_data /\ k_pending c' = [] /\ k_fmt c' = f1 /\ k_err c' = false /\
  k_trace c' = k_trace c ++ [(g, eof)].
Proof. exact async_write_spec. Qed.
Print Assumptions async_write_completes.

(* blocking connection::write: unless the socket signals an error, old pending data and the new data are written *)
Theorem blocking_write_exact : forall c g eof f1 new_data,
  k_err c = false -> format_output (k_fmt c) g eof = (f1, new_data, false) ->
  let c' := blocking_write c g eof in
  k_err c' = false ->
  wire_bytes c' = sent c ++ concat new_data /\ k_pending c' = [] /\ k_fmt c' = f1 /\ k_trace c' = k_trace c.
Proof. exact blocking_write_spec. Qed.
Print Assumptions blocking_write_exact.

(* over whole runs: every interleaving of nonblocking, blocking and asynchronous writes, every schedule:
   the committed stream is the old one followed by the ideal stream of the trace; it does not depend on the schedule *)
Theorem pending_conservation_run : forall ops c, k_err (crun c ops) = false ->
  sent (crun c ops) = sent c ++ stream (k_fmt c) (map cop_entry ops) /\
  k_fmt (crun c ops) = fmt_after (k_fmt c) (map cop_entry ops) /\
  k_trace (crun c ops) = k_trace c ++ map cop_entry ops.
Proof. exact conn_stream. Qed.
Print Assumptions pending_conservation_run.

(* at completion (last write blocking or asynchronous) pending = [] and the wire is the ideal stream *)
Theorem completion_nothing_pending : forall ops last c,
  (match last with CNb _ _ => False | _ => True end) -> k_err (crun c (ops ++ [last])) = false ->
  wire_bytes (crun c (ops ++ [last])) = sent c ++ stream (k_fmt c) (map cop_entry (ops ++ [last])) /\
  k_pending (crun c (ops ++ [last])) = [].
Proof. exact conn_complete. Qed.
Print Assumptions completion_nothing_pending.

Example pending_nonvacuous :
  let c := new_conn Scgi true false 1 [] [1;2;3] [2;0;5] [] in
  let c1 := with_fmt c (set_fmt (k_fmt c) [72;13;10;13;10] false false None 0 false) in
  let r := nonblocking_write c1 [[7;8;9;10]] false in
  snd r = false /\ k_wire (fst r) = [[1;2]] /\ k_pending (fst r) = [3;72;13;10;13;10;7;8;9;10] /\
  wire_bytes (async_write (fst r) [] true) = [1;2;3;72;13;10;13;10;7;8;9;10] /\
  k_err (crun c1 [CNb [[7;8]] false; CNb [[9]] false; CAs [] true]) = false /\
  k_log (crun c1 [CNb [[7;8]] false; CNb [[9]] false; CAs [] true]) = [(10, 2); (9, 0); (9, 5); (4, 4)].
Proof. vm_compute. repeat split. Qed.

(* ------------------------------------------------------------------------------------------------ 2. device_conservation
   basic_device / output_device / async_io_buf (src/http_response.cpp): open with any capacity (0 included), ANY
   sequence of xsputn / sputc / sync / setbuf n / full_buffering b / flush (no side condition: since /repo commit
   00eb9d4 a setbuf below the buffered amount in full buffering mode is harmless), then close: the connection is
   handed exactly the bytes written, in order; nothing stays buffered; eof is signalled exactly once, by the last
   write; a second close does nothing. *)
Theorem device_conservation : forall ops async cap c,
  let d0 := dev_open (new_dev async) cap in
  let (d1, c1) := drun d0 c ops in
  let (d2, c2) := dev_close d1 c1 in
  tr c2 = tr c ++ concat (map dbytes ops) /\ d_buf d2 = [] /\
  (exists k, eofs c2 = eofs c ++ repeat false k ++ [true]) /\
  dev_close d2 c2 = (d2, c2).
Proof. exact device_conservation_lemma. Qed.
Print Assumptions device_conservation.

(* single-character output: put() -> sputc -> overflow(int c) when the put area is full.  At the level of the C++ signature the
   argument is traits::to_int_type(ch), an int in 0..255, and sync passes EOF = -1; the code narrows c to a char for the byte it
   appends but tests the INT against EOF.  For EVERY byte value the int-level transition is the one used by step / run_request
   (the byte is appended), EOF appends nothing -- hence device_conservation for every interleaving of put / write / flush /
   setbuf / full_buffering and every byte value.  Testing the narrowed char instead would identify 0xFF with EOF (last conjunct). *)
Theorem device_put_overflow_every_byte : forall d c x, x < 256 ->
  dev_sputc_int d c x = dev_sputc d c x /\ dev_overflow_int d c (to_int_type x) = dev_overflow d c (Some x) /\
  dev_sync_int d c = dev_sync d c /\ ovf_guard EOF_INT = false /\
  (ovf_guard_char (to_int_type 255) = false /\ ovf_guard (to_int_type 255) = true).
Proof. exact put_overflow_every_byte. Qed.
Print Assumptions device_put_overflow_every_byte.
Theorem device_conservation_every_byte : forall ops async cap c, Forall dop_byte_ok ops ->
  let d0 := dev_open (new_dev async) cap in
  let (d1, c1) := drun_int d0 c ops in
  let (d2, c2) := dev_close d1 c1 in
  tr c2 = tr c ++ concat (map dbytes ops) /\ d_buf d2 = [] /\
  (exists k, eofs c2 = eofs c ++ repeat false k ++ [true]) /\
  dev_close d2 c2 = (d2, c2).
Proof. exact device_conservation_int_lemma. Qed.
Print Assumptions device_conservation_every_byte.
(* non-vacuity: zero-size buffer, the bytes 0xFF 0x00 0xFE 0xFF put one by one, a sync in between: five gather writes *)
Example device_put_nonvacuous :
  let c := new_conn Scgi true false 1 [] [] [] [] in
  let ops := [DSputc 255; DSputc 0; DSync; DSputc 254; DSputc 255] in
  Forall dop_byte_ok ops /\
  map fst (k_trace (snd (let (d1, c1) := drun_int (dev_open (new_dev false) 0) c ops in dev_close d1 c1))) =
    [[[255]]; [[0]]; []; [[254]]; [[255]]; []].
Proof. split; [repeat constructor|vm_compute; reflexivity]. Qed.

(* regression of the repaired defect (was finding async-full-buffering-setbuf-shrink, /repo commit 00eb9d4): before
   the repair the faithful model of async_io_buf::setbuf + vector::resize put  CR LF 1 0 0 0 5  on the wire for
   write 1 2 3 4; setbuf(1); write 5  (SCGI, no headers).  Now every byte arrives; the second witness uses setbuf(0)
   (formerly a null put area), put(), an asynchronous flush under the schedule [2;0;1] and a second setbuf(0). *)
Theorem device_conservation_shrinking_setbuf_regression :
  let c := new_conn Scgi true false 1 [] [] [] [] in
  concat (k_wire (fst (run_request true (mkHeaders [] []) 1024 [] c shrink_ops))) = CRLF ++ [1;2;3;4;5].
Proof. exact shrink_witness. Qed.
Print Assumptions device_conservation_shrinking_setbuf_regression.
Example shrinking_setbuf_zero_regression :
  let c := new_conn Scgi true false 1 [] [] [2;0;1] [] in
  concat (k_wire (fst (run_request true (mkHeaders [] []) 1024 [] c shrink0_ops))) = CRLF ++ [1;2;3;4;5;6].
Proof. exact shrink0_witness. Qed.

(* non-vacuity: a synchronous device with flushing setbufs, and a fully buffered asynchronous device on which
   setbuf(2) and setbuf(0) are called with 3 and 4 bytes buffered (the formerly excluded class): nothing is written
   before close, which hands over all seven bytes in one buffer *)
Example device_nonvacuous :
  let c := new_conn Scgi true false 1 [] [] [] [] in
  let ops := [DSputn [1;2;3]; DSetbuf 2; DSputc 4; DSync; DSputn [5;6;7]; DSetbuf 0; DSputn [8]] in
  map fst (k_trace (snd (let (d1, c1) := drun (dev_open (new_dev false) 4) c ops in dev_close d1 c1))) =
    [[[1;2;3]]; [[4]]; [[5;6;7]]; [[8]]; []] /\
  (let aops := [DSputn [1;2;3]; DSetbuf 2; DSputc 4; DSync; DSetbuf 0; DSputn [5;6;7]] in
   let (d1, c1) := drun (dev_open (new_dev true) 4) c aops in
   d_buf d1 = [1;2;3;4;5;6;7] /\ d_cap d1 = 0 /\ d_vsize d1 = 8 /\
   map fst (k_trace (snd (dev_close d1 c1))) = [[[1;2;3;4;5;6;7]]]).
Proof. vm_compute. repeat split. Qed.

(* ------------------------------------------------------------------------------------------------ 3. framing
   unchunk_chunk: for every sequence of gather buffers written without eof followed by the completing write,
   the chunked transfer coding produced by make_chunked_wrapper de-frames (independent decoder unchunk) to the
   concatenation of the buffers and the decoder stops exactly behind the last-chunk; empty non-final chunks are
   suppressed (they would terminate the body) *)
Theorem unchunk_chunk : forall pre g rest fuel,
  Forall (fun w => snd w = false) pre -> (length pre + 1 < fuel)%nat ->
  unchunk fuel (concat (map chunked_bytes pre) ++ chunked_bytes (g, true) ++ rest) =
  Some (concat (map data_of pre) ++ concat g, rest).
Proof. exact unchunk_chunk_aux. Qed.
Print Assumptions unchunk_chunk.

(* unrecord_record: FastCGI STDOUT records of at most 65535 bytes with padding, multi-entry gather buffers split
   across records, empty STDOUT + END_REQUEST at completion: the independent decoder returns the concatenation *)
Theorem unrecord_record : forall pre rid g rest, Forall (fun w => snd w = false) pre ->
  exists fuel0, forall fuel, (fuel0 <= fuel)%nat ->
  unrecord fuel rid (concat (map (fcgi_bytes rid) pre) ++ fcgi_bytes rid (g, true) ++ rest) =
  Some (concat (map data_of pre) ++ concat g, rest).
Proof. exact unrecord_record_aux. Qed.
Print Assumptions unrecord_record.

Example framing_nonvacuous :
  unchunk 5 (chunked_bytes ([[1;2];[3]], false) ++ chunked_bytes ([], false) ++ chunked_bytes ([[4]], true) ++ [99]) = Some ([1;2;3;4], [99]) /\
  chunked_bytes ([[1;2];[3]], false) = [51;13;10;1;2;3;13;10] /\
  (let g := [repeat 7 (N.to_nat 65530); repeat 8 10] in
   (lenN (fcgi_bytes 258 (g, true)) =? 65540 + 8 + 8 + 1 + 3 + 24) = true /\
   match unrecord 9 258 (fcgi_bytes 258 (g, true) ++ [99]) with
   | Some (b, r) => eqb_bytes b (concat g) && eqb_bytes r [99]
   | None => false
   end = true).
Proof. vm_compute. repeat split. Qed.

(* ------------------------------------------------------------------------------------------------ 4. headers_once + framing soundness
   the ideal stream of a whole response = exactly one header block followed by the body under the framing the
   block announces.  t ranges over all traces ending in the completing write. *)
Theorem headers_once_scgi : forall f g e t, f_proto f = Scgi -> f_hdr_done f = false ->
  stream f ((g, e) :: t) = f_hdr f ++ concat (map data_of ((g, e) :: t)).
Proof. exact stream_scgi. Qed.
Print Assumptions headers_once_scgi.

Theorem headers_once_fastcgi : forall f pre g rest, f_proto f = Fcgi -> f_hdr_done f = false ->
  Forall (fun w => snd w = false) pre ->
  exists fuel0, forall fuel, (fuel0 <= fuel)%nat ->
  unrecord fuel (f_reqid f) (stream f (pre ++ [(g, true)]) ++ rest) =
  Some (f_hdr f ++ concat (map data_of (pre ++ [(g, true)])), rest).
Proof. exact fcgi_response_decodes. Qed.
Print Assumptions headers_once_fastcgi.

Theorem http_framing_sound_chunked : forall f g0 pre g rest,
  f_proto f = Http -> f_hdr_done f = false -> f_cka f = true -> f_http11 f = true -> f_ocl f = None ->
  Forall (fun w => snd w = false) pre ->
  let head := f_hdr f ++ f_server f ++ (CONN_KA ++ TE_CHUNKED) ++ CRLF in
  exists body, stream f ((g0, false) :: pre ++ [(g, true)]) = head ++ body /\
    forall fuel, (length pre + 2 < fuel)%nat ->
    unchunk fuel (body ++ rest) = Some (concat (map data_of ((g0, false) :: pre ++ [(g, true)])), rest).
Proof. exact http_chunked_response_decodes. Qed.
Print Assumptions http_framing_sound_chunked.

Theorem http_framing_sound_close : forall f g0 e0 t,
  f_proto f = Http -> f_hdr_done f = false -> f_cka f = false -> f_ocl f = None -> e0 = false ->
  stream f ((g0, e0) :: t) = (f_hdr f ++ f_server f ++ CONN_CLOSE ++ CRLF) ++ concat (map data_of ((g0, e0) :: t)).
Proof. exact http_close_response. Qed.
Print Assumptions http_framing_sound_close.

Theorem http_framing_sound_single_write : forall f g,
  f_proto f = Http -> f_hdr_done f = false -> f_ocl f = None ->
  stream f [(g, true)] =
  (f_hdr f ++ f_server f ++ CL_LINE ++ decN (lenN (concat g)) ++ CRLF ++ (if f_cka f then CONN_KA else CONN_CLOSE) ++ CRLF) ++ concat g.
Proof. exact http_single_write_response. Qed.
Print Assumptions http_framing_sound_single_write.
(* http_framing_sound for an application-declared Content-Length (overrun => error) is not proved: PARTIAL;
   it is covered by the correspondence and by the oracle (exact lengths). *)

Example headers_nonvacuous :
  let f := set_response_headers (k_fmt (new_conn Http true true 1 [83;58;120;13;10] [] [] []))
             (mkHeaders (hmap_set (hmap_set [] [66] [49]) [97] [50]) [cookie_line [99] [100]]) [49;46;49] in
  f_hdr f = [72;84;84;80;47;49;46;49;32;50;48;48;32;79;107;13;10; 97;58;32;50;13;10; 66;58;32;49;13;10] ++ cookie_line [99] [100] ++ CRLF /\
  exists body, stream f [([[1]], false); ([[2;3]], true)] = f_hdr f ++ [83;58;120;13;10] ++ (CONN_KA ++ TE_CHUNKED) ++ CRLF ++ body /\
               unchunk 4 body = Some ([1;2;3], []).
Proof. split; [vm_compute; reflexivity|]. eexists. split; vm_compute; reflexivity. Qed.

(* ------------------------------------------------------------------------------------------------ 4b. the header block carries every header and cookie
   private/response_headers.h: std::map<string,string,icompare> as modelled by hmap_set / hmap_get.  hsorted = keys strictly
   increasing under the case-insensitive order (so unique up to case); it holds for the empty map and is preserved. *)
Theorem header_map_sorted_unique : forall m k v k2, hsorted m ->
  hsorted (hmap_set m k v) /\ (length (filter (same_name k2) (hmap_set m k v)) <= 1)%nat.
Proof. exact header_map_sorted_unique_lemma. Qed.
Print Assumptions header_map_sorted_unique.
(* the comparator itself (icompare_type: protocol::compare(l, r) < 0, case-insensitive lexicographic WITH the length tie-break) is
   a strict weak order whose equivalence is exactly case-insensitive equality: irreflexive, transitive, incomparable iff equal
   ignoring case, total on distinct names -- so distinct names are distinct keys; in particular a name and a longer name it is a
   prefix of (Content-Security-Policy / Content-Security-Policy-Report-Only) *)
Theorem header_comparator_strict_weak_order :
  (forall a, icompare_less a a = false) /\
  (forall a b c, icompare_less a b = true -> icompare_less b c = true -> icompare_less a c = true) /\
  (forall a b, icompare_less a b = false /\ icompare_less b a = false <-> lname a = lname b) /\
  (forall a b, lname a <> lname b -> icompare_less a b = true \/ icompare_less b a = true) /\
  (forall a s, s <> [] -> icompare_less a (a ++ s) = true /\ icompare_less (a ++ s) a = false).
Proof. exact comparator_strict_weak_order. Qed.
Print Assumptions header_comparator_strict_weak_order.
(* the last value set for a name wins (an empty value erases), names that differ (ignoring case) are untouched *)
Theorem header_last_value_wins : forall m k v, hsorted m ->
  hmap_get (hmap_set m k v) k = v /\ forall k2, ci_compare k2 k <> Eq -> hmap_get (hmap_set m k v) k2 = hmap_get m k2.
Proof. exact header_last_value_wins_lemma. Qed.
Print Assumptions header_last_value_wins.
(* every header held by the map is one line  Name: value CRLF  of the block; every cookie line is in the block;
   in the HTTP block every header but Status (which becomes the status line) *)
Theorem header_block_carries_every_header : forall h k, hmap_get (h_map h) k <> [] ->
  exists k' pre post, ci_compare k k' = Eq /\
    format_cgi_headers h = pre ++ (k' ++ COLON_SP ++ hmap_get (h_map h) k ++ CRLF) ++ post.
Proof. exact cgi_block_carries. Qed.
Print Assumptions header_block_carries_every_header.
Theorem header_block_carries_every_cookie : forall h l, In l (h_added h) ->
  exists pre post, format_cgi_headers h = pre ++ (l ++ CRLF) ++ post.
Proof. exact cgi_block_cookie. Qed.
Print Assumptions header_block_carries_every_cookie.
Theorem http_header_block_carries_every_header : forall h version k, hmap_get (h_map h) k <> [] -> is_status k = false ->
  exists k' pre post, ci_compare k k' = Eq /\
    format_http_headers h version = pre ++ (k' ++ COLON_SP ++ hmap_get (h_map h) k ++ CRLF) ++ post.
Proof. exact http_block_carries. Qed.
Print Assumptions http_header_block_carries_every_header.
(* along a script: set_header(k, v) before the first output, not overwritten before it (other header names, cookies,
   setbuf, ... in between are fine): the block fixed by out() -- which scgi/fastcgi_response_exact put on the wire once --
   contains the line  k': v  with k' = k up to case *)
Theorem header_set_before_output_is_sent : forall pre post h k v rest,
  hsorted (h_map h) -> Forall (fun o => is_output o = false) pre -> Forall (keeps k) post ->
  (match rest with [] => True | o :: _ => is_output o = true end) -> v <> [] ->
  exists k' p q, ci_compare k k' = Eq /\
    format_cgi_headers (hdrs_at_out h (pre ++ OHeader k v :: post ++ rest)) = p ++ (k' ++ COLON_SP ++ v ++ CRLF) ++ q.
Proof. exact header_set_is_in_block. Qed.
Print Assumptions header_set_before_output_is_sent.

(* set_cookie(k, v) before the first output (whatever else precedes or follows it): the block fixed by out() contains the
   line  Set-Cookie:k=v; Version=1 *)
Theorem cookie_set_before_output_is_sent : forall pre h k v rest, Forall (fun o => is_output o = false) pre ->
  exists p q, format_cgi_headers (hdrs_at_out h (pre ++ OCookie k v :: rest)) = p ++ (cookie_line k v ++ CRLF) ++ q.
Proof. exact cookie_set_is_in_block. Qed.
Print Assumptions cookie_set_before_output_is_sent.

(* non-vacuity: x-test set three times (two before the first write, with different case), a cookie in between, the
   third one after the first output is ignored; first spelling kept, second value sent, one entry only *)
Example header_map_nonvacuous :
  let base := mkHeaders (hmap_set (hmap_set [] [67;45;84] [116]) [88;45;80] [99]) [] in     (* C-T: t, X-P: c *)
  let ops := [OHeader [120;45;116] [49]; OCookie [97] [98]; OHeader [88;45;84] [50]; OWrite [1]; OHeader [88;45;116] [51]] in
  hsorted (h_map base) /\
  h_map (hdrs_at_out base ops) = [([67;45;84],[116]); ([88;45;80],[99]); ([120;45;116],[50])] /\
  h_added (hdrs_at_out base ops) = [cookie_line [97] [98]] /\
  hmap_get (h_map (hdrs_at_out base ops)) [88;45;84] = [50] /\
  length (filter (same_name [88;45;84]) (h_map (hdrs_at_out base ops))) = 1%nat.
Proof. split; [repeat constructor|]. vm_compute. repeat split. Qed.

(* ------------------------------------------------------------------------------------------------ 5. cache_copy_exact
   copy_buf: the copy handed to the page cache (copied_data) is byte-identical to what the application wrote
   through it, for every write size (doubling points of the internal buffer included) *)
Theorem cache_copy_exact_write : forall fuel y d c s, (length s < fuel)%nat ->
  c_all (fst (fst (cpy_xsputn fuel y d c s))) = c_all y ++ s.
Proof. exact cpy_xsputn_all. Qed.
Print Assumptions cache_copy_exact_write.
Theorem cache_copy_exact_put : forall y d c ch, c_all (fst (fst (cpy_sputc y d c ch))) = c_all y ++ [ch].
Proof. exact cpy_sputc_all. Qed.
Print Assumptions cache_copy_exact_put.
Theorem cache_copy_exact_flush : forall y d c, c_all (fst (fst (cpy_sync y d c))) = c_all y.
Proof. exact cpy_sync_all. Qed.
Print Assumptions cache_copy_exact_flush.
(* copy_buf modelled EXACTLY (Defs.v cbuf: buffer_ as a vector with its size, put window pbase/pptr/epptr as offsets, zero
   fill of resize, getstr length = buffer_.size() - (epptr - pptr)); run_request returns cb_page = getstr after close.
   (1) the window invariant the code relies on -- after every overflow the put window ends at buffer_.size() -- holds
   after any sequence of write / put / flush of ANY total size (all doubling steps);
   (2) getstr returns exactly the concatenation of everything written. *)
Theorem copy_buf_window_invariant : forall ops ch, window_ok (fst (cb_overflow (cb_run cb0 ops) ch)).
Proof. exact cb_window_invariant. Qed.
Print Assumptions copy_buf_window_invariant.
Theorem copy_buf_getstr_exact : forall ops, cb_page ops = concat (map obytes ops).
Proof. exact cb_page_exact. Qed.
Print Assumptions copy_buf_getstr_exact.
(* (3) the record cpy that step / run_request use to decide when copy_buf hands pbase..pptr to the device is a faithful
   abstraction of the exact buffer: Sim W y b = same content W, c_size = buffer_.size(), c_room = epptr - pptr, c_unsent =
   buffer_[pbase .. pptr).  Sim holds initially (Sim0) and is preserved by overflow / sputc / xsputn, and every overflow
   forwards the same bytes -- so the window arithmetic behind the end-to-end theorems is the one tied to the source. *)
Theorem copy_buf_forwarding_agrees : forall W y b d c ch, Sim W y b ->
  Sim (W ++ match ch with Some x => [x] | None => [] end) (fst (fst (cpy_overflow y d c ch))) (fst (cb_overflow b ch)) /\
  snd (cb_overflow b ch) = c_unsent y.
Proof. exact Sim_overflow. Qed.
Print Assumptions copy_buf_forwarding_agrees.
Theorem copy_buf_abstraction_exact : forall fuel W y b d c s x, (length s < fuel)%nat -> Sim W y b ->
  Sim (W ++ s) (fst (fst (cpy_xsputn fuel y d c s))) (fst (cb_xsputn fuel b s)) /\
  Sim (W ++ [x]) (fst (fst (cpy_sputc y d c x))) (fst (cb_sputc b x)) /\
  Sim [] (mkCpy [] [] 0 0) cb0.
Proof. exact Sim_all. Qed.
Print Assumptions copy_buf_abstraction_exact.
(* non-vacuity: 700 bytes in three writes, a put and a flush: the vector doubles 128 -> 256 -> 512 -> 1024, the window ends at
   1024, the write pointer is at 701, getstr returns the 701 bytes; and the three growth expressions at a large size *)
Example copy_buf_nonvacuous :
  let ops := [OWrite (repeat 7 100); OPut [9]; OWrite (repeat 8 300); OFlush; OWrite (repeat 6 300)] in
  let b := fst (cb_overflow (cb_run cb0 ops) None) in
  (cb_bsize b =? 1024) && (cb_epptr b =? 1024) && (cb_pptr b =? 701) && (cb_pbase b =? 701) &&
  eqb_bytes (cb_page ops) (repeat 7 100 ++ [9] ++ repeat 8 300 ++ repeat 6 300) = true /\
  (cb_grow_resize 131072, cb_grow_base 131072, cb_grow_end 131072) = (262144, 131072, 262144).
Proof. vm_compute. split; reflexivity. Qed.
(* raw io modes are not modelled: oracle only.  gzip: section 5b below. *)
Example cache_copy_nonvacuous :
  let c := new_conn Scgi true false 1 [] [] [] [] in
  let '(cf, copy) := run_request false (mkHeaders [] []) 4 [] c [OCopy; OWrite (repeat 7 130); OPut [1;2]; OFlush; OWrite [3]] in
  copy = repeat 7 130 ++ [1;2;3] /\ concat (k_wire cf) = CRLF ++ repeat 7 130 ++ [1;2;3].
Proof. vm_compute. split; reflexivity. Qed.

(* ------------------------------------------------------------------------------------------------ 5b. gzip
   details::gzip_buf (src/http_response.cpp).  zlib is external: the z_stream state ZS, one complete deflate loop of
   gzip_buf::do_write (zdef: input, flush flag -> output pieces handed to out_->sputn) and the decompressor are
   universally quantified; the only assumption is zlib's contract (premise 3): deflate calls with Z_NO_FLUSH /
   Z_SYNC_FLUSH ended by ONE Z_FINISH call produce a stream that inflates to the concatenated input.  The downstream
   streambuf chain is abstract too (what it has received so far; sputn appends, pubsync keeps -- premises 1, 2).
   For every buffer size and every sequence of write / put / flush: close() issues the only Z_FINISH, everything
   written went through zlib in order (so the bytes received downstream inflate to the bytes written), and a second
   close() does nothing (finalised exactly once). *)
Theorem gzip_finalised_once_and_exact :
  forall (ZS : Type) (zdef : ZS -> bytes -> N -> ZS * list bytes) (S : Type) (sink_put : S -> bytes -> S) (sink_sync : S -> S)
         (received : S -> bytes) (Inv : S -> Prop),
  (forall s b, Inv s -> Inv (sink_put s b) /\ received (sink_put s b) = received s ++ b) ->
  (forall s, Inv s -> Inv (sink_sync s) /\ received (sink_sync s) = received s) ->
  forall (z0 : ZS) (s0 : S) (inflate : bytes -> option bytes),
  (forall calls last, Forall flag_ok calls ->
     inflate (concat (snd (zrun ZS zdef z0 (calls ++ [(last, Z_FINISH)])))) = Some (concat (map fst calls) ++ last)) ->
  forall bufsize ops, Inv s0 ->
  let r := grun ZS zdef S sink_put sink_sync (gz_open ZS z0 bufsize) s0 ops in
  let r' := gz_close ZS zdef S sink_put sink_sync (fst r) (snd r) in
  Inv (snd r') /\
  (exists comp, received (snd r') = received s0 ++ comp /\ inflate comp = Some (concat (map gbytes ops))) /\
  gz_close ZS zdef S sink_put sink_sync (fst r') (snd r') = r'.
Proof. exact gzip_exact_lemma. Qed.
Print Assumptions gzip_finalised_once_and_exact.

(* the chain of response::out() with gzip and without copy_buf: zbuf -> output device -> connection; finalize closes
   zbuf, then the device.  What the device asks the connection to write (tr) is a stream that inflates to the bytes the
   application wrote; nothing stays buffered; the last write carries eof. *)
Theorem gzip_over_device_exact :
  forall (ZS : Type) (zdef : ZS -> bytes -> N -> ZS * list bytes) (z0 : ZS) (inflate : bytes -> option bytes),
  (forall calls last, Forall flag_ok calls ->
     inflate (concat (snd (zrun ZS zdef z0 (calls ++ [(last, Z_FINISH)])))) = Some (concat (map fst calls) ++ last)) ->
  forall async cap c bufsize ops,
  let d0 := dev_open (new_dev async) cap in
  let r := grun ZS zdef (dev * conn) dsink_put dsink_sync (gz_open ZS z0 bufsize) (d0, c) ops in
  let r' := gz_close ZS zdef (dev * conn) dsink_put dsink_sync (fst r) (snd r) in
  let fin := dev_close (fst (snd r')) (snd (snd r')) in
  exists comp, tr (snd fin) = tr c ++ comp /\ inflate comp = Some (concat (map gbytes ops)) /\
               d_buf (fst fin) = [] /\ (exists pre, eofs (snd fin) = pre ++ [true]).
Proof. exact gzip_device_exact_lemma. Qed.
Print Assumptions gzip_over_device_exact.

(* response::out() with gzip AND copy_to_cache: zbuf -> copy_buf -> device, closed in this order by finalize: the page
   copied to the cache is byte-identical to the (compressed) body handed to the connection, and inflates to what the
   application wrote (plan theorem 5, gzip case) *)
Theorem gzip_cache_copy_exact :
  forall (ZS : Type) (zdef : ZS -> bytes -> N -> ZS * list bytes) (z0 : ZS) (inflate : bytes -> option bytes),
  (forall calls last, Forall flag_ok calls ->
     inflate (concat (snd (zrun ZS zdef z0 (calls ++ [(last, Z_FINISH)])))) = Some (concat (map fst calls) ++ last)) ->
  forall async cap c bufsize ops,
  let d0 := dev_open (new_dev async) cap in
  let r := grun ZS zdef _ csink_put csink_sync (gz_open ZS z0 bufsize) (mkCpy [] [] 0 0, d0, c) ops in
  let r' := gz_close ZS zdef _ csink_put csink_sync (fst r) (snd r) in
  let r2 := cpy_overflow (fst (fst (snd r'))) (snd (fst (snd r'))) (snd (snd r')) None in
  let fin := dev_close (snd (fst r2)) (snd r2) in
  exists comp, tr (snd fin) = tr c ++ comp /\ c_all (fst (fst r2)) = comp /\ inflate comp = Some (concat (map gbytes ops)).
Proof. exact gzip_cache_exact_lemma. Qed.
Print Assumptions gzip_cache_copy_exact.

(* down to the socket (chain zbuf -> device -> connection, any protocol).  c0 = the connection as out() leaves it (header
   block fixed, nothing written).  Unless an error was signalled: the committed stream (wire ++ pending; pending is empty
   for the synchronous device, the only one gzip is used with) is the ideal stream of the trace -- to which the framing
   theorems of section 3/4 apply -- and the data of the trace inflates to what the application wrote *)
Theorem gzip_committed_stream_exact :
  forall (ZS : Type) (zdef : ZS -> bytes -> N -> ZS * list bytes) (z0 : ZS) (inflate : bytes -> option bytes),
  (forall calls last, Forall flag_ok calls ->
     inflate (concat (snd (zrun ZS zdef z0 (calls ++ [(last, Z_FINISH)])))) = Some (concat (map fst calls) ++ last)) ->
  forall async cap c0 bufsize ops,
  k_err c0 = false -> k_trace c0 = [] -> sent c0 = [] ->
  let d0 := dev_open (new_dev async) cap in
  let r := grun ZS zdef _ dsink_put dsink_sync (gz_open ZS z0 bufsize) (d0, c0) ops in
  let r' := gz_close ZS zdef _ dsink_put dsink_sync (fst r) (snd r) in
  let fin := dev_close (fst (snd r')) (snd (snd r')) in
  k_err (snd fin) = false ->
  exists comp, sent (snd fin) = stream (k_fmt c0) (k_trace (snd fin)) /\ tr (snd fin) = comp /\ k_trace (snd fin) <> [] /\
               inflate comp = Some (concat (map gbytes ops)).
Proof. exact gzip_stream_lemma. Qed.
Print Assumptions gzip_committed_stream_exact.
(* SCGI instance: header block, then a stream that inflates to the body *)
Theorem gzip_scgi_wire_exact :
  forall (ZS : Type) (zdef : ZS -> bytes -> N -> ZS * list bytes) (z0 : ZS) (inflate : bytes -> option bytes),
  (forall calls last, Forall flag_ok calls ->
     inflate (concat (snd (zrun ZS zdef z0 (calls ++ [(last, Z_FINISH)])))) = Some (concat (map fst calls) ++ last)) ->
  forall async cap c0 bufsize ops,
  k_err c0 = false -> k_trace c0 = [] -> sent c0 = [] -> f_proto (k_fmt c0) = Scgi -> f_hdr_done (k_fmt c0) = false ->
  let d0 := dev_open (new_dev async) cap in
  let r := grun ZS zdef _ dsink_put dsink_sync (gz_open ZS z0 bufsize) (d0, c0) ops in
  let r' := gz_close ZS zdef _ dsink_put dsink_sync (fst r) (snd r) in
  let fin := dev_close (fst (snd r')) (snd (snd r')) in
  k_err (snd fin) = false ->
  exists comp, sent (snd fin) = f_hdr (k_fmt c0) ++ comp /\ inflate comp = Some (concat (map gbytes ops)).
Proof. exact gzip_scgi_lemma. Qed.
Print Assumptions gzip_scgi_wire_exact.

(* FastCGI instance: the committed stream de-records to header block ++ a stream that inflates to the body *)
Theorem gzip_fastcgi_wire_exact :
  forall (ZS : Type) (zdef : ZS -> bytes -> N -> ZS * list bytes) (z0 : ZS) (inflate : bytes -> option bytes),
  (forall calls last, Forall flag_ok calls ->
     inflate (concat (snd (zrun ZS zdef z0 (calls ++ [(last, Z_FINISH)])))) = Some (concat (map fst calls) ++ last)) ->
  forall async cap c0 bufsize ops rest,
  k_err c0 = false -> k_trace c0 = [] -> sent c0 = [] -> f_proto (k_fmt c0) = Fcgi -> f_hdr_done (k_fmt c0) = false ->
  let d0 := dev_open (new_dev async) cap in
  let r := grun ZS zdef _ dsink_put dsink_sync (gz_open ZS z0 bufsize) (d0, c0) ops in
  let r' := gz_close ZS zdef _ dsink_put dsink_sync (fst r) (snd r) in
  let fin := dev_close (fst (snd r')) (snd (snd r')) in
  k_err (snd fin) = false ->
  exists comp, inflate comp = Some (concat (map gbytes ops)) /\
    exists fuel0, forall fuel, (fuel0 <= fuel)%nat ->
      unrecord fuel (f_reqid (k_fmt c0)) (sent (snd fin) ++ rest) = Some (f_hdr (k_fmt c0) ++ comp, rest).
Proof. exact gzip_fcgi_lemma. Qed.
Print Assumptions gzip_fastcgi_wire_exact.
(* HTTP instance (no declared Content-Length): header block, then one of the three sound framings (computed
   Content-Length / chunked / close-delimited) of a stream that inflates to the body *)
Theorem gzip_http_wire_exact :
  forall (ZS : Type) (zdef : ZS -> bytes -> N -> ZS * list bytes) (z0 : ZS) (inflate : bytes -> option bytes),
  (forall calls last, Forall flag_ok calls ->
     inflate (concat (snd (zrun ZS zdef z0 (calls ++ [(last, Z_FINISH)])))) = Some (concat (map fst calls) ++ last)) ->
  forall async cap c0 bufsize ops,
  k_err c0 = false -> k_trace c0 = [] -> sent c0 = [] ->
  f_proto (k_fmt c0) = Http -> f_hdr_done (k_fmt c0) = false -> f_ocl (k_fmt c0) = None ->
  let d0 := dev_open (new_dev async) cap in
  let r := grun ZS zdef _ dsink_put dsink_sync (gz_open ZS z0 bufsize) (d0, c0) ops in
  let r' := gz_close ZS zdef _ dsink_put dsink_sync (fst r) (snd r) in
  let fin := dev_close (fst (snd r')) (snd (snd r')) in
  k_err (snd fin) = false ->
  exists comp, inflate comp = Some (concat (map gbytes ops)) /\
    http_wire (f_hdr (k_fmt c0)) (f_server (k_fmt c0)) comp (sent (snd fin)).
Proof. exact gzip_http_lemma. Qed.
Print Assumptions gzip_http_wire_exact.

(* non-vacuity: a toy zlib that satisfies the contract (it copies its input, in two pieces per call); gzip buffer of
   256 bytes (requested 0), synchronous device with a 4-byte buffer: 300 + 1 + 2 bytes written, with a sync in between *)
Example gzip_nonvacuous :
  (forall calls last, Forall flag_ok calls ->
     Some (concat (snd (zrun unit toy_zdef tt (calls ++ [(last, Z_FINISH)])))) = Some (concat (map fst calls) ++ last)) /\
  (let c := new_conn Scgi true false 1 [] [] [] [] in
   let ops := [GWrite (repeat 7 300); GPut 1; GSync; GWrite [2;3]] in
   let r := grun unit toy_zdef (dev * conn) dsink_put dsink_sync (gz_open unit tt 0) (dev_open (new_dev false) 4, c) ops in
   let r' := gz_close unit toy_zdef (dev * conn) dsink_put dsink_sync (fst r) (snd r) in
   let fin := dev_close (fst (snd r')) (snd (snd r')) in
   eqb_bytes (tr (snd fin)) (repeat 7 300 ++ [1;2;3]) = true /\ g_opened unit (fst r') = false /\
   (length (k_trace (snd fin)) =? 4)%nat = true).
Proof. split; [exact toy_contract|]. vm_compute. repeat split. Qed.

(* ------------------------------------------------------------------------------------------------ 6. composition: the whole request
   run_request = response script -> (copy_buf) -> device -> connection -> socket.  For every script (any writes, puts,
   flushes, setbuf of any size at any point, full_asynchronous_buffering, headers, cookies, copy_to_cache,
   async_flush_output), synchronous or asynchronous, every
   protocol, EVERY accept schedule (it is a field of c): unless the connection signalled an error,
   the wire is the ideal stream of a trace t ++ [(g, eof)] with all_false t whose data is exactly the script's bytes,
   nothing is left pending, and the page-cache copy (when copy_buf is installed) equals the body. *)
Theorem response_exact : forall async base defbuf version c ops,
  fresh c ->
  let f0 := set_response_headers (k_fmt c) (hdrs_at_out base ops) version in
  let res := run_request async base defbuf version c ops in
  k_err (fst res) = false ->
  (exists (t : list (gather * bool)) (g : gather), all_false t /\ concat (map data_of t) ++ concat g = script_body ops /\
               wire_bytes (fst res) = stream f0 (t ++ [(g, true)])) /\
  k_pending (fst res) = [] /\
  (r_copy_on (fst (whole (new_resp async base defbuf version) c ops)) = true -> snd res = script_body ops).
Proof. exact response_exact_lemma. Qed.
Print Assumptions response_exact.

(* the page-cache copy: copy_to_cache() (= a cache().fetch_page miss) before the first output, anything before it that is
   not output, anything after it: what store_page hands to the cache (copied_data) is exactly the body -- the same
   bytes the theorems below find on the wire after de-framing *)
Theorem cache_copy_exact_response : forall async base defbuf version c pre rest,
  fresh c -> Forall (fun o => is_output o = false) pre ->
  let ops := pre ++ OCopy :: rest in
  k_err (fst (run_request async base defbuf version c ops)) = false ->
  snd (run_request async base defbuf version c ops) = script_body ops.
Proof. exact cache_copy_is_body. Qed.
Print Assumptions cache_copy_exact_response.

(* kept-alive connections (HTTP keep-alive, FastCGI keep-conn): a completed response leaves nothing pending, so the
   connection object reset for the next request (socket state carried over) is fresh again: all per-request theorems
   apply to every response on the connection *)
Theorem next_request_starts_fresh : forall async base defbuf version c ops p h11 cka rid srv,
  fresh c -> k_err (fst (run_request async base defbuf version c ops)) = false ->
  let cf := fst (run_request async base defbuf version c ops) in
  fresh (new_conn p h11 cka rid srv (k_pending cf) (k_sched cf) (k_log cf)).
Proof. exact next_request_fresh. Qed.
Print Assumptions next_request_starts_fresh.

(* SCGI: the wire is the CGI header block (headers/cookies set before the first output, once) followed by the body *)
Theorem scgi_response_exact : forall async base defbuf version c ops,
  fresh c -> f_proto (k_fmt c) = Scgi ->
  let cf := fst (run_request async base defbuf version c ops) in
  k_err cf = false ->
  wire_bytes cf = format_cgi_headers (hdrs_at_out base ops) ++ script_body ops.
Proof. exact scgi_exact. Qed.
Print Assumptions scgi_response_exact.

(* FastCGI: the wire de-records (independent decoder, up to END_REQUEST, nothing consumed beyond) to header block ++ body *)
Theorem fastcgi_response_exact : forall async base defbuf version c ops rest,
  fresh c -> f_proto (k_fmt c) = Fcgi ->
  let cf := fst (run_request async base defbuf version c ops) in
  k_err cf = false ->
  exists fuel0, forall fuel, (fuel0 <= fuel)%nat ->
  unrecord fuel (f_reqid (k_fmt c)) (wire_bytes cf ++ rest) =
  Some (format_cgi_headers (hdrs_at_out base ops) ++ script_body ops, rest).
Proof. exact fcgi_exact. Qed.
Print Assumptions fastcgi_response_exact.

(* HTTP (no application-declared Content-Length): status line + headers + Server line, then one of three sound
   framings: computed Content-Length = |body| and the body; chunked coding that de-frames to the body; or
   Connection: close and the body verbatim *)
Theorem http_response_exact : forall async base defbuf version c ops,
  fresh c -> f_proto (k_fmt c) = Http -> hmap_get (h_map (hdrs_at_out base ops)) CONTENT_LENGTH = [] ->
  let cf := fst (run_request async base defbuf version c ops) in
  k_err cf = false ->
  http_wire (format_http_headers (hdrs_at_out base ops) version) (f_server (k_fmt c)) (script_body ops) (wire_bytes cf).
Proof. exact http_exact. Qed.
Print Assumptions http_response_exact.
(* HTTP with an application-declared Content-Length: the header block (which already carries the length) and the
   body verbatim; a write that would exceed the announced length is refused: error, nothing of it is sent *)
Theorem http_framing_sound_declared_length : forall f l g0 e0 t,
  f_proto f = Http -> f_hdr_done f = false -> f_ocl f = Some l ->
  stream f ((g0, e0) :: t) =
  (f_hdr f ++ f_server f ++ (if f_cka f then CONN_KA else CONN_CLOSE) ++ CRLF) ++ concat (map data_of ((g0, e0) :: t)).
Proof. exact http_declared_length_response. Qed.
Print Assumptions http_framing_sound_declared_length.
Theorem http_content_length_overrun_is_error : forall f l g e,
  f_proto f = Http -> f_hdr_done f = true -> f_chunked f = false -> f_ocl f = Some l -> l < f_owritten f + gsize g ->
  snd (format_output f g e) = true.
Proof. exact http_overrun_is_error. Qed.
Print Assumptions http_content_length_overrun_is_error.
Theorem format_error_stops_the_write : forall c g e f1 nd,
  k_err c = false -> format_output (k_fmt c) g e = (f1, nd, true) ->
  sent (fst (nonblocking_write c g e)) = sent c /\ k_err (fst (nonblocking_write c g e)) = true /\
  sent (blocking_write c g e) = sent c /\ k_err (blocking_write c g e) = true.
Proof. exact format_error_sends_nothing. Qed.
Print Assumptions format_error_stops_the_write.
(* end to end with a declared Content-Length (sync or async, every schedule, no error signalled): header block (with the
   declared length among the application headers), Server line, connection line, body verbatim; no chunking *)
Theorem http_response_exact_declared_length : forall async base defbuf version c ops,
  fresh c -> f_proto (k_fmt c) = Http -> hmap_get (h_map (hdrs_at_out base ops)) CONTENT_LENGTH <> [] ->
  let cf := fst (run_request async base defbuf version c ops) in
  k_err cf = false ->
  wire_bytes cf = (format_http_headers (hdrs_at_out base ops) version ++ f_server (k_fmt c) ++
                   (if f_cka (k_fmt c) then CONN_KA else CONN_CLOSE) ++ CRLF) ++ script_body ops.
Proof. exact http_declared_exact. Qed.
Print Assumptions http_response_exact_declared_length.
(* PARTIAL: a response that writes fewer bytes than it announced is not detected by the code (nor claimed here).
   The hypothesis k_err = false of the theorems above is discharged below for asynchronous responses (every
   schedule) and for synchronous responses on a socket that never reports would-block -- in both cases with or without a
   declared Content-Length, as long as the body fits the declared length; it is false (genuine errors) exactly when the
   script overruns its declared length or a blocking socket reports would-block (which connection::write treats as an
   error). *)

(* asynchronous responses without an application-declared Content-Length: no hypothesis about errors is needed.
   For EVERY accept schedule (any number of would-blocks and short writes) the response is delivered exactly. *)
Theorem async_response_never_errs : forall base defbuf version c ops,
  fresh c -> no_declared_length c (hdrs_at_out base ops) ->
  k_err (fst (run_request true base defbuf version c ops)) = false.
Proof. exact async_noerr. Qed.
Print Assumptions async_response_never_errs.
Theorem async_scgi_response_exact_unconditional : forall base defbuf version c ops,
  fresh c -> f_proto (k_fmt c) = Scgi ->
  wire_bytes (fst (run_request true base defbuf version c ops)) = format_cgi_headers (hdrs_at_out base ops) ++ script_body ops.
Proof. exact async_scgi_unconditional. Qed.
Print Assumptions async_scgi_response_exact_unconditional.
Theorem async_fastcgi_response_exact_unconditional : forall base defbuf version c ops rest,
  fresh c -> f_proto (k_fmt c) = Fcgi ->
  exists fuel0, forall fuel, (fuel0 <= fuel)%nat ->
  unrecord fuel (f_reqid (k_fmt c)) (wire_bytes (fst (run_request true base defbuf version c ops)) ++ rest) =
  Some (format_cgi_headers (hdrs_at_out base ops) ++ script_body ops, rest).
Proof. exact async_fcgi_unconditional. Qed.
Print Assumptions async_fastcgi_response_exact_unconditional.
Theorem async_http_response_exact_unconditional : forall base defbuf version c ops,
  fresh c -> f_proto (k_fmt c) = Http -> hmap_get (h_map (hdrs_at_out base ops)) CONTENT_LENGTH = [] ->
  http_wire (format_http_headers (hdrs_at_out base ops) version) (f_server (k_fmt c)) (script_body ops)
            (wire_bytes (fst (run_request true base defbuf version c ops))) /\
  k_pending (fst (run_request true base defbuf version c ops)) = [].
Proof. exact async_http_unconditional. Qed.
Print Assumptions async_http_response_exact_unconditional.

(* asynchronous responses WITH an application-declared Content-Length: as long as the script writes no more than it
   announced, the connection never enters the error state (every schedule), and the response is delivered verbatim.
   Budget argument: output_written_ of the format state equals the data of the ghost trace, which only grows and
   ends as the script body. *)
Theorem async_declared_length_never_errs : forall base defbuf version c ops L,
  fresh c -> f_proto (k_fmt c) = Http ->
  hmap_get (h_map (hdrs_at_out base ops)) CONTENT_LENGTH <> [] ->
  parse_dec (hmap_get (h_map (hdrs_at_out base ops)) CONTENT_LENGTH) = L ->
  lenN (script_body ops) <= L ->
  k_err (fst (run_request true base defbuf version c ops)) = false.
Proof. exact async_declared_noerr. Qed.
Print Assumptions async_declared_length_never_errs.
Theorem async_http_declared_length_exact_unconditional : forall base defbuf version c ops,
  fresh c -> f_proto (k_fmt c) = Http ->
  hmap_get (h_map (hdrs_at_out base ops)) CONTENT_LENGTH <> [] ->
  lenN (script_body ops) <= parse_dec (hmap_get (h_map (hdrs_at_out base ops)) CONTENT_LENGTH) ->
  wire_bytes (fst (run_request true base defbuf version c ops)) =
    (format_http_headers (hdrs_at_out base ops) version ++ f_server (k_fmt c) ++
     (if f_cka (k_fmt c) then CONN_KA else CONN_CLOSE) ++ CRLF) ++ script_body ops.
Proof. exact async_declared_unconditional. Qed.
Print Assumptions async_http_declared_length_exact_unconditional.
Example async_declared_nonvacuous :
  let c := new_conn Http true true 1 [83;58;120;13;10] [] [2;0;0;3;0;1] [] in
  let ops := [OHeader CONTENT_LENGTH [53]; OFull false; OSetbuf false 1; OWrite [1;2]; OPut [3]; OAsyncFlush; OWrite [4;5]] in
  fresh c /\ parse_dec (hmap_get (h_map (hdrs_at_out (mkHeaders [] []) ops)) CONTENT_LENGTH) = 5 /\ script_body ops = [1;2;3;4;5] /\
  k_err (fst (run_request true (mkHeaders [] []) 1024 [49;46;49] c ops)) = false /\
  k_err (fst (run_request true (mkHeaders [] []) 1024 [49;46;49] c (ops ++ [OWrite [6]]))) = true.
Proof. split; [vm_compute; repeat split|]. vm_compute. repeat split. Qed.

(* synchronous responses: blocking-loop liveness.  If the blocking socket never reports would-block (spos: every entry of
   the accept schedule is positive, i.e. each write_some on a non-empty buffer accepts at least one byte -- short writes
   of any size are allowed) and no Content-Length is declared, the connection never enters the error state: gather
   buffers never contain an empty entry, the write_to_socket loop terminates, format_output does not fail.  Hence the
   end-to-end statements hold without any hypothesis about errors. *)
Theorem sync_response_never_errs : forall base defbuf version c ops,
  fresh c -> spos (k_sched c) -> no_declared_length c (hdrs_at_out base ops) ->
  k_err (fst (run_request false base defbuf version c ops)) = false.
Proof. exact sync_noerr. Qed.
Print Assumptions sync_response_never_errs.
Theorem sync_scgi_response_exact_live : forall base defbuf version c ops,
  fresh c -> spos (k_sched c) -> f_proto (k_fmt c) = Scgi ->
  wire_bytes (fst (run_request false base defbuf version c ops)) = format_cgi_headers (hdrs_at_out base ops) ++ script_body ops.
Proof. exact sync_scgi_live. Qed.
Print Assumptions sync_scgi_response_exact_live.
Theorem sync_fastcgi_response_exact_live : forall base defbuf version c ops rest,
  fresh c -> spos (k_sched c) -> f_proto (k_fmt c) = Fcgi ->
  exists fuel0, forall fuel, (fuel0 <= fuel)%nat ->
  unrecord fuel (f_reqid (k_fmt c)) (wire_bytes (fst (run_request false base defbuf version c ops)) ++ rest) =
  Some (format_cgi_headers (hdrs_at_out base ops) ++ script_body ops, rest).
Proof. exact sync_fcgi_live. Qed.
Print Assumptions sync_fastcgi_response_exact_live.
Theorem sync_http_response_exact_live : forall base defbuf version c ops,
  fresh c -> spos (k_sched c) -> f_proto (k_fmt c) = Http -> hmap_get (h_map (hdrs_at_out base ops)) CONTENT_LENGTH = [] ->
  http_wire (format_http_headers (hdrs_at_out base ops) version) (f_server (k_fmt c)) (script_body ops)
            (wire_bytes (fst (run_request false base defbuf version c ops))) /\
  k_pending (fst (run_request false base defbuf version c ops)) = [].
Proof. exact sync_http_live. Qed.
Print Assumptions sync_http_response_exact_live.

(* ... and with a declared Content-Length that the script respects (budget argument of the asynchronous case) *)
Theorem sync_declared_length_never_errs : forall base defbuf version c ops L,
  fresh c -> spos (k_sched c) -> f_proto (k_fmt c) = Http ->
  hmap_get (h_map (hdrs_at_out base ops)) CONTENT_LENGTH <> [] ->
  parse_dec (hmap_get (h_map (hdrs_at_out base ops)) CONTENT_LENGTH) = L ->
  lenN (script_body ops) <= L ->
  k_err (fst (run_request false base defbuf version c ops)) = false.
Proof. exact sync_declared_noerr. Qed.
Print Assumptions sync_declared_length_never_errs.
Theorem sync_http_declared_length_exact_live : forall base defbuf version c ops,
  fresh c -> spos (k_sched c) -> f_proto (k_fmt c) = Http ->
  hmap_get (h_map (hdrs_at_out base ops)) CONTENT_LENGTH <> [] ->
  lenN (script_body ops) <= parse_dec (hmap_get (h_map (hdrs_at_out base ops)) CONTENT_LENGTH) ->
  wire_bytes (fst (run_request false base defbuf version c ops)) =
    (format_http_headers (hdrs_at_out base ops) version ++ f_server (k_fmt c) ++
     (if f_cka (k_fmt c) then CONN_KA else CONN_CLOSE) ++ CRLF) ++ script_body ops.
Proof. exact sync_declared_live. Qed.
Print Assumptions sync_http_declared_length_exact_live.

(* non-vacuity: a synchronous FastCGI response under the short-write schedule [3;1;7;2;1;5] (all positive): 9 writev calls,
   no error, the wire de-records to header block ++ body; and a would-block on the blocking socket IS an error (the
   hypothesis spos cannot be dropped); a declared Content-Length of 3 with 3 bytes written is delivered verbatim *)
Example sync_nonvacuous :
  let c := new_conn Fcgi true false 7 [] [] [3;1;7;2;1;5] [] in
  let ops := [OHeader [88] [49]; OSetbuf false 2; OWrite [1;2;3]; OPut [4]; OFlush; OWrite [5;6]] in
  fresh c /\ spos (k_sched c) /\
  (lenN (k_log (fst (run_request false (mkHeaders [] []) 16384 [49;46;49] c ops))) =? 9) = true /\
  unrecord 9 7 (wire_bytes (fst (run_request false (mkHeaders [] []) 16384 [49;46;49] c ops)) ++ [99]) =
    Some ([88;58;32;49;13;10;13;10] ++ [1;2;3;4;5;6], [99]) /\
  k_err (fst (run_request false (mkHeaders [] []) 16384 [49;46;49] (new_conn Fcgi true false 7 [] [] [3;0] []) ops)) = true /\
  (let ch := new_conn Http true true 1 [83;58;120;13;10] [] [2;9] [] in
   let opsl := [OHeader CONTENT_LENGTH [51]; OWrite [1;2]; OFlush; OWrite [3]] in
   k_err (fst (run_request false (mkHeaders [] []) 16384 [49;46;49] ch opsl)) = false /\
   k_err (fst (run_request false (mkHeaders [] []) 16384 [49;46;49] ch (opsl ++ [OFlush; OWrite [4]]))) = true).
Proof.
  split; [vm_compute; repeat split|]. split; [repeat constructor|].
  split; [vm_compute; reflexivity|]. split; [vm_compute; reflexivity|]. split; [vm_compute; reflexivity|].
  split; vm_compute; reflexivity.
Qed.

Example response_nonvacuous :
  let c := new_conn Http true true 1 [83;58;120;13;10] [] [3;0;1;0;7;2] [] in
  let ops := [OHeader [88] [49]; OSetbuf false 2; OFull false; OWrite [1;2;3]; OHeader [89] [50]; OAsyncFlush; OFull true;
              OPut [4;5]; OSetbuf false 1; OFlush; OWrite [6]] in
  fresh c /\
  k_err (fst (run_request true (mkHeaders [] []) 1024 [49;46;49] c ops)) = false /\
  script_body ops = [1;2;3;4;5;6] /\
  h_map (hdrs_at_out (mkHeaders [] []) ops) = [([88],[49])] /\
  (lenN (k_log (fst (run_request true (mkHeaders [] []) 1024 [49;46;49] c ops))) =? 8) = true /\
  (exists bw, wire_bytes (fst (run_request true (mkHeaders [] []) 1024 [49;46;49] c ops)) =
              (format_http_headers (mkHeaders [([88],[49])] []) [49;46;49] ++ [83;58;120;13;10] ++ (CONN_KA ++ TE_CHUNKED) ++ CRLF) ++ bw /\
              unchunk 9 bw = Some ([1;2;3;4;5;6], [])).
Proof.
  split; [vm_compute; repeat split|]. split; [vm_compute; reflexivity|]. split; [vm_compute; reflexivity|].
  split; [vm_compute; reflexivity|]. split; [vm_compute; reflexivity|].
  eexists. split; vm_compute; reflexivity.
Qed.

(* ------------------------------------------------------------------------------------------------ 7. tie
   the growth policy of the fully buffered device regenerated from the current source equals the model's *)
Theorem tie_next_size : forall n, n < 2 ^ 63 -> g_next_size (Z.of_N n) = Z.of_N (next_size n).
Proof. exact link_next_size. Qed.
Print Assumptions tie_next_size.
Theorem tie_fastcgi_max_record : g_max_packet_len = Z.of_N max_packet_len.
Proof. exact link_max_packet_len. Qed.
Print Assumptions tie_fastcgi_max_record.
(* details::copy_buf: initial size, resize argument and setp arguments of the growth branch of overflow(), length computed by
   getstr(std::string&) and the arguments of its assign -- cut out of the current source text by checks/C03.py (copybuf_tu),
   translated by cxx2v -- are the expressions of the exact model *)
Theorem tie_copy_buf_growth : forall size, size < 2 ^ 62 ->
  g_cb_grow_resize (Z.of_N size) = Z.of_N (cb_grow_resize size) /\
  g_cb_grow_base (Z.of_N size) = Z.of_N (cb_grow_base size) /\
  g_cb_grow_end (Z.of_N size) = Z.of_N (cb_grow_end size).
Proof. exact link_cb_grow. Qed.
Print Assumptions tie_copy_buf_growth.
Theorem tie_copy_buf_initial_size : g_cb_init = Z.of_N CB_INIT.
Proof. exact link_cb_init. Qed.
Print Assumptions tie_copy_buf_initial_size.
Theorem tie_copy_buf_getstr : forall bsize ep pp, pp <= ep -> ep <= bsize -> bsize < 2 ^ 62 ->
  g_cb_getstr_n (Z.of_N bsize) (Z.of_N ep) (Z.of_N pp) = Z.of_N (cb_getstr_n bsize ep pp).
Proof. exact link_cb_getstr_n. Qed.
Print Assumptions tie_copy_buf_getstr.
Theorem tie_copy_buf_getstr_assign : forall n bsize, g_cb_getstr_off n bsize = 0%Z /\ g_cb_getstr_len n bsize = n.
Proof. exact link_cb_getstr_assign. Qed.
Print Assumptions tie_copy_buf_getstr_assign.
(* overflow(int c) of basic_device and of async_io_buf (full buffering): `char c_tmp = c`, the guard and the byte appended, cut out of
   the current source: for every byte value the guard holds and the byte is that value; for EOF the guard fails *)
Theorem tie_overflow_guard : forall b, b < 256 ->
  g_ovf_guard (to_int_type b) = 1%Z /\ g_ovf_byte (to_int_type b) = Z.of_N (ovf_byte (to_int_type b)) /\ g_aovf_guard (to_int_type b) = 1%Z /\
  ovf_guard (to_int_type b) = true.
Proof. exact link_ovf_byte. Qed.
Print Assumptions tie_overflow_guard.
Theorem tie_overflow_guard_eof : g_ovf_guard EOF_INT = 0%Z /\ g_aovf_guard EOF_INT = 0%Z /\ ovf_guard EOF_INT = false.
Proof. exact link_ovf_eof. Qed.
Print Assumptions tie_overflow_guard_eof.
(* the comparator of the header map in the current source: ascii_to_lower; one step and the tail (length tie-break) of the loop of
   protocol::compare; icompare_type::operator() = (compare(l, r) < 0) *)
Theorem tie_header_comparator :
  (forall b, b < 128 -> g_ascii_to_lower (Z.of_N b) = Z.of_N (lower b)) /\
  (forall a b, g_cmp_step (Z.of_N a) (Z.of_N b) = if a <? b then (-1)%Z else if b <? a then 1%Z else 2%Z) /\
  (forall a b : bytes, (a = [] \/ b = []) -> g_cmp_tail (Z.of_N (lenN a)) (Z.of_N (lenN b)) = compare_int a b) /\
  (forall a b, (g_icmp_less (compare_int a b) =? 1)%Z = icompare_less a b).
Proof. exact link_comparator. Qed.
Print Assumptions tie_header_comparator.
Theorem tie_socket_max_iovec : g_max_vec_size = Z.of_nat max_vec.
Proof. exact link_max_vec_size. Qed.
Print Assumptions tie_socket_max_iovec.
