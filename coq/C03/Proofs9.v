(* C03 proofs, part 9: end-to-end statement for HTTP responses with an application-declared Content-Length *)
From CppcmsV Require Import Base.Tac C03.Defs C03.Proofs C03.Proofs2 C03.Proofs3 C03.Proofs4 C03.Proofs5 C03.Proofs6 C03.Proofs7.
Local Open Scope N_scope.

(* the application declared a Content-Length before the first output: the wire is the header block (which carries the
   declared length among the application headers), the Server line, the connection line, and the body verbatim --
   no chunking, no second Content-Length *)
Lemma http_declared_exact async base defbuf version c ops :
  fresh c -> f_proto (k_fmt c) = Http -> hmap_get (h_map (hdrs_at_out base ops)) CONTENT_LENGTH <> [] ->
  let cf := fst (run_request async base defbuf version c ops) in
  k_err cf = false ->
  wire_bytes cf = (format_http_headers (hdrs_at_out base ops) version ++ f_server (k_fmt c) ++
                   (if f_cka (k_fmt c) then CONN_KA else CONN_CLOSE) ++ CRLF) ++ script_body ops.
Proof.
  intros Hf Hp Hcl cf Hok.
  destruct (response_exact_lemma async base defbuf version c ops Hf Hok) as ((t & g & Haf & Hb & Hw) & _ & _).
  fold cf in Hw. set (f0 := set_response_headers _ _ _) in Hw.
  destruct (srh_fields (k_fmt c) (hdrs_at_out base ops) version) as (P & D & R & K & V & S). fold f0 in P, D, R, K, V, S.
  assert (Hh : f_hdr f0 = format_http_headers (hdrs_at_out base ops) version /\ exists l, f_ocl f0 = Some l).
  { unfold f0, set_response_headers. rewrite Hp. cbn [set_fmt f_hdr f_ocl]. split; [reflexivity|].
    destruct (hmap_get (h_map (hdrs_at_out base ops)) CONTENT_LENGTH) eqn:E; [contradiction|]. eexists. reflexivity. }
  destruct Hh as [Hh [l Ho]]. rewrite <- Hh, <- S, <- K, Hw, <- Hb.
  destruct t as [|[g0 e0] t].
  - cbn [app]. rewrite (http_declared_length_response f0 l g true []) by congruence.
    cbn [map concat app]. unfold data_of. cbn [fst]. now rewrite app_nil_r.
  - cbn [app]. rewrite (http_declared_length_response f0 l g0 e0 (t ++ [(g, true)])) by congruence.
    f_equal. cbn [map concat]. rewrite map_app, concat_app. cbn [map concat]. unfold data_of at 3. cbn [fst].
    now rewrite app_nil_r, <- app_assoc.
Qed.
