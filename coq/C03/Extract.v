Require Extraction.
Require Import ExtrOcamlBasic.
From Coq Require Import NArith ZArith List.
From CppcmsV Require Import C03.Defs.
Definition keep_types : (N * Z * nat) := (0%N, 0%Z, 0%nat).
Extraction "c03m.ml" keep_types run_request new_conn mkHeaders hmap_set decN CONTENT_LENGTH
  k_wire k_pending k_sched k_log k_fmt f_keepalive k_err k_trace unchunk unrecord lenN.
