(* C03 proofs, part 4: the committed stream of a connection is the concatenation of the formatted writes
   (for every interleaving of nonblocking / blocking / asynchronous writes and every accept schedule), and that
   stream is one header block followed by the correctly framed body *)
From CppcmsV Require Import Base.Tac C03.Defs C03.Proofs C03.Proofs2.
Local Open Scope N_scope.

(* the ideal byte stream: format every (buffer, eof) in order; depends on nothing but the format state *)
Fixpoint stream (f : fmt) (t : list (gather * bool)) : bytes :=
  match t with
  | [] => []
  | (g, e) :: r => let '(f1, new_data, _) := format_output f g e in concat new_data ++ stream f1 r
  end.
Fixpoint fmt_after (f : fmt) (t : list (gather * bool)) : fmt :=
  match t with
  | [] => f
  | (g, e) :: r => let '(f1, _, _) := format_output f g e in fmt_after f1 r
  end.

Inductive cop := CNb (g : gather) (e : bool) | CBl (g : gather) (e : bool) | CAs (g : gather) (e : bool).
Definition cop_entry (o : cop) : gather * bool := match o with CNb g e | CBl g e | CAs g e => (g, e) end.
Definition cstep (c : conn) (o : cop) : conn :=
  match o with
  | CNb g e => fst (nonblocking_write (add_trace c g e) g e)
  | CBl g e => blocking_write (add_trace c g e) g e
  | CAs g e => async_write c g e
  end.
Fixpoint crun (c : conn) (ops : list cop) : conn :=
  match ops with [] => c | o :: t => crun (cstep c o) t end.

Lemma cstep_err_sticky c o : k_err c = true -> k_err (cstep c o) = true.
Proof.
  intros H. destruct o as [g e|g e|g e]; cbn [cstep].
  - rewrite nb_write_err by exact H. exact H.
  - rewrite blocking_write_err by exact H. exact H.
  - unfold async_write. rewrite nb_write_err by exact H. exact H.
Qed.
Lemma crun_err_sticky : forall ops c, k_err c = true -> k_err (crun c ops) = true.
Proof. induction ops as [|o t IH]; intros c H; [exact H|]. cbn. apply IH. now apply cstep_err_sticky. Qed.

Lemma cstep_spec c o : k_err (cstep c o) = false ->
  let '(f1, new_data, _) := format_output (k_fmt c) (fst (cop_entry o)) (snd (cop_entry o)) in
  sent (cstep c o) = sent c ++ concat new_data /\ k_fmt (cstep c o) = f1 /\
  k_trace (cstep c o) = k_trace c ++ [cop_entry o] /\
  (match o with CNb _ _ => True | _ => k_pending (cstep c o) = [] end).
Proof.
  intros Hok.
  assert (He : k_err c = false).
  { destruct (k_err c) eqn:E; [|reflexivity]. rewrite (cstep_err_sticky c o E) in Hok. discriminate. }
  destruct o as [g e|g e|g e]; cbn [cop_entry fst snd];
    destruct (format_output (k_fmt c) g e) as [[f1 nd] er] eqn:EF.
  - destruct er.
    + exfalso. cbn [cstep] in Hok. unfold nonblocking_write in Hok. cbn [add_trace k_err k_fmt] in Hok.
      rewrite He, EF in Hok. cbn in Hok. discriminate.
    + pose proof (nb_write_sent (add_trace c g e) g e f1 nd He EF) as H. cbv zeta in H.
      destruct H as (A & B & _ & D & _). cbn [cstep]. rewrite A, B, D. auto.
  - destruct er.
    + exfalso. cbn [cstep] in Hok. unfold blocking_write in Hok. cbn [add_trace k_err k_fmt] in Hok.
      rewrite He, EF in Hok. cbn in Hok. discriminate.
    + pose proof (blocking_write_spec (add_trace c g e) g e f1 nd He EF) as H. cbv zeta in H.
      cbn [cstep] in *. destruct (H Hok) as (A & B & C & D). unfold sent at 1. rewrite A, B, C, D, app_nil_r. auto.
  - destruct er.
    + exfalso. cbn [cstep] in Hok. unfold async_write, nonblocking_write in Hok. cbn [add_trace k_err k_fmt] in Hok.
      rewrite He, EF in Hok. cbn in Hok. discriminate.
    + pose proof (async_write_spec c g e f1 nd He EF) as H. cbv zeta in H.
      destruct H as (A & B & C & _ & D). cbn [cstep]. unfold sent at 1. rewrite A, B, C, D, app_nil_r. auto.
Qed.

(* pending_conservation over whole runs: for every sequence of writes of any kind and every schedule *)
Lemma conn_stream : forall ops c, k_err (crun c ops) = false ->
  sent (crun c ops) = sent c ++ stream (k_fmt c) (map cop_entry ops) /\
  k_fmt (crun c ops) = fmt_after (k_fmt c) (map cop_entry ops) /\
  k_trace (crun c ops) = k_trace c ++ map cop_entry ops.
Proof.
  induction ops as [|o t IH]; intros c Hok.
  - cbn. now rewrite !app_nil_r.
  - cbn [crun map stream fmt_after] in *.
    assert (H1 : k_err (cstep c o) = false).
    { destruct (k_err (cstep c o)) eqn:E; [|reflexivity]. rewrite (crun_err_sticky t _ E) in Hok. discriminate. }
    pose proof (cstep_spec c o H1) as HS. destruct (cop_entry o) as [g e] eqn:EO. cbn [fst snd] in HS.
    destruct (format_output (k_fmt c) g e) as [[f1 nd] er]. destruct HS as (A & B & C & _).
    destruct (IH _ Hok) as (A2 & B2 & C2). rewrite A2, B2, C2, A, B, C, <- !app_assoc. auto.
Qed.

(* when the last write is a blocking one or an asynchronous one, nothing is left pending: the wire is the stream *)
Lemma conn_complete : forall ops last c,
  (match last with CNb _ _ => False | _ => True end) -> k_err (crun c (ops ++ [last])) = false ->
  wire_bytes (crun c (ops ++ [last])) = sent c ++ stream (k_fmt c) (map cop_entry (ops ++ [last])) /\
  k_pending (crun c (ops ++ [last])) = [].
Proof.
  intros ops last c Hl Hok. destruct (conn_stream _ _ Hok) as (A & _ & _).
  assert (Hp : k_pending (crun c (ops ++ [last])) = []).
  { clear A. revert c Hok. induction ops as [|o t IH]; intros c Hok.
    - cbn [app crun] in *. pose proof (cstep_spec c last Hok) as HS.
      destruct (format_output _ _ _) as [[f1 nd] er]. destruct HS as (_ & _ & _ & P). destruct last; [contradiction|exact P|exact P].
    - cbn [app crun] in *. now apply IH. }
  split; [|exact Hp]. unfold sent in A at 1. now rewrite Hp, app_nil_r in A.
Qed.

(* ---------------------------------------------------------------- the stream: one header block + framed body *)
Lemma set_fmt_fields c h d ch o w k : f_proto (set_fmt c h d ch o w k) = f_proto c /\ f_reqid (set_fmt c h d ch o w k) = f_reqid c /\
  f_hdr_done (set_fmt c h d ch o w k) = d /\ f_chunked (set_fmt c h d ch o w k) = ch /\ f_hdr (set_fmt c h d ch o w k) = h.
Proof. repeat split. Qed.

Ltac sc := first [assumption | reflexivity | (cbn; assumption)].
(* SCGI *)
Lemma stream_scgi_done : forall t f, f_proto f = Scgi -> f_hdr_done f = true -> stream f t = concat (map data_of t).
Proof.
  induction t as [|[g e] t IH]; intros f Hp Hd; [reflexivity|].
  cbn [stream map concat]. unfold format_output, scgi_format. rewrite Hp, Hd. rewrite IH by sc. reflexivity.
Qed.
Lemma stream_scgi f g e t : f_proto f = Scgi -> f_hdr_done f = false ->
  stream f ((g, e) :: t) = f_hdr f ++ concat (map data_of ((g, e) :: t)).
Proof.
  intros Hp Hd. cbn [stream map concat]. unfold format_output, scgi_format. rewrite Hp, Hd.
  rewrite stream_scgi_done by sc. rewrite concat_app, gadd_concat. cbn [concat app].
  unfold data_of at 1. cbn [fst]. now rewrite <- app_assoc.
Qed.

(* FastCGI *)
Lemma stream_fcgi_done : forall t f, f_proto f = Fcgi -> f_hdr_done f = true ->
  stream f t = concat (map (fcgi_bytes (f_reqid f)) t).
Proof.
  induction t as [|[g e] t IH]; intros f Hp Hd; [reflexivity|].
  cbn [stream map concat]. unfold format_output, fcgi_format. rewrite Hp, Hd.
  rewrite IH by sc. reflexivity.
Qed.
Lemma stream_fcgi f g e t : f_proto f = Fcgi -> f_hdr_done f = false ->
  stream f ((g, e) :: t) = concat (map (fcgi_bytes (f_reqid f)) ((gadd [] (f_hdr f) ++ g, e) :: t)).
Proof.
  intros Hp Hd. cbn [stream map concat]. unfold format_output, fcgi_format. rewrite Hp, Hd.
  rewrite stream_fcgi_done by sc. reflexivity.
Qed.

Lemma fcgi_response_decodes f pre g rest : f_proto f = Fcgi -> f_hdr_done f = false ->
  Forall (fun w => snd w = false) pre ->
  exists fuel0, forall fuel, (fuel0 <= fuel)%nat ->
  unrecord fuel (f_reqid f) (stream f (pre ++ [(g, true)]) ++ rest) =
  Some (f_hdr f ++ concat (map data_of (pre ++ [(g, true)])), rest).
Proof.
  intros Hp Hd Hpre. destruct pre as [|[g0 e0] pre].
  - destruct (unrecord_record_aux [] (f_reqid f) (gadd [] (f_hdr f) ++ g) rest (Forall_nil _)) as [fuel0 H].
    exists fuel0. intros fuel Hf. cbn [app]. rewrite stream_fcgi by assumption.
    cbn [map concat app] in *. rewrite app_nil_r, H by assumption.
    rewrite concat_app, gadd_concat. cbn [concat app]. unfold data_of. cbn [fst]. now rewrite app_nil_r.
  - inversion Hpre as [|? ? He Hpre']; subst. cbn [snd] in He. subst e0.
    destruct (unrecord_record_aux ((gadd [] (f_hdr f) ++ g0, false) :: pre) (f_reqid f) g rest) as [fuel0 H].
    { constructor; [reflexivity|assumption]. }
    exists fuel0. intros fuel Hf. cbn [app]. rewrite stream_fcgi by assumption.
    change ((gadd [] (f_hdr f) ++ g0, false) :: pre ++ [(g, true)]) with (((gadd [] (f_hdr f) ++ g0, false) :: pre) ++ [(g, true)]).
    rewrite map_app, concat_app. cbn [map concat]. rewrite app_nil_r, <- app_assoc.
    change (concat (fcgi_frame (f_reqid f) (fst (g, true)) (snd (g, true)))) with (fcgi_bytes (f_reqid f) (g, true)) .
    unfold fcgi_bytes at 2 in H. cbn [fst snd] in H. unfold fcgi_bytes at 2. cbn [fst snd].
    rewrite H by assumption. f_equal. f_equal.
    cbn [map concat]. unfold data_of at 1. cbn [fst]. rewrite concat_app, gadd_concat. cbn [concat app].
    rewrite map_app, concat_app. cbn [map concat]. unfold data_of at 3. cbn [fst]. rewrite app_nil_r, <- !app_assoc. reflexivity.
Qed.

(* HTTP *)
Lemma stream_http_chunked : forall t f, f_proto f = Http -> f_hdr_done f = true -> f_chunked f = true ->
  stream f t = concat (map chunked_bytes t).
Proof.
  induction t as [|[g e] t IH]; intros f Hp Hd Hc; [reflexivity|].
  cbn [stream map concat]. unfold format_output, http_format. rewrite Hp, Hd, Hc.
  rewrite IH by sc. reflexivity.
Qed.
Lemma stream_http_identity : forall t f, f_proto f = Http -> f_hdr_done f = true -> f_chunked f = false ->
  stream f t = concat (map data_of t).
Proof.
  induction t as [|[g e] t IH]; intros f Hp Hd Hc; [reflexivity|].
  cbn [stream map concat]. unfold format_output, http_format. rewrite Hp, Hd, Hc.
  rewrite IH by sc. reflexivity.
Qed.

(* HTTP/1.1 keep-alive without a known length: header block announcing chunked coding, then a chunked body
   that de-frames to what was written *)
Lemma http_chunked_response_decodes f g0 pre g rest :
  f_proto f = Http -> f_hdr_done f = false -> f_cka f = true -> f_http11 f = true -> f_ocl f = None ->
  Forall (fun w => snd w = false) pre ->
  let head := f_hdr f ++ f_server f ++ (CONN_KA ++ TE_CHUNKED) ++ CRLF in
  exists body, stream f ((g0, false) :: pre ++ [(g, true)]) = head ++ body /\
    forall fuel, (length pre + 2 < fuel)%nat ->
    unchunk fuel (body ++ rest) = Some (concat (map data_of ((g0, false) :: pre ++ [(g, true)])), rest).
Proof.
  intros Hp Hd Hk H11 Ho Hpre head.
  exists (concat (map chunked_bytes ((g0, false) :: pre)) ++ chunked_bytes (g, true)). split.
  - cbn [stream]. unfold format_output, http_format, http_head. rewrite Hp, Hd, Ho, Hk, H11. cbn [isSome orb andb negb].
    rewrite stream_http_chunked by sc.
    cbn [app concat]. rewrite map_app, concat_app. cbn [map concat]. rewrite !app_nil_r.
    unfold head. rewrite <- !app_assoc. reflexivity.
  - intros fuel Hf. rewrite <- app_assoc.
    rewrite (unchunk_chunk_aux ((g0, false) :: pre) g rest fuel); [| constructor; [reflexivity|assumption] | cbn; lia].
    f_equal. f_equal. change ((g0, false) :: pre ++ [(g, true)]) with (((g0, false) :: pre) ++ [(g, true)]).
    rewrite map_app, concat_app. cbn [map concat]. unfold data_of at 3. cbn [fst]. now rewrite app_nil_r.
Qed.

(* no keep-alive: header block with Connection: close, then the body verbatim (delimited by closing) *)
Lemma http_close_response f g0 e0 t :
  f_proto f = Http -> f_hdr_done f = false -> f_cka f = false -> f_ocl f = None -> e0 = false ->
  stream f ((g0, e0) :: t) = (f_hdr f ++ f_server f ++ CONN_CLOSE ++ CRLF) ++ concat (map data_of ((g0, e0) :: t)).
Proof.
  intros Hp Hd Hk Ho ->. cbn [stream]. unfold format_output, http_format, http_head. rewrite Hp, Hd, Ho, Hk.
  cbn [isSome orb andb negb]. rewrite stream_http_identity by sc.
  cbn [app concat map]. unfold data_of at 2. cbn [fst]. rewrite <- !app_assoc. reflexivity.
Qed.

(* a single completing write: Content-Length is computed from the buffer and the body follows verbatim *)
Lemma http_single_write_response f g :
  f_proto f = Http -> f_hdr_done f = false -> f_ocl f = None ->
  stream f [(g, true)] =
  (f_hdr f ++ f_server f ++ CL_LINE ++ decN (lenN (concat g)) ++ CRLF ++ (if f_cka f then CONN_KA else CONN_CLOSE) ++ CRLF) ++ concat g.
Proof.
  intros Hp Hd Ho. cbn [stream]. unfold format_output, http_format, http_head. rewrite Hp, Hd, Ho.
  cbn [isSome orb andb negb]. rewrite andb_true_r, andb_false_r. unfold gsize.
  destruct (f_cka f); cbn [app concat]; rewrite ?app_nil_r, <- ?app_assoc; reflexivity.
Qed.
