(* C03 proofs, part 8: an asynchronous response without an application-declared Content-Length never puts the
   connection into the error state, whatever the accept schedule does -- so the end-to-end theorems hold unconditionally there *)
From CppcmsV Require Import Base.Tac C03.Defs C03.Proofs C03.Proofs2 C03.Proofs3 C03.Proofs4 C03.Proofs5 C03.Proofs6 C03.Proofs7.
Local Open Scope N_scope.

(* phase 1 (before the completing write): HTTP has no content length to overrun *)
Definition P1 (f : fmt) : Prop := f_proto f = Http -> f_ocl f = None /\ (f_hdr_done f = false -> f_owritten f = 0).
(* phase 2 (after the completing write): only empty writes follow; a computed length is not exceeded *)
Definition P2 (f : fmt) : Prop :=
  f_hdr_done f = true /\ (f_proto f = Http -> match f_ocl f with None => True | Some l => f_owritten f <= l end).

Ltac solve_P H :=
  first [exact H |
    unfold P1, P2 in *; cbn [set_fmt f_proto f_ocl f_hdr_done f_owritten f_chunked];
    repeat split; intros; try assumption; try reflexivity; try discriminate; try congruence; try lia].
Ltac ex2 := eexists; eexists; split; [reflexivity|].

Lemma fmt_L1 f g : P1 f -> exists f1 nd, format_output f g false = (f1, nd, false) /\ P1 f1.
Proof.
  intros H. unfold format_output. destruct (f_proto f) eqn:Ep.
  - destruct (H Ep) as [Ho Hw]. unfold http_format, http_head. rewrite Ho.
    destruct (f_hdr_done f) eqn:Ed.
    + destruct (f_chunked f); ex2; solve_P H.
    + cbn [isSome orb negb]. rewrite andb_true_r.
      destruct (f_cka f && f_http11 f); ex2; solve_P H.
  - unfold scgi_format. destruct (f_hdr_done f); ex2; solve_P H.
  - unfold fcgi_format. ex2; solve_P H.
Qed.

Lemma fmt_L2 f g : P1 f -> exists f1 nd, format_output f g true = (f1, nd, false) /\ P2 f1.
Proof.
  intros H. unfold format_output. destruct (f_proto f) eqn:Ep.
  - destruct (H Ep) as [Ho Hw]. unfold http_format, http_head. rewrite Ho.
    destruct (f_hdr_done f) eqn:Ed.
    + destruct (f_chunked f); ex2; unfold P2; cbn [set_fmt f_proto f_ocl f_hdr_done f_owritten]; rewrite ?Ed, ?Ho; auto.
    + cbn [isSome orb negb]. rewrite andb_true_r, andb_false_r. rewrite (Hw eq_refl). cbn [N.add overrun].
      rewrite N.ltb_irrefl. ex2. unfold P2; cbn [set_fmt f_proto f_ocl f_hdr_done f_owritten]. split; [reflexivity|]. intros _. lia.
  - unfold scgi_format. destruct (f_hdr_done f) eqn:Ed; ex2; unfold P2; cbn [set_fmt f_proto f_ocl f_hdr_done f_owritten];
      (split; [auto|intros E; congruence]).
  - unfold fcgi_format. ex2; unfold P2; cbn [set_fmt f_proto f_ocl f_hdr_done f_owritten]; (split; [auto|intros E; congruence]).
Qed.

Lemma fmt_L3 f : P2 f -> exists f1 nd, format_output f [] false = (f1, nd, false) /\ P2 f1.
Proof.
  intros [Hd H]. unfold format_output. destruct (f_proto f) eqn:Ep.
  - specialize (H eq_refl). unfold http_format. rewrite Hd.
    destruct (f_chunked f).
    + ex2. split; [exact Hd|]. intros _. exact H.
    + cbn [gsize concat lenN length N.of_nat]. rewrite N.add_0_r.
      assert (E : overrun (f_ocl f) (f_owritten f) = false).
      { unfold overrun. destruct (f_ocl f); [apply N.ltb_ge; exact H|reflexivity]. }
      rewrite E. ex2. unfold P2; cbn [set_fmt f_proto f_ocl f_hdr_done f_owritten]. split; [reflexivity|]. intros _. exact H.
  - unfold scgi_format. rewrite Hd. ex2. split; [exact Hd|]. intros E; congruence.
  - unfold fcgi_format. ex2. unfold P2; cbn [set_fmt f_proto f_ocl f_hdr_done f_owritten]. split; [reflexivity|]. intros E; congruence.
Qed.

(* ---------------------------------------------------------------- connection steps *)
Definition NE (Q Q' : fmt -> Prop) (c c' : conn) : Prop := k_err c = false -> Q (k_fmt c) -> k_err c' = false /\ Q' (k_fmt c').

Lemma NE_refl (Q : fmt -> Prop) c : NE Q Q c c.
Proof. intros H1 H2. auto. Qed.
Lemma NE_trans (Q1 Q2 Q3 : fmt -> Prop) a b c : NE Q1 Q2 a b -> NE Q2 Q3 b c -> NE Q1 Q3 a c.
Proof. intros H1 H2 He Hq. destruct (H1 He Hq) as [A B]. now apply H2. Qed.

Lemma NE_nb (Q Q' : fmt -> Prop) c g e : (forall f, Q f -> exists f1 nd, format_output f g e = (f1, nd, false) /\ Q' f1) ->
  NE Q Q' c (fst (nonblocking_write (add_trace c g e) g e)).
Proof.
  intros HL He Hq. destruct (HL _ Hq) as (f1 & nd & Hf & Hq1).
  pose proof (nb_write_sent (add_trace c g e) g e f1 nd He Hf) as H. cbv zeta in H.
  destruct H as (_ & A & B & _). rewrite A, B. auto.
Qed.
Lemma NE_async_write (Q Q' : fmt -> Prop) c g e : (forall f, Q f -> exists f1 nd, format_output f g e = (f1, nd, false) /\ Q' f1) ->
  NE Q Q' c (async_write c g e).
Proof.
  intros HL He Hq. destruct (HL _ Hq) as (f1 & nd & Hf & Hq1).
  pose proof (async_write_spec c g e f1 nd He Hf) as H. cbv zeta in H.
  destruct H as (_ & _ & A & B & _). rewrite A, B. auto.
Qed.

(* an asynchronous device that is not final writes with eof = false *)
Definition adev (d : dev) : Prop := d_async d = true /\ d_final d = false.

Lemma NE_dev_write d c g : adev d -> NE P1 P1 c (snd (dev_write d c g)).
Proof.
  intros [Ha Hf]. unfold dev_write, do_write. cbn [snd]. rewrite Ha, Hf. cbn [andb].
  apply NE_nb. intros f. apply fmt_L1.
Qed.

Ltac ne_write :=
  match goal with
  | |- context[dev_write ?d ?c ?g] =>
      let H := fresh "H" in
      assert (H : NE P1 P1 c (snd (dev_write d c g))) by (apply NE_dev_write; assumption);
      destruct (dev_write d c g); cbn [fst snd] in *; exact H
  end.

Lemma NE_dev_xsputn d c s : adev d -> NE P1 P1 c (snd (dev_xsputn d c s)).
Proof.
  intros Hd. unfold dev_xsputn. destruct (d_full d).
  - destruct (_ <? _); apply NE_refl.
  - destruct (_ <=? _); [apply NE_refl|]. ne_write.
Qed.
Lemma NE_dev_overflow d c ch : adev d -> NE P1 P1 c (snd (dev_overflow d c ch)).
Proof. intros Hd. unfold dev_overflow. destruct (d_full d); [apply NE_refl|]. ne_write. Qed.
Lemma NE_dev_sputc d c ch : adev d -> NE P1 P1 c (snd (dev_sputc d c ch)).
Proof. intros Hd. unfold dev_sputc. destruct (_ <? _); [apply NE_refl|now apply NE_dev_overflow]. Qed.
Lemma NE_dev_sync d c : adev d -> NE P1 P1 c (snd (dev_sync d c)).
Proof. intros Hd. now apply NE_dev_overflow. Qed.
Lemma NE_dev_flush d c : adev d -> NE P1 P1 c (snd (dev_flush d c)).
Proof. intros Hd. unfold dev_flush. ne_write. Qed.
Lemma NE_basic_setbuf d c n : adev d -> NE P1 P1 c (snd (basic_setbuf d c n)).
Proof.
  intros Hd. unfold basic_setbuf. destruct (_ <? _); [|apply NE_refl].
  pose proof (NE_dev_flush (set_cap d n) c Hd) as H. destruct (dev_flush (set_cap d n) c). exact H.
Qed.
Lemma NE_dev_setbuf d c n : adev d -> NE P1 P1 c (snd (dev_setbuf d c n)).
Proof. intros Hd. unfold dev_setbuf. destruct (d_full d); [apply NE_refl|now apply NE_basic_setbuf]. Qed.
Lemma NE_dev_full d c b : adev d -> NE P1 P1 c (snd (dev_full d c b)).
Proof.
  intros Hd. unfold dev_full. destruct (Bool.eqb _ _); [apply NE_refl|]. destruct b; [apply NE_refl|].
  apply NE_basic_setbuf. exact Hd.
Qed.
Lemma NE_async_write_response d c : adev d -> NE P1 P1 c (snd (async_write_response d c)).
Proof.
  intros Hd. unfold async_write_response. pose proof (NE_dev_flush d c Hd) as H.
  destruct (dev_flush d c) as [d1 c1]. cbn [snd] in H.
  destruct (k_pending c1); [exact H|]. destruct (k_err c1); [exact H|]. cbn [snd].
  eapply NE_trans; [exact H|]. apply NE_async_write. intros f. apply fmt_L1.
Qed.

(* copy_buf *)
Lemma side_adev d c d' c' : adev d -> side d c d' c' -> adev d'.
Proof. intros [A F] (_ & A' & F' & _). split; congruence. Qed.

Lemma NE_cpy_overflow y d c ch : ok d -> adev d -> NE P1 P1 c (snd (cpy_overflow y d c ch)).
Proof.
  intros Hok Hd. unfold cpy_overflow.
  assert (H : NE P1 P1 c (snd (match c_unsent y with [] => (d, c) | u => dev_xsputn d c u end))).
  { destruct (c_unsent y); [apply NE_refl|now apply NE_dev_xsputn]. }
  destruct (match c_unsent y with [] => (d, c) | u => dev_xsputn d c u end) as [d1 c1]. cbn [snd] in H.
  destruct (if c_size y =? 0 then _ else _). destruct ch; exact H.
Qed.

Lemma NE_cpy_xsputn : forall fuel y d c s, ok d -> adev d -> NE P1 P1 c (snd (cpy_xsputn fuel y d c s)).
Proof.
  induction fuel as [|f IH]; intros y d c s Hok Hd; [apply NE_refl|].
  cbn [cpy_xsputn]. set (k := N.min (c_room y) (lenN s)).
  set (y1 := mkCpy _ _ _ _). destruct (dropN k s) as [|x r]; [apply NE_refl|].
  pose proof (cpy_overflow_cons y1 d c (Some x) Hok) as HO. pose proof (NE_cpy_overflow y1 d c (Some x) Hok Hd) as HN.
  destruct (cpy_overflow y1 d c (Some x)) as [[y2 d2] c2]. cbn [snd] in HN.
  destruct HO as (_ & S & _). eapply NE_trans; [exact HN|].
  apply IH; [destruct S as (O & _); exact O|eapply side_adev; eassumption].
Qed.
Lemma NE_cpy_sputc y d c ch : ok d -> adev d -> NE P1 P1 c (snd (cpy_sputc y d c ch)).
Proof. intros Hok Hd. unfold cpy_sputc. destruct (0 <? c_room y); [apply NE_refl|now apply NE_cpy_overflow]. Qed.
Lemma NE_cpy_sync y d c : ok d -> adev d -> NE P1 P1 c (snd (cpy_sync y d c)).
Proof.
  intros Hok Hd. unfold cpy_sync.
  pose proof (cpy_overflow_cons y d c None Hok) as HO. pose proof (NE_cpy_overflow y d c None Hok Hd) as HN.
  destruct (cpy_overflow y d c None) as [[y1 d1] c1]. cbn [snd] in HN. destruct HO as (_ & S & _).
  assert (Hd1 : adev d1) by (eapply side_adev; eassumption).
  pose proof (NE_dev_sync d1 c1 Hd1) as H2. destruct (dev_sync d1 c1). cbn [snd] in *. eapply NE_trans; eassumption.
Qed.

(* ---------------------------------------------------------------- script steps (after out(), asynchronous) *)
Lemma post_adev f0 body r c : Post f0 true body r c -> adev (r_dev r).
Proof. intros HP. split; [exact (p_async _ _ _ _ _ HP)|exact (p_final _ _ _ _ _ HP)]. Qed.

Lemma NE_put_all f0 : forall s body r c, Post f0 true body r c -> NE P1 P1 c (snd (put_all resp_putc r c s)).
Proof.
  induction s as [|x s IH]; intros body r c HP; cbn [put_all]; [apply NE_refl|].
  assert (H1 : NE P1 P1 c (snd (resp_putc r c x))).
  { unfold resp_putc. destruct (r_copy_on r).
    - pose proof (NE_cpy_sputc (r_cpy r) (r_dev r) c x (p_ok _ _ _ _ _ HP) (post_adev _ _ _ _ HP)) as H.
      destruct (cpy_sputc _ _ _ _) as [[y d] c1]. exact H.
    - pose proof (NE_dev_sputc (r_dev r) c x (post_adev _ _ _ _ HP)) as H. destruct (dev_sputc _ _ _). exact H. }
  pose proof (step_post f0 true body r c (OPut [x]) HP) as HS. cbv zeta in HS. cbn [step put_all obytes] in HS.
  rewrite (resp_out_done r c (p_out _ _ _ _ _ HP)) in HS.
  destruct (resp_putc r c x) as [r1 c1]. cbn [fst snd] in *.
  eapply NE_trans; [exact H1|]. eapply IH. exact HS.
Qed.

Lemma NE_step f0 body r c o : Post f0 true body r c -> NE P1 P1 c (snd (step r c o)).
Proof.
  intros HP. pose proof (p_out _ _ _ _ _ HP) as Ho. pose proof (p_ok _ _ _ _ _ HP) as Hk. pose proof (post_adev _ _ _ _ HP) as Hd.
  destruct o; cbn [step]; rewrite ?resp_out_done by exact Ho.
  - destruct (r_copy_on r).
    + pose proof (NE_cpy_xsputn (S (length s)) (r_cpy r) (r_dev r) c s Hk Hd) as H. destruct (cpy_xsputn _ _ _ _ _) as [[y d] c1]. exact H.
    + pose proof (NE_dev_xsputn (r_dev r) c s Hd) as H. destruct (dev_xsputn _ _ _). exact H.
  - eapply NE_put_all. exact HP.
  - destruct (r_copy_on r).
    + pose proof (NE_cpy_sync (r_cpy r) (r_dev r) c Hk Hd) as H. destruct (cpy_sync _ _ _) as [[y d] c1]. exact H.
    + pose proof (NE_dev_sync (r_dev r) c Hd) as H. destruct (dev_sync _ _). exact H.
  - rewrite Ho. pose proof (NE_dev_setbuf (r_dev r) c (if neg then r_defbuf r else n) Hd) as H. destruct (dev_setbuf _ _ _). exact H.
  - destruct (d_async (r_dev r)); [|apply NE_refl].
    pose proof (NE_dev_full (r_dev r) c b Hd) as H. destruct (dev_full _ _ _). exact H.
  - apply NE_refl.
  - apply NE_refl.
  - apply NE_refl.
  - rewrite Ho, andb_true_r. destruct (d_async (r_dev r)); [|apply NE_refl].
    pose proof (NE_async_write_response (r_dev r) c Hd) as H. destruct (async_write_response _ _). exact H.
Qed.

Lemma NE_run_ops f0 : forall ops body r c, Post f0 true body r c -> NE P1 P1 c (snd (run_ops r c ops)).
Proof.
  induction ops as [|o t IH]; intros body r c HP; cbn [run_ops]; [apply NE_refl|].
  pose proof (NE_step f0 body r c o HP) as HN.
  pose proof (step_post f0 true body r c o HP) as HS. cbv zeta in HS.
  destruct (step r c o) as [r1 c1]. cbn [fst snd] in *.
  eapply NE_trans; [exact HN|]. eapply IH; eassumption.
Qed.

(* finalize + completion: the completing write moves to phase 2, then only empty writes *)
Lemma NE_finish f0 body r c : Post f0 true body r c -> NE P1 P2 c (snd (finish r c)).
Proof.
  intros HP. pose proof HP as [Po PJ Pd Pk Pa Pf Pe Pt Pc]. pose proof (post_adev _ _ _ _ HP) as Hd.
  unfold finish. rewrite (resp_out_done r c Po).
  assert (H1 : exists y d1 c2, (if r_copy_on r then cpy_overflow (r_cpy r) (r_dev r) c None else (r_cpy r, r_dev r, c)) = (y, d1, c2) /\
               NE P1 P1 c c2 /\ ok d1 /\ adev d1 /\ d_eofsent d1 = false).
  { destruct (r_copy_on r).
    - pose proof (cpy_overflow_cons (r_cpy r) (r_dev r) c None Pk) as HO. pose proof (NE_cpy_overflow (r_cpy r) (r_dev r) c None Pk Hd) as HN.
      destruct (cpy_overflow (r_cpy r) (r_dev r) c None) as [[y d1] c2]. exists y, d1, c2. cbn [snd] in HN.
      destruct HO as (_ & S & _). split; [reflexivity|]. split; [exact HN|]. pose proof S as (O & _ & _ & E & _).
      split; [exact O|]. split; [eapply side_adev; eassumption|]. now apply E.
    - exists (r_cpy r), (r_dev r), c. split; [reflexivity|]. split; [apply NE_refl|]. auto. }
  destruct H1 as (y & d1 & c2 & E1 & N1 & O1 & [A1 F1] & Es1). rewrite E1.
  (* close: one write with eof = true *)
  assert (N2 : NE P1 P2 c2 (snd (dev_close d1 c2))).
  { unfold dev_close. rewrite Es1. unfold dev_flush, dev_write, do_write. cbn [snd set_eof d_async d_final d_eofsent d_buf]. rewrite A1.
    cbn [andb negb]. apply NE_nb. intros f. apply fmt_L2. }
  pose proof (dev_close_spec d1 c2 O1 F1 Es1) as HC. cbv zeta in HC.
  assert (Has : d_async (fst (dev_close d1 c2)) = true).
  { unfold dev_close. rewrite Es1. destruct (dev_flush_spec (set_eof d1 true false) c2 O1) as (_ & _ & _ & _ & _ & A & _). rewrite A. exact A1. }
  destruct (dev_close d1 c2) as [d2 c3]. cbn [fst snd] in *.
  destruct HC as (_ & B3 & _ & Es3 & Ef3 & _). rewrite Has.
  (* async_write_response: flush of the empty buffer (eof already sent), async_write of nothing *)
  unfold async_write_response, dev_flush, dev_write, do_write. rewrite Has, B3, Ef3, Es3. cbn [andb negb gadd fst snd].
  assert (N3 : NE P2 P2 c3 (fst (nonblocking_write (add_trace c3 [] false) [] false))) by (apply NE_nb; intros f; apply fmt_L3).
  destruct (nonblocking_write (add_trace c3 [] false) [] false) as [c4 done]. cbn [fst snd] in *.
  destruct (k_pending c4).
  - cbn [snd]. eapply NE_trans; [exact N1|]. eapply NE_trans; [exact N2|exact N3].
  - destruct (k_err c4).
    + cbn [snd]. eapply NE_trans; [exact N1|]. eapply NE_trans; [exact N2|exact N3].
    + cbn [snd]. eapply NE_trans; [exact N1|]. eapply NE_trans; [exact N2|]. eapply NE_trans; [exact N3|].
      apply NE_async_write. intros f. apply fmt_L3.
Qed.

(* ---------------------------------------------------------------- the whole asynchronous request *)
Definition no_declared_length (c : conn) (h : headers) : Prop :=
  f_proto (k_fmt c) = Http -> hmap_get (h_map h) CONTENT_LENGTH = [].

Lemma P1_out c h v : no_declared_length c h -> P1 (set_response_headers (k_fmt c) h v).
Proof.
  intros Hn Hp. unfold no_declared_length in Hn. unfold set_response_headers in *.
  destruct (f_proto (k_fmt c)) eqn:E; cbn in Hp; try congruence.
  rewrite (Hn eq_refl). cbn. auto.
Qed.

Lemma whole_noerr : forall ops r c,
  PreI true r -> k_err c = false -> k_trace c = [] -> sent c = [] ->
  no_declared_length c (hdrs_at_out (r_hdrs r) ops) ->
  k_err (snd (whole r c ops)) = false.
Proof.
  induction ops as [|o t IH]; intros r c HPre He Ht Hs Hn.
  - cbn [hdrs_at_out] in Hn. unfold whole. cbn [run_ops]. rewrite finish_out.
    pose proof (out_post true r c HPre He Ht Hs) as HP. cbv zeta in HP.
    pose proof (NE_finish _ _ _ _ HP) as HN.
    assert (E0 : k_err (snd (resp_out r c)) = false /\ P1 (k_fmt (snd (resp_out r c)))).
    { unfold resp_out. rewrite (q_out _ _ HPre). cbn [snd with_fmt k_err k_fmt]. split; [exact He|now apply P1_out]. }
    destruct E0 as [E0 Q0]. now destruct (HN E0 Q0).
  - cbn [hdrs_at_out] in Hn. destruct (is_output o) eqn:EO.
    + pose proof (out_post true r c HPre He Ht Hs) as HP. cbv zeta in HP.
      unfold whole. cbn [run_ops]. rewrite (step_out r c o EO).
      set (r1 := fst (resp_out r c)) in *. set (c1 := snd (resp_out r c)) in *.
      assert (E0 : k_err c1 = false /\ P1 (k_fmt c1)).
      { unfold c1, resp_out. rewrite (q_out _ _ HPre). cbn [snd with_fmt k_err k_fmt]. split; [exact He|now apply P1_out]. }
      destruct E0 as [E0 Q0].
      pose proof (NE_run_ops _ (o :: t) [] r1 c1 HP) as HN1.
      pose proof (run_ops_post _ true (o :: t) [] r1 c1 HP) as HR. cbv zeta in HR. cbn [run_ops] in HR, HN1.
      destruct (step r1 c1 o) as [r2 c2]. destruct (run_ops r2 c2 t) as [r3 c3]. cbn [fst snd] in *.
      destruct (HN1 E0 Q0) as [E3 Q3].
      pose proof (NE_finish _ _ _ _ HR) as HN2. now destruct (HN2 E3 Q3).
    + destruct (pre_step true r c o HPre EO) as (r' & Es & HPre' & Hh & Hv & Hdef).
      unfold whole. cbn [run_ops]. rewrite Es.
      apply (IH r' c HPre' He Ht Hs). now rewrite Hh.
Qed.

Lemma async_noerr base defbuf version c ops :
  fresh c -> no_declared_length c (hdrs_at_out base ops) ->
  k_err (fst (run_request true base defbuf version c ops)) = false.
Proof.
  intros (He & Ht & Hw & Hp) Hn. rewrite run_request_whole. cbn [fst].
  apply whole_noerr; auto.
  - apply pre_new.
  - unfold sent, wire_bytes. now rewrite Hw, Hp.
Qed.

(* unconditional end-to-end statements for asynchronous responses: every schedule, no error hypothesis *)
Lemma async_scgi_unconditional base defbuf version c ops :
  fresh c -> f_proto (k_fmt c) = Scgi ->
  wire_bytes (fst (run_request true base defbuf version c ops)) = format_cgi_headers (hdrs_at_out base ops) ++ script_body ops.
Proof.
  intros Hf Hp. apply scgi_exact; auto. apply async_noerr; auto. intros E. congruence.
Qed.
Lemma async_fcgi_unconditional base defbuf version c ops rest :
  fresh c -> f_proto (k_fmt c) = Fcgi ->
  exists fuel0, forall fuel, (fuel0 <= fuel)%nat ->
  unrecord fuel (f_reqid (k_fmt c)) (wire_bytes (fst (run_request true base defbuf version c ops)) ++ rest) =
  Some (format_cgi_headers (hdrs_at_out base ops) ++ script_body ops, rest).
Proof.
  intros Hf Hp. apply fcgi_exact; auto. apply async_noerr; auto. intros E. congruence.
Qed.
Lemma async_http_unconditional base defbuf version c ops :
  fresh c -> f_proto (k_fmt c) = Http -> hmap_get (h_map (hdrs_at_out base ops)) CONTENT_LENGTH = [] ->
  http_wire (format_http_headers (hdrs_at_out base ops) version) (f_server (k_fmt c)) (script_body ops)
            (wire_bytes (fst (run_request true base defbuf version c ops))) /\
  k_pending (fst (run_request true base defbuf version c ops)) = [].
Proof.
  intros Hf Hp Hcl.
  assert (Hok : k_err (fst (run_request true base defbuf version c ops)) = false) by (apply async_noerr; auto; intros _; exact Hcl).
  split; [apply http_exact; auto|].
  destruct (response_exact_lemma true base defbuf version c ops Hf Hok) as (_ & P & _). exact P.
Qed.
