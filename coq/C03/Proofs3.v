(* C03 proofs, part 3: the output devices (basic_device / output_device / async_io_buf) hand to the connection
   exactly the bytes written into them, in order; eof is signalled once, by close *)
From CppcmsV Require Import Base.Tac C03.Defs C03.Proofs.
Local Open Scope N_scope.

(* what the device asked the connection to write so far (ghost trace), and the eof flags *)
Definition tr (c : conn) : bytes := concat (map (fun w => concat (fst w)) (k_trace c)).
Definition eofs (c : conn) : list bool := map snd (k_trace c).

(* ---------------------------------------------------------------- the connection never touches the trace *)
Lemma write_all_trace : forall fuel c g, k_trace (write_all fuel c g) = k_trace c.
Proof.
  induction fuel as [|f IH]; intros c g; destruct g as [|e r]; cbn [write_all]; try reflexivity.
  destruct (write_some c _) as [n c1] eqn:EW.
  destruct (write_some_spec _ _ _ _ EW) as (_ & _ & _ & _ & _ & Htr & _).
  destruct (n =? 0); [exact Htr|]. now rewrite IH.
Qed.
Lemma blocking_write_trace c g eof : k_trace (blocking_write c g eof) = k_trace c.
Proof.
  unfold blocking_write. destruct (k_err c); [reflexivity|].
  destruct (format_output (k_fmt c) g eof) as [[f1 nd] e]. destruct e; [reflexivity|].
  destruct (with_pending _ nd); [reflexivity|]. cbn [set_pending k_trace]. now rewrite write_all_trace.
Qed.
Lemma nonblocking_write_trace c g eof : k_trace (fst (nonblocking_write c g eof)) = k_trace c.
Proof.
  unfold nonblocking_write. destruct (k_err c); [reflexivity|].
  destruct (format_output (k_fmt c) g eof) as [[f1 nd] e]. destruct e; [reflexivity|].
  destruct (with_pending _ nd) eqn:EO; [reflexivity|].
  destruct (write_some _ _) as [n c2] eqn:EW.
  destruct (write_some_spec _ _ _ _ EW) as (_ & _ & _ & _ & _ & Htr & _).
  destruct (n =? _); [exact Htr|]. destruct (n =? 0); exact Htr.
Qed.
Lemma do_write_trace d c g eof : k_trace (do_write d c g eof) = k_trace c ++ [(g, eof)].
Proof.
  unfold do_write. destruct (d_async d).
  - now rewrite nonblocking_write_trace.
  - now rewrite blocking_write_trace.
Qed.
Lemma tr_app c g eof c' : k_trace c' = k_trace c ++ [(g, eof)] -> tr c' = tr c ++ concat g /\ eofs c' = eofs c ++ [eof].
Proof.
  intros H. unfold tr, eofs. rewrite H, !map_app, concat_app. cbn. now rewrite app_nil_r.
Qed.

(* ---------------------------------------------------------------- device invariant *)
(* the put area lies inside the vector: true from dev_open on, preserved by every device operation *)
Definition ok (d : dev) : Prop := lenN (d_buf d) <= d_vsize d.

Lemma zfill_ok vs b : lenN b <= vs -> zfill vs b = b.
Proof.
  intros H. unfold zfill. rewrite takeN_all by assumption.
  unfold lenN in H. replace (length b - N.to_nat vs)%nat with 0%nat by lia. cbn. apply app_nil_r.
Qed.
Lemma resize_ok d n : ok d -> d_buf (resize d n) = d_buf d /\ d_vsize (resize d n) = n /\
  d_async (resize d n) = d_async d /\ d_cap (resize d n) = d_cap d /\ d_full (resize d n) = d_full d /\
  d_final (resize d n) = d_final d /\ d_eofsent (resize d n) = d_eofsent d.
Proof.
  intros H. unfold resize. destruct (d_vsize d <? n); cbn; [rewrite zfill_ok by exact H|]; repeat split.
Qed.

Lemma dev_write_spec d c g : let r := dev_write d c g in
  tr (snd r) = tr c ++ concat g /\ eofs (snd r) = eofs c ++ [d_final d && negb (d_eofsent d)] /\
  d_buf (fst r) = d_buf d /\ d_vsize (fst r) = d_vsize d /\ d_cap (fst r) = d_cap d /\ d_full (fst r) = d_full d /\
  d_async (fst r) = d_async d /\ d_final (fst r) = d_final d /\ d_eofsent (fst r) = (d_final d && negb (d_eofsent d)).
Proof.
  unfold dev_write. cbn [fst snd].
  destruct (tr_app c g (d_final d && negb (d_eofsent d)) _ (do_write_trace d c g _)) as [A B].
  rewrite A, B. repeat split.
Qed.

Lemma grow_to_ge : forall fuel sz minimal, minimal <= sz * 2 ^ N.of_nat fuel -> minimal <= grow_to fuel sz minimal.
Proof.
  induction fuel as [|f IH]; intros sz m H.
  - cbn in *. lia.
  - cbn [grow_to]. destruct (N.ltb_spec sz m) as [Hlt|Hge]; [|exact Hge].
    apply IH. rewrite Nat2N.inj_succ, N.pow_succ_r' in H. lia.
Qed.
Lemma next_size_pos n : 1 <= next_size n.
Proof. unfold next_size. destruct (N.eqb_spec n 0); lia. Qed.
Lemma grow_enough vs m : m <= grow_to (S (N.to_nat (N.log2 m))) (next_size vs) m.
Proof.
  apply grow_to_ge. rewrite Nat2N.inj_succ, N2Nat.id.
  destruct (N.eq_dec m 0) as [->|Hm]; [lia|].
  destruct (N.log2_spec m ltac:(lia)) as [_ H]. pose proof (next_size_pos vs).
  assert (1 * 2 ^ N.succ (N.log2 m) <= next_size vs * 2 ^ N.succ (N.log2 m)) by (apply N.mul_le_mono_r; assumption).
  lia.
Qed.

(* one step of the device: trace ++ buffer grows by exactly the bytes put in, no eof while not final *)
Definition conserves (d : dev) (c : conn) (r : dev * conn) (s : bytes) : Prop :=
  tr (snd r) ++ d_buf (fst r) = tr c ++ d_buf d ++ s /\ ok (fst r) /\
  d_async (fst r) = d_async d /\ d_final (fst r) = d_final d /\
  (d_final d = false -> d_eofsent (fst r) = d_eofsent d \/ d_eofsent (fst r) = false) /\
  (d_final d = false -> exists k, eofs (snd r) = eofs c ++ repeat false k).

Ltac fin := repeat split; try assumption; try reflexivity; try lia.

Lemma conserves_nowrite d c d' s : d_buf d' = d_buf d ++ s -> ok d' -> d_async d' = d_async d -> d_final d' = d_final d ->
  d_eofsent d' = d_eofsent d -> conserves d c (d', c) s.
Proof.
  intros Hb Ho Ha Hf He. unfold conserves. cbn [fst snd]. rewrite Hb. fin.
  - intros _. now left.
  - intros _. exists 0%nat. cbn. now rewrite app_nil_r.
Qed.

(* write pbase..pptr (+ extra), then reset the put area with do_setp *)
Lemma conserves_write_reset d c extra : ok d ->
  let r := dev_write d c (gadd (gadd [] (d_buf d)) extra) in
  conserves d c (do_setp (set_buf (fst r) (d_vsize (fst r)) []), snd r) extra.
Proof.
  intros Hok r. destruct (dev_write_spec d c (gadd (gadd [] (d_buf d)) extra)) as (A & B & Hb & Hv & Hc & Hfl & Has & Hfi & Hes).
  fold r in A, B, Hb, Hv, Hc, Hfl, Has, Hfi, Hes.
  set (d1 := set_buf (fst r) (d_vsize (fst r)) []).
  assert (Hok1 : ok d1) by (unfold ok, d1; cbn; lia).
  destruct (resize_ok d1 (d_cap d1) Hok1) as (R1 & R2 & R3 & R4 & R5 & R6 & R7).
  assert (Hokr : ok (do_setp d1)) by (unfold ok, do_setp; rewrite R1, R2; unfold d1; cbn; lia).
  unfold conserves. cbn [fst snd]. split; [|split; [exact Hokr|]].
  - unfold do_setp. rewrite R1. change (d_buf d1) with (@nil N). rewrite A, !gadd_concat. cbn [concat app].
    now rewrite !app_nil_r.
  - unfold do_setp. rewrite R3, R6, R7.
    change (d_async d1) with (d_async (fst r)). change (d_final d1) with (d_final (fst r)).
    change (d_eofsent d1) with (d_eofsent (fst r)). fin.
    + intros Hf. rewrite Hes, Hf. now right.
    + intros Hf. exists 1%nat. rewrite B, Hf. reflexivity.
Qed.

Lemma dev_xsputn_spec d c s : ok d -> conserves d c (dev_xsputn d c s) s.
Proof.
  intros Hok. unfold dev_xsputn. destruct (d_full d).
  - destruct (N.ltb_spec (d_vsize d) (lenN (d_buf d) + lenN s)) as [Hlt|Hge].
    + set (sz := grow_to _ _ _).
      assert (Hsz : lenN (d_buf d) + lenN s <= sz) by apply grow_enough. clearbody sz.
      destruct (resize_ok d sz Hok) as (R1 & R2 & R3 & R4 & R5 & R6 & R7).
      apply conserves_nowrite; cbn; rewrite ?R1, ?R3, ?R6, ?R7; try reflexivity.
      unfold ok. cbn [set_buf d_buf d_vsize]. rewrite ?R1, lenN_app. lia.
    + apply conserves_nowrite; cbn; try reflexivity. unfold ok. cbn. rewrite lenN_app. lia.
  - destruct (N.leb_spec (lenN (d_buf d) + lenN s) (d_vsize d)) as [Hle|Hgt].
    + apply conserves_nowrite; cbn; try reflexivity. unfold ok. cbn. rewrite lenN_app. lia.
    + pose proof (conserves_write_reset d c s Hok) as H. cbv zeta in H.
      destruct (dev_write d c _) as [d1 c1]. exact H.
Qed.

Lemma dev_overflow_spec d c ch : ok d ->
  conserves d c (dev_overflow d c ch) (match ch with Some x => [x] | None => [] end).
Proof.
  intros Hok. unfold dev_overflow. set (chb := match ch with Some x => [x] | None => [] end).
  destruct (d_full d).
  - destruct (N.eqb_spec (lenN (d_buf d)) (d_vsize d)) as [E|E].
    + assert (Hc1 : lenN chb <= 1) by (subst chb; destruct ch; cbn; lia).
      set (ns := next_size (d_vsize d)).
      assert (Hns : d_vsize d + 1 <= ns) by (unfold ns, next_size; destruct (N.eqb_spec (d_vsize d) 0); lia).
      clearbody ns.
      destruct (resize_ok d ns Hok) as (R1 & R2 & R3 & R4 & R5 & R6 & R7).
      apply conserves_nowrite; cbn [set_buf d_buf d_async d_final d_eofsent]; rewrite ?R1, ?R3, ?R6, ?R7; try reflexivity.
      unfold ok. cbn [set_buf d_buf d_vsize]. rewrite ?R1, ?R2, lenN_app. lia.
    + apply conserves_nowrite; cbn; try reflexivity. unfold ok in *. cbn. rewrite lenN_app.
      assert (lenN chb <= 1) by (subst chb; destruct ch; cbn; lia). lia.
  - pose proof (conserves_write_reset d c chb Hok) as H. cbv zeta in H.
    destruct (dev_write d c _) as [d1 c1]. exact H.
Qed.

Lemma dev_sputc_spec d c ch : ok d -> conserves d c (dev_sputc d c ch) [ch].
Proof.
  intros Hok. unfold dev_sputc. destruct (N.ltb_spec (lenN (d_buf d)) (d_vsize d)) as [Hlt|Hge].
  - apply conserves_nowrite; cbn; try reflexivity. unfold ok. cbn. rewrite lenN_app. cbn. lia.
  - apply (dev_overflow_spec d c (Some ch) Hok).
Qed.
Lemma dev_sync_spec d c : ok d -> conserves d c (dev_sync d c) [].
Proof. intros Hok. apply (dev_overflow_spec d c None Hok). Qed.

Lemma dev_flush_spec d c : ok d -> let r := dev_flush d c in
  tr (snd r) = tr c ++ d_buf d /\ d_buf (fst r) = [] /\ d_vsize (fst r) = d_vsize d /\ d_cap (fst r) = d_cap d /\
  d_full (fst r) = d_full d /\ d_async (fst r) = d_async d /\ d_final (fst r) = d_final d /\
  d_eofsent (fst r) = (d_final d && negb (d_eofsent d)) /\
  eofs (snd r) = eofs c ++ [d_final d && negb (d_eofsent d)].
Proof.
  intros Hok. unfold dev_flush.
  destruct (dev_write_spec d c (gadd [] (d_buf d))) as (A & B & Hb & Hv & Hc & Hfl & Has & Hfi & Hes).
  destruct (dev_write d c _) as [d1 c1]. cbn [fst snd] in *.
  rewrite A, gadd_concat. cbn. fin; assumption.
Qed.

Lemma conserves_flush d c : ok d -> conserves d c (dev_flush d c) [].
Proof.
  intros Hok. destruct (dev_flush_spec d c Hok) as (A & Hb & Hv & Hc & Hfl & Has & Hfi & Hes & B).
  unfold conserves. rewrite A, Hb, !app_nil_r. fin.
  - unfold ok. rewrite Hb. cbn. lia.
  - intros Hf. rewrite Hes, Hf. now right.
  - intros Hf. exists 1%nat. rewrite B, Hf. reflexivity.
Qed.

Lemma conserves_trans d c r1 r2 s1 s2 :
  conserves d c r1 s1 -> conserves (fst r1) (snd r1) r2 s2 -> conserves d c r2 (s1 ++ s2).
Proof.
  intros (A1 & O1 & As1 & F1 & E1 & T1) (A2 & O2 & As2 & F2 & E2 & T2). unfold conserves.
  rewrite A2, app_assoc, A1, <- !app_assoc. fin.
  - congruence.
  - congruence.
  - intros Hf. rewrite F1 in E2. destruct (E2 Hf) as [H|H]; [|now right]. rewrite H. auto.
  - intros Hf. rewrite F1 in T2. destruct (T1 Hf) as [k1 H1]. destruct (T2 Hf) as [k2 H2].
    exists (k1 + k2)%nat. rewrite H2, H1, <- app_assoc, repeat_app. reflexivity.
Qed.

Lemma conserves_setp d c : ok d -> conserves d c (do_setp d, c) [].
Proof.
  intros Hok. unfold do_setp. destruct (resize_ok d (d_cap d) Hok) as (R1 & R2 & R3 & R4 & R5 & R6 & R7).
  (* the put area must still fit: only used where the caller guarantees it *)
Abort.

Lemma basic_setbuf_spec d c size : ok d -> conserves d c (basic_setbuf d c size) [].
Proof.
  intros Hok. unfold basic_setbuf. set (d0 := set_cap d size).
  assert (Hok0 : ok d0) by exact Hok.
  destruct (N.ltb_spec size (lenN (d_buf d0))) as [Hlt|Hge].
  - destruct (dev_flush_spec d0 c Hok0) as (A & Hb & Hv & Hc & Hfl & Has & Hfi & Hes & B).
    destruct (dev_flush d0 c) as [d1 c1]. cbn [fst snd] in *.
    assert (Hok1 : ok d1) by (unfold ok; rewrite Hb; cbn; lia).
    destruct (resize_ok d1 (d_cap d1) Hok1) as (R1 & R2 & R3 & R4 & R5 & R6 & R7).
    unfold conserves, do_setp. cbn [fst snd]. rewrite R1, R3, R6, R7, A, Hb, !app_nil_r. fin.
    + unfold ok. rewrite R1, Hb. cbn. lia.
    + intros Hf. rewrite Hes. change (d_final d0) with (d_final d). rewrite Hf. now right.
    + intros Hf. exists 1%nat. rewrite B. change (d_final d0) with (d_final d). rewrite Hf. reflexivity.
  - destruct (resize_ok d0 (d_cap d0) Hok0) as (R1 & R2 & R3 & R4 & R5 & R6 & R7).
    apply conserves_nowrite; unfold do_setp; rewrite ?R1, ?R3, ?R6, ?R7; try reflexivity.
    + now rewrite app_nil_r.
    + unfold ok. rewrite R1, R2. exact Hge.
Qed.

(* async_io_buf::setbuf in full buffering mode only grows the vector and keeps the put area: no hypothesis about the
   requested size is needed (before /repo commit 00eb9d4 a size below the buffered amount broke the invariant ok) *)
Lemma dev_setbuf_spec d c size : ok d -> conserves d c (dev_setbuf d c size) [].
Proof.
  intros Hok. unfold dev_setbuf. destruct (d_full d) eqn:Ef; [|now apply basic_setbuf_spec].
  set (d0 := set_cap d size).
  assert (Hok0 : ok d0) by exact Hok.
  destruct (N.ltb_spec (d_vsize d0) size) as [Hlt|Hge].
  - destruct (resize_ok d0 size Hok0) as (R1 & R2 & R3 & R4 & R5 & R6 & R7).
    apply conserves_nowrite; rewrite ?R1, ?R3, ?R6, ?R7; try reflexivity.
    + now rewrite app_nil_r.
    + unfold ok. rewrite R1, R2. unfold ok in Hok0. lia.
  - apply conserves_nowrite; try reflexivity; [now rewrite app_nil_r|exact Hok0].
Qed.

Lemma dev_full_spec d c b : ok d -> conserves d c (dev_full d c b) [].
Proof.
  intros Hok. unfold dev_full. destruct (Bool.eqb (d_full d) b).
  - apply conserves_nowrite; try reflexivity; [now rewrite app_nil_r|exact Hok].
  - destruct b.
    + apply conserves_nowrite; try reflexivity; [now rewrite app_nil_r|exact Hok].
    + apply (basic_setbuf_spec (set_fullflag d false) c _ Hok).
Qed.

(* close: the buffered rest is written with eof set, exactly once *)
Lemma dev_close_spec d c : ok d -> d_final d = false -> d_eofsent d = false ->
  let r := dev_close d c in
  tr (snd r) = tr c ++ d_buf d /\ d_buf (fst r) = [] /\ eofs (snd r) = eofs c ++ [true] /\
  d_eofsent (fst r) = true /\ d_final (fst r) = true /\ dev_close (fst r) (snd r) = r.
Proof.
  intros Hok Hf He. unfold dev_close at 1. rewrite He.
  set (d0 := set_eof d true false).
  destruct (dev_flush_spec d0 c Hok) as (A & Hb & Hv & Hc & Hfl & Has & Hfi & Hes & B).
  cbv zeta. change (d_final d0) with true in *. change (d_eofsent d0) with false in *. change (d_buf d0) with (d_buf d) in *.
  cbn [andb negb] in *. repeat split; try assumption.
Qed.

(* ---------------------------------------------------------------- device_conservation over operation sequences *)
Inductive dop := DSputn (s : bytes) | DSputc (x : N) | DSync | DSetbuf (n : N) | DFull (b : bool) | DFlush.
Definition dstep (d : dev) (c : conn) (o : dop) : dev * conn :=
  match o with
  | DSputn s => dev_xsputn d c s
  | DSputc x => dev_sputc d c x
  | DSync => dev_sync d c
  | DSetbuf n => dev_setbuf d c n
  | DFull b => dev_full d c b
  | DFlush => dev_flush d c
  end.
Definition dbytes (o : dop) : bytes := match o with DSputn s => s | DSputc x => [x] | _ => [] end.
Fixpoint drun (d : dev) (c : conn) (ops : list dop) : dev * conn :=
  match ops with [] => (d, c) | o :: t => let (d1, c1) := dstep d c o in drun d1 c1 t end.

Lemma dstep_spec d c o : ok d -> conserves d c (dstep d c o) (dbytes o).
Proof.
  intros Hok. destruct o; cbn [dstep dbytes].
  - now apply dev_xsputn_spec.
  - now apply dev_sputc_spec.
  - now apply dev_sync_spec.
  - now apply dev_setbuf_spec.
  - now apply dev_full_spec.
  - now apply conserves_flush.
Qed.

Lemma drun_spec : forall ops d c, ok d ->
  conserves d c (drun d c ops) (concat (map dbytes ops)).
Proof.
  induction ops as [|o t IH]; intros d c Hok.
  - cbn. apply conserves_nowrite; try reflexivity; [now rewrite app_nil_r|exact Hok].
  - cbn [drun map concat] in *.
    pose proof (dstep_spec d c o Hok) as H1.
    destruct (dstep d c o) as [d1 c1] eqn:E.
    assert (Hok1 : ok d1) by (destruct H1 as (_ & O & _); exact O).
    specialize (IH d1 c1 Hok1).
    eapply conserves_trans; [exact H1|exact IH].
Qed.

(* device_conservation: open, ANY sequence of operations, close *)
Lemma device_conservation_lemma : forall ops async cap c,
  let d0 := dev_open (new_dev async) cap in
  let (d1, c1) := drun d0 c ops in
  let (d2, c2) := dev_close d1 c1 in
  tr c2 = tr c ++ concat (map dbytes ops) /\ d_buf d2 = [] /\
  (exists k, eofs c2 = eofs c ++ repeat false k ++ [true]) /\
  dev_close d2 c2 = (d2, c2).
Proof.
  intros ops async cap c d0.
  assert (Hok0 : ok d0).
  { unfold d0, dev_open, do_setp. assert (O : ok (set_cap (new_dev async) cap)) by (unfold ok; cbn; lia).
    destruct (resize_ok _ (d_cap (set_cap (new_dev async) cap)) O) as (R1 & R2 & _). unfold ok. rewrite R1, R2. cbn. lia. }
  assert (Hf0 : d_final d0 = false /\ d_eofsent d0 = false /\ d_buf d0 = []).
  { unfold d0, dev_open, do_setp. assert (O : ok (set_cap (new_dev async) cap)) by (unfold ok; cbn; lia).
    destruct (resize_ok _ (d_cap (set_cap (new_dev async) cap)) O) as (R1 & R2 & R3 & R4 & R5 & R6 & R7).
    rewrite R1, R6, R7. auto. }
  destruct Hf0 as (Hf0 & He0 & Hb0).
  pose proof (drun_spec ops d0 c Hok0) as H.
  destruct (drun d0 c ops) as [d1 c1]. destruct H as (A & O1 & _ & F1 & E1 & T1). cbn [fst snd] in *.
  rewrite Hf0 in F1. specialize (E1 Hf0). specialize (T1 Hf0). rewrite He0 in E1.
  assert (He1 : d_eofsent d1 = false) by (destruct E1; assumption).
  pose proof (dev_close_spec d1 c1 O1 F1 He1) as H. cbv zeta in H.
  destruct (dev_close d1 c1) as [d2 c2]. cbn [fst snd] in H.
  destruct H as (A2 & B2 & X2 & _ & _ & I2). destruct T1 as [k Hk].
  rewrite A2, A, Hb0. cbn [app]. fin.
  exists k. rewrite X2, Hk, <- app_assoc. reflexivity.
Qed.
