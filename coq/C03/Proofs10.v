(* C03 proofs, part 10: a synchronous response without an application-declared Content-Length never puts the
   connection into the error state, provided the blocking socket never reports would-block (every schedule entry
   is positive: each write_some on a non-empty buffer accepts at least one byte).  This discharges the hypothesis
   k_err = false of the end-to-end theorems for synchronous responses: blocking-loop liveness.
   Ingredients: gather buffers handed down never contain an empty entry (so the socket is always offered at least
   one byte), the write_to_socket loop has enough fuel, format_output does not fail. *)
From CppcmsV Require Import Base.Tac C03.Defs C03.Proofs C03.Proofs2 C03.Proofs3 C03.Proofs4 C03.Proofs5 C03.Proofs6 C03.Proofs7 C03.Proofs8.
Local Open Scope N_scope.

Definition gne (g : gather) : Prop := Forall (fun e : bytes => e <> []) g.
Definition spos (s : list N) : Prop := Forall (fun k => 0 < k) s.

Lemma lenN_pos_ne {A} (l : list A) : 0 < lenN l -> l <> [].
Proof. intros H E. subst. cbn in H. lia. Qed.
Lemma ne_lenN_pos {A} (l : list A) : l <> [] -> 0 < lenN l.
Proof. destruct l; [contradiction|]. intros _. unfold lenN. cbn [length]. lia. Qed.
Lemma app_ne_r {A} (a b : list A) : b <> [] -> a ++ b <> [].
Proof. intros H E. apply app_eq_nil in E. tauto. Qed.
Lemma gne_one e : e <> [] -> gne [e].
Proof. intros H. constructor; [exact H|constructor]. Qed.
Lemma gne_app a b : gne a -> gne b -> gne (a ++ b).
Proof. intros Ha Hb. apply Forall_app. split; assumption. Qed.

Lemma gne_gadd g e : gne g -> gne (gadd g e).
Proof. intros H. unfold gadd. destruct e; [exact H|]. apply gne_app; [exact H|]. apply gne_one. discriminate. Qed.

Lemma gne_gdrop : forall g n, gne g -> gne (gdrop n g).
Proof.
  induction g as [|e r IH]; intros n H; cbn [gdrop]; [constructor|].
  inversion H as [|? ? He Hr]; subst.
  destruct (N.eqb_spec n 0); [exact H|].
  destruct (N.leb_spec (lenN e) n) as [Hl|Hl]; [now apply IH|].
  constructor; [|exact Hr]. apply lenN_pos_ne. rewrite lenN_dropN. lia.
Qed.

Lemma gne_gtake : forall g n t rest, gne g -> gtake n g = (t, rest) -> gne t /\ gne rest.
Proof.
  induction g as [|e r IH]; intros n t rest H; cbn [gtake].
  - intros [= <- <-]. split; constructor.
  - inversion H as [|? ? He Hr]; subst.
    destruct (N.eqb_spec n 0) as [->|Hn].
    + intros [= <- <-]. split; [constructor|exact H].
    + destruct (N.leb_spec (lenN e) n) as [Hl|Hl].
      * destruct (gtake (n - lenN e) r) as [t1 rest1] eqn:E. intros [= <- <-].
        destruct (IH _ _ _ Hr E) as [H1 H2]. split; [constructor; assumption|exact H2].
      * intros [= <- <-]. split.
        -- apply gne_one. apply lenN_pos_ne. rewrite lenN_takeN by lia. lia.
        -- constructor; [|exact Hr]. apply lenN_pos_ne. rewrite lenN_dropN. lia.
Qed.

Lemma offered_pos g : gne g -> g <> [] -> 0 < lenN (offered g).
Proof.
  intros H Hn. destruct g as [|e r]; [contradiction|]. inversion H as [|? ? He Hr]; subst.
  unfold offered, max_vec. cbn [firstn concat]. rewrite lenN_app. pose proof (ne_lenN_pos e He). lia.
Qed.

(* ---------------------------------------------------------------- the write_to_socket loop terminates without error *)
Lemma write_all_noerr : forall fuel c g, gne g -> spos (k_sched c) -> k_err c = false -> gsize g < N.of_nat fuel ->
  k_err (write_all fuel c g) = false /\ spos (k_sched (write_all fuel c g)).
Proof.
  induction fuel as [|f IH]; intros c g Hg Hs He Hf; destruct g as [|e r]; cbn [write_all]; try (split; assumption).
  - cbn in Hf. lia.
  - destruct (write_some c (e :: r)) as [n c1] eqn:EW.
    pose proof (offered_pos (e :: r) Hg ltac:(discriminate)) as Hoff.
    assert (Hn : 0 < n /\ k_sched c1 = tl (k_sched c) /\ k_err c1 = k_err c).
    { unfold write_some in EW. injection EW as <- <-. cbn [k_sched set_sock k_err].
      split; [|split; reflexivity].
      revert Hs. destruct (k_sched c) as [|k s]; intros Hs; [exact Hoff|]. inversion Hs; subst. apply N.min_glb_lt; assumption. }
    destruct Hn as (Hn0 & Hsc & Her).
    destruct (N.eqb_spec n 0) as [E|E]; [lia|].
    apply IH.
    + now apply gne_gdrop.
    + rewrite Hsc. revert Hs. destruct (k_sched c); intros Hs; [constructor|]. inversion Hs; assumption.
    + congruence.
    + pose proof (offered_le (e :: r)) as Hle. unfold gsize in *. rewrite gdrop_concat, lenN_dropN. rewrite Nat2N.inj_succ in Hf. lia.
Qed.

(* ---------------------------------------------------------------- format_output never produces an empty gather entry *)
Lemma gne_chunk_wrap g e : gne g -> gne (chunk_wrap g e).
Proof.
  intros H. unfold chunk_wrap. destruct (gsize g =? 0).
  - destruct e; [apply gne_one; unfold ZERO_CHUNK; discriminate|constructor].
  - apply gne_app; [apply gne_one; apply app_ne_r; unfold CRLF; discriminate|].
    apply gne_app; [exact H|]. apply gne_one. destruct e; unfold CRLF, ZERO_CHUNK; discriminate.
Qed.

Lemma gne_fcgi_records : forall fuel rid rem g, gne g -> gne (fcgi_records fuel rid rem g).
Proof.
  induction fuel as [|f IH]; intros rid rem g H; cbn [fcgi_records]; [constructor|].
  destruct (rem =? 0); [constructor|].
  destruct (max_packet_len <? rem).
  - destruct (gtake max_packet_len g) as [t rest] eqn:E. destruct (gne_gtake _ _ _ _ H E) as [Ht Hr].
    apply gne_app; [apply gne_one; unfold fcgi_header; discriminate|].
    apply gne_app; [exact Ht|]. apply gne_app; [apply gne_one; cbv; discriminate|]. now apply IH.
  - destruct (gtake rem g) as [t rest] eqn:E. destruct (gne_gtake _ _ _ _ H E) as [Ht Hr].
    apply gne_gadd. apply gne_app; [apply gne_one; unfold fcgi_header; discriminate|exact Ht].
Qed.
Lemma gne_fcgi_frame rid g e : gne g -> gne (fcgi_frame rid g e).
Proof.
  intros H. unfold fcgi_frame. apply gne_app; [now apply gne_fcgi_records|].
  destruct e; [apply gne_one; unfold fcgi_eof, fcgi_header; discriminate|constructor].
Qed.

Lemma gne_format f g e : gne g -> gne (snd (fst (format_output f g e))).
Proof.
  intros H. unfold format_output. destruct (f_proto f).
  - unfold http_format. destruct (f_hdr_done f).
    + destruct (f_chunked f); cbn [fst snd]; [now apply gne_chunk_wrap|exact H].
    + destruct (http_head f g e) as [[[h3 ocl] ka] chunked] eqn:EH.
      assert (Hh : h3 <> []).
      { unfold http_head in EH. destruct (f_ocl f) as [l|]; [|destruct e]; cbv beta iota zeta in EH;
          injection EH as <- _ _ _; apply app_ne_r; apply app_ne_r; unfold CRLF; discriminate. }
      destruct chunked; cbn [fst snd]; (apply gne_app; [apply gne_one; exact Hh|]); [now apply gne_chunk_wrap|exact H].
  - unfold scgi_format. destruct (f_hdr_done f); cbn [fst snd]; [exact H|].
    apply gne_app; [apply gne_gadd; constructor|exact H].
  - unfold fcgi_format. cbn [fst snd]. apply gne_fcgi_frame.
    destruct (f_hdr_done f); [exact H|]. apply gne_app; [apply gne_gadd; constructor|exact H].
Qed.

(* ---------------------------------------------------------------- blocking write *)
Lemma blocking_write_noerr c g e f1 nd :
  k_err c = false -> format_output (k_fmt c) g e = (f1, nd, false) -> gne g -> spos (k_sched c) -> k_pending c = [] ->
  k_err (blocking_write c g e) = false /\ spos (k_sched (blocking_write c g e)).
Proof.
  intros He Hf Hg Hs Hp.
  pose proof (gne_format (k_fmt c) g e Hg) as Hnd. rewrite Hf in Hnd. cbn [fst snd] in Hnd.
  unfold blocking_write. rewrite He, Hf. cbv beta iota zeta.
  unfold with_pending. cbn [with_fmt k_pending]. rewrite Hp.
  destruct nd as [|o1 orest]; [split; assumption|].
  cbn [set_pending k_err k_sched].
  apply write_all_noerr; try assumption.
  rewrite Nat2N.inj_succ, Nat2N.inj_add, N2Nat.id. lia.
Qed.

(* the invariant carried along a synchronous response *)
Definition NEs (Q Q' : fmt -> Prop) (c c' : conn) : Prop :=
  k_err c = false -> Q (k_fmt c) -> spos (k_sched c) -> k_pending c = [] ->
  k_err c' = false /\ Q' (k_fmt c') /\ spos (k_sched c') /\ k_pending c' = [].

Lemma NEs_refl (Q : fmt -> Prop) c : NEs Q Q c c.
Proof. intros H1 H2 H3 H4. auto. Qed.
Lemma NEs_trans (Q1 Q2 Q3 : fmt -> Prop) a b c : NEs Q1 Q2 a b -> NEs Q2 Q3 b c -> NEs Q1 Q3 a c.
Proof. intros H1 H2 He Hq Hs Hp. destruct (H1 He Hq Hs Hp) as (A & B & C & D). now apply H2. Qed.

Lemma NEs_bl (Q Q' : fmt -> Prop) c g e : gne g ->
  (forall f, Q f -> exists f1 nd, format_output f g e = (f1, nd, false) /\ Q' f1) ->
  NEs Q Q' c (blocking_write (add_trace c g e) g e).
Proof.
  intros Hg HL He Hq Hs Hp. destruct (HL _ Hq) as (f1 & nd & Hf & Hq1).
  set (c0 := add_trace c g e).
  assert (He0 : k_err c0 = false) by exact He.
  assert (Hf0 : format_output (k_fmt c0) g e = (f1, nd, false)) by exact Hf.
  assert (Hs0 : spos (k_sched c0)) by exact Hs.
  assert (Hp0 : k_pending c0 = []) by exact Hp.
  destruct (blocking_write_noerr c0 g e f1 nd He0 Hf0 Hg Hs0 Hp0) as [A B].
  pose proof (blocking_write_spec c0 g e f1 nd He0 Hf0) as H. cbv zeta in H. destruct (H A) as (_ & P & F & _).
  rewrite F. auto.
Qed.

(* ---------------------------------------------------------------- the synchronous device *)
Definition sdev (d : dev) : Prop := d_async d = false /\ d_final d = false.

Lemma NEs_dev_write d c g : sdev d -> gne g -> NEs P1 P1 c (snd (dev_write d c g)).
Proof.
  intros [Ha Hf] Hg. unfold dev_write, do_write. cbn [snd]. rewrite Ha, Hf. cbn [andb].
  apply NEs_bl; [exact Hg|]. intros f. apply fmt_L1.
Qed.

Ltac nes_write :=
  match goal with
  | |- context[dev_write ?d ?c ?g] =>
      let H := fresh "H" in
      assert (H : NEs P1 P1 c (snd (dev_write d c g))) by (apply NEs_dev_write; [assumption|repeat apply gne_gadd; constructor]);
      destruct (dev_write d c g); cbn [fst snd] in *; exact H
  end.

Lemma NEs_dev_xsputn d c s : sdev d -> NEs P1 P1 c (snd (dev_xsputn d c s)).
Proof.
  intros Hd. unfold dev_xsputn. destruct (d_full d).
  - destruct (_ <? _); apply NEs_refl.
  - destruct (_ <=? _); [apply NEs_refl|]. nes_write.
Qed.
Lemma NEs_dev_overflow d c ch : sdev d -> NEs P1 P1 c (snd (dev_overflow d c ch)).
Proof. intros Hd. unfold dev_overflow. destruct (d_full d); [apply NEs_refl|]. nes_write. Qed.
Lemma NEs_dev_sputc d c ch : sdev d -> NEs P1 P1 c (snd (dev_sputc d c ch)).
Proof. intros Hd. unfold dev_sputc. destruct (_ <? _); [apply NEs_refl|now apply NEs_dev_overflow]. Qed.
Lemma NEs_dev_sync d c : sdev d -> NEs P1 P1 c (snd (dev_sync d c)).
Proof. intros Hd. now apply NEs_dev_overflow. Qed.
Lemma NEs_dev_flush d c : sdev d -> NEs P1 P1 c (snd (dev_flush d c)).
Proof. intros Hd. unfold dev_flush. nes_write. Qed.
Lemma NEs_basic_setbuf d c n : sdev d -> NEs P1 P1 c (snd (basic_setbuf d c n)).
Proof.
  intros Hd. unfold basic_setbuf. destruct (_ <? _); [|apply NEs_refl].
  pose proof (NEs_dev_flush (set_cap d n) c Hd) as H. destruct (dev_flush (set_cap d n) c). exact H.
Qed.
Lemma NEs_dev_setbuf d c n : sdev d -> NEs P1 P1 c (snd (dev_setbuf d c n)).
Proof. intros Hd. unfold dev_setbuf. destruct (d_full d); [apply NEs_refl|now apply NEs_basic_setbuf]. Qed.

(* copy_buf *)
Lemma side_sdev d c d' c' : sdev d -> side d c d' c' -> sdev d'.
Proof. intros [A F] (_ & A' & F' & _). split; congruence. Qed.

Lemma NEs_cpy_overflow y d c ch : ok d -> sdev d -> NEs P1 P1 c (snd (cpy_overflow y d c ch)).
Proof.
  intros Hok Hd. unfold cpy_overflow.
  assert (H : NEs P1 P1 c (snd (match c_unsent y with [] => (d, c) | u => dev_xsputn d c u end))).
  { destruct (c_unsent y); [apply NEs_refl|now apply NEs_dev_xsputn]. }
  destruct (match c_unsent y with [] => (d, c) | u => dev_xsputn d c u end) as [d1 c1]. cbn [snd] in H.
  destruct (if c_size y =? 0 then _ else _). destruct ch; exact H.
Qed.

Lemma NEs_cpy_xsputn : forall fuel y d c s, ok d -> sdev d -> NEs P1 P1 c (snd (cpy_xsputn fuel y d c s)).
Proof.
  induction fuel as [|f IH]; intros y d c s Hok Hd; [apply NEs_refl|].
  cbn [cpy_xsputn]. set (k := N.min (c_room y) (lenN s)).
  set (y1 := mkCpy _ _ _ _). destruct (dropN k s) as [|x r]; [apply NEs_refl|].
  pose proof (cpy_overflow_cons y1 d c (Some x) Hok) as HO. pose proof (NEs_cpy_overflow y1 d c (Some x) Hok Hd) as HN.
  destruct (cpy_overflow y1 d c (Some x)) as [[y2 d2] c2]. cbn [snd] in HN.
  destruct HO as (_ & S & _). eapply NEs_trans; [exact HN|].
  apply IH; [destruct S as (O & _); exact O|eapply side_sdev; eassumption].
Qed.
Lemma NEs_cpy_sputc y d c ch : ok d -> sdev d -> NEs P1 P1 c (snd (cpy_sputc y d c ch)).
Proof. intros Hok Hd. unfold cpy_sputc. destruct (0 <? c_room y); [apply NEs_refl|now apply NEs_cpy_overflow]. Qed.
Lemma NEs_cpy_sync y d c : ok d -> sdev d -> NEs P1 P1 c (snd (cpy_sync y d c)).
Proof.
  intros Hok Hd. unfold cpy_sync.
  pose proof (cpy_overflow_cons y d c None Hok) as HO. pose proof (NEs_cpy_overflow y d c None Hok Hd) as HN.
  destruct (cpy_overflow y d c None) as [[y1 d1] c1]. cbn [snd] in HN. destruct HO as (_ & S & _).
  assert (Hd1 : sdev d1) by (eapply side_sdev; eassumption).
  pose proof (NEs_dev_sync d1 c1 Hd1) as H2. destruct (dev_sync d1 c1). cbn [snd] in *. eapply NEs_trans; eassumption.
Qed.

(* ---------------------------------------------------------------- script steps (after out(), synchronous) *)
Lemma post_sdev f0 body r c : Post f0 false body r c -> sdev (r_dev r).
Proof. intros HP. split; [exact (p_async _ _ _ _ _ HP)|exact (p_final _ _ _ _ _ HP)]. Qed.

Lemma NEs_put_all f0 : forall s body r c, Post f0 false body r c -> NEs P1 P1 c (snd (put_all resp_putc r c s)).
Proof.
  induction s as [|x s IH]; intros body r c HP; cbn [put_all]; [apply NEs_refl|].
  assert (H1 : NEs P1 P1 c (snd (resp_putc r c x))).
  { unfold resp_putc. destruct (r_copy_on r).
    - pose proof (NEs_cpy_sputc (r_cpy r) (r_dev r) c x (p_ok _ _ _ _ _ HP) (post_sdev _ _ _ _ HP)) as H.
      destruct (cpy_sputc _ _ _ _) as [[y d] c1]. exact H.
    - pose proof (NEs_dev_sputc (r_dev r) c x (post_sdev _ _ _ _ HP)) as H. destruct (dev_sputc _ _ _). exact H. }
  pose proof (step_post f0 false body r c (OPut [x]) HP) as HS. cbv zeta in HS. cbn [step put_all obytes] in HS.
  rewrite (resp_out_done r c (p_out _ _ _ _ _ HP)) in HS.
  destruct (resp_putc r c x) as [r1 c1]. cbn [fst snd] in *.
  eapply NEs_trans; [exact H1|]. eapply IH. exact HS.
Qed.

Lemma NEs_step f0 body r c o : Post f0 false body r c -> NEs P1 P1 c (snd (step r c o)).
Proof.
  intros HP. pose proof (p_out _ _ _ _ _ HP) as Ho. pose proof (p_ok _ _ _ _ _ HP) as Hk. pose proof (post_sdev _ _ _ _ HP) as Hd.
  destruct o; cbn [step]; rewrite ?resp_out_done by exact Ho.
  - destruct (r_copy_on r).
    + pose proof (NEs_cpy_xsputn (S (length s)) (r_cpy r) (r_dev r) c s Hk Hd) as H. destruct (cpy_xsputn _ _ _ _ _) as [[y d] c1]. exact H.
    + pose proof (NEs_dev_xsputn (r_dev r) c s Hd) as H. destruct (dev_xsputn _ _ _). exact H.
  - eapply NEs_put_all. exact HP.
  - destruct (r_copy_on r).
    + pose proof (NEs_cpy_sync (r_cpy r) (r_dev r) c Hk Hd) as H. destruct (cpy_sync _ _ _) as [[y d] c1]. exact H.
    + pose proof (NEs_dev_sync (r_dev r) c Hd) as H. destruct (dev_sync _ _). exact H.
  - rewrite Ho. pose proof (NEs_dev_setbuf (r_dev r) c (if neg then r_defbuf r else n) Hd) as H. destruct (dev_setbuf _ _ _). exact H.
  - rewrite (proj1 Hd). apply NEs_refl.
  - apply NEs_refl.
  - apply NEs_refl.
  - apply NEs_refl.
  - rewrite (proj1 Hd). apply NEs_refl.
Qed.

Lemma NEs_run_ops f0 : forall ops body r c, Post f0 false body r c -> NEs P1 P1 c (snd (run_ops r c ops)).
Proof.
  induction ops as [|o t IH]; intros body r c HP; cbn [run_ops]; [apply NEs_refl|].
  pose proof (NEs_step f0 body r c o HP) as HN.
  pose proof (step_post f0 false body r c o HP) as HS. cbv zeta in HS.
  destruct (step r c o) as [r1 c1]. cbn [fst snd] in *.
  eapply NEs_trans; [exact HN|]. eapply IH; eassumption.
Qed.

(* finalize + complete_response: the completing blocking write *)
Lemma NEs_finish f0 body r c : Post f0 false body r c -> NEs P1 P2 c (snd (finish r c)).
Proof.
  intros HP. pose proof HP as [Po PJ Pd Pk Pa Pf Pe Pt Pc]. pose proof (post_sdev _ _ _ _ HP) as Hd.
  unfold finish. rewrite (resp_out_done r c Po).
  assert (H1 : exists y d1 c2, (if r_copy_on r then cpy_overflow (r_cpy r) (r_dev r) c None else (r_cpy r, r_dev r, c)) = (y, d1, c2) /\
               NEs P1 P1 c c2 /\ ok d1 /\ sdev d1 /\ d_eofsent d1 = false).
  { destruct (r_copy_on r).
    - pose proof (cpy_overflow_cons (r_cpy r) (r_dev r) c None Pk) as HO. pose proof (NEs_cpy_overflow (r_cpy r) (r_dev r) c None Pk Hd) as HN.
      destruct (cpy_overflow (r_cpy r) (r_dev r) c None) as [[y d1] c2]. exists y, d1, c2. cbn [snd] in HN.
      destruct HO as (_ & S & _). split; [reflexivity|]. split; [exact HN|]. pose proof S as (O & _ & _ & E & _).
      split; [exact O|]. split; [eapply side_sdev; eassumption|]. now apply E.
    - exists (r_cpy r), (r_dev r), c. split; [reflexivity|]. split; [apply NEs_refl|]. auto. }
  destruct H1 as (y & d1 & c2 & E1 & N1 & O1 & [A1 F1] & Es1). rewrite E1.
  assert (N2 : NEs P1 P2 c2 (snd (dev_close d1 c2))).
  { unfold dev_close. rewrite Es1. unfold dev_flush, dev_write, do_write. cbn [snd set_eof d_async d_final d_eofsent d_buf]. rewrite A1.
    cbn [andb negb]. apply NEs_bl; [apply gne_gadd; constructor|]. intros f. apply fmt_L2. }
  assert (Has : d_async (fst (dev_close d1 c2)) = false).
  { unfold dev_close. rewrite Es1. destruct (dev_flush_spec (set_eof d1 true false) c2 O1) as (_ & _ & _ & _ & _ & A & _). rewrite A. exact A1. }
  destruct (dev_close d1 c2) as [d2 c3]. cbn [fst snd] in *. rewrite Has. cbn [snd].
  eapply NEs_trans; [exact N1|exact N2].
Qed.

(* ---------------------------------------------------------------- the whole synchronous request *)
Lemma whole_noerr_sync : forall ops r c,
  PreI false r -> k_err c = false -> k_trace c = [] -> sent c = [] -> spos (k_sched c) -> k_pending c = [] ->
  no_declared_length c (hdrs_at_out (r_hdrs r) ops) ->
  k_err (snd (whole r c ops)) = false.
Proof.
  induction ops as [|o t IH]; intros r c HPre He Ht Hs Hsp Hpe Hn.
  - cbn [hdrs_at_out] in Hn. unfold whole. cbn [run_ops]. rewrite finish_out.
    pose proof (out_post false r c HPre He Ht Hs) as HP. cbv zeta in HP.
    pose proof (NEs_finish _ _ _ _ HP) as HN.
    assert (E0 : k_err (snd (resp_out r c)) = false /\ P1 (k_fmt (snd (resp_out r c))) /\
                 spos (k_sched (snd (resp_out r c))) /\ k_pending (snd (resp_out r c)) = []).
    { unfold resp_out. rewrite (q_out _ _ HPre). cbn [snd with_fmt k_err k_fmt k_sched k_pending].
      split; [exact He|]. split; [now apply P1_out|]. split; assumption. }
    destruct E0 as (E0 & Q0 & S0 & G0). now destruct (HN E0 Q0 S0 G0).
  - cbn [hdrs_at_out] in Hn. destruct (is_output o) eqn:EO.
    + pose proof (out_post false r c HPre He Ht Hs) as HP. cbv zeta in HP.
      unfold whole. cbn [run_ops]. rewrite (step_out r c o EO).
      set (r1 := fst (resp_out r c)) in *. set (c1 := snd (resp_out r c)) in *.
      assert (E0 : k_err c1 = false /\ P1 (k_fmt c1) /\ spos (k_sched c1) /\ k_pending c1 = []).
      { unfold c1, resp_out. rewrite (q_out _ _ HPre). cbn [snd with_fmt k_err k_fmt k_sched k_pending].
        split; [exact He|]. split; [now apply P1_out|]. split; assumption. }
      destruct E0 as (E0 & Q0 & S0 & G0).
      pose proof (NEs_run_ops _ (o :: t) [] r1 c1 HP) as HN1.
      pose proof (run_ops_post _ false (o :: t) [] r1 c1 HP) as HR. cbv zeta in HR. cbn [run_ops] in HR, HN1.
      destruct (step r1 c1 o) as [r2 c2]. destruct (run_ops r2 c2 t) as [r3 c3]. cbn [fst snd] in *.
      destruct (HN1 E0 Q0 S0 G0) as (E3 & Q3 & S3 & G3).
      pose proof (NEs_finish _ _ _ _ HR) as HN2. now destruct (HN2 E3 Q3 S3 G3).
    + destruct (pre_step false r c o HPre EO) as (r' & Es & HPre' & Hh & Hv & Hdef).
      unfold whole. cbn [run_ops]. rewrite Es.
      apply (IH r' c HPre' He Ht Hs Hsp Hpe). now rewrite Hh.
Qed.

Lemma sync_noerr base defbuf version c ops :
  fresh c -> spos (k_sched c) -> no_declared_length c (hdrs_at_out base ops) ->
  k_err (fst (run_request false base defbuf version c ops)) = false.
Proof.
  intros (He & Ht & Hw & Hp) Hsp Hn. rewrite run_request_whole. cbn [fst].
  apply whole_noerr_sync; auto.
  - apply pre_new.
  - unfold sent, wire_bytes. now rewrite Hw, Hp.
Qed.

(* end-to-end statements for synchronous responses on a socket that never reports would-block: no error hypothesis *)
Lemma sync_scgi_live base defbuf version c ops :
  fresh c -> spos (k_sched c) -> f_proto (k_fmt c) = Scgi ->
  wire_bytes (fst (run_request false base defbuf version c ops)) = format_cgi_headers (hdrs_at_out base ops) ++ script_body ops.
Proof.
  intros Hf Hs Hp. apply scgi_exact; auto. apply sync_noerr; auto. intros E. congruence.
Qed.
Lemma sync_fcgi_live base defbuf version c ops rest :
  fresh c -> spos (k_sched c) -> f_proto (k_fmt c) = Fcgi ->
  exists fuel0, forall fuel, (fuel0 <= fuel)%nat ->
  unrecord fuel (f_reqid (k_fmt c)) (wire_bytes (fst (run_request false base defbuf version c ops)) ++ rest) =
  Some (format_cgi_headers (hdrs_at_out base ops) ++ script_body ops, rest).
Proof.
  intros Hf Hs Hp. apply fcgi_exact; auto. apply sync_noerr; auto. intros E. congruence.
Qed.
Lemma sync_http_live base defbuf version c ops :
  fresh c -> spos (k_sched c) -> f_proto (k_fmt c) = Http -> hmap_get (h_map (hdrs_at_out base ops)) CONTENT_LENGTH = [] ->
  http_wire (format_http_headers (hdrs_at_out base ops) version) (f_server (k_fmt c)) (script_body ops)
            (wire_bytes (fst (run_request false base defbuf version c ops))) /\
  k_pending (fst (run_request false base defbuf version c ops)) = [].
Proof.
  intros Hf Hs Hp Hcl.
  assert (Hok : k_err (fst (run_request false base defbuf version c ops)) = false) by (apply sync_noerr; auto; intros _; exact Hcl).
  split; [apply http_exact; auto|].
  destruct (response_exact_lemma false base defbuf version c ops Hf Hok) as (_ & P & _). exact P.
Qed.
