(* C03 proofs: the response header map (private/response_headers.h: std::map<string,string,icompare>) as modelled by
   hmap_set / hmap_get: keys stay strictly sorted (hence unique up to case), the last value set for a name wins, other
   names are untouched, an empty value erases; every entry of the map is one line of the header block. *)
From Coq Require Import Sorting.Sorted.
From CppcmsV Require Import Base.Tac C03.Defs C03.Proofs C03.Proofs2 C03.Proofs3 C03.Proofs4 C03.Proofs5 C03.Proofs6.
Local Open Scope N_scope.

(* ---------------------------------------------------------------- ci_compare is a strict total order on lower-cased names *)
Definition lname (k : bytes) : bytes := map lower k.

Lemma ci_refl : forall a, ci_compare a a = Eq.
Proof. induction a as [|x a IH]; cbn [ci_compare]; [reflexivity|]. rewrite N.ltb_irrefl. exact IH. Qed.

Lemma ci_eq_iff : forall a b, ci_compare a b = Eq <-> lname a = lname b.
Proof.
  induction a as [|x a IH]; destruct b as [|y b]; cbn [ci_compare lname map]; split; intros H; try reflexivity; try discriminate.
  - destruct (N.ltb_spec (lower x) (lower y)); [discriminate|]. destruct (N.ltb_spec (lower y) (lower x)); [discriminate|].
    f_equal; [lia|]. now apply IH.
  - injection H as H1 H2. rewrite H1, N.ltb_irrefl. now apply IH.
Qed.

Lemma ci_lt_gt : forall a b, ci_compare a b = Lt <-> ci_compare b a = Gt.
Proof.
  induction a as [|x a IH]; destruct b as [|y b]; cbn [ci_compare]; split; intros H; try reflexivity; try discriminate.
  - destruct (N.ltb_spec (lower x) (lower y)) as [L|L].
    + destruct (N.ltb_spec (lower y) (lower x)); [lia|reflexivity].
    + destruct (N.ltb_spec (lower y) (lower x)); [discriminate|]. now apply IH.
  - destruct (N.ltb_spec (lower y) (lower x)) as [L|L].
    + destruct (N.ltb_spec (lower x) (lower y)); [reflexivity|discriminate].
    + destruct (N.ltb_spec (lower x) (lower y)); [reflexivity|]. now apply IH.
Qed.

Lemma ci_lt_trans : forall a b c, ci_compare a b = Lt -> ci_compare b c = Lt -> ci_compare a c = Lt.
Proof.
  induction a as [|x a IH]; intros b c; destruct b as [|y b]; destruct c as [|z c]; cbn [ci_compare]; try discriminate; try reflexivity.
  destruct (N.ltb_spec (lower x) (lower y)) as [L1|L1].
  - intros _. destruct (N.ltb_spec (lower y) (lower z)) as [L2|L2].
    + intros _. destruct (N.ltb_spec (lower x) (lower z)); [reflexivity|lia].
    + destruct (N.ltb_spec (lower z) (lower y)); [discriminate|]. intros _.
      destruct (N.ltb_spec (lower x) (lower z)); [reflexivity|lia].
  - destruct (N.ltb_spec (lower y) (lower x)); [discriminate|]. intros H1.
    destruct (N.ltb_spec (lower y) (lower z)) as [L2|L2].
    + intros _. destruct (N.ltb_spec (lower x) (lower z)); [reflexivity|lia].
    + destruct (N.ltb_spec (lower z) (lower y)); [discriminate|]. intros H2.
      destruct (N.ltb_spec (lower x) (lower z)); [reflexivity|]. destruct (N.ltb_spec (lower z) (lower x)); [lia|].
      eapply IH; eassumption.
Qed.

(* equal names (up to case) compare alike against everything *)
Lemma ci_eq_cong_l a a' b : ci_compare a a' = Eq -> ci_compare a b = ci_compare a' b.
Proof.
  revert a' b. induction a as [|x a IH]; intros a' b H; destruct a' as [|x' a']; cbn [ci_compare] in H; try discriminate; [reflexivity|].
  destruct (N.ltb_spec (lower x) (lower x')); [discriminate|]. destruct (N.ltb_spec (lower x') (lower x)); [discriminate|].
  assert (E : lower x = lower x') by lia. destruct b as [|y b]; cbn [ci_compare]; [reflexivity|]. rewrite E.
  destruct (lower x' <? lower y); [reflexivity|]. destruct (lower y <? lower x'); [reflexivity|]. now apply IH.
Qed.
Lemma ci_eq_sym a b : ci_compare a b = Eq -> ci_compare b a = Eq.
Proof. intros H. apply ci_eq_iff. symmetry. now apply ci_eq_iff. Qed.
Lemma ci_flip : forall a b, ci_compare a b = match ci_compare b a with Lt => Gt | Eq => Eq | Gt => Lt end.
Proof.
  induction a as [|x a IH]; destruct b as [|y b]; cbn [ci_compare]; try reflexivity.
  destruct (N.ltb_spec (lower x) (lower y)) as [L|L]; destruct (N.ltb_spec (lower y) (lower x)) as [M|M]; try reflexivity; try lia.
  apply IH.
Qed.
Lemma ci_eq_cong_r a b b' : ci_compare b b' = Eq -> ci_compare a b = ci_compare a b'.
Proof. intros H. rewrite (ci_flip a b), (ci_flip a b'), (ci_eq_cong_l b b' a H). reflexivity. Qed.

(* ---------------------------------------------------------------- the map: strictly sorted keys *)
Definition klt (a b : bytes * bytes) : Prop := ci_compare (fst a) (fst b) = Lt.
Definition hsorted (m : hmap) : Prop := StronglySorted klt m.

Lemma klt_trans a b c : klt a b -> klt b c -> klt a c.
Proof. unfold klt. apply ci_lt_trans. Qed.

Lemma hmap_put_keys : forall m k v x, In x (hmap_put m k v) -> In x m \/ (snd x = v /\ ci_compare k (fst x) = Eq).
Proof.
  induction m as [|[k' v'] r IH]; intros k v x; cbn [hmap_put].
  - intros [<-|[]]. right. cbn. split; [reflexivity|apply ci_refl].
  - destruct (ci_compare k k') eqn:E.
    + intros [<-|H]; [right; cbn; split; [reflexivity|apply ci_refl]|left; exact H].
    + intros [<-|H]; [right; cbn; auto|left; right; exact H].
    + intros [<-|H]; [left; left; reflexivity|]. destruct (IH _ _ _ H) as [H1|H1]; [left; right; exact H1|right; exact H1].
Qed.

Lemma hsorted_put : forall m k v, hsorted m -> hsorted (hmap_put m k v).
Proof.
  induction m as [|[k' v'] r IH]; intros k v H; cbn [hmap_put].
  - constructor; constructor.
  - inversion H as [|? ? Hr Hall]; subst. destruct (ci_compare k k') eqn:E.
    + constructor; [exact H|]. constructor; [exact E|]. eapply Forall_impl; [|exact Hall]. intros a Ha. eapply klt_trans; [|exact Ha]. exact E.
    + constructor; [exact Hr|]. eapply Forall_impl; [|exact Hall]. intros a Ha. unfold klt in *. cbn [fst] in *. exact Ha.
    + constructor; [now apply IH|]. apply Forall_forall. intros x Hx. destruct (hmap_put_keys _ _ _ _ Hx) as [H1|[_ H1]].
      * rewrite Forall_forall in Hall. now apply Hall.
      * unfold klt. cbn [fst]. rewrite <- (ci_eq_cong_r k' k (fst x) H1). now apply ci_lt_gt.
Qed.

Lemma hmap_erase_sub : forall m k x, In x (hmap_erase m k) -> In x m.
Proof.
  induction m as [|[k' v'] r IH]; intros k x; cbn [hmap_erase]; [auto|].
  destruct (ci_compare k k'); cbn [In]; intuition eauto.
Qed.
Lemma hsorted_erase : forall m k, hsorted m -> hsorted (hmap_erase m k).
Proof.
  induction m as [|[k' v'] r IH]; intros k H; cbn [hmap_erase]; [exact H|].
  inversion H as [|? ? Hr Hall]; subst.
  destruct (ci_compare k k'); try exact Hr; (constructor; [now apply IH|]; apply Forall_forall; intros x Hx;
    rewrite Forall_forall in Hall; apply Hall; eapply hmap_erase_sub; exact Hx).
Qed.
Lemma hsorted_set m k v : hsorted m -> hsorted (hmap_set m k v).
Proof. intros H. unfold hmap_set. destruct v; [now apply hsorted_erase|now apply hsorted_put]. Qed.

(* a sorted map does not contain the name again behind its first occurrence *)
Lemma hmap_get_absent : forall m k, Forall (fun x => ci_compare k (fst x) <> Eq) m -> hmap_get m k = [].
Proof.
  induction m as [|[k' v'] r IH]; intros k H; cbn [hmap_get]; [reflexivity|].
  inversion H as [|? ? H1 H2]; subst. cbn [fst] in H1. destruct (ci_compare k k'); [now apply IH|contradiction|now apply IH].
Qed.

(* ---------------------------------------------------------------- last value wins, other names untouched, empty erases *)
Lemma hmap_get_put_same : forall m k v, hmap_get (hmap_put m k v) k = v.
Proof.
  induction m as [|[k' v'] r IH]; intros k v; cbn [hmap_put hmap_get].
  - now rewrite ci_refl.
  - destruct (ci_compare k k') eqn:E; cbn [hmap_get]; rewrite ?ci_refl, ?E; auto.
Qed.
Lemma hmap_get_put_other : forall m k v k2, ci_compare k2 k <> Eq -> hmap_get (hmap_put m k v) k2 = hmap_get m k2.
Proof.
  induction m as [|[k' v'] r IH]; intros k v k2 H; cbn [hmap_put hmap_get].
  - destruct (ci_compare k2 k); [reflexivity|contradiction|reflexivity].
  - destruct (ci_compare k k') eqn:E; cbn [hmap_get].
    + destruct (ci_compare k2 k) eqn:E2; [reflexivity|contradiction|reflexivity].
    + rewrite <- (ci_eq_cong_r k2 k k' E). destruct (ci_compare k2 k) eqn:E2; [reflexivity|contradiction|reflexivity].
    + destruct (ci_compare k2 k'); [now apply IH|reflexivity|now apply IH].
Qed.
Lemma hmap_get_erase_same : forall m k, hsorted m -> hmap_get (hmap_erase m k) k = [].
Proof.
  induction m as [|[k' v'] r IH]; intros k H; cbn [hmap_erase]; [reflexivity|].
  inversion H as [|? ? Hr Hall]; subst. destruct (ci_compare k k') eqn:E; cbn [hmap_get]; rewrite ?E.
  - now apply IH.
  - apply hmap_get_absent. apply Forall_forall. intros x Hx. rewrite Forall_forall in Hall. specialize (Hall x Hx). unfold klt in Hall. cbn [fst] in Hall.
    rewrite (ci_eq_cong_l k k' (fst x) E). congruence.
  - now apply IH.
Qed.
Lemma hmap_get_erase_other : forall m k k2, ci_compare k2 k <> Eq -> hmap_get (hmap_erase m k) k2 = hmap_get m k2.
Proof.
  induction m as [|[k' v'] r IH]; intros k k2 H; cbn [hmap_erase hmap_get]; [reflexivity|].
  destruct (ci_compare k k') eqn:E; cbn [hmap_get].
  - destruct (ci_compare k2 k'); [now apply IH|reflexivity|now apply IH].
  - rewrite <- (ci_eq_cong_r k2 k k' E). destruct (ci_compare k2 k) eqn:E2; [reflexivity|contradiction|reflexivity].
  - destruct (ci_compare k2 k'); [now apply IH|reflexivity|now apply IH].
Qed.

Lemma hmap_get_set_same m k v : hsorted m -> hmap_get (hmap_set m k v) k = v.
Proof. intros H. unfold hmap_set. destruct v; [now apply hmap_get_erase_same|apply hmap_get_put_same]. Qed.
Lemma hmap_get_set_other m k v k2 : ci_compare k2 k <> Eq -> hmap_get (hmap_set m k v) k2 = hmap_get m k2.
Proof. intros H. unfold hmap_set. destruct v; [now apply hmap_get_erase_other|now apply hmap_get_put_other]. Qed.

(* ---------------------------------------------------------------- from the map to the header block *)
(* a name with a non-empty value is present as exactly one entry (up to case), and that entry is a line of the block *)
Lemma hmap_get_in : forall m k, hmap_get m k <> [] -> exists k', ci_compare k k' = Eq /\ In (k', hmap_get m k) m.
Proof.
  induction m as [|[k' v'] r IH]; intros k H; cbn [hmap_get] in *; [contradiction|].
  destruct (ci_compare k k') eqn:E.
  - destruct (IH k H) as (k2 & A & B). exists k2. split; [exact A|right; exact B].
  - exists k'. split; [exact E|left; reflexivity].
  - destruct (IH k H) as (k2 & A & B). exists k2. split; [exact A|right; exact B].
Qed.

Definition same_name (k : bytes) (kv : bytes * bytes) : bool := match ci_compare k (fst kv) with Eq => true | _ => false end.

Lemma filter_none {A} (f : A -> bool) : forall l, Forall (fun x => f x = false) l -> filter f l = [].
Proof. induction l as [|a l IH]; intros H; [reflexivity|]. inversion H; subst. cbn [filter]. rewrite H2. now apply IH. Qed.

Lemma hsorted_once : forall m k, hsorted m -> (length (filter (same_name k) m) <= 1)%nat.
Proof.
  induction m as [|[k' v'] r IH]; intros k H; cbn [filter length]; [lia|].
  inversion H as [|? ? Hr Hall]; subst. unfold same_name at 1. cbn [fst]. destruct (ci_compare k k') eqn:E; try (now apply IH).
  cbn [length]. rewrite filter_none; [cbn; lia|].
  apply Forall_forall. intros x Hx. rewrite Forall_forall in Hall. specialize (Hall x Hx). unfold klt in Hall. cbn [fst] in Hall.
  unfold same_name. rewrite (ci_eq_cong_l k k' (fst x) E), Hall. reflexivity.
Qed.

Lemma in_concat_map {A} (f : A -> bytes) : forall l x, In x l -> exists pre post, concat (map f l) = pre ++ f x ++ post.
Proof.
  intros l x H. apply in_split in H. destruct H as (l1 & l2 & ->).
  exists (concat (map f l1)), (concat (map f l2)). rewrite map_app, concat_app. reflexivity.
Qed.

(* every header the map holds is one line "Name: value CRLF" of the CGI header block; every cookie line follows *)
Lemma cgi_block_carries h k : hmap_get (h_map h) k <> [] ->
  exists k' pre post, ci_compare k k' = Eq /\
    format_cgi_headers h = pre ++ (k' ++ COLON_SP ++ hmap_get (h_map h) k ++ CRLF) ++ post.
Proof.
  intros H. destruct (hmap_get_in _ _ H) as (k' & E & Hin).
  destruct (in_concat_map header_line _ _ Hin) as (pre & post & Hc).
  exists k', pre, (post ++ added_lines (h_added h) ++ CRLF). split; [exact E|].
  unfold format_cgi_headers. rewrite Hc. unfold header_line. cbn [fst snd]. rewrite <- !app_assoc. reflexivity.
Qed.
Lemma cgi_block_cookie h l : In l (h_added h) ->
  exists pre post, format_cgi_headers h = pre ++ (l ++ CRLF) ++ post.
Proof.
  intros Hin. destruct (in_concat_map (fun x : bytes => x ++ CRLF) _ _ Hin) as (pre & post & Hc).
  exists (concat (map header_line (h_map h)) ++ pre), (post ++ CRLF).
  change (concat (map (fun x : bytes => x ++ CRLF) (h_added h))) with (added_lines (h_added h)) in Hc.
  unfold format_cgi_headers. rewrite Hc. rewrite <- !app_assoc. reflexivity.
Qed.
(* HTTP: every header except Status is a line of the block; Status becomes the status line *)
Lemma http_block_carries h version k : hmap_get (h_map h) k <> [] -> is_status k = false ->
  exists k' pre post, ci_compare k k' = Eq /\
    format_http_headers h version = pre ++ (k' ++ COLON_SP ++ hmap_get (h_map h) k ++ CRLF) ++ post.
Proof.
  intros H Hs. destruct (hmap_get_in _ _ H) as (k' & E & Hin).
  assert (Hf : In (k', hmap_get (h_map h) k) (filter (fun kv => negb (is_status (fst kv))) (h_map h))).
  { apply filter_In. split; [exact Hin|]. cbn [fst]. unfold is_status in *.
    rewrite <- (ci_eq_cong_l k k' STATUS E). destruct (ci_compare k STATUS); try reflexivity. discriminate. }
  destruct (in_concat_map header_line _ _ Hf) as (pre & post & Hc).
  exists k', (HTTP_SL ++ version ++ [32] ++ (match hmap_get (h_map h) STATUS with [] => OK200 | s => s end) ++ CRLF ++ pre),
         (post ++ added_lines (h_added h)). split; [exact E|].
  unfold format_http_headers. rewrite Hc. unfold header_line. cbn [fst snd]. rewrite <- !app_assoc. reflexivity.
Qed.

(* ---------------------------------------------------------------- along a script: what out() sees *)
Lemma hdr_step_sorted h o : hsorted (h_map h) -> hsorted (h_map (hdr_step h o)).
Proof. intros H. destruct o; cbn [hdr_step h_map]; try exact H. now apply hsorted_set. Qed.
Lemma hdrs_at_out_sorted : forall ops h, hsorted (h_map h) -> hsorted (h_map (hdrs_at_out h ops)).
Proof.
  induction ops as [|o t IH]; intros h H; cbn [hdrs_at_out]; [exact H|].
  destruct (is_output o); [exact H|]. apply IH. now apply hdr_step_sorted.
Qed.

(* operations that do not touch the header name k *)
Definition keeps (k : bytes) (o : op) : Prop :=
  is_output o = false /\ match o with OHeader k2 _ => ci_compare k k2 <> Eq | _ => True end.

(* the header state when out() is called: the last set_header(k, v) before the first output wins *)
Lemma header_last_set_wins : forall pre post h k v rest,
  hsorted (h_map h) -> Forall (fun o => is_output o = false) pre -> Forall (keeps k) post ->
  (match rest with [] => True | o :: _ => is_output o = true end) ->
  hmap_get (h_map (hdrs_at_out h (pre ++ OHeader k v :: post ++ rest))) k = v.
Proof.
  induction pre as [|o pre IH]; intros post h k v rest Hs Hpre Hpost Hrest.
  - cbn [app hdrs_at_out is_output hdr_step].
    set (h1 := mkHeaders (hmap_set (h_map h) k v) (h_added h)).
    assert (H1 : hmap_get (h_map h1) k = v) by (unfold h1; cbn [h_map]; now apply hmap_get_set_same).
    clearbody h1. revert h1 H1. induction post as [|p post IHp]; intros h1 H1.
    + cbn [app]. destruct rest as [|o r]; cbn [hdrs_at_out]; [exact H1|]. now rewrite Hrest.
    + pose proof (Forall_inv Hpost) as [Hp1 Hp2]. pose proof (Forall_inv_tail Hpost) as Hp3. cbn [app hdrs_at_out]. rewrite Hp1.
      apply IHp; [exact Hp3|]. destruct p; cbn [hdr_step h_map]; try exact H1.
      rewrite hmap_get_set_other; [exact H1|exact Hp2].
  - pose proof (Forall_inv Hpre) as Ho. pose proof (Forall_inv_tail Hpre) as Hpre'. cbn [app hdrs_at_out]. rewrite Ho.
    apply IH; auto. now apply hdr_step_sorted.
Qed.

(* composition: a header set before the first output (and not overwritten afterwards) is one line of the header block
   that out() fixes -- with the spelling of the first set_header call for that name, the value of the last one *)
Lemma header_set_is_in_block pre post h k v rest :
  hsorted (h_map h) -> Forall (fun o => is_output o = false) pre -> Forall (keeps k) post ->
  (match rest with [] => True | o :: _ => is_output o = true end) -> v <> [] ->
  exists k' p q, ci_compare k k' = Eq /\
    format_cgi_headers (hdrs_at_out h (pre ++ OHeader k v :: post ++ rest)) = p ++ (k' ++ COLON_SP ++ v ++ CRLF) ++ q.
Proof.
  intros Hs Hpre Hpost Hrest Hv.
  pose proof (header_last_set_wins pre post h k v rest Hs Hpre Hpost Hrest) as HG.
  destruct (cgi_block_carries (hdrs_at_out h (pre ++ OHeader k v :: post ++ rest)) k) as (k' & p & q & E & HB).
  - rewrite HG. exact Hv.
  - exists k', p, q. split; [exact E|]. rewrite HB, HG. reflexivity.
Qed.
Lemma hsorted_filter_le1 m k : hsorted m -> (length (filter (same_name k) m) <= 1)%nat.
Proof. apply hsorted_once. Qed.
Lemma header_map_sorted_unique_lemma : forall m k v k2, hsorted m ->
  hsorted (hmap_set m k v) /\ (length (filter (same_name k2) (hmap_set m k v)) <= 1)%nat.
Proof. intros m k v k2 H. split; [now apply hsorted_set|apply hsorted_filter_le1; now apply hsorted_set]. Qed.
Lemma header_last_value_wins_lemma : forall m k v, hsorted m ->
  hmap_get (hmap_set m k v) k = v /\ forall k2, ci_compare k2 k <> Eq -> hmap_get (hmap_set m k v) k2 = hmap_get m k2.
Proof. intros m k v H. split; [now apply hmap_get_set_same|intros k2 H2; now apply hmap_get_set_other]. Qed.

(* ---------------------------------------------------------------- the comparator is a strict weak order whose equivalence is
   exactly case-insensitive equality: distinct names (ignoring case) are distinct keys -- in particular a name and a longer name
   it is a prefix of (the length tie-break of protocol::compare) *)
Lemma ci_prefix_lt : forall a s, s <> [] -> ci_compare a (a ++ s) = Lt.
Proof.
  induction a as [|x a IH]; intros s Hs; cbn [app ci_compare].
  - destruct s; [contradiction|reflexivity].
  - rewrite N.ltb_irrefl. now apply IH.
Qed.
Lemma ci_total a b : lname a <> lname b -> ci_compare a b = Lt \/ ci_compare b a = Lt.
Proof.
  intros H. destruct (ci_compare a b) eqn:E; [now left| |].
  - exfalso. apply H. now apply ci_eq_iff.
  - right. now apply ci_lt_gt.
Qed.
Lemma icompare_less_lt a b : icompare_less a b = true <-> ci_compare a b = Lt.
Proof. unfold icompare_less, compare_int. destruct (ci_compare a b); cbn; split; intros H; try reflexivity; try discriminate. Qed.

Lemma comparator_strict_weak_order :
  (forall a, icompare_less a a = false) /\
  (forall a b c, icompare_less a b = true -> icompare_less b c = true -> icompare_less a c = true) /\
  (forall a b, icompare_less a b = false /\ icompare_less b a = false <-> lname a = lname b) /\
  (forall a b, lname a <> lname b -> icompare_less a b = true \/ icompare_less b a = true) /\
  (forall a s, s <> [] -> icompare_less a (a ++ s) = true /\ icompare_less (a ++ s) a = false).
Proof.
  split; [|split; [|split; [|split]]].
  - intros a. unfold icompare_less, compare_int. now rewrite ci_refl.
  - intros a b c H1 H2. apply icompare_less_lt in H1, H2. apply icompare_less_lt. eapply ci_lt_trans; eassumption.
  - intros a b. split.
    + intros [H1 H2]. apply ci_eq_iff. destruct (ci_compare a b) eqn:E; [|reflexivity|].
      * apply icompare_less_lt in E. congruence.
      * apply ci_lt_gt in E. apply icompare_less_lt in E. congruence.
    + intros H. apply ci_eq_iff in H. pose proof (ci_eq_sym _ _ H) as H'. unfold icompare_less, compare_int. now rewrite H, H'.
  - intros a b H. destruct (ci_total a b H) as [E|E]; [left|right]; now apply icompare_less_lt.
  - intros a s Hs. pose proof (ci_prefix_lt a s Hs) as E. split; [now apply icompare_less_lt|].
    unfold icompare_less, compare_int. apply ci_lt_gt in E. now rewrite E.
Qed.
