(* C08: any property of resource states that the four primitives (ralloc, free_where, retag, table / fault bookkeeping)
   preserve is preserved by every operation of the resource model (with the protected basic_map::allocate), at every failure point. *)
From CppcmsV Require Import Base.Tac C07.Defs C08.Defs C08.ResDefs.
Import ListNotations.
Local Open Scope N_scope.

Section Closure.
Variable J : rstate -> Prop.
Definition Pres (f : rstate -> rstate * bool) : Prop := forall r, J r -> J (fst (f r)).
Definition PresT (f : rstate -> rstate) : Prop := forall r, J r -> J (f r).
Hypothesis J_ralloc : forall tg req, 0 < req -> Pres (ralloc tg req).
Hypothesis J_free_where : forall P, PresT (free_where P).
Hypothesis J_retag : forall f, PresT (retag f).
Hypothesis J_tabs : forall r pt tt g, J r -> J (with_tabs pt tt g r).
Hypothesis J_faults : forall f, PresT (with_faults f).

Lemma Pres_bind x f : J (fst x) -> Pres f -> J (fst (bind x f)).
Proof. intros Hx Hf. unfold bind. destruct (snd x); [apply Hf; exact Hx|exact Hx]. Qed.

Lemma Pres_bind2 f g : Pres f -> Pres g -> Pres (fun r => bind (f r) g).
Proof. intros Hf Hg r H. apply Pres_bind; [apply Hf; exact H|exact Hg]. Qed.

Lemma strsz_pos s n : strsz s = Some n -> 0 < n.
Proof. unfold strsz. destruct (sz_sso <? N.of_nat (length s)); [|discriminate]. intros K. inversion K. lia. Qed.

Lemma J_opt_alloc tg s : Pres (opt_alloc tg (strsz s)).
Proof.
  destruct (strsz s) as [n|] eqn:E; cbn [opt_alloc].
  - apply J_ralloc. exact (strsz_pos s n E).
  - intros r H. exact H.
Qed.

Lemma J_hm_allocate tn tx nsz s : 0 < nsz -> Pres (hm_allocate true tn tx nsz (strsz s)).
Proof.
  intros Hn r H. unfold hm_allocate.
  pose proof (J_ralloc TPend nsz Hn r H) as H1. destruct (ralloc TPend nsz r) as [r1 [|]]; cbn [fst] in *; [|exact H1].
  destruct (strsz s) as [n|] eqn:E.
  - pose proof (J_ralloc tx n (strsz_pos s n E) r1 H1) as H2. destruct (ralloc tx n r1) as [r2 [|]]; cbn [fst] in *.
    + apply J_retag. exact H2.
    + apply J_free_where. exact H2.
  - cbn [fst]. apply J_retag. exact H1.
Qed.

Lemma J_grow w : Pres (grow w).
Proof.
  intros r H. unfold grow.
  destruct ((if w then r_pt r else r_tt r) <=? count (if w then is_pn else is_tn) r + 1); [|exact H].
  assert (Hp : 0 < sz_bucket * ((1 + count (if w then is_pn else is_tn) r) * 2)) by (unfold sz_bucket; lia).
  pose proof (J_ralloc (TV w (N.succ (r_gen r))) _ Hp r H) as H1.
  destruct (ralloc (TV w (N.succ (r_gen r))) (sz_bucket * ((1 + count (if w then is_pn else is_tn) r) * 2)) r) as [r1 [|]]; cbn [fst] in *.
  - apply J_tabs. apply J_free_where. exact H1.
  - exact H1.
Qed.

Lemma J_delete_node k : PresT (r_delete_node k).
Proof. intros r H. unfold r_delete_node. apply J_free_where. apply J_free_where. exact H. Qed.

Lemma J_fold_delete ks : PresT (fun r => fold_left (fun r k => r_delete_node k r) ks r).
Proof.
  induction ks as [|k ks IH]; intros r H; cbn [fold_left]; [exact H|]. apply IH. apply J_delete_node. exact H.
Qed.

Lemma J_regrow w : Pres (regrow w).
Proof.
  intros r H. unfold regrow. destruct (r_limit r =? 0) eqn:E; cbn [fst].
  - apply J_tabs. apply J_free_where. exact H.
  - apply N.eqb_neq in E. assert (Hp : 0 < sz_bucket * r_limit r) by (unfold sz_bucket; lia).
    pose proof (J_ralloc (TV w (N.succ (r_gen r))) _ Hp r H) as H1.
    destruct (ralloc (TV w (N.succ (r_gen r))) (sz_bucket * r_limit r) r) as [r1 [|]]; cbn [fst] in *;
      [apply J_tabs; apply J_free_where; exact H1|exact H1].
Qed.

Lemma J_nl_clear : Pres nl_clear.
Proof.
  unfold nl_clear. intros r H. cbv zeta. apply Pres_bind; [apply J_regrow; apply J_free_where; apply J_free_where; exact H|].
  apply J_regrow.
Qed.

Lemma J_rclear : PresT rclear.
Proof. intros r H. unfold rclear. apply J_nl_clear. exact H. Qed.

Lemma J_add_trigger k t : Pres (add_trigger true k t).
Proof.
  unfold add_trigger.
  apply Pres_bind2; [apply J_opt_alloc|].
  apply Pres_bind2; [apply J_opt_alloc|].
  apply Pres_bind2; [apply J_grow|].
  apply Pres_bind2.
  { intros r H. destruct (has_tn t (r_b r)); [exact H|]. apply J_hm_allocate; [now compute|exact H]. }
  intros r3 H3. apply Pres_bind; [apply J_ralloc; [now compute|]; apply J_free_where; exact H3|].
  apply Pres_bind2; [apply J_ralloc; now compute|].
  intros r H. cbn [fst]. apply J_free_where. exact H.
Qed.

Lemma J_fold_triggers k ts : forall x, J (fst x) -> J (fst (fold_left (fun x t => bind x (add_trigger true k t)) ts x)).
Proof.
  induction ts as [|t ts IH]; intros x Hx; cbn [fold_left]; [exact Hx|].
  apply IH. apply Pres_bind; [exact Hx|apply J_add_trigger].
Qed.

Lemma J_store_body k trigs ev : Pres (r_store_body true k trigs ev).
Proof.
  intros r H. unfold r_store_body.
  apply Pres_bind; [apply J_opt_alloc; apply (J_fold_delete (k :: ev)); exact H|].
  apply Pres_bind2; [apply J_opt_alloc|].
  apply Pres_bind2; [apply J_grow|].
  apply Pres_bind2; [apply J_hm_allocate; now compute|].
  intros r3 H3. apply Pres_bind; [apply J_ralloc; [now compute|]; apply J_retag; apply J_free_where; exact H3|].
  apply Pres_bind2; [apply J_ralloc; now compute|].
  intros r6 H6. apply Pres_bind; [apply J_fold_triggers; exact H6|].
  intros r7 H7. cbn [fst]. apply J_free_where. exact H7.
Qed.

Lemma J_store k v trigs ev : PresT (r_store true k v trigs ev).
Proof.
  intros r H. unfold r_store.
  pose proof (J_opt_alloc TAr v r H) as H1. destruct (opt_alloc TAr (strsz v) r) as [r1 [|]]; cbn [fst] in H1.
  - pose proof (J_store_body k trigs ev r1 H1) as H2. destruct (r_store_body true k trigs ev r1) as [r2 [|]]; cbn [fst] in H2.
    + exact H2.
    + apply J_free_where. apply J_rclear. apply J_free_where. exact H2.
  - apply J_delete_node. exact H1.
Qed.

Lemma J_rstep o : PresT (rstep true o).
Proof.
  intros r H. destruct o as [k v trigs ev|k|t| |k|f]; cbn [rstep].
  - apply J_store. exact H.
  - apply J_delete_node. exact H.
  - apply (J_fold_delete (linked_keys t (r_b r))). exact H.
  - apply J_rclear. exact H.
  - exact H.
  - apply J_faults. exact H.
Qed.

Lemma J_rrun ops : PresT (rrun true ops).
Proof.
  induction ops as [|o ops IH]; intros r H; cbn [rrun fold_left]; [exact H|]. apply IH. apply J_rstep. exact H.
Qed.

End Closure.
