(* C08, buddy allocator: canonical form.  When no page is in use, every page is a top-level page (one without a
   buddy inside the memory), and the set of top-level pages is determined by the memory size alone: freeing every
   live block restores the page headers and the free lists (as sets) of the freshly constructed allocator. *)
From CppcmsV Require Import Base.Tac C08.Defs C08.BuddyArith C08.ProofsBuddy C08.ProofsBuddy2 C08.ProofsBuddy3 C08.ProofsBuddy4.
Local Open Scope N_scope.

Definition top (M o b : N) : Prop := o mod 2 ^ (b + 1) = 0 /\ o + 2 ^ b <= M /\ M < o + 2 ^ (b + 1).

Lemma all_free_top_aux n : forall s, BInv s -> (forall o b, ~ used s o b) ->
  forall b o, (N.to_nat b < n)%nat -> geom s o = Some b -> top (b_msize s) o b.
Proof.
  induction n as [|n IH]; intros s I Hfree b o Hb Hg; [lia|].
  pose proof (bi_geo s I) as G. pose proof (bi_free s I) as Fr.
  destruct (bg_geo s G o b Hg) as (Hal & Hend & H5).
  pose proof (pow2_pos b) as Hpos. pose proof (pow2_succ b) as Hsucc.
  assert (Hho : b_hdr s o = Some (b, false)).
  { apply geom_some in Hg. destruct Hg as [[|] Hh]; [exfalso; exact (Hfree o b Hh)|exact Hh]. }
  destruct (get_buddy s o b) as [bd|] eqn:Eb.
  - exfalso. destruct (buddy_is_page s o b bd G Hg Eb) as (bb & Hgb & Hle).
    destruct (N.eq_dec bb b) as [->|Hne].
    + apply geom_some in Hgb. destruct Hgb as [[|] Hhb]; [exact (Hfree bd b Hhb)|].
      exact (bf_nobud s Fr o b bd Hho Eb Hhb).
    + assert (Hlt : bb < b) by (clear - Hle Hne; lia).
      assert (Hbn : (N.to_nat bb < n)%nat) by (clear - Hlt Hb; lia).
      destruct (IH s I Hfree bb bd Hbn Hgb) as (_ & _ & Htop).
      apply get_buddy_some in Eb. destruct Eb as [_ Hbend].
      assert (Hpw : 2 ^ (bb + 1) <= 2 ^ b) by (apply pow2_le; clear - Hlt; lia).
      clear - Htop Hbend Hpw. lia.
  - unfold get_buddy in Eb. destruct (N.ltb_spec (b_msize s) (N.lxor (2 ^ b) o + 2 ^ b)) as [Hlt|]; [|discriminate].
    destruct (buddy_spec o b Hal) as [[E A]|[E A]].
    + rewrite E in Hlt. split; [exact A|]. split; [exact Hend|clear - Hlt Hsucc; lia].
    + exfalso. clear - E Hlt Hend Hpos. lia.
Qed.

Lemma all_free_top s o b : BInv s -> (forall o b, ~ used s o b) -> geom s o = Some b -> top (b_msize s) o b.
Proof. intros I Hf Hg. apply (all_free_top_aux (S (N.to_nat b)) s I Hf b o); [lia|exact Hg]. Qed.

(* for a given memory size there is at most one top-level page over any point *)
Lemma top_unique M o b o' b' : top M o b -> top M o' b' -> o' <= o -> o < o' + 2 ^ b' -> o = o' /\ b = b'.
Proof.
  intros (A & B & C) (A' & B' & C') H1 H2.
  pose proof (pow2_succ b) as Hs. pose proof (pow2_succ b') as Hs'. pose proof (pow2_pos b) as Hp. pose proof (pow2_pos b') as Hp'.
  destruct (N.lt_trichotomy b b') as [Hlt|[Heq|Hgt]].
  - exfalso.
    assert (Hm : (o' + 2 ^ b') mod 2 ^ (b + 1) = 0).
    { apply aligned_add; [apply (aligned_weaken o' (b + 1) (b' + 1)); [clear - Hlt; lia|exact A']|apply pow2_aligned; clear - Hlt; lia]. }
    pose proof (aligned_gap o (o' + 2 ^ b') (b + 1) A Hm H2) as Hg. clear - Hg B' C. lia.
  - subst b'. split; [|reflexivity].
    destruct (N.eq_dec o' o) as [E|Hne]; [symmetry; exact E|exfalso].
    assert (Hlt : o' < o) by (clear - H1 Hne; lia).
    pose proof (aligned_gap o' o (b + 1) A' A Hlt) as Hg. clear - Hg H2 Hs Hp. lia.
  - exfalso.
    assert (Hm : (o + 2 ^ b) mod 2 ^ (b' + 1) = 0).
    { apply aligned_add; [apply (aligned_weaken o (b' + 1) (b + 1)); [clear - Hgt; lia|exact A]|apply pow2_aligned; clear - Hgt; lia]. }
    assert (Hlt : o' < o + 2 ^ b) by (clear - H1 Hp; lia).
    pose proof (aligned_gap o' (o + 2 ^ b) (b' + 1) A' Hm Hlt) as Hg. clear - Hg B C'. lia.
Qed.

Theorem all_free_canonical s1 s2 : BInv s1 -> BInv s2 -> b_msize s1 = b_msize s2 ->
  (forall o b, ~ used s1 o b) -> (forall o b, ~ used s2 o b) ->
  forall o b, b_hdr s1 o = Some (b, false) -> b_hdr s2 o = Some (b, false).
Proof.
  intros I1 I2 Hm F1 F2 o b Ho.
  pose proof (all_free_top s1 o b I1 F1 (hdr_geom _ _ _ _ Ho)) as T1.
  destruct (bg_geo s1 (bi_geo s1 I1) o b (hdr_geom _ _ _ _ Ho)) as (_ & Hend & H5).
  assert (H32 : 32 <= 2 ^ b) by (change 32 with (2 ^ 5); apply pow2_le; exact H5).
  assert (K0 : o + 32 <= b_msize s2) by (clear - Hend H32 Hm; lia).
  destruct (bg_cover s2 (bi_geo s2 I2) o K0) as (o' & b' & Hg' & Hr1 & Hr2).
  pose proof (all_free_top s2 o' b' I2 F2 Hg') as T2. rewrite Hm in T1.
  destruct (top_unique _ o b o' b' T1 T2 Hr1 Hr2) as [-> ->].
  apply geom_some in Hg'. destruct Hg' as [[|] Hh]; [exfalso; exact (F2 o' b' Hh)|exact Hh].
Qed.

(* states reachable by malloc / free of live blocks from the constructor *)
Inductive breach (ms : N) : bstate -> Prop :=
| br_init : breach ms (b_init ms)
| br_malloc s req : breach ms s -> 0 < req -> breach ms (snd (b_malloc req s))
| br_free s ptr bits : breach ms s -> used s (ptr - 16) bits -> breach ms (b_free ptr s).

Lemma breach_inv ms s : ms - self_size < 2 ^ 63 -> breach ms s -> BInv s /\ b_msize s = ms - self_size.
Proof.
  intros Hs. induction 1 as [|s req H IH Hreq|s ptr bits H IH Hu].
  - destruct (init_ok ms Hs) as (A & B & _). split; assumption.
  - destruct IH as [I Hm]. destruct (b_malloc req s) as [[ptr|] s'] eqn:E; cbn [snd].
    + destruct (malloc_ok req s ptr s' I Hreq E) as (A & _ & _ & _ & _ & B & _). split; [exact A|congruence].
    + rewrite (malloc_fail_unchanged req s s' I Hreq E). split; assumption.
  - destruct IH as [I Hm]. destruct (free_ok ptr bits s I Hu) as (A & B & _). split; [exact A|congruence].
Qed.

Theorem free_all_restores_full ms s : ms - self_size < 2 ^ 63 -> breach ms s -> (forall o b, ~ used s o b) ->
  (forall o b u, b_hdr s o = Some (b, u) <-> b_hdr (b_init ms) o = Some (b, u)) /\
  (forall o b, In o (b_fl s b) <-> In o (b_fl (b_init ms) b)).
Proof.
  intros Hs Hr Hf. destruct (breach_inv ms s Hs Hr) as [I Hm]. destruct (init_ok ms Hs) as (I0 & Hm0 & Hf0).
  assert (Hmm : b_msize s = b_msize (b_init ms)) by congruence.
  assert (Hh : forall o b u, b_hdr s o = Some (b, u) <-> b_hdr (b_init ms) o = Some (b, u)).
  { intros o b [|]; [split; intros H; exfalso; [exact (Hf o b H)|exact (Hf0 o b H)]|].
    split; [apply (all_free_canonical s (b_init ms) I I0 Hmm Hf Hf0)|apply (all_free_canonical (b_init ms) s I0 I (eq_sym Hmm) Hf0 Hf)]. }
  split; [exact Hh|]. intros o b. rewrite (bf_free s (bi_free s I)), (bf_free _ (bi_free _ I0)). apply Hh.
Qed.
