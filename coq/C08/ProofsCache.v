(* C08, cache part: the limit is respected, the victim rule, exact statistics.
   Builds on the mirror-consistency invariant Inv and the refinement lemmas of C07 (read only). *)
From CppcmsV Require Import Base.Tac C07.Defs C07.Spec C07.Util C07.ProofsInv C08.Defs.
From Coq Require Import Sorting.Sorted.
Local Open Scope N_scope.

(* ---------- delete_node: effect on the counters and on the recency list ---------- *)
Lemma delete_node_size_some k c s : pfind k (primary s) = Some c -> size (delete_node k s) = N.pred (size s).
Proof. intros H. unfold delete_node. rewrite H. destruct (unlink_all _ _ _); reflexivity. Qed.
Lemma delete_node_none k s : pfind k (primary s) = None -> delete_node k s = s.
Proof. intros H. unfold delete_node. rewrite H. reflexivity. Qed.
Lemma delete_node_size_le k s : size (delete_node k s) <= size s.
Proof.
  destruct (pfind k (primary s)) as [c|] eqn:E.
  - rewrite (delete_node_size_some k c s E). lia.
  - rewrite (delete_node_none k s E). lia.
Qed.
Lemma delete_node_primary k s : Inv s -> primary (delete_node k s) = premove k (primary s).
Proof. intros I. change (a_ent (abs (delete_node k s)) = premove k (primary s)). rewrite (delete_node_abs k s I). reflexivity. Qed.
Lemma delete_node_lru k s : Inv s -> lru (delete_node k s) = kremove k (lru s).
Proof. intros I. change (a_lru (abs (delete_node k s)) = kremove k (lru s)). rewrite (delete_node_abs k s I). reflexivity. Qed.

Lemma fold_delete_size l : forall s, size (fold_left (fun s k => delete_node k s) l s) <= size s.
Proof.
  induction l as [|k l IH]; intros s; cbn [fold_left]; [lia|].
  specialize (IH (delete_node k s)). pose proof (delete_node_size_le k s). lia.
Qed.
Lemma fold_delete_limit l : forall s, limit (fold_left (fun s k => delete_node k s) l s) = limit s.
Proof.
  induction l as [|k l IH]; intros s; cbn [fold_left]; [reflexivity|]. rewrite IH. apply delete_node_limit.
Qed.

(* ---------- the check_limits loop ---------- *)
Lemma first_victim_abs now s : Inv s -> first_victim now s = a_victim now (abs s).
Proof. intros I. unfold first_victim, a_victim. cbn [abs a_ent a_lru]. rewrite <- (inv_timeout s I). reflexivity. Qed.

Lemma first_victim_in now s k : Inv s -> first_victim now s = Some k -> In k (map fst (primary s)).
Proof. intros I H. rewrite (first_victim_abs now s I) in H. exact (victim_in now s k I H). Qed.

(* a non-empty cache always has a victim: the loop never takes the `break` branch *)
Lemma first_victim_some now s : Inv s -> 0 < size s -> exists k, first_victim now s = Some k.
Proof.
  intros I Hs. unfold first_victim.
  assert (Hl : exists k, last_opt (lru s) = Some k).
  { destruct (last_opt (lru s)) as [k|] eqn:E; [eauto|]. apply last_opt_None in E.
    rewrite (inv_size s I) in Hs. destruct (primary s) as [|[k c] r] eqn:Ep; [cbn in Hs; lia|].
    assert (Hin : In k (lru s)) by (apply (inv_lru s I); rewrite Ep; left; reflexivity).
    rewrite E in Hin. destruct Hin. }
  destruct (timeout s) as [|[d k] r]; [exact Hl|]. destruct (d <? now)%Z; [eauto|exact Hl].
Qed.

(* one iteration, as written in the source *)
Lemma check_limits_loop_unfold f now nem s :
  check_limits_loop (S f) now nem s =
  if must_evict (match nem with b :: _ => b | [] => false end) s then
    match first_victim now s with
    | Some k => check_limits_loop f now (tl nem) (delete_node k s)
    | None => s
    end
  else s.
Proof.
  cbn [check_limits_loop]. unfold must_evict, first_victim.
  destruct (_ && _); [|reflexivity].
  destruct (timeout s) as [|[d k] r]; [reflexivity|]. destruct (d <? now)%Z; reflexivity.
Qed.

Lemma cl_loop_size fuel : forall now nem s, Inv s -> (length (primary s) < fuel)%nat ->
  limit (check_limits_loop fuel now nem s) = limit s /\
  size (check_limits_loop fuel now nem s) <= size s /\
  (0 < limit s -> size (check_limits_loop fuel now nem s) < limit s).
Proof.
  induction fuel as [|f IH]; intros now nem s I Hf; [lia|].
  rewrite check_limits_loop_unfold. unfold must_evict.
  destruct ((0 <? size s) && ((match nem with b :: _ => b | [] => false end) || ((limit s <=? size s) && (0 <? limit s)))) eqn:Ec.
  - apply andb_true_iff in Ec. destruct Ec as [Hpos _]. apply N.ltb_lt in Hpos.
    destruct (first_victim_some now s I Hpos) as [k Hk]. rewrite Hk.
    pose proof (first_victim_in now s k I Hk) as Hin.
    destruct (pfind k (primary s)) as [c|] eqn:Efk; [|apply pfind_None in Efk; tauto].
    pose proof (delete_node_inv k s I) as I1.
    destruct (premove_len k c _ (inv_keys s I) Efk) as [Hl _].
    assert (Hf1 : (length (primary (delete_node k s)) < f)%nat) by (rewrite (delete_node_primary k s I); lia).
    destruct (IH now (tl nem) (delete_node k s) I1 Hf1) as (H1 & H2 & H3).
    rewrite (delete_node_limit k s) in *. rewrite (delete_node_size_some k c s Efk) in H2.
    split; [exact H1|]. split; [lia|exact H3].
  - split; [reflexivity|]. split; [lia|]. intros Hl.
    destruct (N.ltb_spec 0 (size s)); cbn [andb] in Ec; [|lia].
    apply orb_false_iff in Ec. destruct Ec as [_ Ec].
    destruct (N.leb_spec (limit s) (size s)); destruct (N.ltb_spec 0 (limit s)); cbn [andb] in Ec; try discriminate; lia.
Qed.

Lemma check_limits_size now nem s : Inv s ->
  limit (check_limits now nem s) = limit s /\
  size (check_limits now nem s) <= size s /\
  (0 < limit s -> size (check_limits now nem s) < limit s).
Proof.
  intros I. unfold check_limits. apply cl_loop_size; [exact I|]. rewrite (inv_size s I), Nat2N.id. lia.
Qed.

(* without memory pressure the loop removes exactly as many entries as needed and no more *)
Lemma cl_loop_exact fuel : forall now s, Inv s -> (length (primary s) < fuel)%nat -> 0 < limit s ->
  size (check_limits_loop fuel now [] s) = N.min (size s) (limit s - 1).
Proof.
  induction fuel as [|f IH]; intros now s I Hf Hl; [lia|].
  rewrite check_limits_loop_unfold. unfold must_evict. cbn [orb tl].
  destruct ((0 <? size s) && ((limit s <=? size s) && (0 <? limit s))) eqn:Ec.
  - apply andb_true_iff in Ec. destruct Ec as [Hpos Ec]. apply N.ltb_lt in Hpos.
    apply andb_true_iff in Ec. destruct Ec as [Hle _]. apply N.leb_le in Hle.
    destruct (first_victim_some now s I Hpos) as [k Hk]. rewrite Hk.
    pose proof (first_victim_in now s k I Hk) as Hin.
    destruct (pfind k (primary s)) as [c|] eqn:Efk; [|apply pfind_None in Efk; tauto].
    pose proof (delete_node_inv k s I) as I1.
    destruct (premove_len k c _ (inv_keys s I) Efk) as [Hlen _].
    assert (Hf1 : (length (primary (delete_node k s)) < f)%nat) by (rewrite (delete_node_primary k s I); lia).
    rewrite (IH now (delete_node k s) I1 Hf1) by (rewrite delete_node_limit; exact Hl).
    rewrite delete_node_limit, (delete_node_size_some k c s Efk). lia.
  - destruct (N.ltb_spec 0 (size s)); cbn [andb] in Ec; [|lia].
    destruct (N.leb_spec (limit s) (size s)); destruct (N.ltb_spec 0 (limit s)); cbn [andb] in Ec; try discriminate; lia.
Qed.

Lemma check_limits_exact now s : Inv s -> 0 < limit s ->
  size (check_limits now [] s) = N.min (size s) (limit s - 1).
Proof.
  intros I Hl. unfold check_limits. apply cl_loop_exact; [exact I| |exact Hl]. rewrite (inv_size s I), Nat2N.id. lia.
Qed.

(* nothing is evicted when there is room (or no limit) and no memory pressure *)
Lemma check_limits_idle now s : (limit s = 0 \/ size s < limit s) -> check_limits now [] s = s.
Proof.
  intros H. unfold check_limits. rewrite check_limits_loop_unfold. unfold must_evict. cbn [orb].
  destruct (N.leb_spec (limit s) (size s)); destruct (N.ltb_spec 0 (limit s)); cbn [andb]; try (rewrite andb_false_r; reflexivity); lia.
Qed.

(* ---------- size <= limit in every reachable state ---------- *)
Lemma store_limit_size now k v tin d g f nem s : Inv s -> 0 < limit s -> size s <= limit s ->
  size (store now k v tin d g f nem s) <= limit s.
Proof.
  intros I Hl Hs. pose proof (delete_node_size_le k s) as Hd.
  pose proof (delete_node_inv k s I) as I1.
  destruct (check_limits_size now nem (delete_node k s) I1) as (C1 & C2 & C3).
  rewrite delete_node_limit in *. specialize (C3 Hl).
  unfold store. destruct f as [| | |b].
  - destruct (link_all _ _ _) as [trs tc]. cbn [size]. lia.
  - lia.
  - lia.
  - destruct b; cbn; lia.
Qed.

Lemma step_size_le now o s : Inv s -> 0 < limit s -> size s <= limit s ->
  size (snd (fst (step now o s))) <= limit s.
Proof.
  intros I Hl Hs. destruct o as [k v tin d g f nem|k|t|k| |n]; cbn [step fst snd].
  - apply store_limit_size; assumption.
  - unfold fetch. destruct (pfind k (primary s)) as [c|]; [destruct (_ <? _)%Z|]; cbn [fst snd set_lru size]; exact Hs.
  - unfold rise. destruct (tfind t (triggers s)) as [l|]; [|exact Hs]. pose proof (fold_delete_size l s). lia.
  - unfold remove. pose proof (delete_node_size_le k s). lia.
  - cbn. lia.
  - exact Hs.
Qed.

Lemma reachable_size_le lim now s : reachable lim now s -> 0 < lim -> size s <= lim.
Proof.
  induction 1 as [now|now s o H IH]; intros Hl; [cbn; lia|].
  pose proof (reachable_inv _ _ _ H) as I. pose proof (reachable_limit _ _ _ H) as El.
  specialize (IH Hl). rewrite <- El in *. apply step_size_le; assumption.
Qed.

Lemma reachable_entries_le lim now s : reachable lim now s -> 0 < lim -> N.of_nat (length (primary s)) <= lim.
Proof. intros H Hl. rewrite <- (inv_size s (reachable_inv _ _ _ H)). exact (reachable_size_le _ _ _ H Hl). Qed.

(* every answer of a history reports at most lim keys *)
Lemma run_stats_le ops : forall lim now s, reachable lim now s -> 0 < lim ->
  Forall (fun a : answer => fst (snd a) <= lim) (snd (run now ops s)).
Proof.
  induction ops as [|o ops IH]; intros lim now s H Hl; cbn [run]; [constructor|].
  pose proof (reach_step lim now s o H) as H1.
  destruct (step now o s) as [[now1 s1] a] eqn:E; cbn [fst snd] in H1.
  specialize (IH lim now1 s1 H1 Hl). destruct (run now1 ops s1) as [[now2 s2] l]; cbn [snd] in *.
  constructor; [|exact IH]. cbn [snd fst stats]. exact (reachable_size_le _ _ _ H1 Hl).
Qed.

(* ---------- statistics ---------- *)
Lemma reachable_stats lim now s : reachable lim now s ->
  stats s = (N.of_nat (length (primary s)), N.of_nat (sum_trigs (primary s))).
Proof. intros H. pose proof (reachable_inv _ _ _ H) as I. unfold stats. rewrite (inv_size s I), (inv_tcount s I). reflexivity. Qed.

Lemma run_answers_spec lim now ops : snd (run now ops (init lim)) = snd (a_run now ops (a_init lim)).
Proof.
  destruct (run_ref ops now (init lim) (init_inv lim)) as [_ E].
  change (abs (init lim)) with (a_init lim) in E. rewrite <- E. reflexivity.
Qed.

(* ---------- the victim rule ---------- *)
Definition newer (st : key -> nat) (x y : key) : Prop := (st y < st x)%nat.

Record GInv (g : gstate) : Prop := mkGInv {
  gi_inv : Inv (g_s g);
  gi_sorted : StronglySorted (newer (g_stamp g)) (lru (g_s g));
  gi_bound : Forall (fun k => (g_stamp g k < g_n g)%nat) (lru (g_s g))
}.

Lemma sorted_filter {A} (R : A -> A -> Prop) (P : A -> bool) l : StronglySorted R l -> StronglySorted R (filter P l).
Proof.
  induction 1 as [|a l Hs IH Hall]; cbn [filter]; [constructor|].
  destruct (P a); [|exact IH]. constructor; [exact IH|].
  apply Forall_forall. intros x Hx. apply filter_In in Hx. rewrite Forall_forall in Hall. apply Hall. tauto.
Qed.
Lemma forall_filter {A} (Q : A -> Prop) (P : A -> bool) l : Forall Q l -> Forall Q (filter P l).
Proof. rewrite !Forall_forall. intros H x Hx. apply filter_In in Hx. apply H. tauto. Qed.

(* the recency list only ever loses elements, except for the explicit push_front of store and fetch *)
Definition thinned (l' l : list key) : Prop := exists P, l' = filter P l.
Lemma thinned_refl l : thinned l l.
Proof. exists (fun _ => true). symmetry. apply filter_true. Qed.
Lemma thinned_trans l1 l2 l3 : thinned l1 l2 -> thinned l2 l3 -> thinned l1 l3.
Proof.
  intros [P ->] [Q ->]. exists (fun x => Q x && P x).
  induction l3 as [|x l IH]; cbn [filter]; [reflexivity|].
  destruct (Q x); cbn [filter andb]; [destruct (P x); [f_equal|]; exact IH|exact IH].
Qed.
Lemma thinned_nil l : thinned [] l.
Proof. exists (fun _ => false). induction l; cbn [filter]; auto. Qed.
Lemma delete_node_thinned k s : Inv s -> thinned (lru (delete_node k s)) (lru s).
Proof. intros I. rewrite (delete_node_lru k s I). eexists; reflexivity. Qed.
Lemma fold_delete_thinned l : forall s, Inv s -> thinned (lru (fold_left (fun s k => delete_node k s) l s)) (lru s).
Proof.
  induction l as [|k l IH]; intros s I; cbn [fold_left]; [apply thinned_refl|].
  eapply thinned_trans; [apply IH; apply delete_node_inv; exact I|apply delete_node_thinned; exact I].
Qed.
Lemma cl_loop_thinned fuel : forall now nem s, Inv s -> thinned (lru (check_limits_loop fuel now nem s)) (lru s).
Proof.
  induction fuel as [|f IH]; intros now nem s I.
  - cbn [check_limits_loop]. destruct (_ && _); [|apply thinned_refl]. apply thinned_refl.
  - rewrite check_limits_loop_unfold. destruct (must_evict _ s); [|apply thinned_refl].
    destruct (first_victim now s) as [k|]; [|apply thinned_refl].
    eapply thinned_trans; [apply IH; apply delete_node_inv; exact I|apply delete_node_thinned; exact I].
Qed.

Lemma thinned_ginv (st : key -> nat) n l' l :
  thinned l' l -> StronglySorted (newer st) l -> Forall (fun k => (st k < n)%nat) l ->
  StronglySorted (newer st) l' /\ Forall (fun k => (st k < S n)%nat) l'.
Proof.
  intros [P ->] Hs Hb. split; [apply sorted_filter; exact Hs|].
  apply forall_filter. eapply Forall_impl; [|exact Hb]. cbn. intros; lia.
Qed.

(* push_front of k with a fresh stamp on a list that does not contain k *)
Lemma push_ginv (st : key -> nat) n k l :
  ~ In k l -> StronglySorted (newer st) l -> Forall (fun x => (st x < n)%nat) l ->
  StronglySorted (newer (touch k n st)) (k :: l) /\ Forall (fun x => (touch k n st x < S n)%nat) (k :: l).
Proof.
  intros Hni Hs Hb.
  assert (Heq : forall x, In x l -> touch k n st x = st x).
  { intros x Hx. unfold touch. rewrite key_eqb_neq; [reflexivity|]. intros ->. tauto. }
  assert (Hk : touch k n st k = n) by (unfold touch; rewrite key_eqb_refl; reflexivity).
  split.
  - constructor.
    + clear Hb. induction Hs as [|a l Hs IH Hall]; [constructor|]. constructor.
      * apply IH; [cbn [In] in Hni; tauto|]. intros x Hx. apply Heq. right; exact Hx.
      * apply Forall_forall. intros x Hx. rewrite Forall_forall in Hall. specialize (Hall x Hx).
        unfold newer in *. rewrite (Heq a (or_introl eq_refl)), (Heq x (or_intror Hx)). exact Hall.
    + apply Forall_forall. intros x Hx. rewrite Forall_forall in Hb. specialize (Hb x Hx).
      unfold newer. rewrite Hk, (Heq x Hx). exact Hb.
  - constructor; [rewrite Hk; lia|]. apply Forall_forall. intros x Hx. rewrite Forall_forall in Hb. specialize (Hb x Hx).
    rewrite (Heq x Hx). lia.
Qed.

Lemma store_lru_none now k v tin d g nem s :
  lru (store now k v tin d g FNone nem s) = k :: lru (check_limits now nem (delete_node k s)).
Proof. unfold store. destruct (link_all _ _ _). reflexivity. Qed.

Lemma thinned_notin k l' l : thinned l' l -> ~ In k l -> ~ In k l'.
Proof. intros [P ->] H Hin. apply filter_In in Hin. tauto. Qed.

Lemma g_init_ginv lim : GInv (g_init lim).
Proof. constructor; cbn; [apply init_inv|constructor|constructor]. Qed.

Lemma g_step_ginv now o g : GInv g -> GInv (snd (fst (g_step now o g))).
Proof.
  intros [I Hs Hb]. unfold g_step.
  destruct (step_ref now o (g_s g) I) as [I1 _].
  destruct (step now o (g_s g)) as [[now1 s1] r] eqn:E; cbn [fst snd] in *.
  set (s := g_s g) in *. set (st := g_stamp g) in *. set (n := g_n g) in *.
  (* operations that only thin the recency list and use no key *)
  assert (Hthin : uses o r = None -> thinned (lru s1) (lru s) -> GInv (mkG s1 (S n) (match uses o r with Some k => touch k n st | None => st end))).
  { intros -> Ht. destruct (thinned_ginv st n _ _ Ht Hs Hb) as [A B]. constructor; cbn [g_s g_stamp g_n]; assumption. }
  destruct o as [k v tin d gg f nem|k|t|k| |nn]; cbn [step] in E.
  - inversion E; subst now1 s1 r; clear E.
    destruct f as [| | |b].
    + (* the store goes through: k is pushed to the front with stamp n *)
      cbn [uses]. rewrite store_lru_none in *.
      assert (Ht : thinned (lru (check_limits now nem (delete_node k s))) (lru s)).
      { eapply thinned_trans; [apply cl_loop_thinned; apply delete_node_inv; exact I|apply delete_node_thinned; exact I]. }
      assert (Hni : ~ In k (lru (check_limits now nem (delete_node k s)))).
      { pose proof (inv_lru_nodup _ I1) as Hnd. rewrite store_lru_none in Hnd. inversion Hnd; assumption. }
      destruct Ht as [P Ht]. rewrite Ht in *.
      destruct (push_ginv st n k (filter P (lru s)) Hni (sorted_filter _ P _ Hs) (forall_filter _ P _ Hb)) as [A B].
      constructor; cbn [g_s g_stamp g_n]; [exact I1| |].
      * rewrite store_lru_none, Ht. exact A.
      * rewrite store_lru_none, Ht. exact B.
    + apply Hthin; [reflexivity|]. cbn [store]. apply delete_node_thinned; exact I.
    + apply Hthin; [reflexivity|]. cbn [store]. apply delete_node_thinned; exact I.
    + apply Hthin; [reflexivity|]. cbn [store]. destruct b; cbn; apply thinned_nil.
  - unfold fetch in E. destruct (pfind k (primary s)) as [c|] eqn:Ef.
    + destruct (c_deadline c <? now)%Z.
      * inversion E; subst. apply Hthin; [reflexivity|apply thinned_refl].
      * inversion E; subst now1 s1 r; clear E. cbn [uses set_lru lru] in *.
        assert (Hni : ~ In k (kremove k (lru s))) by (rewrite kremove_In; tauto).
        destruct (push_ginv st n k (kremove k (lru s)) Hni (sorted_filter _ _ _ Hs) (forall_filter _ _ _ Hb)) as [A B].
        constructor; cbn [g_s g_stamp g_n set_lru lru]; assumption.
    + inversion E; subst. apply Hthin; [reflexivity|apply thinned_refl].
  - inversion E; subst. apply Hthin; [reflexivity|].
    unfold rise. destruct (tfind t (triggers s)) as [l|]; [apply fold_delete_thinned; exact I|apply thinned_refl].
  - inversion E; subst. apply Hthin; [reflexivity|]. apply delete_node_thinned; exact I.
  - inversion E; subst. apply Hthin; [reflexivity|]. cbn. apply thinned_nil.
  - inversion E; subst. apply Hthin; [reflexivity|apply thinned_refl].
Qed.

Lemma g_run_ginv ops : forall now g, GInv g -> GInv (snd (g_run now ops g)).
Proof.
  induction ops as [|o ops IH]; intros now g G; cbn [g_run]; [exact G|].
  pose proof (g_step_ginv now o g G) as G1.
  destruct (g_step now o g) as [[now1 g1] r]; cbn [fst snd] in G1. apply IH; exact G1.
Qed.

(* the instrumentation does not change the model: g_run computes run *)
Lemma g_run_state ops : forall now g, g_s (snd (g_run now ops g)) = snd (fst (run now ops (g_s g))) /\
                                       fst (g_run now ops g) = fst (fst (run now ops (g_s g))).
Proof.
  induction ops as [|o ops IH]; intros now g; cbn [g_run run]; [split; reflexivity|].
  unfold g_step. destruct (step now o (g_s g)) as [[now1 s1] r].
  specialize (IH now1 (mkG s1 (S (g_n g)) (match uses o r with Some k => touch k (g_n g) (g_stamp g) | None => g_stamp g end))).
  cbn [g_s] in IH. destruct (run now1 ops s1) as [[now2 s2] l]. cbn [fst snd] in *. exact IH.
Qed.

Lemma sorted_last_min (st : key -> nat) l v : StronglySorted (newer st) l -> last_opt l = Some v ->
  forall x, In x l -> x = v \/ (st v < st x)%nat.
Proof.
  induction 1 as [|a l Hs IH Hall]; cbn [last_opt]; [discriminate|].
  destruct l as [|b l'].
  - intros [= ->] x [->|[]]. left; reflexivity.
  - intros Hl x [->|Hx].
    + right. rewrite Forall_forall in Hall. apply (Hall v). apply last_opt_In. exact Hl.
    + apply IH; assumption.
Qed.

Lemma sorted_head_min d k r E : tsort E = (d, k) :: r ->
  forall k' c', In (k', c') E -> (d <= c_deadline c')%Z.
Proof.
  intros Ht k' c' Hin. pose proof (tsort_sorted E) as Hs. rewrite Ht in Hs.
  assert (Hi : In (c_deadline c', k') (tsort E)) by (apply tsort_In; eauto).
  rewrite Ht in Hi. destruct Hi as [Hi|Hi]; [inversion Hi; lia|].
  inversion Hs as [|? ? _ Hall]; subst. rewrite Forall_forall in Hall. apply (Hall _ Hi).
Qed.

(* The rule.  In a state reached by any history, the entry the next loop iteration deletes is
   - an entry whose deadline has passed and is the smallest of all deadlines, or
   - when no deadline has passed: the entry whose last store-or-hit is older than that of every other entry. *)
Lemma victim_rule_ginv now g v : GInv g -> first_victim now (g_s g) = Some v ->
  (exists c, In (v, c) (primary (g_s g)) /\ (c_deadline c < now)%Z /\
             forall k' c', In (k', c') (primary (g_s g)) -> (c_deadline c <= c_deadline c')%Z)
  \/
  ((forall k' c', In (k', c') (primary (g_s g)) -> (now <= c_deadline c')%Z) /\
   In v (map fst (primary (g_s g))) /\
   forall k', In k' (map fst (primary (g_s g))) -> k' <> v -> (g_stamp g v < g_stamp g k')%nat).
Proof.
  intros [I Hs Hb] Hv. set (s := g_s g) in *.
  pose proof (first_victim_in now s v I Hv) as Hin.
  unfold first_victim in Hv. rewrite (inv_timeout s I) in Hv.
  assert (Hlru : last_opt (lru s) = Some v -> (forall k' c', In (k', c') (primary s) -> (now <= c_deadline c')%Z) ->
                 (forall k' c', In (k', c') (primary s) -> (now <= c_deadline c')%Z) /\ In v (map fst (primary s)) /\
                 forall k', In k' (map fst (primary s)) -> k' <> v -> (g_stamp g v < g_stamp g k')%nat).
  { intros Hl Hlive. split; [exact Hlive|]. split; [exact Hin|]. intros k' Hk' Hne.
    apply (inv_lru s I) in Hk'. destruct (sorted_last_min _ _ _ Hs Hl k' Hk'); [contradiction|assumption]. }
  destruct (tsort (primary s)) as [|[d k] r] eqn:Et.
  - right. apply Hlru; [exact Hv|]. apply tsort_nil in Et. rewrite Et. intros ? ? [].
  - pose proof (sorted_head_min d k r _ Et) as Hmin.
    destruct (Z.ltb_spec d now) as [Hd|Hd].
    + left. inversion Hv; subst v.
      assert (Hi : In (d, k) (tsort (primary s))) by (rewrite Et; left; reflexivity).
      apply tsort_In in Hi. destruct Hi as (c & Hc & Hdc). exists c. subst d. split; [exact Hc|]. split; [exact Hd|exact Hmin].
    + right. apply Hlru; [exact Hv|]. intros k' c' Hc'. specialize (Hmin k' c' Hc'). lia.
Qed.

Lemma victim_rule_history lim t0 ops now v :
  let g := snd (g_run t0 ops (g_init lim)) in
  first_victim now (g_s g) = Some v ->
  (exists c, In (v, c) (primary (g_s g)) /\ (c_deadline c < now)%Z /\
             forall k' c', In (k', c') (primary (g_s g)) -> (c_deadline c <= c_deadline c')%Z)
  \/
  ((forall k' c', In (k', c') (primary (g_s g)) -> (now <= c_deadline c')%Z) /\
   In v (map fst (primary (g_s g))) /\
   forall k', In k' (map fst (primary (g_s g))) -> k' <> v -> (g_stamp g v < g_stamp g k')%nat).
Proof. intros g. apply victim_rule_ginv. apply g_run_ginv. apply g_init_ginv. Qed.
