(* C08: executable definitions (no proofs).
   Part 1 - cache.  The model of mem_cache is C07.Defs (store / fetch / rise / remove / clear /
   check_limits, shared with C07).  Here: the victim function read off check_limits, and a
   history instrumentation (use stamps) against which the LRU clause of the property is stated.
   Part 2 - buddy allocator (private/buddy_allocator.h): constructor, malloc, free,
   total_free_memory, max_free_chunk over a page-header map and per-order free lists. *)
From Coq Require Import NArith ZArith List Bool.
From CppcmsV Require Import C07.Defs.
Import ListNotations.
Local Open Scope N_scope.

(* ------------------------------------------------------------------------------------------ *)
(* Part 1: cache                                                                                *)
(* ------------------------------------------------------------------------------------------ *)

(* the entry one iteration of the check_limits loop deletes:
     if(!timeout.empty() && timeout.begin()->first<now) main=timeout.begin()->second;
     else if(!lru.empty()) main=*lru.rbegin();  else break;                                      *)
Definition first_victim (now : Z) (s : state) : option key :=
  match timeout s with
  | (d, k) :: _ => if (d <? now)%Z then Some k else last_opt (lru s)
  | [] => last_opt (lru s)
  end.

(* the loop condition  size > 0 && (not_enough_memory() || (size>=limit && limit>0)) *)
Definition must_evict (pressure : bool) (s : state) : bool :=
  (0 <? size s) && (pressure || ((limit s <=? size s) && (0 <? limit s))).

(* History instrumentation: the n-th operation of a history has number n; stamp k is the number of
   the last operation that stored k (a store that went through) or fetched it successfully. *)
Record gstate := mkG {
  g_s : state;
  g_n : nat;
  g_stamp : key -> nat
}.

Definition g_init (lim : N) : gstate := mkG (init lim) 0 (fun _ => O).

Definition touch (k : key) (n : nat) (st : key -> nat) : key -> nat :=
  fun x => if key_eqb x k then n else st x.

Definition uses (o : op) (r : out) : option key :=
  match o, r with
  | Store k _ _ _ _ FNone _, _ => Some k
  | Fetch k, OHit _ _ _ _ => Some k
  | _, _ => None
  end.

Definition g_step (now : Z) (o : op) (g : gstate) : Z * gstate * out :=
  let '(now1, s1, r) := step now o (g_s g) in
  (now1,
   mkG s1 (S (g_n g)) (match uses o r with Some k => touch k (g_n g) (g_stamp g) | None => g_stamp g end),
   r).

Fixpoint g_run (now : Z) (ops : list op) (g : gstate) : Z * gstate :=
  match ops with
  | [] => (now, g)
  | o :: r => let '(now1, g1, _) := g_step now o g in g_run now1 r g1
  end.

(* entries of the model state *)
Definition deadline_of (e : key * container) : Z := c_deadline (snd e).

(* ------------------------------------------------------------------------------------------ *)
(* Part 2: buddy allocator                                                                      *)
(* ------------------------------------------------------------------------------------------ *)
(* Offsets are relative to memory() = (char* )this + sizeof( *this).
   hdr o = Some (b, u) : a page header written at offset o with  bits = b + (u ? page_in_use : 0).
   The model keeps only the headers of current pages (a header that a merge leaves behind inside the
   merged page is dropped); reading a missing header sets b_err, which is proved unreachable: the
   real code never looks at stale header bytes or at user data.
   fl b : free_list_[b], head first.                                                             *)
Definition alignment_bits : N := 4.
Definition alignment : N := 16.
Definition page_in_use : N := 256.  (* 0x100: the model keeps the flag as the bool of a header *)
Definition page_header_size : N := 24. (* sizeof(page): int bits; page *next; page *prev - must be <= 2*alignment *)
Definition self_size : N := 544.   (* sizeof(buddy_allocator) on LP64: 64 pointers + size_t + int(+pad) + 2 size_t *)

Record bstate := mkB {
  b_msize : N;                       (* memory_size_ *)
  b_maxbits : option N;              (* max_bit_size_, None = -1 *)
  b_hdr : N -> option (N * bool);
  b_fl : N -> list N;
  b_err : bool
}.

Definition upd {A} (f : N -> A) (k : N) (v : A) : N -> A := fun x => if x =? k then v else f x.

Definition set_hdr (s : bstate) (o : N) (v : option (N * bool)) : bstate :=
  mkB (b_msize s) (b_maxbits s) (upd (b_hdr s) o v) (b_fl s) (b_err s).
Definition set_fl (s : bstate) (b : N) (l : list N) : bstate :=
  mkB (b_msize s) (b_maxbits s) (b_hdr s) (upd (b_fl s) b l) (b_err s).
Definition set_berr (s : bstate) : bstate :=
  mkB (b_msize s) (b_maxbits s) (b_hdr s) (b_fl s) true.

(* containts_bits(n): the i in 1..62 with 2^i <= n < 2^(i+1), else -1 *)
Definition contains_bits (n : N) : option N :=
  if (2 <=? n) && (n <? 2 ^ 63) then Some (N.log2 n) else None.

(* get_bits(n): least i < 64 with 2^i >= n (64 if none) *)
Definition get_bits (n : N) : N :=
  if n <=? 2 ^ 63 then N.log2_up n else 64.

(* constructor: carve the usable memory into pages of decreasing power-of-two size *)
Fixpoint b_init_loop (fuel : nat) (pos rem : N) (s : bstate) : bstate :=
  match fuel with
  | O => s
  | S f =>
      match contains_bits rem with
      | None => s
      | Some bits =>
          if bits <? alignment_bits + 1 then s
          else
            let s1 := set_fl (set_hdr s pos (Some (bits, false))) bits [pos] in
            let s2 := match b_maxbits s1 with
                      | None => mkB (b_msize s1) (Some bits) (b_hdr s1) (b_fl s1) (b_err s1)
                      | Some _ => s1
                      end in
            b_init_loop f (pos + 2 ^ bits) (rem - 2 ^ bits) s2
      end
  end.

Definition b_init (memory_size : N) : bstate :=
  let ms := memory_size - self_size in
  b_init_loop 64 0 ms (mkB ms None (fun _ => None) (fun _ => []) false).

(* page_alloc(bit_size); fuel = number of orders above bit_size that may be visited *)
Fixpoint page_alloc (fuel : nat) (bits : N) (s : bstate) : option N * bstate :=
  match b_maxbits s with
  | None => (None, s)
  | Some mb =>
    if mb <? bits then (None, s)
    else
      match b_fl s bits with
      | p :: rest =>
          (Some p, set_hdr (set_fl s bits rest) p (Some (bits, true)))
      | [] =>
          match fuel with
          | O => (None, set_berr s)
          | S f =>
              match page_alloc f (bits + 1) s with
              | (None, s1) => (None, s1)
              | (Some p, s1) =>
                  let unused := p + 2 ^ bits in
                  let s2 := set_fl (set_hdr s1 unused (Some (bits, false))) bits [unused] in
                  (Some p, set_hdr s2 p (Some (bits, true)))
              end
          end
      end
  end.

Definition malloc_size (req : N) : N := ((req + alignment - 1) / alignment + 1) * alignment.

Definition b_malloc (req : N) (s : bstate) : option N * bstate :=
  let bits := get_bits (malloc_size req) in
  match page_alloc 64 bits s with
  | (Some p, s1) => (Some (p + alignment), s1)
  | (None, s1) => (None, s1)
  end.

(* get_buddy(p) for a page of 2^bits bytes at offset p *)
Definition get_buddy (s : bstate) (p bits : N) : option N :=
  let b := N.lxor (2 ^ bits) p in
  if b_msize s <? b + 2 ^ bits then None else Some b.

Fixpoint fl_remove (x : N) (l : list N) : list N :=
  match l with
  | [] => []
  | y :: r => if y =? x then r else y :: fl_remove x r
  end.

(* free_page(p): p is in use with order bits *)
Fixpoint free_page (fuel : nat) (p bits : N) (s : bstate) : bstate :=
  let put := set_hdr (set_fl s bits (p :: b_fl s bits)) p (Some (bits, false)) in
  match get_buddy s p bits with
  | None => put
  | Some b =>
      match b_hdr s b with
      | None => set_berr s                       (* would read bytes that are not a current header *)
      | Some (bb, bu) =>
          if (bb =? bits) && negb bu then
            match fuel with
            | O => set_berr s
            | S f =>
                let s1 := set_fl s bits (fl_remove b (b_fl s bits)) in
                let lo := N.min p b in
                let hi := N.max p b in
                let s2 := set_hdr (set_hdr s1 hi None) lo (Some (bits + 1, true)) in
                free_page f lo (bits + 1) s2
            end
          else put
      end
  end.

Definition b_free (ptr : N) (s : bstate) : bstate :=
  let p := ptr - alignment in
  match b_hdr s p with
  | Some (bits, true) => free_page 64 p bits s
  | _ => set_berr s                              (* assert(p->bits & page_in_use) *)
  end.

Fixpoint nseq (start : N) (len : nat) : list N :=
  match len with O => [] | S n => start :: nseq (N.succ start) n end.

Definition total_free_at (s : bstate) (bits : N) : N :=
  N.of_nat (length (b_fl s bits)) * (2 ^ bits - alignment).

Definition total_free_memory (s : bstate) : N :=
  fold_left (fun acc b => acc + total_free_at s b) (nseq 0 64) 0.

(* for(bits=63;bits>0;bits--) if(free_list_[bits]) return total_free_at(bits); *)
Definition max_free_chunk (s : bstate) : N :=
  match filter (fun b => match b_fl s b with [] => false | _ => true end) (rev (nseq 1 63)) with
  | b :: _ => total_free_at s b
  | [] => 0
  end.

(* operation sequences for the correspondence driver *)
Inductive bop := BMalloc (req : N) | BFree (ptr : N).

Definition b_step (o : bop) (s : bstate) : option N * bstate :=
  match o with
  | BMalloc r => b_malloc r s
  | BFree p => (None, b_free p s)
  end.
