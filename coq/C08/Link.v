(* C08: the shapes read off the CURRENT private/hash_map.h and src/cache_storage.cpp (coq/gen/Gen_C08_hashmap.v, written by
   checks/C08.py on every run) are the ones the resource model ResDefs.v assumes.  Removing the catch block of
   basic_map::allocate, the deallocate of destroy, a destroy call of erase / clear, or changing the bad_alloc handlers
   of mem_cache::store breaks these lemmas before any run has to find the leak. *)
From Coq Require Import List Bool.
From CppcmsV Require Import C08.ResDefs gen.Gen_C08_hashmap.
Import ListNotations.

(* p = al.allocate(1); try { new (p) container(v); } catch(...) { al.deallocate(p,1); throw; } return p; *)
Lemma link_allocate_protected : allocate_protected g_allocate_copy = true.
Proof. reflexivity. Qed.

Lemma link_allocate_default_protected :
  shape_eqb g_allocate_default [SDeclAlloc; SAllocate; STryConstructDefault; SCatchDeallocRethrow; SReturnP] = true.
Proof. reflexivity. Qed.

(* destroy(p): p->~container(); al.deallocate(p,1); *)
Lemma link_destroy_releases : destroy_releases g_destroy = true.
Proof. reflexivity. Qed.

(* erase destroys the node it unlinks; both branches of clear destroy every node *)
Lemma link_erase_destroys : count_destroy g_erase = 1%nat.
Proof. reflexivity. Qed.
Lemma link_clear_destroys : count_destroy g_clear = 2%nat.
Proof. reflexivity. Qed.

(* mem_cache::store: catch(bad_alloc) of the value copy is  remove(key); return;  the other one is  nl_clear();  (ResDefs.r_store) *)
Lemma link_store_handlers : g_store_value_copy_handler_removes && g_store_handler_clears = true.
Proof. reflexivity. Qed.

(* nl_clear (repaired, /repo a6386b3): timeout.clear(); lru.clear(); primary.clear(); triggers.clear(); size=0; triggers_count=0;
   and only then primary.rehash(limit); triggers.rehash(limit);  - the statement order of ResDefs.nl_clear *)
Lemma link_nl_clear_rehashes_last : g_nl_clear_clears_every_container_then_rehashes = true.
Proof. reflexivity. Qed.

(* fetch (repaired, /repo 117bb4c): the recency update is  lock_guard lock( *lru_mutex); lru.splice(lru.begin(),lru,p->second.lru);
   and nothing else - ResDefs.RFetch obtains and releases no block *)
Lemma link_fetch_lru_update_is_one_splice : g_fetch_lru_update_is_one_splice = true.
Proof. reflexivity. Qed.
