(* C08: the cache stays usable after a rehash of nl_clear() threw (repaired nl_clear, /repo a6386b3): the allocation of a bucket
   vector succeeds as soon as the allocator has a free page that is large enough, and then clear() goes through. *)
From CppcmsV Require Import Base.Tac C07.Defs C08.Defs C08.ResDefs.
Import ListNotations.
Local Open Scope N_scope.

Lemma page_alloc_succeeds fuel : forall bits s mb b', b_maxbits s = Some mb -> bits <= b' -> b' <= mb -> b_fl s b' <> [] ->
  (N.to_nat (b' - bits) <= fuel)%nat -> exists p s', page_alloc fuel bits s = (Some p, s').
Proof.
  induction fuel as [|f IH]; intros bits s mb b' Hmb Hlo Hhi Hne Hfuel.
  - assert (b' = bits) by lia. subst b'. cbn [page_alloc]. rewrite Hmb.
    destruct (N.ltb_spec mb bits) as [K|_]; [lia|]. destruct (b_fl s bits) as [|p rest]; [congruence|]. eexists; eexists; reflexivity.
  - cbn [page_alloc]. rewrite Hmb. destruct (N.ltb_spec mb bits) as [K|_]; [lia|].
    destruct (b_fl s bits) as [|p rest] eqn:E; [|eexists; eexists; reflexivity].
    assert (Hlt : bits < b') by (destruct (N.eq_dec bits b') as [->|]; [congruence|lia]).
    destruct (IH (bits + 1) s mb b' Hmb) as (p & s1 & Hp); [lia|exact Hhi|exact Hne|lia|].
    rewrite Hp. eexists; eexists; reflexivity.
Qed.

(* a free page of sufficient order exists *)
Definition has_room (a : bstate) (req : N) : Prop :=
  exists mb b', b_maxbits a = Some mb /\ get_bits (malloc_size req) <= b' /\ b' <= mb /\ b' <= 64 /\ b_fl a b' <> [].

Lemma malloc_succeeds req a : has_room a req -> exists p a', b_malloc req a = (Some p, a').
Proof.
  intros (mb & b' & Hmb & Hlo & Hhi & H64 & Hne). unfold b_malloc.
  destruct (page_alloc_succeeds 64 (get_bits (malloc_size req)) a mb b' Hmb Hlo Hhi Hne) as (p & a' & Hp); [lia|].
  rewrite Hp. eexists; eexists; reflexivity.
Qed.

Lemma ralloc_succeeds tg req r : r_faults r = [] -> has_room (r_a r) req ->
  snd (ralloc tg req r) = true /\ r_faults (fst (ralloc tg req r)) = [] /\ r_limit (fst (ralloc tg req r)) = r_limit r.
Proof.
  intros Hf Hr. unfold ralloc. rewrite Hf. destruct (malloc_succeeds req (r_a r) Hr) as (p & a' & Hp). rewrite Hp.
  cbn [fst snd r_faults r_limit with_b with_a with_faults tl]. repeat split; reflexivity.
Qed.

Lemma regrow_succeeds w r : r_faults r = [] -> (0 < r_limit r -> has_room (r_a r) (sz_bucket * r_limit r)) ->
  snd (regrow w r) = true /\ r_faults (fst (regrow w r)) = [] /\ r_limit (fst (regrow w r)) = r_limit r.
Proof.
  intros Hf Hr. unfold regrow. destruct (r_limit r =? 0) eqn:E.
  - cbn [fst snd]. repeat split; [exact Hf].
  - apply N.eqb_neq in E. assert (Hp : 0 < r_limit r) by lia.
    destruct (ralloc_succeeds (TV w (N.succ (r_gen r))) (sz_bucket * r_limit r) r Hf (Hr Hp)) as (A & B & C).
    destruct (ralloc (TV w (N.succ (r_gen r))) (sz_bucket * r_limit r) r) as [r1 ok]. cbn [fst snd] in *. subst ok.
    cbn [fst snd]. repeat split; [exact B|exact C].
Qed.

(* clear() goes through as soon as - with every container emptied - the allocator has a free page for a bucket vector, and again
   one after the first vector was re-created (the old vector is released only afterwards); no memory is needed at all for limit 0.
   In particular after a clear() or a store whose nl_clear() threw: the state it left holds nothing but bucket vectors
   (ProofsRes2.clear_only_vectors), so the retry needs no more than these two pages. *)
Lemma clear_succeeds_with_room r : r_faults r = [] ->
  let r1 := free_where trigger_side (free_where primary_side r) in
  (0 < r_limit r -> has_room (r_a r1) (sz_bucket * r_limit r)) ->
  (0 < r_limit r -> forall r2, regrow true r1 = (r2, true) -> has_room (r_a r2) (sz_bucket * r_limit r)) ->
  snd (nl_clear r) = true.
Proof.
  intros Hf r1 H1 H2. unfold nl_clear. cbv zeta. fold r1.
  assert (Hf1 : r_faults r1 = []) by exact Hf.
  assert (Hl1 : r_limit r1 = r_limit r) by reflexivity.
  destruct (regrow_succeeds true r1 Hf1) as (A & B & C); [rewrite Hl1; exact H1|].
  unfold bind. rewrite A.
  destruct (regrow true r1) as [r2 ok] eqn:E. cbn [fst snd] in *. subst ok.
  destruct (regrow_succeeds false r2 B) as (A2 & _ & _); [|exact A2].
  rewrite C, Hl1. intros Hp. exact (H2 Hp r2 eq_refl).
Qed.
