(* C08, buddy allocator: arithmetic of aligned power-of-two blocks and of the XOR buddy *)
From CppcmsV Require Import Base.Tac.
Local Open Scope N_scope.

Lemma pow2_pos k : 0 < 2 ^ k.
Proof. apply N.neq_0_lt_0. apply N.pow_nonzero. discriminate. Qed.

Lemma pow2_split a b : a <= b -> 2 ^ b = 2 ^ (b - a) * 2 ^ a.
Proof. intros H. rewrite <- N.pow_add_r. f_equal. lia. Qed.

Lemma pow2_le a b : a <= b -> 2 ^ a <= 2 ^ b.
Proof. intros H. apply N.pow_le_mono_r; [discriminate|exact H]. Qed.
Lemma pow2_lt a b : a < b -> 2 ^ a < 2 ^ b.
Proof. intros H. apply N.pow_lt_mono_r; [reflexivity|exact H]. Qed.
Lemma pow2_succ k : 2 ^ (k + 1) = 2 * 2 ^ k.
Proof. rewrite N.add_1_r. apply N.pow_succ_r'. Qed.

Lemma aligned_mult o k : o mod 2 ^ k = 0 <-> exists q, o = q * 2 ^ k.
Proof.
  pose proof (pow2_pos k) as Hp. split.
  - intros H. exists (o / 2 ^ k). pose proof (N.div_mod o (2 ^ k)). lia.
  - intros [q ->]. apply N.mod_mul. lia.
Qed.

Lemma aligned_weaken o a b : a <= b -> o mod 2 ^ b = 0 -> o mod 2 ^ a = 0.
Proof.
  intros Hab H. apply aligned_mult in H. destruct H as [q ->]. apply aligned_mult.
  exists (q * 2 ^ (b - a)). rewrite (pow2_split a b Hab). lia.
Qed.

(* an aligned block that contains the start of an aligned block of at least its size starts there *)
Lemma aligned_start o bq b bits : o mod 2 ^ bq = 0 -> b mod 2 ^ bits = 0 -> bq <= bits ->
  o <= b -> b < o + 2 ^ bq -> o = b.
Proof.
  intros Ho Hb Hle H1 H2. apply (aligned_weaken b bq bits Hle) in Hb.
  apply aligned_mult in Ho. apply aligned_mult in Hb. destruct Ho as [n ->]. destruct Hb as [m ->].
  pose proof (pow2_pos bq). assert (n = m) by nia. subst. reflexivity.
Qed.

(* an aligned block that meets a smaller aligned block contains it *)
Lemma aligned_nested o bq P k : o mod 2 ^ bq = 0 -> P mod 2 ^ k = 0 -> k <= bq ->
  forall x, o <= x -> x < o + 2 ^ bq -> P <= x -> x < P + 2 ^ k -> o <= P /\ P + 2 ^ k <= o + 2 ^ bq.
Proof.
  intros Ho HP Hle x H1 H2 H3 H4.
  apply aligned_mult in Ho. apply aligned_mult in HP. destruct Ho as [n ->]. destruct HP as [m ->].
  rewrite (pow2_split k bq Hle) in *. set (c := 2 ^ (bq - k)) in *. set (U := 2 ^ k) in *.
  assert (0 < U) by apply pow2_pos.
  assert (n * c <= m) by nia. assert (m < n * c + c) by nia. nia.
Qed.

(* the XOR buddy of an aligned block is the other half of the enclosing aligned block of twice the size *)
Lemma lxor_one q : N.lxor 1 q = if N.even q then q + 1 else q - 1.
Proof. destruct q as [|[r|r|]]; reflexivity. Qed.

Lemma buddy_spec p k : p mod 2 ^ k = 0 ->
  let b := N.lxor (2 ^ k) p in
  (b = p + 2 ^ k /\ p mod 2 ^ (k + 1) = 0) \/ (p = b + 2 ^ k /\ b mod 2 ^ (k + 1) = 0).
Proof.
  intros Hp b. apply aligned_mult in Hp. destruct Hp as [q Hq].
  assert (Hb : b = N.lxor 1 q * 2 ^ k).
  { unfold b. rewrite Hq. rewrite <- (N.mul_1_l (2 ^ k)) at 1. rewrite <- !N.shiftl_mul_pow2. symmetry. apply N.shiftl_lxor. }
  rewrite lxor_one in Hb. pose proof (pow2_pos k) as Hpos. rewrite pow2_succ.
  destruct (N.even q) eqn:Ev.
  - left. apply N.even_spec in Ev. destruct Ev as [r ->]. split; [lia|].
    subst p. replace (2 * r * 2 ^ k) with (r * (2 * 2 ^ k)) by lia. apply N.mod_mul. lia.
  - right. assert (Ho : N.odd q = true) by (rewrite <- N.negb_even, Ev; reflexivity).
    apply N.odd_spec in Ho. destruct Ho as [r ->]. split; [lia|].
    rewrite Hb. replace ((2 * r + 1 - 1) * 2 ^ k) with (r * (2 * 2 ^ k)) by lia. apply N.mod_mul. lia.
Qed.

Lemma buddy_invol p k : N.lxor (2 ^ k) (N.lxor (2 ^ k) p) = p.
Proof. rewrite <- N.lxor_assoc, N.lxor_nilpotent, N.lxor_0_l. reflexivity. Qed.

Lemma buddy_aligned p k : p mod 2 ^ k = 0 -> N.lxor (2 ^ k) p mod 2 ^ k = 0.
Proof.
  intros H. destruct (buddy_spec p k H) as [[E A]|[E A]].
  - rewrite E. apply aligned_mult in H. destruct H as [q ->]. apply aligned_mult. exists (q + 1). lia.
  - apply (aligned_weaken _ k (k + 1)); [lia|exact A].
Qed.

Lemma buddy_neq p k : p mod 2 ^ k = 0 -> N.lxor (2 ^ k) p <> p.
Proof. intros H. pose proof (pow2_pos k). destruct (buddy_spec p k H) as [[E _]|[E _]]; lia. Qed.

(* two distinct multiples of 2^k are at least 2^k apart *)
Lemma aligned_gap a b k : a mod 2 ^ k = 0 -> b mod 2 ^ k = 0 -> a < b -> a + 2 ^ k <= b.
Proof.
  intros Ha Hb Hlt. apply aligned_mult in Ha, Hb. destruct Ha as [q1 ->]. destruct Hb as [q2 ->].
  pose proof (pow2_pos k) as Hp. assert (q1 < q2) by (apply (N.mul_lt_mono_pos_r (2 ^ k)); assumption).
  replace (q1 * 2 ^ k + 2 ^ k) with ((q1 + 1) * 2 ^ k) by lia. apply N.mul_le_mono_r. lia.
Qed.
Lemma aligned_add a b k : a mod 2 ^ k = 0 -> b mod 2 ^ k = 0 -> (a + b) mod 2 ^ k = 0.
Proof.
  intros Ha Hb. apply aligned_mult in Ha, Hb. destruct Ha as [q1 ->]. destruct Hb as [q2 ->].
  apply aligned_mult. exists (q1 + q2). lia.
Qed.
Lemma pow2_aligned k b : k <= b -> 2 ^ b mod 2 ^ k = 0.
Proof. intros H. apply aligned_mult. exists (2 ^ (b - k)). apply pow2_split. exact H. Qed.

(* top-level pages: aligned to twice their size and the memory ends before their would-be buddy does *)
Lemma top_disjoint M o1 b1 o2 b2 :
  o1 mod 2 ^ (b1 + 1) = 0 -> o1 + 2 ^ b1 <= M -> M < o1 + 2 ^ (b1 + 1) ->
  o2 mod 2 ^ (b2 + 1) = 0 -> o2 + 2 ^ b2 <= M -> M < o2 + 2 ^ (b2 + 1) ->
  o1 < o2 -> o1 + 2 ^ b1 <= o2.
Proof.
  intros A1 B1 C1 A2 B2 C2 Hlt.
  pose proof (pow2_succ b1) as Hs1. pose proof (pow2_succ b2) as Hs2. pose proof (pow2_pos b1) as Hp1. pose proof (pow2_pos b2) as Hp2.
  destruct (N.le_gt_cases (o1 + 2 ^ b1) o2) as [H|Hov]; [exact H|exfalso].
  destruct (N.le_gt_cases b1 b2) as [Hb|Hb].
  - apply (aligned_weaken o2 (b1 + 1) (b2 + 1)) in A2; [|lia].
    pose proof (aligned_gap o1 o2 (b1 + 1) A1 A2 Hlt). clear A1 A2. lia.
  - assert (Hm : (o1 + 2 ^ b1) mod 2 ^ (b2 + 1) = 0).
    { apply aligned_add; [apply (aligned_weaken o1 (b2 + 1) (b1 + 1)); [lia|exact A1]|apply pow2_aligned; lia]. }
    pose proof (aligned_gap o2 (o1 + 2 ^ b1) (b2 + 1) A2 Hm Hov). clear A1 A2 Hm. lia.
Qed.
