(* C08, buddy allocator: page_alloc / malloc / free_page / free preserve the invariant; block disjointness *)
From CppcmsV Require Import Base.Tac C08.Defs C08.BuddyArith C08.ProofsBuddy C08.ProofsBuddy2.
Local Open Scope N_scope.

Definition used (s : bstate) (o b : N) : Prop := b_hdr s o = Some (b, true).

Lemma page_alloc_split_eq f bits s mb : b_maxbits s = Some mb -> (mb <? bits) = false -> b_fl s bits = [] ->
  page_alloc (S f) bits s =
  match page_alloc f (bits + 1) s with
  | (None, s1) => (None, s1)
  | (Some p, s1) => (Some p, split_state s1 p bits)
  end.
Proof. intros H1 H2 H3. cbn [page_alloc]. rewrite H1, H2, H3. destruct (page_alloc f (bits + 1) s) as [[p|] s1]; reflexivity. Qed.

Lemma page_alloc_take_eq fuel bits s mb p rest : b_maxbits s = Some mb -> (mb <? bits) = false -> b_fl s bits = p :: rest ->
  page_alloc fuel bits s = (Some p, take_state s p bits rest).
Proof. intros H1 H2 H3. destruct fuel; cbn [page_alloc]; rewrite H1, H2, H3; reflexivity. Qed.

Lemma page_alloc_spec fuel : forall bits s, BInv s -> 5 <= bits ->
  (forall mb, b_maxbits s = Some mb -> (N.to_nat (mb + 1 - bits) <= fuel)%nat) ->
  match page_alloc fuel bits s with
  | (None, s') => s' = s
  | (Some p, s') =>
      BInv s' /\ b_hdr s' p = Some (bits, true) /\ b_msize s' = b_msize s /\ b_maxbits s' = b_maxbits s /\
      (forall o, o <> p -> forall b, used s' o b <-> used s o b) /\
      (forall b, ~ used s p b) /\
      (forall b', b' < bits -> b_fl s' b' = b_fl s b')
  end.
Proof.
  induction fuel as [|f IH]; intros bits s I H5 Hfuel.
  - (* no fuel: only the immediate cases can occur *)
    destruct (b_maxbits s) as [mb|] eqn:Emb; [|cbn [page_alloc]; rewrite Emb; reflexivity].
    destruct (N.ltb_spec mb bits) as [Hlt|Hge]; [cbn [page_alloc]; rewrite Emb; destruct (N.ltb_spec mb bits); [reflexivity|lia]|].
    specialize (Hfuel mb eq_refl). lia.
  - destruct (b_maxbits s) as [mb|] eqn:Emb; [|cbn [page_alloc]; rewrite Emb; reflexivity].
    destruct (mb <? bits) eqn:Elt; [cbn [page_alloc]; rewrite Emb, Elt; reflexivity|].
    destruct I as [Herr G Fr].
    destruct (b_fl s bits) as [|p rest] eqn:Efl.
    + rewrite (page_alloc_split_eq f bits s mb Emb Elt Efl).
      apply N.ltb_ge in Elt.
      assert (Hf1 : forall mb0, b_maxbits s = Some mb0 -> (N.to_nat (mb0 + 1 - (bits + 1)) <= f)%nat).
      { intros mb0 H. rewrite Emb in H. inversion H; subst mb0. specialize (Hfuel mb eq_refl). lia. }
      specialize (IH (bits + 1) s (mkBInv s Herr G Fr) ltac:(lia) Hf1).
      destruct (page_alloc f (bits + 1) s) as [[p|] s1]; [|exact IH].
      destruct IH as ([Herr1 G1 Fr1] & Hp1 & Hms & Hmx & Hused & Hnew & Hfls).
      assert (Hfl1 : b_fl s1 bits = []) by (rewrite Hfls by lia; exact Efl).
      pose proof (pow2_pos bits) as Hpos. pose proof (pow2_succ bits) as Hsucc.
      assert (Hun : b_hdr s1 (p + 2 ^ bits) = None).
      { assert (H : geom s1 (p + 2 ^ bits) = None) by (apply (geom_interior s1 p (bits + 1) G1 (hdr_geom _ _ _ _ Hp1)); lia).
        unfold geom in H. destruct (b_hdr s1 (p + 2 ^ bits)); [discriminate|reflexivity]. }
      split; [|split; [|split; [|split; [|split; [|split]]]]].
      * constructor; [exact Herr1|apply split_geo; [exact G1|exact (hdr_geom _ _ _ _ Hp1)|exact H5]|apply split_free; assumption].
      * rewrite split_hdr, N.eqb_refl. reflexivity.
      * exact Hms.
      * change (b_maxbits s1 = Some mb). rewrite Hmx. exact Emb.
      * intros o Ho b. unfold used. rewrite split_hdr. destruct (N.eqb_spec o p); [contradiction|].
        destruct (N.eqb_spec o (p + 2 ^ bits)) as [->|Hn2].
        -- split; [discriminate|]. intros H. apply (Hused _ Ho b) in H. unfold used in H. rewrite Hun in H. discriminate.
        -- apply Hused. exact Ho.
      * exact Hnew.
      * intros b' Hb'. rewrite split_fl. destruct (N.eqb_spec b' bits); [lia|]. apply Hfls. lia.
    + rewrite (page_alloc_take_eq (S f) bits s mb p rest Emb Elt Efl).
      assert (Hp : b_hdr s p = Some (bits, false)) by (apply (bf_free s Fr); rewrite Efl; left; reflexivity).
      split; [|split; [|split; [|split; [|split; [|split]]]]].
      * constructor; [exact Herr|apply take_geo; assumption|apply take_free; assumption].
      * rewrite take_hdr, N.eqb_refl. reflexivity.
      * reflexivity.
      * exact Emb.
      * intros o Ho b. unfold used. rewrite take_hdr. destruct (N.eqb_spec o p); [contradiction|tauto].
      * intros b. unfold used. rewrite Hp. discriminate.
      * intros b' Hb'. rewrite take_fl. destruct (N.eqb_spec b' bits); [lia|reflexivity].
Qed.

(* ---------- malloc ---------- *)
Lemma malloc_size_ge req : req + 16 <= malloc_size req /\ 32 <= malloc_size req + 16 * (if req =? 0 then 1 else 0).
Proof. unfold malloc_size, alignment. destruct (N.eqb_spec req 0); lia. Qed.

Lemma get_bits_spec n : 32 <= n -> (n <= 2 ^ 63 /\ 5 <= get_bits n /\ n <= 2 ^ get_bits n /\ get_bits n <= 63) \/ (2 ^ 63 < n /\ get_bits n = 64).
Proof.
  intros Hn. unfold get_bits. destruct (N.leb_spec n (2 ^ 63)) as [Hle|Hgt]; [left|right; split; [exact Hgt|reflexivity]].
  destruct (N.log2_up_spec n ltac:(lia)) as [Hlo Hhi].
  split; [exact Hle|]. split; [|split; [exact Hhi|]].
  - destruct (N.lt_ge_cases (N.log2_up n) 5) as [H|H]; [|exact H].
    assert (2 ^ N.log2_up n <= 2 ^ 4) by (apply pow2_le; lia). change (2 ^ 4) with 16 in *. lia.
  - apply N.log2_up_le_pow2; lia.
Qed.

Theorem malloc_ok req s ptr s' : BInv s -> 0 < req -> b_malloc req s = (Some ptr, s') ->
  let bits := get_bits (malloc_size req) in
  let p := ptr - 16 in
  BInv s' /\ ptr = p + 16 /\ used s' p bits /\ req + 16 <= 2 ^ bits /\ p + 2 ^ bits <= b_msize s /\ b_msize s' = b_msize s /\
  (forall o b, used s o b -> used s' o b /\ (o + 2 ^ b <= p \/ p + 2 ^ bits <= o)) /\
  (forall o b, used s' o b -> (o = p /\ b = bits) \/ used s o b).
Proof.
  intros I Hreq Hm bits p. unfold b_malloc in Hm. fold bits in Hm.
  destruct (malloc_size_ge req) as [Hsz Hsz32]. destruct (N.eqb_spec req 0); [lia|].
  assert (Hbits : 5 <= bits /\ (bits <= 63 -> malloc_size req <= 2 ^ bits)).
  { unfold bits. destruct (get_bits_spec (malloc_size req) ltac:(lia)) as [(_ & A & B & _)|[_ E]]; [tauto|]. rewrite E. split; lia. }
  destruct Hbits as [H5 Hpow].
  assert (Hfuel : forall mb, b_maxbits s = Some mb -> (N.to_nat (mb + 1 - bits) <= 64)%nat).
  { intros mb Hmb. pose proof (bg_maxle s (bi_geo s I) mb Hmb). lia. }
  pose proof (page_alloc_spec 64 bits s I H5 Hfuel) as Hspec.
  destruct (page_alloc 64 bits s) as [[q|] s1]; [|discriminate]. inversion Hm; subst ptr s'. clear Hm.
  unfold alignment in *. unfold p. replace (q + 16 - 16) with q by lia.
  destruct Hspec as (I1 & Hq & Hms & Hmx & Hused & Hnew & _).
  pose proof (bi_geo s1 I1) as G1.
  destruct (bg_geo s1 G1 q bits (hdr_geom _ _ _ _ Hq)) as (_ & Hend & _).
  destruct (bg_max s1 G1 q bits (hdr_geom _ _ _ _ Hq)) as (mb & Hmb & Hle). pose proof (bg_maxle s1 G1 mb Hmb).
  split; [exact I1|]. split; [lia|]. split; [exact Hq|]. split; [specialize (Hpow ltac:(lia)); lia|]. split; [lia|]. split; [exact Hms|]. split.
  - intros o b Ho. assert (Hne : o <> q) by (intros ->; exact (Hnew b Ho)).
    split; [apply Hused; assumption|].
    apply (bg_disj s1 G1 o b q bits); [apply (hdr_geom _ _ _ true); apply Hused; assumption|exact (hdr_geom _ _ _ _ Hq)|exact Hne].
  - intros o b Ho. destruct (N.eq_dec o q) as [->|Hne].
    + left. unfold used in Ho. rewrite Hq in Ho. inversion Ho. split; reflexivity.
    + right. apply (Hused o Hne b). exact Ho.
Qed.

(* a failed malloc changes nothing *)
Theorem malloc_fail_unchanged req s s' : BInv s -> 0 < req -> b_malloc req s = (None, s') -> s' = s.
Proof.
  intros I Hreq Hm. unfold b_malloc in Hm. set (bits := get_bits (malloc_size req)) in *.
  destruct (malloc_size_ge req) as [Hsz Hsz32]. destruct (N.eqb_spec req 0); [lia|].
  assert (H5 : 5 <= bits).
  { unfold bits. destruct (get_bits_spec (malloc_size req) ltac:(lia)) as [(_ & A & _)|[_ E]]; [tauto|]. rewrite E. lia. }
  assert (Hfuel : forall mb, b_maxbits s = Some mb -> (N.to_nat (mb + 1 - bits) <= 64)%nat).
  { intros mb Hmb. pose proof (bg_maxle s (bi_geo s I) mb Hmb). lia. }
  pose proof (page_alloc_spec 64 bits s I H5 Hfuel) as Hspec.
  destruct (page_alloc 64 bits s) as [[q|] s1]; [discriminate|]. inversion Hm as [Hs]. rewrite <- Hs. exact Hspec.
Qed.

(* ---------- free ---------- *)
(* from here on lia never has to reason about mod (alignment goes through the lemmas of BuddyArith): keep it opaque *)
Local Ltac Zify.zify_post_hook ::= idtac.
(* the address get_buddy computes is always the start of a current page of at most the same order:
   free_page never reads stale header bytes or user data *)
Lemma buddy_is_page s p bits bd : BGeo s -> geom s p = Some bits -> get_buddy s p bits = Some bd ->
  exists bb, geom s bd = Some bb /\ bb <= bits.
Proof.
  intros G Hp Hb. apply get_buddy_some in Hb. destruct Hb as [Ebd Hend].
  destruct (bg_geo s G p bits Hp) as (Hal & Hpend & H5).
  pose proof (pow2_pos bits) as Hpos. pose proof (pow2_succ bits) as Hsucc.
  assert (H32 : 32 <= 2 ^ bits) by (change 32 with (2 ^ 5); apply pow2_le; exact H5).
  assert (K0 : bd + 32 <= b_msize s) by (clear - Hend H32; lia).
  destruct (bg_cover s G bd K0) as (o & b0 & Ho & Hr1 & Hr2).
  destruct (bg_geo s G o b0 Ho) as (Halo & _ & _).
  pose proof (buddy_aligned p bits Hal) as Halb. rewrite <- Ebd in Halb.
  destruct (N.le_gt_cases b0 bits) as [Hle|Hgt].
  - assert (o = bd) by (apply (aligned_start o b0 bd bits); assumption). subst o. exists b0. split; assumption.
  - exfalso.
    assert (K1 : bits + 1 <= b0) by (clear - Hgt; lia).
    assert (Hne : o <> p) by (intros ->; rewrite Hp in Ho; inversion Ho as [Hb0]; clear - Hb0 Hgt; lia).
    destruct (buddy_spec p bits Hal) as [[E A]|[E A]]; [rewrite <- Ebd in E|rewrite <- Ebd in E, A].
    + (* parent block starts at p *)
      assert (K2 : p <= bd) by (clear - E Hpos; lia).
      assert (K3 : bd < p + 2 ^ (bits + 1)) by (clear - E Hsucc Hpos; lia).
      destruct (aligned_nested o b0 p (bits + 1) Halo A K1 bd Hr1 Hr2 K2 K3) as [N1 N2].
      destruct (bg_disj s G o b0 p bits Ho Hp Hne) as [D|D]; clear - D N1 N2 Hpos Hsucc; lia.
    + assert (K3 : bd < bd + 2 ^ (bits + 1)) by (clear - Hsucc Hpos; lia).
      destruct (aligned_nested o b0 bd (bits + 1) Halo A K1 bd Hr1 Hr2 (N.le_refl bd) K3) as [N1 N2].
      destruct (bg_disj s G o b0 p bits Ho Hp Hne) as [D|D]; clear - D N1 N2 E Hpos Hsucc; lia.
Qed.

Lemma free_page_unfold f p bits s :
  free_page (S f) p bits s =
  match get_buddy s p bits with
  | None => put_state s p bits
  | Some b =>
      match b_hdr s b with
      | None => set_berr s
      | Some (bb, bu) =>
          if (bb =? bits) && negb bu then free_page f (N.min p b) (bits + 1) (merge_state s (N.min p b) (N.max p b) b bits)
          else put_state s p bits
      end
  end.
Proof. reflexivity. Qed.

Lemma free_page_spec fuel : forall p bits s, BInv s -> b_hdr s p = Some (bits, true) -> (N.to_nat (63 - bits) < fuel)%nat ->
  BInv (free_page fuel p bits s) /\ b_msize (free_page fuel p bits s) = b_msize s /\
  b_maxbits (free_page fuel p bits s) = b_maxbits s /\
  (forall o b, used (free_page fuel p bits s) o b <-> (used s o b /\ o <> p)).
Proof.
  induction fuel as [|f IH]; intros p bits s I Hp Hfuel; [lia|].
  destruct I as [Herr G Fr]. pose proof (hdr_geom _ _ _ _ Hp) as Hgp.
  destruct (bg_geo s G p bits Hgp) as (Hal & Hpend & H5).
  pose proof (pow2_pos bits) as Hpos.
  assert (Hb62 : bits <= 62).
  { pose proof (bg_small s G) as Hsm. assert (Hlt : 2 ^ bits < 2 ^ 63) by (clear - Hsm Hpend Hpos; lia). apply N.pow_lt_mono_r_iff in Hlt; [clear - Hlt; lia|clear; lia]. }
  assert (Hput : (forall o', get_buddy s p bits = Some o' -> b_hdr s o' <> Some (bits, false)) ->
                 BInv (put_state s p bits) /\ b_msize (put_state s p bits) = b_msize s /\
                 b_maxbits (put_state s p bits) = b_maxbits s /\
                 (forall o b, used (put_state s p bits) o b <-> (used s o b /\ o <> p))).
  { intros Hc. split; [constructor; [exact Herr|apply put_geo; assumption|apply put_free; assumption]|].
    split; [reflexivity|]. split; [reflexivity|].
    intros o b. unfold used. rewrite put_hdr. destruct (N.eqb_spec o p) as [->|Hn]; [split; [discriminate|tauto]|tauto]. }
  rewrite free_page_unfold.
  destruct (get_buddy s p bits) as [bd|] eqn:Eb; [|apply Hput; discriminate].
  destruct (buddy_is_page s p bits bd G Hgp Eb) as (bb0 & Hgb & Hle0).
  apply geom_some in Hgb. destruct Hgb as [bu0 Hhb]. rewrite Hhb.
  destruct ((bb0 =? bits) && negb bu0) eqn:Ec.
  - apply andb_true_iff in Ec. destruct Ec as [E1 E2]. apply N.eqb_eq in E1. subst bb0.
    destruct bu0; [discriminate|]. clear E2.
    pose proof Eb as Eb'. apply get_buddy_some in Eb'. destruct Eb' as [Ebd Hbend].
    assert (Hcase : (N.min p bd = p /\ N.max p bd = bd /\ bd = p + 2 ^ bits /\ p mod 2 ^ (bits + 1) = 0) \/
                    (N.min p bd = bd /\ N.max p bd = p /\ p = bd + 2 ^ bits /\ bd mod 2 ^ (bits + 1) = 0)).
    { destruct (buddy_spec p bits Hal) as [[E A]|[E A]]; [rewrite <- Ebd in E; left|rewrite <- Ebd in E, A; right];
      (split; [clear - E Hpos; lia|]; split; [clear - E Hpos; lia|]; split; [exact E|exact A]). }
    set (lo := N.min p bd) in *. set (hi := N.max p bd) in *.
    assert (Hgeo2 : BGeo (merge_state s lo hi bd bits)).
    { destruct Hcase as [(-> & -> & E & A)|(-> & -> & E & A)].
      - apply merge_geo; [exact G|exact Hgp|exact (hdr_geom _ _ _ _ Hhb)|exact E|exact A].
      - apply merge_geo; [exact G|exact (hdr_geom _ _ _ _ Hhb)|exact Hgp|exact E|exact A]. }
    assert (Hfree2 : BFree (merge_state s lo hi bd bits)).
    { apply (merge_free s lo hi bd p bits Fr Hp Hhb). destruct Hcase as [(-> & -> & _)|(-> & -> & _)]; tauto. }
    assert (Hlo2 : b_hdr (merge_state s lo hi bd bits) lo = Some (bits + 1, true)) by (rewrite merge_hdr, N.eqb_refl; reflexivity).
    assert (Hf' : (N.to_nat (63 - (bits + 1)) < f)%nat) by (clear - Hfuel Hb62; lia).
    destruct (IH lo (bits + 1) (merge_state s lo hi bd bits) (mkBInv (merge_state s lo hi bd bits) Herr Hgeo2 Hfree2) Hlo2 Hf') as (I' & Hms & Hmx & Hu).
    split; [exact I'|]. split; [rewrite Hms; reflexivity|]. split; [rewrite Hmx; reflexivity|].
    intros o b. rewrite Hu. unfold used. rewrite merge_hdr.
    destruct (N.eqb_spec o lo) as [->|Hn1].
    + split; [tauto|]. intros [Ho Hne]. destruct Hcase as [(E & _)|(E & _)]; [congruence|].
      exfalso. rewrite E, Hhb in Ho. discriminate.
    + destruct (N.eqb_spec o hi) as [->|Hn2].
      * split; [intros [H _]; discriminate|]. intros [Ho Hne]. destruct Hcase as [(_ & E & _)|(_ & E & _)]; [|congruence].
        exfalso. rewrite E, Hhb in Ho. discriminate.
      * split; [intros [H _]; split; [exact H|]|tauto].
        destruct Hcase as [(E & _)|(_ & E & _)]; congruence.
  - apply Hput. intros o' [= <-]. rewrite Hhb. intros [= -> ->]. rewrite N.eqb_refl in Ec. discriminate.
Qed.

Theorem free_ok ptr bits s : BInv s -> used s (ptr - 16) bits ->
  BInv (b_free ptr s) /\ b_msize (b_free ptr s) = b_msize s /\
  (forall o b, used (b_free ptr s) o b <-> (used s o b /\ o <> ptr - 16)).
Proof.
  intros I Hu. unfold b_free, alignment. unfold used in Hu. rewrite Hu.
  destruct (bg_geo s (bi_geo s I) _ _ (hdr_geom _ _ _ _ Hu)) as (_ & Hend & _).
  pose proof (bg_small s (bi_geo s I)). pose proof (pow2_pos bits).
  assert (Hlt : 2 ^ bits < 2 ^ 63) by lia. apply N.pow_lt_mono_r_iff in Hlt; [|lia].
  destruct (free_page_spec 64 (ptr - 16) bits s I Hu ltac:(lia)) as (A & B & _ & C).
  split; [exact A|]. split; [exact B|exact C].
Qed.
