Require Extraction.
Require Import ExtrOcamlBasic.
From Coq Require Import NArith ZArith List.
From CppcmsV Require Import C07.Defs C08.Defs C08.ResDefs.
Definition keep_types : (N * Z * nat) := (0%N, 0%Z, 0%nat).
Extraction "c08m.ml" keep_types N.add N.mul N.pow N.div_eucl run init step stats first_victim
  b_init b_malloc b_free b_step total_free_memory max_free_chunk nseq b_fl b_hdr b_err b_msize alignment alignment_bits page_in_use page_header_size self_size
  r_init r_store r_delete_node rstep rclear nl_clear not_enough_memory opt_alloc strsz count is_pn has_link r_a r_b r_faults with_a with_faults
  sz_sso sz_object sz_pnode sz_tnode sz_lnode sz_tlnode sz_rbnode sz_bucket.
