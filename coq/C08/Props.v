(* C08 -- the cache stays within its limit; evicts expired, then least-recently-used.
   Only property theorems here, each closed by `exact <lemma>`; proofs are in ProofsCache.v (cache, on the
   model C07.Defs shared with C07) and ProofsBuddy*.v (buddy allocator model of C08.Defs). *)
From CppcmsV Require Import Base.Tac C07.Defs C07.Spec C07.Util C07.ProofsInv C08.Defs C08.ProofsCache.
From CppcmsV Require Import C08.BuddyArith C08.ProofsBuddy C08.ProofsBuddy2 C08.ProofsBuddy3 C08.ProofsBuddy4 C08.ProofsBuddy5.
Local Open Scope N_scope.

(* ------------------------------------------------------------------------------------------------ *)
(* 1. the limit.  For every history (any operations, clock schedule, allocator faults and memory-pressure
      answers) a cache created with limit lim > 0 never holds more than lim entries, and every stats()
      answer along the way reports at most lim keys.                                                    *)
Theorem size_le_limit : forall lim now s, reachable lim now s -> 0 < lim ->
  size s <= lim /\ N.of_nat (length (primary s)) <= lim.
Proof. intros lim now s H Hl. split; [exact (reachable_size_le lim now s H Hl)|exact (reachable_entries_le lim now s H Hl)]. Qed.
Print Assumptions size_le_limit.

Theorem reported_keys_le_limit : forall lim t0 ops, 0 < lim ->
  Forall (fun a : answer => fst (snd a) <= lim) (snd (run t0 ops (init lim))).
Proof. intros lim t0 ops Hl. exact (run_stats_le ops lim t0 (init lim) (reach_init lim t0) Hl). Qed.
Print Assumptions reported_keys_le_limit.

(* check_limits makes room for exactly one entry and no more: without memory pressure it leaves
   min(size, limit-1) entries; with room to spare (or no limit) it removes nothing. *)
Theorem check_limits_evicts_exactly : forall now s, Inv s -> 0 < limit s ->
  size (check_limits now [] s) = N.min (size s) (limit s - 1).
Proof. exact check_limits_exact. Qed.
Print Assumptions check_limits_evicts_exactly.

Theorem check_limits_no_spurious_eviction : forall now s, (limit s = 0 \/ size s < limit s) -> check_limits now [] s = s.
Proof. exact check_limits_idle. Qed.
Print Assumptions check_limits_no_spurious_eviction.

Example size_le_limit_nonvacuous :
  let ops := [Store [1] [9] [] 5%Z None FNone []; Store [2] [9] [] 5%Z None FNone []; Store [3] [9] [] 5%Z None FNone []] in
  size (snd (fst (run 0%Z ops (init 2)))) = 2 /\ size (snd (fst (run 0%Z ops (init 0)))) = 3.
Proof. vm_compute. split; reflexivity. Qed.

(* ------------------------------------------------------------------------------------------------ *)
(* 2. the victim rule.  check_limits is the loop  while(must_evict) delete_node(first_victim)  (first lemma:
      one unfolding of the model's loop, i.e. the loop body of the source); in the state reached by ANY history
      the victim is
        - an entry whose deadline has passed, with the smallest deadline of all entries, or
        - when no entry has expired: the entry whose last use (store that went through, or fetch hit) lies
          further back in the history than the last use of every other entry.
      g_run is run instrumented with operation numbers (g_run_is_run: same states).                      *)
Theorem check_limits_is_victim_loop : forall f now nem s,
  check_limits_loop (S f) now nem s =
  if must_evict (match nem with b :: _ => b | [] => false end) s then
    match first_victim now s with
    | Some k => check_limits_loop f now (tl nem) (delete_node k s)
    | None => s
    end
  else s.
Proof. exact check_limits_loop_unfold. Qed.
Print Assumptions check_limits_is_victim_loop.

Theorem victim_always_exists : forall now s, Inv s -> 0 < size s -> exists k, first_victim now s = Some k.
Proof. exact first_victim_some. Qed.
Print Assumptions victim_always_exists.

Theorem g_run_is_run : forall ops now g,
  g_s (snd (g_run now ops g)) = snd (fst (run now ops (g_s g))) /\ fst (g_run now ops g) = fst (fst (run now ops (g_s g))).
Proof. exact g_run_state. Qed.
Print Assumptions g_run_is_run.

Theorem victim_rule : forall lim t0 ops now v,
  let g := snd (g_run t0 ops (g_init lim)) in
  first_victim now (g_s g) = Some v ->
  (exists c, In (v, c) (primary (g_s g)) /\ (c_deadline c < now)%Z /\
             forall k' c', In (k', c') (primary (g_s g)) -> (c_deadline c <= c_deadline c')%Z)
  \/
  ((forall k' c', In (k', c') (primary (g_s g)) -> (now <= c_deadline c')%Z) /\
   In v (map fst (primary (g_s g))) /\
   forall k', In k' (map fst (primary (g_s g))) -> k' <> v -> (g_stamp g v < g_stamp g k')%nat).
Proof. exact victim_rule_history. Qed.
Print Assumptions victim_rule.

(* a: stored first, then fetched -> b is the LRU victim; with b expired, b goes although... and with a expired, a goes *)
Example victim_rule_nonvacuous :
  let st k d := Store k [9] [] d None FNone [] in
  first_victim 1%Z (g_s (snd (g_run 0%Z [st [1] 5%Z; st [2] 5%Z; Fetch [1]] (g_init 2)))) = Some [2] /\
  first_victim 1%Z (g_s (snd (g_run 0%Z [st [1] 5%Z; st [2] 5%Z] (g_init 2)))) = Some [1] /\
  first_victim 7%Z (g_s (snd (g_run 0%Z [st [1] 6%Z; st [2] 9%Z; Fetch [1]] (g_init 2)))) = Some [1].
Proof. vm_compute. repeat split; reflexivity. Qed.

(* ------------------------------------------------------------------------------------------------ *)
(* 3. statistics.  In every reachable state stats() = (number of entries held, sum of the sizes of their trigger
      sets); and the whole answer sequence of a history (fetch results and stats after every operation) equals
      that of the abstract LRU specification a_run (entry list + recency list, eviction by a_victim), i.e.
      the counts are those implied by the history under the rule.                                         *)
Theorem stats_exact : forall lim now s, reachable lim now s ->
  stats s = (N.of_nat (length (primary s)), N.of_nat (sum_trigs (primary s))).
Proof. exact reachable_stats. Qed.
Print Assumptions stats_exact.

Theorem answers_equal_lru_spec : forall lim t0 ops, snd (run t0 ops (init lim)) = snd (a_run t0 ops (a_init lim)).
Proof. exact run_answers_spec. Qed.
Print Assumptions answers_equal_lru_spec.

Example stats_nonvacuous :
  let ops := [Store [1] [9] [[7];[8]] 5%Z None FNone []; Store [2] [9] [[7]] 5%Z None FNone []; Rise [8]] in
  map snd (snd (run 0%Z ops (init 5))) = [(1,3); (2,5); (1,2)].
Proof. vm_compute. reflexivity. Qed.

(* ------------------------------------------------------------------------------------------------ *)
(* 4. the buddy allocator (model C08.Defs of private/buddy_allocator.h).  `breach ms s`: s is reached from the
      constructor over ms bytes by any sequence of malloc(req>0) and free of live blocks.
      BInv s = no model error (free_page never reads bytes that are not a current page header)
             /\ BGeo s  (Tiling: headers describe aligned power-of-two pages of order >= 5 inside the memory, pairwise
                         disjoint, covering every byte up to the last 31; orders bounded by max_bit_size_)
             /\ BFree s (free_list_[b] = exactly the pages of order b not marked in use, without repetition;
                         NoFreeBuddies: a free page and its buddy of the same order are never both free).          *)
Theorem buddy_invariant : forall ms s, ms - self_size < 2 ^ 63 -> breach ms s -> BInv s /\ b_msize s = ms - self_size.
Proof. exact breach_inv. Qed.
Print Assumptions buddy_invariant.

Theorem buddy_tiling : forall ms s, ms - self_size < 2 ^ 63 -> breach ms s ->
  (forall o b, geom s o = Some b -> o mod 2 ^ b = 0 /\ o + 2 ^ b <= b_msize s /\ 5 <= b) /\
  (forall o1 b1 o2 b2, geom s o1 = Some b1 -> geom s o2 = Some b2 -> o1 <> o2 -> o1 + 2 ^ b1 <= o2 \/ o2 + 2 ^ b2 <= o1) /\
  (forall x, x + 32 <= b_msize s -> exists o b, geom s o = Some b /\ o <= x /\ x < o + 2 ^ b).
Proof.
  intros ms s Hs H. destruct (breach_inv ms s Hs H) as [I _]. pose proof (bi_geo s I) as G.
  split; [exact (bg_geo s G)|]. split; [exact (bg_disj s G)|exact (bg_cover s G)].
Qed.
Print Assumptions buddy_tiling.

Theorem buddy_no_free_buddies : forall ms s, ms - self_size < 2 ^ 63 -> breach ms s ->
  forall o b o', b_hdr s o = Some (b, false) -> get_buddy s o b = Some o' -> b_hdr s o' <> Some (b, false).
Proof. intros ms s Hs H. destruct (breach_inv ms s Hs H) as [I _]. exact (bf_nobud s (bi_free s I)). Qed.
Print Assumptions buddy_no_free_buddies.

(* the address get_buddy computes is the start of a current page of at most the same order *)
Theorem buddy_address_is_a_page : forall s p bits bd, BGeo s -> geom s p = Some bits -> get_buddy s p bits = Some bd ->
  exists bb, geom s bd = Some bb /\ bb <= bits.
Proof. exact buddy_is_page. Qed.
Print Assumptions buddy_address_is_a_page.

(* malloc: the block lies in a page that is inside the memory, has room for the request behind the 16-byte header,
   is disjoint from every block that was live, and all live blocks stay live; nothing else becomes live *)
Theorem malloc_disjoint : forall req s ptr s', BInv s -> 0 < req -> b_malloc req s = (Some ptr, s') ->
  let bits := get_bits (malloc_size req) in
  let p := ptr - 16 in
  BInv s' /\ ptr = p + 16 /\ used s' p bits /\ req + 16 <= 2 ^ bits /\ p + 2 ^ bits <= b_msize s /\ b_msize s' = b_msize s /\
  (forall o b, used s o b -> used s' o b /\ (o + 2 ^ b <= p \/ p + 2 ^ bits <= o)) /\
  (forall o b, used s' o b -> (o = p /\ b = bits) \/ used s o b).
Proof. exact malloc_ok. Qed.
Print Assumptions malloc_disjoint.

Theorem malloc_failure_changes_nothing : forall req s s', BInv s -> 0 < req -> b_malloc req s = (None, s') -> s' = s.
Proof. exact malloc_fail_unchanged. Qed.
Print Assumptions malloc_failure_changes_nothing.

(* free of a live block: the invariant is kept and exactly that block stops being live *)
Theorem free_releases_exactly : forall ptr bits s, BInv s -> used s (ptr - 16) bits ->
  BInv (b_free ptr s) /\ b_msize (b_free ptr s) = b_msize s /\
  (forall o b, used (b_free ptr s) o b <-> (used s o b /\ o <> ptr - 16)).
Proof. exact free_ok. Qed.
Print Assumptions free_releases_exactly.

(* fill, empty, refill indefinitely: whenever no block is live, the page headers and the free lists (as sets) are
   those of the freshly constructed allocator - whatever the history of splits and merges was *)
Theorem free_all_restores : forall ms s, ms - self_size < 2 ^ 63 -> breach ms s -> (forall o b, ~ used s o b) ->
  (forall o b u, b_hdr s o = Some (b, u) <-> b_hdr (b_init ms) o = Some (b, u)) /\
  (forall o b, In o (b_fl s b) <-> In o (b_fl (b_init ms) b)).
Proof. exact free_all_restores_full. Qed.
Print Assumptions free_all_restores.

Example buddy_nonvacuous :
  let s0 := b_init 1544 in
  let r1 := b_malloc 100 s0 in
  let r2 := b_malloc 200 (snd r1) in
  let s4 := b_free 528 (b_free 784 (snd r2)) in
  fst r1 = Some 784 /\ fst r2 = Some 528 /\ fst (b_malloc 497 s0) = None /\ b_err s4 = false /\
  map (b_fl (snd r2)) [5;6;7;8;9] = [[960]; [896]; []; []; [0]] /\
  map (b_fl s4) [5;6;7;8;9] = map (b_fl s0) [5;6;7;8;9] /\
  total_free_memory (snd r2) = 560 /\ total_free_memory s4 = 912.
Proof. vm_compute. repeat split; reflexivity. Qed.
