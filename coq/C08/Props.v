(* C08 -- the cache stays within its limit; evicts expired, then least-recently-used.
   Only property theorems here, each closed by `exact <lemma>`; proofs are in ProofsCache.v (cache, on the
   model C07.Defs shared with C07) and ProofsBuddy*.v (buddy allocator model of C08.Defs). *)
From CppcmsV Require Import Base.Tac C07.Defs C07.Spec C07.Util C07.ProofsInv C08.Defs C08.ProofsCache.
Local Open Scope N_scope.

(* ------------------------------------------------------------------------------------------------ *)
(* 1. the limit.  For every history (any operations, clock schedule, allocator faults and memory-pressure
      answers) a cache created with limit lim > 0 never holds more than lim entries, and every stats()
      answer along the way reports at most lim keys.                                                    *)
Theorem size_le_limit : forall lim now s, reachable lim now s -> 0 < lim ->
  size s <= lim /\ N.of_nat (length (primary s)) <= lim.
Proof. intros lim now s H Hl. split; [exact (reachable_size_le lim now s H Hl)|exact (reachable_entries_le lim now s H Hl)]. Qed.
Print Assumptions size_le_limit.

Theorem reported_keys_le_limit : forall lim t0 ops, 0 < lim ->
  Forall (fun a : answer => fst (snd a) <= lim) (snd (run t0 ops (init lim))).
Proof. intros lim t0 ops Hl. exact (run_stats_le ops lim t0 (init lim) (reach_init lim t0) Hl). Qed.
Print Assumptions reported_keys_le_limit.

(* check_limits makes room for exactly one entry and no more: without memory pressure it leaves
   min(size, limit-1) entries; with room to spare (or no limit) it removes nothing. *)
Theorem check_limits_evicts_exactly : forall now s, Inv s -> 0 < limit s ->
  size (check_limits now [] s) = N.min (size s) (limit s - 1).
Proof. exact check_limits_exact. Qed.
Print Assumptions check_limits_evicts_exactly.

Theorem check_limits_no_spurious_eviction : forall now s, (limit s = 0 \/ size s < limit s) -> check_limits now [] s = s.
Proof. exact check_limits_idle. Qed.
Print Assumptions check_limits_no_spurious_eviction.

Example size_le_limit_nonvacuous :
  let ops := [Store [1] [9] [] 5%Z None FNone []; Store [2] [9] [] 5%Z None FNone []; Store [3] [9] [] 5%Z None FNone []] in
  size (snd (fst (run 0%Z ops (init 2)))) = 2 /\ size (snd (fst (run 0%Z ops (init 0)))) = 3.
Proof. vm_compute. split; reflexivity. Qed.

(* ------------------------------------------------------------------------------------------------ *)
(* 2. the victim rule.  check_limits is the loop  while(must_evict) delete_node(first_victim)  (first lemma:
      one unfolding of the model's loop, i.e. the loop body of the source); in the state reached by ANY history
      the victim is
        - an entry whose deadline has passed, with the smallest deadline of all entries, or
        - when no entry has expired: the entry whose last use (store that went through, or fetch hit) lies
          further back in the history than the last use of every other entry.
      g_run is run instrumented with operation numbers (g_run_is_run: same states).                      *)
Theorem check_limits_is_victim_loop : forall f now nem s,
  check_limits_loop (S f) now nem s =
  if must_evict (match nem with b :: _ => b | [] => false end) s then
    match first_victim now s with
    | Some k => check_limits_loop f now (tl nem) (delete_node k s)
    | None => s
    end
  else s.
Proof. exact check_limits_loop_unfold. Qed.
Print Assumptions check_limits_is_victim_loop.

Theorem victim_always_exists : forall now s, Inv s -> 0 < size s -> exists k, first_victim now s = Some k.
Proof. exact first_victim_some. Qed.
Print Assumptions victim_always_exists.

Theorem g_run_is_run : forall ops now g,
  g_s (snd (g_run now ops g)) = snd (fst (run now ops (g_s g))) /\ fst (g_run now ops g) = fst (fst (run now ops (g_s g))).
Proof. exact g_run_state. Qed.
Print Assumptions g_run_is_run.

Theorem victim_rule : forall lim t0 ops now v,
  let g := snd (g_run t0 ops (g_init lim)) in
  first_victim now (g_s g) = Some v ->
  (exists c, In (v, c) (primary (g_s g)) /\ (c_deadline c < now)%Z /\
             forall k' c', In (k', c') (primary (g_s g)) -> (c_deadline c <= c_deadline c')%Z)
  \/
  ((forall k' c', In (k', c') (primary (g_s g)) -> (now <= c_deadline c')%Z) /\
   In v (map fst (primary (g_s g))) /\
   forall k', In k' (map fst (primary (g_s g))) -> k' <> v -> (g_stamp g v < g_stamp g k')%nat).
Proof. exact victim_rule_history. Qed.
Print Assumptions victim_rule.

(* a: stored first, then fetched -> b is the LRU victim; with b expired, b goes although... and with a expired, a goes *)
Example victim_rule_nonvacuous :
  let st k d := Store k [9] [] d None FNone [] in
  first_victim 1%Z (g_s (snd (g_run 0%Z [st [1] 5%Z; st [2] 5%Z; Fetch [1]] (g_init 2)))) = Some [2] /\
  first_victim 1%Z (g_s (snd (g_run 0%Z [st [1] 5%Z; st [2] 5%Z] (g_init 2)))) = Some [1] /\
  first_victim 7%Z (g_s (snd (g_run 0%Z [st [1] 6%Z; st [2] 9%Z; Fetch [1]] (g_init 2)))) = Some [1].
Proof. vm_compute. repeat split; reflexivity. Qed.

(* ------------------------------------------------------------------------------------------------ *)
(* 3. statistics.  In every reachable state stats() = (number of entries held, sum of the sizes of their trigger
      sets); and the whole answer sequence of a history (fetch results and stats after every operation) equals
      that of the abstract LRU specification a_run (entry list + recency list, eviction by a_victim), i.e.
      the counts are those implied by the history under the rule.                                         *)
Theorem stats_exact : forall lim now s, reachable lim now s ->
  stats s = (N.of_nat (length (primary s)), N.of_nat (sum_trigs (primary s))).
Proof. exact reachable_stats. Qed.
Print Assumptions stats_exact.

Theorem answers_equal_lru_spec : forall lim t0 ops, snd (run t0 ops (init lim)) = snd (a_run t0 ops (a_init lim)).
Proof. exact run_answers_spec. Qed.
Print Assumptions answers_equal_lru_spec.

Example stats_nonvacuous :
  let ops := [Store [1] [9] [[7];[8]] 5%Z None FNone []; Store [2] [9] [[7]] 5%Z None FNone []; Rise [8]] in
  map snd (snd (run 0%Z ops (init 5))) = [(1,3); (2,5); (1,2)].
Proof. vm_compute. reflexivity. Qed.
