(* C08 -- the cache stays within its limit; evicts expired, then least-recently-used.
   Only property theorems here, each closed by `exact <lemma>`; proofs are in ProofsCache.v (cache, on the
   model C07.Defs shared with C07) and ProofsBuddy*.v (buddy allocator model of C08.Defs). *)
From CppcmsV Require Import Base.Tac C07.Defs C07.Spec C07.Util C07.ProofsInv C08.Defs C08.ProofsCache.
From CppcmsV Require Import C08.BuddyArith C08.ProofsBuddy C08.ProofsBuddy2 C08.ProofsBuddy3 C08.ProofsBuddy4 C08.ProofsBuddy5.
From CppcmsV Require Import C08.ResDefs C08.ProofsRes C08.ProofsRes2 C08.ProofsRes3 C08.Link C08.LinkGuards gen.Gen_C08_hashmap gen.Gen_C08_guards.
Local Open Scope N_scope.

(* ------------------------------------------------------------------------------------------------ *)
(* 1. the limit.  For every history (any operations, clock schedule, allocator faults and memory-pressure
      answers) a cache created with limit lim > 0 never holds more than lim entries, and every stats()
      answer along the way reports at most lim keys.                                                    *)
Theorem size_le_limit : forall lim now s, reachable lim now s -> 0 < lim ->
  size s <= lim /\ N.of_nat (length (primary s)) <= lim.
Proof. intros lim now s H Hl. split; [exact (reachable_size_le lim now s H Hl)|exact (reachable_entries_le lim now s H Hl)]. Qed.
Print Assumptions size_le_limit.

Theorem reported_keys_le_limit : forall lim t0 ops, 0 < lim ->
  Forall (fun a : answer => fst (snd a) <= lim) (snd (run t0 ops (init lim))).
Proof. intros lim t0 ops Hl. exact (run_stats_le ops lim t0 (init lim) (reach_init lim t0) Hl). Qed.
Print Assumptions reported_keys_le_limit.

(* check_limits makes room for exactly one entry and no more: without memory pressure it leaves
   min(size, limit-1) entries; with room to spare (or no limit) it removes nothing. *)
Theorem check_limits_evicts_exactly : forall now s, Inv s -> 0 < limit s ->
  size (check_limits now [] s) = N.min (size s) (limit s - 1).
Proof. exact check_limits_exact. Qed.
Print Assumptions check_limits_evicts_exactly.

Theorem check_limits_no_spurious_eviction : forall now s, (limit s = 0 \/ size s < limit s) -> check_limits now [] s = s.
Proof. exact check_limits_idle. Qed.
Print Assumptions check_limits_no_spurious_eviction.

Example size_le_limit_nonvacuous :
  let ops := [Store [1] [9] [] 5%Z None FNone []; Store [2] [9] [] 5%Z None FNone []; Store [3] [9] [] 5%Z None FNone []] in
  size (snd (fst (run 0%Z ops (init 2)))) = 2 /\ size (snd (fst (run 0%Z ops (init 0)))) = 3.
Proof. vm_compute. split; reflexivity. Qed.

(* ------------------------------------------------------------------------------------------------ *)
(* 2. the victim rule.  check_limits is the loop  while(must_evict) delete_node(first_victim)  (first lemma:
      one unfolding of the model's loop, i.e. the loop body of the source); in the state reached by ANY history
      the victim is
        - an entry whose deadline has passed, with the smallest deadline of all entries, or
        - when no entry has expired: the entry whose last use (store that went through, or fetch hit) lies
          further back in the history than the last use of every other entry.
      g_run is run instrumented with operation numbers (g_run_is_run: same states).                      *)
Theorem check_limits_is_victim_loop : forall f now nem s,
  check_limits_loop (S f) now nem s =
  if must_evict (match nem with b :: _ => b | [] => false end) s then
    match first_victim now s with
    | Some k => check_limits_loop f now (tl nem) (delete_node k s)
    | None => s
    end
  else s.
Proof. exact check_limits_loop_unfold. Qed.
Print Assumptions check_limits_is_victim_loop.

(* the same unfolding with the two guards GENERATED from the current src/cache_storage.cpp (coq/gen/Gen_C08_guards.v: the while
   condition of check_limits and the expired-first test, cut out of the source and translated by tools/cxx2v.py; LinkGuards.v) *)
Theorem check_limits_loop_runs_the_source_guards : forall f now nem s,
  check_limits_loop (S f) now nem s =
  if g_c08_must_evict (Z.of_N (size s)) (Z.of_N (limit s)) (match nem with b :: _ => b | [] => false end) then
    match (match timeout s with
           | (d, k) :: _ => if g_c08_expired_first true d now then Some k else last_opt (lru s)
           | [] => if g_c08_expired_first false 0%Z now then None else last_opt (lru s)
           end) with
    | Some k => check_limits_loop f now (tl nem) (delete_node k s)
    | None => s
    end
  else s.
Proof. intros f now nem s. rewrite link_must_evict, <- link_first_victim. exact (check_limits_loop_unfold f now nem s). Qed.
Print Assumptions check_limits_loop_runs_the_source_guards.

Theorem victim_always_exists : forall now s, Inv s -> 0 < size s -> exists k, first_victim now s = Some k.
Proof. exact first_victim_some. Qed.
Print Assumptions victim_always_exists.

Theorem g_run_is_run : forall ops now g,
  g_s (snd (g_run now ops g)) = snd (fst (run now ops (g_s g))) /\ fst (g_run now ops g) = fst (fst (run now ops (g_s g))).
Proof. exact g_run_state. Qed.
Print Assumptions g_run_is_run.

Theorem victim_rule : forall lim t0 ops now v,
  let g := snd (g_run t0 ops (g_init lim)) in
  first_victim now (g_s g) = Some v ->
  (exists c, In (v, c) (primary (g_s g)) /\ (c_deadline c < now)%Z /\
             forall k' c', In (k', c') (primary (g_s g)) -> (c_deadline c <= c_deadline c')%Z)
  \/
  ((forall k' c', In (k', c') (primary (g_s g)) -> (now <= c_deadline c')%Z) /\
   In v (map fst (primary (g_s g))) /\
   forall k', In k' (map fst (primary (g_s g))) -> k' <> v -> (g_stamp g v < g_stamp g k')%nat).
Proof. exact victim_rule_history. Qed.
Print Assumptions victim_rule.

(* a: stored first, then fetched -> b is the LRU victim; with b expired, b goes although... and with a expired, a goes *)
Example victim_rule_nonvacuous :
  let st k d := Store k [9] [] d None FNone [] in
  first_victim 1%Z (g_s (snd (g_run 0%Z [st [1] 5%Z; st [2] 5%Z; Fetch [1]] (g_init 2)))) = Some [2] /\
  first_victim 1%Z (g_s (snd (g_run 0%Z [st [1] 5%Z; st [2] 5%Z] (g_init 2)))) = Some [1] /\
  first_victim 7%Z (g_s (snd (g_run 0%Z [st [1] 6%Z; st [2] 9%Z; Fetch [1]] (g_init 2)))) = Some [1].
Proof. vm_compute. repeat split; reflexivity. Qed.

(* ------------------------------------------------------------------------------------------------ *)
(* 3. statistics.  In every reachable state stats() = (number of entries held, sum of the sizes of their trigger
      sets); and the whole answer sequence of a history (fetch results and stats after every operation) equals
      that of the abstract LRU specification a_run (entry list + recency list, eviction by a_victim), i.e.
      the counts are those implied by the history under the rule.                                         *)
Theorem stats_exact : forall lim now s, reachable lim now s ->
  stats s = (N.of_nat (length (primary s)), N.of_nat (sum_trigs (primary s))).
Proof. exact reachable_stats. Qed.
Print Assumptions stats_exact.

Theorem answers_equal_lru_spec : forall lim t0 ops, snd (run t0 ops (init lim)) = snd (a_run t0 ops (a_init lim)).
Proof. exact run_answers_spec. Qed.
Print Assumptions answers_equal_lru_spec.

Example stats_nonvacuous :
  let ops := [Store [1] [9] [[7];[8]] 5%Z None FNone []; Store [2] [9] [[7]] 5%Z None FNone []; Rise [8]] in
  map snd (snd (run 0%Z ops (init 5))) = [(1,3); (2,5); (1,2)].
Proof. vm_compute. reflexivity. Qed.

(* ------------------------------------------------------------------------------------------------ *)
(* 4. the buddy allocator (model C08.Defs of private/buddy_allocator.h).  `breach ms s`: s is reached from the
      constructor over ms bytes by any sequence of malloc(req>0) and free of live blocks.
      BInv s = no model error (free_page never reads bytes that are not a current page header)
             /\ BGeo s  (Tiling: headers describe aligned power-of-two pages of order >= 5 inside the memory, pairwise
                         disjoint, covering every byte up to the last 31; orders bounded by max_bit_size_)
             /\ BFree s (free_list_[b] = exactly the pages of order b not marked in use, without repetition;
                         NoFreeBuddies: a free page and its buddy of the same order are never both free).          *)
Theorem buddy_invariant : forall ms s, ms - self_size < 2 ^ 63 -> breach ms s -> BInv s /\ b_msize s = ms - self_size.
Proof. exact breach_inv. Qed.
Print Assumptions buddy_invariant.

Theorem buddy_tiling : forall ms s, ms - self_size < 2 ^ 63 -> breach ms s ->
  (forall o b, geom s o = Some b -> o mod 2 ^ b = 0 /\ o + 2 ^ b <= b_msize s /\ 5 <= b) /\
  (forall o1 b1 o2 b2, geom s o1 = Some b1 -> geom s o2 = Some b2 -> o1 <> o2 -> o1 + 2 ^ b1 <= o2 \/ o2 + 2 ^ b2 <= o1) /\
  (forall x, x + 32 <= b_msize s -> exists o b, geom s o = Some b /\ o <= x /\ x < o + 2 ^ b).
Proof.
  intros ms s Hs H. destruct (breach_inv ms s Hs H) as [I _]. pose proof (bi_geo s I) as G.
  split; [exact (bg_geo s G)|]. split; [exact (bg_disj s G)|exact (bg_cover s G)].
Qed.
Print Assumptions buddy_tiling.

Theorem buddy_no_free_buddies : forall ms s, ms - self_size < 2 ^ 63 -> breach ms s ->
  forall o b o', b_hdr s o = Some (b, false) -> get_buddy s o b = Some o' -> b_hdr s o' <> Some (b, false).
Proof. intros ms s Hs H. destruct (breach_inv ms s Hs H) as [I _]. exact (bf_nobud s (bi_free s I)). Qed.
Print Assumptions buddy_no_free_buddies.

(* the address get_buddy computes is the start of a current page of at most the same order *)
Theorem buddy_address_is_a_page : forall s p bits bd, BGeo s -> geom s p = Some bits -> get_buddy s p bits = Some bd ->
  exists bb, geom s bd = Some bb /\ bb <= bits.
Proof. exact buddy_is_page. Qed.
Print Assumptions buddy_address_is_a_page.

(* malloc: the block lies in a page that is inside the memory, has room for the request behind the 16-byte header,
   is disjoint from every block that was live, and all live blocks stay live; nothing else becomes live *)
Theorem malloc_disjoint : forall req s ptr s', BInv s -> 0 < req -> b_malloc req s = (Some ptr, s') ->
  let bits := get_bits (malloc_size req) in
  let p := ptr - 16 in
  BInv s' /\ ptr = p + 16 /\ used s' p bits /\ req + 16 <= 2 ^ bits /\ p + 2 ^ bits <= b_msize s /\ b_msize s' = b_msize s /\
  (forall o b, used s o b -> used s' o b /\ (o + 2 ^ b <= p \/ p + 2 ^ bits <= o)) /\
  (forall o b, used s' o b -> (o = p /\ b = bits) \/ used s o b).
Proof. exact malloc_ok. Qed.
Print Assumptions malloc_disjoint.

Theorem malloc_failure_changes_nothing : forall req s s', BInv s -> 0 < req -> b_malloc req s = (None, s') -> s' = s.
Proof. exact malloc_fail_unchanged. Qed.
Print Assumptions malloc_failure_changes_nothing.

(* free of a live block: the invariant is kept and exactly that block stops being live *)
Theorem free_releases_exactly : forall ptr bits s, BInv s -> used s (ptr - 16) bits ->
  BInv (b_free ptr s) /\ b_msize (b_free ptr s) = b_msize s /\
  (forall o b, used (b_free ptr s) o b <-> (used s o b /\ o <> ptr - 16)).
Proof. exact free_ok. Qed.
Print Assumptions free_releases_exactly.

(* fill, empty, refill indefinitely: whenever no block is live, the page headers and the free lists (as sets) are
   those of the freshly constructed allocator - whatever the history of splits and merges was *)
Theorem free_all_restores : forall ms s, ms - self_size < 2 ^ 63 -> breach ms s -> (forall o b, ~ used s o b) ->
  (forall o b u, b_hdr s o = Some (b, u) <-> b_hdr (b_init ms) o = Some (b, u)) /\
  (forall o b, In o (b_fl s b) <-> In o (b_fl (b_init ms) b)).
Proof. exact free_all_restores_full. Qed.
Print Assumptions free_all_restores.

Example buddy_nonvacuous :
  let s0 := b_init 1544 in
  let r1 := b_malloc 100 s0 in
  let r2 := b_malloc 200 (snd r1) in
  let s4 := b_free 528 (b_free 784 (snd r2)) in
  fst r1 = Some 784 /\ fst r2 = Some 528 /\ fst (b_malloc 497 s0) = None /\ b_err s4 = false /\
  map (b_fl (snd r2)) [5;6;7;8;9] = [[960]; [896]; []; []; [0]] /\
  map (b_fl s4) [5;6;7;8;9] = map (b_fl s0) [5;6;7;8;9] /\
  total_free_memory (snd r2) = 560 /\ total_free_memory s4 = 912.
Proof. vm_compute. repeat split; reflexivity. Qed.

(* ------------------------------------------------------------------------------------------------ *)
(* 5. conservation across cache and allocator (resource model C08.ResDefs: the containers of mem_cache<process_settings>
      OVER the buddy model; every allocation inside store - value copy, int_key, bucket vectors, the node of primary, the key
      copy INSIDE that node, lru node, timeout node, trigger name, node of triggers, name copy inside it, the two list nodes -
      is a b_malloc that fails whenever the allocator state says so; F = blocks of other tenants of the segment, arbitrary).
      `src_prot` is read off the current private/hash_map.h (Link.link_allocate_protected): basic_map::allocate gives the
      node back when constructing the element throws.                                                              *)
Definition src_prot : bool := allocate_protected g_allocate_copy.
Definition k16 : key := [75;49;50;51;52;53;54;55;56;57;48;49;50;51;52;53].

(* no orphan block, no dangling record: after ANY history the in-use pages of the segment are exactly the blocks recorded
   under the cache indexes plus those of the other tenants, each once *)
Theorem no_orphan_blocks : forall ms F ops r0, ms - self_size < 2 ^ 63 -> RI ms F r0 ->
  let r := rrun src_prot ops r0 in
  breach ms (r_a r) /\ NoDup (ptrs r ++ F) /\
  (forall o b, used (r_a r) o b -> In (o + 16) (ptrs r ++ F)) /\
  (forall p, In p (ptrs r ++ F) -> 16 <= p /\ exists b, used (r_a r) (p - 16) b).
Proof. unfold src_prot. rewrite link_allocate_protected. exact conservation_any_history. Qed.
Print Assumptions no_orphan_blocks.

(* whatever fails inside a store - and whether or not basic_map::allocate is protected - the blocks recorded between
   operations all belong to the four indexes: no int_key, tr, converted pair, ar or pending node survives (`clean`) *)
Theorem no_temporaries_between_operations : forall prot ops r, clean r -> clean (rrun prot ops r).
Proof. intros prot ops r. exact (clean_rrun prot ops r). Qed.
Print Assumptions no_temporaries_between_operations.

(* any limit: clear() - WHETHER OR NOT one of its two rehash calls throws - leaves nothing recorded but bucket vectors: no entry,
   no trigger (the four indexes are empty and consistent); the in-use pages are those vectors and the blocks of the other tenants.
   The same holds after a store whose bad_alloc handler ran nl_clear() (r_store ends with rclear on that path). *)
Theorem clear_always_empties_the_indexes : forall ms F ops r0, ms - self_size < 2 ^ 63 -> RI ms F r0 -> clean r0 ->
  let r := rclear (rrun src_prot ops r0) in
  only is_tv r /\ count is_pn r = 0 /\ count is_tn r = 0 /\
  forall o, (exists b, used (r_a r) o b) <-> In (o + 16) (ptrs r ++ F).
Proof. unfold src_prot. rewrite link_allocate_protected. exact clear_leaves_vectors. Qed.
Print Assumptions clear_always_empties_the_indexes.

(* the cache stays usable, for every limit: a clear() goes through as soon as - with every container emptied - the allocator has a
   free page for a bucket vector (has_room), and one again after the first vector was re-created; nothing is needed for limit 0.
   After a clear()/store whose nl_clear() threw, the state holds nothing but bucket vectors (previous theorem), so the retry needs no
   more than these two pages: the failure is transient, not a wedge (it was one before /repo a6386b3). *)
Theorem clear_succeeds_once_memory_is_available : forall r, r_faults r = [] ->
  let r1 := free_where trigger_side (free_where primary_side r) in
  (0 < r_limit r -> has_room (r_a r1) (sz_bucket * r_limit r)) ->
  (0 < r_limit r -> forall r2, regrow true r1 = (r2, true) -> has_room (r_a r2) (sz_bucket * r_limit r)) ->
  snd (nl_clear r) = true.
Proof. exact clear_succeeds_with_room. Qed.
Print Assumptions clear_succeeds_once_memory_is_available.

(* fetch (lru.splice since /repo 117bb4c) obtains and releases nothing: the block set, the allocator and the tables are untouched *)
Theorem fetch_never_changes_the_block_set : forall prot k r, rstep prot (RFetch k) r = r.
Proof. reflexivity. Qed.
Print Assumptions fetch_never_changes_the_block_set.

(* limit 0: clear() allocates nothing and can not throw; afterwards the cache records no block and the in-use pages are exactly those of the other tenants *)
Theorem clear_releases_everything : forall ms F ops r0, ms - self_size < 2 ^ 63 -> RI ms F r0 -> clean r0 -> r_limit r0 = 0 ->
  let r := rclear (rrun src_prot ops r0) in
  r_b r = [] /\ forall o, (exists b, used (r_a r) o b) <-> In (o + 16) F.
Proof. unfold src_prot. rewrite link_allocate_protected. exact clear_leaves_other_tenants_only. Qed.
Print Assumptions clear_releases_everything.

(* fill, exhaust, clear, refill - indefinitely (limit 0): a cache that has the segment for itself leaves after clear() the page
   headers and free lists (as sets) of the freshly constructed allocator - every page coalesced back, whatever failed in between *)
Theorem exhaust_clear_restores_fresh_segment : forall ms ops, ms - self_size < 2 ^ 63 ->
  let r := rclear (rrun src_prot ops (r_init (b_init ms) 0)) in
  (forall o b u, b_hdr (r_a r) o = Some (b, u) <-> b_hdr (b_init ms) o = Some (b, u)) /\
  (forall o b, In o (b_fl (r_a r) b) <-> In o (b_fl (b_init ms) b)).
Proof. unfold src_prot. rewrite link_allocate_protected. exact clear_restores_fresh_segment. Qed.
Print Assumptions exhaust_clear_restores_fresh_segment.

(* regression of finding 1 (was limited_cache_clear_throws_refuted: before a6386b3 this history left 108 blocks of the trigger index
   recorded with no entry, and every later clear() threw).  16 KiB segment, limit 64, one store with 80 trigger names of 20 bytes
   exhausts the segment: now the nl_clear() of the handler goes through - only the two bucket vectors are recorded, a clear() would
   succeed, the next store (and a fetch) work.  Corpus: corpus/C08/regress_clear_in_handler.case *)
Example limit64_exhaustion_recovers :
  let r0 := rclear (r_init (b_init 16928) 64) in
  let r1 := rrun true [RStore k16 [] (map (fun i => i :: repeat 116 19) (nseq 0 80)) []] r0 in
  let r2 := rrun true [RStore k16 [] [[84;1;2;3;4;5;6;7;8;9;0;1;2;3;4;5;6]] []; RFetch k16] r1 in
  (length (r_b r0) = 2%nat /\ total_free_memory (r_a r0) = 12256) /\
  (length (r_b r1) = 2%nat /\ count is_pn r1 = 0 /\ count trigger_side r1 = 0 /\ snd (nl_clear r1) = true) /\
  (count is_pn r2 = 1 /\ count trigger_side r2 = 6 /\ length (r_b r2) = 14%nat).
Proof. vm_compute. repeat split; reflexivity. Qed.

(* a rehash that throws INSIDE the bad_alloc handler is transient: the key copy of a store fails (4th allocation) and so does the
   vector allocation of the handler's nl_clear() (injected): std::bad_alloc leaves store(), the cache holds its two old bucket
   vectors and nothing else; the next clear() re-creates them, the next store goes through *)
Example rehash_failure_in_the_handler_is_transient :
  let r0 := rclear (r_init (b_init 16928) 64) in
  let q1 := rrun true [RInject [false; false; false; true; true]; RStore k16 [] [] []] r0 in
  let q2 := rrun true [RClear] q1 in
  let q3 := rrun true [RStore k16 [] [] []] q2 in
  (map fst (r_b q1) = [TV false 2; TV true 1] /\ r_faults q1 = [] /\ total_free_memory (r_a q1) = 12256) /\
  map fst (r_b q2) = [TV false 4; TV true 3] /\ (count is_pn q3 = 1 /\ length (r_b q3) = 10%nat).
Proof. vm_compute. repeat split; reflexivity. Qed.

(* the catch block of basic_map::allocate is necessary: without it (prot = false) one store of a 16-byte key into a segment
   with 448 usable bytes - the key copy inside the freshly allocated node fails - leaves the 256-byte page of the node in use
   after clear() although the cache records no block; with it the same history gives the page back *)
Theorem unprotected_allocate_orphans_the_node :
  let hist := [RStore k16 [] [] []] in
  let bad := rclear (rrun false hist (r_init (b_init 992) 0)) in
  let good := rclear (rrun true hist (r_init (b_init 992) 0)) in
  r_b bad = [] /\ b_hdr (r_a bad) 0 = Some (8, true) /\ total_free_memory (r_a bad) = 160 /\
  r_b good = [] /\ b_hdr (r_a good) 0 = Some (8, false) /\ total_free_memory (r_a good) = total_free_memory (b_init 992).
Proof. vm_compute. repeat split; reflexivity. Qed.
Print Assumptions unprotected_allocate_orphans_the_node.

(* non-vacuity: a segment of 4096 usable bytes; the first store goes through (10 blocks recorded), the second one (four long
   and seven short trigger names) runs out of memory inside the trigger index and clears the cache: everything is back; a third
   store goes through again *)
Example conservation_nonvacuous :
  let t1 : key := [84;49;50;51;52;53;54;55;56;57;48;49;50;51;52;53;54;55;56;57] in
  let t2 : key := [85;49;50;51;52;53;54;55;56;57;48;49;50;51;52;53;54;55;56;57] in
  let t3 : key := [86;49;50;51;52;53;54;55;56;57;48;49;50;51;52;53;54;55;56;57] in
  let r1 := rrun true [RStore k16 [] [] []] (r_init (b_init 4640) 0) in
  let r2 := rrun true [RStore [1] [] [t1; t2; t3; k16; [2]; [3]; [4]; [5]; [6]; [7]; [8]] []] r1 in
  let r3 := rrun true [RStore k16 [] [t1] []] r2 in
  (length (r_b r1) = 10%nat /\ total_free_memory (r_a r1) = 3136) /\
  (r_b r2 = [] /\ total_free_memory (r_a r2) = total_free_memory (b_init 4640)) /\
  length (r_b r3) = 14%nat.
Proof. vm_compute. repeat split; reflexivity. Qed.
Example conservation_premise_nonvacuous : RI 4640 [] (r_init (b_init 4640) 0) /\ clean (r_init (b_init 4640) 0).
Proof. split; [apply RI_init; vm_compute; reflexivity|reflexivity]. Qed.

(* failure injection (RInject): the fifth allocation of a store of a 16-byte key - the key copy inside the freshly allocated node of
   primary - throws although the segment (64 KiB) has plenty of room.  Protected allocate: everything is back after clear();
   unprotected: the 256-byte page of the node at offset 256 stays in use with nothing recorded (this is what `inj` replays on the real
   thread_shared cache: the heap footprint grows by 136 bytes from k = 6 on when the value is long, k = 5 here) *)
Example injected_failure_at_the_key_copy :
  let run p := rclear (rrun p [RInject [false; false; false; false; true]; RStore k16 [] [] []] (r_init (b_init 66080) 0)) in
  (r_b (run true) = [] /\ total_free_memory (r_a (run true)) = total_free_memory (b_init 66080)) /\
  (r_b (run false) = [] /\ b_hdr (r_a (run false)) 256 = Some (8, true) /\ total_free_memory (r_a (run false)) = 65152).
Proof. vm_compute. repeat split; reflexivity. Qed.
