(* C08: between operations the resource model holds no temporary (int_key, tr.first, the converted pairs, ar, a pending
   node): whatever fails inside a store, the blocks recorded afterwards all belong to the four indexes; after a clear() - whether or
   not one of its rehash calls threw - only bucket vectors are recorded, none at all with limit 0. *)
From CppcmsV Require Import Base.Tac C07.Defs C08.Defs C08.ResDefs.
Import ListNotations.
Local Open Scope N_scope.

Definition only (A : tag -> bool) (r : rstate) : Prop := forallb (fun e => A (fst e)) (r_b r) = true.
Definition temp_tag (t : tag) : bool := is_tmp_or_key t || is_ar t.
Definition perm (t : tag) : bool := negb (temp_tag t).
Definition clean (r : rstate) : Prop := only perm r.

Lemma only_weaken (A B : tag -> bool) r : (forall t, A t = true -> B t = true) -> only A r -> only B r.
Proof.
  unfold only. intros H. induction (r_b r) as [|e l IH]; cbn [forallb]; [reflexivity|].
  intros K. apply andb_true_iff in K. destruct K as [K1 K2]. rewrite (H _ K1), (IH K2). reflexivity.
Qed.

Lemma only_filter (A Q : tag -> bool) (l : list (tag * N)) :
  forallb (fun e => A (fst e)) l = true ->
  forallb (fun e => A (fst e) && negb (Q (fst e))) (filter (fun e => negb (Q (fst e))) l) = true.
Proof.
  induction l as [|e l IH]; cbn [forallb filter]; [reflexivity|].
  intros K. apply andb_true_iff in K. destruct K as [K1 K2].
  destruct (Q (fst e)) eqn:E; cbn [negb]; [exact (IH K2)|].
  cbn [forallb]. rewrite K1, E, (IH K2). reflexivity.
Qed.

Lemma only_free_where (A Q : tag -> bool) r : only A r -> only (fun t => A t && negb (Q t)) (free_where Q r).
Proof. unfold only, free_where. cbn [r_b with_b with_a]. apply only_filter. Qed.

Lemma only_forget (A Q : tag -> bool) r : only A r -> only (fun t => A t && negb (Q t)) (forget Q r).
Proof. unfold only, forget. cbn [r_b with_b]. apply only_filter. Qed.

Lemma only_retag (A B : tag -> bool) f r : (forall t, A t = true -> B (f t) = true) -> only A r -> only B (retag f r).
Proof.
  unfold only, retag. cbn [r_b with_b]. intros H. induction (r_b r) as [|e l IH]; cbn [map forallb fst]; [reflexivity|].
  intros K. apply andb_true_iff in K. destruct K as [K1 K2]. rewrite (H _ K1), (IH K2). reflexivity.
Qed.

Lemma only_ralloc (A : tag -> bool) tg req r : A tg = true -> only A r -> only A (fst (ralloc tg req r)).
Proof.
  intros Ht H. unfold ralloc. destruct (r_faults r) as [|[|] fs]; cbn [fst]; try exact H;
    destruct (b_malloc req (r_a r)) as [[p|] a]; cbn [fst]; unfold only in *; cbn [r_b with_b with_a with_faults forallb fst];
    try rewrite Ht; try exact H.
Qed.

Lemma ralloc_fail_blocks tg req r : snd (ralloc tg req r) = false -> r_b (fst (ralloc tg req r)) = r_b r.
Proof.
  unfold ralloc. destruct (r_faults r) as [|[|] fs]; cbn [fst snd]; try (intros; reflexivity);
    destruct (b_malloc req (r_a r)) as [[p|] a]; cbn [fst snd]; intros K; try discriminate; reflexivity.
Qed.

Lemma only_opt_alloc (A : tag -> bool) tg o r : A tg = true -> only A r -> only A (fst (opt_alloc tg o r)).
Proof. intros Ht H. destruct o; cbn [opt_alloc]; [apply only_ralloc; assumption|exact H]. Qed.

Lemma only_tabs (A : tag -> bool) pt tt g r : only A r -> only A (with_tabs pt tt g r).
Proof. intros H. exact H. Qed.

(* the node is never left pending: whichever way basic_map::allocate ends, and whether or not it is protected *)
Lemma only_hm_allocate (A : tag -> bool) prot tn tx nsz ksz r :
  A tn = true -> A tx = true -> A TPend = false -> only A r -> only A (fst (hm_allocate prot tn tx nsz ksz r)).
Proof.
  intros Hn Hx Hp H. unfold hm_allocate.
  pose (A' := fun t => A t || is_pend t).
  assert (W : forall t, A t = true -> A' t = true) by (intros t K; unfold A'; rewrite K; reflexivity).
  assert (H' : only A' r) by (apply (only_weaken A A' r W H)).
  assert (Back : forall t, A' t && negb (is_pend t) = true -> A t = true).
  { intros t K. unfold A' in K. destruct t; cbn [is_pend negb] in K; rewrite ?orb_false_r, ?andb_true_r in K; try exact K.
    rewrite andb_false_r in K. discriminate. }
  assert (Re : forall t, A' t = true -> A (pend_to tn t) = true).
  { intros t K. unfold A' in K. destruct t; cbn [is_pend pend_to] in *; rewrite ?orb_false_r in K; try exact K. exact Hn. }
  assert (Pp : A' TPend = true) by (unfold A'; cbn [is_pend]; apply orb_true_r).
  pose proof (only_ralloc A' TPend nsz r Pp H') as H1.
  pose proof (ralloc_fail_blocks TPend nsz r) as Fb.
  destruct (ralloc TPend nsz r) as [r1 [|]] eqn:E1; cbn [fst snd] in *.
  - destruct ksz as [n|].
    + pose proof (only_ralloc A' tx n r1 (W _ Hx) H1) as H2.
      destruct (ralloc tx n r1) as [r2 [|]]; cbn [fst] in *.
      * apply (only_retag A' A); assumption.
      * destruct prot; cbn [fst].
        -- apply (only_weaken _ A _ Back). apply only_free_where. exact H2.
        -- apply (only_weaken _ A _ Back). apply only_forget. exact H2.
    + cbn [fst]. apply (only_retag A' A); assumption.
  - unfold only. rewrite (Fb eq_refl). exact H.
Qed.

(* ---- success-conditional tracking of the tags present ---- *)
Definition OnlyS (A B : tag -> bool) (f : rstate -> rstate * bool) : Prop :=
  forall r, only A r -> snd (f r) = true -> only B (fst (f r)).

Lemma OnlyS_of_total (A B : tag -> bool) f : (forall r, only A r -> only B (fst (f r))) -> OnlyS A B f.
Proof. intros H r HA _. apply H. exact HA. Qed.

Lemma OnlyS_bind (A B C : tag -> bool) f g : OnlyS A B f -> OnlyS B C g -> OnlyS A C (fun r => bind (f r) g).
Proof.
  intros Hf Hg r HA Hs. unfold bind in *. destruct (snd (f r)) eqn:E.
  - apply Hg; [apply Hf; assumption|exact Hs].
  - rewrite E in Hs. discriminate.
Qed.

Definition A_ar (t : tag) : bool := perm t || is_ar t.
Definition A_k (t : tag) : bool := A_ar t || is_key t.
Definition A_kc (t : tag) : bool := A_k t || is_conv t.
Definition B_k (t : tag) : bool := perm t || is_key t.
Definition B_kt (t : tag) : bool := B_k t || is_tmp t.
Definition B_ktc (t : tag) : bool := B_kt t || is_conv t.

Ltac tagcases := let t := fresh "t" in intros t; destruct t; cbn; intros; try reflexivity; try discriminate; try assumption.

Lemma only_delete_node (A : tag -> bool) k r : only A r -> only A (r_delete_node k r).
Proof.
  intros H. unfold r_delete_node.
  apply (only_weaken (fun t => (A t && negb (owned_by k t)) && negb (dead_trigger (r_b (free_where (owned_by k) r)) t)) A).
  - intros t K. apply andb_true_iff in K. destruct K as [K _]. apply andb_true_iff in K. exact (proj1 K).
  - apply only_free_where. apply only_free_where. exact H.
Qed.

Lemma only_fold_delete (A : tag -> bool) ks : forall r, only A r -> only A (fold_left (fun r k => r_delete_node k r) ks r).
Proof. induction ks as [|k ks IH]; intros r H; cbn [fold_left]; [exact H|]. apply IH. apply only_delete_node. exact H. Qed.

Lemma only_grow (A : tag -> bool) w r : (forall g, A (TV w g) = true) -> only A r -> only A (fst (grow w r)).
Proof.
  intros Hv H. unfold grow.
  destruct ((if w then r_pt r else r_tt r) <=? count (if w then is_pn else is_tn) r + 1); [|exact H].
  pose proof (only_ralloc A (TV w (N.succ (r_gen r))) (sz_bucket * ((1 + count (if w then is_pn else is_tn) r) * 2)) r (Hv _) H) as H1.
  destruct (ralloc (TV w (N.succ (r_gen r))) (sz_bucket * ((1 + count (if w then is_pn else is_tn) r) * 2)) r) as [r1 [|]]; cbn [fst] in *.
  - apply only_tabs. apply (only_weaken (fun t => A t && negb (other_vec w (N.succ (r_gen r)) t)) A).
    + intros t K. apply andb_true_iff in K. exact (proj1 K).
    + apply only_free_where. exact H1.
  - exact H1.
Qed.

Lemma only_free_to (A B Q : tag -> bool) r : (forall t, A t && negb (Q t) = true -> B t = true) -> only A r -> only B (free_where Q r).
Proof. intros W H. apply (only_weaken _ B _ W). apply only_free_where. exact H. Qed.

Lemma add_trigger_tags prot k t : OnlyS B_k B_k (add_trigger prot k t).
Proof.
  unfold add_trigger.
  apply (OnlyS_bind B_k B_kt B_k).
  { apply OnlyS_of_total. intros r H. apply only_opt_alloc; [reflexivity|]. apply (only_weaken B_k B_kt); [|exact H]. tagcases. }
  apply (OnlyS_bind B_kt B_ktc B_k).
  { apply OnlyS_of_total. intros r H. apply only_opt_alloc; [reflexivity|]. apply (only_weaken B_kt B_ktc); [|exact H]. tagcases. }
  apply (OnlyS_bind B_ktc B_ktc B_k).
  { apply OnlyS_of_total. intros r H. apply only_grow; [reflexivity|exact H]. }
  apply (OnlyS_bind B_ktc B_ktc B_k).
  { apply OnlyS_of_total. intros r H. destruct (has_tn t (r_b r)); [exact H|]. apply only_hm_allocate; try reflexivity. exact H. }
  apply (OnlyS_bind B_ktc B_kt B_k (fun r3 => ralloc (TL t k) sz_lnode (free_where is_conv r3))).
  { apply OnlyS_of_total. intros r H. apply only_ralloc; [reflexivity|]. apply (only_free_to B_ktc B_kt); [|exact H]. tagcases. }
  apply (OnlyS_bind B_kt B_kt B_k).
  { apply OnlyS_of_total. intros r H. apply only_ralloc; [reflexivity|exact H]. }
  apply OnlyS_of_total. intros r H. cbn [fst]. apply (only_free_to B_kt B_k); [|exact H]. tagcases.
Qed.

Lemma fold_bind_fail (f : key -> rstate -> rstate * bool) ts : forall x, snd x = false ->
  snd (fold_left (fun x t => bind x (f t)) ts x) = false.
Proof.
  induction ts as [|t ts IH]; intros x Hx; cbn [fold_left]; [exact Hx|]. apply IH. unfold bind. rewrite Hx. exact Hx.
Qed.

Lemma fold_triggers_tags prot k ts : forall x, only B_k (fst x) -> snd x = true ->
  snd (fold_left (fun x t => bind x (add_trigger prot k t)) ts x) = true ->
  only B_k (fst (fold_left (fun x t => bind x (add_trigger prot k t)) ts x)).
Proof.
  induction ts as [|t ts IH]; intros x Hx Hs Hfin; cbn [fold_left] in *; [exact Hx|].
  destruct (snd (bind x (add_trigger prot k t))) eqn:E.
  - apply IH; [|exact E|exact Hfin]. unfold bind in *. rewrite Hs in *. apply add_trigger_tags; assumption.
  - rewrite (fold_bind_fail (add_trigger prot k) ts _ E) in Hfin. discriminate.
Qed.

Lemma store_body_tags prot k trigs ev : OnlyS A_ar perm (r_store_body prot k trigs ev).
Proof.
  unfold r_store_body. cbv zeta.
  apply (OnlyS_bind A_ar A_k perm (fun r => opt_alloc TKey (strsz k) (fold_left (fun r k' => r_delete_node k' r) (k :: ev) r))).
  { apply OnlyS_of_total. intros r H. apply only_opt_alloc; [reflexivity|]. apply (only_weaken A_ar A_k); [tagcases|].
    apply only_fold_delete. exact H. }
  apply (OnlyS_bind A_k A_kc perm).
  { apply OnlyS_of_total. intros r H. apply only_opt_alloc; [reflexivity|]. apply (only_weaken A_k A_kc); [|exact H]. tagcases. }
  apply (OnlyS_bind A_kc A_kc perm).
  { apply OnlyS_of_total. intros r H. apply only_grow; [reflexivity|exact H]. }
  apply (OnlyS_bind A_kc A_kc perm).
  { apply OnlyS_of_total. intros r H. apply only_hm_allocate; try reflexivity. exact H. }
  apply (OnlyS_bind A_kc B_k perm (fun r3 => ralloc (TPX k) sz_lnode (retag (ar_to k) (free_where is_conv r3)))).
  { apply OnlyS_of_total. intros r H. apply only_ralloc; [reflexivity|].
    apply (only_retag A_k B_k); [tagcases|]. apply (only_free_to A_kc A_k); [|exact H]. tagcases. }
  apply (OnlyS_bind B_k B_k perm).
  { apply OnlyS_of_total. intros r H. apply only_ralloc; [reflexivity|exact H]. }
  apply (OnlyS_bind B_k B_k perm (fun r6 => fold_left (fun x t => bind x (add_trigger prot k t)) (k :: trigs) (r6, true))).
  { intros r H Hs. apply fold_triggers_tags; [exact H|reflexivity|exact Hs]. }
  apply OnlyS_of_total. intros r H. cbn [fst]. apply (only_free_to B_k perm); [|exact H]. tagcases.
Qed.

Lemma only_regrow (A : tag -> bool) w r : (forall g, A (TV w g) = true) -> only A r -> only A (fst (regrow w r)).
Proof.
  intros Hv H. unfold regrow. destruct (r_limit r =? 0); cbn [fst].
  - apply only_tabs. apply (only_free_to A A); [|exact H]. intros t K. apply andb_true_iff in K. exact (proj1 K).
  - pose proof (only_ralloc A (TV w (N.succ (r_gen r))) (sz_bucket * r_limit r) r (Hv _) H) as H1.
    destruct (ralloc (TV w (N.succ (r_gen r))) (sz_bucket * r_limit r) r) as [r1 [|]]; cbn [fst] in *; [|exact H1].
    apply only_tabs. apply (only_free_to A A); [|exact H1]. intros t K. apply andb_true_iff in K. exact (proj1 K).
Qed.

Lemma only_two_regrows (A : tag -> bool) r : (forall w g, A (TV w g) = true) -> only A r ->
  only A (fst (bind (regrow true r) (regrow false))).
Proof.
  intros Hv H. unfold bind.
  pose proof (only_regrow A true r (Hv true) H) as H1.
  destruct (snd (regrow true r)); [|exact H1]. apply only_regrow; [apply Hv|exact H1].
Qed.

Lemma only_nl_clear (A : tag -> bool) r : (forall w g, A (TV w g) = true) -> only A r -> only A (fst (nl_clear r)).
Proof.
  intros Hv H. unfold nl_clear. cbv zeta. apply only_two_regrows; [exact Hv|].
  apply (only_free_to A A); [intros t K; apply andb_true_iff in K; exact (proj1 K)|].
  apply (only_free_to A A); [intros t K; apply andb_true_iff in K; exact (proj1 K)|exact H].
Qed.

Lemma only_all r : only (fun _ => true) r.
Proof. unfold only. induction (r_b r) as [|e l IH]; [reflexivity|exact IH]. Qed.

Lemma clean_store prot k v trigs ev r : clean r -> clean (r_store prot k v trigs ev r).
Proof.
  intros H. unfold r_store.
  assert (H0 : only A_ar r) by (apply (only_weaken perm A_ar); [tagcases|exact H]).
  pose proof (only_opt_alloc A_ar TAr (strsz v) r eq_refl H0) as H1.
  destruct (opt_alloc TAr (strsz v) r) as [r1 [|]] eqn:E1; cbn [fst] in H1.
  - pose proof (store_body_tags prot k trigs ev r1 H1) as H2.
    destruct (r_store_body prot k trigs ev r1) as [r2 [|]]; cbn [fst snd] in H2.
    + exact (H2 eq_refl).
    + apply (only_free_to (fun t => negb (is_tmp_or_key t)) perm); [tagcases|].
      apply only_nl_clear; [reflexivity|]. apply (only_free_to (fun _ => true) (fun t => negb (is_tmp_or_key t))); [tagcases|]. apply only_all.
  - apply only_delete_node. unfold clean, only.
    destruct (strsz v) as [n|]; cbn [opt_alloc] in E1; [|inversion E1].
    pose proof (ralloc_fail_blocks TAr n r) as Fb. rewrite E1 in Fb. cbn [fst snd] in Fb. rewrite (Fb eq_refl). exact H.
Qed.

Lemma clean_rstep prot o r : clean r -> clean (rstep prot o r).
Proof.
  intros H. destruct o as [k v trigs ev|k|t| |k|f]; cbn [rstep].
  - apply clean_store. exact H.
  - apply only_delete_node. exact H.
  - apply only_fold_delete. exact H.
  - unfold rclear. apply only_nl_clear; [reflexivity|exact H].
  - exact H.
  - exact H.
Qed.

(* whatever fails, and whether or not basic_map::allocate is protected: no temporary is recorded between operations *)
Lemma clean_rrun prot ops : forall r, clean r -> clean (rrun prot ops r).
Proof.
  induction ops as [|o ops IH]; intros r H; cbn [rrun fold_left]; [exact H|]. apply IH. apply clean_rstep. exact H.
Qed.

(* ---- what clear() leaves - WHETHER OR NOT one of its two rehash calls throws: nothing but bucket vectors; nothing at all with limit 0 ---- *)
Definition is_tv (t : tag) : bool := match t with TV _ _ => true | _ => false end.

Lemma clear_only_vectors r : clean r -> only is_tv (rclear r).
Proof.
  intros H. unfold rclear, nl_clear. cbv zeta. apply only_two_regrows; [reflexivity|].
  apply (only_free_to (fun t => perm t && negb (primary_side t)) is_tv); [tagcases|].
  apply only_free_where. exact H.
Qed.

Lemma limit0_clear_ok r : r_limit r = 0 -> snd (nl_clear r) = true.
Proof.
  intros H0. unfold nl_clear, bind, regrow. cbn [r_limit free_where with_b with_a]. rewrite H0. cbn [N.eqb snd fst].
  cbn [r_limit free_where with_b with_a with_tabs]. rewrite H0. reflexivity.
Qed.

Lemma four_filters (l : list (tag * N)) : forallb (fun e => perm (fst e)) l = true ->
  filter (fun e => negb (is_vec false (fst e)))
    (filter (fun e => negb (is_vec true (fst e)))
       (filter (fun e => negb (trigger_side (fst e)))
          (filter (fun e => negb (primary_side (fst e))) l))) = [].
Proof.
  induction l as [|[t p] l IH]; [reflexivity|]. cbn [forallb fst]. intros K. apply andb_true_iff in K. destruct K as [K1 K2].
  specialize (IH K2).
  destruct t as [k|k|k|k|k1 k2|w g| | | | | ]; cbn in K1; try discriminate; cbn [filter fst primary_side trigger_side is_vec negb Bool.eqb];
    try exact IH.
  destruct w; cbn [filter fst primary_side trigger_side is_vec negb Bool.eqb]; exact IH.
Qed.

Lemma limit0_clear_blocks r : r_limit r = 0 -> clean r -> r_b (rclear r) = [].
Proof.
  intros H0 H. rewrite <- (four_filters (r_b r) H).
  unfold rclear, nl_clear, regrow. cbn [r_limit free_where with_b with_a]. rewrite H0. cbn [N.eqb]. unfold bind. cbn [snd fst].
  cbn [r_limit free_where with_b with_a with_tabs]. rewrite H0. cbn [N.eqb fst]. reflexivity.
Qed.
