(* C08: conservation of allocator blocks across the cache (resource model ResDefs over the buddy model). *)
From CppcmsV Require Import Base.Tac C07.Defs C08.Defs C08.ResDefs C08.ProofsClosure C08.ProofsRes2.
From CppcmsV Require Import C08.BuddyArith C08.ProofsBuddy C08.ProofsBuddy2 C08.ProofsBuddy3 C08.ProofsBuddy4 C08.ProofsBuddy5.
Import ListNotations.
Local Open Scope N_scope.

Section Res.
Variable ms : N.
Hypothesis Hms : ms - self_size < 2 ^ 63.

(* allocator a, list L of user pointers: exactly the live blocks *)
Record AI (a : bstate) (L : list N) : Prop := mkAI {
  ai_reach : breach ms a;
  ai_nodup : NoDup L;
  ai_live : forall o b, used a o b -> In (o + 16) L;
  ai_own : forall p, In p L -> 16 <= p /\ exists b, used a (p - 16) b
}.

Lemma AI_inv a L : AI a L -> BInv a.
Proof. intros H. exact (proj1 (breach_inv ms a Hms (ai_reach a L H))). Qed.

Lemma AI_malloc a L req : AI a L -> 0 < req ->
  match b_malloc req a with
  | (Some p, a1) => AI a1 (p :: L)
  | (None, a1) => a1 = a
  end.
Proof.
  intros H Hr. pose proof (AI_inv a L H) as I.
  destruct (b_malloc req a) as [[p|] a1] eqn:E.
  - destruct (malloc_ok req a p a1 I Hr E) as (_ & Hp & Hu & _ & _ & _ & Hold & Hnew).
    assert (R : breach ms a1) by (pose proof (br_malloc ms a req (ai_reach a L H) Hr) as B; rewrite E in B; exact B).
    constructor.
    + exact R.
    + constructor; [|exact (ai_nodup a L H)].
      intros Hin. destruct (ai_own a L H p Hin) as (_ & b & Hb).
      destruct (Hold _ _ Hb) as (_ & Hd). pose proof (pow2_pos b). pose proof (pow2_pos (get_bits (malloc_size req))). lia.
    + intros o b Ho. destruct (Hnew o b Ho) as [[-> _]|Ho'].
      * left. lia.
      * right. exact (ai_live a L H o b Ho').
    + intros q [<-|Hq].
      * split; [lia|]. eexists. exact Hu.
      * destruct (ai_own a L H q Hq) as (Hq16 & b & Hb). split; [exact Hq16|]. exists b. exact (proj1 (Hold _ _ Hb)).
  - exact (malloc_fail_unchanged req a a1 I Hr E).
Qed.

Lemma AI_free a L p : AI a L -> In p L -> AI (b_free p a) (filter (fun x => negb (x =? p)) L).
Proof.
  intros H Hp. pose proof (AI_inv a L H) as I.
  destruct (ai_own a L H p Hp) as (Hp16 & bits & Hb).
  destruct (free_ok p bits a I Hb) as (_ & _ & Hiff).
  constructor.
  - exact (br_free ms a p bits (ai_reach a L H) Hb).
  - apply NoDup_filter. exact (ai_nodup a L H).
  - intros o b Ho. apply Hiff in Ho. destruct Ho as [Ho Hne]. apply filter_In. split; [exact (ai_live a L H o b Ho)|].
    apply negb_true_iff, N.eqb_neq. lia.
  - intros q Hq. apply filter_In in Hq. destruct Hq as [Hq Hne]. apply negb_true_iff, N.eqb_neq in Hne.
    destruct (ai_own a L H q Hq) as (Hq16 & b & Hqb). split; [exact Hq16|]. exists b. apply Hiff. split; [exact Hqb|lia].
Qed.

(* AI only looks at L through In and NoDup *)
Lemma AI_ext a L L' : AI a L -> NoDup L' -> (forall x, In x L' <-> In x L) -> AI a L'.
Proof.
  intros H Hn He. constructor; [exact (ai_reach a L H)|exact Hn| |].
  - intros o b Ho. apply He. exact (ai_live a L H o b Ho).
  - intros p Hp. apply He in Hp. exact (ai_own a L H p Hp).
Qed.

Definition free_list (ps : list N) (a : bstate) : bstate := fold_left (fun a p => b_free p a) ps a.

Lemma AI_free_list ps : forall a L L', AI a L -> NoDup ps -> incl ps L -> NoDup L' ->
  (forall x, In x L' <-> In x L /\ ~ In x ps) -> AI (free_list ps a) L'.
Proof.
  induction ps as [|p ps IH]; intros a L L' H Hn Hi Hn' He; cbn [free_list fold_left].
  - apply (AI_ext a L L' H Hn'). intros x. rewrite He. cbn. tauto.
  - inversion Hn as [|? ? Hnp Hn2]; subst.
    apply (IH (b_free p a) (filter (fun x => negb (x =? p)) L) L').
    + apply AI_free; [exact H|]. apply Hi. left. reflexivity.
    + exact Hn2.
    + intros x Hx. apply filter_In. split; [apply Hi; right; exact Hx|].
      apply negb_true_iff, N.eqb_neq. intros ->. exact (Hnp Hx).
    + exact Hn'.
    + intros x. rewrite He, filter_In, negb_true_iff, N.eqb_neq. cbn [In]. split.
      * intros (Hx & Hno). repeat split; [exact Hx| |]; intros K; apply Hno; [left; congruence|right; exact K].
      * intros ((Hx & Hne) & Hno). split; [exact Hx|]. intros [K|K]; [congruence|exact (Hno K)].
Qed.

(* ---- lists of tagged blocks ---- *)
Definition sel (P : tag -> bool) (bl : list (tag * N)) : list N := map snd (filter (fun e => P (fst e)) bl).
Definition rest (P : tag -> bool) (bl : list (tag * N)) : list N := map snd (filter (fun e => negb (P (fst e))) bl).

Lemma fold_free_sel (P : tag -> bool) bl : forall a,
  fold_left (fun a (e : tag * N) => if P (fst e) then b_free (snd e) a else a) bl a = free_list (sel P bl) a.
Proof.
  induction bl as [|[t p] bl IH]; intros a; [reflexivity|].
  cbn [fold_left fst snd]. unfold sel. cbn [filter fst]. destruct (P t); cbn [map snd]; unfold free_list; cbn [fold_left]; apply IH.
Qed.

Lemma sel_rest_in (P : tag -> bool) bl x : In x (map snd bl) <-> In x (sel P bl) \/ In x (rest P bl).
Proof.
  unfold sel, rest. induction bl as [|[t p] bl IH]; cbn [map filter fst snd In]; [tauto|].
  destruct (P t); cbn [negb map snd In]; rewrite IH; tauto.
Qed.

Lemma split_nodup (P : tag -> bool) bl F : NoDup (map snd bl ++ F) ->
  NoDup (sel P bl) /\ NoDup (rest P bl ++ F) /\
  (forall x, In x (rest P bl ++ F) <-> In x (map snd bl ++ F) /\ ~ In x (sel P bl)).
Proof.
  unfold sel, rest. induction bl as [|[t p] bl IH]; cbn [map filter fst snd app]; intros Hn.
  - repeat split; [constructor|exact Hn|tauto|tauto|].
    intros [H _]. exact H.
  - inversion Hn as [|? ? Hp Hn2]; subst. destruct (IH Hn2) as (A & B & C).
    assert (Hsub : forall Q x, In x (map snd (filter (fun e : tag * N => Q (fst e)) bl)) -> In x (map snd bl)).
    { intros Q x Hx. apply in_map_iff in Hx. destruct Hx as (e & <- & He). apply filter_In in He. apply in_map. exact (proj1 He). }
    destruct (P t); cbn [negb map snd app].
    + split; [|split].
      * constructor; [|exact A]. intros K. apply Hp. apply in_or_app. left. exact (Hsub _ _ K).
      * exact B.
      * intros x. rewrite C. cbn [In]. split.
        -- intros (Hx & Hno). split; [right; exact Hx|]. intros [K|K]; [|exact (Hno K)]. subst x. exact (Hp Hx).
        -- intros ([Hx|Hx] & Hno); [exfalso; apply Hno; left; exact Hx|]. split; [exact Hx|]. intros K. apply Hno. right. exact K.
    + split; [exact A|split].
      * constructor; [|exact B]. intros K. apply C in K. exact (Hp (proj1 K)).
      * intros x. cbn [In]. rewrite C. split.
        -- intros [Hx|(Hx & Hno)]; [subst x; split; [left; reflexivity|]|split; [right; exact Hx|exact Hno]].
           intros K. apply Hp. apply in_or_app. left. exact (Hsub _ _ K).
        -- intros ([Hx|Hx] & Hno); [left; exact Hx|right; split; assumption].
Qed.

(* ---- the invariant of the resource model: live blocks = recorded blocks ++ blocks of other tenants ---- *)
Variable F : list N.
Definition ptrs (r : rstate) : list N := map snd (r_b r).
Definition RI (r : rstate) : Prop := AI (r_a r) (ptrs r ++ F).
Notation Pres := (ProofsClosure.Pres RI).
Notation PresT := (ProofsClosure.PresT RI).

Lemma RI_ralloc tg req : 0 < req -> Pres (ralloc tg req).
Proof.
  intros Hr r H. unfold ralloc.
  assert (K : RI (fst (match b_malloc req (r_a r) with
                       | (Some p, a) => (with_b ((tg, p) :: r_b r) (with_a a (with_faults (tl (r_faults r)) r)), true)
                       | (None, a) => (with_a a (with_faults (tl (r_faults r)) r), false)
                       end))).
  { pose proof (AI_malloc _ _ req H Hr) as M.
    destruct (b_malloc req (r_a r)) as [[p|] a1]; cbn [fst].
    - exact M.
    - subst a1. exact H. }
  destruct (r_faults r) as [|[|] fs]; [exact K| |exact K]. exact H.
Qed.

Lemma RI_free_where P : PresT (free_where P).
Proof.
  intros r H. unfold RI, free_where, ptrs. cbn [r_a r_b with_a with_b].
  rewrite fold_free_sel. destruct (split_nodup P (r_b r) F (ai_nodup _ _ H)) as (A & B & C).
  apply (AI_free_list (sel P (r_b r)) (r_a r) (map snd (r_b r) ++ F) _ H A).
  - intros x Hx. apply in_or_app. left. apply (sel_rest_in P). left. exact Hx.
  - exact B.
  - exact C.
Qed.

Lemma RI_retag f : PresT (retag f).
Proof.
  intros r H. unfold RI, retag, ptrs. cbn [r_a r_b with_b]. rewrite map_map. cbn [snd]. exact H.
Qed.

Lemma RI_tabs r pt tt g : RI r -> RI (with_tabs pt tt g r).
Proof. intros H. exact H. Qed.

Lemma RI_faults f : PresT (with_faults f).
Proof. intros r H. exact H. Qed.

Lemma RI_rstep o : PresT (rstep true o).
Proof. exact (J_rstep RI RI_ralloc RI_free_where RI_retag RI_tabs RI_faults o). Qed.

Lemma RI_rrun ops : PresT (rrun true ops).
Proof. exact (J_rrun RI RI_ralloc RI_free_where RI_retag RI_tabs RI_faults ops). Qed.

Lemma RI_rclear : PresT rclear.
Proof. exact (J_rclear RI RI_ralloc RI_free_where RI_tabs). Qed.

End Res.

(* ---- statements used by Props.v ---- *)

(* the limit never changes *)
Lemma limit_rrun ops r : r_limit (rrun true ops r) = r_limit r.
Proof.
  apply (J_rrun (fun r' => r_limit r' = r_limit r)); try reflexivity.
  - intros tg req _ r' H. unfold ralloc. destruct (r_faults r') as [|[|] fs]; cbn [fst]; try exact H;
      destruct (b_malloc req (r_a r')) as [[p|] a]; exact H.
  - intros P r' H. exact H.
  - intros f r' H. exact H.
  - intros r' pt tt g H. exact H.
  - intros f r' H. exact H.
Qed.

(* no orphan block, no dangling record: after ANY history (stores with any eviction choice, removes, rises, clears, injected
   faults; every allocation inside them fails whenever the allocator model or the fault list says so, other tenants F hold
   arbitrary blocks) the in-use pages of the segment are exactly the blocks recorded under the cache indexes plus F, each once *)
Lemma conservation_any_history ms F ops r0 : ms - self_size < 2 ^ 63 -> RI ms F r0 ->
  let r := rrun true ops r0 in
  breach ms (r_a r) /\ NoDup (ptrs r ++ F) /\
  (forall o b, used (r_a r) o b -> In (o + 16) (ptrs r ++ F)) /\
  (forall p, In p (ptrs r ++ F) -> 16 <= p /\ exists b, used (r_a r) (p - 16) b).
Proof.
  intros Hms H r. pose proof (RI_rrun ms Hms F ops r0 H) as K. fold r in K.
  destruct K as [A B C D]. repeat split; assumption || (intros; apply D; assumption).
Qed.

(* any limit: clear() - whether or not one of its two rehash calls throws - leaves nothing recorded but bucket vectors: the
   four indexes are empty; the in-use pages are those vectors and the blocks of the other tenants *)
Lemma clear_leaves_vectors ms F ops r0 : ms - self_size < 2 ^ 63 -> RI ms F r0 -> clean r0 ->
  let r := rclear (rrun true ops r0) in
  only is_tv r /\ count is_pn r = 0 /\ count is_tn r = 0 /\
  forall o, (exists b, used (r_a r) o b) <-> In (o + 16) (ptrs r ++ F).
Proof.
  intros Hms H Hc r.
  pose proof (RI_rclear ms Hms F _ (RI_rrun ms Hms F ops r0 H)) as K. fold r in K.
  pose proof (clear_only_vectors _ (clean_rrun true ops r0 Hc)) as V. fold r in V.
  assert (Z : forall P : tag -> bool, (forall t, is_tv t = true -> P t = false) -> count P r = 0).
  { intros P HP. unfold count. unfold only in V. induction (r_b r) as [|e l IH]; [reflexivity|].
    cbn [forallb filter] in *. apply andb_true_iff in V. destruct V as [V1 V2]. rewrite (HP _ V1). exact (IH V2). }
  split; [exact V|]. split; [apply Z; intros t; destruct t; cbn; congruence|]. split; [apply Z; intros t; destruct t; cbn; congruence|].
  intros o. split.
  - intros (b & Hb). exact (ai_live _ _ _ K o b Hb).
  - intros Hin. destruct (ai_own _ _ _ K _ Hin) as (_ & b & Hb). exists b. replace (o + 16 - 16) with o in Hb by lia. exact Hb.
Qed.

(* limit 0: clear() can not throw, records nothing afterwards, and the in-use pages are exactly those of the other tenants *)
Lemma clear_leaves_other_tenants_only ms F ops r0 : ms - self_size < 2 ^ 63 -> RI ms F r0 -> clean r0 -> r_limit r0 = 0 ->
  let r := rclear (rrun true ops r0) in
  r_b r = [] /\ forall o, (exists b, used (r_a r) o b) <-> In (o + 16) F.
Proof.
  intros Hms H Hc H0 r. pose proof (RI_rclear ms Hms F _ (RI_rrun ms Hms F ops r0 H)) as K. fold r in K.
  assert (E : r_b r = []).
  { apply limit0_clear_blocks; [rewrite limit_rrun; exact H0|apply clean_rrun; exact Hc]. }
  split; [exact E|]. unfold RI, ptrs in K. rewrite E in K. cbn [map app] in K. intros o. split.
  - intros (b & Hb). exact (ai_live _ _ _ K o b Hb).
  - intros Hin. destruct (ai_own _ _ _ K _ Hin) as (_ & b & Hb). exists b. replace (o + 16 - 16) with o in Hb by lia. exact Hb.
Qed.

Lemma RI_init ms lim : ms - self_size < 2 ^ 63 -> RI ms [] (r_init (b_init ms) lim).
Proof.
  intros Hms. unfold RI, ptrs, r_init. cbn [r_a r_b map app]. destruct (init_ok ms Hms) as (_ & _ & Hf).
  constructor; [apply br_init|constructor| |].
  - intros o b Ho. exact (Hf o b Ho).
  - intros p [].
Qed.

Lemma clean_init a lim : clean (r_init a lim).
Proof. reflexivity. Qed.

(* fill, exhaust, clear, refill - indefinitely (limit 0): a cache that has the segment for itself leaves, after clear(), the page
   headers and the free lists (as sets) of the freshly constructed allocator: every page is coalesced back *)
Lemma clear_restores_fresh_segment ms ops : ms - self_size < 2 ^ 63 ->
  let r := rclear (rrun true ops (r_init (b_init ms) 0)) in
  (forall o b u, b_hdr (r_a r) o = Some (b, u) <-> b_hdr (b_init ms) o = Some (b, u)) /\
  (forall o b, In o (b_fl (r_a r) b) <-> In o (b_fl (b_init ms) b)).
Proof.
  intros Hms r.
  destruct (clear_leaves_other_tenants_only ms [] ops _ Hms (RI_init ms 0 Hms) (clean_init _ _) eq_refl) as (E & Hu). fold r in E, Hu.
  pose proof (RI_rclear ms Hms [] _ (RI_rrun ms Hms [] ops _ (RI_init ms 0 Hms))) as K. fold r in K.
  assert (Hn : forall o b, ~ used (r_a r) o b).
  { intros o b Hb. apply (proj1 (Hu o)). exists b. exact Hb. }
  destruct (free_all_restores_full ms (r_a r) Hms (ai_reach _ _ _ K) Hn) as (A & B).
  split; [exact A|exact B].
Qed.
