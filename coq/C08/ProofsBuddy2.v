(* C08, buddy allocator: take / put / merge transitions *)
From CppcmsV Require Import Base.Tac C08.Defs C08.BuddyArith C08.ProofsBuddy.
Local Open Scope N_scope.

(* ---------- take the head of a free list ---------- *)
Definition take_state (s : bstate) (p bits : N) (rest : list N) : bstate :=
  set_hdr (set_fl s bits rest) p (Some (bits, true)).

Lemma take_hdr s p bits rest x : b_hdr (take_state s p bits rest) x = if x =? p then Some (bits, true) else b_hdr s x.
Proof. reflexivity. Qed.
Lemma take_fl s p bits rest b : b_fl (take_state s p bits rest) b = if b =? bits then rest else b_fl s b.
Proof. reflexivity. Qed.

Lemma take_geo s p bits rest : BGeo s -> b_hdr s p = Some (bits, false) -> BGeo (take_state s p bits rest).
Proof.
  intros G Hp. apply (bgeo_same_geom s); [reflexivity|reflexivity| |exact G].
  intros x. unfold geom. rewrite take_hdr. destruct (N.eqb_spec x p) as [->|]; [rewrite Hp|]; reflexivity.
Qed.

Lemma take_free s p bits rest : BFree s -> b_fl s bits = p :: rest -> BFree (take_state s p bits rest).
Proof.
  intros Fr Hfl.
  assert (Hp : b_hdr s p = Some (bits, false)) by (apply (bf_free s Fr); rewrite Hfl; left; reflexivity).
  pose proof (bf_nodup s Fr bits) as Hnd. rewrite Hfl in Hnd. inversion Hnd as [|? ? Hni Hnd']; subst.
  constructor.
  - intros o b. rewrite take_fl, take_hdr. destruct (N.eqb_spec b bits) as [->|Hnb].
    + destruct (N.eqb_spec o p) as [->|Hn]; [split; [contradiction|discriminate]|].
      rewrite <- (bf_free s Fr), Hfl. cbn [In]. split; [tauto|intros [H|H]; [congruence|exact H]].
    + rewrite (bf_free s Fr). destruct (N.eqb_spec o p) as [->|Hn]; [rewrite Hp; split; [congruence|discriminate]|tauto].
  - intros b. rewrite take_fl. destruct (b =? bits); [exact Hnd'|apply (bf_nodup s Fr)].
  - intros o b o'. rewrite (get_buddy_msize s (take_state s p bits rest)) by reflexivity. rewrite !take_hdr.
    destruct (N.eqb_spec o p); [discriminate|]. intros Ho Hb.
    destruct (N.eqb_spec o' p); [discriminate|]. apply (bf_nobud s Fr o b o' Ho Hb).
Qed.

(* ---------- put a page on its free list ---------- *)
Definition put_state (s : bstate) (p bits : N) : bstate :=
  set_hdr (set_fl s bits (p :: b_fl s bits)) p (Some (bits, false)).

Lemma put_hdr s p bits x : b_hdr (put_state s p bits) x = if x =? p then Some (bits, false) else b_hdr s x.
Proof. reflexivity. Qed.
Lemma put_fl s p bits b : b_fl (put_state s p bits) b = if b =? bits then p :: b_fl s bits else b_fl s b.
Proof. reflexivity. Qed.

Lemma put_geo s p bits : BGeo s -> b_hdr s p = Some (bits, true) -> BGeo (put_state s p bits).
Proof.
  intros G Hp. apply (bgeo_same_geom s); [reflexivity|reflexivity| |exact G].
  intros x. unfold geom. rewrite put_hdr. destruct (N.eqb_spec x p) as [->|]; [rewrite Hp|]; reflexivity.
Qed.

Lemma put_free s p bits : BGeo s -> BFree s -> b_hdr s p = Some (bits, true) ->
  (forall o', get_buddy s p bits = Some o' -> b_hdr s o' <> Some (bits, false)) ->
  BFree (put_state s p bits).
Proof.
  intros G Fr Hp Hcond.
  destruct (bg_geo s G p bits (hdr_geom _ _ _ _ Hp)) as (Hal & _ & _).
  constructor.
  - intros o b. rewrite put_fl, put_hdr. destruct (N.eqb_spec b bits) as [->|Hnb].
    + destruct (N.eqb_spec o p) as [->|Hn]; [split; [reflexivity|left; reflexivity]|].
      cbn [In]. rewrite (bf_free s Fr). split; [intros [H|H]; [congruence|exact H]|tauto].
    + rewrite (bf_free s Fr). destruct (N.eqb_spec o p) as [->|Hn]; [rewrite Hp; split; [discriminate|congruence]|tauto].
  - intros b. rewrite put_fl. destruct (N.eqb_spec b bits) as [E|]; [subst b|apply (bf_nodup s Fr)].
    constructor; [|apply (bf_nodup s Fr)]. rewrite (bf_free s Fr), Hp. discriminate.
  - intros o b o'. rewrite (get_buddy_msize s (put_state s p bits)) by reflexivity. rewrite !put_hdr.
    destruct (N.eqb_spec o p) as [->|Hn].
    + intros [= <-] Hb. destruct (N.eqb_spec o' p) as [->|Hn'].
      * apply get_buddy_some in Hb. destruct Hb as [Hb _]. exfalso. symmetry in Hb. revert Hb. apply buddy_neq. exact Hal.
      * apply Hcond. exact Hb.
    + intros Ho Hb. destruct (N.eqb_spec o' p) as [->|Hn']; [|apply (bf_nobud s Fr o b o' Ho Hb)].
      intros [= <-]. apply get_buddy_some in Hb. destruct Hb as [Hb _].
      destruct (bg_geo s G o bits (hdr_geom _ _ _ _ Ho)) as (_ & Hend & _).
      assert (Ho' : o = N.lxor (2 ^ bits) p) by (rewrite Hb; symmetry; apply buddy_invol).
      apply (Hcond o); [|exact Ho]. rewrite Ho'. apply get_buddy_intro. rewrite <- Ho'. exact Hend.
Qed.

(* ---------- merge two buddies into one in-use page of the next order ---------- *)
Lemma fl_remove_In x l : NoDup l -> forall o, In o (fl_remove x l) <-> In o l /\ o <> x.
Proof.
  induction l as [|y l IH]; intros Hnd o; cbn [fl_remove In]; [tauto|].
  inversion Hnd as [|? ? Hni Hnd']; subst.
  destruct (N.eqb_spec y x) as [->|Hn].
  - split; [intros H; split; [tauto|intros ->; contradiction]|intros [[H|H] Hne]; [congruence|exact H]].
  - cbn [In]. rewrite (IH Hnd'). split; [intros [->|[H1 H2]]; tauto|intros [[H|H] Hne]; tauto].
Qed.
Lemma fl_remove_NoDup x l : NoDup l -> NoDup (fl_remove x l).
Proof.
  induction l as [|y l IH]; intros Hnd; cbn [fl_remove]; [constructor|].
  inversion Hnd as [|? ? Hni Hnd']; subst. destruct (y =? x); [exact Hnd'|].
  constructor; [|apply IH; exact Hnd']. rewrite (fl_remove_In x l Hnd'). tauto.
Qed.

Definition merge_state (s : bstate) (lo hi bd bits : N) : bstate :=
  set_hdr (set_hdr (set_fl s bits (fl_remove bd (b_fl s bits))) hi None) lo (Some (bits + 1, true)).

Lemma merge_hdr s lo hi bd bits x : b_hdr (merge_state s lo hi bd bits) x =
  if x =? lo then Some (bits + 1, true) else if x =? hi then None else b_hdr s x.
Proof. reflexivity. Qed.
Lemma merge_fl s lo hi bd bits b : b_fl (merge_state s lo hi bd bits) b = if b =? bits then fl_remove bd (b_fl s bits) else b_fl s b.
Proof. reflexivity. Qed.

Lemma merge_geo s lo hi bd bits : BGeo s -> geom s lo = Some bits -> geom s hi = Some bits ->
  hi = lo + 2 ^ bits -> lo mod 2 ^ (bits + 1) = 0 -> BGeo (merge_state s lo hi bd bits).
Proof.
  intros G Hlo Hhi Ehi Hal. pose proof (pow2_pos bits) as Hpos. pose proof (pow2_succ bits) as Hsucc.
  destruct (bg_geo s G lo bits Hlo) as (_ & _ & H5). destruct (bg_geo s G hi bits Hhi) as (_ & Hend & _).
  assert (Hg : forall x, geom (merge_state s lo hi bd bits) x =
                         if x =? lo then Some (bits + 1) else if x =? hi then None else geom s x).
  { intros x. unfold geom. rewrite merge_hdr. destruct (x =? lo); [reflexivity|]. destruct (x =? hi); reflexivity. }
  assert (Hother : forall o b, o <> lo -> o <> hi -> geom s o = Some b -> o + 2 ^ b <= lo \/ lo + 2 ^ (bits + 1) <= o).
  { intros o b Hn1 Hn2 Ho. pose proof (pow2_pos b).
    destruct (bg_disj s G o b lo bits Ho Hlo Hn1); destruct (bg_disj s G o b hi bits Ho Hhi Hn2); lia. }
  constructor.
  - apply (bg_small s G).
  - intros o b. rewrite Hg. destruct (N.eqb_spec o lo) as [->|Hn1]; [intros [= <-]; cbn; repeat split; [exact Hal|lia|lia]|].
    destruct (N.eqb_spec o hi); [discriminate|]. cbn. apply (bg_geo s G).
  - intros o1 b1 o2 b2. rewrite !Hg.
    destruct (N.eqb_spec o1 lo) as [->|Hn1]; [intros [= <-]|destruct (N.eqb_spec o1 hi) as [->|Hn1']; [discriminate|intros H1]];
    (destruct (N.eqb_spec o2 lo) as [->|Hn2]; [intros [= <-]|destruct (N.eqb_spec o2 hi) as [->|Hn2']; [discriminate|intros H2]]);
    intros Hne; try lia.
    + pose proof (Hother o2 b2 Hn2 Hn2' H2). lia.
    + pose proof (Hother o1 b1 Hn1 Hn1' H1). lia.
    + apply (bg_disj s G o1 b1 o2 b2); assumption.
  - intros x Hx. cbn in Hx. destruct (bg_cover s G x Hx) as (o & b & Ho & Hr).
    destruct (N.eq_dec o lo) as [->|Hn1].
    + rewrite Hlo in Ho. inversion Ho; subst b. exists lo, (bits + 1). rewrite Hg, N.eqb_refl. split; [reflexivity|lia].
    + destruct (N.eq_dec o hi) as [->|Hn2].
      * rewrite Hhi in Ho. inversion Ho; subst b. exists lo, (bits + 1). rewrite Hg, N.eqb_refl. split; [reflexivity|lia].
      * exists o, b. rewrite Hg. destruct (N.eqb_spec o lo); [contradiction|]. destruct (N.eqb_spec o hi); [contradiction|]. tauto.
  - intros o b. rewrite Hg. destruct (N.eqb_spec o lo) as [->|Hn1].
    + intros [= <-]. destruct (bg_max s G lo bits Hlo) as (mb & Hmb & Hle). exists mb. split; [exact Hmb|].
      pose proof (bg_maxsz s G mb Hmb) as Hsz. cbn in Hsz.
      assert (Hlt : 2 ^ (bits + 1) < 2 ^ (mb + 1)) by lia.
      apply N.pow_lt_mono_r_iff in Hlt; lia.
    + destruct (o =? hi); [discriminate|]. apply (bg_max s G).
  - apply (bg_maxsz s G).
  - apply (bg_maxle s G).
Qed.

Lemma merge_free s lo hi bd p bits : BFree s -> b_hdr s p = Some (bits, true) -> b_hdr s bd = Some (bits, false) ->
  (lo = p /\ hi = bd \/ lo = bd /\ hi = p) -> BFree (merge_state s lo hi bd bits).
Proof.
  intros Fr Hp Hbd Hcase.
  assert (Hlohi : forall o, o = lo \/ o = hi -> o = p \/ o = bd) by (intros o; destruct Hcase as [[-> ->]|[-> ->]]; tauto).
  constructor.
  - intros o b. rewrite merge_fl, merge_hdr. destruct (N.eqb_spec b bits) as [->|Hnb].
    + rewrite (fl_remove_In bd _ (bf_nodup s Fr bits)), (bf_free s Fr).
      destruct (N.eqb_spec o lo) as [->|Hn1].
      * split; [|discriminate]. intros [H Hne]. destruct (Hlohi lo (or_introl eq_refl)) as [E|E]; [rewrite E, Hp in H; discriminate|contradiction].
      * destruct (N.eqb_spec o hi) as [->|Hn2].
        -- split; [|discriminate]. intros [H Hne]. destruct (Hlohi hi (or_intror eq_refl)) as [E|E]; [rewrite E, Hp in H; discriminate|contradiction].
        -- split; [tauto|]. intros H. split; [exact H|]. intros ->. destruct Hcase as [[_ E]|[E _]]; congruence.
    + rewrite (bf_free s Fr).
      destruct (N.eqb_spec o lo) as [->|Hn1].
      * split; [|discriminate]. intros H. destruct (Hlohi lo (or_introl eq_refl)) as [E|E]; rewrite E in H; congruence.
      * destruct (N.eqb_spec o hi) as [->|Hn2]; [|tauto].
        split; [|discriminate]. intros H. destruct (Hlohi hi (or_intror eq_refl)) as [E|E]; rewrite E in H; congruence.
  - intros b. rewrite merge_fl. destruct (b =? bits); [apply fl_remove_NoDup|]; apply (bf_nodup s Fr).
  - intros o b o'. rewrite (get_buddy_msize s (merge_state s lo hi bd bits)) by reflexivity. rewrite !merge_hdr.
    destruct (N.eqb_spec o lo); [discriminate|]. destruct (N.eqb_spec o hi); [discriminate|]. intros Ho Hb.
    destruct (N.eqb_spec o' lo); [discriminate|]. destruct (N.eqb_spec o' hi); [discriminate|].
    apply (bf_nobud s Fr o b o' Ho Hb).
Qed.
