(* C08, buddy allocator: the invariant (Tiling + free-list consistency + NoFreeBuddies) and the four
   elementary transitions of the code: take a free page, split, merge with the buddy, put on a free list. *)
From CppcmsV Require Import Base.Tac C08.Defs C08.BuddyArith.
Local Open Scope N_scope.

Definition geom (s : bstate) (o : N) : option N := option_map fst (b_hdr s o).

Lemma geom_some s o b : geom s o = Some b <-> exists u, b_hdr s o = Some (b, u).
Proof.
  unfold geom. destruct (b_hdr s o) as [[b' u]|]; cbn; split.
  - intros [= ->]. eauto.
  - intros [u' [= -> _]]. reflexivity.
  - discriminate.
  - intros [u' H]. discriminate.
Qed.
Lemma hdr_geom s o b u : b_hdr s o = Some (b, u) -> geom s o = Some b.
Proof. intros H. apply geom_some. eauto. Qed.

(* Tiling: the page headers describe aligned power-of-two pages that are pairwise disjoint and cover the region *)
Record BGeo (s : bstate) : Prop := mkBGeo {
  bg_small : b_msize s < 2 ^ 63;
  bg_geo : forall o b, geom s o = Some b -> o mod 2 ^ b = 0 /\ o + 2 ^ b <= b_msize s /\ 5 <= b;
  bg_disj : forall o1 b1 o2 b2, geom s o1 = Some b1 -> geom s o2 = Some b2 -> o1 <> o2 ->
            o1 + 2 ^ b1 <= o2 \/ o2 + 2 ^ b2 <= o1;
  bg_cover : forall x, x + 32 <= b_msize s -> exists o b, geom s o = Some b /\ o <= x /\ x < o + 2 ^ b;
  bg_max : forall o b, geom s o = Some b -> exists mb, b_maxbits s = Some mb /\ b <= mb;
  bg_maxsz : forall mb, b_maxbits s = Some mb -> b_msize s < 2 ^ (mb + 1);
  bg_maxle : forall mb, b_maxbits s = Some mb -> mb <= 62
}.

(* the free lists are exactly the pages whose header is not marked in use; two free buddies never coexist *)
Record BFree (s : bstate) : Prop := mkBFree {
  bf_free : forall o b, In o (b_fl s b) <-> b_hdr s o = Some (b, false);
  bf_nodup : forall b, NoDup (b_fl s b);
  bf_nobud : forall o b o', b_hdr s o = Some (b, false) -> get_buddy s o b = Some o' -> b_hdr s o' <> Some (b, false)
}.

Record BInv (s : bstate) : Prop := mkBInv {
  bi_err : b_err s = false;
  bi_geo : BGeo s;
  bi_free : BFree s
}.

Lemma upd_eq {A} (f : N -> A) k v : upd f k v k = v.
Proof. unfold upd. rewrite N.eqb_refl. reflexivity. Qed.
Lemma upd_neq {A} (f : N -> A) k v x : x <> k -> upd f k v x = f x.
Proof. intros H. unfold upd. destruct (N.eqb_spec x k); [contradiction|reflexivity]. Qed.

Lemma get_buddy_msize s s' p b : b_msize s' = b_msize s -> get_buddy s' p b = get_buddy s p b.
Proof. intros H. unfold get_buddy. rewrite H. reflexivity. Qed.

Lemma get_buddy_some s p b o : get_buddy s p b = Some o -> o = N.lxor (2 ^ b) p /\ o + 2 ^ b <= b_msize s.
Proof. unfold get_buddy. destruct (N.ltb_spec (b_msize s) (N.lxor (2 ^ b) p + 2 ^ b)); [discriminate|]. intros [= <-]. split; [reflexivity|lia]. Qed.
Lemma get_buddy_intro s p b : N.lxor (2 ^ b) p + 2 ^ b <= b_msize s -> get_buddy s p b = Some (N.lxor (2 ^ b) p).
Proof. intros H. unfold get_buddy. destruct (N.ltb_spec (b_msize s) (N.lxor (2 ^ b) p + 2 ^ b)); [lia|reflexivity]. Qed.

(* ---------- geometry is insensitive to the in-use flags ---------- *)
Lemma bgeo_same_geom s s' : b_msize s' = b_msize s -> b_maxbits s' = b_maxbits s ->
  (forall x, geom s' x = geom s x) -> BGeo s -> BGeo s'.
Proof.
  intros Hm Hx Hg G. constructor.
  - rewrite Hm. apply (bg_small s G).
  - intros o b H. rewrite Hg in H. rewrite Hm. apply (bg_geo s G); exact H.
  - intros o1 b1 o2 b2 H1 H2. rewrite Hg in H1, H2. apply (bg_disj s G); assumption.
  - intros x Hx'. rewrite Hm in Hx'. destruct (bg_cover s G x Hx') as (o & b & H & Hr). exists o, b. rewrite Hg. tauto.
  - intros o b H. rewrite Hg in H. rewrite Hx. apply (bg_max s G o b H).
  - intros mb H. rewrite Hx in H. rewrite Hm. apply (bg_maxsz s G mb H).
  - intros mb H. rewrite Hx in H. apply (bg_maxle s G mb H).
Qed.

Lemma geom_interior s p b : BGeo s -> geom s p = Some b -> forall x, p < x -> x < p + 2 ^ b -> geom s x = None.
Proof.
  intros G Hp x H1 H2. destruct (geom s x) as [bx|] eqn:E; [|reflexivity].
  pose proof (pow2_pos bx) as Hbx. destruct (bg_disj s G p b x bx Hp E) as [H|H]; lia.
Qed.

(* ---------- split ---------- *)
Definition split_state (s1 : bstate) (p bits : N) : bstate :=
  set_hdr (set_fl (set_hdr s1 (p + 2 ^ bits) (Some (bits, false))) bits [p + 2 ^ bits]) p (Some (bits, true)).

Lemma split_hdr s1 p bits x : b_hdr (split_state s1 p bits) x =
  if x =? p then Some (bits, true) else if x =? p + 2 ^ bits then Some (bits, false) else b_hdr s1 x.
Proof. unfold split_state, set_hdr, set_fl, upd; cbn. reflexivity. Qed.
Lemma split_fl s1 p bits b : b_fl (split_state s1 p bits) b = if b =? bits then [p + 2 ^ bits] else b_fl s1 b.
Proof. unfold split_state, set_hdr, set_fl, upd; cbn. reflexivity. Qed.

Lemma split_geo s1 p bits : BGeo s1 -> geom s1 p = Some (bits + 1) -> 5 <= bits -> BGeo (split_state s1 p bits).
Proof.
  intros G Hp H5. pose proof (pow2_pos bits) as Hpos. pose proof (pow2_succ bits) as Hsucc.
  destruct (bg_geo s1 G p _ Hp) as (Hal & Hend & _).
  assert (Hun : geom s1 (p + 2 ^ bits) = None) by (apply (geom_interior s1 p (bits + 1) G Hp); lia).
  assert (Hg : forall x, geom (split_state s1 p bits) x =
                         if x =? p then Some bits else if x =? p + 2 ^ bits then Some bits else geom s1 x).
  { intros x. unfold geom. rewrite split_hdr. destruct (x =? p); [reflexivity|]. destruct (x =? p + 2 ^ bits); reflexivity. }
  assert (Hal1 : p mod 2 ^ bits = 0) by (apply (aligned_weaken p bits (bits + 1)); [lia|exact Hal]).
  assert (Hal2 : (p + 2 ^ bits) mod 2 ^ bits = 0).
  { apply aligned_mult in Hal1. destruct Hal1 as [q Hq]. apply aligned_mult. exists (q + 1). lia. }
  constructor.
  - apply (bg_small s1 G).
  - intros o b. rewrite Hg. destruct (N.eqb_spec o p) as [->|Hn1]; [intros [= <-]; cbn; repeat split; try assumption; lia|].
    destruct (N.eqb_spec o (p + 2 ^ bits)) as [->|Hn2]; [intros [= <-]; cbn; repeat split; try assumption; lia|].
    cbn. apply (bg_geo s1 G).
  - assert (Hother : forall o b, o <> p -> o <> p + 2 ^ bits -> geom s1 o = Some b ->
                     o + 2 ^ b <= p \/ p + 2 ^ (bits + 1) <= o).
    { intros o b Hn1 Hn2 Ho. destruct (bg_disj s1 G o b p (bits + 1) Ho Hp Hn1); lia. }
    intros o1 b1 o2 b2. rewrite !Hg.
    destruct (N.eqb_spec o1 p) as [->|Hn1]; [intros [= <-]|destruct (N.eqb_spec o1 (p + 2 ^ bits)) as [->|Hn1']; [intros [= <-]|intros H1]];
    (destruct (N.eqb_spec o2 p) as [->|Hn2]; [intros [= <-]|destruct (N.eqb_spec o2 (p + 2 ^ bits)) as [->|Hn2']; [intros [= <-]|intros H2]]);
    intros Hne; try lia.
    + pose proof (Hother o2 b2 Hn2 Hn2' H2). lia.
    + pose proof (Hother o2 b2 Hn2 Hn2' H2). lia.
    + pose proof (Hother o1 b1 Hn1 Hn1' H1). lia.
    + pose proof (Hother o1 b1 Hn1 Hn1' H1). lia.
    + apply (bg_disj s1 G o1 b1 o2 b2); assumption.
  - intros x Hx. cbn in Hx. destruct (bg_cover s1 G x Hx) as (o & b & Ho & Hr).
    destruct (N.eq_dec o p) as [->|Hn].
    + rewrite Hp in Ho. inversion Ho; subst b.
      destruct (N.lt_ge_cases x (p + 2 ^ bits)).
      * exists p, bits. rewrite Hg, N.eqb_refl. split; [reflexivity|lia].
      * exists (p + 2 ^ bits), bits. rewrite Hg. destruct (N.eqb_spec (p + 2 ^ bits) p); [lia|]. rewrite N.eqb_refl. split; [reflexivity|lia].
    + exists o, b. rewrite Hg. destruct (N.eqb_spec o p); [contradiction|].
      destruct (N.eqb_spec o (p + 2 ^ bits)) as [->|]; [rewrite Hun in Ho; discriminate|]. tauto.
  - intros o b. rewrite Hg. destruct (bg_max s1 G p _ Hp) as (mb & Hmb & Hle).
    destruct (o =? p); [intros [= <-]; exists mb; split; [exact Hmb|lia]|].
    destruct (o =? p + 2 ^ bits); [intros [= <-]; exists mb; split; [exact Hmb|lia]|]. apply (bg_max s1 G).
  - apply (bg_maxsz s1 G).
  - apply (bg_maxle s1 G).
Qed.

Lemma split_free s1 p bits : BGeo s1 -> BFree s1 -> b_hdr s1 p = Some (bits + 1, true) -> b_fl s1 bits = [] ->
  BFree (split_state s1 p bits).
Proof.
  intros G Fr Hp Hfl. pose proof (pow2_pos bits) as Hpos. pose proof (pow2_succ bits) as Hsucc.
  pose proof (hdr_geom _ _ _ _ Hp) as Hgp.
  destruct (bg_geo s1 G p _ Hgp) as (Hal & Hend & _).
  assert (Hun : b_hdr s1 (p + 2 ^ bits) = None).
  { assert (H : geom s1 (p + 2 ^ bits) = None) by (apply (geom_interior s1 p (bits + 1) G Hgp); lia).
    unfold geom in H. destruct (b_hdr s1 (p + 2 ^ bits)); [discriminate|reflexivity]. }
  assert (Hbud : N.lxor (2 ^ bits) (p + 2 ^ bits) = p).
  { assert (Hal1 : p mod 2 ^ bits = 0) by (apply (aligned_weaken p bits (bits + 1)); [lia|exact Hal]).
    destruct (buddy_spec p bits Hal1) as [[E _]|[E A]].
    - rewrite <- E. apply buddy_invol.
    - exfalso. apply aligned_mult in A. apply aligned_mult in Hal. destruct A as [q1 A]. destruct Hal as [q2 Hal].
      rewrite Hsucc in A, Hal. set (bb := N.lxor (2 ^ bits) p) in *. set (U := 2 ^ bits) in *.
      assert (H2 : (2 * q2) * U = (2 * q1 + 1) * U) by lia.
      apply N.mul_cancel_r in H2; lia. }
  constructor.
  - intros o b. rewrite split_fl, split_hdr.
    destruct (N.eqb_spec b bits) as [->|Hnb].
    + destruct (N.eqb_spec o p) as [->|Hn1].
      * split; [intros [H|[]]; lia|discriminate].
      * destruct (N.eqb_spec o (p + 2 ^ bits)) as [->|Hn2]; [split; [reflexivity|left; reflexivity]|].
        rewrite <- (bf_free s1 Fr), Hfl. cbn [In]. split; [intros [H|[]]; congruence|tauto].
    + rewrite (bf_free s1 Fr). destruct (N.eqb_spec o p) as [->|Hn1]; [rewrite Hp; split; [congruence|discriminate]|].
      destruct (N.eqb_spec o (p + 2 ^ bits)) as [->|Hn2]; [rewrite Hun; split; [discriminate|congruence]|]. tauto.
  - intros b. rewrite split_fl. destruct (b =? bits); [constructor; [intros []|constructor]|apply (bf_nodup s1 Fr)].
  - intros o b o'. rewrite (get_buddy_msize s1 (split_state s1 p bits)) by reflexivity. rewrite !split_hdr.
    destruct (N.eqb_spec o p) as [->|Hn1]; [discriminate|].
    destruct (N.eqb_spec o (p + 2 ^ bits)) as [->|Hn2].
    + intros [= <-] Hb. apply get_buddy_some in Hb. destruct Hb as [-> _]. rewrite Hbud, N.eqb_refl. discriminate.
    + intros Ho Hb. destruct (N.eqb_spec o' p) as [->|Hn3]; [discriminate|].
      destruct (N.eqb_spec o' (p + 2 ^ bits)) as [->|Hn4]; [|apply (bf_nobud s1 Fr o b o' Ho Hb)].
      intros [= ->]. apply get_buddy_some in Hb. destruct Hb as [Hb _].
      apply Hn1. rewrite <- Hbud, Hb. symmetry. apply buddy_invol.
Qed.
