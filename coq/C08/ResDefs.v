(* C08: resource model - the process_shared cache OVER the buddy allocator (executable definitions, no proofs).

   C07.Defs models what the cache answers; C08.Defs part 2 models the buddy allocator alone.  This file joins them
   for the clause "memory of removed entries is released; the cache can be filled, emptied and refilled indefinitely":
   every allocator block the containers of mem_cache<process_settings> obtain is recorded with a tag that says which
   index owns it, every allocation is a b_malloc on the allocator model and MAY FAIL (when the allocator model says
   so: quantifying over the allocator state reached so far and over blocks of other tenants makes every allocation
   point of r_store a possible failure point), and the exception paths of the source are spelled out:

     hash_map.h  basic_map::allocate(v):  p = al.allocate(1); try { new (p) container(v); }
                                          catch(...) { al.deallocate(p,1); throw; }
                 - the key copy inside container(v) allocates when the name is longer than the 15-byte small-string
                   buffer; `prot` says whether the catch block gives the node back (read off the source by
                   checks/C08.py, see Gen_C08_hashmap / Link.v); with prot = false the node block is forgotten.
     cache_storage.cpp  r_store: value copy fails -> remove(key); bad_alloc inside the second try block -> the
                   temporaries (int_key, tr) are destroyed by unwinding, nl_clear() destroys every container, ar is
                   destroyed at return.

   Sizes are those of LP64 / libstdc++ (node of primary 136 bytes, node of triggers 80, list nodes 24 and 32, rb-tree
   node 48, bucket 16, string block length+1 when length > 15); the theorems do not depend on them (only on > 0).
   nl_clear() releases every container and then re-creates the two bucket vectors with `limit` buckets (none for limit 0), in the
   order of the source (a6386b3).  fetch moves the node of the recency list with one splice (117bb4c): it obtains and releases
   nothing (RFetch).                                                                                  *)
From Coq Require Import NArith List Bool.
From CppcmsV Require Import C07.Defs C08.Defs.
Import ListNotations.
Local Open Scope N_scope.

(* statements of basic_map::allocate / destroy as the lexical extractor of checks/C08.py classifies them *)
Inductive rstmt :=
| SDeclAlloc            (* container_alloc al; *)
| SAllocate             (* iterator p = al.allocate(1); *)
| STryConstructCopy     (* try { new (p) container(v); } *)
| STryConstructDefault  (* try { new (p) container(); } *)
| SCatchDeallocRethrow  (* catch(...) { al.deallocate(p,1); throw; }   (also al.deallocate(p)) *)
| SReturnP              (* return p; *)
| SDestruct             (* p->~container(); *)
| SDeallocate           (* al.deallocate(p,1); *)
| SCallDestroy          (* destroy(p); / destroy(del);  inside erase / clear *)
| SOther.               (* anything else *)

Definition rstmt_eqb (a b : rstmt) : bool :=
  match a, b with
  | SDeclAlloc, SDeclAlloc | SAllocate, SAllocate | STryConstructCopy, STryConstructCopy
  | STryConstructDefault, STryConstructDefault | SCatchDeallocRethrow, SCatchDeallocRethrow
  | SReturnP, SReturnP | SDestruct, SDestruct | SDeallocate, SDeallocate | SCallDestroy, SCallDestroy
  | SOther, SOther => true
  | _, _ => false
  end.
Fixpoint shape_eqb (a b : list rstmt) : bool :=
  match a, b with
  | [], [] => true
  | x :: a', y :: b' => rstmt_eqb x y && shape_eqb a' b'
  | _, _ => false
  end.
(* the node is given back when constructing the element throws *)
Definition allocate_protected (sh : list rstmt) : bool :=
  shape_eqb sh [SDeclAlloc; SAllocate; STryConstructCopy; SCatchDeallocRethrow; SReturnP].
(* destroy(p) runs the destructor and gives the node back; erase and both branches of clear call it once per node *)
Definition destroy_releases (sh : list rstmt) : bool := shape_eqb sh [SDeclAlloc; SDestruct; SDeallocate].
Definition count_destroy (sh : list rstmt) : nat := length (filter (rstmt_eqb SCallDestroy) sh).

Inductive tag :=
| TPN (k : key)                 (* node of the hash map `primary` for key k *)
| TPX (k : key)                 (* blocks the entry owns: key string, data, lru node, timeout node, nodes of cont.triggers *)
| TTN (t : key)                 (* node of the hash map `triggers` *)
| TTX (t : key)                 (* heap block of the trigger name inside that node *)
| TL (t k : key)                (* node of the pointer list of trigger t that points at entry k *)
| TV (which : bool) (g : N)     (* bucket vector of primary (true) / triggers (false), generation g *)
| TKey                          (* int_key of r_store *)
| TTmp                          (* tr.first of add_trigger *)
| TConv                         (* the key copy inside the temporary pair that is passed to insert(): store builds
                                   pair<string_type,container>(int_key,container()) (copies int_key, then moved into the
                                   pair<const string_type,container> the parameter binds to); add_trigger passes the lvalue tr,
                                   which is converted - copied - to pair<const string_type,pointer_list_type>; destroyed at
                                   the end of the full expression *)
| TAr                           (* the value copy ar, until it is swapped into the entry *)
| TPend.                        (* node obtained by basic_map::allocate, element not constructed yet *)

Record rstate := mkR {
  r_a : bstate;                 (* the shared segment *)
  r_b : list (tag * N);         (* blocks the cache knows about: owner tag, user pointer *)
  r_pt : N;                     (* primary.hash_.size() *)
  r_tt : N;                     (* triggers.hash_.size() *)
  r_gen : N;
  r_limit : N;                  (* the limit the cache was created with: nl_clear() re-creates both bucket vectors with `limit` buckets *)
  r_faults : list bool          (* injected failures: one answer per allocation still to come (true = this allocation throws
                                   std::bad_alloc although the allocator might have room); [] = no more injected failures *)
}.

Definition with_a (a : bstate) (r : rstate) := mkR a (r_b r) (r_pt r) (r_tt r) (r_gen r) (r_limit r) (r_faults r).
Definition with_b (b : list (tag * N)) (r : rstate) := mkR (r_a r) b (r_pt r) (r_tt r) (r_gen r) (r_limit r) (r_faults r).
Definition with_tabs (pt tt g : N) (r : rstate) := mkR (r_a r) (r_b r) pt tt g (r_limit r) (r_faults r).
Definition with_faults (f : list bool) (r : rstate) := mkR (r_a r) (r_b r) (r_pt r) (r_tt r) (r_gen r) (r_limit r) f.

(* ---- primitives ---- *)
Definition ralloc (tg : tag) (req : N) (r : rstate) : rstate * bool :=
  match r_faults r with
  | true :: fs => (with_faults fs r, false)                            (* injected: throw std::bad_alloc *)
  | _ =>
      let r' := with_faults (tl (r_faults r)) r in
      match b_malloc req (r_a r) with
      | (Some p, a) => (with_b ((tg, p) :: r_b r) (with_a a r'), true)
      | (None, a) => (with_a a r', false)                              (* shmem_allocator: throw std::bad_alloc *)
      end
  end.

Definition free_where (P : tag -> bool) (r : rstate) : rstate :=
  with_b (filter (fun e => negb (P (fst e))) (r_b r))
    (with_a (fold_left (fun a e => if P (fst e) then b_free (snd e) a else a) (r_b r) (r_a r)) r).

(* the cache loses track of the blocks without giving them back (only reachable with prot = false) *)
Definition forget (P : tag -> bool) (r : rstate) : rstate :=
  with_b (filter (fun e => negb (P (fst e))) (r_b r)) r.

Definition retag (f : tag -> tag) (r : rstate) : rstate :=
  with_b (map (fun e => (f (fst e), snd e)) (r_b r)) r.

Definition bind (x : rstate * bool) (f : rstate -> rstate * bool) : rstate * bool :=
  if snd x then f (fst x) else x.

(* LP64 / libstdc++ sizes, compared with the real ones on every run (`exh consts`) *)
Definition sz_sso : N := 15.        (* longest string kept inside the string object *)
Definition sz_pnode : N := 136.     (* basic_map<string_type,container>::container *)
Definition sz_tnode : N := 80.      (* basic_map<string_type,pointer_list_type>::container *)
Definition sz_lnode : N := 24.      (* node of std::list<pointer> *)
Definition sz_tlnode : N := 32.     (* node of std::list<trigger_ptr_type> *)
Definition sz_rbnode : N := 48.     (* node of the timeout multimap *)
Definition sz_bucket : N := 16.     (* range_type *)
Definition sz_object : N := 232.    (* sizeof(mem_cache<process_settings>): allocated from the segment by operator new *)

Definition strsz (s : list N) : option N :=
  if sz_sso <? N.of_nat (length s) then Some (N.of_nat (length s) + 1) else None.
Definition opt_alloc (tg : tag) (o : option N) (r : rstate) : rstate * bool :=
  match o with Some n => ralloc tg n r | None => (r, true) end.

(* process_settings::not_enough_memory(): process_memory->max_available() < process_memory->size() / 10 *)
Definition not_enough_memory (seg : N) (a : bstate) : bool := max_free_chunk a <? seg / 10.

(* ---- tag predicates ---- *)
Definition is_pend (t : tag) := match t with TPend => true | _ => false end.
Definition is_tmp (t : tag) := match t with TTmp => true | _ => false end.
Definition is_key (t : tag) := match t with TKey => true | _ => false end.
Definition is_conv (t : tag) := match t with TConv => true | _ => false end.
Definition is_tmp_or_key (t : tag) := match t with TTmp | TConv | TKey | TPend => true | _ => false end.
Definition is_ar (t : tag) := match t with TAr => true | _ => false end.
Definition not_ar (t : tag) := negb (is_ar t).
Definition is_pn (t : tag) := match t with TPN _ => true | _ => false end.
Definition is_tn (t : tag) := match t with TTN _ => true | _ => false end.
Definition pend_to (n : tag) (t : tag) := match t with TPend => n | _ => t end.
Definition ar_to (k : key) (t : tag) := match t with TAr => TPX k | _ => t end.
Definition other_vec (w : bool) (g : N) (t : tag) :=
  match t with TV w' g' => Bool.eqb w w' && negb (g' =? g) | _ => false end.
Definition owned_by (k : key) (t : tag) :=
  match t with TPN k' | TPX k' | TL _ k' => key_eqb k' k | _ => false end.
Definition has_link (t : key) (bl : list (tag * N)) : bool :=
  existsb (fun e => match fst e with TL t' _ => key_eqb t' t | _ => false end) bl.
Definition has_tn (t : key) (bl : list (tag * N)) : bool :=
  existsb (fun e => match fst e with TTN t' => key_eqb t' t | _ => false end) bl.
Definition dead_trigger (bl : list (tag * N)) (tg : tag) :=
  match tg with TTN t | TTX t => negb (has_link t bl) | _ => false end.
Definition count (P : tag -> bool) (r : rstate) : N := N.of_nat (length (filter (fun e => P (fst e)) (r_b r))).

(* ---- basic_map::allocate(v) ---- *)
Definition hm_allocate (prot : bool) (tn tx : tag) (nsz : N) (ksz : option N) (r : rstate) : rstate * bool :=
  match ralloc TPend nsz r with                                        (* p = al.allocate(1) *)
  | (r1, false) => (r1, false)
  | (r1, true) =>
      match ksz with
      | None => (retag (pend_to tn) r1, true)                          (* short name: the copy can not throw *)
      | Some n =>
          match ralloc tx n r1 with                                    (* new (p) container(v): copies the key *)
          | (r2, true) => (retag (pend_to tn) r2, true)
          | (r2, false) =>
              if prot then (free_where is_pend r2, false)              (* catch(...) { al.deallocate(p,1); throw; } *)
              else (forget is_pend r2, false)
          end
      end
  end.

(* ---- rehash_if_needed(): new bucket vector first, then the old one is released ---- *)
Definition grow (w : bool) (r : rstate) : rstate * bool :=
  let cnt := count (if w then is_pn else is_tn) r in
  let tab := if w then r_pt r else r_tt r in
  if tab <=? cnt + 1 then
    let nt := (1 + cnt) * 2 in
    let g := N.succ (r_gen r) in
    match ralloc (TV w g) (sz_bucket * nt) r with
    | (r1, true) =>
        let r2 := free_where (other_vec w g) r1 in
        (with_tabs (if w then nt else r_pt r2) (if w then r_tt r2 else nt) g r2, true)
    | (r1, false) => (r1, false)
    end
  else (r, true).

(* ---- r_delete_node(p) ---- *)
Definition r_delete_node (k : key) (r : rstate) : rstate :=
  let r1 := free_where (owned_by k) r in
  free_where (dead_trigger (r_b r1)) r1.                               (* if(list.empty()) triggers.erase(...) *)

(* ---- nl_clear() / clear() ----   (as repaired by /repo a6386b3)
   timeout.clear(); lru.clear(); primary.clear(); triggers.clear(); size = 0; triggers_count = 0;
   primary.rehash(limit); triggers.rehash(limit);
   Every container gives its memory back FIRST; only then the two bucket vectors are re-created.  rehash(n) builds a vector of n
   buckets (nothing is allocated for n = 0) and releases the old one afterwards.  When one of the two allocations throws,
   std::bad_alloc leaves nl_clear() - the bool of the result is false - but the four indexes are already empty and the counters
   zero: the cache is consistent, holds nothing but (old or new) bucket vectors, and the next clear()/store tries again. *)
Definition primary_side (t : tag) := match t with TPN _ | TPX _ => true | _ => false end.
Definition trigger_side (t : tag) := match t with TTN _ | TTX _ | TL _ _ => true | _ => false end.
Definition is_vec (w : bool) (t : tag) := match t with TV w' _ => Bool.eqb w w' | _ => false end.
Definition regrow (w : bool) (r : rstate) : rstate * bool :=
  if r_limit r =? 0 then
    let r1 := free_where (is_vec w) r in
    (with_tabs (if w then 0 else r_pt r1) (if w then r_tt r1 else 0) (r_gen r1) r1, true)
  else
    let g := N.succ (r_gen r) in
    match ralloc (TV w g) (sz_bucket * r_limit r) r with
    | (r1, true) =>
        let r2 := free_where (other_vec w g) r1 in
        (with_tabs (if w then r_limit r else r_pt r2) (if w then r_tt r2 else r_limit r) g r2, true)
    | (r1, false) => (r1, false)
    end.
Definition nl_clear (r : rstate) : rstate * bool :=
  let r1 := free_where trigger_side (free_where primary_side r) in
  bind (regrow true r1) (regrow false).
Definition rclear (r : rstate) : rstate := fst (nl_clear r).

(* ---- add_trigger(p, name) ---- *)
Definition add_trigger (prot : bool) (k t : key) (r : rstate) : rstate * bool :=
  bind (opt_alloc TTmp (strsz t) r) (fun r1 =>                         (* tr(to_int(key), pointer_list_type()) *)
  bind (opt_alloc TConv (strsz t) r1) (fun r1c =>                      (* triggers.insert(tr): tr converted to value_type *)
  bind (grow false r1c) (fun r2 =>                                     (*   rehash_if_needed *)
  bind (if has_tn t (r_b r2) then (r2, true)
        else hm_allocate prot (TTN t) (TTX t) sz_tnode (strsz t) r2) (fun r3 =>
  bind (ralloc (TL t k) sz_lnode (free_where is_conv r3)) (fun r4 =>   (* ~value_type; it->second.push_front(p) *)
  bind (ralloc (TPX k) sz_tlnode r4) (fun r5 =>                        (* p->second.triggers.push_back(...) *)
  (free_where is_tmp r5, true))))))).                                  (* ~tr *)

(* ---- r_store: the second try block; ev = the entries check_limits() evicts (any: the victim rule is not needed here) ---- *)
Definition r_store_body (prot : bool) (k : key) (trigs ev : list key) (r : rstate) : rstate * bool :=
  let r0 := fold_left (fun r k' => r_delete_node k' r) (k :: ev) r in
  bind (opt_alloc TKey (strsz k) r0) (fun r1 =>                        (* int_key = to_int(key) *)
  bind (opt_alloc TConv (strsz k) r1) (fun r1c =>                      (* pair<string_type,container>(int_key,container()) *)
  bind (grow true r1c) (fun r2 =>                                      (* primary.insert: rehash_if_needed *)
  bind (hm_allocate prot (TPN k) (TPX k) sz_pnode (strsz k) r2) (fun r3 =>
  let r4 := retag (ar_to k) (free_where is_conv r3) in                 (* ~pair; cont.data.swap(ar) *)
  bind (ralloc (TPX k) sz_lnode r4) (fun r5 =>                         (* lru.push_front(main) *)
  bind (ralloc (TPX k) sz_rbnode r5) (fun r6 =>                        (* timeout.insert(...) *)
  bind (fold_left (fun x t => bind x (add_trigger prot k t)) (k :: trigs) (r6, true)) (fun r7 =>
  (free_where is_key r7, true)))))))).                                 (* ~int_key *)

Definition r_store (prot : bool) (k : key) (v : list N) (trigs ev : list key) (r : rstate) : rstate :=
  match opt_alloc TAr (strsz v) r with                                 (* string_type tmp = to_int(a); ar.swap(tmp) *)
  | (r1, false) => r_delete_node k r1                                    (* catch(bad_alloc) { remove(key); return; } *)
  | (r1, true) =>
      match r_store_body prot k trigs ev r1 with
      | (r2, true) => r2
      | (r2, false) => free_where is_ar (rclear (free_where is_tmp_or_key r2))  (* unwinding; nl_clear() - whose rehash calls may throw, with the indexes already empty -; ~ar *)
      end
  end.

Definition linked_keys (t : key) (bl : list (tag * N)) : list key :=
  flat_map (fun e => match fst e with TL t' k => if key_eqb t' t then [k] else [] | _ => [] end) bl.

Inductive rop :=
| RStore (k : key) (v : list N) (trigs ev : list key)
| RRemove (k : key)
| RRise (t : key)
| RClear
| RFetch (k : key)                   (* lru.splice(lru.begin(),lru,p->second.lru): no block is obtained or released *)
| RInject (faults : list bool).      (* the environment: the next allocations fail as listed *)

Definition rstep (prot : bool) (o : rop) (r : rstate) : rstate :=
  match o with
  | RStore k v trigs ev => r_store prot k v trigs ev r
  | RRemove k => r_delete_node k r
  | RRise t => fold_left (fun r k => r_delete_node k r) (linked_keys t (r_b r)) r
  | RClear => rclear r
  | RFetch _ => r
  | RInject f => with_faults f r
  end.

Definition rrun (prot : bool) (ops : list rop) (r : rstate) : rstate := fold_left (fun r o => rstep prot o r) ops r.

(* a cache with limit lim right after construction would hold two vectors of lim buckets; the model starts from the state before
   the constructor calls nl_clear(): r_init a lim, then RClear *)
Definition r_init (a : bstate) (lim : N) : rstate := mkR a [] 0 0 0 lim [].

(* bytes in in-use pages (what the harness reads from the real page headers) for the blocks the cache knows about *)
Definition orphans (r : rstate) (foreign : list N) (candidates : list N) : list N :=
  filter (fun o => match b_hdr (r_a r) o with
                   | Some (_, true) => negb (existsb (N.eqb (o + 16)) (map snd (r_b r) ++ foreign))
                   | _ => false
                   end) candidates.
