(* C08, buddy allocator: the constructor establishes the invariant; canonical form of an all-free state *)
From CppcmsV Require Import Base.Tac C08.Defs C08.BuddyArith C08.ProofsBuddy C08.ProofsBuddy2 C08.ProofsBuddy3.
Local Open Scope N_scope.
(* lia is never asked to reason about mod here (alignment goes through aligned_mult): keep mod opaque, it is much faster *)
Local Ltac Zify.zify_post_hook ::= idtac.

(* ---------- constructor ---------- *)
Record IJ (M pos rem : N) (s : bstate) : Prop := mkIJ {
  ij_err : b_err s = false;
  ij_ms : b_msize s = M;
  ij_sum : pos + rem = M;
  ij_small : M < 2 ^ 63;
  ij_page : forall o b u, b_hdr s o = Some (b, u) ->
            u = false /\ o mod 2 ^ (b + 1) = 0 /\ o + 2 ^ b <= pos /\ M < o + 2 ^ (b + 1) /\ 5 <= b /\ rem < 2 ^ b;
  ij_cover : forall x, x < pos -> exists o b, geom s o = Some b /\ o <= x /\ x < o + 2 ^ b;
  ij_fl : forall o b, In o (b_fl s b) <-> b_hdr s o = Some (b, false);
  ij_nodup : forall b, NoDup (b_fl s b);
  ij_max : forall o b u, b_hdr s o = Some (b, u) -> exists mb, b_maxbits s = Some mb /\ b <= mb;
  ij_maxsz : forall mb, b_maxbits s = Some mb -> M < 2 ^ (mb + 1) /\ mb <= 62;
  ij_none : b_maxbits s = None -> pos = 0;
  ij_align : exists j, rem < 2 ^ j /\ pos mod 2 ^ j = 0
}.

Lemma parity_contra q1 q2 U : 0 < U -> q2 * (2 * U) = q1 * (2 * U) + U -> False.
Proof.
  intros HU H. assert (H2 : (2 * q2) * U = (2 * q1 + 1) * U) by lia. apply N.mul_cancel_r in H2; lia.
Qed.

Lemma ij_final M pos rem s : IJ M pos rem s -> rem < 32 -> BInv s.
Proof.
  intros J Hrem. destruct J as [Herr Hms Hsum Hsmall Hpage Hcover Hfl Hnd Hmax Hmaxsz Hnone Halign].
  constructor; [exact Herr| |].
  - constructor.
    + rewrite Hms. exact Hsmall.
    + intros o b Hg. apply geom_some in Hg. destruct Hg as [u Hh]. destruct (Hpage o b u Hh) as (_ & A & B & _ & C & _).
      split; [apply (aligned_weaken o b (b + 1)); [lia|exact A]|]. split; [lia|exact C].
    + intros o1 b1 o2 b2 H1 H2 Hne. apply geom_some in H1, H2. destruct H1 as [u1 H1]. destruct H2 as [u2 H2].
      destruct (Hpage o1 b1 u1 H1) as (_ & A1 & B1 & C1 & _). destruct (Hpage o2 b2 u2 H2) as (_ & A2 & B2 & C2 & _).
      assert (Hposle : pos <= M) by (clear - Hsum; lia).
      destruct (N.lt_trichotomy o1 o2) as [Hlt|[Heq|Hgt]]; [|contradiction|].
      * left. apply (top_disjoint M o1 b1 o2 b2 A1 (N.le_trans _ _ _ B1 Hposle) C1 A2 (N.le_trans _ _ _ B2 Hposle) C2 Hlt).
      * right. apply (top_disjoint M o2 b2 o1 b1 A2 (N.le_trans _ _ _ B2 Hposle) C2 A1 (N.le_trans _ _ _ B1 Hposle) C1 Hgt).
    + intros x Hx. apply Hcover. lia.
    + intros o b Hg. apply geom_some in Hg. destruct Hg as [u Hh]. apply (Hmax o b u Hh).
    + intros mb H. rewrite Hms. apply (Hmaxsz mb H).
    + intros mb H. apply (Hmaxsz mb H).
  - constructor; [exact Hfl|exact Hnd|].
    intros o b o' Ho Hb. exfalso. apply get_buddy_some in Hb. destruct Hb as [Eb Hend]. rewrite Hms in Hend.
    destruct (Hpage o b false Ho) as (_ & A & _ & C & _).
    pose proof (pow2_succ b) as Hs. pose proof (pow2_pos b) as Hp.
    assert (Hal : o mod 2 ^ b = 0) by (apply (aligned_weaken o b (b + 1)); [lia|exact A]).
    destruct (buddy_spec o b Hal) as [[E _]|[E A']]; rewrite <- Eb in *; [lia|].
    apply aligned_mult in A, A'. destruct A as [q1 E1]. destruct A' as [q2 E2]. rewrite Hs in *.
    apply (parity_contra q2 q1 (2 ^ b) Hp). lia.
Qed.

Definition init_step (s : bstate) (pos bits : N) : bstate :=
  let s1 := set_fl (set_hdr s pos (Some (bits, false))) bits [pos] in
  match b_maxbits s1 with
  | None => mkB (b_msize s1) (Some bits) (b_hdr s1) (b_fl s1) (b_err s1)
  | Some _ => s1
  end.

Lemma init_step_hdr s pos bits x : b_hdr (init_step s pos bits) x = if x =? pos then Some (bits, false) else b_hdr s x.
Proof. unfold init_step, set_fl, set_hdr. cbn [b_maxbits b_msize b_hdr b_fl b_err]. destruct (b_maxbits s); reflexivity. Qed.
Lemma init_step_fl s pos bits b : b_fl (init_step s pos bits) b = if b =? bits then [pos] else b_fl s b.
Proof. unfold init_step, set_fl, set_hdr. cbn [b_maxbits b_msize b_hdr b_fl b_err]. destruct (b_maxbits s); reflexivity. Qed.
Lemma init_step_max s pos bits : b_maxbits (init_step s pos bits) = match b_maxbits s with None => Some bits | Some mb => Some mb end.
Proof. unfold init_step, set_fl, set_hdr. cbn [b_maxbits b_msize b_hdr b_fl b_err]. destruct (b_maxbits s); reflexivity. Qed.
Lemma init_step_misc s pos bits : b_msize (init_step s pos bits) = b_msize s /\ b_err (init_step s pos bits) = b_err s.
Proof. unfold init_step, set_fl, set_hdr. cbn [b_maxbits b_msize b_hdr b_fl b_err]. destruct (b_maxbits s); split; reflexivity. Qed.

Lemma ij_step M pos rem s bits : IJ M pos rem s -> 2 ^ bits <= rem -> rem < 2 ^ (bits + 1) -> 5 <= bits ->
  IJ M (pos + 2 ^ bits) (rem - 2 ^ bits) (init_step s pos bits).
Proof.
  intros J Hlo Hhi H5. destruct J as [Herr Hms Hsum Hsmall Hpage Hcover Hfl Hnd Hmax Hmaxsz Hnone Halign].
  pose proof (pow2_pos bits) as Hpos. pose proof (pow2_succ bits) as Hsucc.
  destruct (init_step_misc s pos bits) as [Ems Eerr].
  destruct Halign as (j & Hj1 & Hj2).
  assert (Hjb : bits + 1 <= j).
  { destruct (N.le_gt_cases (bits + 1) j) as [H|H]; [exact H|]. assert (2 ^ j <= 2 ^ bits) by (apply pow2_le; lia). lia. }
  assert (Hal1 : pos mod 2 ^ (bits + 1) = 0) by (apply (aligned_weaken pos (bits + 1) j); assumption).
  assert (Hal0 : pos mod 2 ^ bits = 0) by (apply (aligned_weaken pos bits j); [lia|assumption]).
  assert (Hnopos : b_hdr s pos = None).
  { destruct (b_hdr s pos) as [[b u]|] eqn:E; [|reflexivity]. destruct (Hpage pos b u E) as (_ & _ & B & _). pose proof (pow2_pos b). lia. }
  assert (Hb62 : bits <= 62).
  { assert (Hlt : 2 ^ bits < 2 ^ 63) by (clear - Hlo Hsum Hsmall; lia). apply N.pow_lt_mono_r_iff in Hlt; [clear - Hlt; lia|clear; lia]. }
  constructor.
  - rewrite Eerr. exact Herr.
  - rewrite Ems. exact Hms.
  - clear - Hsum Hlo. lia.
  - exact Hsmall.
  - intros o b u. rewrite init_step_hdr. destruct (N.eqb_spec o pos) as [->|Hn].
    + intros [= <- <-]. split; [reflexivity|]. split; [exact Hal1|]. clear Hj2 Hal1 Hal0. repeat split; lia.
    + intros H. destruct (Hpage o b u H) as (A & B & C & D & E & F).
      split; [exact A|]. split; [exact B|]. split; [clear - C Hpos; lia|]. split; [exact D|]. split; [exact E|clear - F Hlo; lia].
  - intros x Hx. destruct (N.lt_ge_cases x pos) as [Hlt|Hge].
    + destruct (Hcover x Hlt) as (o & b & Hg & Hr). exists o, b. split; [|exact Hr].
      unfold geom in *. rewrite init_step_hdr. destruct (N.eqb_spec o pos) as [->|]; [rewrite Hnopos in Hg; discriminate|exact Hg].
    + exists pos, bits. unfold geom. rewrite init_step_hdr, N.eqb_refl. split; [reflexivity|lia].
  - intros o b. rewrite init_step_fl, init_step_hdr. destruct (N.eqb_spec b bits) as [->|Hnb].
    + destruct (N.eqb_spec o pos) as [->|Hn]; [split; [reflexivity|left; reflexivity]|].
      split; [intros [H|[]]; congruence|]. intros H. exfalso. destruct (Hpage o bits false H) as (_ & _ & _ & _ & _ & F). lia.
    + rewrite Hfl. destruct (N.eqb_spec o pos) as [->|Hn]; [rewrite Hnopos; split; [discriminate|congruence]|tauto].
  - intros b. rewrite init_step_fl. destruct (b =? bits); [constructor; [intros []|constructor]|apply Hnd].
  - intros o b u. rewrite init_step_hdr, init_step_max. destruct (N.eqb_spec o pos) as [->|Hn].
    + intros [= <- <-]. destruct (b_maxbits s) as [mb|] eqn:Emb; [|exists bits; split; [reflexivity|lia]].
      exists mb. split; [reflexivity|]. destruct (Hmaxsz mb eq_refl) as [Hsz _].
      assert (Hlt : 2 ^ bits < 2 ^ (mb + 1)) by (clear - Hsz Hlo Hsum; lia). apply N.pow_lt_mono_r_iff in Hlt; [clear - Hlt; lia|clear; lia].
    + intros H. destruct (Hmax o b u H) as (mb & Hmb & Hle). rewrite Hmb. exists mb. split; [reflexivity|exact Hle].
  - intros mb. rewrite init_step_max. destruct (b_maxbits s) as [mb0|] eqn:Emb.
    + intros [= <-]. apply Hmaxsz. reflexivity.
    + intros [= <-]. rewrite (Hnone eq_refl) in Hsum. split; [clear - Hsum Hhi; lia|exact Hb62].
  - rewrite init_step_max. destruct (b_maxbits s); discriminate.
  - exists bits. split; [clear - Hhi Hsucc Hlo; lia|]. apply aligned_mult in Hal0. destruct Hal0 as [q ->]. apply aligned_mult. exists (q + 1). lia.
Qed.

Lemma contains_bits_spec rem bits : contains_bits rem = Some bits -> 2 ^ bits <= rem /\ rem < 2 ^ (bits + 1).
Proof.
  unfold contains_bits. destruct (N.leb_spec 2 rem); cbn [andb]; [|discriminate]. destruct (N.ltb_spec rem (2 ^ 63)); [|discriminate].
  intros [= <-]. rewrite N.add_1_r. apply N.log2_spec. lia.
Qed.
Lemma contains_bits_none rem : rem < 2 ^ 63 -> contains_bits rem = None -> rem < 2.
Proof.
  unfold contains_bits. intros Hs. destruct (N.leb_spec 2 rem); cbn [andb]; [|lia]. destruct (N.ltb_spec rem (2 ^ 63)); [discriminate|lia].
Qed.

Lemma b_init_loop_unfold f pos rem s :
  b_init_loop (S f) pos rem s =
  match contains_bits rem with
  | None => s
  | Some bits => if bits <? alignment_bits + 1 then s else b_init_loop f (pos + 2 ^ bits) (rem - 2 ^ bits) (init_step s pos bits)
  end.
Proof. reflexivity. Qed.

Lemma init_loop_inv fuel : forall M pos rem s, IJ M pos rem s -> rem < 2 ^ N.of_nat fuel ->
  BInv (b_init_loop fuel pos rem s) /\ b_msize (b_init_loop fuel pos rem s) = M /\
  (forall o b, ~ used (b_init_loop fuel pos rem s) o b).
Proof.
  induction fuel as [|f IH]; intros M pos rem s J Hrem.
  - cbn [b_init_loop]. change (2 ^ N.of_nat 0) with 1 in Hrem. split; [apply (ij_final M pos rem s J); lia|].
    split; [apply (ij_ms M pos rem s J)|]. intros o b Hu. destruct (ij_page M pos rem s J o b true Hu) as [H _]. discriminate.
  - rewrite b_init_loop_unfold.
    assert (Hfin : rem < 32 -> BInv s /\ b_msize s = M /\ (forall o b, ~ used s o b)).
    { intros H. split; [apply (ij_final M pos rem s J H)|]. split; [apply (ij_ms M pos rem s J)|].
      intros o b Hu. destruct (ij_page M pos rem s J o b true Hu) as [H0 _]. discriminate. }
    pose proof (ij_small M pos rem s J) as Hsmall. pose proof (ij_sum M pos rem s J) as Hsum.
    destruct (contains_bits rem) as [bits|] eqn:Ec.
    + destruct (contains_bits_spec rem bits Ec) as [Hlo Hhi]. unfold alignment_bits.
      destruct (N.ltb_spec bits (4 + 1)) as [Hlt|Hge].
      * apply Hfin. assert (2 ^ (bits + 1) <= 2 ^ 5) by (apply pow2_le; lia). change (2 ^ 5) with 32 in *. lia.
      * apply (IH M); [apply (ij_step M pos rem s bits J Hlo Hhi); lia|].
        assert (Hbf : bits < N.of_nat (S f)).
        { destruct (N.lt_ge_cases bits (N.of_nat (S f))) as [H|H]; [exact H|]. assert (2 ^ N.of_nat (S f) <= 2 ^ bits) by (apply pow2_le; exact H). lia. }
        pose proof (pow2_succ bits). assert (2 ^ bits <= 2 ^ N.of_nat f) by (apply pow2_le; lia). lia.
    + apply Hfin. pose proof (contains_bits_none rem ltac:(lia) Ec). lia.
Qed.

Theorem init_ok memory_size : memory_size - self_size < 2 ^ 63 ->
  BInv (b_init memory_size) /\ b_msize (b_init memory_size) = memory_size - self_size /\
  (forall o b, ~ used (b_init memory_size) o b).
Proof.
  intros Hs. unfold b_init. apply init_loop_inv; [|change (2 ^ N.of_nat 64) with (2 * 2 ^ 63); lia].
  constructor; cbn [b_err b_msize b_hdr b_fl b_maxbits].
  - reflexivity.
  - reflexivity.
  - lia.
  - exact Hs.
  - intros o b u H. discriminate.
  - intros x Hx. lia.
  - intros o b. split; [intros []|discriminate].
  - intros b. constructor.
  - intros o b u H. discriminate.
  - intros mb H. discriminate.
  - reflexivity.
  - exists 63. split; [exact Hs|reflexivity].
Qed.
