(* C17 proofs, part 1: token conservation of the event-loop model (every interleaving of lock-granularity steps) *)
From CppcmsV Require Import Base.Tac C17.Defs.
Local Open Scope N_scope.

Ltac sst := cbn [queue fdmap timers stop polling reactor woken clock counter lpc running timeout pstart log subs dropped set_queue set_fdmap set_timers set_stop set_polling set_reactor set_woken set_clock set_counter set_lpc set_running set_timeout set_pstart set_log set_subs set_dropped].
Ltac sst_in H := cbn [queue fdmap timers stop polling reactor woken clock counter lpc running timeout pstart log subs dropped set_queue set_fdmap set_timers set_stop set_polling set_reactor set_woken set_clock set_counter set_lpc set_running set_timeout set_pstart set_log set_subs set_dropped] in H.

Definition cnt (h:N) (l:list N) : nat := count_occ N.eq_dec l h.

Lemma cnt_app h a b : cnt h (a ++ b) = (cnt h a + cnt h b)%nat.
Proof. apply count_occ_app. Qed.
Lemma cnt_nil h : cnt h [] = 0%nat. Proof. reflexivity. Qed.

Definition T6 (s:st) (h:N) : nat :=
  (cnt h (fdmap_toks (fdmap s)) + cnt h (timer_toks (timers s)) + cnt h (queue_toks (queue s))
   + cnt h (running_toks (running s)) + cnt h (log_toks (log s)) + cnt h (dropped s))%nat.

Lemma cnt_tokens s h : cnt h (tokens s) = T6 s h.
Proof. unfold tokens, T6. rewrite !cnt_app. lia. Qed.

Lemma queue_toks_app a b : queue_toks (a ++ b) = queue_toks a ++ queue_toks b.
Proof. unfold queue_toks. apply flat_map_app. Qed.
Lemma log_toks_app a b : log_toks (a ++ b) = log_toks a ++ log_toks b.
Proof. unfold log_toks. apply map_app. Qed.

Lemma cnt_fd_put h m fd v :
  (cnt h (fdmap_toks (fd_put m fd v)) + cnt h (iod_toks (fd_get m fd)) = cnt h (fdmap_toks m) + cnt h (iod_toks v))%nat.
Proof.
  induction m as [|[k x] r IH]; cbn [fd_put fd_get fdmap_toks flat_map snd].
  - rewrite app_nil_r. cbn. lia.
  - destruct (Z.eqb k fd); cbn [fdmap_toks flat_map snd]; rewrite !cnt_app; fold (fdmap_toks r).
    + lia.
    + fold (fdmap_toks (fd_put r fd v)). lia.
Qed.

Lemma cnt_t_insert h l dl x : cnt h (timer_toks (t_insert l dl x)) = (cnt h (timer_toks l) + cnt h [x])%nat.
Proof.
  induction l as [|[d y] r IH]; cbn [t_insert timer_toks map snd].
  - cbn. lia.
  - destruct (N.ltb dl d); cbn [timer_toks map snd].
    + change (cnt h (x :: y :: map snd r)) with (cnt h ([x] ++ (y :: map snd r))). rewrite cnt_app. lia.
    + change (cnt h (y :: map snd (t_insert r dl x))) with (cnt h ([y] ++ timer_toks (t_insert r dl x))).
      change (cnt h (y :: map snd r)) with (cnt h ([y] ++ timer_toks r)). rewrite !cnt_app, IH. lia.
Qed.

Lemma cnt_t_remove h l x : t_mem l x = true ->
  (cnt h (timer_toks (t_remove l x)) + cnt h [x] = cnt h (timer_toks l))%nat.
Proof.
  induction l as [|[d y] r IH]; cbn [t_mem t_remove timer_toks map snd]; [discriminate|].
  intros H. destruct (N.eqb_spec y x) as [->|Hne].
  - change (cnt h (x :: map snd r)) with (cnt h ([x] ++ map snd r)). rewrite cnt_app. unfold timer_toks. lia.
  - cbn [timer_toks map snd].
    change (cnt h (y :: map snd (t_remove r x))) with (cnt h ([y] ++ timer_toks (t_remove r x))).
    change (cnt h (y :: map snd r)) with (cnt h ([y] ++ timer_toks r)). rewrite !cnt_app. specialize (IH H). lia.
Qed.

Lemma cnt_t_due h l now :
  (cnt h (queue_toks (fst (t_due l now))) + cnt h (timer_toks (snd (t_due l now))) = cnt h (timer_toks l))%nat.
Proof.
  induction l as [|[d y] r IH]; cbn [t_due]; [reflexivity|].
  destruct (N.leb d now).
  - destruct (t_due r now) as [q l'] eqn:E. cbn [fst snd] in *.
    change (queue_toks (Run y Ok :: q)) with ([y] ++ queue_toks q).
    change (timer_toks ((d,y)::r)) with ([y] ++ timer_toks r). rewrite !cnt_app. lia.
  - cbn [fst snd]. cbn [queue_toks flat_map]. rewrite cnt_nil. lia.
Qed.

(* ---- effect of the helpers on the token count ---- *)
Lemma T6_push s e h : T6 (push e s) h = (T6 s h + cnt h (entry_toks e))%nat.
Proof. unfold T6, push. sst. rewrite queue_toks_app, cnt_app. cbn [queue_toks flat_map]. rewrite app_nil_r. lia. Qed.

Lemma T6_push_opt s o c h : T6 (push_opt o c s) h = (T6 s h + cnt h (opt_list o))%nat.
Proof. destruct o; cbn [push_opt opt_list]; [rewrite T6_push; reflexivity|rewrite cnt_nil; lia]. Qed.

Lemma T6_wake s h : T6 (wake s) h = T6 s h. Proof. reflexivity. Qed.
Lemma T6_wake_if_polling s h : T6 (wake_if_polling s) h = T6 s h.
Proof. unfold wake_if_polling. destruct (polling s); reflexivity. Qed.
Lemma T6_submit s k kd h : T6 (submit k kd s) h = T6 s h. Proof. reflexivity. Qed.

Lemma T6_do_setter fd d k se s h : T6 (do_setter fd d k se s) h = (T6 s h + cnt h [k])%nat.
Proof.
  unfold do_setter. destruct (Z.ltb fd 0); [apply T6_push|]. destruct se; [apply T6_push|].
  unfold T6. cbn [fdmap timers queue running log dropped set_dropped set_fdmap].
  pose proof (cnt_fd_put h (fdmap s) fd
    (match d with DIn => mkIod true (cout (fd_get (fdmap s) fd)) (Some k) (wr (fd_get (fdmap s) fd))
                | DOut => mkIod (cin (fd_get (fdmap s) fd)) true (rd (fd_get (fdmap s) fd)) (Some k) end)) as P.
  rewrite cnt_app. unfold iod_toks in P. rewrite !cnt_app in P.
  destruct d; cbn [rd wr opt_list] in *; lia.
Qed.

Lemma T6_do_canceler fd s h : T6 (do_canceler fd s) h = T6 s h.
Proof.
  unfold do_canceler. destruct (Z.ltb fd 0); [reflexivity|].
  rewrite !T6_push_opt. unfold T6. cbn [fdmap timers queue running log dropped set_fdmap].
  pose proof (cnt_fd_put h (fdmap s) fd iod0) as P. unfold iod_toks in P. rewrite !cnt_app in P.
  cbn [iod0 rd wr opt_list] in P. rewrite !cnt_nil in P. lia.
Qed.

Lemma T6_dispatch ev s h : T6 (dispatch ev s) h = T6 s h.
Proof.
  unfold dispatch. destruct (Z.ltb (efd ev) 0); [reflexivity|].
  set (c := fd_get (fdmap s) (efd ev)).
  set (nin := cin c && negb (eerr ev || eself ev) && negb (ein ev)).
  set (nout := cout c && negb (eerr ev || eself ev) && negb (eout ev)).
  set (derr := if eerr ev then SelFailed else if eself ev then SelErr else Ok).
  set (fr := match rd c with Some _ => negb nin | None => false end).
  set (fw := match wr c with Some _ => negb nout | None => false end).
  pose proof (cnt_fd_put h (fdmap s) (efd ev) (mkIod nin nout (if fr then None else rd c) (if fw then None else wr c))) as P.
  fold c in P. unfold iod_toks in P. rewrite !cnt_app in P. cbn [rd wr] in P.
  destruct fr, fw; rewrite ?T6_push_opt; unfold T6; cbn [fdmap timers queue running log dropped set_fdmap];
    cbn [opt_list] in P; rewrite ?cnt_nil in P; lia.
Qed.

Lemma T6_fold_dispatch evs s h : T6 (fold_left (fun a ev => dispatch ev a) evs s) h = T6 s h.
Proof. revert s. induction evs as [|e r IH]; intros s; cbn [fold_left]; [reflexivity|]. rewrite IH. apply T6_dispatch. Qed.

Lemma T6_timers_stage s h : T6 (timers_stage s) h = T6 s h.
Proof.
  unfold timers_stage. destruct (stop s); [reflexivity|].
  pose proof (cnt_t_due h (timers s) (clock s)) as P.
  destruct (t_due (timers s) (clock s)) as [q t']. cbn [fst snd] in P.
  unfold T6. sst. rewrite queue_toks_app, cnt_app. lia.
Qed.

Lemma T6_after_lock s h : running s = None -> T6 (after_lock s) h = T6 s h.
Proof.
  intros R. unfold after_lock. destruct (queue s) as [|e q'] eqn:Q.
  - apply T6_timers_stage.
  - destruct (negb (stop s) && negb (Nat.eqb (counter s) 0)).
    + unfold T6. sst. rewrite Q, R. change (queue_toks (e :: q')) with (entry_toks e ++ queue_toks q').
      cbn [running_toks]. rewrite cnt_app, cnt_nil. lia.
    + apply T6_timers_stage.
Qed.

(* ---- frame facts: which fields the helpers leave alone ---- *)
Ltac frame :=
  intros; unfold do_setter, do_canceler, dispatch, push_opt, push, wake_if_polling, wake, submit; cbv zeta;
  repeat (match goal with
          | |- context[if ?b then _ else _] => destruct b
          | |- context[match ?o with Some _ => _ | None => _ end] => destruct o
          | |- context[match ?d with DIn => _ | DOut => _ end] => destruct d
          end); reflexivity.

Lemma subs_do_setter fd d k se s : subs (do_setter fd d k se s) = subs s. Proof. frame. Qed.
Lemma subs_do_canceler fd s : subs (do_canceler fd s) = subs s. Proof. frame. Qed.
Lemma subs_dispatch ev s : subs (dispatch ev s) = subs s. Proof. frame. Qed.
Lemma subs_wip s : subs (wake_if_polling s) = subs s. Proof. frame. Qed.
Lemma run_do_setter fd d k se s : running (do_setter fd d k se s) = running s. Proof. frame. Qed.
Lemma run_do_canceler fd s : running (do_canceler fd s) = running s. Proof. frame. Qed.
Lemma run_dispatch ev s : running (dispatch ev s) = running s. Proof. frame. Qed.
Lemma run_wip s : running (wake_if_polling s) = running s. Proof. frame. Qed.
Lemma lpc_do_setter fd d k se s : lpc (do_setter fd d k se s) = lpc s. Proof. frame. Qed.
Lemma lpc_do_canceler fd s : lpc (do_canceler fd s) = lpc s. Proof. frame. Qed.
Lemma lpc_dispatch ev s : lpc (dispatch ev s) = lpc s. Proof. frame. Qed.
Lemma lpc_wip s : lpc (wake_if_polling s) = lpc s. Proof. frame. Qed.
Lemma log_do_setter fd d k se s : log (do_setter fd d k se s) = log s. Proof. frame. Qed.
Lemma log_do_canceler fd s : log (do_canceler fd s) = log s. Proof. frame. Qed.
Lemma log_dispatch ev s : log (dispatch ev s) = log s. Proof. frame. Qed.
Lemma log_wip s : log (wake_if_polling s) = log s. Proof. frame. Qed.

Lemma fold_dispatch_frame {A} (f:st -> A) :
  (forall ev s, f (dispatch ev s) = f s) -> forall evs s, f (fold_left (fun a ev => dispatch ev a) evs s) = f s.
Proof. intros H evs. induction evs as [|e r IH]; intros s; cbn [fold_left]; [reflexivity|]. rewrite IH. apply H. Qed.

Lemma subs_timers_stage s : subs (timers_stage s) = subs s.
Proof. unfold timers_stage. destruct (stop s); [reflexivity|]. destruct (t_due (timers s) (clock s)); reflexivity. Qed.
Lemma subs_after_lock s : subs (after_lock s) = subs s.
Proof. unfold after_lock. destruct (queue s); [apply subs_timers_stage|].
  destruct (negb (stop s) && negb (Nat.eqb (counter s) 0)); [reflexivity|apply subs_timers_stage]. Qed.
Lemma log_timers_stage s : log (timers_stage s) = log s.
Proof. unfold timers_stage. destruct (stop s); [reflexivity|]. destruct (t_due (timers s) (clock s)); reflexivity. Qed.
Lemma log_after_lock s : log (after_lock s) = log s.
Proof. unfold after_lock. destruct (queue s); [apply log_timers_stage|].
  destruct (negb (stop s) && negb (Nat.eqb (counter s) 0)); [reflexivity|apply log_timers_stage]. Qed.
Lemma run_timers_stage s : running (timers_stage s) = running s.
Proof. unfold timers_stage. destruct (stop s); [reflexivity|]. destruct (t_due (timers s) (clock s)); reflexivity. Qed.
Lemma lpc_timers_stage s : lpc (timers_stage s) <> Popped /\ lpc (timers_stage s) <> Executed.
Proof. unfold timers_stage. destruct (stop s); [split; discriminate|]. destruct (t_due (timers s) (clock s)); split; discriminate. Qed.

(* ---- the loop thread holds an entry only between pop and exec ---- *)
Definition Rinv (s:st) : Prop := running s <> None -> lpc s = Popped.

Lemma is_pc_true s p : is_pc s p = true -> lpc s = p.
Proof. unfold is_pc. destruct (lpc s), p; intros H; try discriminate; reflexivity. Qed.

Lemma Rinv_after_lock s : running s = None -> Rinv (after_lock s).
Proof.
  intros R. unfold Rinv, after_lock. destruct (queue s).
  - rewrite run_timers_stage. congruence.
  - destruct (negb (stop s) && negb (Nat.eqb (counter s) 0)); [reflexivity|]. rewrite run_timers_stage. congruence.
Qed.

Lemma Rinv_none s p : Rinv s -> lpc s = p -> p <> Popped -> running s = None.
Proof. unfold Rinv. intros H E N. destruct (running s); [|reflexivity]. exfalso. apply N. rewrite <- E. apply H. discriminate. Qed.

Lemma Rinv_step l s : Rinv s -> Rinv (step l s).
Proof.
  intros I. destruct l; cbn [step].
  - destruct (fresh h s); [|exact I]. unfold Rinv. rewrite run_wip, lpc_wip. exact I.
  - destruct (fresh h s); [|exact I]. cbn zeta.
    destruct (polling (submit h (KIo fd d) s) || negb (reactor (submit h (KIo fd d) s))).
    + unfold Rinv. rewrite run_wip, lpc_wip. exact I.
    + unfold Rinv. rewrite run_do_setter, lpc_do_setter. exact I.
  - destruct (Z.eqb fd (-1)); [exact I|].
    destruct (negb (q_nonempty s || iod_busy (fd_get (fdmap s) fd))); [exact I|].
    destruct (polling s || negb (reactor s)).
    + unfold Rinv. rewrite run_wip, lpc_wip. exact I.
    + unfold Rinv. rewrite run_do_canceler, lpc_do_canceler. exact I.
  - destruct (fresh h s); [|exact I]. cbn zeta.
    destruct (timers (set_timers (submit h (KTimer dl) s) (t_insert (timers s) dl h))) as [|[d0 x0] r]; [exact I|].
    destruct (polling (set_timers (submit h (KTimer dl) s) (t_insert (timers s) dl h)) && N.leb dl d0); exact I.
  - destruct (t_mem (timers s) h); [|exact I]. unfold Rinv. rewrite run_wip, lpc_wip. exact I.
  - unfold Rinv. rewrite run_wip, lpc_wip. exact I.
  - destruct (is_pc s Idle); exact I.
  - exact I.
  - destruct (is_pc s Idle) eqn:P; [|exact I]. apply Rinv_after_lock. sst.
    apply (Rinv_none s Idle I (is_pc_true _ _ P)). discriminate.
  - destruct (is_pc s Popped) eqn:P; [|exact I]. cbn zeta.
    destruct (running s) as [[k c|fd d k|fd]|]; unfold Rinv.
    + sst. congruence.
    + rewrite run_do_setter. sst. congruence.
    + rewrite run_do_canceler. sst. congruence.
    + sst. congruence.
  - destruct (is_pc s Executed) eqn:P; [|exact I]. apply Rinv_after_lock. sst.
    apply (Rinv_none s Executed I (is_pc_true _ _ P)). discriminate.
  - destruct (is_pc s Executed) eqn:P; [|exact I]. unfold Rinv. sst. intros R. exfalso. apply R.
    apply (Rinv_none s Executed I (is_pc_true _ _ P)). discriminate.
  - destruct (is_pc s Poll) eqn:P; [|exact I]. cbn zeta. unfold Rinv. intros R. exfalso. apply R.
    pose proof (Rinv_none s Poll I (is_pc_true _ _ P)) as N.
    assert (running (fold_left (fun a ev => dispatch ev a) evs (set_polling s false)) = None) as F.
    { rewrite (fold_dispatch_frame running run_dispatch). sst. apply N. discriminate. }
    destruct intr; destruct (stop _); sst; exact F.
  - destruct (is_pc s Poll && negb (q_nonempty s)) eqn:P; [|exact I]. unfold Rinv. sst. intros R. exfalso. apply R.
    apply andb_prop in P. destruct P as [P _]. apply (Rinv_none s Poll I (is_pc_true _ _ P)). discriminate.
Qed.

(* ---- one step: tokens are only added by a submission, and then exactly the submitted one ---- *)
Definition submitted (l:label) (s:st) : list N :=
  match l with
  | LPost h _ => if fresh h s then [h] else []
  | LSetIo _ _ h _ => if fresh h s then [h] else []
  | LSetTimer h _ => if fresh h s then [h] else []
  | _ => []
  end.

Lemma T6_step l s h : Rinv s -> T6 (step l s) h = (T6 s h + cnt h (submitted l s))%nat.
Proof.
  intros I. destruct l; cbn [step submitted]; rewrite ?cnt_nil.
  - destruct (fresh h0 s); [|rewrite cnt_nil; lia]. rewrite T6_wake_if_polling, T6_push, T6_submit. reflexivity.
  - destruct (fresh h0 s); [|rewrite cnt_nil; lia]. cbn zeta.
    destruct (polling (submit h0 (KIo fd d) s) || negb (reactor (submit h0 (KIo fd d) s))).
    + rewrite T6_wake_if_polling, T6_push, T6_submit. reflexivity.
    + rewrite T6_do_setter, T6_submit. reflexivity.
  - destruct (Z.eqb fd (-1)); [lia|].
    destruct (negb (q_nonempty s || iod_busy (fd_get (fdmap s) fd))); [lia|].
    destruct (polling s || negb (reactor s)).
    + rewrite T6_wake_if_polling, T6_push. cbn [entry_toks]. rewrite cnt_nil. lia.
    + rewrite T6_do_canceler. lia.
  - destruct (fresh h0 s); [|rewrite cnt_nil; lia]. cbn zeta.
    assert (T6 (set_timers (submit h0 (KTimer dl) s) (t_insert (timers s) dl h0)) h = (T6 s h + cnt h [h0])%nat) as E.
    { unfold T6, submit. sst. rewrite cnt_t_insert. lia. }
    destruct (timers (set_timers (submit h0 (KTimer dl) s) (t_insert (timers s) dl h0))) as [|[d0 x0] r]; [exact E|].
    destruct (polling (set_timers (submit h0 (KTimer dl) s) (t_insert (timers s) dl h0)) && N.leb dl d0); [rewrite T6_wake|]; exact E.
  - destruct (t_mem (timers s) h0) eqn:M; [|lia]. rewrite T6_wake_if_polling.
    pose proof (cnt_t_remove h (timers s) h0 M) as P.
    unfold T6, push. sst. rewrite queue_toks_app, cnt_app. cbn [queue_toks flat_map entry_toks]. rewrite app_nil_r. lia.
  - rewrite T6_wake_if_polling. unfold T6. sst. lia.
  - destruct (is_pc s Idle) eqn:P; [|lia]. unfold T6. sst. rewrite !cnt_app.
    rewrite (Rinv_none s Idle I (is_pc_true _ _ P)) by discriminate. cbn [queue_toks fdmap_toks flat_map running_toks]. rewrite !cnt_nil. lia.
  - unfold T6. sst. lia.
  - destruct (is_pc s Idle) eqn:P; [|lia]. rewrite T6_after_lock.
    + unfold T6. sst. lia.
    + sst. apply (Rinv_none s Idle I (is_pc_true _ _ P)). discriminate.
  - destruct (is_pc s Popped) eqn:P; [|lia]. cbn zeta.
    destruct (running s) as [[k c|fd d k|fd]|] eqn:R.
    + unfold T6. sst. rewrite R, log_toks_app, cnt_app. cbn [running_toks entry_toks log_toks map fst]. rewrite !cnt_nil. lia.
    + rewrite T6_do_setter. unfold T6. sst. rewrite R. cbn [running_toks entry_toks]. rewrite cnt_nil. lia.
    + rewrite T6_do_canceler. unfold T6. sst. rewrite R. cbn [running_toks entry_toks]. rewrite cnt_nil. lia.
    + unfold T6. sst. rewrite R. lia.
  - destruct (is_pc s Executed) eqn:P; [|lia]. rewrite T6_after_lock.
    + unfold T6. sst. lia.
    + sst. apply (Rinv_none s Executed I (is_pc_true _ _ P)). discriminate.
  - destruct (is_pc s Executed); [|lia]. unfold T6. sst. lia.
  - destruct (is_pc s Poll); [|lia]. cbn zeta.
    assert (T6 (fold_left (fun a ev => dispatch ev a) evs (set_polling s false)) h = T6 s h) as F.
    { rewrite T6_fold_dispatch. unfold T6. sst. lia. }
    destruct intr; destruct (stop _); unfold wake, T6 in *; sst; sst_in F; lia.
  - destruct (is_pc s Poll && negb (q_nonempty s)); [|lia]. unfold T6. sst. lia.
Qed.

Lemma subs_step l s : map fst (subs (step l s)) = map fst (subs s) ++ submitted l s.
Proof.
  destruct l; cbn [step submitted]; rewrite ?app_nil_r.
  - destruct (fresh h s); [|rewrite app_nil_r; reflexivity]. rewrite subs_wip. unfold push, submit. sst. rewrite map_app. reflexivity.
  - destruct (fresh h s); [|rewrite app_nil_r; reflexivity]. cbn zeta.
    destruct (polling (submit h (KIo fd d) s) || negb (reactor (submit h (KIo fd d) s))).
    + rewrite subs_wip. unfold push, submit. sst. rewrite map_app. reflexivity.
    + rewrite subs_do_setter. unfold submit. sst. rewrite map_app. reflexivity.
  - destruct (Z.eqb fd (-1)); [reflexivity|].
    destruct (negb (q_nonempty s || iod_busy (fd_get (fdmap s) fd))); [reflexivity|].
    destruct (polling s || negb (reactor s)); [rewrite subs_wip; reflexivity|rewrite subs_do_canceler; reflexivity].
  - destruct (fresh h s); [|rewrite app_nil_r; reflexivity]. cbn zeta.
    assert (map fst (subs (set_timers (submit h (KTimer dl) s) (t_insert (timers s) dl h))) = map fst (subs s) ++ [h]) as E.
    { unfold submit. sst. rewrite map_app. reflexivity. }
    destruct (timers (set_timers (submit h (KTimer dl) s) (t_insert (timers s) dl h))) as [|[d0 x0] r]; [exact E|].
    destruct (polling (set_timers (submit h (KTimer dl) s) (t_insert (timers s) dl h)) && N.leb dl d0); exact E.
  - destruct (t_mem (timers s) h); [rewrite subs_wip|]; reflexivity.
  - rewrite subs_wip. reflexivity.
  - destruct (is_pc s Idle); reflexivity.
  - reflexivity.
  - destruct (is_pc s Idle); [rewrite subs_after_lock|]; reflexivity.
  - destruct (is_pc s Popped); [|reflexivity]. cbn zeta.
    destruct (running s) as [[k c|fd d k|fd]|]; [reflexivity|rewrite subs_do_setter; reflexivity|rewrite subs_do_canceler; reflexivity|reflexivity].
  - destruct (is_pc s Executed); [rewrite subs_after_lock|]; reflexivity.
  - destruct (is_pc s Executed); reflexivity.
  - destruct (is_pc s Poll); [|reflexivity]. cbn zeta.
    assert (subs (fold_left (fun a ev => dispatch ev a) evs (set_polling s false)) = subs s) as F.
    { rewrite (fold_dispatch_frame subs subs_dispatch). reflexivity. }
    destruct intr; destruct (stop _); unfold wake; sst; rewrite F; reflexivity.
  - destruct (is_pc s Poll && negb (q_nonempty s)); reflexivity.
Qed.

(* ---- the conservation invariant ---- *)
Definition Cons (s:st) : Prop :=
  Rinv s /\ NoDup (map fst (subs s)) /\ forall h, cnt h (tokens s) = cnt h (map fst (subs s)).

Lemma fresh_not_in h s : fresh h s = true -> ~ In h (map fst (subs s)).
Proof.
  unfold fresh. intros F H. apply negb_true_iff in F.
  assert (existsb (N.eqb h) (map fst (subs s)) = true) as E.
  { apply existsb_exists. exists h. split; [exact H|apply N.eqb_refl]. }
  congruence.
Qed.

Lemma submitted_spec l s : submitted l s = [] \/ exists h, submitted l s = [h] /\ ~ In h (map fst (subs s)).
Proof.
  destruct l; cbn [submitted]; try (left; reflexivity);
    (destruct (fresh h s) eqn:F; [right; exists h; split; [reflexivity|apply fresh_not_in; exact F]|left; reflexivity]).
Qed.

Lemma NoDup_snoc (l:list N) (h:N) : NoDup l -> ~ In h l -> NoDup (l ++ [h]).
Proof.
  intros ND NI. apply NoDup_count_occ with (decA := N.eq_dec). intros x.
  rewrite count_occ_app. pose proof (proj1 (NoDup_count_occ N.eq_dec l) ND x) as P.
  cbn [count_occ]. destruct (N.eq_dec h x) as [->|Hne]; [|lia].
  apply (count_occ_not_In N.eq_dec) in NI. lia.
Qed.

Lemma Cons_init : Cons st0.
Proof. split; [|split]. - unfold Rinv. cbn. congruence. - constructor. - intros h. reflexivity. Qed.

Lemma Cons_step l s : Cons s -> Cons (step l s).
Proof.
  intros [I [ND C]]. split; [apply Rinv_step; exact I|]. split.
  - rewrite subs_step. destruct (submitted_spec l s) as [E|[h [E NI]]]; rewrite E.
    + rewrite app_nil_r. exact ND.
    + apply NoDup_snoc; assumption.
  - intros h. rewrite cnt_tokens, T6_step by exact I. rewrite <- cnt_tokens, C, subs_step, cnt_app. reflexivity.
Qed.
