(* C17 -- cancel_io_events issued while the loop thread is between two run_one calls: the registered handlers
   are invoked with the canceled code by the next run_one (cancel executed in place) or by the one after it
   (cancel deferred through the dispatch queue because no reactor exists yet). *)
From CppcmsV Require Import Base.Tac C17.Defs C17.Proofs C17.Proofs2 C17.Proofs4 C17.Proofs5 C17.Proofs6 C17.Proofs7 C17.Solo.
Import ListNotations. Local Open Scope N_scope.

(* ---- C1: the canceler moves both handlers to the dispatch queue and clears the table entry ---- *)
Lemma canceler_queues_both : forall s fd hr hw, (0 <= fd)%Z -> rd (fd_get (fdmap s) fd) = Some hr -> wr (fd_get (fdmap s) fd) = Some hw ->
  queue (do_canceler fd s) = queue s ++ [Run hr Canceled; Run hw Canceled] /\ fd_get (fdmap (do_canceler fd s)) fd = iod0.
Proof.
  intros s fd hr hw P R W. unfold do_canceler. destruct (Z.ltb_spec fd 0); [lia|]. rewrite R, W.
  cbn [push_opt]. unfold push. sst. split.
  - rewrite <- app_assoc. reflexivity.
  - rewrite fd_get_put, Z.eqb_refl. reflexivity.
Qed.

(* ---- helpers ---- *)
Definition has_handler (c:iod) (h:N) : Prop := rd c = Some h \/ wr c = Some h.

Lemma busy_of_handler c h : has_handler c h -> iod_busy c = true.
Proof.
  intros [E|E]; unfold iod_busy; rewrite E.
  - rewrite orb_true_r. reflexivity.
  - rewrite orb_true_r. reflexivity.
Qed.

Lemma canceler_in s fd h : (0 <= fd)%Z -> has_handler (fd_get (fdmap s) fd) h ->
  In (Run h Canceled) (queue (do_canceler fd s)).
Proof.
  intros P H. unfold do_canceler. destruct (Z.ltb_spec fd 0); [lia|].
  destruct H as [E|E]; rewrite E.
  - cbn [push_opt]. destruct (wr (fd_get (fdmap s) fd)); cbn [push_opt]; unfold push; sst.
    + apply in_or_app. left. apply in_or_app. right. left. reflexivity.
    + apply in_or_app. right. left. reflexivity.
  - cbn [push_opt]. unfold push at 1. sst. apply in_or_app. right. left. reflexivity.
Qed.

Lemma ts_stop s : stop (timers_stage s) = stop s.
Proof. unfold timers_stage. destruct (stop s) eqn:E; [sst; exact E|]. destruct (t_due (timers s) (clock s)). sst. exact E. Qed.
Lemma ts_clock s : clock (timers_stage s) = clock s.
Proof. unfold timers_stage. destruct (stop s); [reflexivity|]. destruct (t_due (timers s) (clock s)). reflexivity. Qed.
Lemma ts_poll s : stop s = false -> lpc (timers_stage s) = Poll.
Proof. intros E. unfold timers_stage. rewrite E. destruct (t_due (timers s) (clock s)). reflexivity. Qed.

(* the first run_one when the queue holds exactly the deferred canceler *)
Lemma solo_deferred_cancel b s fd : lpc s = Idle -> stop s = false -> queue s = [Cancl fd] ->
  run_one_solo b s =
  timers_stage (set_counter (do_canceler fd
    (set_lpc (set_running (set_lpc (set_running (set_queue (set_counter (set_reactor s true) 1%nat) []) (Some (Cancl fd))) Popped) None) Executed)) 0%nat).
Proof.
  intros P ST Q. unfold run_one_solo. rewrite Q. cbn [length].
  cbn [step]. rewrite (is_pc_of s Idle P). unfold after_lock. sst. rewrite Q, ST. cbn [length Nat.eqb negb andb].
  cbn [drain]. sst.
  set (sB := set_lpc (set_running (set_queue (set_counter (set_reactor s true) 1%nat) []) (Some (Cancl fd))) Popped).
  assert (step (LExec b) sB = do_canceler fd (set_lpc (set_running sB None) Executed)) as EX.
  { cbn [step]. unfold sB at 1 2. unfold is_pc. sst. reflexivity. }
  rewrite EX.
  rewrite done_last_goes_to_timers.
  - destruct (lpc_timers_stage (set_counter (do_canceler fd (set_lpc (set_running sB None) Executed)) 0%nat)) as [N1 N2].
    destruct (lpc (timers_stage (set_counter (do_canceler fd (set_lpc (set_running sB None) Executed)) 0%nat))); try reflexivity.
    congruence.
  - apply is_pc_of. rewrite lpc_do_canceler. reflexivity.
  - rewrite ctr_do_canceler. reflexivity.
Qed.

(* ---- the general statement: h is the registered reader or the registered writer ---- *)
Lemma cancel_io_invokes : forall b i s fd h, reach s -> lpc s = Idle -> stop s = false -> queue s = [] -> (0 <= fd)%Z ->
  has_handler (fd_get (fdmap s) fd) h ->
  let s1 := step (LCancelIo fd) s in
  let s2 := run_one_solo b s1 in
  let s3 := run_one_solo b (step (LPollEnd [] i) s2) in
  In (h, Canceled, clock s) (log s2) \/ In (h, Canceled, clock s) (log s3).
Proof.
  intros b i s fd h R P ST Q F H. cbv zeta.
  assert (polling s = false) as PF.
  { apply pol_false; [apply reach_W, R|]. rewrite P. discriminate. }
  assert (step (LCancelIo fd) s = if reactor s then do_canceler fd s else push (Cancl fd) s) as E1.
  { cbn [step]. destruct (Z.eqb_spec fd (-1)); [lia|]. rewrite (busy_of_handler _ h H), orb_true_r. cbn [negb].
    rewrite PF. cbn [orb]. destruct (reactor s); cbn [negb]; [reflexivity|].
    unfold wake_if_polling. replace (polling (push (Cancl fd) s)) with false by (unfold push; sst; symmetry; exact PF). reflexivity. }
  rewrite E1. destruct (reactor s) eqn:RE.
  - left. rewrite <- (clk_do_canceler fd s). apply solo_run_one_runs_queued.
    + rewrite lpc_do_canceler. exact P.
    + rewrite stop_do_canceler. exact ST.
    + apply canceler_in; assumption.
  - right.
    assert (lpc (push (Cancl fd) s) = Idle) as P1 by (unfold push; sst; exact P).
    assert (stop (push (Cancl fd) s) = false) as ST1 by (unfold push; sst; exact ST).
    assert (queue (push (Cancl fd) s) = [Cancl fd]) as Q1 by (unfold push; sst; rewrite Q; reflexivity).
    rewrite (solo_deferred_cancel b _ fd P1 ST1 Q1).
    set (sA := set_lpc (set_running (set_lpc (set_running (set_queue (set_counter (set_reactor (push (Cancl fd) s) true) 1%nat) []) (Some (Cancl fd))) Popped) None) Executed).
    set (sC := set_counter (do_canceler fd sA) 0%nat).
    assert (In (Run h Canceled) (queue sC)) as IC.
    { unfold sC. sst. apply canceler_in; [exact F|]. unfold sA, push. sst. exact H. }
    assert (stop sC = false) as STC.
    { unfold sC. sst. rewrite stop_do_canceler. unfold sA, push. sst. exact ST. }
    assert (clock sC = clock s) as CKC.
    { unfold sC. sst. rewrite clk_do_canceler. unfold sA, push. sst. reflexivity. }
    assert (In (Run h Canceled) (queue (timers_stage sC))) as IT.
    { destruct (q_timers_stage sC) as [q' E]. rewrite E. apply in_or_app. left. exact IC. }
    assert (stop (timers_stage sC) = false) as STT by (rewrite ts_stop; exact STC).
    destruct (pollend_facts [] i (timers_stage sC) (ts_poll sC STC) STT) as [A1 [A2 [_ [A4 [q' A5]]]]].
    assert (clock (step (LPollEnd [] i) (timers_stage sC)) = clock s) as CK.
    { rewrite A4, ts_clock. exact CKC. }
    rewrite <- CK. apply solo_run_one_runs_queued; [exact A1|exact A2|].
    rewrite A5. apply in_or_app. left. exact IT.
Qed.

(* ---- C2 / C3 ---- *)
Lemma cancel_io_invokes_reader : forall b i s fd h, reach s -> lpc s = Idle -> stop s = false -> queue s = [] -> (0 <= fd)%Z ->
  rd (fd_get (fdmap s) fd) = Some h ->
  let s1 := step (LCancelIo fd) s in
  let s2 := run_one_solo b s1 in
  let s3 := run_one_solo b (step (LPollEnd [] i) s2) in
  In (h, Canceled, clock s) (log s2) \/ In (h, Canceled, clock s) (log s3).
Proof.
  intros b i s fd h R P ST Q F H. apply cancel_io_invokes; try assumption. left. exact H.
Qed.

Lemma cancel_io_invokes_writer : forall b i s fd h, reach s -> lpc s = Idle -> stop s = false -> queue s = [] -> (0 <= fd)%Z ->
  wr (fd_get (fdmap s) fd) = Some h ->
  let s1 := step (LCancelIo fd) s in
  let s2 := run_one_solo b s1 in
  let s3 := run_one_solo b (step (LPollEnd [] i) s2) in
  In (h, Canceled, clock s) (log s2) \/ In (h, Canceled, clock s) (log s3).
Proof.
  intros b i s fd h R P ST Q F H. apply cancel_io_invokes; try assumption. right. exact H.
Qed.
