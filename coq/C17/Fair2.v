(* C17 -- a due timer is dispatched, and then invoked, despite arbitrary interference by other threads
   (everything except stop, reset and the cancel of that very timer) *)
From CppcmsV Require Import Base.Tac C17.Defs C17.Proofs C17.Proofs2 C17.Proofs4 C17.Proofs5 C17.Proofs6 C17.Solo C17.Fair.
Import ListNotations. Local Open Scope N_scope.

(* steps of other threads, minus the cancel of timer h *)
Definition other_but (h:N) (l:label) : bool :=
  other l && match l with LCancelTimer x => negb (N.eqb x h) | _ => true end.
Definition others_but (h:N) (ls:list label) : Prop := forallb (other_but h) ls = true.

(* n times (others_but; LExec b; others_but; LDone), then trailing others_but *)
Inductive pairs_but (h:N) : nat -> list label -> Prop :=
| pairs_but_O o : others_but h o -> pairs_but h 0 o
| pairs_but_S n o1 b o2 rest : others_but h o1 -> others_but h o2 -> pairs_but h n rest ->
    pairs_but h (S n) (o1 ++ [LExec b] ++ o2 ++ [LDone] ++ rest).
Definition sched_but (h:N) (n:nat) (ls:list label) : Prop :=
  exists o0 rest, others_but h o0 /\ pairs_but h n rest /\ ls = o0 ++ [LBegin] ++ rest.

Lemma other_but_other h l : other_but h l = true -> other l = true.
Proof. unfold other_but. intros H. apply andb_true_iff in H. destruct H as [H _]. exact H. Qed.

Lemma others_but_others h : forall ls, others_but h ls -> others ls.
Proof.
  unfold others_but, others. induction ls as [|l r IH]; intros H; [reflexivity|].
  cbn [forallb] in *. apply andb_true_iff in H. destruct H as [H1 H2].
  rewrite (other_but_other h l H1), (IH H2). reflexivity.
Qed.

Lemma pairs_but_pairs h : forall n ls, pairs_but h n ls -> pairs n ls.
Proof.
  intros n ls P. induction P as [o O|n o1 b o2 rest O1 O2 P IH].
  - apply pairs_O. apply (others_but_others h o O).
  - apply pairs_S; [apply (others_but_others h o1 O1)|apply (others_but_others h o2 O2)|exact IH].
Qed.

Lemma sched_but_sched h n ls : sched_but h n ls -> sched n ls.
Proof.
  intros [o0 [rest [O [P E]]]]. exists o0, rest.
  split; [apply (others_but_others h o0 O)|]. split; [apply (pairs_but_pairs h n rest P)|exact E].
Qed.

(* ---- the timer table under other steps ---- *)
Lemma t_insert_keeps l d x p : In p l -> In p (t_insert l d x).
Proof.
  induction l as [|[d0 y] r IH]; cbn [t_insert]; intros I; [contradiction|].
  destruct (N.ltb d d0); [right; exact I|].
  destruct I as [I|I]; [left; exact I|right; apply IH, I].
Qed.

Lemma t_remove_keeps l x dl h : N.eqb x h = false -> In (dl,h) l -> In (dl,h) (t_remove l x).
Proof.
  intros NE. induction l as [|[d0 y] r IH]; cbn [t_remove]; intros I; [contradiction|].
  destruct (N.eqb y x) eqn:E.
  - destruct I as [I|I]; [|exact I]. inversion I; subst. apply N.eqb_eq in E. subst x.
    rewrite N.eqb_refl in NE. discriminate NE.
  - destruct I as [I|I]; [left; exact I|right; apply IH, I].
Qed.

Lemma timer_stays_armed : forall h l s dl, other_but h l = true -> In (dl,h) (timers s) -> In (dl,h) (timers (step l s)).
Proof.
  intros h l s dl O I. unfold other_but in O. apply andb_true_iff in O. destruct O as [O1 O2].
  destruct l; try discriminate O1; cbn [step].
  - destruct (fresh h0 s); [|exact I]. rewrite tm_wip. exact I.
  - destruct (fresh h0 s); [|exact I]. cbn zeta.
    destruct (polling (submit h0 (KIo fd d) s) || negb (reactor (submit h0 (KIo fd d) s))); [rewrite tm_wip|rewrite tm_do_setter]; exact I.
  - destruct (Z.eqb fd (-1)); [exact I|]. destruct (negb (q_nonempty s || iod_busy (fd_get (fdmap s) fd))); [exact I|].
    destruct (polling s || negb (reactor s)); [rewrite tm_wip|rewrite tm_do_canceler]; exact I.
  - destruct (fresh h0 s); [|exact I]. cbn zeta.
    set (s1 := set_timers (submit h0 (KTimer dl0) s) (t_insert (timers s) dl0 h0)).
    assert (In (dl,h) (timers s1)) as I1 by (unfold s1; sst; apply t_insert_keeps, I).
    clearbody s1.
    destruct (timers s1) as [|[d0 x0] r] eqn:T; [contradiction|].
    destruct (polling s1 && N.leb dl0 d0); unfold wake; sst; rewrite T; exact I1.
  - destruct (t_mem (timers s) h0); [|exact I]. rewrite tm_wip. sst.
    apply t_remove_keeps; [|exact I]. destruct (N.eqb h0 h); [discriminate O2|reflexivity].
  - exact I.
Qed.

Lemma clock_mono_other l s : other l = true -> clock s <= clock (step l s).
Proof.
  intros O. destruct l; try discriminate O; cbn [step]; oframe; unfold push; sst; lia.
Qed.

Lemma reach_run_from : forall ls s, reach s -> reach (run_labels ls s).
Proof.
  induction ls as [|l r IH]; intros s R; [exact R|]. rewrite run_labels_cons. apply IH, reach_step, R.
Qed.

Lemma others_but_keep h : forall ls s dl, others_but h ls -> In (dl,h) (timers s) -> dl <= clock s ->
  In (dl,h) (timers (run_labels ls s)) /\ dl <= clock (run_labels ls s).
Proof.
  unfold others_but. induction ls as [|l r IH]; intros s dl O I L; [split; assumption|].
  cbn [forallb] in O. apply andb_true_iff in O. destruct O as [O1 O2].
  rewrite run_labels_cons. apply IH; [exact O2|apply timer_stays_armed; assumption|].
  pose proof (clock_mono_other l s (other_but_other h l O1)). lia.
Qed.

(* trailing other steps keep a queued entry, the pc and the stop flag *)
Lemma others_tail o s e : others o -> In e (queue s) -> lpc s = Poll -> stop s = false ->
  In e (queue (run_labels o s)) /\ lpc (run_labels o s) = Poll /\ stop (run_labels o s) = false.
Proof.
  intros O I P ST. destruct (others_frame o s O) as [A [B [_ [_ [_ [q F]]]]]].
  split; [rewrite F; apply in_or_app; left; exact I|]. split; congruence.
Qed.

(* the timers stage with the timer armed and due *)
Lemma ts_dispatch s dl h : Sinv s -> stop s = false -> In (dl,h) (timers s) -> dl <= clock s ->
  In (Run h Ok) (queue (timers_stage s)) /\ lpc (timers_stage s) = Poll /\ stop (timers_stage s) = false.
Proof.
  intros S ST I L. destruct (timers_stage_dispatches_due s S ST) as [A [_ PL]].
  assert (In (Run h Ok) (queue (timers_stage s))) as IQ by (apply (A dl h I L)).
  destruct (ts_facts s h ST IQ) as [_ [ST2 _]].
  split; [exact IQ|]. split; [exact PL|exact ST2].
Qed.

(* ---- the drain under interference, ending in the timers stage ---- *)
Lemma drain_timer h : forall k rest, pairs_but h (S k) rest ->
  forall s e dl, reach s -> lpc s = Popped -> stop s = false -> running s = Some e -> counter s = S k ->
  (k <= length (queue s))%nat -> In (dl,h) (timers s) -> dl <= clock s ->
  In (Run h Ok) (queue (run_labels rest s)) /\ lpc (run_labels rest s) = Poll /\ stop (run_labels rest s) = false.
Proof.
  induction k as [|k IH]; intros rest PR; inversion PR as [|n o1 b o2 rest' O1 O2 PR' EN ER]; subst;
    intros s e dl R P ST RU C LEN I L.
  - rewrite run_labels_app.
    destruct (others_frame o1 s (others_but_others h o1 O1)) as [A1 [B1 [C1 [D1 [_ [q1 F1]]]]]].
    destruct (others_but_keep h o1 s dl O1 I L) as [I1 L1].
    pose proof (reach_run_from o1 s R) as R1.
    set (s1 := run_labels o1 s) in *.
    rewrite run_labels_app. change (run_labels [LExec b] s1) with (step (LExec b) s1).
    destruct (exec_facts b s1 e) as [A2 [B2 [T2 [K2 [C2 [[q2 F2] _]]]]]]; [congruence|congruence|].
    pose proof (reach_step (LExec b) s1 R1) as R2.
    set (s2 := step (LExec b) s1) in *.
    rewrite run_labels_app.
    destruct (others_frame o2 s2 (others_but_others h o2 O2)) as [A3 [B3 [C3 [D3 [_ [q3 F3]]]]]].
    destruct (others_but_keep h o2 s2 dl O2) as [I3 L3]; [rewrite T2; exact I1|rewrite K2; exact L1|].
    pose proof (reach_run_from o2 s2 R2) as R3.
    set (s3 := run_labels o2 s2) in *.
    rewrite run_labels_app. change (run_labels [LDone] s3) with (step LDone s3).
    assert (lpc s3 = Executed) as P3 by congruence.
    assert (stop s3 = false) as ST3 by congruence.
    assert (counter s3 = 1%nat) as C3' by congruence.
    rewrite (done_last_goes_to_timers s3 (is_pc_of s3 Executed P3) C3').
    inversion PR' as [o O EO|]; subst.
    assert (Sinv (set_counter s3 0%nat)) as S3 by (unfold Sinv; sst; apply (reach_S s3 R3)).
    destruct (ts_dispatch (set_counter s3 0%nat) dl h S3) as [X1 [X2 X3]]; sst; try assumption.
    apply others_tail; try assumption. apply (others_but_others h _ O).
  - rewrite run_labels_app.
    destruct (others_frame o1 s (others_but_others h o1 O1)) as [A1 [B1 [C1 [D1 [_ [q1 F1]]]]]].
    destruct (others_but_keep h o1 s dl O1 I L) as [I1 L1].
    pose proof (reach_run_from o1 s R) as R1.
    set (s1 := run_labels o1 s) in *.
    rewrite run_labels_app. change (run_labels [LExec b] s1) with (step (LExec b) s1).
    destruct (exec_facts b s1 e) as [A2 [B2 [T2 [K2 [C2 [[q2 F2] _]]]]]]; [congruence|congruence|].
    pose proof (reach_step (LExec b) s1 R1) as R2.
    set (s2 := step (LExec b) s1) in *.
    rewrite run_labels_app.
    destruct (others_frame o2 s2 (others_but_others h o2 O2)) as [A3 [B3 [C3 [D3 [_ [q3 F3]]]]]].
    destruct (others_but_keep h o2 s2 dl O2) as [I3 L3]; [rewrite T2; exact I1|rewrite K2; exact L1|].
    pose proof (reach_run_from o2 s2 R2) as R3.
    set (s3 := run_labels o2 s2) in *.
    rewrite run_labels_app. change (run_labels [LDone] s3) with (step LDone s3).
    assert (lpc s3 = Executed) as P3 by congruence.
    assert (stop s3 = false) as ST3 by congruence.
    assert (counter s3 = S (S k)) as C3' by congruence.
    assert (S k <= length (queue s3))%nat as LEN3.
    { rewrite F3, F2, F1, !app_length. lia. }
    destruct (queue s3) as [|x q] eqn:Q3; [cbn [length] in LEN3; lia|]. cbn [length] in LEN3.
    pose proof (reach_step LDone s3 R3) as R4.
    pose proof (done_pop s3 x q k P3 ST3 Q3 C3') as E4.
    apply (IH rest' PR' (step LDone s3) x dl R4); rewrite E4; sst; try reflexivity; try assumption. lia.
Qed.

(* the run_one that starts now - whatever the other threads do during it, short of stop, reset and the cancel of this
   timer - ends in the reactor poll with the handler of the due timer in the dispatch queue *)
Theorem due_timer_dispatched_despite_interference : forall s dl h rest,
  reach s -> lpc s = Idle -> stop s = false -> In (dl,h) (timers s) -> dl <= clock s ->
  pairs_but h (length (queue s)) rest ->
  let s' := run_labels ([LBegin] ++ rest) s in
  In (Run h Ok) (queue s') /\ lpc s' = Poll /\ stop s' = false.
Proof.
  intros s dl h rest R P ST I L PR. cbv zeta.
  rewrite run_labels_app. change (run_labels [LBegin] s) with (step LBegin s).
  destruct (queue s) as [|e q] eqn:Q.
  - cbn [length] in PR. inversion PR as [o O EO|]; subst.
    cbn [step]. rewrite (is_pc_of s Idle P). unfold after_lock. sst. rewrite Q. cbn [length].
    assert (Sinv (set_counter (set_reactor s true) 0%nat)) as S0 by (unfold Sinv; sst; apply (reach_S s R)).
    destruct (ts_dispatch (set_counter (set_reactor s true) 0%nat) dl h S0) as [X1 [X2 X3]]; sst; try assumption.
    apply others_tail; try assumption. apply (others_but_others h _ O).
  - cbn [length] in PR.
    pose proof (begin_pops_front s e q (is_pc_of s Idle P) ST Q) as BP. cbv zeta in BP.
    destruct BP as [R1 [Q1 [P1 C1]]].
    assert (stop (step LBegin s) = false) as ST1.
    { cbn [step]. rewrite (is_pc_of s Idle P). unfold after_lock. sst. rewrite Q, ST.
      cbn [negb andb length Nat.eqb]. sst. exact ST. }
    assert (timers (step LBegin s) = timers s /\ clock (step LBegin s) = clock s) as [T1 K1].
    { cbn [step]. rewrite (is_pc_of s Idle P). unfold after_lock. sst. rewrite Q, ST.
      cbn [negb andb length Nat.eqb]. sst. split; reflexivity. }
    apply (drain_timer h (length q) rest PR (step LBegin s) e dl); try assumption.
    + apply reach_step, R.
    + rewrite Q1. lia.
    + rewrite T1. exact I.
    + rewrite K1. exact L.
Qed.

(* ... and the following run_one invokes it: the poll ends, and the loop thread executes as many entries as are in front
   of the dispatched handler plus one, under arbitrary interference (short of stop and reset) *)
Theorem due_timer_runs_despite_interference : forall s dl h rest evs intr ls2,
  reach s -> lpc s = Idle -> stop s = false -> In (dl,h) (timers s) -> dl <= clock s ->
  pairs_but h (length (queue s)) rest ->
  let s1 := run_labels ([LBegin] ++ rest) s in
  let s2 := step (LPollEnd evs intr) s1 in
  (exists q1 q2, queue s2 = q1 ++ Run h Ok :: q2 /\ sched (S (length q1)) ls2) ->
  exists t, In (h,Ok,t) (log (run_labels ls2 s2)).
Proof.
  intros s dl h rest evs intr ls2 R P ST I L PR. cbv zeta. intros [q1 [q2 [Q SC]]].
  destruct (due_timer_dispatched_despite_interference s dl h rest R P ST I L PR) as [_ [P1 ST1]].
  destruct (pollend_facts evs intr _ P1 ST1) as [P2 [ST2 _]].
  destruct (running (step (LPollEnd evs intr) (run_labels ([LBegin] ++ rest) s))) as [x|] eqn:RU.
  - (* the theorem of Fair.v does not use its running hypothesis; go through a state with running = None *)
    set (s2 := step (LPollEnd evs intr) (run_labels ([LBegin] ++ rest) s)) in *.
    destruct SC as [o0 [rest2 [O0 [PR2 E]]]]. subst ls2.
    rewrite run_labels_app.
    destruct (others_frame o0 s2 (O0)) as [A0 [B0 [_ [_ [_ [q0 F0]]]]]].
    set (s0 := run_labels o0 s2) in *.
    rewrite run_labels_app. change (run_labels [LBegin] s0) with (step LBegin s0).
    assert (queue s0 = (q1 ++ [Run h Ok]) ++ (q2 ++ q0)) as Q0.
    { rewrite F0, Q. rewrite <- !app_assoc. reflexivity. }
    assert (length (q1 ++ [Run h Ok]) = S (length q1)) as LEN by (rewrite app_length; cbn [length]; lia).
    assert (In (Run h Ok) (q1 ++ [Run h Ok])) as IN by (apply in_or_app; right; left; reflexivity).
    destruct (q1 ++ [Run h Ok]) as [|e pre] eqn:EQ; [discriminate LEN|].
    cbn [length] in LEN. injection LEN as LEN. cbn [app] in Q0.
    assert (stop s0 = false) as ST0 by congruence.
    pose proof (begin_pops_front s0 e (pre ++ q2 ++ q0) (is_pc_of s0 Idle (eq_trans A0 P2)) ST0 Q0) as BP.
    cbv zeta in BP. destruct BP as [R1 [Q1 [P1' C1]]].
    rewrite <- LEN in PR2.
    apply (drain_fair pre (S (length pre)) rest2 PR2 eq_refl (step LBegin s0) e (q2 ++ q0)).
    + exact P1'.
    + cbn [step]. rewrite (is_pc_of s0 Idle (eq_trans A0 P2)). unfold after_lock. sst. rewrite Q0, ST0.
      cbn [negb andb length Nat.eqb]. sst. exact ST0.
    + exact R1.
    + exact Q1.
    + rewrite C1, app_length. lia.
    + exact IN.
  - apply (queued_handler_runs_despite_interference _ q1 h Ok q2 ls2 P2 ST2 RU Q SC).
Qed.

(* the schedule predicate is not vacuous: one entry, another timer cancelled and this one re-armed elsewhere meanwhile *)
Example pairs_but_example : pairs_but 7 1 [LTick 3; LCancelTimer 8; LExec false; LSetTimer 9 5; LDone; LPost 4 Ok].
Proof.
  apply (pairs_but_S 7 0 [LTick 3; LCancelTimer 8] false [LSetTimer 9 5] [LPost 4 Ok]); [reflexivity|reflexivity|].
  apply pairs_but_O. reflexivity.
Qed.
