(* C17 -- the reactor layer (booster/lib/aio/src/reactor.cpp: epoll_reactor / poll_reactor / select_reactor) as its own state over
   a small OS model: descriptor NUMBERS are handed out lowest-free-first and reused after close(); close() silently drops the epoll
   registration of the closed open-file; poll()/select() keep no kernel state (the reactor's table IS the interest set).
   Executable definitions only.  Masks are Z (0 = nothing, io_events in = 1, out = 2). *)
From CppcmsV Require Import Base.Tac.
Import ListNotations.
Local Open Scope Z_scope.

Inductive backend := BEpoll | BPoll | BSelect.
Fixpoint zget (m:list (Z*Z)) (k:Z) : Z := match m with [] => 0 | (a,v)::r => if Z.eqb a k then v else zget r k end.
Definition zput (m:list (Z*Z)) (k v:Z) : list (Z*Z) := (k,v) :: m.
Definition zmem (l:list Z) (k:Z) : bool := existsb (Z.eqb k) l.
Definition zdel (l:list Z) (k:Z) : list Z := filter (fun x => negb (Z.eqb x k)) l.

Record rst := mkR { be : backend;
                    opened : list Z;           (* descriptor numbers that are open *)
                    kreg : list (Z*Z);         (* epoll: kernel registration (mask) per open descriptor number *)
                    cache : list (Z*Z);        (* the reactor table: events_ (epoll) / pollfds_ via map_ (poll, select) *)
                    want : list (Z*Z);         (* ghost: the mask last requested for the number by a successful-or-not select() *)
                    pend : list Z;             (* ghost: numbers closed while the table still held a mask, remove() not yet called *)
                    lasterr : Z }.             (* error reported by the last select(): 0 none, 9 EBADF, 2 ENOENT, 17 EEXIST, 22 EINVAL *)
Definition rst0 (b:backend) : rst := mkR b [] [] [] [] [] 0.

(* epoll_ctl on descriptor number fd: returns (error, new kernel table) *)
Definition ctl_add (s:rst) (fd m:Z) : Z * list (Z*Z) :=
  if negb (zmem (opened s) fd) then (9, kreg s) else if negb (Z.eqb (zget (kreg s) fd) 0) then (17, kreg s) else (0, zput (kreg s) fd m).
Definition ctl_mod (s:rst) (fd m:Z) : Z * list (Z*Z) :=
  if negb (zmem (opened s) fd) then (9, kreg s) else if Z.eqb (zget (kreg s) fd) 0 then (2, kreg s) else (0, zput (kreg s) fd m).
Definition ctl_del (s:rst) (fd:Z) : Z * list (Z*Z) :=
  if negb (zmem (opened s) fd) then (9, kreg s) else if Z.eqb (zget (kreg s) fd) 0 then (2, kreg s) else (0, zput (kreg s) fd 0).

(* reactor_impl::select(fd, flags, error).  [stale] = the refuted variant that returns before updating the table when the
   system call failed (if(error) return;) *)
Definition r_select (stale:bool) (fd flags:Z) (s:rst) : rst :=
  if Z.ltb fd 0 then mkR (be s) (opened s) (kreg s) (cache s) (want s) (pend s) (match be s with BEpoll => 22 | _ => 9 end)
  else
    let w := zput (want s) fd flags in
    match be s with
    | BEpoll =>
        let cur := zget (cache s) fd in
        let '(err, k) :=
          if negb (Z.eqb cur 0) && Z.eqb flags 0 then ctl_del s fd
          else if Z.eqb cur 0 && negb (Z.eqb flags 0) then ctl_add s fd flags
          else if negb (Z.eqb cur flags) then ctl_mod s fd flags
          else (0, kreg s) in
        if stale && negb (Z.eqb err 0) then mkR (be s) (opened s) k (cache s) w (pend s) err
        else mkR (be s) (opened s) k (zput (cache s) fd flags) w (pend s) err
    | _ => mkR (be s) (opened s) (kreg s) (zput (cache s) fd flags) w (pend s) 0
    end.
(* the kernel-side interest for descriptor number fd: epoll = the kernel registration, poll/select = the reactor table itself *)
Definition interest (s:rst) (fd:Z) : Z := match be s with BEpoll => zget (kreg s) fd | _ => zget (cache s) fd end.

Fixpoint lowest_free (fuel:nat) (l:list Z) (n:Z) : Z :=
  match fuel with O => n | S k => if zmem l n then lowest_free k l (n+1) else n end.

Inductive rlabel :=
| RArm (fd flags:Z)      (* io_event_setter / readiness dispatch: select(fd, flags) with flags <> 0; issued by the event loop only for an
                            open descriptor whose pending remove (if any) has been executed - the dispatch queue is FIFO *)
| RRemove (fd:Z)         (* io_event_canceler / dispatch with no interest left: select(fd, 0); its error is ignored by the loop *)
| OClose (fd:Z)          (* close(fd) by anybody, at any time *)
| OOpen.                 (* socket()/accept()/dup(): the lowest free number *)

Definition rstep (stale:bool) (l:rlabel) (s:rst) : rst :=
  match l with
  | RArm fd flags =>
      if Z.eqb flags 0 || negb (zmem (opened s) fd) || zmem (pend s) fd then s else r_select stale fd flags s
  | RRemove fd =>
      let s1 := r_select stale fd 0 s in
      mkR (be s1) (opened s1) (kreg s1) (cache s1) (want s1) (zdel (pend s1) fd) (lasterr s1)
  | OClose fd =>
      if zmem (opened s) fd
      then mkR (be s) (zdel (opened s) fd) (zput (kreg s) fd 0) (cache s) (want s)
               (if Z.eqb (zget (cache s) fd) 0 then pend s else fd :: pend s) (lasterr s)
      else s
  | OOpen => let n := lowest_free (S (length (opened s))) (opened s) 0 in
             mkR (be s) (n :: opened s) (kreg s) (cache s) (want s) (pend s) (lasterr s)
  end.
Definition rrun (stale:bool) (ls:list rlabel) (s:rst) : rst := fold_left (fun a l => rstep stale l a) ls s.
