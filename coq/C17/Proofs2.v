(* C17 proofs, part 2: consequences of conservation; the script interpreter only takes model steps *)
From CppcmsV Require Import Base.Tac C17.Defs C17.Proofs.
Local Open Scope N_scope.

Lemma Cons_run ls s : Cons s -> Cons (run_labels ls s).
Proof. revert s. induction ls as [|l r IH]; intros s C; cbn [run_labels fold_left]; [exact C|]. apply IH, Cons_step, C. Qed.

Lemma Cons_le1 s h : Cons s -> (cnt h (tokens s) <= 1)%nat.
Proof. intros [_ [ND C]]. rewrite C. apply (proj1 (NoDup_count_occ N.eq_dec _) ND). Qed.

Lemma cnt_part_le a b h : (cnt h b <= cnt h (a ++ b))%nat /\ (cnt h a <= cnt h (a ++ b))%nat.
Proof. rewrite cnt_app. lia. Qed.

Lemma Cons_log_nodup s : Cons s -> NoDup (log_toks (log s)).
Proof.
  intros C. apply NoDup_count_occ with (decA := N.eq_dec). intros h.
  pose proof (Cons_le1 s h C) as L. rewrite cnt_tokens in L. unfold T6 in L. unfold cnt in L. lia.
Qed.

Lemma cnt_pos_in h l : (0 < cnt h l)%nat <-> In h l.
Proof. unfold cnt. symmetry. apply count_occ_In. Qed.

Lemma Cons_log_submitted s h : Cons s -> In h (log_toks (log s)) -> In h (map fst (subs s)).
Proof.
  intros [_ [_ C]] H. apply cnt_pos_in. rewrite <- C, cnt_tokens. unfold T6.
  apply cnt_pos_in in H. lia.
Qed.

Lemma cnt_nil_all (l:list N) : l = [] -> forall h, cnt h l = 0%nat.
Proof. intros -> h. reflexivity. Qed.

Lemma Cons_quiescent s : Cons s -> pending_toks s = [] -> dropped s = [] ->
  forall h, In h (map fst (subs s)) <-> cnt h (log_toks (log s)) = 1%nat.
Proof.
  intros C P D h. pose proof (Cons_le1 s h C) as L. destruct C as [_ [ND C]].
  specialize (C h). unfold tokens in C. 
  assert (cnt h (tokens s) = cnt h (pending_toks s ++ log_toks (log s) ++ dropped s)) as E.
  { unfold tokens, pending_toks. rewrite <- !app_assoc. reflexivity. }
  rewrite E, P, D, app_nil_r in L. cbn [app] in L.
  unfold tokens in C. fold (tokens s) in C. rewrite E, P, D, app_nil_r in C. cbn [app] in C.
  split.
  - intros I. apply cnt_pos_in in I. lia.
  - intros I. apply cnt_pos_in. lia.
Qed.

(* a handler still pending somewhere has not been invoked yet, and conversely *)
Lemma Cons_pending_not_logged s h : Cons s -> In h (pending_toks s) -> ~ In h (log_toks (log s)).
Proof.
  intros C P L. pose proof (Cons_le1 s h C) as B.
  assert (cnt h (tokens s) = cnt h (pending_toks s ++ log_toks (log s) ++ dropped s)) as E.
  { unfold tokens, pending_toks. rewrite <- !app_assoc. reflexivity. }
  rewrite E, !cnt_app in B. apply cnt_pos_in in P. apply cnt_pos_in in L. lia.
Qed.

(* only the exec step of the loop thread invokes handlers *)
Lemma log_step_only_exec l s : log (step l s) <> log s -> exists se, l = LExec se.
Proof.
  destruct l; try (intros _; exists se; reflexivity); cbn [step]; intros H; exfalso; apply H.
  - destruct (fresh h s); [rewrite log_wip|]; reflexivity.
  - destruct (fresh h s); [|reflexivity]. cbn zeta.
    destruct (polling (submit h (KIo fd d) s) || negb (reactor (submit h (KIo fd d) s))); [rewrite log_wip|rewrite log_do_setter]; reflexivity.
  - destruct (Z.eqb fd (-1)); [reflexivity|].
    destruct (negb (q_nonempty s || iod_busy (fd_get (fdmap s) fd))); [reflexivity|].
    destruct (polling s || negb (reactor s)); [rewrite log_wip|rewrite log_do_canceler]; reflexivity.
  - destruct (fresh h s); [|reflexivity]. cbn zeta.
    destruct (timers (set_timers (submit h (KTimer dl) s) (t_insert (timers s) dl h))) as [|[d0 x0] r]; [reflexivity|].
    destruct (polling (set_timers (submit h (KTimer dl) s) (t_insert (timers s) dl h)) && N.leb dl d0); reflexivity.
  - destruct (t_mem (timers s) h); [rewrite log_wip|]; reflexivity.
  - rewrite log_wip. reflexivity.
  - destruct (is_pc s Idle); reflexivity.
  - reflexivity.
  - destruct (is_pc s Idle); [rewrite log_after_lock|]; reflexivity.
  - destruct (is_pc s Executed); [rewrite log_after_lock|]; reflexivity.
  - destruct (is_pc s Executed); reflexivity.
  - destruct (is_pc s Poll); [|reflexivity]. cbn zeta.
    assert (log (fold_left (fun a ev => dispatch ev a) evs (set_polling s false)) = log s) as F.
    { rewrite (fold_dispatch_frame log log_dispatch). reflexivity. }
    destruct intr; destruct (stop _); unfold wake; sst; exact F.
  - destruct (is_pc s Poll && negb (q_nonempty s)); reflexivity.
Qed.

(* each exec step invokes at most one handler: the one the loop thread popped, with the code stored in its queue entry *)
Lemma exec_logs_running se s :
  log (step (LExec se) s) = log s \/
  exists h c, running s = Some (Run h c) /\ lpc s = Popped /\ log (step (LExec se) s) = log s ++ [(h,c,clock s)].
Proof.
  cbn [step]. destruct (is_pc s Popped) eqn:P; [|left; reflexivity]. cbn zeta.
  destruct (running s) as [[k c|fd d k|fd]|].
  - right. exists k, c. split; [reflexivity|]. split; [apply is_pc_true; exact P|]. reflexivity.
  - left. rewrite log_do_setter. reflexivity.
  - left. rewrite log_do_canceler. reflexivity.
  - left. reflexivity.
Qed.

(* API contract made explicit: arming a direction that is still armed drops the earlier handler without invoking it *)
Lemma double_arm_drops fd h1 h2 s :
  (0 <= fd)%Z -> rd (fd_get (fdmap s) fd) = Some h1 ->
  dropped (do_setter fd DIn h2 false s) = h1 :: dropped s.
Proof.
  intros F R. unfold do_setter. destruct (Z.ltb_spec fd 0); [lia|]. sst. rewrite R. reflexivity.
Qed.

(* ---- Layer B: every state of the script interpreter is a state of the step model ---- *)
Inductive reach : st -> Prop :=
| reach_init : reach st0
| reach_tick0 : forall d, reach (set_clock st0 d)
| reach_step : forall l s, reach s -> reach (step l s).

Lemma reach_Cons s : reach s -> Cons s.
Proof.
  induction 1 as [|d|l s R IH]; [apply Cons_init| |apply Cons_step; exact IH].
  destruct Cons_init as [A [B C]]. split; [exact A|]. split; [exact B|]. exact C.
Qed.

Lemma reach_run ls : reach (run_labels ls st0).
Proof.
  assert (forall ls s, reach s -> reach (run_labels ls s)) as G.
  { induction ls0 as [|l r IH]; intros s R; cbn [run_labels fold_left]; [exact R|]. apply IH. constructor. exact R. }
  apply G. constructor.
Qed.

Definition R (x:sim) : Prop := reach (ms x).
Lemma R_stp l x : R x -> R (stp l x). Proof. unfold R, stp. cbn [ms set_ms]. apply reach_step. Qed.
Lemma R_os_put x f v : R x -> R (os_put x f v). Proof. exact (fun H => H). Qed.

Lemma R_set_comp x c i n : R x -> R (set_comp x c i n). Proof. exact (fun H => H). Qed.
Lemma R_set_olog x v : R x -> R (set_olog x v). Proof. exact (fun H => H). Qed.
Lemma R_set_cprog x v : R x -> R (set_cprog x v). Proof. exact (fun H => H). Qed.
Lemma R_set_tim x a b c d : R x -> R (set_tim x a b c d). Proof. exact (fun H => H). Qed.
Lemma R_set_nown x v : R x -> R (set_nown x v). Proof. exact (fun H => H). Qed.
Lemma R_set_tmeta x v : R x -> R (set_tmeta x v). Proof. exact (fun H => H). Qed.
Lemma R_add_sout k v x : R x -> R (add_sout k v x). Proof. exact (fun H => H). Qed.
Lemma R_try_io x b f w : R x -> R (snd (try_io x b f w)).
Proof.
  intros H. unfold try_io. cbv zeta. destruct (closedA (os_get x f)); [exact H|]. destruct b.
  - destruct (inq (os_get x f)); [apply R_os_put; exact H|]. destruct (hup (os_get x f)); exact H.
  - destruct (hup (os_get x f)); [exact H|]. destruct (full (os_get x f)); exact H.
Qed.
Lemma R_comp_wait k b f al x : R x -> R (comp_wait k b f al x).
Proof. intros H. unfold comp_wait. cbv zeta. apply R_stp, R_set_comp. exact H. Qed.
Lemma R_xfer_step k b f al x : R x -> R (snd (xfer_step k b f al x)).
Proof.
  intros H. unfold xfer_step. destruct al.
  - destruct (prog_of x k) as [need cnt]. pose proof (R_try_io x b f need H) as T. destruct (try_io x b f need) as [r x1]. cbn [snd] in T.
    destruct r as [[c got]|]; [|exact T]. destruct c; [|exact T].
    destruct (N.eqb (need - got) 0); cbn [snd]; apply R_set_cprog; exact T.
  - pose proof (R_try_io x b f (if b then XFER_BUF else 1%N) H) as T. destruct (try_io x b f (if b then XFER_BUF else 1%N)) as [r x1]. cbn [snd] in T.
    destruct r as [[c got]|]; exact T.
Qed.
Lemma R_comp_start k b f al x : R x -> R (comp_start k b f al x).
Proof.
  intros H. unfold comp_start. pose proof (R_xfer_step k b f al x H) as T. destruct (xfer_step k b f al x) as [[n d] x1]. cbn [snd] in T.
  destruct d; [apply R_stp, R_set_comp; exact T|apply R_comp_wait; exact T].
Qed.

Lemma R_oco ob x : R x -> R (do_op (OCO ob) x).
Proof.
  intros H. cbn [do_op]. destruct (assoc (tnaive x) ob) as [[k|]|]; try exact H.
  destruct (assoc (tmeta x) k) as [[r0 dl]|]; try exact H.
  destruct (N.ltb (clock (ms x)) dl); try exact H. cbv zeta.
  set (x1 := set_tim x (tobj x) (towner x) ((ob, None) :: tnaive x) (tcans x ++ [(k, clock (ms x))])).
  assert (R x1) as H1 by (apply R_set_tim; exact H).
  destruct (assoc (tobj x1) ob) as [[t|]|]; try exact H1. apply R_stp, R_set_tim. exact H1.
Qed.

Lemma R_do_op o x : R x -> R (do_op o x).
Proof.
  intros H. destruct o; try (apply R_oco; exact H); cbn [do_op]; cbv zeta; try (apply R_comp_start; exact H); try (apply R_comp_start, R_set_cprog; exact H);
    try (destruct (closedA (os_get x f)); [apply R_os_put; exact H|exact H]; fail);
    try (apply R_stp, R_set_tim, R_set_tmeta, R_add_sout; exact H; fail);
    try (destruct (closedA (os_get x f) || not_owner x f); [exact H|apply R_set_nown; exact H]; fail);
    try (destruct (closedA (os_get x f)); [exact H|]; destruct (not_owner x f); [apply R_stp; exact H|apply R_set_nown, R_stp; exact H]; fail);
    try (destruct (closedA (os_get x f) || negb (not_owner x f)); [exact H|apply R_set_nown, R_stp; exact H]; fail).
  - apply R_stp. exact H.
  - apply R_stp. exact H.
  - apply R_stp. exact H.
  - apply R_stp. exact H.
  - destruct (assoc (tmeta x) k) as [[raw dl]|]; [|exact H].
    destruct raw; [apply R_stp; exact H|]. destruct (N.leb dl (clock (ms x))); [exact H|apply R_stp; exact H].
  - apply R_stp. exact H.
  - apply R_stp. exact H.
  - apply R_stp. exact H.
  - destruct (closedA (os_get x f)); [exact H|]. destruct (not_owner x f); [apply R_stp; exact H|]. apply R_os_put, R_stp. exact H.
  - destruct (closedA (os_get x f) || hup (os_get x f)); [exact H|apply R_os_put; exact H].
  - destruct (closedA (os_get x f)); [exact H|apply R_os_put; exact H].
  - destruct (closedA (os_get x f) || hup (os_get x f)); [exact H|apply R_os_put; exact H].
  - destruct (hup (os_get x f)); [exact H|apply R_os_put; exact H].
  - destruct (hup (os_get x f)); [exact H|apply R_os_put; exact H].
  - apply R_stp. exact H.
  - apply R_stp. exact H.
Qed.

Lemma R_fold {A} (f:sim -> A -> sim) : (forall x a, R x -> R (f x a)) -> forall l x, R x -> R (fold_left f l x).
Proof. intros H l. induction l as [|a r IH]; intros x Hx; cbn [fold_left]; [exact Hx|]. apply IH, H, Hx. Qed.

Lemma R_do_ops ops x : R x -> R (do_ops ops x).
Proof. unfold do_ops. apply R_fold. intros y a Hy. apply R_do_op. exact Hy. Qed.

Lemma R_complete k n x : R x -> R (complete k n x).
Proof. intros H. unfold complete. apply R_do_ops, R_set_olog. exact H. Qed.
Lemma R_after_exec h c x : R x -> R (after_exec h c x).
Proof.
  intros H. unfold after_exec. destruct (assoc (comp x) h) as [[[[k b] f] al]|];
    [|apply R_complete; destruct (assoc (towner x) h); [apply R_set_tim; exact H|exact H]].
  destruct (assoc (cimm x) h); [apply R_complete; exact H|].
  destruct c; try (apply R_complete; exact H).
  pose proof (R_xfer_step k b f al x H) as T. destruct (xfer_step k b f al x) as [[n d] x1]. cbn [snd] in T.
  destruct d; [apply R_complete; exact T|apply R_comp_wait; exact T].
Qed.

Lemma R_cancel_all x : R x -> R (cancel_all x).
Proof. intros H. unfold cancel_all. apply R_fold; [|exact H]. intros y a Hy. apply R_stp. exact Hy. Qed.

Lemma R_nothing_ready x : R x -> R (nothing_ready x).
Proof.
  intros H. unfold nothing_ready. cbv zeta. destruct (N.eqb (timeout (ms x)) 0); [exact H|].
  destruct (N.ltb (timeout (ms x)) IDLE_MS); [apply R_stp; exact H|].
  destruct (stage x) as [|[|n]].
  - destruct (phases x); [apply R_cancel_all; exact H|exact H].
  - destruct (Nat.eqb (length (sout x)) (mark x)); [apply R_stp; exact H|apply R_cancel_all; exact H].
  - exact H.
Qed.

Lemma R_mark_nval x f : R x -> R (mark_nval x f).
Proof. intros H. unfold mark_nval. destruct (closed_registered x f); [apply R_os_put; exact H|exact H]. Qed.

Lemma R_poll_phase x : R x -> R (poll_phase x).
Proof.
  intros H. unfold poll_phase.
  set (y := match stage x, phases x with O, ops::r => do_ops ops (set_phases x r) | _, _ => x end).
  assert (R y) as Hy.
  { unfold y. destruct (stage x); [|exact H]. destruct (phases x); [exact H|]. apply R_do_ops. exact H. }
  clearbody y. cbv zeta.
  destruct (existsb (closed_registered y) (seq 0 (length (os y))) && negb (is_epoll (rk y))).
  - destruct (is_select (rk y)).
    + destruct (q_nonempty (ms y)); [apply R_stp; exact Hy|]. apply (R_stp LPollThrow y Hy).
    + apply R_fold; [intros z a Hz; apply R_mark_nval; exact Hz|]. apply R_stp. exact Hy.
  - destruct (pickall y && match choose y (filter (fd_ready y) (seq 0 (length (os y)))) with Some _ => true | None => false end);
      [apply R_stp; exact Hy|].
    destruct (choose y (filter (fd_ready y) (seq 0 (length (os y))))); [apply R_stp; exact Hy|].
    destruct (woken (ms y)); [apply R_stp; exact Hy|]. apply R_stp, R_nothing_ready. exact Hy.
Qed.

Lemma R_run_sim fuel x : R x -> R (fst (run_sim fuel x)).
Proof.
  revert x. induction fuel as [|n IH]; intros x H; cbn [run_sim]; [exact H|].
  destruct (lpc (ms x)).
  - destruct (Nat.eqb (stage x) 3); [exact H|].
    destruct (stop (ms x)).
    + destruct (stage x) as [|[|k]]; [| |exact H].
      * apply IH, R_stp. destruct (phases (stp LReset x)); [apply R_stp; exact H|apply R_do_ops, R_stp; exact H].
      * apply IH, R_stp. destruct (phases (stp LReset x)); [apply R_stp; exact H|apply R_do_ops, R_stp; exact H].
    + apply IH, R_stp. exact H.
  - apply IH, R_stp. destruct (running (ms x)) as [[h c|fd d h|fd]|]; try (apply R_stp; exact H).
    apply R_after_exec, R_stp. exact H.
  - apply IH, R_stp. exact H.
  - apply IH, R_poll_phase. exact H.
Qed.

Lemma R_run_script fuel r hi al nfd ph bd : R (fst (run_script fuel r hi al nfd ph bd)).
Proof.
  unfold run_script. cbv zeta. apply R_run_sim.
  assert (R (sim0 r hi al nfd ph bd)) as H0. { unfold R, sim0. cbn [ms]. apply reach_tick0. }
  destruct (phases (sim0 r hi al nfd ph bd)); [exact H0|]. apply R_do_ops. exact H0.
Qed.
