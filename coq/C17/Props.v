(* C17 -- every scheduled handler runs exactly once: posts, timers, I/O waits, pool jobs.
   Only property theorems here; proofs are in Proofs*.v.  The model (Defs.v) is the bookkeeping of
   booster::aio::event_loop_impl at lock granularity: [run_labels ls st0] is the state after ANY interleaving
   [ls] of critical sections executed by any number of threads (labels are total: a label that is not enabled,
   or that re-uses a handler id, is a no-op), so a statement quantified over [ls] holds for every schedule. *)
From CppcmsV Require Import Base.Tac C17.Defs C17.Proofs C17.Proofs2 C17.Proofs3 C17.Proofs4 C17.Proofs5 C17.Proofs6 C17.Proofs7.
Local Open Scope N_scope.

(* 1. conservation: every handler id ever accepted by post / set_io_event / set_timer_event occurs exactly once in
      {descriptor table, timer table, deferred setter or completion entry in the dispatch queue, entry held by the
       loop thread, log of invoked handlers, dropped by the API (double arm, reset)}; nothing else occurs there *)
Theorem conservation : forall ls h,
  let s := run_labels ls st0 in
  count_occ N.eq_dec (tokens s) h = count_occ N.eq_dec (map fst (subs s)) h /\
  (count_occ N.eq_dec (tokens s) h <= 1)%nat.
Proof. intros ls h s. pose proof (reach_Cons s (reach_run ls)) as C. split; [apply C|apply (Cons_le1 s h C)]. Qed.
Print Assumptions conservation.

(* corollary: no handler is invoked twice, whatever the threads do *)
Theorem at_most_once : forall ls, NoDup (log_toks (log (run_labels ls st0))).
Proof. intros ls. apply Cons_log_nodup, reach_Cons, reach_run. Qed.
Print Assumptions at_most_once.

(* only submitted handlers are invoked *)
Theorem invoked_only_if_submitted : forall ls h,
  In h (log_toks (log (run_labels ls st0))) -> In h (map fst (subs (run_labels ls st0))).
Proof. intros ls h. apply Cons_log_submitted, reach_Cons, reach_run. Qed.
Print Assumptions invoked_only_if_submitted.

(* a handler that is still registered / armed / queued has not been invoked yet (so e.g. a cancel that finds it
   registered is the one and only completion it will get) *)
Theorem pending_handler_not_yet_invoked : forall ls h,
  In h (pending_toks (run_labels ls st0)) -> ~ In h (log_toks (log (run_labels ls st0))).
Proof. intros ls h. apply Cons_pending_not_logged, reach_Cons, reach_run. Qed.
Print Assumptions pending_handler_not_yet_invoked.

(* exactly once: when nothing is pending any more (tables and queue empty, loop thread holds nothing) and the API
   contract was respected (nothing dropped by a double arm or by reset), the invoked handlers are exactly the
   submitted ones, each once *)
Theorem exactly_once_at_quiescence : forall ls,
  let s := run_labels ls st0 in
  pending_toks s = [] -> dropped s = [] ->
  forall h, In h (map fst (subs s)) <-> count_occ N.eq_dec (log_toks (log s)) h = 1%nat.
Proof. intros ls s P D h. apply (Cons_quiescent s (reach_Cons s (reach_run ls)) P D h). Qed.
Print Assumptions exactly_once_at_quiescence.

(* FINDING (refuted expectation): one would expect that a client which cancels before it arms a direction again never
   loses a handler.  The faithful model refutes it: thread A arms descriptor 0 with handler 2 while the loop polls
   (deferred setter); the loop wakes and starts a handler; now cancel_io_events(0) - from that handler or from any
   other thread, polling_ is false - is executed IN PLACE although the setter is still queued, finds nothing, and
   the following set_io_event(0) with handler 3 is executed in place as well; the queued setter then overwrites the
   registration: handler 3 is dropped and never invoked.  Replayed on the real io_service: corpus/C17/findings.case *)
Definition lost_demo : list label :=
  [LBegin; LPost 1 Ok; LSetIo 0 DIn 2 false; LPollEnd [] true; LBegin; LExec false; LCancelIo 0; LSetIo 0 DIn 3 false;
   LDone; LExec false; LDone; LCancelIo 0; LPollEnd [] true; LBegin; LExec false; LDone;
   LPollEnd [] false; LBegin; LExec false; LDone].
Theorem cancel_before_rearm_keeps_every_handler_refuted :
  exists ls, let s := run_labels ls st0 in
  (dropped s = [3] /\ pending_toks s = [] /\ log_toks (log s) = [1;2] /\ map fst (subs s) = [1;2;3])%type.
Proof. exists lost_demo. vm_compute. repeat split. Qed.
Print Assumptions cancel_before_rearm_keeps_every_handler_refuted.

(* 4. handlers are invoked only by the loop thread: the only step that extends the log is the exec step of run_one,
      and it invokes exactly the entry the loop thread popped, with the completion code stored in that entry *)
Theorem loop_thread_only : forall l s, log (step l s) <> log s -> exists se, l = LExec se.
Proof. exact log_step_only_exec. Qed.
Print Assumptions loop_thread_only.
Theorem exec_invokes_popped_entry : forall se s,
  log (step (LExec se) s) = log s \/
  exists h c, running s = Some (Run h c) /\ lpc s = Popped /\ log (step (LExec se) s) = log s ++ [(h,c,clock s)].
Proof. exact exec_logs_running. Qed.
Print Assumptions exec_invokes_popped_entry.

(* API contract: arming a direction that is still armed overwrites (drops) the earlier handler *)
Theorem double_arm_drops_first : forall fd h1 h2 s,
  (0 <= fd)%Z -> rd (fd_get (fdmap s) fd) = Some h1 -> dropped (do_setter fd DIn h2 false s) = h1 :: dropped s.
Proof. exact double_arm_drops. Qed.
Print Assumptions double_arm_drops_first.

(* the deterministic scheduler used for the correspondence run only ever takes model steps, so everything above
   holds for every script the harness replays against the real io_service *)
Theorem script_states_are_model_states : forall fuel r hi al nfd ph bd, reach (ms (fst (run_script fuel r hi al nfd ph bd))).
Proof. exact R_run_script. Qed.
Print Assumptions script_states_are_model_states.
Theorem script_at_most_once : forall fuel r hi al nfd ph bd,
  NoDup (log_toks (log (ms (fst (run_script fuel r hi al nfd ph bd))))).
Proof. intros. apply Cons_log_nodup, reach_Cons, R_run_script. Qed.
Print Assumptions script_at_most_once.

(* non-vacuity: thread A arms timer 1 and waits on descriptor 5 with handler 3 before the loop runs (deferred setter),
   thread B posts 2; the loop drains; A cancels the timer and the descriptor while the loop is polling; the loop wakes,
   executes the deferred canceler and invokes everything: log = 2 (ok), 1 (canceled), 3 (canceled), nothing pending *)
Definition demo : list label :=
  [LSetTimer 1 50; LSetIo 5 DIn 3 false; LPost 2 Ok; LBegin; LExec false; LDone; LExec false; LDone;
   LCancelTimer 1; LCancelIo 5; LPollEnd [] true; LBegin; LExec false; LDone; LExec false; LDone;
   LPollEnd [] true; LBegin; LExec false; LDone].
Example loop_nonvacuous :
  map fst (log (run_labels demo st0)) = [(2,Ok);(1,Canceled);(3,Canceled)] /\
  pending_toks (run_labels demo st0) = [] /\ dropped (run_labels demo st0) = [] /\
  map fst (subs (run_labels demo st0)) = [1;3;2].
Proof. vm_compute. repeat split. Qed.

(* 3 (progress, safety half). no lost wake-up: in every reachable state in which the loop thread is inside the reactor
   poll, polling_ is set (so every other thread defers and wakes), and if the dispatch queue is non-empty or stop was
   requested then the poll was started with timeout 0 or the self-pipe has been written since.  Liveness proper (the
   OS returns from poll when the pipe is readable / the timeout expires) is an assumption on the reactor. *)
Theorem no_lost_wakeup : forall ls,
  let s := run_labels ls st0 in
  (lpc s = Poll <-> polling s = true) /\ (lpc s = Poll -> (q_nonempty s = true -> timeout s = 0 \/ woken s = true) /\ (stop s = true -> woken s = true)).
Proof. intros ls. exact (Winv_run ls st0 Winv_init). Qed.
Print Assumptions no_lost_wakeup.
(* timer half of the wake-up invariant: while the loop thread is inside the reactor poll, the sleep it asked for
   (from pstart, for timeout ms) does not extend beyond the deadline of any armed timer, unless the self-pipe has
   been written (a timer armed or re-armed as the new earliest while polling wakes the loop) *)
Theorem no_sleep_past_a_deadline : forall ls,
  let s := run_labels ls st0 in
  lpc s = Poll -> forall dl h, In (dl,h) (timers s) -> woken s = true \/ pstart s + timeout s <= dl.
Proof. intros ls. exact (reach_TW _ (reach_run ls)). Qed.
Print Assumptions no_sleep_past_a_deadline.
Example sleep_nonvacuous :
  let s := run_labels [LSetTimer 1 40; LBegin; LTick 5; LSetTimer 2 60; LSetTimer 3 20] st0 in
  (lpc s = Poll /\ timeout s = 40 /\ pstart s = 0 /\ map fst (timers s) = [20;40;60] /\ woken s = true /\
   woken (run_labels [LSetTimer 1 40; LBegin; LTick 5; LSetTimer 2 60] st0) = false)%type.
Proof. vm_compute. repeat split. Qed.
(* progress_partial: what is NOT proved is one end-to-end liveness statement (under a fairness assumption on the loop
   thread and on the reactor, every handler whose event happened is eventually invoked); the safety ingredients are
   proved separately: no_lost_wakeup, no_sleep_past_a_deadline, due_timers_are_dispatched, only_loop_thread_pops,
   run_one_pops_front / _next / _budget_end *)
Example wakeup_nonvacuous :
  let s := run_labels [LBegin; LPost 7 Ok] st0 in (lpc s = Poll /\ q_nonempty s = true /\ timeout s = IDLE_MS /\ woken s = true)%type.
Proof. vm_compute. repeat split. Qed.

(* 2. codes: whatever the interleaving, a handler is invoked with a code allowed for the way it was submitted:
      post(h) / post(h,e): the posted code; timer: canceled, or success and then the (virtual) clock at the invocation
      is >= the deadline - never early; descriptor wait: EBADF iff the descriptor was invalid (< 0), else success /
      canceled / select_failed / the reactor's select error.  The time stamp never exceeds the current clock. *)
Theorem codes : forall ls h c t k,
  let s := run_labels ls st0 in
  In (h,c,t) (log s) -> In (h,k) (subs s) ->
  (match k with
   | KPost c0 => c = c0
   | KTimer dl => c = Canceled \/ (c = Ok /\ dl <= t)
   | KIo fd d => if Z.ltb fd 0 then c = EBadf else (c = Ok \/ c = Canceled \/ c = SelFailed \/ c = SelErr)
   end /\ t <= clock s)%type.
Proof. intros ls h c t k s L S. exact (codes_reach s h c t k (reach_run ls) L S). Qed.
Print Assumptions codes.
(* the cancel paths produce `canceled`: cancel_timer_event moves an armed timer into the queue with canceled (and the
   table shrinks by one), the canceler moves a registered reader into the queue with canceled and clears the slot *)
Theorem cancel_timer_queues_canceled : forall s h, t_mem (timers s) h = true ->
  In (Run h Canceled) (queue (step (LCancelTimer h) s)) /\
  length (timers (step (LCancelTimer h) s)) = pred (length (timers s)).
Proof. exact cancel_timer_effect. Qed.
Print Assumptions cancel_timer_queues_canceled.
Theorem canceler_queues_canceled : forall s fd h, (0 <= fd)%Z -> rd (fd_get (fdmap s) fd) = Some h ->
  In (Run h Canceled) (queue (do_canceler fd s)) /\ rd (fd_get (fdmap (do_canceler fd s)) fd) = None.
Proof. exact canceler_effect. Qed.
Print Assumptions canceler_queues_canceled.
Example codes_nonvacuous :
  let s := run_labels (LTick 20 :: demo) st0 in
  (log s = [(2,Ok,20);(1,Canceled,20);(3,Canceled,20)] /\ subs s = [(1,KTimer 50);(3,KIo 5 DIn);(2,KPost Ok)])%type.
Proof. vm_compute. split; reflexivity. Qed.

(* 3 (progress, continued). timers: in every reachable state the timer table is sorted, and when the loop thread reaches
   the timers stage without a stop request, every timer whose deadline is <= now is queued with success, the ones left
   are strictly in the future, and the loop goes on to poll *)
Theorem due_timers_are_dispatched : forall ls,
  let s := run_labels ls st0 in
  stop s = false ->
  ((forall d x, In (d,x) (timers s) -> d <= clock s -> In (Run x Ok) (queue (timers_stage s))) /\
   (forall p, In p (timers (timers_stage s)) -> clock s < fst p) /\ lpc (timers_stage s) = Poll)%type.
Proof. intros ls s ST. apply timers_stage_dispatches_due; [apply reach_S, reach_run|exact ST]. Qed.
Print Assumptions due_timers_are_dispatched.
(* drain: only the loop thread removes entries (pop of the front entry in run_one) and reset clears; every other step of
   every thread leaves the dispatch queue alone or appends to it - so an entry keeps its distance to the front until
   the loop thread pops what is before it; run_one pops the front entry while not stopped and while its budget
   (= queue length at its start) lasts, then goes to the timers stage *)
Theorem only_loop_thread_pops : forall l s, pops l = false -> exists q', queue (step l s) = queue s ++ q'.
Proof. exact others_only_append. Qed.
Print Assumptions only_loop_thread_pops.
Theorem run_one_pops_front : forall s e q, is_pc s Idle = true -> stop s = false -> queue s = e :: q ->
  let s' := step LBegin s in (running s' = Some e /\ queue s' = q /\ lpc s' = Popped /\ counter s' = S (length q))%type.
Proof. exact begin_pops_front. Qed.
Print Assumptions run_one_pops_front.
Theorem run_one_pops_next : forall s e q n, is_pc s Executed = true -> stop s = false -> queue s = e :: q -> counter s = S (S n) ->
  let s' := step LDone s in (running s' = Some e /\ queue s' = q /\ lpc s' = Popped /\ counter s' = S n)%type.
Proof. exact done_pops_next. Qed.
Print Assumptions run_one_pops_next.
Theorem run_one_budget_end : forall s, is_pc s Executed = true -> counter s = 1%nat ->
  step LDone s = timers_stage (set_counter s 0%nat).
Proof. exact done_last_goes_to_timers. Qed.
Print Assumptions run_one_budget_end.
Example timers_nonvacuous :
  let s := run_labels [LSetTimer 1 30; LSetTimer 2 10; LSetTimer 3 30; LTick 30] st0 in
  (map snd (timers s) = [2;1;3] /\ queue (timers_stage s) = [Run 2 Ok; Run 1 Ok; Run 3 Ok] /\ timers (timers_stage s) = [])%type.
Proof. vm_compute. repeat split. Qed.

(* 5. thread pool (src/thread_pool.cpp), for every interleaving [ls] of post / cancel / worker critical sections / job
      bodies / stop by any number of client threads and workers *)
Theorem job_at_most_once : forall ls, NoDup (plog (prun ls pool0)).
Proof. intros ls. apply pool_log_nodup, PCons_run, PCons_init. Qed.
Print Assumptions job_at_most_once.
Theorem cancel_true_iff_removed : forall ls id,
  let p := prun ls pool0 in
  ((snd (pstep (PCancel id) p) = 1 <-> exists j, In (id,j) (pq p)) /\
   (snd (pstep (PCancel id) p) = 1 \/ snd (pstep (PCancel id) p) = 0) /\
   (snd (pstep (PCancel id) p) = 1 -> exists j, In (id,j) (pq p) /\ pcan (fst (pstep (PCancel id) p)) = j :: pcan p))%type.
Proof. intros ls id p. destruct (cancel_result p id) as [A B]. split; [exact A|]. split; [exact B|apply cancel_true_moves]. Qed.
Print Assumptions cancel_true_iff_removed.
Theorem cancelled_job_never_runs : forall ls ls2 j,
  In j (pcan (prun ls pool0)) -> ~ In j (plog (prun ls2 (prun ls pool0))).
Proof.
  intros ls ls2 j I. apply pool_cancelled_not_run; [apply PCons_run, PCons_run, PCons_init|]. apply pcan_mono_run. exact I.
Qed.
Print Assumptions cancelled_job_never_runs.
Theorem exception_keeps_pool : forall p w exc,
  let p' := fst (pstep (PWorkerRun w exc) p) in
  (w_exited p' w = w_exited p w /\ (w_get (wjob p) w <> None -> w_get (wjob p') w = None) /\
   fst (pstep (PWorkerRun w exc) p) = fst (pstep (PWorkerRun w false) p))%type.
Proof. exact worker_survives. Qed.
Print Assumptions exception_keeps_pool.
Theorem pool_exactly_once_at_quiescence : forall ls,
  let p := prun ls pool0 in
  pq p = [] -> wjob_toks (wjob p) = [] ->
  forall j, In j (pposted p) <-> (count_occ N.eq_dec (plog p) j + count_occ N.eq_dec (pcan p) j = 1)%nat.
Proof. intros ls p Q W j. apply (pool_quiescent p (PCons_run ls pool0 PCons_init) Q W j). Qed.
Print Assumptions pool_exactly_once_at_quiescence.
(* non-vacuity: two client threads post 1,2,3; worker 0 takes 1; job 2 is cancelled (true), cancelling it again or cancelling
   the running job gives false; job 1 throws, the worker goes on and runs 3 *)
Definition pdemo : list plabel :=
  [PPost 1; PPost 2; PWorkerLock 0; PPost 3; PCancel 1; PCancel 1; PCancel 0; PWorkerRun 0 true; PWorkerLock 0; PWorkerRun 0 false; PWorkerLock 0].
Example pool_nonvacuous :
  plog (prun pdemo pool0) = [1;3] /\ pcan (prun pdemo pool0) = [2] /\ pq (prun pdemo pool0) = [] /\
  snd (pstep (PCancel 1) (prun [PPost 1; PPost 2; PWorkerLock 0; PPost 3] pool0)) = 1 /\
  snd (pstep (PCancel 0) (prun [PPost 1; PPost 2; PWorkerLock 0; PPost 3] pool0)) = 0.
Proof. vm_compute. repeat split. Qed.
