(* C17 -- every scheduled handler runs exactly once: posts, timers, I/O waits, pool jobs.
   Only property theorems here; proofs are in Proofs*.v.  The model (Defs.v) is the bookkeeping of
   booster::aio::event_loop_impl at lock granularity: [run_labels ls st0] is the state after ANY interleaving
   [ls] of critical sections executed by any number of threads (labels are total: a label that is not enabled,
   or that re-uses a handler id, is a no-op), so a statement quantified over [ls] holds for every schedule. *)
From CppcmsV Require Import Base.Tac C17.Defs C17.Proofs C17.Proofs2 C17.Proofs3 C17.Proofs4 C17.Proofs5 C17.Proofs6 C17.Proofs7 C17.Solo C17.Pool2 C17.CancelIo C17.CompDefs C17.Comp C17.Fair C17.Fair2 C17.Fair3 C17.PoolFair C17.ReactorDefs C17.Reactor C17.TimerObjDefs C17.TimerObj C17.DeviceDefs C17.Device.
Local Open Scope N_scope.

(* 1. conservation: every handler id ever accepted by post / set_io_event / set_timer_event occurs exactly once in
      {descriptor table, timer table, deferred setter or completion entry in the dispatch queue, entry held by the
       loop thread, log of invoked handlers, dropped by the API (double arm, reset)}; nothing else occurs there *)
Theorem conservation : forall ls h,
  let s := run_labels ls st0 in
  count_occ N.eq_dec (tokens s) h = count_occ N.eq_dec (map fst (subs s)) h /\
  (count_occ N.eq_dec (tokens s) h <= 1)%nat.
Proof. intros ls h s. pose proof (reach_Cons s (reach_run ls)) as C. split; [apply C|apply (Cons_le1 s h C)]. Qed.
Print Assumptions conservation.

(* corollary: no handler is invoked twice, whatever the threads do *)
Theorem at_most_once : forall ls, NoDup (log_toks (log (run_labels ls st0))).
Proof. intros ls. apply Cons_log_nodup, reach_Cons, reach_run. Qed.
Print Assumptions at_most_once.

(* only submitted handlers are invoked *)
Theorem invoked_only_if_submitted : forall ls h,
  In h (log_toks (log (run_labels ls st0))) -> In h (map fst (subs (run_labels ls st0))).
Proof. intros ls h. apply Cons_log_submitted, reach_Cons, reach_run. Qed.
Print Assumptions invoked_only_if_submitted.

(* a handler that is still registered / armed / queued has not been invoked yet (so e.g. a cancel that finds it
   registered is the one and only completion it will get) *)
Theorem pending_handler_not_yet_invoked : forall ls h,
  In h (pending_toks (run_labels ls st0)) -> ~ In h (log_toks (log (run_labels ls st0))).
Proof. intros ls h. apply Cons_pending_not_logged, reach_Cons, reach_run. Qed.
Print Assumptions pending_handler_not_yet_invoked.

(* exactly once: when nothing is pending any more (tables and queue empty, loop thread holds nothing) and the API
   contract was respected (nothing dropped by a double arm or by reset), the invoked handlers are exactly the
   submitted ones, each once *)
Theorem exactly_once_at_quiescence : forall ls,
  let s := run_labels ls st0 in
  pending_toks s = [] -> dropped s = [] ->
  forall h, In h (map fst (subs s)) <-> count_occ N.eq_dec (log_toks (log s)) h = 1%nat.
Proof. intros ls s P D h. apply (Cons_quiescent s (reach_Cons s (reach_run ls)) P D h). Qed.
Print Assumptions exactly_once_at_quiescence.

(* FINDING (refuted expectation): one would expect that a client which cancels before it arms a direction again never
   loses a handler.  The faithful model refutes it: thread A arms descriptor 0 with handler 2 while the loop polls
   (deferred setter); the loop wakes and starts a handler; now cancel_io_events(0) - from that handler or from any
   other thread, polling_ is false - is executed IN PLACE although the setter is still queued, finds nothing, and
   the following set_io_event(0) with handler 3 is executed in place as well; the queued setter then overwrites the
   registration: handler 3 is dropped and never invoked.  Replayed on the real io_service: corpus/C17/findings.case *)
Definition lost_demo : list label :=
  [LBegin; LPost 1 Ok; LSetIo 0 DIn 2 false; LPollEnd [] true; LBegin; LExec false; LCancelIo 0; LSetIo 0 DIn 3 false;
   LDone; LExec false; LDone; LCancelIo 0; LPollEnd [] true; LBegin; LExec false; LDone;
   LPollEnd [] false; LBegin; LExec false; LDone].
Theorem cancel_before_rearm_keeps_every_handler_refuted :
  exists ls, let s := run_labels ls st0 in
  (dropped s = [3] /\ pending_toks s = [] /\ log_toks (log s) = [1;2] /\ map fst (subs s) = [1;2;3])%type.
Proof. exists lost_demo. vm_compute. repeat split. Qed.
Print Assumptions cancel_before_rearm_keeps_every_handler_refuted.

(* 4. handlers are invoked only by the loop thread: the only step that extends the log is the exec step of run_one,
      and it invokes exactly the entry the loop thread popped, with the completion code stored in that entry *)
Theorem loop_thread_only : forall l s, log (step l s) <> log s -> exists se, l = LExec se.
Proof. exact log_step_only_exec. Qed.
Print Assumptions loop_thread_only.
Theorem exec_invokes_popped_entry : forall se s,
  log (step (LExec se) s) = log s \/
  exists h c, running s = Some (Run h c) /\ lpc s = Popped /\ log (step (LExec se) s) = log s ++ [(h,c,clock s)].
Proof. exact exec_logs_running. Qed.
Print Assumptions exec_invokes_popped_entry.

(* API contract: arming a direction that is still armed overwrites (drops) the earlier handler *)
Theorem double_arm_drops_first : forall fd h1 h2 s,
  (0 <= fd)%Z -> rd (fd_get (fdmap s) fd) = Some h1 -> dropped (do_setter fd DIn h2 false s) = h1 :: dropped s.
Proof. exact double_arm_drops. Qed.
Print Assumptions double_arm_drops_first.

(* the deterministic scheduler used for the correspondence run only ever takes model steps, so everything above
   holds for every script the harness replays against the real io_service *)
Theorem script_states_are_model_states : forall fuel r hi al nfd ph bd, reach (ms (fst (run_script fuel r hi al nfd ph bd))).
Proof. exact R_run_script. Qed.
Print Assumptions script_states_are_model_states.
Theorem script_at_most_once : forall fuel r hi al nfd ph bd,
  NoDup (log_toks (log (ms (fst (run_script fuel r hi al nfd ph bd))))).
Proof. intros. apply Cons_log_nodup, reach_Cons, R_run_script. Qed.
Print Assumptions script_at_most_once.

(* non-vacuity: thread A arms timer 1 and waits on descriptor 5 with handler 3 before the loop runs (deferred setter),
   thread B posts 2; the loop drains; A cancels the timer and the descriptor while the loop is polling; the loop wakes,
   executes the deferred canceler and invokes everything: log = 2 (ok), 1 (canceled), 3 (canceled), nothing pending *)
Definition demo : list label :=
  [LSetTimer 1 50; LSetIo 5 DIn 3 false; LPost 2 Ok; LBegin; LExec false; LDone; LExec false; LDone;
   LCancelTimer 1; LCancelIo 5; LPollEnd [] true; LBegin; LExec false; LDone; LExec false; LDone;
   LPollEnd [] true; LBegin; LExec false; LDone].
Example loop_nonvacuous :
  map fst (log (run_labels demo st0)) = [(2,Ok);(1,Canceled);(3,Canceled)] /\
  pending_toks (run_labels demo st0) = [] /\ dropped (run_labels demo st0) = [] /\
  map fst (subs (run_labels demo st0)) = [1;3;2].
Proof. vm_compute. repeat split. Qed.

(* 3 (progress, safety half). no lost wake-up: in every reachable state in which the loop thread is inside the reactor
   poll, polling_ is set (so every other thread defers and wakes), and if the dispatch queue is non-empty or stop was
   requested then the poll was started with timeout 0 or the self-pipe has been written since.  Liveness proper (the
   OS returns from poll when the pipe is readable / the timeout expires) is an assumption on the reactor. *)
Theorem no_lost_wakeup : forall ls,
  let s := run_labels ls st0 in
  (lpc s = Poll <-> polling s = true) /\ (lpc s = Poll -> (q_nonempty s = true -> timeout s = 0 \/ woken s = true) /\ (stop s = true -> woken s = true)).
Proof. intros ls. exact (Winv_run ls st0 Winv_init). Qed.
Print Assumptions no_lost_wakeup.
(* timer half of the wake-up invariant: while the loop thread is inside the reactor poll, the sleep it asked for
   (from pstart, for timeout ms) does not extend beyond the deadline of any armed timer, unless the self-pipe has
   been written (a timer armed or re-armed as the new earliest while polling wakes the loop) *)
Theorem no_sleep_past_a_deadline : forall ls,
  let s := run_labels ls st0 in
  lpc s = Poll -> forall dl h, In (dl,h) (timers s) -> woken s = true \/ pstart s + timeout s <= dl.
Proof. intros ls. exact (reach_TW _ (reach_run ls)). Qed.
Print Assumptions no_sleep_past_a_deadline.
Example sleep_nonvacuous :
  let s := run_labels [LSetTimer 1 40; LBegin; LTick 5; LSetTimer 2 60; LSetTimer 3 20] st0 in
  (lpc s = Poll /\ timeout s = 40 /\ pstart s = 0 /\ map fst (timers s) = [20;40;60] /\ woken s = true /\
   woken (run_labels [LSetTimer 1 40; LBegin; LTick 5; LSetTimer 2 60] st0) = false)%type.
Proof. vm_compute. repeat split. Qed.
(* 3 (progress, deterministic half).  [run_one_solo b s] (Solo.v) is one complete run_one executed by the loop thread while
   the other threads are quiet: LBegin, then LExec/LDone while an entry is popped (b = the reactor select() error bit given to
   deferred setters).  (i) every completion entry that is in the dispatch queue when a run_one starts is invoked by that
   run_one, with its stored code; (ii) a run_one that starts with a due timer in the table ends in the reactor poll with the
   timer handler queued with success and a zero poll timeout; (iii) hence from a polling loop with a due timer (e.g. one armed
   as the new earliest by another thread, which by no_sleep_past_a_deadline has written the self-pipe): whatever the poll
   reports, the run_one after the wake-up queues the handler and the following one invokes it with success *)
Theorem queued_handler_runs_in_next_run_one : forall b s h c,
  lpc s = Idle -> stop s = false -> In (Run h c) (queue s) -> In (h,c,clock s) (log (run_one_solo b s)).
Proof. exact solo_run_one_runs_queued. Qed.
Print Assumptions queued_handler_runs_in_next_run_one.
Theorem due_timer_queued_by_next_run_one : forall b ls dl h,
  let s := run_labels ls st0 in
  lpc s = Idle -> stop s = false -> In (dl,h) (timers s) -> dl <= clock s ->
  let s1 := run_one_solo b s in
  (In (Run h Ok) (queue s1) /\ lpc s1 = Poll /\ timeout s1 = 0 /\ stop s1 = false /\ clock s1 = clock s)%type.
Proof. intros b ls dl h s. exact (solo_run_one_dispatches_due b s dl h (reach_run ls)). Qed.
Print Assumptions due_timer_queued_by_next_run_one.
Theorem due_timer_fires_after_wakeup : forall b ls dl h evs intr evs2 intr2,
  let s := run_labels ls st0 in
  lpc s = Poll -> stop s = false -> In (dl,h) (timers s) -> dl <= clock s ->
  let s1 := run_one_solo b (step (LPollEnd evs intr) s) in
  let s2 := run_one_solo b (step (LPollEnd evs2 intr2) s1) in
  In (h,Ok,clock s) (log s2).
Proof. intros b ls dl h evs intr evs2 intr2 s. exact (solo_due_timer_fires b s dl h evs intr evs2 intr2 (reach_run ls)). Qed.
Print Assumptions due_timer_fires_after_wakeup.
Example timer_fires_nonvacuous :
  let s := run_labels [LSetTimer 1 40; LPost 9 Ok; LBegin; LExec false; LDone; LTick 5; LSetTimer 3 2] st0 in
  let s2 := run_one_solo false (step (LPollEnd [] true) (run_one_solo false (step (LPollEnd [] true) s))) in
  (lpc s = Poll /\ woken s = true /\ timeout s = 40 /\ map fst (log s2) = [(9,Ok);(3,Ok)] /\ map snd (timers s2) = [1])%type.
Proof. vm_compute. repeat split. Qed.
(* 3 (progress under interference).  [sched n ls] (Fair.v): a schedule in which the loop thread performs LBegin and then n times
   (LExec b; LDone), with any number of steps of other threads - post, set_io_event, cancel_io_events, set_timer_event,
   cancel_timer_event, time passing; everything except stop and reset - anywhere in between.  Whatever the other threads do
   meanwhile, a completion entry that is in the dispatch queue is invoked once the loop thread has started a run_one and executed
   as many entries as were in front of it plus one *)
Theorem queued_handler_runs_whatever_other_threads_do : forall s q1 h c q2 ls,
  lpc s = Idle -> stop s = false -> running s = None -> queue s = q1 ++ Run h c :: q2 ->
  sched (S (length q1)) ls -> exists t, In (h,c,t) (log (run_labels ls s)).
Proof. exact queued_handler_runs_despite_interference. Qed.
Print Assumptions queued_handler_runs_whatever_other_threads_do.
Example interference_nonvacuous :
  sched 2 [LSetIo 4 DIn 8 false; LBegin; LTick 3; LExec false; LCancelIo 4; LPost 9 Ok; LDone; LSetTimer 10 5; LExec false; LDone; LTick 1] /\
  map fst (log (run_labels [LSetIo 4 DIn 8 false; LBegin; LTick 3; LExec false; LCancelIo 4; LPost 9 Ok; LDone; LSetTimer 10 5; LExec false; LDone; LTick 1]
                           (run_labels [LPost 6 Ok; LPost 7 Canceled] st0))) = [(6,Ok);(7,Canceled)].
Proof.
  split; [|vm_compute; reflexivity].
  exists [LSetIo 4 DIn 8 false], [LTick 3; LExec false; LCancelIo 4; LPost 9 Ok; LDone; LSetTimer 10 5; LExec false; LDone; LTick 1].
  split; [reflexivity|]. split; [|reflexivity].
  apply (pairs_S 1 [LTick 3] false [LCancelIo 4; LPost 9 Ok] [LSetTimer 10 5; LExec false; LDone; LTick 1]); [reflexivity|reflexivity|].
  apply (pairs_S 0 [LSetTimer 10 5] false [] [LTick 1]); [reflexivity|reflexivity|]. apply pairs_O. reflexivity.
Qed.
(* the same for timers (Fair2.v): [pairs_but h n rest] = n times (LExec b; LDone) with steps of other threads in between - everything
   except stop, reset and the cancel of timer h itself.  (i) The run_one that starts while timer h is due - whatever the other
   threads do during it - ends in the reactor poll with the handler of h queued with success; (ii) whatever that poll reports, the
   handler is then invoked once the loop thread has executed the entries in front of it, again under arbitrary interference *)
Theorem due_timer_is_dispatched_whatever_other_threads_do : forall ls0 dl h rest,
  let s := run_labels ls0 st0 in
  lpc s = Idle -> stop s = false -> In (dl,h) (timers s) -> dl <= clock s ->
  pairs_but h (length (queue s)) rest ->
  let s1 := run_labels ([LBegin] ++ rest) s in
  (In (Run h Ok) (queue s1) /\ lpc s1 = Poll /\ stop s1 = false)%type.
Proof. intros ls0 dl h rest s. exact (due_timer_dispatched_despite_interference s dl h rest (reach_run ls0)). Qed.
Print Assumptions due_timer_is_dispatched_whatever_other_threads_do.
Theorem due_timer_runs_whatever_other_threads_do : forall ls0 dl h rest evs intr ls2,
  let s := run_labels ls0 st0 in
  lpc s = Idle -> stop s = false -> In (dl,h) (timers s) -> dl <= clock s ->
  pairs_but h (length (queue s)) rest ->
  let s1 := run_labels ([LBegin] ++ rest) s in
  let s2 := step (LPollEnd evs intr) s1 in
  (exists q1 q2, queue s2 = q1 ++ Run h Ok :: q2 /\ sched (S (length q1)) ls2) ->
  exists t, In (h,Ok,t) (log (run_labels ls2 s2)).
Proof. intros ls0 dl h rest evs intr ls2 s. exact (due_timer_runs_despite_interference s dl h rest evs intr ls2 (reach_run ls0)). Qed.
Print Assumptions due_timer_runs_whatever_other_threads_do.
Example timer_interference_nonvacuous :
  let s := run_labels [LSetTimer 1 40; LPost 9 Ok; LTick 50] st0 in
  (pairs_but 1 (length (queue s)) [LTick 3; LCancelTimer 8; LExec false; LSetTimer 7 5; LDone; LPost 4 Ok] /\
   queue (run_labels ([LBegin] ++ [LTick 3; LCancelTimer 8; LExec false; LSetTimer 7 5; LDone; LPost 4 Ok]) s) = [Run 7 Ok; Run 1 Ok; Run 4 Ok])%type.
Proof.
  split; [|vm_compute; reflexivity].
  apply (pairs_but_S 1 0 [LTick 3; LCancelTimer 8] false [LSetTimer 7 5] [LPost 4 Ok]); [reflexivity|reflexivity|]. apply pairs_but_O. reflexivity.
Qed.
(* progress_partial: what is NOT proved is one end-to-end liveness statement under a fairness assumption with the other
   threads still running that also covers descriptor waits and the OS side (every handler whose event happened is
   eventually invoked): queued_handler_runs_whatever_other_threads_do covers entries already in the dispatch queue,
   due_timer_*_whatever_other_threads_do due timers; the cancel_io progress theorems are for a loop thread that is not
   disturbed during the two run_one calls; the interleaving-robust ingredients are proved separately: no_lost_wakeup, no_sleep_past_a_deadline, due_timers_are_dispatched, only_loop_thread_pops,
   run_one_pops_front / _next / _budget_end *)
Example wakeup_nonvacuous :
  let s := run_labels [LBegin; LPost 7 Ok] st0 in (lpc s = Poll /\ q_nonempty s = true /\ timeout s = IDLE_MS /\ woken s = true)%type.
Proof. vm_compute. repeat split. Qed.

(* 2. codes: whatever the interleaving, a handler is invoked with a code allowed for the way it was submitted:
      post(h) / post(h,e): the posted code; timer: canceled, or success and then the (virtual) clock at the invocation
      is >= the deadline - never early; descriptor wait: EBADF iff the descriptor was invalid (< 0), else success /
      canceled / select_failed / the reactor's select error.  The time stamp never exceeds the current clock. *)
Theorem codes : forall ls h c t k,
  let s := run_labels ls st0 in
  In (h,c,t) (log s) -> In (h,k) (subs s) ->
  (match k with
   | KPost c0 => c = c0
   | KTimer dl => c = Canceled \/ (c = Ok /\ dl <= t)
   | KIo fd d => if Z.ltb fd 0 then c = EBadf else (c = Ok \/ c = Canceled \/ c = SelFailed \/ c = SelErr)
   end /\ t <= clock s)%type.
Proof. intros ls h c t k s L S. exact (codes_reach s h c t k (reach_run ls) L S). Qed.
Print Assumptions codes.
(* the cancel paths produce `canceled`: cancel_timer_event moves an armed timer into the queue with canceled (and the
   table shrinks by one), the canceler moves a registered reader into the queue with canceled and clears the slot *)
Theorem cancel_timer_queues_canceled : forall s h, t_mem (timers s) h = true ->
  In (Run h Canceled) (queue (step (LCancelTimer h) s)) /\
  length (timers (step (LCancelTimer h) s)) = pred (length (timers s)).
Proof. exact cancel_timer_effect. Qed.
Print Assumptions cancel_timer_queues_canceled.
Theorem canceler_queues_canceled : forall s fd h, (0 <= fd)%Z -> rd (fd_get (fdmap s) fd) = Some h ->
  In (Run h Canceled) (queue (do_canceler fd s)) /\ rd (fd_get (fdmap (do_canceler fd s)) fd) = None.
Proof. exact canceler_effect. Qed.
Print Assumptions canceler_queues_canceled.
Example codes_nonvacuous :
  let s := run_labels (LTick 20 :: demo) st0 in
  (log s = [(2,Ok,20);(1,Canceled,20);(3,Canceled,20)] /\ subs s = [(1,KTimer 50);(3,KIo 5 DIn);(2,KPost Ok)])%type.
Proof. vm_compute. split; reflexivity. Qed.

(* 3 (progress, continued). timers: in every reachable state the timer table is sorted, and when the loop thread reaches
   the timers stage without a stop request, every timer whose deadline is <= now is queued with success, the ones left
   are strictly in the future, and the loop goes on to poll *)
Theorem due_timers_are_dispatched : forall ls,
  let s := run_labels ls st0 in
  stop s = false ->
  ((forall d x, In (d,x) (timers s) -> d <= clock s -> In (Run x Ok) (queue (timers_stage s))) /\
   (forall p, In p (timers (timers_stage s)) -> clock s < fst p) /\ lpc (timers_stage s) = Poll)%type.
Proof. intros ls s ST. apply timers_stage_dispatches_due; [apply reach_S, reach_run|exact ST]. Qed.
Print Assumptions due_timers_are_dispatched.
(* drain: only the loop thread removes entries (pop of the front entry in run_one) and reset clears; every other step of
   every thread leaves the dispatch queue alone or appends to it - so an entry keeps its distance to the front until
   the loop thread pops what is before it; run_one pops the front entry while not stopped and while its budget
   (= queue length at its start) lasts, then goes to the timers stage *)
Theorem only_loop_thread_pops : forall l s, pops l = false -> exists q', queue (step l s) = queue s ++ q'.
Proof. exact others_only_append. Qed.
Print Assumptions only_loop_thread_pops.
Theorem run_one_pops_front : forall s e q, is_pc s Idle = true -> stop s = false -> queue s = e :: q ->
  let s' := step LBegin s in (running s' = Some e /\ queue s' = q /\ lpc s' = Popped /\ counter s' = S (length q))%type.
Proof. exact begin_pops_front. Qed.
Print Assumptions run_one_pops_front.
Theorem run_one_pops_next : forall s e q n, is_pc s Executed = true -> stop s = false -> queue s = e :: q -> counter s = S (S n) ->
  let s' := step LDone s in (running s' = Some e /\ queue s' = q /\ lpc s' = Popped /\ counter s' = S n)%type.
Proof. exact done_pops_next. Qed.
Print Assumptions run_one_pops_next.
Theorem run_one_budget_end : forall s, is_pc s Executed = true -> counter s = 1%nat ->
  step LDone s = timers_stage (set_counter s 0%nat).
Proof. exact done_last_goes_to_timers. Qed.
Print Assumptions run_one_budget_end.
Example timers_nonvacuous :
  let s := run_labels [LSetTimer 1 30; LSetTimer 2 10; LSetTimer 3 30; LTick 30] st0 in
  (map snd (timers s) = [2;1;3] /\ queue (timers_stage s) = [Run 2 Ok; Run 1 Ok; Run 3 Ok] /\ timers (timers_stage s) = [])%type.
Proof. vm_compute. repeat split. Qed.

(* 5. thread pool (src/thread_pool.cpp), for every interleaving [ls] of post / cancel / worker critical sections / job
      bodies / stop by any number of client threads and workers *)
Theorem job_at_most_once : forall ls, NoDup (plog (prun ls pool0)).
Proof. intros ls. apply pool_log_nodup, PCons_run, PCons_init. Qed.
Print Assumptions job_at_most_once.
Theorem cancel_true_iff_removed : forall ls id,
  let p := prun ls pool0 in
  ((snd (pstep (PCancel id) p) = 1 <-> exists j, In (id,j) (pq p)) /\
   (snd (pstep (PCancel id) p) = 1 \/ snd (pstep (PCancel id) p) = 0) /\
   (snd (pstep (PCancel id) p) = 1 -> exists j, In (id,j) (pq p) /\ pcan (fst (pstep (PCancel id) p)) = j :: pcan p))%type.
Proof. intros ls id p. destruct (cancel_result p id) as [A B]. split; [exact A|]. split; [exact B|apply cancel_true_moves]. Qed.
Print Assumptions cancel_true_iff_removed.
Theorem cancelled_job_never_runs : forall ls ls2 j,
  In j (pcan (prun ls pool0)) -> ~ In j (plog (prun ls2 (prun ls pool0))).
Proof.
  intros ls ls2 j I. apply pool_cancelled_not_run; [apply PCons_run, PCons_run, PCons_init|]. apply pcan_mono_run. exact I.
Qed.
Print Assumptions cancelled_job_never_runs.
Theorem exception_keeps_pool : forall p w exc,
  let p' := fst (pstep (PWorkerRun w exc) p) in
  (w_exited p' w = w_exited p w /\ (w_get (wjob p) w <> None -> w_get (wjob p') w = None) /\
   fst (pstep (PWorkerRun w exc) p) = fst (pstep (PWorkerRun w false) p))%type.
Proof. exact worker_survives. Qed.
Print Assumptions exception_keeps_pool.
Theorem pool_exactly_once_at_quiescence : forall ls,
  let p := prun ls pool0 in
  pq p = [] -> wjob_toks (wjob p) = [] ->
  forall j, In j (pposted p) <-> (count_occ N.eq_dec (plog p) j + count_occ N.eq_dec (pcan p) j = 1)%nat.
Proof. intros ls p Q W j. apply (pool_quiescent p (PCons_run ls pool0 PCons_init) Q W j). Qed.
Print Assumptions pool_exactly_once_at_quiescence.
(* 5b. stop(), exceptions, post after stop.  stop() = the critical section PStop (shut_down_ = true, notify_all) followed by the join
       of every worker; a worker returns (is joinable) only through the shut_down_ test at the top of its locked section. *)
(* a job body that was dequeued runs, whether or not it throws and whether or not stop() has been called meanwhile *)
Theorem dequeued_job_runs_whatever_happens : forall p w j exc,
  w_get (wjob p) w = Some j -> plog (fst (pstep (PWorkerRun w exc) p)) = plog p ++ [j].
Proof. exact dequeued_job_runs. Qed.
Print Assumptions dequeued_job_runs_whatever_happens.
(* a job that ran - thrown or not - is never run again, in any continuation by any number of threads *)
Theorem thrown_job_is_not_rerun : forall ls w j exc,
  let p := prun ls pool0 in
  w_get (wjob p) w = Some j -> forall ls2, count_occ N.eq_dec (plog (prun ls2 (fst (pstep (PWorkerRun w exc) p)))) j = 1%nat.
Proof. intros ls w j exc p H. apply thrown_job_not_rerun; [apply PCons_run, PCons_init|exact H]. Qed.
Print Assumptions thrown_job_is_not_rerun.
(* exceptions do not stop the pool: a worker that is left alone with a running pool takes every queued job in FIFO order and
   runs it, whichever of the job bodies throw ([excs] is arbitrary) *)
Theorem running_pool_runs_every_queued_job_fifo : forall excs w p,
  shut p = false -> w_exited p w = false -> w_get (wjob p) w = None -> length excs = length (pq p) ->
  (plog (worker_solo excs w p) = plog p ++ map snd (pq p) /\ pq (worker_solo excs w p) = [] /\ w_exited (worker_solo excs w p) w = false)%type.
Proof. exact running_pool_runs_every_queued_job. Qed.
Print Assumptions running_pool_runs_every_queued_job_fifo.
(* after stop()'s critical section no worker dequeues anything; what is queued then, or posted later, never runs *)
Theorem nothing_is_dequeued_after_stop : forall ls ls2 w,
  let p := prun ls2 (fst (pstep PStop (prun ls pool0))) in
  (snd (pstep (PWorkerLock w) p) = 0 /\ pq (fst (pstep (PWorkerLock w) p)) = pq p /\ wjob (fst (pstep (PWorkerLock w) p)) = wjob p /\
   plog (fst (pstep (PWorkerLock w) p)) = plog p)%type.
Proof. intros ls ls2 w p. apply no_dequeue_after_shutdown. apply shutdown_is_permanent. reflexivity. Qed.
Print Assumptions nothing_is_dequeued_after_stop.
Theorem job_queued_at_stop_never_runs : forall ls j,
  let p := fst (pstep PStop (prun ls pool0)) in
  In j (map snd (pq p)) -> forall ls2, ~ In j (plog (prun ls2 p)).
Proof.
  intros ls j p I. apply queued_at_shutdown_never_runs; [apply (PCons_step PStop), PCons_run, PCons_init|reflexivity|exact I].
Qed.
Print Assumptions job_queued_at_stop_never_runs.
Theorem job_posted_after_stop_never_runs : forall ls ls1 j,
  let p := prun ls1 (fst (pstep PStop (prun ls pool0))) in
  pfresh j p = true -> forall ls2, ~ In j (plog (prun (PPost j :: ls2) p)).
Proof.
  intros ls ls1 j p F. apply posted_after_shutdown_never_runs; [apply PCons_run, (PCons_step PStop), PCons_run, PCons_init| |exact F].
  apply shutdown_is_permanent. reflexivity.
Qed.
Print Assumptions job_posted_after_stop_never_runs.
(* stop() returns only after the running jobs have finished: it returns when every worker of the pool ([ws] = workers_) has been
   joined, i.e. has returned from worker(); then stop was requested, no worker holds a job, and as long as only these workers
   exist nothing ever runs afterwards, whatever is posted *)
Theorem stop_returns_only_after_running_jobs_finished : forall ls ws,
  let p := prun ls pool0 in
  (forall w, In w ws -> w_exited p w = true) ->
  ((forall w, In w ws -> w_get (wjob p) w = None /\ shut p = true) /\
   (forall ls2, (forall w, In (PWorkerLock w) ls2 -> In w ws) -> (forall w e, In (PWorkerRun w e) ls2 -> In w ws) -> plog (prun ls2 p) = plog p))%type.
Proof.
  intros ls ws p E. destruct (stop_returns_after_running_jobs ls ws E) as [A B]. split; [|exact B].
  intros w I. exact (exited_worker_holds_nothing ls w (E w I)).
Qed.
Print Assumptions stop_returns_only_after_running_jobs_finished.
(* exactly once under interference (PoolFair.v): [wpairs i w n ls] = worker w performs n times (PWorkerLock w; PWorkerRun w e) with
   steps of client threads anywhere in between - posts of anything, cancels of any id except i; no stop.  Whatever the clients
   do meanwhile, the job with id i is run after the worker has taken the jobs in front of it (cancels in front only shorten the
   wait); with job_at_most_once: exactly once *)
Theorem queued_job_runs_whatever_clients_do : forall p w q1 i j q2 ls,
  shut p = false -> w_exited p w = false -> w_get (wjob p) w = None ->
  pq p = q1 ++ (i,j) :: q2 -> wpairs i w (S (length q1)) ls -> In j (plog (prun ls p)).
Proof. exact queued_job_runs_despite_interference. Qed.
Print Assumptions queued_job_runs_whatever_clients_do.
Example pool_interference_nonvacuous :
  wpairs 1 0 2 [PPost 7; PWorkerLock 0; PCancel 5; PWorkerRun 0 true; PPost 8; PWorkerLock 0; PWorkerRun 0 false; PCancel 0] /\
  plog (prun [PPost 7; PWorkerLock 0; PCancel 5; PWorkerRun 0 true; PPost 8; PWorkerLock 0; PWorkerRun 0 false; PCancel 0]
             (prun [PPost 1; PPost 2] pool0)) = [1;2].
Proof.
  split; [|vm_compute; reflexivity].
  apply (wpairs_S 1 0 1 [PPost 7] true [PCancel 5] [PPost 8; PWorkerLock 0; PWorkerRun 0 false; PCancel 0]); [reflexivity|reflexivity|].
  apply (wpairs_S 1 0 0 [PPost 8] false [] [PCancel 0]); [reflexivity|reflexivity|]. apply wpairs_O. reflexivity.
Qed.
(* non-vacuity: job 1 is running when stop is called with 2 queued behind it; 3 is posted afterwards; the body of 1 still runs
   (and throws), the worker then returns; 2 and 3 never run; only then may stop() return *)
Definition sdemo : list plabel := [PPost 1; PPost 2; PWorkerLock 0; PStop; PPost 3; PWorkerRun 0 true; PWorkerLock 0; PWorkerLock 0; PWorkerRun 0 false].
Example stop_nonvacuous :
  plog (prun sdemo pool0) = [1] /\ map snd (pq (prun sdemo pool0)) = [2;3] /\ w_exited (prun sdemo pool0) 0 = true /\
  w_exited (prun [PPost 1; PPost 2; PWorkerLock 0; PStop; PPost 3] pool0) 0 = false /\
  w_get (wjob (prun [PPost 1; PPost 2; PWorkerLock 0; PStop; PPost 3] pool0)) 0 = Some 1 /\
  plog (worker_solo [true;false;true] 0 (prun [PPost 1; PPost 2; PPost 3] pool0)) = [1;2;3].
Proof. vm_compute. repeat split. Qed.
(* non-vacuity: two client threads post 1,2,3; worker 0 takes 1; job 2 is cancelled (true), cancelling it again or cancelling
   the running job gives false; job 1 throws, the worker goes on and runs 3 *)
Definition pdemo : list plabel :=
  [PPost 1; PPost 2; PWorkerLock 0; PPost 3; PCancel 1; PCancel 1; PCancel 0; PWorkerRun 0 true; PWorkerLock 0; PWorkerRun 0 false; PWorkerLock 0].
Example pool_nonvacuous :
  plog (prun pdemo pool0) = [1;3] /\ pcan (prun pdemo pool0) = [2] /\ pq (prun pdemo pool0) = [] /\
  snd (pstep (PCancel 1) (prun [PPost 1; PPost 2; PWorkerLock 0; PPost 3] pool0)) = 1 /\
  snd (pstep (PCancel 0) (prun [PPost 1; PPost 2; PWorkerLock 0; PPost 3] pool0)) = 0.
Proof. vm_compute. repeat split. Qed.

(* 6. descriptor waits: cancel and close.  basic_io_device::close() is cancel() followed by ::close(fd) (rigid text tie in
      checks/C17.py), so the statements about cancel_io_events cover close() of a descriptor with armed handlers. *)
(* the canceler completes BOTH armed directions with `canceled`, reader first, and empties the slot *)
Theorem canceler_completes_both_directions : forall s fd hr hw,
  (0 <= fd)%Z -> rd (fd_get (fdmap s) fd) = Some hr -> wr (fd_get (fdmap s) fd) = Some hw ->
  queue (do_canceler fd s) = queue s ++ [Run hr Canceled; Run hw Canceled] /\ fd_get (fdmap (do_canceler fd s)) fd = iod0.
Proof. exact canceler_queues_both. Qed.
Print Assumptions canceler_completes_both_directions.
(* cancel_io_events(fd) issued while the loop thread is between two run_one calls (by any thread, or before run()): a registered
   reader / writer h is invoked with `canceled` by the next run_one when the cancel ran in place (a reactor exists) and by the one
   after it when the cancel was deferred (no reactor yet); by at_most_once it is invoked exactly once *)
Theorem cancel_io_invokes_armed_reader_with_canceled : forall b i ls fd h,
  let s := run_labels ls st0 in
  lpc s = Idle -> stop s = false -> queue s = [] -> (0 <= fd)%Z -> rd (fd_get (fdmap s) fd) = Some h ->
  let s1 := step (LCancelIo fd) s in
  let s2 := run_one_solo b s1 in
  let s3 := run_one_solo b (step (LPollEnd [] i) s2) in
  In (h, Canceled, clock s) (log s2) \/ In (h, Canceled, clock s) (log s3).
Proof. intros b i ls fd h s. exact (cancel_io_invokes_reader b i s fd h (reach_run ls)). Qed.
Print Assumptions cancel_io_invokes_armed_reader_with_canceled.
Theorem cancel_io_invokes_armed_writer_with_canceled : forall b i ls fd h,
  let s := run_labels ls st0 in
  lpc s = Idle -> stop s = false -> queue s = [] -> (0 <= fd)%Z -> wr (fd_get (fdmap s) fd) = Some h ->
  let s1 := step (LCancelIo fd) s in
  let s2 := run_one_solo b s1 in
  let s3 := run_one_solo b (step (LPollEnd [] i) s2) in
  In (h, Canceled, clock s) (log s2) \/ In (h, Canceled, clock s) (log s3).
Proof. intros b i ls fd h s. exact (cancel_io_invokes_writer b i s fd h (reach_run ls)). Qed.
Print Assumptions cancel_io_invokes_armed_writer_with_canceled.
(* under interference: cancel_io_events executed in place (a reactor exists, the loop thread is between two run_one calls) queues
   the registered reader with canceled behind the entries already queued; whatever the other threads do afterwards (everything except
   stop / reset) it is invoked with canceled once the loop thread has executed those entries *)
Theorem cancel_in_place_runs_whatever_other_threads_do : forall ls0 fd h ls,
  let s := run_labels ls0 st0 in
  lpc s = Idle -> stop s = false -> reactor s = true -> (0 <= fd)%Z -> rd (fd_get (fdmap s) fd) = Some h ->
  sched (S (length (queue s))) ls ->
  exists t, In (h, Canceled, t) (log (run_labels ls (step (LCancelIo fd) s))).
Proof. intros ls0 fd h ls s. exact (cancel_in_place_runs_despite_interference s fd h ls (reach_run ls0)). Qed.
Print Assumptions cancel_in_place_runs_whatever_other_threads_do.
Example cancel_io_nonvacuous :
  let s := run_labels [LSetIo 5 DIn 1 false; LSetIo 5 DOut 2 false; LBegin; LExec false; LDone; LExec false; LDone; LPollEnd [] false] st0 in
  (lpc s = Idle /\ queue s = [] /\ rd (fd_get (fdmap s) 5) = Some 1 /\ wr (fd_get (fdmap s) 5) = Some 2 /\
   map fst (log (run_one_solo false (step (LCancelIo 5) s))) = [(1,Canceled);(2,Canceled)])%type.
Proof. vm_compute. repeat split. Qed.

(* 7. composite operations built on set_io_event: stream_socket::async_read_some / async_write_some with their internal handlers
      reader_some / writer_some (CompDefs.v: a layer over the loop model; [crun ls cst0] = any interleaving of Layer A steps of any
      thread, starts of composite operations - completed at once through post(h,e,n), or waiting - and exec steps in which the
      internal handler, after a successful wait, completes the user handler or waits again).  The user handler is called at most once;
      exactly once when nothing is pending and nothing was dropped; with the error of the wait when the wait failed (cancel, close,
      select_failed, EBADF); only if the operation was started.  The Layer A state underneath is a reachable loop state, so all the
      theorems above apply to the internal tokens. *)
Theorem composite_states_are_loop_states : forall ls, reach (base (crun ls cst0)).
Proof. exact cbase_reach. Qed.
Print Assumptions composite_states_are_loop_states.
Theorem user_handler_at_most_once : forall ls, NoDup (map fst (ulog (crun ls cst0))).
Proof. exact user_at_most_once. Qed.
Print Assumptions user_handler_at_most_once.
Theorem user_handler_exactly_once_at_quiescence : forall ls,
  let c := crun ls cst0 in
  pending_toks (base c) = [] -> dropped (base c) = [] ->
  forall u, In u (ustarted c) <-> count_occ N.eq_dec (map fst (ulog c)) u = 1%nat.
Proof. exact user_exactly_once_at_quiescence. Qed.
Print Assumptions user_handler_exactly_once_at_quiescence.
Theorem user_handler_gets_the_error_of_a_failed_wait : forall se r c t cd u,
  lpc (base c) = Popped -> running (base c) = Some (Run t cd) -> cd <> Ok ->
  assoc (owner c) t = Some u -> assoc (cimmed c) t = None -> ulog (cstep (CExec se r) c) = ulog c ++ [(u, codenum cd)].
Proof. exact user_gets_wait_error. Qed.
Print Assumptions user_handler_gets_the_error_of_a_failed_wait.
Theorem user_handler_only_if_started : forall ls u n, In (u,n) (ulog (crun ls cst0)) -> In u (ustarted (crun ls cst0)).
Proof. exact user_only_if_started. Qed.
Print Assumptions user_handler_only_if_started.
(* non-vacuity: read 1 completes at once (data: code 0); read 2 would block, waits with token 11, is woken spuriously and waits again
   with token 12, which is then cancelled: the user handler gets canceled (1); write 3 waits with token 13 and completes with eof-like
   code 5 after a successful wait.  Every user handler once; nothing pending. *)
Definition cdemo : list clabel :=
  [CL LBegin; CStartPost 1 10 0; CStartWait 2 11 7 DIn false; CL (LPollEnd [] true); CL LBegin; CExec false (CDone 0); CL LDone;
   CExec false (CDone 0); CL LDone; CL (LPollEnd [mkEv 7 true false false false] false); CL LBegin;
   CExec false (CAgain 12 7 DIn false); CL LDone; CStartWait 3 13 8 DOut false; CL (LCancelIo 7); CL (LPollEnd [] true); CL LBegin;
   CExec false (CDone 0); CL LDone; CExec false (CDone 0); CL LDone; CL (LPollEnd [mkEv 8 false true false false] false); CL LBegin;
   CExec false (CDone 0); CL LDone; CExec false (CDone 5); CL LDone].
Example composite_nonvacuous :
  let c := crun cdemo cst0 in
  (ulog c = [(1,0);(2,1);(3,5)] /\ ustarted c = [3;2;1] /\ pending_toks (base c) = [] /\ dropped (base c) = [] /\
   log_toks (log (base c)) = [10;11;12;13])%type.
Proof. vm_compute. repeat split. Qed.

(* 8. the reactor layer (reactor.cpp: epoll / poll / select back-ends; ReactorDefs.v) over an OS model in which descriptor NUMBERS are
      reused lowest-free-first and close() silently drops the epoll registration.  [rrun false ls (rst0 b)] = any sequence of
      select(fd,flags<>0) on open descriptors whose queued remove (if any) has run, remove(fd), close(fd) by anybody, open().
      The reactor table always equals the kernel-side interest for every open descriptor and holds nothing for closed numbers (after
      their remove), the kernel holds no registration for a closed number; hence arming a descriptor - in particular a REUSED number -
      always produces the requested kernel-side interest, without error, even when the remove of the old descriptor failed with EBADF
      because the descriptor had been closed first.  The variant that returns before updating the table when epoll_ctl failed is refuted. *)
Theorem reactor_table_is_coherent : forall b ls, Coh (rrun false ls (rst0 b)).
Proof. exact coh_invariant. Qed.
Print Assumptions reactor_table_is_coherent.
Theorem arming_an_open_descriptor_registers_it : forall b ls fd m,
  let s := rrun false ls (rst0 b) in
  (m <> 0)%Z -> zmem (opened s) fd = true -> zmem (pend s) fd = false ->
  let s2 := rstep false (RArm fd m) s in (interest s2 fd = m /\ lasterr s2 = 0%Z)%type.
Proof. exact arming_registers. Qed.
Print Assumptions arming_an_open_descriptor_registers_it.
Theorem closed_then_reused_number_is_registered : forall b ls fd m m2,
  let s := rrun false ls (rst0 b) in
  (m <> 0)%Z -> (m2 <> 0)%Z -> zmem (opened s) fd = true -> zmem (pend s) fd = false ->
  let s1 := rstep false (RArm fd m) s in
  let s2 := rstep false (OClose fd) s1 in
  let s3 := rstep false (RRemove fd) s2 in
  let s4 := rstep false OOpen s3 in
  zmem (opened s4) fd = true ->
  let s5 := rstep false (RArm fd m2) s4 in
  ((b = BEpoll -> lasterr s3 = 9%Z) /\ interest s5 fd = m2 /\ lasterr s5 = 0%Z)%type.
Proof. exact reuse_scenario. Qed.
Print Assumptions closed_then_reused_number_is_registered.
Theorem no_kernel_registration_for_a_closed_number : forall b ls fd,
  let s := rrun false ls (rst0 b) in zmem (opened s) fd = false -> zget (kreg s) fd = 0%Z.
Proof. exact no_registration_for_closed. Qed.
Print Assumptions no_kernel_registration_for_a_closed_number.
Theorem stale_table_variant_refuted : exists ls fd m,
  let s := rrun true ls (rst0 BEpoll) in
  (zmem (opened s) fd = true /\ zmem (pend s) fd = false /\ interest (rstep true (RArm fd m) s) fd = 0%Z /\ (m <> 0)%Z /\
   lasterr (rstep true (RArm fd m) s) = 0%Z)%type.
Proof. exact stale_variant_refuted. Qed.
Print Assumptions stale_table_variant_refuted.
Example reactor_nonvacuous :
  let s := rrun false [OOpen; OOpen; RArm 1 1; OClose 1; RRemove 1; OOpen] (rst0 BEpoll) in
  (zmem (opened s) 1 = true /\ zmem (pend s) 1 = false /\ lasterr s = 9 /\ interest (rstep false (RArm 1 1) s) 1 = 1 /\
   interest (rstep true (RArm 1 1) (rrun true [OOpen; OOpen; RArm 1 1; OClose 1; RRemove 1; OOpen] (rst0 BEpoll))) 1 = 0)%Z.
Proof. vm_compute. repeat split. Qed.

(* 9. the deadline_timer OBJECT (deadline_timer.cpp; TimerObjDefs.v): event_id_ as the token of the wait it refers to, over the loop
      model.  The waiter wipes the id BEFORE it calls the user handler, so a handler that re-arms its own timer object (periodic /
      watchdog pattern) leaves the object with the id of the NEW wait, and a later cancel() - after any steps of other threads that do
      not cancel by id, while the loop thread has not reached the timers stage - queues the new handler with canceled.  The variant
      that wipes the id after the handler is refuted; so is (in the REAL code: finding 3) the restart cancel(); async_wait() issued
      before the cancelled handler of the previous wait has run. *)
Theorem rearm_from_own_handler_keeps_the_new_id : forall se c t cd k dl,
  lpc (tbase c) = Popped -> running (tbase c) = Some (Run t cd) -> t_owned c t = true ->
  fresh k (step (LExec se) (tbase c)) = true ->
  let c2 := tstep false (TExec se (Some (k,dl))) c in
  (eid c2 = Some k /\ t_mem (timers (tbase c2)) k = true /\ t_owned c2 k = true)%type.
Proof. exact rearm_from_handler_keeps_the_new_id. Qed.
Print Assumptions rearm_from_own_handler_keeps_the_new_id.
Theorem timer_cancel_cancels_the_current_wait : forall sw c k, eid c = Some k -> t_mem (timers (tbase c)) k = true ->
  let c2 := tstep sw TCancel c in (eid c2 = None /\ In (Run k Canceled) (queue (tbase c2)))%type.
Proof. exact cancel_cancels_the_current_wait. Qed.
Print Assumptions timer_cancel_cancels_the_current_wait.
Theorem cancel_after_rearm_from_own_handler_cancels_the_new_wait : forall se c t cd k dl,
  lpc (tbase c) = Popped -> running (tbase c) = Some (Run t cd) -> t_owned c t = true ->
  fresh k (step (LExec se) (tbase c)) = true ->
  forall ls, (forall l, In l ls -> match l with LCancelTimer _ | LReset | LBegin | LDone | LExec _ | LThrow | LPollEnd _ _ | LPollThrow => False | _ => True end) ->
  let c2 := tstep false (TExec se (Some (k,dl))) c in
  let c3 := trun false (map TL ls) c2 in
  let c4 := tstep false TCancel c3 in
  (eid c4 = None /\ In (Run k Canceled) (queue (tbase c4)))%type.
Proof. exact cancel_after_rearm_from_handler_cancels_the_new_wait. Qed.
Print Assumptions cancel_after_rearm_from_own_handler_cancels_the_new_wait.
Theorem wipe_after_handler_variant_refuted : exists ls, let c := trun true ls tst0 in
  (eid c = None /\ timers (tbase c) <> [] /\ queue (tbase (tstep true TCancel c)) = queue (tbase c))%type.
Proof. exact swapped_variant_refuted. Qed.
Print Assumptions wipe_after_handler_variant_refuted.
Theorem restart_before_cancelled_handler_ran_loses_the_id_refuted : exists ls, let c := trun false ls tst0 in
  (eid c = None /\ t_mem (timers (tbase c)) 2 = true /\ queue (tbase (tstep false TCancel c)) = queue (tbase c))%type.
Proof. exact restart_before_cancelled_handler_ran_refuted. Qed.
Print Assumptions restart_before_cancelled_handler_ran_loses_the_id_refuted.
Example timer_object_nonvacuous : let c := trun false sched5 tst0 in
  (eid c = Some 2 /\ t_mem (timers (tbase c)) 2 = true /\ eid (tstep false TCancel c) = None /\
   In (Run 2 Canceled) (queue (tbase (tstep false TCancel c))) /\ t_mem (timers (tbase (tstep false TCancel c))) 2 = false)%type.
Proof. exact real_code_same_schedule. Qed.

(* 10. basic_io_device (DeviceDefs.v): fd_, owner_ and the OS state of the descriptor over the loop model.  close() cancels the armed
       waits in BOTH ownership modes - attach(fd) / assign(fd) replace the descriptor through close() - and closes / forgets the descriptor
       only if the device owns it; the variant with the merged early return (fd_ == invalid_socket || !owner_) is refuted *)
Theorem close_cancels_armed_reader_in_both_ownership_modes : forall b i c h,
  reach (dbase c) -> lpc (dbase c) = Idle -> stop (dbase c) = false -> queue (dbase c) = [] ->
  (0 <= dfd c)%Z -> rd (fd_get (fdmap (dbase c)) (dfd c)) = Some h ->
  let s1 := dbase (d_close false c) in
  let s2 := run_one_solo b s1 in
  let s3 := run_one_solo b (step (LPollEnd [] i) s2) in
  In (h, Canceled, clock (dbase c)) (log s2) \/ In (h, Canceled, clock (dbase c)) (log s3).
Proof. exact close_cancels_reader. Qed.
Print Assumptions close_cancels_armed_reader_in_both_ownership_modes.
Theorem close_cancels_armed_writer_in_both_ownership_modes : forall b i c h,
  reach (dbase c) -> lpc (dbase c) = Idle -> stop (dbase c) = false -> queue (dbase c) = [] ->
  (0 <= dfd c)%Z -> wr (fd_get (fdmap (dbase c)) (dfd c)) = Some h ->
  let s1 := dbase (d_close false c) in
  let s2 := run_one_solo b s1 in
  let s3 := run_one_solo b (step (LPollEnd [] i) s2) in
  In (h, Canceled, clock (dbase c)) (log s2) \/ In (h, Canceled, clock (dbase c)) (log s3).
Proof. exact close_cancels_writer. Qed.
Print Assumptions close_cancels_armed_writer_in_both_ownership_modes.
Theorem close_closes_the_descriptor_only_if_owned : forall c, dfd c <> (-1)%Z ->
  ((downer c = true -> dfd (d_close false c) = (-1)%Z /\ dopen (d_close false c) = zrem (dopen c) (dfd c)) /\
   (downer c = false -> dfd (d_close false c) = dfd c /\ dopen (d_close false c) = dopen c))%type.
Proof. exact d_close_descriptor. Qed.
Print Assumptions close_closes_the_descriptor_only_if_owned.
Theorem attach_and_assign_go_through_close : forall fd c,
  (dbase (d_attach false fd c) = dbase (d_close false c) /\ dbase (d_assign false fd c) = dbase (d_close false c) /\
   downer (d_attach false fd c) = false /\ downer (d_assign false fd c) = true /\ dfd (d_attach false fd c) = fd /\ dfd (d_assign false fd c) = fd)%type.
Proof. exact attach_assign_base. Qed.
Print Assumptions attach_and_assign_go_through_close.
Theorem merged_early_return_variant_refuted : exists c,
  (downer c = false /\ rd (fd_get (fdmap (dbase c)) (dfd c)) = Some 1%N /\ reach (dbase c) /\
   d_close true c = c /\ In (Run 1%N Canceled) (queue (dbase (d_close false c))))%type.
Proof. exact merged_variant_refuted. Qed.
Print Assumptions merged_early_return_variant_refuted.
