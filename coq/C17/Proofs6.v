(* C17 proofs, part 6: codes theorem, timer dispatch, drain progress *)
From Coq Require Import Sorting.Sorted.
From CppcmsV Require Import Base.Tac C17.Defs C17.Proofs C17.Proofs2 C17.Proofs4 C17.Proofs5.
Local Open Scope N_scope.

Lemma nodup_fst_fun (l:list (N*kind)) h k k' : NoDup (map fst l) -> In (h,k) l -> In (h,k') l -> k = k'.
Proof.
  induction l as [|[a b] r IH]; cbn [map fst]; [intros _ []|].
  intros ND [E|I] [E'|I'].
  - congruence.
  - inversion E; subst. inversion ND as [|? ? NI _]; subst. exfalso. apply NI. apply (in_map fst _ _ I').
  - inversion E'; subst. inversion ND as [|? ? NI _]; subst. exfalso. apply NI. apply (in_map fst _ _ I).
  - inversion ND; subst. apply IH; assumption.
Qed.

Lemma reach_K s : reach s -> K s.
Proof.
  induction 1 as [|d|l s R IH]; [apply K_init|apply K_tick0|]. apply K_step; [|exact IH].
  apply (reach_Cons s R).
Qed.

Lemma codes_reach s h c t k : reach s -> In (h,c,t) (log s) -> In (h,k) (subs s) -> code_ok k c t /\ t <= clock s.
Proof.
  intros R L S. destruct (K_log s (reach_K s R) h c t L) as [T [k' [S' C]]].
  destruct (reach_Cons s R) as [_ [ND _]]. rewrite (nodup_fst_fun (subs s) h k k' ND S S'). split; assumption.
Qed.

(* what cancel does, as a step-level fact: the handler is moved from the timer table into the queue with `canceled` *)
Lemma cancel_timer_effect s h : t_mem (timers s) h = true ->
  In (Run h Canceled) (queue (step (LCancelTimer h) s)) /\
  length (timers (step (LCancelTimer h) s)) = pred (length (timers s)).
Proof.
  intros M. cbn [step]. rewrite M. unfold wake_if_polling, wake, push.
  assert (length (t_remove (timers s) h) = pred (length (timers s))) as LEN.
  { clear - M. induction (timers s) as [|[d y] r IH]; cbn [t_mem t_remove length] in *; [discriminate|].
    destruct (N.eqb y h); [reflexivity|]. cbn [length]. rewrite (IH M). destruct r; [discriminate M|reflexivity]. }
  destruct (polling _); sst; (split; [apply in_or_app; right; left; reflexivity|exact LEN]).
Qed.

Lemma canceler_effect s fd h : (0 <= fd)%Z -> rd (fd_get (fdmap s) fd) = Some h ->
  In (Run h Canceled) (queue (do_canceler fd s)) /\ rd (fd_get (fdmap (do_canceler fd s)) fd) = None.
Proof.
  intros P R. unfold do_canceler. destruct (Z.ltb_spec fd 0); [lia|]. rewrite R. cbn [push_opt]. split.
  - destruct (wr (fd_get (fdmap s) fd)); cbn [push_opt]; unfold push; sst.
    + apply in_or_app. left. apply in_or_app. right. left. reflexivity.
    + apply in_or_app. right. left. reflexivity.
  - destruct (wr (fd_get (fdmap s) fd)); cbn [push_opt]; unfold push; sst; rewrite fd_get_put, Z.eqb_refl; reflexivity.
Qed.

(* ---- timers: sorted table, the timers stage dispatches exactly the due ones ---- *)
Definition tsorted (l:list (N*N)) : Prop := StronglySorted (fun a b => fst a <= fst b) l.

Lemma t_insert_sorted l dl h : tsorted l -> tsorted (t_insert l dl h).
Proof.
  unfold tsorted. induction l as [|[d y] r IH]; cbn [t_insert]; intros S.
  - constructor; constructor.
  - destruct (N.ltb_spec dl d).
    + constructor; [exact S|]. constructor; [cbn; lia|]. inversion S as [|? ? S1 F]; subst.
      apply Forall_forall. intros p I. rewrite Forall_forall in F. specialize (F p I). cbn in *. lia.
    + inversion S as [|? ? S1 F]; subst. constructor; [apply IH, S1|].
      apply Forall_forall. intros p I. apply t_insert_in in I. destruct I as [->|I]; [cbn; lia|].
      rewrite Forall_forall in F. apply F, I.
Qed.
Lemma t_remove_sorted l h : tsorted l -> tsorted (t_remove l h).
Proof.
  unfold tsorted. induction l as [|[d y] r IH]; cbn [t_remove]; intros S; [exact S|].
  inversion S as [|? ? S1 F]; subst. destruct (N.eqb y h); [exact S1|]. constructor; [apply IH, S1|].
  apply Forall_forall. intros p I. rewrite Forall_forall in F. apply F. apply (t_remove_in _ _ _ I).
Qed.
Lemma t_due_sorted l now : tsorted l ->
  tsorted (snd (t_due l now)) /\
  (forall d x, In (d,x) l -> d <= now -> In (Run x Ok) (fst (t_due l now))) /\
  (forall p, In p (snd (t_due l now)) -> now < fst p).
Proof.
  unfold tsorted. induction l as [|[d y] r IH]; cbn [t_due]; intros S.
  - cbn. repeat split; [constructor|intros; contradiction|intros; contradiction].
  - inversion S as [|? ? S1 F]; subst. destruct (N.leb_spec d now).
    + destruct (IH S1) as [A [B C]]. destruct (t_due r now) as [q l'] eqn:E. cbn [fst snd] in *.
      split; [exact A|]. split; [|exact C].
      intros d0 x [I|I] L; [inversion I; subst; left; reflexivity|right; apply (B d0 x I L)].
    + cbn [fst snd]. split; [exact S|]. split.
      * intros d0 x [I|I] L; [inversion I; subst; lia|]. rewrite Forall_forall in F. specialize (F _ I). cbn in F. lia.
      * intros p [<-|I]; [cbn; lia|]. rewrite Forall_forall in F. specialize (F _ I). cbn in *. lia.
Qed.

Definition Sinv (s:st) : Prop := tsorted (timers s).
Lemma tm_do_setter fd d k se s : timers (do_setter fd d k se s) = timers s. Proof. frame. Qed.
Lemma tm_do_canceler fd s : timers (do_canceler fd s) = timers s. Proof. frame. Qed.
Lemma tm_dispatch ev s : timers (dispatch ev s) = timers s. Proof. frame. Qed.
Lemma tm_wip s : timers (wake_if_polling s) = timers s. Proof. frame. Qed.
Lemma S_timers_stage s : Sinv s -> Sinv (timers_stage s).
Proof.
  unfold Sinv, timers_stage. intros S. destruct (stop s); [exact S|].
  pose proof (t_due_sorted (timers s) (clock s) S) as [A _]. destruct (t_due (timers s) (clock s)); exact A.
Qed.
Lemma S_after_lock s : Sinv s -> Sinv (after_lock s).
Proof.
  intros S. unfold after_lock. destruct (queue s); [apply S_timers_stage, S|].
  destruct (negb (stop s) && negb (Nat.eqb (counter s) 0)); [exact S|apply S_timers_stage, S].
Qed.
Lemma Sinv_step l s : Sinv s -> Sinv (step l s).
Proof.
  intros S. destruct l; cbn [step].
  - destruct (fresh h s); [|exact S]. unfold Sinv. rewrite tm_wip. exact S.
  - destruct (fresh h s); [|exact S]. cbn zeta.
    destruct (polling (submit h (KIo fd d) s) || negb (reactor (submit h (KIo fd d) s))); unfold Sinv; [rewrite tm_wip|rewrite tm_do_setter]; exact S.
  - destruct (Z.eqb fd (-1)); [exact S|]. destruct (negb (q_nonempty s || iod_busy (fd_get (fdmap s) fd))); [exact S|].
    destruct (polling s || negb (reactor s)); unfold Sinv; [rewrite tm_wip|rewrite tm_do_canceler]; exact S.
  - destruct (fresh h s); [|exact S]. cbn zeta.
    assert (Sinv (set_timers (submit h (KTimer dl) s) (t_insert (timers s) dl h))) as S1 by (unfold Sinv; sst; apply t_insert_sorted, S).
    destruct (timers (set_timers (submit h (KTimer dl) s) (t_insert (timers s) dl h))) as [|[d0 x0] r]; [exact S1|].
    destruct (polling (set_timers (submit h (KTimer dl) s) (t_insert (timers s) dl h)) && N.leb dl d0); exact S1.
  - destruct (t_mem (timers s) h); [|exact S]. unfold Sinv. rewrite tm_wip. sst. apply t_remove_sorted, S.
  - unfold Sinv. rewrite tm_wip. exact S.
  - destruct (is_pc s Idle); exact S.
  - exact S.
  - destruct (is_pc s Idle); [apply S_after_lock|]; exact S.
  - destruct (is_pc s Popped); [|exact S]. cbn zeta.
    destruct (running s) as [[k c|fd d k|fd]|]; unfold Sinv; rewrite ?tm_do_setter, ?tm_do_canceler; exact S.
  - destruct (is_pc s Executed); [apply S_after_lock|]; exact S.
  - destruct (is_pc s Executed); exact S.
  - destruct (is_pc s Poll); [|exact S]. cbn zeta.
    assert (timers (fold_left (fun a ev => dispatch ev a) evs (set_polling s false)) = timers s) as F.
    { rewrite (fold_dispatch_frame timers tm_dispatch). reflexivity. }
    unfold Sinv. destruct intr; match goal with |- context[if stop ?x then _ else _] => destruct (stop x) end; unfold wake; sst; rewrite F; exact S.
  - destruct (is_pc s Poll && negb (q_nonempty s)); exact S.
Qed.
Lemma reach_S s : reach s -> Sinv s.
Proof. induction 1 as [|d|l s R IH]; [constructor|constructor|apply Sinv_step, IH]. Qed.

(* when the loop thread reaches the timers stage (not stopped) every timer whose deadline has passed is queued with a
   success code, and only those: the ones left are all in the future *)
Lemma timers_stage_dispatches_due s : Sinv s -> stop s = false ->
  (forall d x, In (d,x) (timers s) -> d <= clock s -> In (Run x Ok) (queue (timers_stage s))) /\
  (forall p, In p (timers (timers_stage s)) -> clock s < fst p) /\ lpc (timers_stage s) = Poll.
Proof.
  intros S ST. unfold timers_stage. rewrite ST.
  pose proof (t_due_sorted (timers s) (clock s) S) as [_ [B C]].
  destruct (t_due (timers s) (clock s)) as [q t']. cbn [fst snd] in *. sst. repeat split.
  - intros d x I L. apply in_or_app. right. apply (B d x I L).
  - exact C.
Qed.

(* ---- drain ---- *)
(* every step other than the pop of the loop thread and reset leaves the queue as it is or appends to it *)
Lemma q_timers_stage s : exists q', queue (timers_stage s) = queue s ++ q'.
Proof.
  unfold timers_stage. destruct (stop s); [exists []; rewrite app_nil_r; reflexivity|].
  destruct (t_due (timers s) (clock s)) as [q t']. exists q. reflexivity.
Qed.
Lemma q_push_opt o c s : exists q', queue (push_opt o c s) = queue s ++ q'.
Proof. destruct o; cbn [push_opt]; [exists [Run n c]; reflexivity|exists []; rewrite app_nil_r; reflexivity]. Qed.
Lemma q_do_setter fd d k se s : exists q', queue (do_setter fd d k se s) = queue s ++ q'.
Proof.
  unfold do_setter. destruct (Z.ltb fd 0); [eexists; reflexivity|]. destruct se; [eexists; reflexivity|].
  exists []. rewrite app_nil_r. reflexivity.
Qed.
Lemma q_do_canceler fd s : exists q', queue (do_canceler fd s) = queue s ++ q'.
Proof.
  unfold do_canceler. destruct (Z.ltb fd 0); [exists []; rewrite app_nil_r; reflexivity|].
  destruct (rd (fd_get (fdmap s) fd)), (wr (fd_get (fdmap s) fd)); cbn [push_opt]; unfold push; sst;
    [eexists; rewrite <- app_assoc; reflexivity|eexists; reflexivity|eexists; reflexivity|exists []; rewrite app_nil_r; reflexivity].
Qed.
Lemma q_dispatch ev s : exists q', queue (dispatch ev s) = queue s ++ q'.
Proof.
  unfold dispatch. destruct (Z.ltb (efd ev) 0); [exists []; rewrite app_nil_r; reflexivity|]. cbv zeta.
  set (c := fd_get (fdmap s) (efd ev)).
  destruct (match rd c with Some _ => _ | None => false end), (match wr c with Some _ => _ | None => false end);
    destruct (rd c), (wr c); cbn [push_opt]; unfold push; sst;
    try (eexists; rewrite <- ?app_assoc; reflexivity); exists []; rewrite app_nil_r; reflexivity.
Qed.
Lemma q_fold_dispatch evs s : exists q', queue (fold_left (fun a ev => dispatch ev a) evs s) = queue s ++ q'.
Proof.
  revert s. induction evs as [|e r IH]; intros s; cbn [fold_left]; [exists []; rewrite app_nil_r; reflexivity|].
  destruct (IH (dispatch e s)) as [q1 E1]. destruct (q_dispatch e s) as [q2 E2]. exists (q2 ++ q1). rewrite E1, E2, app_assoc. reflexivity.
Qed.

Definition pops (l:label) : bool := match l with LBegin | LDone | LReset => true | _ => false end.

Lemma others_only_append l s : pops l = false -> exists q', queue (step l s) = queue s ++ q'.
Proof.
  intros NP. destruct l; try discriminate NP; cbn [step].
  - destruct (fresh h s); [|(exists []; rewrite app_nil_r; reflexivity)]. rewrite q_wip. eexists. reflexivity.
  - destruct (fresh h s); [|(exists []; rewrite app_nil_r; reflexivity)]. cbn zeta.
    destruct (polling (submit h (KIo fd d) s) || negb (reactor (submit h (KIo fd d) s))); [rewrite q_wip; eexists; reflexivity|].
    apply (q_do_setter fd d h se (submit h (KIo fd d) s)).
  - destruct (Z.eqb fd (-1)); [(exists []; rewrite app_nil_r; reflexivity)|]. destruct (negb (q_nonempty s || iod_busy (fd_get (fdmap s) fd))); [(exists []; rewrite app_nil_r; reflexivity)|].
    destruct (polling s || negb (reactor s)); [rewrite q_wip; eexists; reflexivity|apply q_do_canceler].
  - destruct (fresh h s); [|(exists []; rewrite app_nil_r; reflexivity)]. cbn zeta.
    destruct (timers (set_timers (submit h (KTimer dl) s) (t_insert (timers s) dl h))) as [|[d0 x0] r]; [(exists []; rewrite app_nil_r; reflexivity)|].
    destruct (polling (set_timers (submit h (KTimer dl) s) (t_insert (timers s) dl h)) && N.leb dl d0); (exists []; rewrite app_nil_r; reflexivity).
  - destruct (t_mem (timers s) h); [|(exists []; rewrite app_nil_r; reflexivity)]. rewrite q_wip. eexists. reflexivity.
  - rewrite q_wip. (exists []; rewrite app_nil_r; reflexivity).
  - (exists []; rewrite app_nil_r; reflexivity).
  - destruct (is_pc s Popped); [|(exists []; rewrite app_nil_r; reflexivity)]. cbn zeta.
    destruct (running s) as [[k c|fd d k|fd]|]; [(exists []; rewrite app_nil_r; reflexivity)| | |(exists []; rewrite app_nil_r; reflexivity)].
    + apply (q_do_setter fd d k se (set_lpc (set_running s None) Executed)).
    + apply (q_do_canceler fd (set_lpc (set_running s None) Executed)).
  - destruct (is_pc s Executed); (exists []; rewrite app_nil_r; reflexivity).
  - destruct (is_pc s Poll); [|(exists []; rewrite app_nil_r; reflexivity)]. cbn zeta.
    destruct (q_fold_dispatch evs (set_polling s false)) as [q' E].
    destruct intr; match goal with |- context[if stop ?x then _ else _] => destruct (stop x) end; unfold wake; sst; exists q'; exact E.
  - destruct (is_pc s Poll && negb (q_nonempty s)); (exists []; rewrite app_nil_r; reflexivity).
Qed.

(* the loop thread takes the FRONT entry, as long as it is not stopped and its budget (the queue length sampled at the
   start of run_one) is not used up *)
Lemma begin_pops_front s e q : is_pc s Idle = true -> stop s = false -> queue s = e :: q ->
  let s' := step LBegin s in running s' = Some e /\ queue s' = q /\ lpc s' = Popped /\ counter s' = S (length q).
Proof.
  intros P ST Q. cbn [step]. rewrite P. unfold after_lock. sst. rewrite Q, ST. cbn [length Nat.eqb negb andb]. sst. repeat split.
Qed.
Lemma done_pops_next s e q n : is_pc s Executed = true -> stop s = false -> queue s = e :: q -> counter s = S (S n) ->
  let s' := step LDone s in running s' = Some e /\ queue s' = q /\ lpc s' = Popped /\ counter s' = S n.
Proof.
  intros P ST Q C. cbn [step]. rewrite P. unfold after_lock. sst. rewrite Q, ST, C. cbn [pred Nat.eqb negb andb]. sst. repeat split.
Qed.
Lemma done_last_goes_to_timers s : is_pc s Executed = true -> counter s = 1%nat ->
  step LDone s = timers_stage (set_counter s 0%nat).
Proof.
  intros P C. cbn [step]. rewrite P, C. cbn [pred]. unfold after_lock. sst.
  destruct (queue s); [reflexivity|]. cbn [Nat.eqb negb]. rewrite andb_false_r. reflexivity.
Qed.
