(* C17 -- composite operations (CompDefs.v): the user handler of async_read_some / async_write_some is called at most once,
   exactly once at quiescence, only if the operation was started, and gets the error of a failed wait. *)
From CppcmsV Require Import Base.Tac C17.Defs C17.Proofs C17.Proofs2 C17.CompDefs.
Import ListNotations. Local Open Scope N_scope.

(* owned Layer A tokens whose handler has not been invoked yet *)
Definition unl (L:list N) (o:list (N*N)) : list (N*N) := filter (fun p => negb (existsb (N.eqb (fst p)) L)) o.
Definition unlogged (c:cst) : list (N*N) := unl (log_toks (log (base c))) (owner c).

Definition CI (c:cst) : Prop :=
  reach (base c) /\ NoDup (ustarted c) /\ NoDup (map fst (owner c)) /\
  (forall t u, In (t,u) (owner c) -> In t (map fst (subs (base c))) /\ In u (ustarted c)) /\
  (forall u, (cnt u (map snd (unlogged c)) + cnt u (map fst (ulog c)) = cnt u (ustarted c))%nat).

(* ---- lists ---- *)
Lemma cnt_cons x a l : cnt x (a :: l) = (cnt x [a] + cnt x l)%nat.
Proof. apply (cnt_app x [a] l). Qed.

Lemma existsb_notin t L : ~ In t L -> existsb (N.eqb t) L = false.
Proof.
  intros H. destruct (existsb (N.eqb t) L) eqn:E; [|reflexivity]. exfalso. apply H.
  apply existsb_exists in E. destruct E as [y [Hy E]]. apply N.eqb_eq in E. subst y. exact Hy.
Qed.

Lemma existsb_in t L : In t L -> existsb (N.eqb t) L = true.
Proof. intros H. apply existsb_exists. exists t. split; [exact H|apply N.eqb_refl]. Qed.

Lemma existsb_snoc k t L : existsb (N.eqb k) (L ++ [t]) = existsb (N.eqb k) L || N.eqb k t.
Proof. rewrite existsb_app. cbn [existsb]. rewrite orb_false_r. reflexivity. Qed.

Lemma unl_cons L k v o : unl L ((k,v) :: o) = if existsb (N.eqb k) L then unl L o else (k,v) :: unl L o.
Proof. unfold unl. cbn [filter fst]. destruct (existsb (N.eqb k) L); reflexivity. Qed.

Lemma unl_snoc_notkey L t o : ~ In t (map fst o) -> unl (L ++ [t]) o = unl L o.
Proof.
  induction o as [|[k v] r IH]; intros H; [reflexivity|]. rewrite !unl_cons, existsb_snoc. cbn [map fst In] in H.
  assert (N.eqb k t = false) as E. { apply N.eqb_neq. intros ->. apply H. left. reflexivity. }
  rewrite E, orb_false_r, IH; [reflexivity|]. intros I. apply H. right. exact I.
Qed.

Lemma assoc_none_notkey (o:list (N*N)) t : assoc o t = None -> ~ In t (map fst o).
Proof.
  induction o as [|[k v] r IH]; cbn [assoc map fst In]; intros H; [tauto|].
  destruct (N.eqb k t) eqn:E; [discriminate|]. apply N.eqb_neq in E. intros [A|A]; [congruence|]. exact (IH H A).
Qed.

Lemma assoc_some_in (o:list (N*N)) t u : assoc o t = Some u -> In (t,u) o.
Proof.
  induction o as [|[k v] r IH]; cbn [assoc In]; intros H; [discriminate|]. destruct (N.eqb k t) eqn:E.
  - apply N.eqb_eq in E. left. congruence.
  - right. exact (IH H).
Qed.

Lemma unl_snoc_owned L t u o : NoDup (map fst o) -> assoc o t = Some u -> ~ In t L ->
  forall x, cnt x (map snd (unl L o)) = (cnt x (map snd (unl (L ++ [t]) o)) + cnt x [u])%nat.
Proof.
  induction o as [|[k v] r IH]; intros ND A NL x; [discriminate|].
  cbn [map fst] in ND. inversion ND as [|? ? NI ND']; subst.
  cbn [assoc] in A. rewrite !unl_cons, existsb_snoc.
  destruct (N.eqb k t) eqn:E.
  - apply N.eqb_eq in E. subst k. injection A as ->. rewrite (existsb_notin t L NL). cbn [orb].
    rewrite (unl_snoc_notkey L t r NI). cbn [map snd]. rewrite cnt_cons. lia.
  - rewrite orb_false_r. specialize (IH ND' A NL x). destruct (existsb (N.eqb k) L); [exact IH|].
    cbn [map snd]. rewrite (cnt_cons x v (map snd (unl L r))), (cnt_cons x v (map snd (unl (L ++ [t]) r))). lia.
Qed.

Lemma unl_all_logged L o : (forall t u, In (t,u) o -> In t L) -> unl L o = [].
Proof.
  induction o as [|[k v] r IH]; intros H; [reflexivity|]. rewrite unl_cons, (existsb_in k L).
  - apply IH. intros t u I. apply (H t u). right. exact I.
  - apply (H k v). left. reflexivity.
Qed.

Lemma in_key (o:list (N*N)) t : In t (map fst o) -> exists u, In (t,u) o.
Proof. intros H. apply in_map_iff in H. destruct H as [[k v] [E I]]. cbn [fst] in E. subst k. exists v. exact I. Qed.

(* ---- Layer A facts ---- *)
Lemma code_eq_dec (a b:code) : {a = b} + {a <> b}.
Proof. decide equality. Qed.
Lemma log_eq_dec (a b:list (N*code*N)) : {a = b} + {a <> b}.
Proof.
  apply list_eq_dec. intros [[x1 y1] z1] [[x2 y2] z2].
  destruct (N.eq_dec x1 x2), (code_eq_dec y1 y2), (N.eq_dec z1 z2); try (right; congruence). left. congruence.
Qed.

Lemma log_nonexec l s : is_exec l = false -> log (step l s) = log s.
Proof.
  intros E. destruct (log_eq_dec (log (step l s)) (log s)) as [H|H]; [exact H|].
  apply log_step_only_exec in H. destruct H as [se ->]. discriminate.
Qed.

Lemma subs_mono l s h : In h (map fst (subs s)) -> In h (map fst (subs (step l s))).
Proof. intros H. rewrite subs_step. apply in_or_app. left. exact H. Qed.

Lemma subs_exec se s : map fst (subs (step (LExec se) s)) = map fst (subs s).
Proof. rewrite subs_step. cbn [submitted]. apply app_nil_r. Qed.

Lemma sub_post t cd s : fresh t s = true -> In t (map fst (subs (step (LPost t cd) s))).
Proof. intros F. rewrite subs_step. cbn [submitted]. rewrite F. apply in_or_app. right. left. reflexivity. Qed.

Lemma sub_setio fd d t se s : fresh t s = true -> In t (map fst (subs (step (LSetIo fd d t se) s))).
Proof. intros F. rewrite subs_step. cbn [submitted]. rewrite F. apply in_or_app. right. left. reflexivity. Qed.

Lemma log_exec_run se s t cd : is_pc s Popped = true -> running s = Some (Run t cd) ->
  log (step (LExec se) s) = log s ++ [(t,cd,clock s)].
Proof. intros P R. cbn [step]. rewrite P, R. reflexivity. Qed.

Lemma log_toks_snoc l t cd k : log_toks (l ++ [(t,cd,k)]) = log_toks l ++ [t].
Proof. unfold log_toks. rewrite map_app. reflexivity. Qed.

Lemma ufresh_not_in u c : ufresh u c = true -> ~ In u (ustarted c).
Proof.
  unfold ufresh. intros F H. apply negb_true_iff in F. rewrite (existsb_in u (ustarted c) H) in F. discriminate.
Qed.

(* ---- the invariant ---- *)
Lemma CI_init : CI cst0.
Proof.
  unfold CI, unlogged. cbn [cst0 base owner ulog ustarted]. split; [apply reach_init|].
  split; [constructor|]. split; [constructor|]. split; [intros t u []|]. intros u. reflexivity.
Qed.

Lemma CI_frame c b' im : CI c -> reach b' -> log b' = log (base c) ->
  (forall h, In h (map fst (subs (base c))) -> In h (map fst (subs b'))) ->
  CI (mkC b' (owner c) im (ulog c) (ustarted c)).
Proof.
  intros (R & NU & NO & OW & CT) R' L S. unfold CI, unlogged in *. cbn [base owner ulog ustarted].
  split; [exact R'|]. split; [exact NU|]. split; [exact NO|]. split.
  - intros t u I. destruct (OW t u I) as [A B]. split; [apply S; exact A|exact B].
  - rewrite L. exact CT.
Qed.

Lemma CI_start c b' im t u : CI c -> ufresh u c = true -> fresh t (base c) = true ->
  reach b' -> log b' = log (base c) ->
  (forall h, In h (map fst (subs (base c))) -> In h (map fst (subs b'))) ->
  In t (map fst (subs b')) ->
  CI (mkC b' ((t,u) :: owner c) im (ulog c) (u :: ustarted c)).
Proof.
  intros (R & NU & NO & OW & CT) UF TF R' L S IT. unfold CI, unlogged in *. cbn [base owner ulog ustarted].
  pose proof (fresh_not_in t (base c) TF) as NS.
  split; [exact R'|]. split; [constructor; [apply ufresh_not_in; exact UF|exact NU]|]. split; [|split].
  - cbn [map fst]. constructor; [|exact NO]. intros I. apply in_key in I. destruct I as [u' I].
    apply NS. apply (OW t u' I).
  - intros t' u' [E|I].
    + injection E as <- <-. split; [exact IT|left; reflexivity].
    + destruct (OW t' u' I) as [A B]. split; [apply S; exact A|right; exact B].
  - intros x. rewrite L, unl_cons.
    rewrite (existsb_notin t (log_toks (log (base c)))).
    + cbn [map snd]. rewrite (cnt_cons x u (ustarted c)), (cnt_cons x u (map snd _)). specialize (CT x). lia.
    + intros I. apply NS. apply Cons_log_submitted; [apply reach_Cons; exact R|exact I].
Qed.

Lemma CI_exec_run se r c t cd : CI c -> is_pc (base c) Popped = true -> running (base c) = Some (Run t cd) ->
  CI (cstep (CExec se r) c).
Proof.
  intros HC P Hrun. pose proof HC as (R & NU & NO & OW & CT).
  unfold cstep. rewrite P, Hrun. cbv zeta.
  set (b1 := step (LExec se) (base c)).
  assert (reach b1) as R1. { apply reach_step. exact R. }
  assert (log_toks (log b1) = log_toks (log (base c)) ++ [t]) as L1.
  { unfold b1. rewrite (log_exec_run se (base c) t cd P Hrun). apply log_toks_snoc. }
  assert (map fst (subs b1) = map fst (subs (base c))) as S1. { apply subs_exec. }
  assert (~ In t (log_toks (log (base c)))) as NL.
  { apply Cons_pending_not_logged; [apply reach_Cons; exact R|]. unfold pending_toks. rewrite Hrun.
    apply in_or_app. right. apply in_or_app. right. apply in_or_app. right. left. reflexivity. }
  destruct (assoc (owner c) t) as [u|] eqn:A.
  - assert (forall n, CI (mkC b1 (owner c) (cimmed c) (ulog c ++ [(u,n)]) (ustarted c))) as Done.
    { intros n. unfold CI, unlogged in *. cbn [base owner ulog ustarted].
      split; [exact R1|]. split; [exact NU|]. split; [exact NO|]. split.
      - rewrite S1. exact OW.
      - intros x. rewrite L1, map_app, cnt_app. cbn [map fst].
        pose proof (unl_snoc_owned _ t u (owner c) NO A NL x) as U. specialize (CT x). lia. }
    destruct (assoc (cimmed c) t) as [n|]; [apply Done|].
    destruct cd; try apply Done.
    destruct r as [t2 fd d se2|n]; [|apply Done].
    destruct (fresh t2 b1) eqn:F; [|exact HC].
    pose proof (fresh_not_in t2 b1 F) as NS.
    unfold CI, unlogged in *. cbn [base owner ulog ustarted].
    split; [apply reach_step; exact R1|]. split; [exact NU|]. split; [|split].
    + cbn [map fst]. constructor; [|exact NO]. intros I. apply in_key in I. destruct I as [u' I].
      apply NS. rewrite S1. apply (OW t2 u' I).
    + intros t' u' [E|I].
      * injection E as <- <-. split; [apply sub_setio; exact F|]. apply (OW t u). apply assoc_some_in. exact A.
      * destruct (OW t' u' I) as [X Y]. split; [apply subs_mono; rewrite S1; exact X|exact Y].
    + intros x. rewrite (log_nonexec (LSetIo fd d t2 se2) b1 eq_refl), L1, unl_cons.
      rewrite (existsb_notin t2 (log_toks (log (base c)) ++ [t])).
      * cbn [map snd]. rewrite (cnt_cons x u (map snd _)).
        pose proof (unl_snoc_owned _ t u (owner c) NO A NL x) as U. specialize (CT x). lia.
      * rewrite <- L1. intros I. apply NS. apply Cons_log_submitted; [apply reach_Cons; exact R1|exact I].
  - unfold CI, unlogged in *. cbn [base owner ulog ustarted].
    split; [exact R1|]. split; [exact NU|]. split; [exact NO|]. split.
    + rewrite S1. exact OW.
    + intros x. rewrite L1, (unl_snoc_notkey _ t (owner c) (assoc_none_notkey _ _ A)). apply CT.
Qed.

Lemma CI_exec_other se c : CI c -> (forall t cd, running (base c) <> Some (Run t cd)) ->
  CI (mkC (step (LExec se) (base c)) (owner c) (cimmed c) (ulog c) (ustarted c)).
Proof.
  intros HC NR. apply CI_frame; [exact HC|apply reach_step; apply HC| |intros h; apply subs_mono].
  destruct (exec_logs_running se (base c)) as [E|[h [cd [E _]]]]; [exact E|]. exfalso. exact (NR h cd E).
Qed.

Lemma CI_step l c : CI c -> CI (cstep l c).
Proof.
  intros HC. destruct l as [l0|u t n|u t fd d se|se r].
  - cbn [cstep]. destruct (is_exec l0) eqn:E; [exact HC|].
    apply CI_frame; [exact HC|apply reach_step; apply HC|apply log_nonexec; exact E|intros h; apply subs_mono].
  - cbn [cstep]. destruct (ufresh u c) eqn:UF; [|exact HC]. destruct (fresh t (base c)) eqn:TF; [|exact HC]. cbn [andb].
    apply CI_start; [exact HC|exact UF|exact TF|apply reach_step; apply HC|apply log_nonexec; reflexivity
                    |intros h; apply subs_mono|apply sub_post; exact TF].
  - cbn [cstep]. destruct (ufresh u c) eqn:UF; [|exact HC]. destruct (fresh t (base c)) eqn:TF; [|exact HC]. cbn [andb].
    apply CI_start; [exact HC|exact UF|exact TF|apply reach_step; apply HC|apply log_nonexec; reflexivity
                    |intros h; apply subs_mono|apply sub_setio; exact TF].
  - destruct (is_pc (base c) Popped) eqn:P; [|cbn [cstep]; rewrite P; exact HC].
    destruct (running (base c)) as [[t cd|fd d h|fd]|] eqn:Hrun.
    + apply (CI_exec_run se r c t cd HC P Hrun).
    + cbn [cstep]. rewrite P, Hrun. apply CI_exec_other; [exact HC|]. intros t cd. rewrite Hrun. discriminate.
    + cbn [cstep]. rewrite P, Hrun. apply CI_exec_other; [exact HC|]. intros t cd. rewrite Hrun. discriminate.
    + cbn [cstep]. rewrite P, Hrun. apply CI_exec_other; [exact HC|]. intros t cd. rewrite Hrun. discriminate.
Qed.

Lemma CI_crun ls c : CI c -> CI (crun ls c).
Proof. revert c. induction ls as [|l r IH]; intros c H; cbn [crun fold_left]; [exact H|]. apply IH, CI_step, H. Qed.

Lemma CI_run0 ls : CI (crun ls cst0).
Proof. apply CI_crun, CI_init. Qed.

(* ---- the properties ---- *)
Lemma cbase_reach : forall ls, reach (base (crun ls cst0)).
Proof. intros ls. apply (CI_run0 ls). Qed.

Lemma user_at_most_once : forall ls, NoDup (map fst (ulog (crun ls cst0))).
Proof.
  intros ls. destruct (CI_run0 ls) as (R & NU & NO & OW & CT).
  apply (NoDup_count_occ N.eq_dec). intros x.
  pose proof (proj1 (NoDup_count_occ N.eq_dec _) NU x) as B. specialize (CT x). unfold cnt in CT. lia.
Qed.

Lemma user_exactly_once_at_quiescence : forall ls, let c := crun ls cst0 in
  pending_toks (base c) = [] -> dropped (base c) = [] ->
  forall u, In u (ustarted c) <-> count_occ N.eq_dec (map fst (ulog c)) u = 1%nat.
Proof.
  intros ls c PE DE u. destruct (CI_run0 ls) as (R & NU & NO & OW & CT). fold c in R, NU, NO, OW, CT.
  assert (unlogged c = []) as UE.
  { unfold unlogged. apply unl_all_logged. intros t v I. destruct (OW t v I) as [S _].
    apply (Cons_quiescent (base c) (reach_Cons _ R) PE DE t) in S. apply cnt_pos_in. lia. }
  specialize (CT u). rewrite UE in CT. cbn [map] in CT. rewrite cnt_nil in CT.
  pose proof (proj1 (NoDup_count_occ N.eq_dec _) NU u) as B.
  pose proof (cnt_pos_in u (ustarted c)) as PI. unfold cnt in *. split.
  - intros I. apply PI in I. lia.
  - intros E. apply PI. lia.
Qed.

Lemma user_gets_wait_error : forall se r c t cd u, lpc (base c) = Popped -> running (base c) = Some (Run t cd) -> cd <> Ok ->
  assoc (owner c) t = Some u -> assoc (cimmed c) t = None -> ulog (cstep (CExec se r) c) = ulog c ++ [(u, codenum cd)].
Proof.
  intros se r c t cd u P Hrun NOk A I.
  assert (is_pc (base c) Popped = true) as P'. { unfold is_pc. rewrite P. reflexivity. }
  cbn [cstep]. rewrite P', Hrun. cbv zeta. rewrite A, I.
  destruct cd; [exfalso; apply NOk; reflexivity| | | |]; reflexivity.
Qed.

Lemma user_only_if_started : forall ls u n, In (u,n) (ulog (crun ls cst0)) -> In u (ustarted (crun ls cst0)).
Proof.
  intros ls u n I. destruct (CI_run0 ls) as (R & NU & NO & OW & CT).
  apply cnt_pos_in. specialize (CT u).
  assert (In u (map fst (ulog (crun ls cst0)))) as J. { apply in_map_iff. exists (u,n). split; [reflexivity|exact I]. }
  apply cnt_pos_in in J. lia.
Qed.
