(* C17 -- basic_io_device (booster/lib/aio/src/basic_io_device.cpp) as a layer over the event-loop model: the members fd_ and owner_
   and the OS state of the descriptor.
     close(e):    if(fd_ == invalid_socket) return;  cancel();  if(!owner_) return;  ::close(fd_); fd_ = invalid_socket;
     attach(fd):  close(e); fd_ = fd; owner_ = false;        assign(fd): close(e); fd_ = fd; owner_ = true;      release(): owner_ = false;
   [merged = true] is the refuted variant  if(fd_ == invalid_socket || !owner_) return; cancel(); ...
   Executable definitions only. *)
From CppcmsV Require Import Base.Tac C17.Defs.
Import ListNotations.
Local Open Scope Z_scope.

Record dst := mkD { dbase : st; dfd : Z; downer : bool; dopen : list Z (* descriptor numbers that are open *) }.
Definition zrem (l:list Z) (k:Z) : list Z := filter (fun x => negb (Z.eqb x k)) l.
Definition d_close (merged:bool) (c:dst) : dst :=
  if Z.eqb (dfd c) (-1) then c
  else if merged && negb (downer c) then c
  else
    let b := step (LCancelIo (dfd c)) (dbase c) in          (* cancel(): get_io_service().cancel_io_events(fd_) *)
    if downer c then mkD b (-1) (downer c) (zrem (dopen c) (dfd c))
    else mkD b (dfd c) (downer c) (dopen c).
Definition d_attach (merged:bool) (fd:Z) (c:dst) : dst := let c1 := d_close merged c in mkD (dbase c1) fd false (dopen c1).
Definition d_assign (merged:bool) (fd:Z) (c:dst) : dst := let c1 := d_close merged c in mkD (dbase c1) fd true (dopen c1).
Definition d_release (c:dst) : dst := mkD (dbase c) (dfd c) false (dopen c).
