(* C17 -- the deadline_timer OBJECT over the event-loop model: what cancel() reaches. *)
From CppcmsV Require Import Base.Tac C17.Defs C17.Proofs C17.Proofs2 C17.Proofs5 C17.Proofs6 C17.Solo C17.TimerObjDefs.
Import ListNotations. Local Open Scope N_scope.

(* ---- O1: the timer table after an insertion ---- *)
Lemma t_mem_insert : forall l dl h, t_mem (t_insert l dl h) h = true.
Proof.
  induction l as [|[d x] r IH]; intros dl h; cbn [t_insert t_mem].
  - rewrite N.eqb_refl. reflexivity.
  - destruct (N.ltb dl d); cbn [t_mem].
    + rewrite N.eqb_refl. reflexivity.
    + destruct (N.eqb x h); [reflexivity|apply IH].
Qed.

Lemma t_mem_insert_keep : forall l d x h, t_mem l h = true -> t_mem (t_insert l d x) h = true.
Proof.
  induction l as [|[d0 y] r IH]; intros d x h M; cbn [t_insert t_mem] in *.
  - discriminate.
  - destruct (N.ltb d d0); cbn [t_mem].
    + destruct (N.eqb x h); [reflexivity|exact M].
    + destruct (N.eqb y h); [reflexivity|apply IH, M].
Qed.

Lemma timers_maybe_wake : forall dl s1,
  timers (match timers s1 with (d,_)::_ => if polling s1 && N.leb dl d then wake s1 else s1 | [] => s1 end) = timers s1.
Proof.
  intros dl s1. destruct (timers s1) as [|[d x] r] eqn:E; [exact E|].
  destruct (polling s1 && N.leb dl d); unfold wake; sst; exact E.
Qed.

Lemma timers_set_timer : forall k dl s,
  timers (step (LSetTimer k dl) s) = if fresh k s then t_insert (timers s) dl k else timers s.
Proof.
  intros k dl s. cbn [step]. destruct (fresh k s); [|reflexivity]. cbn zeta.
  rewrite timers_maybe_wake. unfold submit. sst. reflexivity.
Qed.

Lemma set_timer_mem : forall k dl s, fresh k s = true -> t_mem (timers (step (LSetTimer k dl) s)) k = true.
Proof. intros k dl s F. rewrite timers_set_timer, F. apply t_mem_insert. Qed.

Lemma set_timer_keeps : forall k dl s h, t_mem (timers s) h = true -> t_mem (timers (step (LSetTimer k dl) s)) h = true.
Proof.
  intros k dl s h M. rewrite timers_set_timer. destruct (fresh k s); [apply t_mem_insert_keep, M|exact M].
Qed.

(* ---- O2: re-arming from inside the handler ---- *)
Lemma arm_fresh : forall k dl c, fresh k (tbase c) = true ->
  arm k dl c = mkT (step (LSetTimer k dl) (tbase c)) (Some k) (k :: owned c).
Proof. intros k dl c F. unfold arm. rewrite F. reflexivity. Qed.

Lemma exec_rearm_shape : forall se c t cd k dl,
  lpc (tbase c) = Popped -> running (tbase c) = Some (Run t cd) -> t_owned c t = true ->
  fresh k (step (LExec se) (tbase c)) = true ->
  tstep false (TExec se (Some (k,dl))) c =
  mkT (step (LSetTimer k dl) (step (LExec se) (tbase c))) (Some k) (k :: owned c).
Proof.
  intros se c t cd k dl P R O F. unfold tstep.
  rewrite (is_pc_of _ _ P), R, O. cbn zeta. cbv iota.
  rewrite arm_fresh; cbn [tbase eid owned]; [reflexivity|exact F].
Qed.

Lemma rearm_from_handler_keeps_the_new_id : forall se c t cd k dl,
  lpc (tbase c) = Popped -> running (tbase c) = Some (Run t cd) -> t_owned c t = true ->
  fresh k (step (LExec se) (tbase c)) = true ->
  let c2 := tstep false (TExec se (Some (k,dl))) c in
  eid c2 = Some k /\ t_mem (timers (tbase c2)) k = true /\ t_owned c2 k = true.
Proof.
  intros se c t cd k dl P R O F c2. subst c2.
  rewrite (exec_rearm_shape se c t cd k dl P R O F). cbn [eid tbase].
  split; [reflexivity|]. split; [apply set_timer_mem, F|].
  unfold t_owned. cbn [owned existsb]. rewrite N.eqb_refl. reflexivity.
Qed.

(* ---- O3: cancel() reaches the wait event_id_ refers to ---- *)
Lemma cancel_cancels_the_current_wait : forall sw c k, eid c = Some k -> t_mem (timers (tbase c)) k = true ->
  let c2 := tstep sw TCancel c in
  eid c2 = None /\ In (Run k Canceled) (queue (tbase c2)).
Proof.
  intros sw c k E M c2. subst c2. unfold tstep. rewrite E. cbn [eid tbase].
  split; [reflexivity|]. apply (cancel_timer_effect _ _ M).
Qed.

(* ---- O4: steps of other threads keep the armed wait and event_id_ ---- *)
Definition quiet (l:label) : Prop :=
  match l with LCancelTimer _ | LReset | LBegin | LDone | LExec _ | LThrow | LPollEnd _ _ | LPollThrow => False | _ => True end.

Lemma quiet_step_keeps : forall l s h, quiet l -> t_mem (timers s) h = true -> t_mem (timers (step l s)) h = true.
Proof.
  intros l s h Q M. destruct l as [k cd|fd d k se|fd|k dl|k| | |d| |se| | |evs intr| ]; cbn [quiet] in Q; try contradiction.
  - cbn [step]. destruct (fresh k s); [|exact M]. rewrite tm_wip. unfold push, submit. sst. exact M.
  - cbn [step]. destruct (fresh k s); [|exact M]. cbn zeta.
    destruct (polling (submit k (KIo fd d) s) || negb (reactor (submit k (KIo fd d) s))).
    + rewrite tm_wip. unfold push, submit. sst. exact M.
    + rewrite tm_do_setter. unfold submit. sst. exact M.
  - cbn [step]. destruct (Z.eqb fd (-1)); [exact M|].
    destruct (negb (q_nonempty s || iod_busy (fd_get (fdmap s) fd))); [exact M|].
    destruct (polling s || negb (reactor s)).
    + rewrite tm_wip. unfold push. sst. exact M.
    + rewrite tm_do_canceler. exact M.
  - apply set_timer_keeps, M.
  - cbn [step]. rewrite tm_wip. sst. exact M.
  - cbn [step]. sst. exact M.
Qed.

Lemma quiet_not_exec : forall l, quiet l -> is_exec_l l = false.
Proof. intros l Q. destruct l; cbn [quiet] in Q; try contradiction; reflexivity. Qed.

Lemma quiet_run_keeps : forall sw ls c k, (forall l, In l ls -> quiet l) ->
  eid c = Some k -> t_mem (timers (tbase c)) k = true ->
  eid (trun sw (map TL ls) c) = Some k /\ t_mem (timers (tbase (trun sw (map TL ls) c))) k = true.
Proof.
  intros sw ls. induction ls as [|l r IH]; intros c k Q E M.
  - cbn [map trun fold_left]. split; assumption.
  - cbn [map]. unfold trun. cbn [fold_left]. fold (trun sw (map TL r) (tstep sw (TL l) c)).
    assert (quiet l) as Ql by (apply Q; left; reflexivity).
    apply IH.
    + intros l0 I. apply Q. right. exact I.
    + unfold tstep. rewrite (quiet_not_exec l Ql). cbn [eid]. exact E.
    + unfold tstep. rewrite (quiet_not_exec l Ql). cbn [tbase]. apply quiet_step_keeps; assumption.
Qed.

Lemma cancel_after_rearm_from_handler_cancels_the_new_wait : forall se c t cd k dl,
  lpc (tbase c) = Popped -> running (tbase c) = Some (Run t cd) -> t_owned c t = true ->
  fresh k (step (LExec se) (tbase c)) = true ->
  forall ls, (forall l, In l ls -> match l with LCancelTimer _ | LReset | LBegin | LDone | LExec _ | LThrow | LPollEnd _ _ | LPollThrow => False | _ => True end) ->
  let c2 := tstep false (TExec se (Some (k,dl))) c in
  let c3 := trun false (map TL ls) c2 in
  let c4 := tstep false TCancel c3 in
  eid c4 = None /\ In (Run k Canceled) (queue (tbase c4)).
Proof.
  intros se c t cd k dl P R O F ls Q c2 c3 c4.
  destruct (rearm_from_handler_keeps_the_new_id se c t cd k dl P R O F) as [E2 [M2 _]]. fold c2 in E2, M2.
  destruct (quiet_run_keeps false ls c2 k Q E2 M2) as [E3 M3]. fold c3 in E3, M3.
  exact (cancel_cancels_the_current_wait false c3 k E3 M3).
Qed.

(* ---- O5: the swapped waiter (h(e); event_id_ = -1) loses the wait armed by the handler ---- *)
Definition sched5 : list tlabel :=
  [TArm 1 10; TL (LTick 10); TL LBegin; TL (LPollEnd [] false); TL LBegin; TExec false (Some (2,20)); TL LDone].

Lemma swapped_variant_refuted : exists ls, let c := trun true ls tst0 in eid c = None /\ timers (tbase c) <> [] /\ queue (tbase (tstep true TCancel c)) = queue (tbase c).
Proof.
  exists sched5. cbv zeta. split; [vm_compute; reflexivity|]. split; [|vm_compute; reflexivity].
  assert (timers (tbase (trun true sched5 tst0)) = [(20,2)]) as E by (vm_compute; reflexivity).
  rewrite E. discriminate.
Qed.

Lemma swapped_variant_refuted_armed : let c := trun true sched5 tst0 in
  eid c = None /\ t_mem (timers (tbase c)) 2 = true /\ t_owned c 2 = true /\ queue (tbase (tstep true TCancel c)) = queue (tbase c).
Proof. cbv zeta. split; [vm_compute; reflexivity|]. split; [vm_compute; reflexivity|]. split; [vm_compute; reflexivity|]. vm_compute; reflexivity. Qed.

Lemma real_code_same_schedule : let c := trun false sched5 tst0 in
  eid c = Some 2 /\ t_mem (timers (tbase c)) 2 = true /\ eid (tstep false TCancel c) = None /\ In (Run 2 Canceled) (queue (tbase (tstep false TCancel c))) /\ t_mem (timers (tbase (tstep false TCancel c))) 2 = false.
Proof.
  cbv zeta. split; [vm_compute; reflexivity|]. split; [vm_compute; reflexivity|]. split; [vm_compute; reflexivity|].
  split; [|vm_compute; reflexivity].
  assert (queue (tbase (tstep false TCancel (trun false sched5 tst0))) = [Run 2 Canceled]) as E by (vm_compute; reflexivity).
  rewrite E. left. reflexivity.
Qed.

(* ---- O6 (finding 3, the REAL code): cancel, restart, then the cancelled handler of the first wait runs and wipes the id of the second ---- *)
Definition sched6 : list tlabel := [TArm 1 50; TCancel; TArm 2 30; TL LBegin; TExec false None; TL LDone].

Lemma restart_before_cancelled_handler_ran_refuted : exists ls, let c := trun false ls tst0 in
  eid c = None /\ t_mem (timers (tbase c)) 2 = true /\ queue (tbase (tstep false TCancel c)) = queue (tbase c).
Proof. exists sched6. cbv zeta. split; [vm_compute; reflexivity|]. split; vm_compute; reflexivity. Qed.
