(* C17 proofs, part 5: completion codes *)
From CppcmsV Require Import Base.Tac C17.Defs C17.Proofs.
Local Open Scope N_scope.

Definition code_ok (k:kind) (c:code) (t:N) : Prop :=
  match k with
  | KPost c0 => c = c0
  | KTimer dl => c = Canceled \/ (c = Ok /\ dl <= t)
  | KIo fd d => if Z.ltb fd 0 then c = EBadf else (c = Ok \/ c = Canceled \/ c = SelFailed \/ c = SelErr)
  end.

Definition entry_okk (sb:list (N*kind)) (now:N) (e:entry) : Prop :=
  match e with
  | Run h c => exists k, In (h,k) sb /\ code_ok k c now
  | Setter fd d h => In (h, KIo fd d) sb
  | Cancl _ => True
  end.

Record K (s:st) : Prop := mkK {
  K_rd : forall fd h, rd (fd_get (fdmap s) fd) = Some h -> (0 <= fd)%Z /\ In (h, KIo fd DIn) (subs s);
  K_wr : forall fd h, wr (fd_get (fdmap s) fd) = Some h -> (0 <= fd)%Z /\ In (h, KIo fd DOut) (subs s);
  K_tm : forall dl h, In (dl,h) (timers s) -> In (h, KTimer dl) (subs s);
  K_q : forall e, In e (queue s) -> entry_okk (subs s) (clock s) e;
  K_run : forall e, running s = Some e -> entry_okk (subs s) (clock s) e;
  K_log : forall h c t, In (h,c,t) (log s) -> t <= clock s /\ exists k, In (h,k) (subs s) /\ code_ok k c t }.

Lemma code_ok_mono k c t t' : t <= t' -> code_ok k c t -> code_ok k c t'.
Proof. intros L. destruct k; cbn [code_ok]; try tauto. intros [H|[H1 H2]]; [left; exact H|right; split; [exact H1|lia]]. Qed.

Lemma entry_okk_mono sb sb' now now' e :
  (forall x, In x sb -> In x sb') -> now <= now' -> entry_okk sb now e -> entry_okk sb' now' e.
Proof.
  intros I L. destruct e; cbn [entry_okk]; [|apply I|tauto].
  intros [k [A B]]. exists k. split; [apply I, A|apply (code_ok_mono k c now now' L B)].
Qed.

Definition core (s:st) := (fdmap s, timers s, queue s, running s, log s, clock s, subs s).
Lemma K_ext s s' : core s = core s' -> K s -> K s'.
Proof.
  unfold core. intros E [A B C D F G]. inversion E as [[E1 E2 E3 E4 E5 E6 E7]].
  constructor; rewrite <- ?E1, <- ?E2, <- ?E3, <- ?E4, <- ?E5, <- ?E6, <- ?E7; assumption.
Qed.

Lemma K_wake s : K s -> K (wake s). Proof. apply K_ext. reflexivity. Qed.
Lemma K_wip s : K s -> K (wake_if_polling s).
Proof. unfold wake_if_polling. destruct (polling s); [apply K_wake|exact (fun H => H)]. Qed.

Lemma K_submit h k s : K s -> K (submit h k s).
Proof.
  intros [A B C D F G]. unfold submit. constructor; sst.
  - intros fd x H. destruct (A fd x H) as [P Q]. split; [exact P|apply in_or_app; left; exact Q].
  - intros fd x H. destruct (B fd x H) as [P Q]. split; [exact P|apply in_or_app; left; exact Q].
  - intros dl x H. apply in_or_app. left. exact (C dl x H).
  - intros e H. apply (entry_okk_mono (subs s) _ (clock s) (clock s)); [intros; apply in_or_app; left; assumption|lia|exact (D e H)].
  - intros e H. apply (entry_okk_mono (subs s) _ (clock s) (clock s)); [intros; apply in_or_app; left; assumption|lia|exact (F e H)].
  - intros x c t H. destruct (G x c t H) as [P [k0 [Q R]]]. split; [exact P|]. exists k0. split; [apply in_or_app; left; exact Q|exact R].
Qed.

Lemma K_push e s : K s -> entry_okk (subs s) (clock s) e -> K (push e s).
Proof.
  intros [A B C D F G] H. unfold push. constructor; sst; try assumption.
  intros x I. apply in_app_or in I. destruct I as [I|[<-|[]]]; [exact (D x I)|exact H].
Qed.

Lemma K_push_opt o c s : K s -> (forall h, o = Some h -> entry_okk (subs s) (clock s) (Run h c)) -> K (push_opt o c s).
Proof. intros Ks H. destruct o; cbn [push_opt]; [apply K_push; [exact Ks|apply H; reflexivity]|exact Ks]. Qed.

Lemma fd_get_put m fd v fd' : fd_get (fd_put m fd v) fd' = if Z.eqb fd fd' then v else fd_get m fd'.
Proof.
  induction m as [|[k x] r IH]; cbn [fd_put fd_get].
  - destruct (Z.eqb fd fd'); reflexivity.
  - destruct (Z.eqb_spec k fd) as [->|Hne]; cbn [fd_get].
    + destruct (Z.eqb fd fd'); reflexivity.
    + rewrite IH. destruct (Z.eqb_spec k fd') as [->|Hne2]; [|reflexivity].
      destruct (Z.eqb_spec fd fd'); [congruence|reflexivity].
Qed.

Lemma K_do_setter fd d h se s : K s -> In (h, KIo fd d) (subs s) -> K (do_setter fd d h se s).
Proof.
  intros Ks I. unfold do_setter. destruct (Z.ltb fd 0) eqn:L.
  - apply K_push; [exact Ks|]. exists (KIo fd d). split; [exact I|]. cbn [code_ok]. rewrite L. reflexivity.
  - destruct se.
    + apply K_push; [exact Ks|]. exists (KIo fd d). split; [exact I|]. cbn [code_ok]. rewrite L. tauto.
    + destruct Ks as [A B C D F G]. apply Z.ltb_ge in L. constructor; sst; try assumption.
      * intros fd' x. rewrite fd_get_put. destruct (Z.eqb_spec fd fd') as [<-|Hne]; [|apply A].
        destruct d; cbn [rd]; [intros H; inversion H; subst; split; assumption|apply A].
      * intros fd' x. rewrite fd_get_put. destruct (Z.eqb_spec fd fd') as [<-|Hne]; [|apply B].
        destruct d; cbn [wr]; [apply B|intros H; inversion H; subst; split; assumption].
Qed.

Lemma K_set_fd_none fd c' s : K s ->
  (forall h, rd c' = Some h -> rd (fd_get (fdmap s) fd) = Some h) ->
  (forall h, wr c' = Some h -> wr (fd_get (fdmap s) fd) = Some h) ->
  K (set_fdmap s (fd_put (fdmap s) fd c')).
Proof.
  intros [A B C D F G] R W. constructor; sst; try assumption.
  - intros fd' x. rewrite fd_get_put. destruct (Z.eqb_spec fd fd') as [<-|Hne]; [|apply A]. intros H. apply A, R, H.
  - intros fd' x. rewrite fd_get_put. destruct (Z.eqb_spec fd fd') as [<-|Hne]; [|apply B]. intros H. apply B, W, H.
Qed.

Lemma io_code_ok fd d c : (0 <= fd)%Z -> c = Ok \/ c = Canceled \/ c = SelFailed \/ c = SelErr -> forall t, code_ok (KIo fd d) c t.
Proof. intros P H t. cbn [code_ok]. destruct (Z.ltb_spec fd 0); [lia|exact H]. Qed.

Lemma K_do_canceler fd s : K s -> K (do_canceler fd s).
Proof.
  intros Ks. unfold do_canceler. destruct (Z.ltb fd 0); [exact Ks|].
  pose proof (K_rd s Ks fd) as A. pose proof (K_wr s Ks fd) as B.
  assert (K (set_fdmap s (fd_put (fdmap s) fd iod0))) as K1.
  { apply K_set_fd_none; [exact Ks| |]; cbn; intros h H; discriminate. }
  apply K_push_opt; [apply K_push_opt; [exact K1|]|].
  - intros h H. destruct (A h H) as [P Q]. exists (KIo fd DIn). split; [exact Q|apply io_code_ok; [exact P|tauto]].
  - intros h H. destruct (B h H) as [P Q]. exists (KIo fd DOut).
    split; [rewrite <- (subs_do_canceler fd s) in Q|apply io_code_ok; [exact P|tauto]].
    unfold push_opt. destruct (rd (fd_get (fdmap s) fd)); sst; rewrite (subs_do_canceler fd s) in Q; exact Q.
Qed.

Lemma K_dispatch ev s : K s -> K (dispatch ev s).
Proof.
  intros Ks. unfold dispatch. destruct (Z.ltb (efd ev) 0); [exact Ks|].
  set (c := fd_get (fdmap s) (efd ev)).
  set (nin := cin c && negb (eerr ev || eself ev) && negb (ein ev)).
  set (nout := cout c && negb (eerr ev || eself ev) && negb (eout ev)).
  set (derr := if eerr ev then SelFailed else if eself ev then SelErr else Ok).
  set (fr := match rd c with Some _ => negb nin | None => false end).
  set (fw := match wr c with Some _ => negb nout | None => false end).
  pose proof (K_rd s Ks (efd ev)) as A. pose proof (K_wr s Ks (efd ev)) as B. fold c in A, B.
  assert (derr = Ok \/ derr = Canceled \/ derr = SelFailed \/ derr = SelErr) as DE.
  { unfold derr. destruct (eerr ev); [tauto|]. destruct (eself ev); tauto. }
  assert (K (set_fdmap s (fd_put (fdmap s) (efd ev) (mkIod nin nout (if fr then None else rd c) (if fw then None else wr c))))) as K1.
  { apply K_set_fd_none; [exact Ks| |]; cbn [rd wr]; fold c; intros h H.
    - destruct fr; [discriminate|exact H].
    - destruct fw; [discriminate|exact H]. }
  assert (forall h, rd c = Some h -> entry_okk (subs s) (clock s) (Run h derr)) as OR.
  { intros h H. destruct (A h H) as [P Q]. exists (KIo (efd ev) DIn). split; [exact Q|apply io_code_ok; assumption]. }
  assert (forall h, wr c = Some h -> entry_okk (subs s) (clock s) (Run h derr)) as OW.
  { intros h H. destruct (B h H) as [P Q]. exists (KIo (efd ev) DOut). split; [exact Q|apply io_code_ok; assumption]. }
  destruct fr, fw.
  - apply K_push_opt; [apply K_push_opt; [exact K1|exact OR]|].
    intros h H. unfold push_opt. destruct (rd c); sst; apply OW, H.
  - apply K_push_opt; [exact K1|exact OR].
  - apply K_push_opt; [exact K1|exact OW].
  - exact K1.
Qed.

Lemma K_fold_dispatch evs s : K s -> K (fold_left (fun a ev => dispatch ev a) evs s).
Proof. revert s. induction evs as [|e r IH]; intros s Ks; cbn [fold_left]; [exact Ks|]. apply IH, K_dispatch, Ks. Qed.

Lemma t_due_spec l now :
  (forall x c, In (Run x c) (fst (t_due l now)) -> c = Ok /\ exists d, In (d,x) l /\ d <= now) /\
  (forall e, In e (fst (t_due l now)) -> exists x c, e = Run x c) /\
  (forall p, In p (snd (t_due l now)) -> In p l).
Proof.
  induction l as [|[d y] r IH]; cbn [t_due].
  - cbn. repeat split; intros; contradiction.
  - destruct (N.leb_spec d now).
    + destruct (t_due r now) as [q l'] eqn:E. cbn [fst snd] in *. destruct IH as [I1 [I2 I3]]. repeat split.
      * destruct H0 as [H0|H0]; [inversion H0; reflexivity|apply (I1 x c H0)].
      * destruct H0 as [H0|H0]; [inversion H0; subst; exists d; split; [left; reflexivity|exact H]|].
        destruct (I1 x c H0) as [_ [d' [P Q]]]. exists d'. split; [right; exact P|exact Q].
      * intros e [<-|H0]; [exists y, Ok; reflexivity|apply I2, H0].
      * intros p H0. right. apply I3, H0.
    + cbn [fst snd]. repeat split; intros; try contradiction. assumption.
Qed.

Lemma K_timers_stage s : K s -> K (timers_stage s).
Proof.
  intros Ks. unfold timers_stage. destruct (stop s); [revert Ks; apply K_ext; reflexivity|].
  pose proof (t_due_spec (timers s) (clock s)) as [S1 [S2 S3]].
  destruct (t_due (timers s) (clock s)) as [q t']. cbn [fst snd] in *.
  destruct Ks as [A B C D F G]. constructor; sst; try assumption.
  - intros dl h H. apply C, S3, H.
  - intros e H. apply in_app_or in H. destruct H as [H|H]; [exact (D e H)|].
    destruct (S2 e H) as [x [c ->]]. destruct (S1 x c H) as [-> [d [P Q]]].
    exists (KTimer d). split; [apply C, P|]. cbn [code_ok]. right. split; [reflexivity|exact Q].
Qed.

Lemma K_after_lock s : K s -> running s = None -> K (after_lock s).
Proof.
  intros Ks R. unfold after_lock. destruct (queue s) as [|e q'] eqn:Q; [apply K_timers_stage, Ks|].
  destruct (negb (stop s) && negb (Nat.eqb (counter s) 0)); [|apply K_timers_stage, Ks].
  destruct Ks as [A B C D F G]. constructor; sst; try assumption.
  - intros x H. apply D. rewrite Q. right. exact H.
  - intros x H. inversion H; subst. apply D. rewrite Q. left. reflexivity.
Qed.

Lemma t_insert_in l dl h p : In p (t_insert l dl h) -> p = (dl,h) \/ In p l.
Proof.
  induction l as [|[d y] r IH]; cbn [t_insert].
  - intros [<-|[]]. left. reflexivity.
  - destruct (N.ltb dl d).
    + intros [<-|H]; [left; reflexivity|right; exact H].
    + intros [<-|H]; [right; left; reflexivity|]. destruct (IH H) as [E|E]; [left; exact E|right; right; exact E].
Qed.
Lemma t_remove_in l h p : In p (t_remove l h) -> In p l.
Proof.
  induction l as [|[d y] r IH]; cbn [t_remove]; [tauto|].
  destruct (N.eqb y h); [intros H; right; exact H|]. intros [<-|H]; [left; reflexivity|right; apply IH, H].
Qed.
Lemma t_mem_in l h : t_mem l h = true -> exists dl, In (dl,h) l.
Proof.
  induction l as [|[d y] r IH]; cbn [t_mem]; [discriminate|].
  destruct (N.eqb_spec y h) as [->|Hne]; [intros _; exists d; left; reflexivity|].
  intros H. destruct (IH H) as [dl I]. exists dl. right. exact I.
Qed.

Lemma fresh_submit_in h k s : In (h,k) (subs (submit h k s)).
Proof. unfold submit. sst. apply in_or_app. right. left. reflexivity. Qed.

Lemma K_step l s : Rinv s -> K s -> K (step l s).
Proof.
  intros RI Ks. destruct l; cbn [step].
  - destruct (fresh h s); [|exact Ks]. apply K_wip, K_push; [apply K_submit, Ks|].
    exists (KPost c). split; [apply fresh_submit_in|reflexivity].
  - destruct (fresh h s); [|exact Ks]. cbn zeta.
    destruct (polling (submit h (KIo fd d) s) || negb (reactor (submit h (KIo fd d) s))).
    + apply K_wip, K_push; [apply K_submit, Ks|]. apply fresh_submit_in.
    + apply K_do_setter; [apply K_submit, Ks|apply fresh_submit_in].
  - destruct (Z.eqb fd (-1)); [exact Ks|].
    destruct (negb (q_nonempty s || iod_busy (fd_get (fdmap s) fd))); [exact Ks|].
    destruct (polling s || negb (reactor s)); [apply K_wip, K_push; [exact Ks|exact I]|apply K_do_canceler, Ks].
  - destruct (fresh h s); [|exact Ks]. cbn zeta.
    assert (K (set_timers (submit h (KTimer dl) s) (t_insert (timers s) dl h))) as K1.
    { pose proof (K_submit h (KTimer dl) s Ks) as [A B C D F G]. constructor; sst; try assumption.
      intros d x H. apply t_insert_in in H. destruct H as [H|H]; [inversion H; subst; apply fresh_submit_in|].
      apply (C d x). unfold submit. sst. exact H. }
    destruct (timers (set_timers (submit h (KTimer dl) s) (t_insert (timers s) dl h))) as [|[d0 x0] r]; [exact K1|].
    destruct (polling (set_timers (submit h (KTimer dl) s) (t_insert (timers s) dl h)) && N.leb dl d0); [apply K_wake|]; exact K1.
  - destruct (t_mem (timers s) h) eqn:M; [|exact Ks]. apply K_wip.
    destruct (t_mem_in _ _ M) as [dl I].
    assert (K (push (Run h Canceled) s)) as K1.
    { apply K_push; [exact Ks|]. exists (KTimer dl). split; [apply (K_tm s Ks), I|left; reflexivity]. }
    destruct K1 as [A B C D F G]. constructor; sst; try assumption.
    intros d x H. apply (K_tm s Ks). apply (t_remove_in _ _ _ H).
  - apply K_wip. revert Ks. apply K_ext. reflexivity.
  - destruct (is_pc s Idle); [|exact Ks]. destruct Ks as [A B C D F G]. constructor; sst; try assumption.
    + intros fd h. cbn. discriminate.
    + intros fd h. cbn. discriminate.
    + intros e [].
  - destruct Ks as [A B C D F G]. constructor; sst; try assumption.
    + intros e H. apply (entry_okk_mono (subs s) (subs s) (clock s)); [tauto|lia|exact (D e H)].
    + intros e H. apply (entry_okk_mono (subs s) (subs s) (clock s)); [tauto|lia|exact (F e H)].
    + intros h c t H. destruct (G h c t H) as [P Q]. split; [lia|exact Q].
  - destruct (is_pc s Idle) eqn:P; [|exact Ks]. apply K_after_lock.
    + revert Ks. apply K_ext. reflexivity.
    + sst. apply (Rinv_none s Idle RI (is_pc_true _ _ P)). discriminate.
  - destruct (is_pc s Popped); [|exact Ks]. cbn zeta.
    assert (K (set_lpc (set_running s None) Executed)) as K0.
    { destruct Ks as [A B C D F G]. constructor; sst; try assumption. discriminate. }
    destruct (running s) as [[k c|fd d k|fd]|] eqn:R.
    + pose proof (K_run s Ks _ R) as [kd [P Q]]. destruct K0 as [A B C D F G]. constructor; sst; try assumption.
      intros h c0 t H. apply in_app_or in H. destruct H as [H|[H|[]]]; [exact (G h c0 t H)|].
      inversion H; subst. split; [lia|]. exists kd. split; assumption.
    + apply K_do_setter; [exact K0|]. exact (K_run s Ks _ R).
    + apply K_do_canceler, K0.
    + exact K0.
  - destruct (is_pc s Executed) eqn:P; [|exact Ks]. apply K_after_lock.
    + revert Ks. apply K_ext. reflexivity.
    + sst. apply (Rinv_none s Executed RI (is_pc_true _ _ P)). discriminate.
  - destruct (is_pc s Executed); [|exact Ks]. revert Ks. apply K_ext. reflexivity.
  - destruct (is_pc s Poll); [|exact Ks]. cbn zeta.
    assert (K (fold_left (fun a ev => dispatch ev a) evs (set_polling s false))) as K1.
    { apply K_fold_dispatch. revert Ks. apply K_ext. reflexivity. }
    destruct intr; match goal with |- context[if stop ?x then _ else _] => destruct (stop x) end;
      revert K1; apply K_ext; reflexivity.
  - destruct (is_pc s Poll && negb (q_nonempty s)); [|exact Ks]. revert Ks. apply K_ext. reflexivity.
Qed.

Lemma K_init : K st0.
Proof. constructor; cbn; intros; try discriminate; contradiction. Qed.
Lemma K_tick0 d : K (set_clock st0 d).
Proof. constructor; cbn; intros; try discriminate; contradiction. Qed.
