(* C17 -- progress of a queued handler under arbitrary interference by other threads (everything except stop/reset) *)
From CppcmsV Require Import Base.Tac C17.Defs C17.Proofs C17.Proofs2 C17.Proofs4 C17.Proofs6 C17.Solo.
Import ListNotations. Local Open Scope N_scope.

(* steps of other threads that may interleave freely; LStop and LReset are excluded on purpose *)
Definition other (l:label) : bool :=
  match l with LPost _ _ | LSetIo _ _ _ _ | LCancelIo _ | LSetTimer _ _ | LCancelTimer _ | LTick _ => true | _ => false end.
Definition others (ls:list label) : Prop := forallb other ls = true.

(* n times (others; LExec b; others; LDone), then trailing others *)
Inductive pairs : nat -> list label -> Prop :=
| pairs_O o : others o -> pairs 0 o
| pairs_S n o1 b o2 rest : others o1 -> others o2 -> pairs n rest ->
    pairs (S n) (o1 ++ [LExec b] ++ o2 ++ [LDone] ++ rest).
(* the loop thread performs LBegin and then n times (LExec b; LDone), with any number of other steps in between *)
Definition sched (n:nat) (ls:list label) : Prop :=
  exists o0 rest, others o0 /\ pairs n rest /\ ls = o0 ++ [LBegin] ++ rest.

Lemma run_labels_app a b s : run_labels (a ++ b) s = run_labels b (run_labels a s).
Proof. unfold run_labels. apply fold_left_app. Qed.
Lemma run_labels_cons l ls s : run_labels (l :: ls) s = run_labels ls (step l s).
Proof. reflexivity. Qed.

Ltac oframe :=
  unfold wake_if_polling, wake, push, submit, do_setter, do_canceler, push_opt; cbv zeta; sst;
  repeat (match goal with
          | |- context[if ?b then _ else _] => destruct b
          | |- context[match ?o with Some _ => _ | None => _ end] => destruct o
          | |- context[match ?d with DIn => _ | DOut => _ end] => destruct d
          | |- context[match ?l with [] => _ | _ :: _ => _ end] => destruct l as [|[? ?] ?]
          end; sst); sst.

Lemma other_frame5 l s : other l = true ->
  lpc (step l s) = lpc s /\ stop (step l s) = stop s /\ counter (step l s) = counter s /\
  running (step l s) = running s /\ log (step l s) = log s.
Proof.
  intros O. destruct l; try discriminate O; cbn [step]; oframe; repeat split; reflexivity.
Qed.

Lemma other_pops l : other l = true -> pops l = false.
Proof. destruct l; intros H; try discriminate H; reflexivity. Qed.

Lemma other_frame l s : other l = true ->
  lpc (step l s) = lpc s /\ stop (step l s) = stop s /\ counter (step l s) = counter s /\
  running (step l s) = running s /\ log (step l s) = log s /\ exists q', queue (step l s) = queue s ++ q'.
Proof.
  intros O. destruct (other_frame5 l s O) as [A [B [C [D E]]]].
  split; [exact A|]. split; [exact B|]. split; [exact C|]. split; [exact D|]. split; [exact E|].
  apply others_only_append, other_pops, O.
Qed.

Lemma others_frame : forall ls s, others ls ->
  lpc (run_labels ls s) = lpc s /\ stop (run_labels ls s) = stop s /\ counter (run_labels ls s) = counter s /\
  running (run_labels ls s) = running s /\ log (run_labels ls s) = log s /\
  exists q', queue (run_labels ls s) = queue s ++ q'.
Proof.
  unfold others. induction ls as [|l r IH]; intros s O.
  - cbn. repeat split. exists []. rewrite app_nil_r. reflexivity.
  - cbn [forallb] in O. apply andb_true_iff in O. destruct O as [O1 O2].
    rewrite run_labels_cons.
    destruct (IH (step l s) O2) as [A [B [C [D [E [q2 F]]]]]].
    destruct (other_frame l s O1) as [A1 [B1 [C1 [D1 [E1 [q1 F1]]]]]].
    split; [congruence|]. split; [congruence|]. split; [congruence|]. split; [congruence|]. split; [congruence|].
    exists (q1 ++ q2). rewrite F, F1, app_assoc. reflexivity.
Qed.

(* ---- the log only grows ---- *)
Lemma log_eq_dec (a b:list (N*code*N)) : {a = b} + {a <> b}.
Proof. repeat decide equality. Qed.

Lemma log_same_or_exec l s : log (step l s) = log s \/ exists se, l = LExec se.
Proof.
  destruct (log_eq_dec (log (step l s)) (log s)) as [E|NE]; [left; exact E|right].
  apply (log_step_only_exec l s NE).
Qed.

Lemma log_mono_step l s : exists l', log (step l s) = log s ++ l'.
Proof.
  destruct (log_same_or_exec l s) as [E|[se X]].
  - exists []. rewrite app_nil_r. exact E.
  - subst l. destruct (exec_logs_running se s) as [E|[h [c [_ [_ E]]]]].
    + exists []. rewrite app_nil_r. exact E.
    + eexists. exact E.
Qed.

Lemma log_mono_run : forall ls s, exists l', log (run_labels ls s) = log s ++ l'.
Proof.
  induction ls as [|l r IH]; intros s.
  - exists []. rewrite app_nil_r. reflexivity.
  - rewrite run_labels_cons. destruct (IH (step l s)) as [l2 E2]. destruct (log_mono_step l s) as [l1 E1].
    exists (l1 ++ l2). rewrite E2, E1, app_assoc. reflexivity.
Qed.

Lemma log_incl_run ls s x : In x (log s) -> In x (log (run_labels ls s)).
Proof. intros I. destruct (log_mono_run ls s) as [l' E]. rewrite E. apply in_or_app. left. exact I. Qed.

(* ---- the drain under interference ---- *)
(* the loop thread holds e, the entries pre are in front of the queue and the budget covers them: after
   S (length pre) exec/done pairs every completion entry among e :: pre has been invoked *)
Lemma drain_fair : forall pre n rest, pairs n rest -> n = S (length pre) ->
  forall s e post, lpc s = Popped -> stop s = false -> running s = Some e -> queue s = pre ++ post ->
  (S (length pre) <= counter s)%nat ->
  forall h c, In (Run h c) (e :: pre) -> exists t, In (h,c,t) (log (run_labels rest s)).
Proof.
  induction pre as [|x pre IH]; intros n rest PR N; destruct PR as [o O|n o1 b o2 rest O1 O2 PR]; try discriminate N;
    injection N as N; intros s e post P ST R Q C h c I.
  - (* the held entry is the target *)
    destruct I as [I|[]]. subst e.
    rewrite run_labels_app.
    destruct (others_frame o1 s O1) as [A1 [B1 [C1 [D1 [E1 [q1 F1]]]]]].
    rewrite run_labels_app. change (run_labels [LExec b]) with (step (LExec b)).
    destruct (exec_facts b (run_labels o1 s) (Run h c)) as [_ [_ [_ [_ [_ [_ [_ L]]]]]]]; [congruence|congruence|].
    exists (clock (run_labels o1 s)). apply log_incl_run. apply L. reflexivity.
  - cbn [length] in C.
    rewrite run_labels_app.
    destruct (others_frame o1 s O1) as [A1 [B1 [C1 [D1 [E1 [q1 F1]]]]]].
    set (s1 := run_labels o1 s) in *.
    rewrite run_labels_app. change (run_labels [LExec b] s1) with (step (LExec b) s1).
    destruct (exec_facts b s1 e) as [A2 [B2 [_ [_ [C2 [[q2 F2] [_ L2]]]]]]]; [congruence|congruence|].
    set (s2 := step (LExec b) s1) in *.
    destruct I as [I|I].
    + subst e. exists (clock s1). apply log_incl_run. apply L2. reflexivity.
    + rewrite run_labels_app.
      destruct (others_frame o2 s2 O2) as [A3 [B3 [C3 [D3 [E3 [q3 F3]]]]]].
      set (s3 := run_labels o2 s2) in *.
      rewrite run_labels_app. change (run_labels [LDone] s3) with (step LDone s3).
      assert (queue s3 = x :: (pre ++ (post ++ q1 ++ q2 ++ q3))) as Q3.
      { rewrite F3, F2, F1, Q. cbn [app]. rewrite <- !app_assoc. reflexivity. }
      assert (exists k, counter s3 = S (S k)) as [k C3'].
      { exists (pred (pred (counter s3))). rewrite C3, C2, C1. lia. }
      assert (lpc s3 = Executed) as P3 by congruence.
      assert (stop s3 = false) as ST3 by congruence.
      rewrite (done_pop s3 x _ k P3 ST3 Q3 C3').
      apply (IH n rest PR N _ x (post ++ q1 ++ q2 ++ q3)); sst; try reflexivity; try assumption.
      assert (counter s3 = counter s) as CC by congruence. lia.
Qed.

(* whatever the other threads post / arm / cancel and whatever time passes meanwhile, a completion entry that is in the
   dispatch queue is invoked once the loop thread has started a run_one and executed as many entries as were in
   front of it plus one *)
Theorem queued_handler_runs_despite_interference : forall s q1 h c q2 ls,
  lpc s = Idle -> stop s = false -> running s = None -> queue s = q1 ++ Run h c :: q2 ->
  sched (S (length q1)) ls ->
  exists t, In (h,c,t) (log (run_labels ls s)).
Proof.
  intros s q1 h c q2 ls P ST _ Q [o0 [rest [O0 [PR E]]]]. subst ls.
  rewrite run_labels_app.
  destruct (others_frame o0 s O0) as [A0 [B0 [_ [_ [_ [q0 F0]]]]]].
  set (s0 := run_labels o0 s) in *.
  rewrite run_labels_app. change (run_labels [LBegin] s0) with (step LBegin s0).
  assert (queue s0 = (q1 ++ [Run h c]) ++ (q2 ++ q0)) as Q0.
  { rewrite F0, Q. rewrite <- !app_assoc. reflexivity. }
  assert (length (q1 ++ [Run h c]) = S (length q1)) as LEN by (rewrite app_length; cbn [length]; lia).
  assert (In (Run h c) (q1 ++ [Run h c])) as IN by (apply in_or_app; right; left; reflexivity).
  destruct (q1 ++ [Run h c]) as [|e pre] eqn:EQ; [discriminate LEN|].
  cbn [length] in LEN. injection LEN as LEN. cbn [app] in Q0.
  assert (stop s0 = false) as ST0 by congruence.
  pose proof (begin_pops_front s0 e (pre ++ q2 ++ q0) (is_pc_of s0 Idle (eq_trans A0 P)) ST0 Q0) as BP.
  cbv zeta in BP. destruct BP as [R1 [Q1 [P1 C1]]].
  rewrite <- LEN in PR.
  apply (drain_fair pre (S (length pre)) rest PR eq_refl (step LBegin s0) e (q2 ++ q0)).
  - exact P1.
  - cbn [step]. rewrite (is_pc_of s0 Idle (eq_trans A0 P)). unfold after_lock. sst. rewrite Q0, ST0.
    cbn [negb andb length Nat.eqb]. sst. exact ST0.
  - exact R1.
  - exact Q1.
  - rewrite C1, app_length. lia.
  - exact IN.
Qed.

(* the same schedules, given as a list of segments (b, o1, o2) standing for o1 ++ [LExec b] ++ o2 ++ [LDone] *)
Definition seg_labels (x : bool * list label * list label) : list label :=
  match x with (b, o1, o2) => o1 ++ [LExec b] ++ o2 ++ [LDone] end.

Lemma pairs_of_segments : forall segs, (forall b o1 o2, In (b,o1,o2) segs -> others o1 /\ others o2) ->
  pairs (length segs) (flat_map seg_labels segs).
Proof.
  induction segs as [|[[b o1] o2] r IH]; intros H.
  - apply pairs_O. reflexivity.
  - cbn [length flat_map seg_labels]. destruct (H b o1 o2 (or_introl eq_refl)) as [O1 O2].
    replace ((o1 ++ [LExec b] ++ o2 ++ [LDone]) ++ flat_map seg_labels r)
      with (o1 ++ [LExec b] ++ o2 ++ [LDone] ++ flat_map seg_labels r) by (rewrite <- !app_assoc; reflexivity).
    apply pairs_S; [exact O1|exact O2|]. apply IH. intros b0 a1 a2 I. apply (H b0 a1 a2). right. exact I.
Qed.

Lemma sched_of_segments o0 segs : others o0 -> (forall b o1 o2, In (b,o1,o2) segs -> others o1 /\ others o2) ->
  sched (length segs) (o0 ++ [LBegin] ++ flat_map seg_labels segs).
Proof.
  intros O0 H. exists o0, (flat_map seg_labels segs). split; [exact O0|]. split; [apply pairs_of_segments, H|reflexivity].
Qed.

Corollary queued_handler_runs_segments : forall s q1 h c q2 o0 segs,
  lpc s = Idle -> stop s = false -> running s = None -> queue s = q1 ++ Run h c :: q2 ->
  length segs = S (length q1) -> others o0 -> (forall b o1 o2, In (b,o1,o2) segs -> others o1 /\ others o2) ->
  exists t, In (h,c,t) (log (run_labels (o0 ++ [LBegin] ++ flat_map seg_labels segs) s)).
Proof.
  intros s q1 h c q2 o0 segs P ST R Q L O0 H.
  apply (queued_handler_runs_despite_interference s q1 h c q2 _ P ST R Q). rewrite <- L. apply sched_of_segments; assumption.
Qed.

(* the schedule predicate is not vacuous: the loop thread alone, one entry *)
Example sched_example : sched 1 [LPost 7 Ok; LBegin; LTick 3; LExec false; LCancelIo 4; LDone; LTick 1].
Proof.
  exists [LPost 7 Ok], [LTick 3; LExec false; LCancelIo 4; LDone; LTick 1]. split; [reflexivity|]. split; [|reflexivity].
  apply (pairs_S 0 [LTick 3] false [LCancelIo 4] [LTick 1]); [reflexivity|reflexivity|]. apply pairs_O. reflexivity.
Qed.
